import sympy as sp, itertools, json
pc,ps,mc,ms,c,s,Ki,Kh = sp.symbols('pc ps mc ms c s Ki Kh')
gens=[pc,ps,mc,ms,c,s,Ki,Kh]
rels=[('hK.ii',Ki*Ki+1),('hK.hh',2*Kh*Kh-1),('hp',pc*pc+ps*ps-1),('hm',mc*mc+ms*ms-1),('hc',c*c+s*s-1)]
def rz(cs): cc,ss=cs; return sp.Matrix([[cc-Ki*ss,0],[0,cc+Ki*ss]])
def u1(cs): cc,ss=cs; return sp.Matrix([[1,0],[0,(cc+Ki*ss)**2]])
def rx(cs): cc,ss=cs; return sp.Matrix([[cc,-Ki*ss],[-Ki*ss,cc]])
sx = sp.Matrix([[Kh*Kh*(1+Ki),Kh*Kh*(1-Ki)],[Kh*Kh*(1-Ki),Kh*Kh*(1+Ki)]])
def u3(t,p,l):
    ep=(p[0]+Ki*p[1])**2; el=(l[0]+Ki*l[1])**2
    return sp.Matrix([[t[0],-el*t[1]],[ep*t[1],ep*el*t[0]]])
A1=pc*mc-ps*ms; A2=pc*ms+ps*mc; B1=pc*mc+ps*ms; B2=ps*mc-pc*ms
su2=sp.Matrix([[(A1-Ki*A2)*c,-(B1-Ki*B2)*s],[(B1+Ki*B2)*s,(A1+Ki*A2)*c]])
# variable formulas
amb=(mc,ms)      # (a-b)/2
apb=(pc,ps)      # (a+b)/2
apb_pi=(-apb[1], apb[0])             # +pi/2
th_pi=(-s, c)
q=(Kh,Kh)  # half of pi/2
rules={
 'U3Decomposition': (u3((c,s),apb,amb), [(c,s),apb,amb]),
 'ZXZXZ_rx_rz': (rz(apb_pi)*rx(q)*rz(th_pi)*rx(q)*rz(amb), [amb,th_pi,apb_pi]),
 'ZXZXZ_sx_rz': (rz(apb_pi)*sx*rz(th_pi)*sx*rz(amb), [amb,th_pi,apb_pi]),
 'ZXZXZ_rx_u1': (u1(apb_pi)*rx(q)*u1(th_pi)*rx(q)*u1(amb), [amb,th_pi,apb_pi]),
 'ZXZXZ_sx_u1': (u1(apb_pi)*sx*u1(th_pi)*sx*u1(amb), [amb,th_pi,apb_pi]),
}
def red(e):
    qs,r=sp.reduced(sp.expand(e),[p for _,p in rels],*gens)
    return qs,r
al2=(A1+Ki*A2)
cands=[]
for eps in (1,-1,Ki,-Ki):
    for f in (1, al2, al2*(c+Ki*s), (c+Ki*s)):
        cands.append(sp.expand(eps*f))
def conj(e): return sp.expand(e.subs(Ki,-Ki))
out={}
for name,(M,vars_) in rules.items():
    found=None
    for ph in cands:
        D=(M-ph*su2).applyfunc(sp.expand)
        ok=all(red(D[i,j])[1]==0 for i in range(2) for j in range(2))
        if ok: found=ph; break
    print(name, 'ph =', found)
    D=(M-found*su2)
    ent={}
    for i in range(2):
        for j in range(2):
            qs,r=red(D[i,j]); assert r==0
            ent[f'{i}{j}']=[(n,str(sp.factor(qq) if False else qq)) for (n,_),qq in zip(rels,qs) if qq!=0]
    qs,r=red(found*conj(found)-1); assert r==0
    out[name]={'M':[[str(sp.expand(M[i,j])) for j in range(2)] for i in range(2)],'ph':str(found),'phc':str(conj(found)),'unit':[(n,str(qq)) for (n,_),qq in zip(rels,qs) if qq!=0],'ent':ent,'vars':[[str(sp.expand(a)),str(sp.expand(b))] for a,b in vars_]}
json.dump(out,open('su2.json','w'),indent=1)
for k,v in out.items():
    print(k, v['ph'], {e:sum(len(c) for _,c in l) for e,l in v['ent'].items()})
