#!/usr/bin/env python3
import json, sys, glob, jsonschema
s = json.load(open('/root/.vp/EVIDENCE.schema.json'))
for f in sorted(glob.glob('/verif/evidence/*.json')):
    try:
        jsonschema.validate(json.load(open(f)), s); print('ok', f)
    except Exception as e:
        print('BAD', f, str(e)[:300])
