#!/usr/bin/env python3
"""Run every claimed check (quick tier by default) for the given seeds, sequentially, and summarise.
   tools/run_all.py [--tier quick] [--seeds 0,1,2] [Cxx ...]"""
import json, os, subprocess, sys, time
from pathlib import Path
V = Path(__file__).resolve().parent.parent
args = sys.argv[1:]
tier = 'quick'; seeds = [0]
if '--tier' in args: i = args.index('--tier'); tier = args[i+1]; del args[i:i+2]
if '--seeds' in args: i = args.index('--seeds'); seeds = [int(x) for x in args[i+1].split(',')]; del args[i:i+2]
m = json.loads((V/'MANIFEST.json').read_text())
pids = args or [c['property_id'] for c in m['checks']]
rows = []
for pid in pids:
    for s in seeds:
        t = time.time()
        try:
            r = subprocess.run([str(V/'check'), pid, '--tier', tier], cwd=V, text=True, timeout=5400,
                               env=dict(os.environ, VERIF_SEED=str(s)), stdout=subprocess.PIPE, stderr=subprocess.STDOUT)
            code = r.returncode; out = r.stdout
        except subprocess.TimeoutExpired as e:
            code = 'timeout'; out = (e.stdout or b'').decode() if isinstance(e.stdout, bytes) else (e.stdout or '')
        lines = [l for l in out.splitlines() if l.startswith(('VIOLATION', 'KNOWN-FINDING', 'INFRA', 'Traceback'))]
        rows.append((pid, s, code, round(time.time()-t), lines[:4]))
        print(pid, 'seed', s, 'exit', code, f'{round(time.time()-t)}s', *[l[:160] for l in lines[:4]], sep=' | ', flush=True)
bad = [r for r in rows if r[2] != 0]
print('SUMMARY: %d runs, %d not exit 0' % (len(rows), len(bad)))
