#!/usr/bin/env python3
"""Prints the markdown table of seeded changes and which checks caught them (from seeded/*/meta.json)."""
import json
from pathlib import Path
V = Path(__file__).resolve().parent.parent
print('| id | property | change (what it needs to manifest) | result of the property\'s quick check |')
print('|---|---|---|---|')
for d in sorted((V/'seeded').iterdir()):
    m = d/'meta.json'
    if not m.exists(): continue
    j = json.loads(m.read_text())
    res = []
    own = j.get('property')
    for k, v in sorted((j.get('check_results') or {}).items(), key=lambda kv: (not kv[0].startswith(str(own)), kv[0])):
        lines = [l for l in v.get('lines', []) if l.startswith('VIOLATION')]
        nf = any('no-failing-input-found' in l for l in lines) and not any('no-failing-input-found' not in l for l in lines)
        caught = v.get('exit') == 1
        how = 'caught (exit 1' + (', no-failing-input-found' if nf else ', failing input reported') + ')'
        if k.startswith(str(own)):
            res.append(f"{k}: " + (how if caught else f"NOT caught (exit {v.get('exit')})"))
        else:
            res.append(f"also run against {k}: " + (how if caught else 'silent'))
    note = j.get('maintainer_note', '') or j.get('why_missed', '')
    if isinstance(note, dict):
        note = '; '.join(f'{a}: {b}' for a, b in note.items())
    note = str(note)
    summ = (j.get('summary', '')[:170] + ' — needs: ' + str(j.get('what_it_needs_to_manifest', ''))[:150]).replace('|', '/').replace('\n', ' ')
    print(f"| {d.name} | {own} | {summ} | {'; '.join(res) or 'not run yet'}{(' — ' + note[:300].replace('|', '/')) if note else ''} |")
