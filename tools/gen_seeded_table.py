#!/usr/bin/env python3
"""Prints the markdown table of seeded changes and which checks caught them (from seeded/*/meta.json)."""
import json
from pathlib import Path
V = Path(__file__).resolve().parent.parent
print('| id | property | change (what it needs to manifest) | result of the property\'s quick check |')
print('|---|---|---|---|')
for d in sorted((V/'seeded').iterdir()):
    m = d/'meta.json'
    if not m.exists(): continue
    j = json.loads(m.read_text())
    res = []
    for k, v in (j.get('check_results') or {}).items():
        lines = [l for l in v.get('lines', []) if l.startswith('VIOLATION')]
        nf = any('no-failing-input-found' in l for l in lines) and not any('no-failing-input-found' not in l for l in lines)
        res.append(f"{k}: " + ('caught (exit 1' + (', no-failing-input-found' if nf else ', failing input reported') + ')' if v.get('exit') == 1 else f"NOT caught (exit {v.get('exit')})"))
    note = j.get('maintainer_note', '')
    summ = (j.get('summary', '')[:170] + ' — needs: ' + j.get('what_it_needs_to_manifest', '')[:150]).replace('|', '/').replace('\n', ' ')
    print(f"| {d.name} | {j.get('property')} | {summ} | {'; '.join(res) or 'not run yet'}{(' — ' + note[:260]) if note else ''} |")
