#!/usr/bin/env python3
"""known_findings.json (the single committed known-findings file read by the checks; never written
at run time) is assembled from known_findings.d/Cxx.json so per-property work does not conflict."""
import json
from pathlib import Path
V = Path(__file__).resolve().parent.parent
entries = []
for f in sorted((V / 'known_findings.d').glob('C*.json')):
    entries += json.loads(f.read_text())
out = {
    'comment': 'Genuine defects of /repo. status=finding: recorded, matched by signature (regex, fullmatch) and printed as '
               'KNOWN-FINDING; status=fixed: repaired by a fix: commit in /repo, suppresses nothing. Never written at run time. '
               'Assembled by tools/gen_known_findings.py from known_findings.d/.',
    'entries': entries,
}
(V / 'known_findings.json').write_text(json.dumps(out, indent=1) + '\n')
print(len(entries), 'entries')
