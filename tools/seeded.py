#!/usr/bin/env python3
"""Run checks against a seeded change.

  tools/seeded.py confirm <dir>        # dir has patch.diff demo.py meta.json: demo passes clean, fails patched
  tools/seeded.py run <seeded/id> [Cxx ...] [--tier quick]   # apply in a scratch worktree, run checks via VERIF_REPO

Nothing is applied to /repo itself: a scratch git worktree of /repo's HEAD under /tmp/seeded_apply is used and the
checks are pointed at it with VERIF_REPO (they import bqskit from there).  The worktree is removed afterwards.
"""
import json
import os
import subprocess
import sys
import time
from pathlib import Path

V = Path(__file__).resolve().parent.parent
SCR = Path('/tmp/seeded_apply')


def sh(cmd, **kw):
    return subprocess.run(cmd, shell=isinstance(cmd, str), text=True,
                          stdout=subprocess.PIPE, stderr=subprocess.STDOUT, **kw)


def fresh_worktree(tag):
    d = SCR / tag
    if d.exists():
        sh(f'git -C /repo worktree remove --force {d}')
    d.parent.mkdir(parents=True, exist_ok=True)
    r = sh(f'git -C /repo worktree add --detach {d} HEAD')
    assert r.returncode == 0, r.stdout
    return d


def drop(d):
    sh(f'git -C /repo worktree remove --force {d}')


def confirm(src: Path):
    d = fresh_worktree('confirm_' + src.parent.name + src.name)
    env = dict(os.environ, PYTHONPATH=str(d))
    try:
        r0 = sh(['/venv/bin/python', str(src / 'demo.py')], env=env, timeout=900)
        a = sh(f'git -C {d} apply {src / "patch.diff"}')
        if a.returncode != 0:
            return {'applies': False, 'log': a.stdout[-500:]}
        r1 = sh(['/venv/bin/python', str(src / 'demo.py')], env=env, timeout=900)
        return {'applies': True, 'clean_exit': r0.returncode, 'patched_exit': r1.returncode,
                'clean_tail': r0.stdout[-300:], 'patched_tail': r1.stdout[-600:]}
    finally:
        drop(d)


def run(sd: Path, pids, tier):
    d = fresh_worktree('run_' + sd.name)
    out = {}
    gen = V / 'lean' / 'BqVerif' / 'Generated'
    gen_keep = {f: f.read_bytes() for f in gen.glob('*.lean')}   # translators rewrite these from VERIF_REPO
    try:
        a = sh(f'git -C {d} apply {sd / "patch.diff"}')
        assert a.returncode == 0, a.stdout
        for pid in pids:
            t = time.time()
            ev = V / 'evidence' / f'{pid}.json'
            keep = ev.read_text() if ev.exists() else None
            r = sh([str(V / 'check'), pid, '--tier', tier], cwd=V,
                   env=dict(os.environ, VERIF_REPO=str(d)), timeout=7200)
            if keep is not None:
                ev.write_text(keep)      # evidence must describe runs on /repo itself
            lines = [l for l in r.stdout.splitlines() if l.startswith(('VIOLATION', 'KNOWN-FINDING', '  #'))]
            out[pid] = {'exit': r.returncode, 'wall_s': round(time.time() - t, 1), 'lines': lines[:80]}
    finally:
        drop(d)
        for f in gen.glob('*.lean'):
            if f not in gen_keep:
                f.unlink()
        for f, b in gen_keep.items():
            if not f.exists() or f.read_bytes() != b:
                f.write_bytes(b)
    return out


if __name__ == '__main__':
    if sys.argv[1] == 'confirm':
        print(json.dumps(confirm(Path(sys.argv[2]).resolve()), indent=1))
    elif sys.argv[1] == 'run':
        args = sys.argv[2:]
        tier = 'quick'
        if '--tier' in args:
            i = args.index('--tier')
            tier = args[i + 1]
            del args[i:i + 2]
        sd = Path(args[0]).resolve()
        meta = json.loads((sd / 'meta.json').read_text())
        pids = args[1:] or [meta['property']]
        res = run(sd, pids, tier)
        print(json.dumps(res, indent=1))
        meta.setdefault('check_results', {}).update({f'{k}:{tier}': v for k, v in res.items()})
        (sd / 'meta.json').write_text(json.dumps(meta, indent=1))
