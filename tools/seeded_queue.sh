#!/bin/bash
# tools/seeded_queue.sh : runs seeded/<id> entries listed in /tmp/me/seeded_queue.txt one at a time (append ids to that file).
Q=/tmp/me/seeded_queue.txt; D=/tmp/me/seeded_done.txt; touch $Q $D
cd /verif
while true; do
  id=$(grep -vxFf $D $Q | head -1)
  if [ -z "$id" ]; then sleep 30; continue; fi
  if pgrep -f "tools/seeded.py run" >/dev/null; then sleep 30; continue; fi
  p=${id%-*}
  { echo "=== $id $(date +%H:%M)"; timeout 900 python3 tools/seeded.py confirm seeded/$id | grep -v tail; timeout 3600 python3 tools/seeded.py run seeded/$id $p | cut -c1-300; } >> /tmp/me/seeded_queue.log 2>&1
  echo "$id" >> $D
done
