import sympy as sp, json
pc,ps,mc,ms,c,s,Ki,Kh = sp.symbols('pc ps mc ms c s Ki Kh')
gens=[pc,ps,mc,ms,c,s,Ki,Kh]
rels=[('hK.ii',Ki*Ki+1),('hK.hh',2*Kh*Kh-1),('hp',pc*pc+ps*ps-1),('hm',mc*mc+ms*ms-1),('hc',c*c+s*s-1)]
def rz(cs): cc,ss=cs; return sp.Matrix([[cc-Ki*ss,0],[0,cc+Ki*ss]])
def u1(cs): cc,ss=cs; return sp.Matrix([[1,0],[0,(cc+Ki*ss)**2]])
rx = sp.Matrix([[Kh,-Ki*Kh],[-Ki*Kh,Kh]])
sx = sp.Matrix([[Kh*Kh*(1+Ki),Kh*Kh*(1-Ki)],[Kh*Kh*(1-Ki),Kh*Kh*(1+Ki)]])
l=(mc,ms); t=(-s,c); p=(-ps,pc)
F=(mc+Ki*ms)*(-s+Ki*c)*(-ps+Ki*pc)
res={}
for nm,X in (('rx',rx),('sx',sx)):
    Mu=u1(p)*X*u1(t)*X*u1(l); Mr=rz(p)*X*rz(t)*X*rz(l)
    ent={}
    for i in range(2):
        for j in range(2):
            D=sp.expand(Mu[i,j]-F*Mr[i,j])
            rr=[x for x in rels if x[0]!='hK.hh']; qs,r=sp.reduced(D,[q for _,q in rr],*gens); assert r==0, r
            ent[f'{i}{j}']=[(n,str(q)) for (n,_),q in zip(rr,qs) if q!=0]
            assert '/' not in str(qs), qs
    res[nm]=ent
    print(nm,{k:sum(len(q) for _,q in v) for k,v in ent.items()})
json.dump(res,open('u1cert.json','w'))
