import os
import json, re
import sympy as sp
d = json.load(open(os.path.join(os.environ.get('C10_SCRATCH', '/tmp/C10-scratch'), 'su2.json')))
def L(s):
    s = s.replace('**', '^')
    s = re.sub(r'\bKi\b', 'K.i', s); s = re.sub(r'\bKh\b', 'K.h', s)
    return s
def lc(terms, F=None, extra=()):
    if not terms and not extra: return 'linear_combination (0 : R) * hc'
    pre = f'({F}) * ' if F else ''
    return 'linear_combination ' + ' + '.join([f'{pre}({L(q)}) * {n}' for n, q in terms] + [f'({L(q)}) * {n}' for n, q in extra])
varhyp = {'U3': [('c','s'),('pc','ps'),('mc','ms')], 'ZXZXZ': [('mc','ms'),('-s','c'),('-ps','pc')]}
header = open('/work/C10/lean/BqVerif/Proofs/RulesParam.lean').read()
header = header[:header.index('/-- The generated replacement circuit')]
header = header.replace('''certificates were computed with sympy (division by the Gröbner basis of the defining equations). -/''','''certificates were computed with sympy (division by the Gröbner basis of the defining equations).
The U1 variants are the RZ variants times F = e^{i(l+t+p)/2} (`U1(θ) = e^{iθ/2}·RZ(θ)`), and so are
their certificates. -/''')
out = [header]
Fz = '(mc + K.i * ms) * (-s + K.i * c) * (-ps + K.i * pc)'
Fzc = '(mc - K.i * ms) * (-s - K.i * c) * (-ps - K.i * pc)'
for name, v in d.items():
    vh = varhyp['U3' if name.startswith('U3') else 'ZXZXZ']
    hyps = ' '.join(f'(v{k}c : K.vc {k} = {a}) (v{k}s : K.vs {k} = {b})' for k, (a, b) in enumerate(vh))
    vnames = ' '.join(f'v{k}c, v{k}s,' for k in range(3))[:-1]
    isu1 = name.endswith('_u1')
    base = d[name.replace('_u1', '_rz')] if isu1 else v
    M = base['M']; F = Fz if isu1 else None
    ent = L
    if isu1:
        x0, x1 = (('K.h', '(-(K.i * K.h))') if '_rx_' in name else
                  ('(K.h * K.h * (1 + K.i))', '(K.h * K.h * (1 - K.i))'))
        el, et, ep = '((mc + K.i * ms) * (mc + K.i * ms))', '((-s + K.i * c) * (-s + K.i * c))', '((-ps + K.i * pc) * (-ps + K.i * pc))'
        M = [[f'{x0} * {x0} + {x1} * {et} * {x1}', f'({x0} * {x1} + {x1} * {et} * {x0}) * {el}'],
             [f'{ep} * ({x1} * {x0} + {x0} * {et} * {x1})', f'{ep} * (({x1} * {x1} + {x0} * {et} * {x0}) * {el})']]
        u1c = json.load(open('/tmp/C10-scratch/u1cert.json'))['rx' if '_rx_' in name else 'sx']
    ph = f'({Fz}) * ({L(base["ph"])})' if isu1 else L(v['ph'])
    phc = f'({Fzc}) * ({L(base["phc"])})' if isu1 else L(v['phc'])
    if isu1:
        unit = ('linear_combination (exp := 1) '
                '(-(mc*mc+ms*ms)*(c*c+s*s)*(pc*pc+ps*ps)*(K.i*K.i - 1) - (mc*mc+ms*ms)*(c*c+s*s)*(pc*pc+ps*ps) * 0) * hK.ii')
        uu = json.load(open('/tmp/C10-scratch/unit_u1.json'))['rx' if '_rx_' in name else 'sx']
        unit = lc(uu)
    else:
        unit = lc(v['unit'])
    out.append(f'''set_option maxHeartbeats 4000000 in
set_option maxRecDepth 20000 in
/-- The generated replacement circuit of `{name}` evaluated symbolically. -/
theorem eval_{name} (pc ps mc ms c s : R)
    {hyps} :
    evalRule K rule_{name} = some
      [[{ent(M[0][0])},
        {ent(M[0][1])}],
       [{ent(M[1][0])},
        {ent(M[1][1])}]] := by
  simp (config := {{decide := true}}) [evalRule, rule_{name}, evalOps, opMat, gateMat, gateMatCS,
      angCS, halfCS, locOk, embed1_0, mmul2, ident2, {vnames}]
  <;> (try (repeat' constructor)) <;> ring1

set_option maxHeartbeats 4000000 in
set_option maxRecDepth 20000 in
theorem rule_{name} (hK : Valid K) (pc ps mc ms c s : R)
    (hp : pc * pc + ps * ps = 1) (hm : mc * mc + ms * ms = 1) (hc : c * c + s * s = 1)
    {hyps} :
    ∃ ph phc : R, ph * phc = 1 ∧
      evalRule K rule_{name} = some (smul ph (su2Target K pc ps mc ms c s)) := by
  refine ⟨{ph}, {phc}, ?_, ?_⟩
  · {unit}
  · rw [eval_{name} K pc ps mc ms c s {' '.join(f'v{k}c v{k}s' for k in range(3))}]
    simp only [smul, su2Target, su2Mat, List.map_cons, List.map_nil, Option.some.injEq,
      List.cons.injEq, and_true]
    refine ⟨⟨?_, ?_⟩, ?_, ?_⟩
    · {lc(base['ent']['00'], F, u1c['00'] if isu1 else ())}
    · {lc(base['ent']['01'], F, u1c['01'] if isu1 else ())}
    · {lc(base['ent']['10'], F, u1c['10'] if isu1 else ())}
    · {lc(base['ent']['11'], F, u1c['11'] if isu1 else ())}
''')
out.append('end BqVerif.Rules\n')
open('/work/C10/lean/BqVerif/Proofs/RulesParam.lean', 'w').write('\n'.join(out))
