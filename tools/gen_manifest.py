#!/usr/bin/env python3
"""Regenerates MANIFEST.json from the table below and validates it."""
import json
import sys
from pathlib import Path

V = Path(__file__).resolve().parent.parent
PROPS = [json.loads(l)['id'] for l in (V / 'properties.jsonl').read_text().splitlines() if l.strip()]

BASELINE = ('cd /repo && /venv/bin/python -m pytest -ra -q -p no:cacheprovider '
            '--timeout=900 --continue-on-collection-errors')

# one JSON snippet per claimed property: manifest.d/Cxx.json with keys technique, text, note, design_ref
CLAIMED = {}
for f in sorted((V / 'manifest.d').glob('C*.json')):
    d = json.loads(f.read_text())
    CLAIMED[f.stem] = (d['technique'], d['text'], d['note'], d['design_ref'])

NOT_YET = 'check not built yet in this round (design in DESIGN.md section 4); not claimed until its model, theorems and tie exist'


def main():
    checks = []
    for pid in PROPS:
        if pid not in CLAIMED:
            continue
        tech, text, note, ref = CLAIMED[pid]
        checks.append({
            'property_id': pid,
            'quick_cmd': f'./check {pid} --tier quick',
            'thorough_cmd': f'./check {pid} --tier thorough',
            'evidence_file': f'evidence/{pid}.json',
            'replay_cmd_template': f'./check {pid} --replay {{path}}',
            'engine': 'lean4+correspondence',
            'level_claimed': {'category': 'proof', 'text': text, 'design_ref': ref},
            'level_note': note,
            'technique': tech,
        })
    m = {
        'version': 1,
        'setup_cmd': 'cd lean && lake build',
        'hooks': {
            'guard': 'BQSKIT_VERIF',
            'enable': 'no source hooks: checks import /repo in-process (PYTHONPATH=/repo) and drive real objects with fake connections',
            'baseline_off_cmd': BASELINE,
            'source_commits': [],
            'add_only': True,
        },
        'engines': [{
            'name': 'lean4+correspondence', 'path': 'lean/',
            'serves_properties': sorted(CLAIMED),
            'kind_free_text': 'Lean 4 model + theorems (lake project lean/), compiled driver bqdriver, Python differential harness harness/',
        }],
        'checks': checks,
        'notes': 'See DESIGN.md. ./check exits 2 on infrastructure failure (never a verdict).',
        'not_applicable': [{'property_id': p, 'reason': NOT_YET} for p in PROPS if p not in CLAIMED],
    }
    (V / 'MANIFEST.json').write_text(json.dumps(m, indent=1) + '\n')
    try:
        import jsonschema
        jsonschema.validate(m, json.loads(Path('/root/.vp/MANIFEST.schema.json').read_text()))
        print('MANIFEST.json valid;', len(checks), 'checks')
    except ImportError:
        print('jsonschema missing; not validated')


if __name__ == '__main__':
    sys.exit(main())
