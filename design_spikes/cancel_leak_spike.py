import sys, queue
sys.path.insert(0,'/repo')
from threading import Lock
import bqskit.runtime.worker as wmod
from bqskit.runtime.worker import Worker
from bqskit.runtime.task import RuntimeTask
from bqskit.runtime.address import RuntimeAddress as A
class FakeConn:
    def __init__(self): self.sent=[]
    def send(self,m): self.sent.append(m)
class WouldBlock(Exception): pass
class NBQ(queue.Queue):
    def get(self, block=True, timeout=None):
        try: return super().get(False)
        except queue.Empty: raise WouldBlock()
def mk(wid):
    w=object.__new__(Worker); w._id=wid; w._conn=FakeConn(); w._tasks={}; w._delayed_tasks=[]
    w._ready_task_ids=NBQ(); w._cancelled_task_ids=set(); w._active_task=None; w._running=True
    w._mailboxes={}; w._mailbox_counter=0; w._cache={}; w.most_recent_read_submit=None; w.read_receipt_mutex=Lock()
    return w
def child(x): return x
w=mk(1); wmod._worker=w
anc=A(0,0,0)                       # ancestor task lives on worker 0
kid=RuntimeTask((child,(1,),{}), A(0,5,0), 0, (A(-1,0,0), anc))
w._handle_cancel(anc)              # broadcast CANCEL(ancestor) arrives first
w._add_task(kid)                   # then the child's SUBMIT arrives
try:
    w._try_step_next_ready_task()
except WouldBlock: pass
print('tasks table after quiescence:', list(w._tasks), 'ready', w._ready_task_ids.qsize(), 'sent', [m[0].name for m in w._conn.sent])
