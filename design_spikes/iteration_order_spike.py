import sys, random
sys.path.insert(0,'/repo')
from bqskit.ir.circuit import Circuit
from bqskit.ir.gates import RZGate, CPGate, CCPGate
rng=random.Random(5); bad=0; n_checked=0
for it in range(2000):
    n=rng.randint(1,5); c=Circuit(n); k=0
    for _ in range(rng.randint(1,15)):
        a=rng.choice([x for x in (1,2,3) if x<=n]); loc=rng.sample(range(n),a); k+=1
        g={1:RZGate(),2:CPGate(),3:CCPGate()}[a]
        if rng.random()<0.5 or c.num_cycles==0: c.append_gate(g,loc,[k/1024])
        else: c.insert_gate(rng.randrange(-1,c.num_cycles+1),g,loc,[k/1024])
        if rng.random()<0.15 and c.num_operations>1:
            cyc=rng.randrange(c.num_cycles); ops=[o for o in c._circuit[cyc] if o is not None]
            c.pop((cyc, ops[0].location[0]))
    got=[(cy,op.location[0]) for cy,op in c.operations_with_cycles()]
    exp=sorted({(cy,op.location[0]) for cy,row in enumerate(c._circuit) for op in row if op is not None})
    n_checked+=1
    if got!=exp: bad+=1
print('checked',n_checked,'iteration != row-major by (cycle, loc[0]):',bad)
