import sys, queue
sys.path.insert(0,'/repo')
from threading import Lock
import bqskit.runtime.worker as wmod
from bqskit.runtime.worker import Worker
from bqskit.runtime.task import RuntimeTask
from bqskit.runtime.address import RuntimeAddress
from bqskit.runtime.result import RuntimeResult
from bqskit.runtime.message import RuntimeMessage as M

class FakeConn:
    def __init__(self): self.sent=[]
    def send(self,m): self.sent.append(m)
class WouldBlock(Exception): pass
class NBQ(queue.Queue):
    def get(self, block=True, timeout=None):
        try: return super().get(False)
        except queue.Empty: raise WouldBlock()
def mk(wid):
    w=object.__new__(Worker); w._id=wid; w._conn=FakeConn(); w._tasks={}; w._delayed_tasks=[]
    w._ready_task_ids=NBQ(); w._cancelled_task_ids=set(); w._active_task=None; w._running=True
    w._mailboxes={}; w._mailbox_counter=0; w._cache={}; w.most_recent_read_submit=None; w.read_receipt_mutex=Lock()
    return w
def child(x): return x
async def parent():
    from bqskit.runtime import get_runtime
    f1 = get_runtime().submit(child, 1)
    f2 = get_runtime().submit(child, 2)
    a = await f1
    b = await f2
    return a+b
w=mk(0); wmod._worker=w
root=RuntimeTask((parent,(),{}), RuntimeAddress(-1,0,0), 0, tuple())
w._add_task(root)
# force interleaving: when _process_await reaches the line after dest_addr assignment for mailbox 0, deliver result for mailbox 0
import inspect
src, start = inspect.getsourcelines(Worker._process_await)
target_line = start + [i for i,l in enumerate(src) if 'task.desired_box_id = future.mailbox_id' in l][0]
fired=[False]
def tracer(frame, event, arg):
    if frame.f_code is Worker._process_await.__code__:
        def local(frame, event, arg):
            if event=='line' and frame.f_lineno==target_line and not fired[0]:
                fired[0]=True
                # incoming thread runs here: result for mailbox 0 slot 0
                w._handle_result(RuntimeResult(RuntimeAddress(0,0,0), 1, 1))
            return local
        return local
    return None
sys.settrace(tracer)
w._try_step_next_ready_task()   # runs parent until await f1, with the race
sys.settrace(None)
print('ready queue size after racy await:', w._ready_task_ids.qsize())
w._try_step_next_ready_task()   # first wake: consumes f1, awaits f2 (not ready)
print('ready queue size:', w._ready_task_ids.qsize())
w._try_step_next_ready_task()   # stale second wake
print('messages sent:', [(m[0].name, (m[1][1][-200:] if m[0]==M.ERROR else '')) for m in w._conn.sent])
