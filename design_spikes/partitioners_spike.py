import sys, random, asyncio
sys.path.insert(0,'/repo')
from bqskit.ir.circuit import Circuit
from bqskit.ir.gates import RZGate, CPGate, CCPGate, CircuitGate
from bqskit.passes import GreedyPartitioner, QuickPartitioner, ScanPartitioner, ClusteringPartitioner
from bqskit.compiler.passdata import PassData
def timelines(c):
    tl={q:[] for q in range(c.num_qudits)}
    def rec(ops, locmap):
        for op in ops:
            if isinstance(op.gate, CircuitGate):
                sub=op.gate._circuit.copy(); sub.set_params(op.params)
                rec(list(sub), [locmap[q] for q in op.location])
            else:
                for q in op.location: tl[locmap[q]].append((op.gate.name, tuple(locmap[x] for x in op.location), tuple(round(p,6) for p in op.params)))
    rec(list(c), list(range(c.num_qudits)))
    return tl
rng=random.Random(3)
for P in (QuickPartitioner, ScanPartitioner, GreedyPartitioner, ClusteringPartitioner):
    bad=0; exc=0; n_run=0
    for it in range(150):
        n=rng.randint(3,6); c=Circuit(n)
        for k in range(rng.randint(3,25)):
            a=rng.choice([1,2,2,3]); c.append_gate({1:RZGate(),2:CPGate(),3:CCPGate()}[a], rng.sample(range(n),a), [(k+1)/1024])
        before=timelines(c); d=PassData(c)
        try:
            p = P(3) if P is not ClusteringPartitioner else P(3, 4)
            asyncio.run(p.run(c,d)); n_run+=1
        except Exception as e:
            exc+=1; continue
        if timelines(c)!=before: bad+=1
    print(P.__name__, 'runs',n_run,'order-changed',bad,'exceptions',exc)
