import sys
sys.path.insert(0,'/repo')
import numpy as np
from bqskit.ir.circuit import Circuit
from bqskit.ir.gates import U3Gate, CNOTGate
from bqskit.qis import UnitaryMatrix
from bqskit.ir.opt.cost.functions import HilbertSchmidtCostGenerator, HilbertSchmidtResidualsGenerator
c=Circuit(2); c.append_gate(U3Gate(),0,[0.1,0.2,0.3]); c.append_gate(CNOTGate(),(0,1)); c.append_gate(U3Gate(),1,[0.5,0.6,0.7])
T=UnitaryMatrix.random(2)
U=c.get_unitary()
t=abs(np.trace(T.conj().T@U)); N=4
print('cost', HilbertSchmidtCostGenerator().calc_cost(c,T), 'sqrt(1-t^2/N^2)', np.sqrt(1-t*t/N/N), '1-t/N', 1-t/N, 'dist', U.get_distance_from(T))
r=HilbertSchmidtResidualsGenerator().gen_cost(c,T)
print('resid cost', r.get_cost(c.params), 'sum sq', sum(x*x for x in r.get_residuals(c.params)))
