import sys, queue, logging, uuid, selectors
sys.path.insert(0, '/repo')
from bqskit.runtime.worker import Worker, WorkerMailbox
from bqskit.runtime.detached import DetachedServer, ServerMailbox
from bqskit.runtime.base import ServerBase, RuntimeEmployee
from bqskit.runtime.message import RuntimeMessage as M
from bqskit.runtime.direction import MessageDirection as D
from bqskit.runtime.task import RuntimeTask
from bqskit.runtime.address import RuntimeAddress
from bqskit.runtime.result import RuntimeResult
import bqskit.runtime.worker as wmod
from threading import Lock

class FakeConn:
    def __init__(self, name): self.name=name; self.sent=[]; self.closed=False
    def send(self, m): self.sent.append(m)
    def close(self): self.closed=True
    def __repr__(self): return f'<conn {self.name}>'

class WouldBlock(Exception): pass
class NBQueue(queue.Queue):
    def get(self, block=True, timeout=None):
        try: return super().get(False)
        except queue.Empty: raise WouldBlock()

def mk_worker(wid):
    w = object.__new__(Worker)
    w._id=wid; w._conn=FakeConn(f'w{wid}-up')
    w._tasks={}; w._delayed_tasks=[]; w._ready_task_ids=NBQueue(); w._cancelled_task_ids=set()
    w._active_task=None; w._running=True; w._mailboxes={}; w._mailbox_counter=0; w._cache={}
    w.most_recent_read_submit=None; w.read_receipt_mutex=Lock()
    return w

class FakeOutgoing:
    def __init__(self): self.items=[]
    def put(self, x): self.items.append(x)

def mk_server(nworkers):
    s = object.__new__(DetachedServer)
    s.lower_id_bound=0; s.upper_id_bound=2**30; s.running=True
    s.employees=[]; s.conn_to_employee_dict={}; s.outgoing=FakeOutgoing()
    s.clients={}; s.tasks={}; s.mailbox_to_task_dict={}; s.mailboxes={}; s.mailbox_counter=0
    class Sel:
        def unregister(self,c): pass
        def close(self): pass
    s.sel=Sel()
    for i in range(nworkers):
        c=FakeConn(f'srv-w{i}'); e=RuntimeEmployee(i,c,1); s.employees.append(e); s.conn_to_employee_dict[c]=e
    s.step_size=1; s.total_workers=nworkers; s.num_idle_workers=nworkers
    return s

# tasks
async def child(x):
    return x*2
async def parent(n):
    from bqskit.runtime import get_runtime
    f = get_runtime().map(child, list(range(n)))
    r = await f
    return sum(r)

srv = mk_server(2)
workers=[mk_worker(0), mk_worker(1)]
client=FakeConn('client'); srv.clients[client]=set()

class CT:  # fake compilation task
    def __init__(self): self.task_id=uuid.uuid4(); self.logging_level=0; self.max_logging_depth=-1
    async def run(self): return await parent(3)
import bqskit.compiler.task as ctmod
ct = CT()
# monkeypatch CompilationTask.run used by handle_new_comp_task
orig = ctmod.CompilationTask
class Fake(orig):
    pass
srv_task = ct
# handle_new_comp_task builds RuntimeTask((CompilationTask.run,(task,),{})) ; use a real-looking object
ctmod.CompilationTask.run = lambda self: self.run2()
CT.run2 = CT.run
srv.handle_message(M.SUBMIT, D.CLIENT, client, ct)
print('server outgoing', [(c, m.name, p) for c,m,p in srv.outgoing.items])

# ---- full simulation loop, deterministic FIFO delivery
import collections
chan = collections.defaultdict(collections.deque)  # (src,dst) -> msgs
def flush_server():
    for c,m,p in srv.outgoing.items:
        if c is client: chan[('srv','client')].append((m,p))
        else:
            i = srv.conn_to_employee_dict[c].id
            chan[('srv',i)].append((m,p))
    srv.outgoing.items.clear()
def flush_worker(i):
    w=workers[i]
    for m,p in w._conn.sent: chan[(i,'srv')].append((m,p))
    w._conn.sent.clear()
flush_server()
def worker_recv(i,msg,payload):
    w=workers[i]
    if msg==M.SUBMIT:
        w.most_recent_read_submit=payload.unique_id; w._add_task(payload)
    elif msg==M.SUBMIT_BATCH:
        tasks=list(payload); w.most_recent_read_submit=tasks[0].unique_id
        w._add_task(tasks.pop()); w._delayed_tasks.extend(tasks)
    elif msg==M.RESULT: w._handle_result(payload)
    elif msg==M.CANCEL: w._handle_cancel(payload)
steps=0
while steps<200:
    steps+=1
    progressed=False
    for key in list(chan.keys()):
        if chan[key]:
            m,p = chan[key].popleft(); progressed=True
            src,dst=key
            if dst=='srv':
                conn = srv.employees[src].conn
                srv.handle_message(m, D.BELOW, conn, p); flush_server()
            elif dst=='client':
                print('CLIENT GOT', m.name, p)
            else:
                worker_recv(dst,m,p)
            break
    if progressed: continue
    # no messages: step workers
    for i,w in enumerate(workers):
        wmod._worker=w
        try:
            w._try_step_next_ready_task(); progressed=True
        except WouldBlock:
            pass
        flush_worker(i)
        if progressed: break
    if not progressed: break
srv.handle_message(M.REQUEST, D.CLIENT, client, ct.task_id); flush_server()
print(chan[('srv','client')])
print('steps',steps, 'emp', [(e.num_tasks,e.num_idle_workers) for e in srv.employees], srv.num_idle_workers)
print('worker tables', [(len(w._tasks), len(w._mailboxes), len(w._delayed_tasks)) for w in workers])
