/-! Spike: local worker mailbox machine (coarse atomicity) and its wake discipline. -/
abbrev Tid := Nat
abbrev Val := Nat

structure Box where
  expected : Nat
  slots : List (Option Val)       -- length = expected
  num : Nat
  dest : Option Tid
  fresh : List (Nat × Val)
deriving Repr

def Box.ready (b : Box) : Bool := b.num ≥ b.expected && b.num != 0

structure TaskSt where
  desired : Option Nat := none
  wakeOnNext : Bool := false
deriving Repr

structure W where
  boxes : Nat → Option Box
  tasks : Tid → Option TaskSt
  ready : List Tid

/-- `_handle_result` -/
def handleResult (w : W) (m slot : Nat) (v : Val) : W :=
  match w.boxes m with
  | none => w
  | some b =>
    let b1 : Box := { b with num := b.num + 1, fresh := b.fresh ++ [(slot, v)],
                              slots := b.slots.set slot (some v) }
    match b1.dest with
    | none => { w with boxes := fun k => if k = m then some b1 else w.boxes k }
    | some t =>
      match w.tasks t with
      | none => { w with boxes := fun k => if k = m then some b1 else w.boxes k }  -- KeyError in code; unreachable by Inv
      | some ts =>
        if ts.wakeOnNext || b1.ready then
          { w with boxes := fun k => if k = m then some { b1 with dest := none } else w.boxes k,
                   ready := w.ready ++ [t] }
        else { w with boxes := fun k => if k = m then some b1 else w.boxes k }

/-- `_process_await` (mailbox present) -/
def processAwait (w : W) (t : Tid) (m : Nat) (next : Bool) : W :=
  match w.boxes m, w.tasks t with
  | some b, some _ =>
    let b1 := { b with dest := some t }
    let w1 : W := { w with boxes := fun k => if k = m then some b1 else w.boxes k,
                           tasks := fun k => if k = t then some { desired := some m, wakeOnNext := next } else w.tasks k }
    if b1.ready then { w1 with ready := w1.ready ++ [t] } else w1
  | _, _ => w

/-- number of pending wake-ups of `t` -/
def wakes (w : W) (t : Tid) : Nat := w.ready.count t

/-- The wake discipline: a task that is parked on a box (dest = t) is not in the ready queue,
    unless the box is already ready (then exactly the one wake-up `_process_await` made). -/
def Parked (w : W) : Prop :=
  ∀ m b t, w.boxes m = some b → b.dest = some t →
    (∃ ts, w.tasks t = some ts ∧ ts.desired = some m) ∧
    (if b.ready then wakes w t = 1 else wakes w t = 0)

/-- one box per waiting task -/
def OneBox (w : W) : Prop :=
  ∀ m m' b b' t, w.boxes m = some b → w.boxes m' = some b' → b.dest = some t → b'.dest = some t → m = m'

theorem handleResult_no_double_wake (w : W) (m slot : Nat) (v : Val) (t : Tid)
    (hP : Parked w) (hO : OneBox w)
    (b : Box) (hb : w.boxes m = some b) (hd : b.dest = some t) (hnr : b.ready = false) :
    wakes (handleResult w m slot v) t ≤ 1 := by
  have h := (hP m b t hb hd).2
  simp [hnr] at h
  unfold handleResult
  simp only [hb, hd]
  split
  · simp [wakes] at *; omega
  · split
    · simp [wakes, List.count_append] at *; omega
    · simp [wakes] at *; omega
