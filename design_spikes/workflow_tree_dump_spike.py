import sys
sys.path.insert(0,'/repo')
from bqskit.compiler.compile import build_workflow
from bqskit import Circuit, MachineModel
from bqskit.qis.graph import CouplingGraph
from bqskit.qis import UnitaryMatrix, StateVector
from bqskit.compiler.workflow import Workflow
from bqskit.passes import *
from bqskit.passes.control.predicate import PassPredicate
import collections
kinds=collections.Counter()
def dump(p, ind=0, out=None):
    name=type(p).__name__
    kinds[name]+=1
    pad='  '*ind
    if isinstance(p, Workflow):
        out.append(f'{pad}Workflow[{p._name}]')
        for q in p._passes: dump(q, ind+1, out)
        return
    attrs={k:v for k,v in vars(p).items()}
    subs=[(k,v) for k,v in attrs.items() if isinstance(v,(Workflow,)) or (isinstance(v,list) and v and all(isinstance(x,Workflow) for x in v))]
    preds=[(k,v) for k,v in attrs.items() if isinstance(v,PassPredicate)]
    def pstr(x):
        n=type(x).__name__
        inner=[pstr(v) for v in vars(x).values() if isinstance(v,PassPredicate)]
        extra={k:v for k,v in vars(x).items() if isinstance(v,(int,str,bool))}
        return f'{n}({",".join(inner)}{extra if extra else ""})'
    simple={k:(v if isinstance(v,(int,float,str,bool,type(None))) else (v.__name__ if callable(v) and hasattr(v,"__name__") else type(v).__name__)) for k,v in attrs.items() if (k,v) not in subs and (k,v) not in preds}
    out.append(f'{pad}{name} preds={[pstr(v) for _,v in preds]} opts={ {k:simple[k] for k in list(simple)[:6]} }')
    for k,v in subs:
        out.append(f'{pad} .{k}:')
        for w in (v if isinstance(v,list) else [v]): dump(w, ind+2, out)
c=Circuit(4)
m=MachineModel(5, CouplingGraph.linear(5))
for lvl in (1,4):
    out=[]; dump(build_workflow(c, m, lvl), 0, out)
    print(f'--- level {lvl}: {len(out)} lines'); 
    if lvl==1: print('\n'.join(out[:60]))
out=[]; dump(build_workflow(StateVector.random(2), MachineModel(2), 1),0,out); print('--- stateprep'); print('\n'.join(out))
print(sorted(kinds))
