import sys, uuid
sys.path.insert(0,'/repo')
from bqskit.runtime.detached import DetachedServer
from bqskit.runtime.base import RuntimeEmployee
from bqskit.runtime.message import RuntimeMessage as M
from bqskit.runtime.direction import MessageDirection as D
from bqskit.runtime.result import RuntimeResult
from bqskit.runtime.address import RuntimeAddress
class FakeConn:
    def __init__(s,n): s.n=n; s.sent=[]; s.closed=False
    def send(s,m): s.sent.append(m)
    def close(s): s.closed=True
class Out:
    def __init__(s): s.items=[]
    def put(s,x): s.items.append(x)
def mk(n=1):
    s=object.__new__(DetachedServer); s.lower_id_bound=0; s.upper_id_bound=2**30; s.running=True
    s.employees=[]; s.conn_to_employee_dict={}; s.outgoing=Out(); s.clients={}; s.tasks={}; s.mailbox_to_task_dict={}; s.mailboxes={}; s.mailbox_counter=0
    class Sel:
        def unregister(self,c): pass
        def close(self): pass
    s.sel=Sel()
    for i in range(n):
        c=FakeConn(f'w{i}'); e=RuntimeEmployee(i,c,1); s.employees.append(e); s.conn_to_employee_dict[c]=e
    s.step_size=1; s.total_workers=n; s.num_idle_workers=n
    return s
class CT:
    def __init__(s): s.task_id=uuid.uuid4(); s.logging_level=0; s.max_logging_depth=-1
    async def run(s): return 1
def scenario(name, f):
    s=mk(); A=FakeConn('A'); B=FakeConn('B'); s.clients[A]=set(); s.clients[B]=set()
    try:
        f(s,A,B); print(name,'-> ok', [(getattr(c,'n','?'),m.name,p if not hasattr(p,'__len__') or len(str(p))<40 else '...') for c,m,p in s.outgoing.items if m in (M.STATUS,M.CANCEL,M.ERROR,M.RESULT)])
    except Exception as e:
        print(name,'-> server handler raised', type(e).__name__, e)
def submit(s,c):
    t=CT(); s.handle_message(M.SUBMIT,D.CLIENT,c,t); return t.task_id
def finish(s,tid,val='R'):
    mb=s.tasks[tid][0]; s.handle_message(M.RESULT,D.BELOW,s.employees[0].conn,RuntimeResult(RuntimeAddress(-1,mb,0),val,0))
scenario('status unknown id', lambda s,A,B: s.handle_message(M.STATUS,D.CLIENT,A,uuid.uuid4()))
def f2(s,A,B):
    t=submit(s,A); finish(s,t); s.handle_message(M.REQUEST,D.CLIENT,A,t); s.handle_message(M.STATUS,D.CLIENT,A,t)
scenario('status after result', f2)
def f3(s,A,B):
    t=submit(s,A); finish(s,t); s.handle_message(M.REQUEST,D.CLIENT,A,t); s.handle_message(M.CANCEL,D.CLIENT,A,t)
scenario('cancel after result', f3)
def f4(s,A,B):
    t=submit(s,A); s.handle_message(M.CANCEL,D.CLIENT,A,t); s.handle_message(M.CANCEL,D.CLIENT,A,t)
scenario('cancel twice', f4)
scenario('cancel unknown', lambda s,A,B: s.handle_message(M.CANCEL,D.CLIENT,A,uuid.uuid4()))
def f6(s,A,B):
    t=submit(s,A); s.handle_message(M.CANCEL,D.CLIENT,B,t); print('   A still owns?', t in s.clients[A], 'mailbox alive?', s.tasks[t][0] in s.mailboxes)
scenario('B cancels A task', f6)
def f7(s,A,B):
    t=submit(s,A); s.handle_message(M.STATUS,D.CLIENT,B,t)
scenario('B asks status of A task', f7)
