import sys
sys.path.insert(0,'/repo')
from bqskit.ir.lang.qasm2 import OPENQASM2Language as L
def t(src):
    try:
        c = L().decode('OPENQASM 2.0;\ninclude "qelib1.inc";\nqreg q[2];\n'+src)
        return [ (str(o.gate), tuple(o.location), [round(p,6) for p in o.params]) for o in c]
    except Exception as e:
        return type(e).__name__+': '+str(e)[:100]
for s in ['rz(sqrt(4)) q[0];','rz(exp(1)) q[0];','rz(EXP(1)) q[0];','rz(-pi/2) q[0];','rz(2^3) q[0];','rz(-2^2) q[0];','rz(2*-3) q[0];','rz(1-2-3) q[0];','rz(8/4/2) q[0];','rz(ln(2)) q[0];', 'rz(1e-3) q[0];','rz(pi) q;']:
    print(s, '=>', t(s))
# roundtrip library gates
import bqskit.ir.gates as G, inspect
from bqskit.ir.circuit import Circuit
bad=[]
for name in G.__all__:
    cls=getattr(G,name)
    try:
        g=cls()
    except Exception: continue
    if not hasattr(g,'radixes') : continue
    try:
        if any(r!=2 for r in g.radixes): continue
        c=Circuit(g.num_qudits); c.append_gate(g, list(range(g.num_qudits)), [0.1*(i+1) for i in range(g.num_params)])
        q=c.to('qasm')
    except Exception as e:
        continue
    try:
        c2=L().decode(q)
        d=c2.get_unitary().get_distance_from(c.get_unitary())
        if d>1e-6: bad.append((name,'dist',d))
    except Exception as e:
        bad.append((name,type(e).__name__,str(e)[:80]))
print(bad)
