import Mathlib.Algebra.BigOperators.Group.List.Basic

structure Op where
  id : Nat
  loc : List Nat
deriving DecidableEq, Repr

def proj (q : Nat) (l : List Op) : List Op := l.filter (fun o => decide (q ∈ o.loc))

def Indep (a b : Op) : Prop := ∀ q, q ∈ a.loc → q ∉ b.loc

variable {M : Type} [Monoid M]

theorem prod_comm_of_indep (sem : Op → M)
    (hc : ∀ a b, Indep a b → sem a * sem b = sem b * sem a)
    (a : Op) (pre : List Op) (h : ∀ x ∈ pre, Indep a x) :
    (pre.map sem).prod * sem a = sem a * (pre.map sem).prod := by
  induction pre with
  | nil => simp
  | cons x t ih =>
    have hx := hc a x (h x (by simp))
    have ht := ih (fun y hy => h y (by simp [hy]))
    simp only [List.map_cons, List.prod_cons]
    rw [mul_assoc, ht, ← mul_assoc, ← hx, mul_assoc]

theorem trace_equiv (sem : Op → M)
    (hc : ∀ a b, Indep a b → sem a * sem b = sem b * sem a) :
    ∀ (l1 l2 : List Op), (∀ o ∈ l1, o.loc ≠ []) → (∀ o ∈ l2, o.loc ≠ []) →
      (∀ q, proj q l1 = proj q l2) → (l1.map sem).prod = (l2.map sem).prod := by
  intro l1
  induction l1 with
  | nil =>
    intro l2 _ h2 hp
    cases l2 with
    | nil => rfl
    | cons b t =>
      exfalso
      have hb := h2 b (by simp)
      obtain ⟨q, hq⟩ := List.exists_mem_of_ne_nil _ hb
      have := hp q
      simp [proj, List.filter_cons, hq] at this
  | cons a t ih =>
    intro l2 h1 h2 hp
    have ha := h1 a (by simp)
    obtain ⟨q0, hq0⟩ := List.exists_mem_of_ne_nil _ ha
    -- a is the head of proj q0 l2
    have hp0 := hp q0
    have hhead : proj q0 (a :: t) = a :: proj q0 t := by simp [proj, List.filter_cons, hq0]
    rw [hhead] at hp0
    -- split l2 at the first element containing q0
    have hsplit : ∃ pre post, l2 = pre ++ a :: post ∧ ∀ x ∈ pre, q0 ∉ x.loc := by
      clear ih h2 hp h1 hhead
      induction l2 with
      | nil => simp [proj] at hp0
      | cons b r ihr =>
        by_cases hb : q0 ∈ b.loc
        · have : proj q0 (b :: r) = b :: proj q0 r := by simp [proj, List.filter_cons, hb]
          rw [this] at hp0
          injection hp0 with h1 h2
          exact ⟨[], r, by simp [h1], by simp⟩
        · have : proj q0 (b :: r) = proj q0 r := by simp [proj, List.filter_cons, hb]
          rw [this] at hp0
          obtain ⟨pre, post, he, hpre⟩ := ihr hp0
          exact ⟨b :: pre, post, by simp [he], by
            intro x hx
            rcases List.mem_cons.mp hx with rfl | hx
            · exact hb
            · exact hpre x hx⟩
    obtain ⟨pre, post, he, hpre⟩ := hsplit
    subst he
    -- nothing in pre touches a
    have hind : ∀ x ∈ pre, Indep a x := by
      intro x hx q hqa hqx
      -- the first element of l2 containing q must be a
      have hpq := hp q
      have h1' : proj q (a :: t) = a :: proj q t := by simp [proj, List.filter_cons, hqa]
      rw [h1'] at hpq
      -- proj q pre is nonempty and its head y satisfies y = a, but q0 ∉ y.loc
      have : proj q (pre ++ a :: post) = proj q pre ++ proj q (a :: post) := by
        simp [proj, List.filter_append]
      rw [this] at hpq
      have hne : x ∈ proj q pre := by simp [proj, List.mem_filter, hx, hqx]
      cases hpp : proj q pre with
      | nil => rw [hpp] at hne; simp at hne
      | cons y ys =>
        rw [hpp] at hpq
        simp only [List.cons_append] at hpq
        injection hpq with hy _
        have hymem : y ∈ proj q pre := by rw [hpp]; simp
        have hy' : y ∈ pre := (List.mem_filter.mp hymem).1
        have := hpre y hy'
        rw [← hy] at this
        exact this hq0
    -- rest projections agree
    have hrest : ∀ q, proj q t = proj q (pre ++ post) := by
      intro q
      have hpq := hp q
      have happ : proj q (pre ++ a :: post) = proj q pre ++ proj q (a :: post) := by
        simp [proj, List.filter_append]
      have happ2 : proj q (pre ++ post) = proj q pre ++ proj q post := by
        simp [proj, List.filter_append]
      by_cases hqa : q ∈ a.loc
      · have hnil : proj q pre = [] := by
          simp only [proj, List.filter_eq_nil_iff]
          intro x hx
          simp only [decide_eq_true_eq]
          exact fun hqx => hind x hx q hqa hqx
        have e1 : proj q (a :: t) = a :: proj q t := by simp [proj, List.filter_cons, hqa]
        have e2 : proj q (a :: post) = a :: proj q post := by simp [proj, List.filter_cons, hqa]
        rw [e1, happ, hnil, e2] at hpq
        simp only [List.nil_append] at hpq
        injection hpq with _ h2
        rw [happ2, hnil, h2]; simp
      · have e1 : proj q (a :: t) = proj q t := by simp [proj, List.filter_cons, hqa]
        have e2 : proj q (a :: post) = proj q post := by simp [proj, List.filter_cons, hqa]
        rw [e1, happ, e2] at hpq
        rw [happ2, hpq]
    have h2' : ∀ o ∈ pre ++ post, o.loc ≠ [] := by
      intro o ho
      apply h2 o
      rcases List.mem_append.mp ho with h | h
      · exact List.mem_append.mpr (Or.inl h)
      · exact List.mem_append.mpr (Or.inr (by simp [h]))
    have := ih (pre ++ post) (fun o ho => h1 o (by simp [ho])) h2' hrest
    simp only [List.map_cons, List.prod_cons, List.map_append, List.prod_append]
    rw [this, List.map_append, List.prod_append, ← mul_assoc, ← mul_assoc,
      prod_comm_of_indep sem hc a pre hind]

#print axioms trace_equiv
