import sys, random
sys.path.insert(0,'/repo')
import numpy as np
from bqskit.ir.circuit import Circuit
from bqskit.ir.gates import RZGate, CPGate, CCPGate, CircuitGate
from bqskit.ir.region import CircuitRegion
def timelines(c):
    tl={q:[] for q in range(c.num_qudits)}
    def rec(ops, locmap):
        for op in ops:
            if isinstance(op.gate, CircuitGate):
                sub=op.gate._circuit.copy(); sub.set_params(op.params)
                rec(list(sub), [locmap[q] for q in op.location])
            else:
                for q in op.location: tl[locmap[q]].append((op.gate.name, tuple(locmap[x] for x in op.location), tuple(round(p,6) for p in op.params)))
    rec(list(c), list(range(c.num_qudits)))
    return tl
def rnd(rng,n,m):
    c=Circuit(n); k=0
    for _ in range(m):
        a=rng.choice([1,1,2,2,3]) if n>=3 else rng.choice([1,2]); loc=rng.sample(range(n),a); k+=1
        g={1:RZGate(),2:CPGate(),3:CCPGate()}[a]; c.append_gate(g,loc,[k/1024])
    return c
rng=random.Random(1); bad_order=0; idle=0; tried=0; exs=[]
for it in range(4000):
    n=rng.randint(2,4); c=rnd(rng,n,rng.randint(2,8))
    # random region
    qs=rng.sample(range(n), rng.randint(1,n)); reg={}
    for q in qs:
        a=rng.randrange(c.num_cycles); b=rng.randrange(a,c.num_cycles); reg[q]=(a,b)
    before=timelines(c); c0=c.copy()
    try:
        pt=c.fold(reg)
    except Exception as e:
        continue
    tried+=1
    has_idle=any(all(x is None for x in cyc) for cyc in c._circuit)
    if has_idle: idle+=1; 
    after=timelines(c)
    if after!=before:
        bad_order+=1
        if len(exs)<2: exs.append(('fold',repr(c0),reg))
        continue
    try:
        c.unfold(pt)
    except Exception as e:
        if len(exs)<4: exs.append(('unfold-exc',type(e).__name__,str(e)[:80],repr(c0),reg)); 
        continue
    if timelines(c)!=before:
        bad_order+=1
        if len(exs)<4: exs.append(('unfold',repr(c0),reg,pt))
print('tried',tried,'order changed',bad_order,'idle cycles',idle)
for e in exs: print(e)
