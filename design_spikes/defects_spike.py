import sys
sys.path.insert(0,'/repo')
from bqskit.ir.circuit import Circuit
from bqskit.ir.gates import CNOTGate, HGate, U3Gate, RZGate, CCXGate
from bqskit.compiler.passdata import PassData
c = Circuit(3)
c.append_gate(CNOTGate(), (0,1))
c.renumber_qudits([2,1,0])
print(c._graph_info)
try:
    c.pop((0,1)); print('pop ok')
except Exception as e: print('pop raised', type(e).__name__, e)
c2 = Circuit(3); c2.append_gate(CNOTGate(), (0,1)); c2.renumber_qudits([2,1,0])
print('coupling graph after renumber', c2.coupling_graph)
# become
d1 = PassData(Circuit(2)); d2 = PassData(Circuit(2)); d2.initial_mapping=[1,0]; d2.final_mapping=[1,0]
d1.become(d2); print('become mappings', d1.initial_mapping, d1.final_mapping)
# append_circuit return
a = Circuit(1); a.append_gate(HGate(),0)
b = Circuit(1); b.append_gate(HGate(),0)
print('append_circuit returns', a.append_circuit(b,[0]))
