"""(B)-kind translator for C10: PermutationAwareSynthesisPass bookkeeping.

`PermutationAwareSynthesisPass.synthesize` builds a list of permuted targets
`Po^T U Pi`, a parallel list of labels `(input perm, output perm)`, hands the
targets to the inner synthesis, keeps the circuit of least score (first one on
ties) and REPORTS the label at the same index as `initial_mapping` /
`final_mapping`.  The property (the output implements the target under the
reported mappings) needs the two lists to be aligned.

This translator RUNS the live `synthesize` (in process, stub runtime, stub
inner synthesis that records the targets it is handed, scripted scores) for
every option pair and widths 2 and 3, and writes what the code did to
lean/BqVerif/Generated/PasOrder.lean:

  * `enumTables`: per (input_perm, output_perm, width) the labels passed as
    log_context (i.e. `permsbyperms`) and, for each target, the pair
    (pi, po) for which the target equals `Po^T U Pi` (recovered numerically
    against a generic U: the pair is unique),
  * `selectTables`: per scripted score vector the reported
    (initial_mapping, final_mapping) and the index of the returned circuit.

It is behavioural on purpose: a refactoring of the comprehension that keeps
the order leaves the table unchanged.  Props/C10.lean proves the model's
enumeration / selection for ALL widths and decides (kernel) that the model
evaluates to these tables.
"""
from __future__ import annotations

import asyncio
import itertools as it
from pathlib import Path

import numpy as np

OUT = (Path(__file__).resolve().parent.parent / 'lean' / 'BqVerif'
       / 'Generated' / 'PasOrder.lean')

SCORES = {           # scripted scores, indexed by position in the target list
    'first-min': lambda n: [5] * n,
    'last-min': lambda n: [10 + (n - i) for i in range(n)],
    'tie-mid': lambda n: [9 if i not in (n // 2, n - 1) else 3
                          for i in range(n)],
    'asym': lambda n: [7 if i != min(1, n - 1) else 2 for i in range(n)],
}


def observe(ip: bool, op: bool, width: int, scores_name: str | None,
            scores_fn=None):
    from bqskit.compiler.passdata import PassData
    from bqskit.ir.circuit import Circuit
    from bqskit.ir.gates import ConstantUnitaryGate
    from bqskit.passes.synthesis.pas import PermutationAwareSynthesisPass
    from bqskit.passes.synthesis.synthesis import SynthesisPass
    from bqskit.qis.permutation import PermutationMatrix
    from bqskit.qis.unitary import UnitaryMatrix
    import bqskit.runtime.worker as W
    from harness.c10_lib import InProcRuntime

    seen: list = []
    contexts: list = []

    class RT(InProcRuntime):
        async def map(self, fn, *args, task_name=None, log_context={}, **kw):
            contexts.append(log_context)
            return await super().map(fn, *args, **kw)

    class Inner(SynthesisPass):
        async def synthesize(self, utry, data):
            c = Circuit(width)
            c.append_gate(ConstantUnitaryGate(utry), list(range(width)))
            c._pas_index = len(seen)       # position in the target list
            seen.append(np.asarray(utry))
            return c

    U = UnitaryMatrix.random(width)        # generic: Po^T U Pi all distinct
    if scores_fn is not None:
        def scoring(c):
            return scores_fn(len(seen))[c._pas_index]
    elif scores_name is None:
        def scoring(c):
            return 0
    else:
        def scoring(c):
            sc = SCORES[scores_name](len(seen))
            return sc[c._pas_index]
    p = PermutationAwareSynthesisPass(
        input_perm=ip, output_perm=op, inner_synthesis=Inner(),
        scoring_fn=scoring)
    data = PassData(Circuit(width))
    old = W._worker
    W._worker = RT()
    try:
        out = asyncio.run(p.synthesize(U, data))
    finally:
        W._worker = old
    perms = list(it.permutations(range(width)))
    mats = {q: np.asarray(PermutationMatrix.from_qudit_location(width, 2, q))
            for q in perms}
    recovered = []
    Un = np.asarray(U)
    for T in seen:
        hits = [(pi, po) for pi in perms for po in perms
                if np.allclose(T, mats[po].T @ Un @ mats[pi], atol=1e-9)]
        if len(hits) != 1:
            raise RuntimeError(
                f'target {len(recovered)} of PAS({ip},{op}) width {width} is '
                f'matched by {len(hits)} permutation pairs (expected 1)')
        recovered.append(hits[0])
    labels = []
    for ctx in contexts[0]:
        labels.append(eval(ctx['perm'], {'__builtins__': {}}))
    return {
        'labels': labels, 'recovered': recovered,
        'chosen': getattr(out, '_pas_index', -1),
        'initial': tuple(data['initial_mapping']),
        'final': tuple(data['final_mapping']),
        'nscores': len(seen),
    }


def lean_perm(p) -> str:
    return '[' + ', '.join(str(x) for x in p) + ']'


def lean_pairs(ps) -> str:
    return '[' + ', '.join(f'({lean_perm(a)}, {lean_perm(b)})'
                           for a, b in ps) + ']'


def lean_bool(b) -> str:
    return 'true' if b else 'false'


def generate() -> dict:
    enum_rows = []
    sel_rows = []
    for ip, op in [(True, True), (True, False), (False, True), (False, False)]:
        for width in (2, 3):
            o = observe(ip, op, width, None)
            enum_rows.append((ip, op, width, o['labels'], o['recovered']))
            for name in SCORES:
                s = observe(ip, op, width, name)
                sel_rows.append((ip, op, width,
                                 SCORES[name](s['nscores']), s['chosen'],
                                 s['initial'], s['final']))
    lines = [
        '/- GENERATED by translate/pas_order.py from the live '
        'PermutationAwareSynthesisPass.synthesize (run in process). -/',
        'namespace BqVerif.Generated.PasOrder',
        '',
        '/-- (input_perm, output_perm, width, labels = permsbyperms, (pi, po) '
        'recovered from each target) -/',
        'def enumTables : List (Bool × Bool × Nat × List (List Nat × List Nat)'
        ' × List (List Nat × List Nat)) := [',
    ]
    lines.append(',\n'.join(
        f'  ({lean_bool(ip)}, {lean_bool(op)}, {w}, {lean_pairs(la)}, '
        f'{lean_pairs(re)})' for ip, op, w, la, re in enum_rows))
    lines += [
        ']', '',
        '/-- (input_perm, output_perm, width, scores by target index, index '
        'of the returned circuit, reported initial_mapping, final_mapping) -/',
        'def selectTables : List (Bool × Bool × Nat × List Nat × Nat × '
        'List Nat × List Nat) := [',
    ]
    lines.append(',\n'.join(
        f'  ({lean_bool(ip)}, {lean_bool(op)}, {w}, {lean_perm(sc)}, {ch}, '
        f'{lean_perm(i)}, {lean_perm(f)})'
        for ip, op, w, sc, ch, i, f in sel_rows))
    lines += [']', '', 'end BqVerif.Generated.PasOrder', '']
    text = '\n'.join(lines)
    if not OUT.exists() or OUT.read_text() != text:
        OUT.write_text(text)
    return {'enum': enum_rows, 'select': sel_rows}


if __name__ == '__main__':
    t = generate()
    print(len(t['enum']), 'enumeration rows,', len(t['select']),
          'selection rows ->', OUT)
