"""(B)-kind translator for C16: reads from the LIVE bqskit source

  * the attribute set that `__init__` creates for `Circuit` and `PassData`
    (by instantiating and listing `__dict__` / `__slots__`),
  * the assignments `copy()` / `become()` perform (AST of the method source),
    each as (target field, source field, mode) with mode in
    {ref, copy, deepcopy}; public properties on the right-hand side are resolved
    to the field they return (dynamically: a sentinel stored in the field comes
    back unchanged through the property),
  * copy/pickle hooks the classes define, `PassData._reserved_keys`,
    and which `__init__`-created fields hold immutable values,

and writes lean/BqVerif/Generated/Fields.lean.  Props/C16.lean proves over these
tables (by `decide`) that every field is assigned from the field of the same
name, so `lake build` re-checks the claim against the current source on every
run.  Self-contained on purpose (C11 may own a similar translator).
"""
from __future__ import annotations

import ast
import inspect
import sys
import textwrap
from pathlib import Path

OUT = (Path(__file__).resolve().parent.parent / 'lean' / 'BqVerif'
       / 'Generated' / 'Fields.lean')

HOOKS = ('__copy__', '__deepcopy__', '__reduce__', '__reduce_ex__',
         '__getstate__', '__setstate__', '__getnewargs__',
         '__getnewargs_ex__')
IMMUTABLE = (int, float, complex, str, bytes, bool, type(None))


def is_immutable(v) -> bool:
    if isinstance(v, IMMUTABLE):
        return True
    if isinstance(v, (tuple, frozenset)):
        return all(is_immutable(x) for x in v)
    return False


def fields_of(inst) -> list[str]:
    out = list(getattr(inst, '__dict__', {}).keys())
    for klass in type(inst).__mro__:
        for s in getattr(klass, '__slots__', ()):
            if hasattr(inst, s) and s not in out:
                out.append(s)
    return sorted(out)


def resolve_property(inst, name: str) -> str:
    """The field that attribute `name` of `inst` returns unchanged, else name."""
    if name in inst.__dict__:
        return name
    cls = type(inst)
    for f in inst.__dict__:
        y = object.__new__(cls)
        y.__dict__.update(inst.__dict__)
        sent = object()
        y.__dict__[f] = sent
        try:
            if getattr(y, name) is sent:
                return f
        except Exception:
            pass
    return name


def method_ast(cls, name: str) -> ast.FunctionDef:
    src = textwrap.dedent(inspect.getsource(getattr(cls, name)))
    fn = ast.parse(src).body[0]
    assert isinstance(fn, ast.FunctionDef)
    return fn


def classify_rhs(node: ast.expr, src_names: set[str]):
    """-> (mode, attribute name read from one of src_names) or None"""
    mode = 'ref'
    if (isinstance(node, ast.Call) and isinstance(node.func, ast.Attribute)
            and isinstance(node.func.value, ast.Name)
            and node.func.value.id == 'copy'
            and node.func.attr in ('copy', 'deepcopy') and len(node.args) == 1):
        mode = node.func.attr
        node = node.args[0]
    if (isinstance(node, ast.Attribute) and isinstance(node.value, ast.Name)
            and node.value.id in src_names):
        return mode, node.attr
    return None


def assigns_in(stmts, target_name: str, src_names: set[str], inst):
    """Assignments `<target_name>.f = rhs` in a statement list (no nesting)."""
    out = []
    for st in stmts:
        if not isinstance(st, ast.Assign) or len(st.targets) != 1:
            continue
        t = st.targets[0]
        if not (isinstance(t, ast.Attribute) and isinstance(t.value, ast.Name)
                and t.value.id == target_name):
            continue
        r = classify_rhs(st.value, src_names)
        if r is None:
            out.append((t.attr, '?' + ast.unparse(st.value)[:40], 'expr'))
        else:
            mode, attr = r
            out.append((t.attr, resolve_property(inst, attr), mode))
    return out


def become_tables(cls, inst):
    """`become(self, other, deepcopy=...)`: `if deepcopy: A else: B` -> (A, B)."""
    fn = method_ast(cls, 'become')
    other = fn.args.args[1].arg
    flag = fn.args.args[2].arg
    default = ast.literal_eval(fn.args.defaults[-1])
    deep, shallow = [], []
    common = assigns_in(fn.body, 'self', {other}, inst)
    for st in fn.body:
        if (isinstance(st, ast.If) and isinstance(st.test, ast.Name)
                and st.test.id == flag):
            deep = assigns_in(st.body, 'self', {other}, inst)
            shallow = assigns_in(st.orelse, 'self', {other}, inst)
    return common + deep, common + shallow, bool(default)


def ctor_param_fields(cls) -> dict[str, str]:
    """field -> constructor parameter its `__init__` right-hand side mentions"""
    fn = method_ast(cls, '__init__')
    params = [a.arg for a in fn.args.args[1:]]
    out = {}
    for st in ast.walk(fn):
        if isinstance(st, (ast.Assign, ast.AnnAssign)):
            tgts = st.targets if isinstance(st, ast.Assign) else [st.target]
            val = st.value
            if val is None:
                continue
            for t in tgts:
                if (isinstance(t, ast.Attribute) and isinstance(t.value, ast.Name)
                        and t.value.id == 'self'):
                    used = [n.id for n in ast.walk(val)
                            if isinstance(n, ast.Name) and n.id in params]
                    if used and t.attr not in out:
                        out[t.attr] = used[0]
    return out


def copy_table(cls, inst, init_fields):
    """`copy(self)`: either `return copy.deepcopy(self)` or construct + assign."""
    fn = method_ast(cls, 'copy')
    for st in fn.body:
        if isinstance(st, ast.Return) and st.value is not None:
            v = st.value
            if (isinstance(v, ast.Call) and isinstance(v.func, ast.Attribute)
                    and isinstance(v.func.value, ast.Name)
                    and v.func.value.id == 'copy'
                    and v.func.attr == 'deepcopy' and len(v.args) == 1
                    and isinstance(v.args[0], ast.Name)
                    and v.args[0].id == 'self'):
                return [(f, f, 'deepcopy') for f in init_fields], 'deepcopy(self)'
    # construct + assign
    var = None
    out = []
    for st in fn.body:
        if (isinstance(st, ast.Assign) and isinstance(st.value, ast.Call)
                and isinstance(st.value.func, ast.Name)
                and st.value.func.id == cls.__name__):
            var = st.targets[0].id
            init = method_ast(cls, '__init__')
            params = [a.arg for a in init.args.args[1:]]
            argmap = {}
            for p, a in zip(params, st.value.args):
                argmap[p] = a
            for kw in st.value.keywords:
                argmap[kw.arg] = kw.value
            for field, p in ctor_param_fields(cls).items():
                if p in argmap:
                    r = classify_rhs(argmap[p], {'self'})
                    if r is None:
                        out.append((field, '?' + ast.unparse(argmap[p])[:40],
                                    'expr'))
                    else:
                        out.append((field, resolve_property(inst, r[1]),
                                    'ctor'))
    if var is None:
        return [], 'unrecognised'
    out += assigns_in(fn.body, var, {'self'}, inst)
    return out, 'construct+assign'


def all_self_attrs(cls) -> list[str]:
    """every attribute some method of the class body stores on `self`
    (catches fields created lazily, after `__init__`)"""
    src = textwrap.dedent(inspect.getsource(cls))
    tree = ast.parse(src).body[0]
    out = set()
    for fn in ast.walk(tree):
        if not isinstance(fn, (ast.FunctionDef, ast.AsyncFunctionDef)):
            continue
        if not fn.args.args:
            continue
        me = fn.args.args[0].arg
        for n in ast.walk(fn):
            tgts = []
            if isinstance(n, ast.Assign):
                tgts = n.targets
            elif isinstance(n, (ast.AnnAssign, ast.AugAssign)):
                tgts = [n.target]
            for t in tgts:
                for tt in (t.elts if isinstance(t, ast.Tuple) else [t]):
                    if (isinstance(tt, ast.Attribute)
                            and isinstance(tt.value, ast.Name)
                            and tt.value.id == me):
                        out.add(tt.attr)
    return sorted(a for a in out
                  if not isinstance(getattr(cls, a, None), property))


def lean_str(s: str) -> str:
    return '"' + s.replace('\\', '\\\\').replace('"', '\\"') + '"'


def lean_list(xs) -> str:
    return '[' + ', '.join(lean_str(x) for x in xs) + ']'


def lean_assigns(xs) -> str:
    if not xs:
        return '[]'
    return ('[\n    ' + ',\n    '.join(
        f'⟨{lean_str(t)}, {lean_str(s)}, {lean_str(m)}⟩' for t, s, m in xs)
        + ']')


def generate() -> str:
    from bqskit.ir.circuit import Circuit
    from bqskit.compiler.passdata import PassData
    c = Circuit(2)
    pd = PassData(Circuit(2))
    items = []
    for tag, cls, inst in (('circuit', Circuit, c), ('passData', PassData, pd)):
        init = fields_of(inst)
        deep, shallow, default = become_tables(cls, inst)
        cp, how = copy_table(cls, inst, init)
        hooks = sorted(h for h in HOOKS if h in cls.__dict__)
        imm = sorted(f for f in init if is_immutable(getattr(inst, f)))
        stored = all_self_attrs(cls)
        items.append((tag, init, deep, shallow, default, cp, how, hooks, imm,
                      stored))
    out = [
        '/- GENERATED by translate/fields.py from the live bqskit source '
        '(Circuit, PassData).',
        '   Do not edit: rewritten before every build of Props/C16. -/',
        'namespace BqVerif.Generated.Fields',
        '',
        '/-- `self.<target> = <mode>(other.<source>)` -/',
        'structure Assign where',
        '  target : String',
        '  source : String',
        '  mode : String',
        'deriving DecidableEq, Repr',
        '',
    ]
    for tag, init, deep, shallow, default, cp, how, hooks, imm, stored in items:
        out += [
            f'/-- attributes some method of the class stores on `self` -/',
            f'def {tag}Stored : List String := {lean_list(stored)}',
            f'/-- attributes present after `__init__` -/',
            f'def {tag}Init : List String := {lean_list(init)}',
            f'/-- of those, the ones holding immutable values '
            '(int/float/None/tuples of such) -/',
            f'def {tag}Immutable : List String := {lean_list(imm)}',
            f'def {tag}BecomeDeep : List Assign := {lean_assigns(deep)}',
            f'def {tag}BecomeShallow : List Assign := {lean_assigns(shallow)}',
            f'/-- default of `become`\'s `deepcopy` flag -/',
            f'def {tag}BecomeDefaultDeep : Bool := '
            f'{"true" if default else "false"}',
            f'/-- `copy()` recognised as: {how} -/',
            f'def {tag}Copy : List Assign := {lean_assigns(cp)}',
            f'/-- copy/pickle hooks defined by the class itself -/',
            f'def {tag}Hooks : List String := {lean_list(hooks)}',
            '',
        ]
    out += [
        '/-- `PassData._reserved_keys` -/',
        f'def passDataReserved : List String := '
        f'{lean_list(list(PassData._reserved_keys))}',
        '',
        'end BqVerif.Generated.Fields',
        '',
    ]
    return '\n'.join(out)


def main() -> int:
    text = generate()
    OUT.parent.mkdir(parents=True, exist_ok=True)
    if not OUT.exists() or OUT.read_text() != text:
        OUT.write_text(text)
    return 0


if __name__ == '__main__':
    sys.exit(main())
