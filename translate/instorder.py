"""(B)-kind translator for C19: reads `bqskit.ir.opt.instantiaters.instantiater_order`
from the LIVE module and writes lean/BqVerif/Generated/InstOrder.lean:

  * the classes in order, with `get_method_name()`,
  * which predicate each class's `is_capable` is, classified by its behaviour
    on eight probe circuits (gate sets over {VariableUnitaryGate, CNOT, RX}):
        false exactly when a VariableUnitaryGate is present
            -> CapRule.allNotVariableUnitary
        false exactly when a non-locally-optimizable gate (CNOT) is present
            -> CapRule.allLocallyOptimizable
    anything else -> CapRule.unknown,
  * the selection expressions of the multi-start methods, for Instantiater and
    every override: "firstMin" for `sorted(xs, key=cost)[0]` / `min(xs,
    key=cost)`, "other:..." for a recognised selection that is something else
    (index != 0, reverse=, max); unrecognised code yields no entry (the
    dynamic tie of harness/c19.py checks the selection on every run).

Props/C19.lean proves by `decide` that the table is the one the model
(`Cost.assumedOrder`, `Cost.multiStart`) assumes, so `lake build` re-checks it
against the current source on every run.
"""
from __future__ import annotations

import ast
import inspect
import textwrap
from pathlib import Path

OUT = (Path(__file__).resolve().parent.parent / 'lean' / 'BqVerif'
       / 'Generated' / 'InstOrder.lean')


def _fn_ast(fn) -> ast.FunctionDef:
    src = textwrap.dedent(inspect.getsource(fn))
    node = ast.parse(src).body[0]
    assert isinstance(node, (ast.FunctionDef, ast.AsyncFunctionDef))
    return node


def _probe_circuits():
    """Circuits whose gate sets separate the capability rules: a
    VariableUnitaryGate (locally optimizable), a gate that is neither
    (CNOT), a locally optimizable non-variable gate (RX)."""
    from bqskit.ir.circuit import Circuit
    from bqskit.ir.gates import CNOTGate, RXGate, VariableUnitaryGate
    out = []
    for keys in ([], ['vu'], ['cx'], ['rx'], ['vu', 'cx'], ['vu', 'rx'],
                 ['cx', 'rx'], ['vu', 'cx', 'rx']):
        c = Circuit(2)
        for k in keys:
            if k == 'vu':
                c.append_gate(VariableUnitaryGate(1), 0)
            elif k == 'cx':
                c.append_gate(CNOTGate(), (0, 1))
            else:
                c.append_gate(RXGate(), 1)
        out.append((set(keys), c))
    return out


def cap_rule(cls) -> str:
    """Classify `cls.is_capable` by its BEHAVIOUR on the probe circuits (a
    refactoring of the body that keeps the predicate is not a change)."""
    try:
        table = [(keys, bool(cls.is_capable(c)))
                 for keys, c in _probe_circuits()]
    except Exception:
        return 'unknown'
    if all(v == ('vu' not in keys) for keys, v in table):
        return 'allNotVariableUnitary'
    if all(v == ('cx' not in keys) for keys, v in table):
        return 'allLocallyOptimizable'
    return 'unknown'


def _key_is_cost(call: ast.Call) -> bool:
    for k in call.keywords:
        if k.arg == 'key':
            v = k.value
            if isinstance(v, ast.Name) and v.id == 'cost_fn':
                return True
            if isinstance(v, ast.Lambda):
                b = v.body
                if (isinstance(b, ast.Call) and isinstance(b.func, ast.Name)
                        and b.func.id == 'cost_fn' and len(b.args) == 1
                        and isinstance(b.args[0], ast.Name)
                        and v.args.args
                        and b.args[0].id == v.args.args[0].arg):
                    return True
    return False


def selection_shape(fn) -> list[str]:
    """How the multi-start method picks among the per-start results:
    'firstMin'   sorted(xs, key=cost)[0]  or  min(xs, key=cost)
    'other:<..>' a sorted()/min()/max() selection that is NOT the first
                 minimum by cost (index != 0, reverse=, max, other key)
    []           no such expression recognised (the dynamic tie still
                 checks the selection on every run)."""
    out = []
    try:
        tree = _fn_ast(fn)
    except Exception:
        return out
    for node in ast.walk(tree):
        if (isinstance(node, ast.Subscript) and isinstance(node.value, ast.Call)
                and isinstance(node.value.func, ast.Name)
                and node.value.func.id == 'sorted'):
            call = node.value
            sl = node.slice
            idx = None
            if isinstance(sl, ast.Constant) and isinstance(sl.value, int):
                idx = sl.value
            elif (isinstance(sl, ast.UnaryOp) and isinstance(sl.op, ast.USub)
                  and isinstance(sl.operand, ast.Constant)):
                idx = -sl.operand.value
            rev = any(k.arg == 'reverse' and not (
                isinstance(k.value, ast.Constant) and k.value.value is False)
                for k in call.keywords)
            if idx == 0 and not rev and _key_is_cost(call):
                out.append('firstMin')
            else:
                out.append(f'other:sorted[{idx}]' + (',reverse' if rev else '')
                           + ('' if _key_is_cost(call) else ',key?'))
        elif (isinstance(node, ast.Call) and isinstance(node.func, ast.Name)
              and node.func.id in ('min', 'max')
              and any(k.arg == 'key' for k in node.keywords)):
            if node.func.id == 'min' and _key_is_cost(node):
                out.append('firstMin')
            else:
                out.append(f'other:{node.func.id}')
    return out


def lean_str(s: str) -> str:
    return '"' + s.replace('\\', '\\\\').replace('"', '\\"') + '"'


def generate() -> dict:
    from bqskit.ir.circuit import Circuit  # noqa: F401  (import order)
    from bqskit.ir.opt.instantiater import Instantiater
    from bqskit.ir.opt import instantiaters
    order = list(instantiaters.instantiater_order)
    entries = []
    for cls in order:
        try:
            name = cls.get_method_name()
        except Exception:
            name = '?'
        entries.append((cls.__name__, str(name), cap_rule(cls)))
    sels = []
    seen = set()
    for cls in [Instantiater] + order:
        for meth in ('multi_start_instantiate_inplace',
                     'multi_start_instantiate_async'):
            fn = cls.__dict__.get(meth)
            if fn is None:
                continue
            key = (cls.__name__, meth)
            if key in seen:
                continue
            seen.add(key)
            for kind in selection_shape(fn):
                sels.append((cls.__name__, meth, kind))
    lines = [
        'import BqVerif.Model.Cost',
        '/- GENERATED by translate/instorder.py from the live bqskit source. -/',
        'namespace BqVerif.Generated.InstOrder',
        'open BqVerif.Cost',
        '',
        '/-- `bqskit.ir.opt.instantiaters.instantiater_order` -/',
        'def instOrder : List InstEntry := [',
    ]
    lines += [
        f'  ⟨{lean_str(c)}, {lean_str(n)}, .{r}⟩' + (',' if i + 1 < len(entries) else '')
        for i, (c, n, r) in enumerate(entries)
    ]
    lines += [
        ']',
        '',
        '/-- every selection expression recognised in the multi-start methods:',
        '(class, method, kind); kind "firstMin" = `sorted(xs, key=cost)[0]` / `min(xs, key=cost)` -/',
        'def selections : List (String × String × String) := [',
    ]
    lines += [
        f'  ({lean_str(c)}, {lean_str(m)}, {lean_str(k)})'
        + (',' if j + 1 < len(sels) else '')
        for j, (c, m, k) in enumerate(sels)
    ]
    lines += [']', '', 'end BqVerif.Generated.InstOrder', '']
    text = '\n'.join(lines)
    OUT.parent.mkdir(parents=True, exist_ok=True)
    if not OUT.exists() or OUT.read_text() != text:
        OUT.write_text(text)
    return {'entries': entries, 'selections': sels}


if __name__ == '__main__':
    print(generate())
