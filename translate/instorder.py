"""(B)-kind translator for C19: reads `bqskit.ir.opt.instantiaters.instantiater_order`
from the LIVE module and writes lean/BqVerif/Generated/InstOrder.lean:

  * the classes in order, with `get_method_name()`,
  * the shape of each class's `is_capable` body, recognised from its AST:
        all(not isinstance(g, VariableUnitaryGate) for g in circuit.gate_set)
            -> CapRule.allNotVariableUnitary
        all(isinstance(g, LocallyOptimizableUnitary) for g in circuit.gate_set)
            -> CapRule.allLocallyOptimizable
    anything else -> CapRule.unknown,
  * the selection expression of the multi-start methods
    (`sorted(params_list, key=lambda x: cost_fn(x))[0]`): index and whether a
    `reverse=` keyword is present, for Instantiater and every override.

Props/C19.lean proves by `decide` that the table is the one the model
(`Cost.assumedOrder`, `Cost.multiStart`) assumes, so `lake build` re-checks it
against the current source on every run.
"""
from __future__ import annotations

import ast
import inspect
import textwrap
from pathlib import Path

OUT = (Path(__file__).resolve().parent.parent / 'lean' / 'BqVerif'
       / 'Generated' / 'InstOrder.lean')


def _fn_ast(fn) -> ast.FunctionDef:
    src = textwrap.dedent(inspect.getsource(fn))
    node = ast.parse(src).body[0]
    assert isinstance(node, (ast.FunctionDef, ast.AsyncFunctionDef))
    return node


def cap_rule(cls) -> str:
    """Classify the body of `cls.is_capable`."""
    try:
        fn = _fn_ast(cls.is_capable)
    except Exception:
        return 'unknown'
    body = [s for s in fn.body
            if not (isinstance(s, ast.Expr)
                    and isinstance(s.value, ast.Constant))]
    if len(body) != 1 or not isinstance(body[0], ast.Return):
        return 'unknown'
    call = body[0].value
    if not (isinstance(call, ast.Call) and isinstance(call.func, ast.Name)
            and call.func.id == 'all' and len(call.args) == 1
            and not call.keywords):
        return 'unknown'
    gen = call.args[0]
    if not isinstance(gen, ast.GeneratorExp) or len(gen.generators) != 1:
        return 'unknown'
    comp = gen.generators[0]
    if comp.ifs or not isinstance(comp.target, ast.Name):
        return 'unknown'
    var = comp.target.id
    it = comp.iter
    arg0 = fn.args.args[0].arg if fn.args.args else None
    if not (isinstance(it, ast.Attribute) and it.attr == 'gate_set'
            and isinstance(it.value, ast.Name) and it.value.id == arg0):
        return 'unknown'
    elt = gen.elt
    neg = False
    if isinstance(elt, ast.UnaryOp) and isinstance(elt.op, ast.Not):
        neg = True
        elt = elt.operand
    if not (isinstance(elt, ast.Call) and isinstance(elt.func, ast.Name)
            and elt.func.id == 'isinstance' and len(elt.args) == 2
            and isinstance(elt.args[0], ast.Name) and elt.args[0].id == var
            and isinstance(elt.args[1], ast.Name)):
        return 'unknown'
    # resolve the class name in the defining module
    mod = inspect.getmodule(cls)
    target = getattr(mod, elt.args[1].id, None)
    from bqskit.ir.gates.parameterized.unitary import VariableUnitaryGate
    from bqskit.qis.unitary import LocallyOptimizableUnitary
    if neg and target is VariableUnitaryGate:
        return 'allNotVariableUnitary'
    if not neg and target is LocallyOptimizableUnitary:
        return 'allLocallyOptimizable'
    return 'unknown'


def selection_shape(fn) -> list[tuple[int, bool, bool]]:
    """Every `sorted(<x>, key=...)[i]` in fn: (i, has_reverse, key_is_cost)."""
    out = []
    try:
        tree = _fn_ast(fn)
    except Exception:
        return [(-999, True, False)]
    for node in ast.walk(tree):
        if (isinstance(node, ast.Subscript) and isinstance(node.value, ast.Call)
                and isinstance(node.value.func, ast.Name)
                and node.value.func.id == 'sorted'):
            call = node.value
            idx = -999
            sl = node.slice
            if isinstance(sl, ast.Constant) and isinstance(sl.value, int):
                idx = sl.value
            elif (isinstance(sl, ast.UnaryOp) and isinstance(sl.op, ast.USub)
                  and isinstance(sl.operand, ast.Constant)):
                idx = -sl.operand.value
            rev = any(k.arg == 'reverse' for k in call.keywords)
            key_ok = False
            for k in call.keywords:
                if k.arg == 'key' and isinstance(k.value, ast.Lambda):
                    lam = k.value
                    b = lam.body
                    if (isinstance(b, ast.Call) and isinstance(b.func, ast.Name)
                            and b.func.id == 'cost_fn' and len(b.args) == 1
                            and isinstance(b.args[0], ast.Name)
                            and b.args[0].id == lam.args.args[0].arg):
                        key_ok = True
            out.append((idx, rev, key_ok))
    return out


def lean_str(s: str) -> str:
    return '"' + s.replace('\\', '\\\\').replace('"', '\\"') + '"'


def generate() -> dict:
    from bqskit.ir.circuit import Circuit  # noqa: F401  (import order)
    from bqskit.ir.opt.instantiater import Instantiater
    from bqskit.ir.opt import instantiaters
    order = list(instantiaters.instantiater_order)
    entries = []
    for cls in order:
        try:
            name = cls.get_method_name()
        except Exception:
            name = '?'
        entries.append((cls.__name__, str(name), cap_rule(cls)))
    sels = []
    seen = set()
    for cls in [Instantiater] + order:
        for meth in ('multi_start_instantiate_inplace',
                     'multi_start_instantiate_async'):
            fn = cls.__dict__.get(meth)
            if fn is None:
                continue
            key = (cls.__name__, meth)
            if key in seen:
                continue
            seen.add(key)
            for idx, rev, key_ok in selection_shape(fn) or [(-999, True, False)]:
                sels.append((cls.__name__, meth, idx, rev, key_ok))
    lines = [
        'import BqVerif.Model.Cost',
        '/- GENERATED by translate/instorder.py from the live bqskit source. -/',
        'namespace BqVerif.Generated.InstOrder',
        'open BqVerif.Cost',
        '',
        '/-- `bqskit.ir.opt.instantiaters.instantiater_order` -/',
        'def instOrder : List InstEntry := [',
    ]
    lines += [
        f'  ⟨{lean_str(c)}, {lean_str(n)}, .{r}⟩' + (',' if i + 1 < len(entries) else '')
        for i, (c, n, r) in enumerate(entries)
    ]
    lines += [
        ']',
        '',
        '/-- every `sorted(..., key=lambda x: cost_fn(x))[i]` of the multi-start methods:',
        '(class, method, index, has `reverse=`, key is `cost_fn(x)`) -/',
        'def selections : List (String × String × Int × Bool × Bool) := [',
    ]
    lines += [
        f'  ({lean_str(c)}, {lean_str(m)}, {i}, {str(r).lower()}, {str(k).lower()})'
        + (',' if j + 1 < len(sels) else '')
        for j, (c, m, i, r, k) in enumerate(sels)
    ]
    lines += [']', '', 'end BqVerif.Generated.InstOrder', '']
    text = '\n'.join(lines)
    OUT.parent.mkdir(parents=True, exist_ok=True)
    if not OUT.exists() or OUT.read_text() != text:
        OUT.write_text(text)
    return {'entries': entries, 'selections': sels}


if __name__ == '__main__':
    print(generate())
