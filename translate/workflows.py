"""(B) translator for the pipeline cluster (C01, C02, C03).

Calls the REAL `bqskit.compiler.compile.build_workflow` on a grid of configurations and serialises
every returned Workflow object tree -- pass classes, nesting, predicate classes, the constructor
options that matter -- by introspection into `lean/BqVerif/Generated/Workflows.lean` as values of
`BqVerif.Pipeline.Pass`.  What a leaf can write into a circuit is obtained by RUNNING the leaf's
effective layer generator / template generator / deterministic rule on a dummy input under the
configuration's model; model predicates are evaluated by the real predicate classes.

An unknown pass / predicate class, or a known leaf that owns a nested pass the table does not
know about, raises `UnknownConstruct` (the check exits 2): nothing is ever skipped silently.

Usage:  python -m translate.workflows [out.lean]      (PYTHONPATH must contain the repo)
"""
from __future__ import annotations

import asyncio
import contextlib
import copy
import hashlib
import itertools as it
import json
import logging
import random
import sys
import warnings
from pathlib import Path
from typing import Any

import numpy as np

from bqskit.ir.circuit import Circuit  # noqa: F401  (import order matters)
import bqskit.compiler.compile as cc
from bqskit.compiler.basepass import BasePass
from bqskit.compiler.machine import MachineModel
from bqskit.compiler.passdata import PassData
from bqskit.compiler.workflow import Workflow
from bqskit.ir.gates import (
    BarrierPlaceholder, CCXGate, CNOTGate, CSUMGate, CZGate, CircuitGate,
    ConstantUnitaryGate, HGate, MeasurementPlaceholder, RXGate, RZGate,
    SqrtXGate, SwapGate, TGate, U1Gate, U3Gate, VariableUnitaryGate,
)
from bqskit.ir.operation import Operation
from bqskit.passes.alias import PassAlias
from bqskit.passes.control.predicate import PassPredicate
from bqskit.qis.graph import CouplingGraph
from bqskit.qis.state.state import StateVector
from bqskit.qis.state.system import StateSystem
from bqskit.qis.unitary.unitarymatrix import UnitaryMatrix

VERIF = Path(__file__).resolve().parent.parent
OUT = VERIF / 'lean' / 'BqVerif' / 'Generated' / 'Workflows.lean'
EPS = 1e-8


class UnknownConstruct(Exception):
    pass


# --------------------------------------------------------------- class tables
LEAF = {
    'UnfoldPass': 'unfold',
    'ExtractMeasurements': 'extractMeasurements',
    'RestoreMeasurements': 'restoreMeasurements',
    'SetModelPass': 'setModel',
    'SetTargetPass': 'setTarget',
    'SetRandomSeedPass': 'setRandomSeed',
    'LogPass': 'log',
    'LogErrorPass': 'logError',
    'NOOPPass': 'noop',
    'QuickPartitioner': 'quickPartitioner',
    'ExtendBlockSizePass': 'extendBlockSize',
    'GroupSingleQuditGatePass': 'groupSingleQuditGate',
    'FillSingleQuditGatesPass': 'fillSingleQuditGates',
    'AutoRebase2QuditGatePass': 'autoRebase2Qudit',
    'ScanningGateRemovalPass': 'scanningGateRemoval',
    'QSearchSynthesisPass': 'qsearch',
    'LEAPSynthesisPass': 'leap',
    'GeneralSQDecomposition': 'generalSQDecomposition',
    'ZXZXZDecomposition': 'zxzxzDecomposition',
    'ExtractModelConnectivityPass': 'extractModelConnectivity',
    'RestoreModelConnectivityPass': 'restoreModelConnectivity',
    'GreedyPlacementPass': 'greedyPlacement',
    'GeneralizedSabreLayoutPass': 'sabreLayout',
    'GeneralizedSabreRoutingPass': 'sabreRouting',
    'ApplyPlacement': 'applyPlacement',
    'PAMLayoutPass': 'pamLayout',
    'PAMRoutingPass': 'pamRouting',
    'SubtopologySelectionPass': 'subtopologySelection',
    'TagPAMBlockDataPass': 'tagPAMBlockData',
    'UnTagPAMBlockDataPass': 'unTagPAMBlockData',
    'CalculatePAMErrorsPass': 'calculatePAMErrors',
}
WRAP = {  # leaf classes that own one inner synthesis pass
    'EmbedAllPermutationsPass': ('embedAllPermutations', 'inner_synthesis'),
    'PermutationAwareSynthesisPass': ('pas', 'inner_synthesis'),
}
REPL = {
    'always': 'always', 'less-than': 'lessThan',
    'less-than-multi': 'lessThanMulti', 'less-than-many': 'lessThanMany',
    'less-than-respecting': 'rsp', 'less-than-respecting-multi': 'rspMulti',
    'less-than-respecting-many': 'rspMany',
    'less-than-respecting-fully': 'rspFully',
    'less-than-respecting-fully-multi': 'rspFullyMulti',
    'less-than-respecting-fully-many': 'rspFullyMany',
}


def b(x: bool) -> str:
    return 'true' if x else 'false'


# ------------------------------------------------------------------ emission
class Ctx:
    """One configuration: everything the serialiser needs to classify."""

    def __init__(self, kind, level, width, radix, model, max_synth, err_thr,
                 inp, mname):
        self.kind, self.level, self.width, self.radix = kind, level, width, radix
        self.model, self.max_synth, self.err_thr = model, max_synth, err_thr
        self.input, self.mname = inp, mname
        self.classes: set[str] = set()
        self.nodes = 0
        self.depth = 0      # ForEachBlockPass nesting of the node being serialised

    def classify(self, gates) -> dict:
        e = {'sq': False, 'g2': False, 'many': False, 'nmany': False,
             'fails': False, 'raise1': False, 'raiseN': False}
        for g in gates:
            if isinstance(g, (BarrierPlaceholder, MeasurementPlaceholder)):
                continue
            native = g in self.model.gate_set
            n = g.num_qudits
            if n == 1 and not native:
                e['sq'] = True
            elif n == 2 and not native:
                e['g2'] = True
            elif n > 2 and not native:
                e['many'] = True
            elif n > 2:
                e['nmany'] = True
        return e

    def sub_data(self, wd: int) -> PassData:
        """A PassData as a pass sees it on a `wd`-qudit (block) circuit."""
        radixes = [self.radix] * wd
        d = PassData(Circuit(wd, radixes))
        d.model = MachineModel(
            wd, CouplingGraph.all_to_all(wd), self.model.gate_set, radixes)
        return d


# ------------------------------------------------ dummy runs of numeric leaves
class LocalRuntime:
    """A RuntimeHandle that runs every mapped task in this process, in order (passes only use
    `get_runtime().map` / `.submit`).  Used by the translator to RUN numeric leaves on dummy
    blocks and by the harness to diagnose a compile() that raised / lost its runtime."""

    async def map(self, fn, *args, **kwargs):
        import inspect
        kwargs.pop('log_context', None)
        kwargs.pop('task_name', None)
        out = []
        for a in zip(*args):
            r = fn(*a, **kwargs)
            if inspect.isawaitable(r):
                r = await r
            out.append(r)
        return out

    async def submit(self, fn, *args, **kwargs):
        import inspect
        kwargs.pop('log_context', None)
        kwargs.pop('task_name', None)
        r = fn(*args, **kwargs)
        if inspect.isawaitable(r):
            r = await r
        return r

    def get_cache(self):
        return {}


@contextlib.contextmanager
def local_runtime():
    import bqskit.runtime.worker as rw
    old = rw._worker
    rw._worker = LocalRuntime()
    try:
        yield
    finally:
        rw._worker = old


class DummyTimeout(Exception):
    pass


@contextlib.contextmanager
def _alarm(seconds: int):
    import signal

    def handler(signum, frame):
        raise DummyTimeout(f'dummy run exceeded {seconds}s')
    try:
        old = signal.signal(signal.SIGALRM, handler)
    except ValueError:          # not in the main thread: no limit
        yield
        return
    signal.alarm(seconds)
    try:
        yield
    finally:
        signal.alarm(0)
        signal.signal(signal.SIGALRM, old)


def sig(x, depth: int = 0) -> str:
    """A stable description of a pass object's configuration (memo key of the dummy runs)."""
    if depth > 6:
        return '...'
    if isinstance(x, (bool, int, float, str, type(None))):
        return repr(x)
    if isinstance(x, dict):
        return '{' + ','.join(f'{k}:{sig(v, depth + 1)}'
                              for k, v in sorted(x.items(), key=lambda kv: str(kv[0]))) + '}'
    if isinstance(x, (list, tuple)):
        return '[' + ','.join(sig(v, depth + 1) for v in x) + ']'
    if isinstance(x, (set, frozenset)):
        return '{' + ','.join(sorted(sig(v, depth + 1) for v in x)) + '}'
    name = type(x).__name__
    if hasattr(x, 'name') and isinstance(getattr(x, 'name', None), str) \
            and hasattr(x, 'num_qudits'):
        return f'{name}<{x.name}>'                       # a gate
    if callable(x) and hasattr(x, '__qualname__'):
        return f'fn<{x.__qualname__}>'
    try:
        d = vars(x)
    except TypeError:
        return name
    return name + '(' + ','.join(
        f'{k}={sig(v, depth + 1)}' for k, v in sorted(d.items())) + ')'


def haar(dim: int, seed: int):
    nr = np.random.RandomState(seed)
    z = nr.randn(dim, dim) + 1j * nr.randn(dim, dim)
    q, r = np.linalg.qr(z)
    return q * (np.diag(r) / np.abs(np.diag(r)))


def as_target(tk: str, u, radixes):
    """A target of kind `tk` that the unitary `u` reaches."""
    if tk == 'unitary':
        return UnitaryMatrix(u, radixes)
    zero = np.zeros(u.shape[0], dtype=complex)
    zero[0] = 1
    sv = StateVector(u @ zero, radixes)
    if tk == 'state':
        return sv
    return StateSystem({StateVector(zero, radixes): sv})


def dummy_target(tk: str, wd: int, radix: int, seed):
    """seed None: the trivial target (identity / |0..0> / {|0..0> -> |0..0>}); else generic."""
    dim = radix ** wd
    u = np.eye(dim, dtype=complex) if seed is None else haar(dim, seed)
    return as_target(tk, u, [radix] * wd)


_MEMO: dict[str, dict] = {}
DUMMY_TIME: dict = {}
DUMMY_LOG: list[str] = []     # every dummy run that raised (printed by __main__)


def target_kind(ctx: Ctx) -> str:
    """Kind of `data.target` a leaf at the current nesting sees: inside a ForEachBlockPass the
    block's own unitary; at the top level of a state / state-system workflow the user's target."""
    if ctx.depth == 0 and ctx.kind in ('state', 'system'):
        return ctx.kind
    return 'unitary'


def leaf_widths(ctx: Ctx, cap: int = 3) -> list[int]:
    """Circuit widths a leaf at the current nesting can be run on: at the top level of a
    unitary / state / state-system workflow exactly the input's width; inside blocks (and in
    circuit workflows) 1 .. max_synthesis_size (capped at `cap` for the dummy runs)."""
    if ctx.depth == 0 and ctx.kind != 'circuit':
        return [ctx.width]
    return [w for w in (1, 2, 3) if w <= min(cap, max(2, ctx.max_synth))]


def single_start(q):
    """Dummy runs use one starting point (the number of starts changes neither the
    instantiater that is selected nor how it is constructed)."""
    if isinstance(getattr(q, 'instantiate_options', None), dict) \
            and q.instantiate_options.get('multistarts', 1) != 1:
        q.instantiate_options = {**q.instantiate_options, 'multistarts': 1}


def first_step_only(p):
    """A copy of a search-based synthesis leaf (or of a wrapper that owns one) that accepts its
    initial layer: target handling, frontier and the first `Circuit.instantiate` (instantiater
    selection, cost generator / minimizer pairing) run exactly as in the real leaf, the search
    loop does not (with the residual cost of state targets it may run for minutes)."""
    q = copy.deepcopy(p)
    for x in (q, getattr(q, 'inner_synthesis', None)):
        if x is not None and hasattr(x, 'success_threshold'):
            x.success_threshold = 1.0
            single_start(x)
    return q


def one_expansion_only(p):
    """A copy of a search-based synthesis leaf with `max_layer = 1`: the initial layer is
    instantiated against the real threshold and, when it misses, expanded ONCE (the search of a
    constant single-qudit gate set would otherwise run without bound)."""
    q = copy.deepcopy(p)
    q.max_layer = 1
    single_start(q)
    return q


def try_run(p, circ: Circuit, d: PassData, limit: int = 120) -> str:
    """Run the REAL leaf (deep copy) in this process; '' or what it raised."""
    np.random.seed(20240923)
    random.seed(20240923)
    try:
        with local_runtime(), _alarm(limit):
            run_pass(p, circ, d)
        return ''
    except DummyTimeout:
        raise UnknownConstruct(
            f'dummy run of {type(p).__name__} did not finish in {limit}s')
    except Exception as ex:
        return f'{type(ex).__name__}: {str(ex)[:70]}'.replace('\n', ' ')


def memo(ctx: Ctx, p, extra: str, compute, cap: int = 3) -> dict:
    key = '|'.join([
        sig(p), ctx.kind if ctx.depth == 0 else 'block', str(ctx.depth > 0),
        str(leaf_widths(ctx, cap)), str(ctx.radix),
        ','.join(sorted(g.name for g in ctx.model.gate_set)), extra])
    if key not in _MEMO:
        import time as _t
        t0 = _t.time()
        _MEMO[key] = compute()
        k2 = f'{type(p).__name__}/{extra}'
        DUMMY_TIME[k2] = DUMMY_TIME.get(k2, 0.0) + _t.time() - t0
        DUMMY_TIME[k2 + '/n'] = DUMMY_TIME.get(k2 + '/n', 0) + 1
        for wd, err in sorted(_MEMO[key].get('_errs', {}).items()):
            DUMMY_LOG.append(
                f'{type(p).__name__} kind={ctx.kind} depth={ctx.depth} '
                f'model={ctx.mname} L{ctx.level} width={wd}: {err}')
    return dict(_MEMO[key])


def set_errs(e: dict, errs: dict) -> dict:
    e['raise1'] = 1 in errs
    e['raiseN'] = any(w > 1 for w in errs)
    e['_errs'] = errs
    return e


def emit_synth(ctx: Ctx, p) -> dict:
    """A search-based synthesis leaf: gates its EFFECTIVE layer generator can produce (initial
    layer + two generations of successors) and whether the REAL leaf raises when it is run on a
    dummy target of the kind / width it sees: (A) the trivial target with the initial layer
    accepted -- target handling, frontier, instantiater selection and the cost-generator /
    minimizer pairing of `Circuit.instantiate` under the leaf's own instantiate options --;
    (B) a generic target with the real threshold and ONE expansion (`max_layer = 1`): the
    successors are generated and instantiated too.  (B) is skipped for one-qudit BLOCKS (whether
    the initial layer of a block suffices is the numeric hypothesis numOK; at the top level of a
    unitary / state / state-system workflow three generic targets are tried) and for blocks
    wider than two qudits (cost)."""
    from bqskit.passes.search.generators.single import SingleQuditLayerGenerator

    def compute():
        tk = target_kind(ctx)
        gates: set = set()
        errs: dict[int, str] = {}
        single = isinstance(p.layer_gen, SingleQuditLayerGenerator)
        for wd in leaf_widths(ctx):
            if single and wd > 1:
                continue
            try:
                q = copy.deepcopy(p)
                d = ctx.sub_data(wd)
                lg = q._get_layer_gen(d)
                tgt = dummy_target(tk, wd, ctx.radix, None)
                init = lg.gen_initial_layer(tgt, d)
                gates |= set(init.gate_set)
                if wd > 1 or single:
                    for s in lg.gen_successors(init, d):
                        gates |= set(s.gate_set)
                        for s2 in lg.gen_successors(s, d)[:4]:
                            gates |= set(s2.gate_set)
            except Exception as ex:  # the generator cannot run at this width
                errs[wd] = f'layer generator: {type(ex).__name__}: {str(ex)[:60]}'
                continue
            top = ctx.depth == 0 and ctx.kind != 'circuit'
            generic = [1, 2, 3] if (wd == 1 and top) else (
                [1] if (wd == 2 or (wd > 2 and top)) else [])
            for seed in [None] + generic:
                c = Circuit(wd, [ctx.radix] * wd)
                d = ctx.sub_data(wd)
                d.target = dummy_target(tk, wd, ctx.radix, seed)
                err = try_run(first_step_only(p) if seed is None
                              else one_expansion_only(p), c, d)
                if err:
                    errs[wd] = err
                    break
                gates |= set(c.gate_set)
        e = ctx.classify(gates)
        e['_gates'] = sorted(g.name for g in gates)
        return set_errs(e, errs)
    return memo(ctx, p, 'synth', compute)


def native_dummy(ctx: Ctx, wd: int, seed: int = 7) -> Circuit:
    """A small circuit of the model's own gates (general single-qudit gate, one native
    multi-qudit gate that fits, a single-qudit gate again)."""
    r = ctx.radix
    nr = np.random.RandomState(seed)
    gs = ctx.model.gate_set
    try:
        sq = gs.get_general_sq_gate()
    except Exception:
        sq = None
    if sq is None or sq.num_qudits != 1:
        sq = U3Gate() if r == 2 else VariableUnitaryGate(1, [r])
    c = Circuit(wd, [r] * wd)

    def layer(qs):
        for q in qs:
            if isinstance(sq, VariableUnitaryGate):
                params = list(sq.calc_params(UnitaryMatrix(haar(r, nr.randint(1 << 30)), [r])))
            else:
                params = list(nr.uniform(-3, 3, sq.num_params))
            c.append_gate(sq, q, params)
    layer([0])
    mqs = sorted((g for g in gs if 1 < g.num_qudits <= wd),
                 key=lambda g: (g.num_qudits, g.name))
    if mqs:
        g = mqs[0]
        c.append_gate(g, list(range(g.num_qudits)),
                      list(nr.uniform(-3, 3, g.num_params)))
        layer([g.num_qudits - 1])
    return c


def emit_scan(ctx: Ctx, p) -> dict:
    """ScanningGateRemovalPass run on a small circuit of native gates whose own unitary / state /
    state map is the target (so every removal attempt calls Circuit.instantiate with the leaf's
    cost generator and instantiate options)."""
    def compute():
        tk = target_kind(ctx)
        errs: dict[int, str] = {}
        for wd in leaf_widths(ctx, 2):
            c = native_dummy(ctx, wd)
            d = ctx.sub_data(wd)
            d.target = as_target(tk, c.get_unitary().numpy, [ctx.radix] * wd)
            err = try_run(p, c, d)
            if err:
                errs[wd] = err
        return set_errs(ctx.classify([]), errs)
    return memo(ctx, p, 'scan', compute, 2)


def foreign_2q(ctx: Ctx):
    """A two-qudit gate that is not native and is one native gate deep."""
    r = ctx.radix
    if r == 2:
        for g in (CZGate(), CNOTGate(), SwapGate()):
            if g not in ctx.model.gate_set:
                return g
    nat = sorted((g for g in ctx.model.gate_set if g.num_qudits == 2),
                 key=lambda g: g.name)
    if not nat or nat[0].num_params:
        return None
    u = nat[0].get_unitary().numpy @ np.kron(haar(r, 11), haar(r, 12))
    return ConstantUnitaryGate(UnitaryMatrix(u, [r, r]))


def emit_rebase(ctx: Ctx, p) -> dict:
    def compute():
        errs: dict[int, str] = {}
        try:
            new = [g for g in ctx.model.gate_set if g.num_qudits == 2]
            sq = ctx.model.gate_set.get_general_sq_gate()
            circs, _c, over, _m = p.generate_new_gate_templates(new, sq)
            gates = set()
            for c in list(circs) + [over]:
                gates |= set(c.gate_set)
            e = ctx.classify(gates)
        except Exception:
            e = ctx.classify([])
            e['fails'] = True
            return e
        # the whole leaf on a two-qudit block holding one foreign two-qudit gate
        g = foreign_2q(ctx)
        if g is not None:
            r = ctx.radix
            c = Circuit(2, [r, r])
            c.append_gate(g, (0, 1))
            d = ctx.sub_data(2)
            d.target = c.get_unitary()
            err = try_run(p, c, d)
            if err:
                errs[2] = err
        return set_errs(e, errs)
    return memo(ctx, p, 'rebase', compute)


def emit_wrap(ctx: Ctx, p) -> dict:
    """EmbedAllPermutationsPass / PermutationAwareSynthesisPass: the REAL wrapper (with its inner
    synthesis pass) run on the trivial target of the kind / width it sees."""
    from bqskit.passes.mapping.topology import SubtopologySelectionPass

    def compute():
        tk = target_kind(ctx)
        errs: dict[int, str] = {}
        for wd in leaf_widths(ctx, 2):
            c = Circuit(wd, [ctx.radix] * wd)
            d = ctx.sub_data(wd)
            d.target = dummy_target(tk, wd, ctx.radix, None)
            d[SubtopologySelectionPass.key] = {
                k: [CouplingGraph.all_to_all(k)] for k in range(1, wd + 1)}
            err = try_run(first_step_only(p), c, d)
            if err:
                errs[wd] = err
        return set_errs(ctx.classify([]), errs)
    return memo(ctx, p, 'wrap', compute, 2)


def run_pass(p, circ: Circuit, d: PassData):
    with warnings.catch_warnings():
        warnings.simplefilter('ignore')
        asyncio.run(copy.deepcopy(p).run(circ, d))


def emit_leaf(ctx: Ctx, name: str, p) -> dict | None:
    r = ctx.radix
    if name in ('QSearchSynthesisPass', 'LEAPSynthesisPass'):
        return emit_synth(ctx, p)
    if name == 'ScanningGateRemovalPass':
        return emit_scan(ctx, p)
    if name == 'AutoRebase2QuditGatePass':
        return emit_rebase(ctx, p)
    if name == 'FillSingleQuditGatesPass':
        try:
            mq = sorted((g for g in ctx.model.gate_set if g.num_qudits > 1),
                        key=lambda g: (g.num_qudits, g.name))[0]
            wd = mq.num_qudits
            c = Circuit(wd, [r] * wd)
            v = VariableUnitaryGate(1, [r])
            c.append_gate(v, 0, v.identity_as_params([r])
                          if hasattr(v, 'identity_as_params') else None)
            c.append_gate(mq, list(range(wd)))
            d = ctx.sub_data(wd)
            run_pass(p, c, d)
            e = ctx.classify(g for g in c.gate_set if g.num_qudits == 1)
        except Exception:
            e = ctx.classify([])
            e['fails'] = True
        return e
    if name in ('GeneralSQDecomposition', 'ZXZXZDecomposition'):
        try:
            c = Circuit(1, [r])
            v = VariableUnitaryGate(1, [r])
            c.append_gate(v, 0, v.calc_params(UnitaryMatrix(haar(r, 5), [r])))
            d = ctx.sub_data(1)
            run_pass(p, c, d)
            e = ctx.classify(c.gate_set)
        except Exception:
            e = ctx.classify([])
            e['fails'] = True
        return e
    return None


def lean_emit(e: dict | None) -> str:
    if e is None:
        return ''
    parts = [f'{k} := true' for k in ('sq', 'g2', 'many', 'nmany', 'fails',
                                       'raise1', 'raiseN') if e.get(k)]
    return 'emit := { ' + ', '.join(parts) + ' }' if parts else ''


def probe_scan_filter(f) -> str:
    """Classify a ScanningGateRemovalPass.collection_filter by calling it."""
    o1 = Operation(U3Gate(), 0, [0, 0, 0])
    o2 = Operation(CNOTGate(), (0, 1))
    o3 = Operation(CCXGate(), (0, 1, 2))
    v = (bool(f(o1)), bool(f(o2)), bool(f(o3)))
    return {(True, True, True): 'dflt', (False, True, True): 'mq',
            (True, False, False): 'sq'}.get(v, 'other')


def probe_foreach_filter(f) -> str:
    c = Circuit(2)
    c.append_gate(CNOTGate(), (0, 1))
    o1 = Operation(CircuitGate(c), (0, 1))
    o2 = Operation(U3Gate(), 0, [0, 0, 0])
    o3 = Operation(CNOTGate(), (0, 1))
    o4 = Operation(ConstantUnitaryGate(UnitaryMatrix.identity(2)), 0)
    v = tuple(bool(f(o)) for o in (o1, o2, o3, o4))
    return 'dflt' if v == (True, False, False, True) else 'other'


# ------------------------------------------------------------- serialisation
def nested_passes(p) -> list[str]:
    out = []
    for k, v in vars(p).items():
        if isinstance(v, (BasePass, PassPredicate)):
            out.append(k)
        elif isinstance(v, (list, tuple)) and any(
                isinstance(x, (BasePass, PassPredicate)) for x in v):
            out.append(k)
    return out


def ser_pred(p) -> str:
    n = type(p).__name__
    if n == 'WidthPredicate':
        return f'(.width {int(p.width)})'
    if n == 'NotPredicate':
        return f'(.not {ser_pred(p.predicate)})'
    if n == 'AndPredicate':
        return f'(.and {ser_pred(p.p1)} {ser_pred(p.p2)})'
    if n == 'OrPredicate':
        return f'(.or {ser_pred(p.p1)} {ser_pred(p.p2)})'
    if n == 'ManyQuditGatesPredicate':
        return f'(.manyQudit {b(p.check_circuit)} {b(p.check_model)})'
    simple = {
        'MultiPhysicalPredicate': '.multiPhysical',
        'SinglePhysicalPredicate': '.singlePhysical',
        'PhysicalPredicate': '.physical',
        'NoSingleQuditGatesInModel': '.noSQInModel',
        'HasGeneralSingleQuditGate': '.hasGeneralSQ',
        'ZXGatePredicate': '.zxGate',
        'AllConstantSingleQuditGates': '.allConstantSQ',
        'ChangePredicate': '.change',
        'GateCountPredicate': '.gateCount',
    }
    if n in simple:
        return simple[n]
    raise UnknownConstruct(f'unknown predicate class {n}')


class Pool:
    """Hash-consing of Lean terms: big shared subtrees become `def`s."""

    def __init__(self):
        self.defs: dict[str, str] = {}
        self.order: list[tuple[str, str]] = []

    def intern(self, term: str) -> str:
        if len(term) < 120:
            return term
        if term not in self.defs:
            name = f'p{len(self.defs)}'
            self.defs[term] = name
            self.order.append((name, term))
        return self.defs[term]


def ser_seq(ctx: Ctx, pool: Pool, passes) -> str:
    terms = [ser(ctx, pool, q) for q in passes]
    out = '.skip'
    for t in reversed(terms):
        out = pool.intern(f'(.seq {t} {out})')
    return out


def ser(ctx: Ctx, pool: Pool, p) -> str:
    n = type(p).__name__
    ctx.classes.add(n)
    ctx.nodes += 1
    if isinstance(p, Workflow):
        return ser_seq(ctx, pool, p._passes)
    if isinstance(p, PassAlias):
        return ser_seq(ctx, pool, p.get_passes())
    if n == 'IfThenElsePass':
        t = ser(ctx, pool, p.on_true)
        e = ser(ctx, pool, p.on_false) if p.on_false is not None else '.skip'
        return pool.intern(f'(.ifte {ser_pred(p.condition)} {t} {e})')
    if n == 'WhileLoopPass':
        return pool.intern(
            f'(.while_ {ser_pred(p.condition)} {ser(ctx, pool, p.workflow)})')
    if n == 'DoWhileLoopPass':
        return pool.intern(
            f'(.dowhile {ser_pred(p.condition)} {ser(ctx, pool, p.workflow)})')
    if n == 'DoThenDecide':
        return pool.intern(f'(.choice {ser(ctx, pool, p.workflow)} .skip)')
    if n == 'ParallelDo':
        ts = [ser(ctx, pool, w) for w in p.workflows]
        out = ts[-1]
        for t in reversed(ts[:-1]):
            out = pool.intern(f'(.choice {t} {out})')
        return out
    if n == 'ForEachBlockPass':
        rf = p.replace_filter
        repl = REPL.get(rf, None) if isinstance(rf, str) else (
            'always' if rf is __import__(
                'bqskit.passes.control.foreach', fromlist=['x'],
            ).default_replace_filter else 'custom')
        if repl is None:
            raise UnknownConstruct(f'unknown replace filter {rf!r}')
        coll = probe_foreach_filter(p.collection_filter)
        opts = [f'repl := .{repl}']
        if coll != 'dflt':
            opts.append(f'coll := .{coll}')
        if p.calculate_error_bound:
            opts.append('calcErr := true')
        extra = [k for k in nested_passes(p) if k != 'workflow']
        if extra:
            raise UnknownConstruct(f'ForEachBlockPass owns passes in {extra}')
        ctx.depth += 1
        try:
            body = ser(ctx, pool, p.workflow)
        finally:
            ctx.depth -= 1
        return pool.intern(f'(.foreach {{ {", ".join(opts)} }} {body})')
    if n in WRAP:
        kind, attr = WRAP[n]
        extra = [k for k in nested_passes(p) if k != attr]
        if extra:
            raise UnknownConstruct(f'{n} owns passes in {extra}')
        inner = ser(ctx, pool, getattr(p, attr))
        em = lean_emit(emit_wrap(ctx, p))
        return pool.intern(f'(.wrap .{kind} {{ {em} }} {inner})')
    if n not in LEAF:
        raise UnknownConstruct(f'unknown pass class {n}')
    extra = nested_passes(p)
    if extra:
        raise UnknownConstruct(f'leaf {n} owns nested passes in {extra}')
    opts: list[str] = []
    if n == 'QuickPartitioner':
        opts.append(f'blockSize := {int(p.block_size)}')
    if hasattr(p, 'success_threshold') and p.success_threshold == EPS:
        opts.append('thrIsEps := true')
    if n in ('QSearchSynthesisPass', 'LEAPSynthesisPass') \
            and p.layer_gen is not None:
        opts.append('explicitGen := true')
    if n == 'ScanningGateRemovalPass':
        cf = probe_scan_filter(p.collection_filter)
        if cf != 'dflt':
            opts.append(f'coll := .{cf}')
    if n == 'SetModelPass' and p.model is ctx.model:
        opts.append('flag := true')
    if n == 'SetTargetPass' and p.target is ctx.input:
        opts.append('flag := true')
    em = lean_emit(emit_leaf(ctx, n, p))
    if em:
        opts.append(em)
    return f'(.leaf .{LEAF[n]} {{ {", ".join(opts)} }})' if opts else (
        f'(.leaf .{LEAF[n]} {{}})')


# ------------------------------------------------------------ configurations
def graph(shape: str, n: int) -> CouplingGraph:
    if n == 1:
        return CouplingGraph([], 1)
    if shape == 'a2a':
        return CouplingGraph.all_to_all(n)
    if shape == 'line':
        return CouplingGraph.linear(n)
    if shape == 'ring':
        return CouplingGraph.ring(n) if n > 2 else CouplingGraph.linear(n)
    if shape == 'star':
        return CouplingGraph.star(n)
    if shape == 'grid':
        rows = 2 if n % 2 == 0 and n > 2 else 1
        return CouplingGraph.grid(rows, n // rows)
    raise ValueError(shape)


# name -> (radix, gate-set builder, shape, extra machine qudits)
MODELS: dict[str, tuple] = {
    'a2a-cx-u3': (2, lambda: {CNOTGate(), U3Gate()}, 'a2a', 0),
    'line-cx-u3': (2, lambda: {CNOTGate(), U3Gate()}, 'line', 0),
    'ring-cx-u3': (2, lambda: {CNOTGate(), U3Gate()}, 'ring', 0),
    'star-cx-u3': (2, lambda: {CNOTGate(), U3Gate()}, 'star', 0),
    'grid-cx-u3': (2, lambda: {CNOTGate(), U3Gate()}, 'grid', 0),
    'wide-line-cx-u3': (2, lambda: {CNOTGate(), U3Gate()}, 'line', 2),
    'wide-star-cx-u3': (2, lambda: {CNOTGate(), U3Gate()}, 'star', 2),
    'line-cz-rz-sx': (2, lambda: {CZGate(), RZGate(), SqrtXGate()}, 'line', 0),
    'line-cx-u1-rx': (2, lambda: {CNOTGate(), U1Gate(), RXGate()}, 'line', 0),
    # "mixed" Z-X sets (strengthening round 3): the phase gate and the X gate are chosen by
    # independent flags in ZXZXZDecomposition; what the leaf EMITS under each pairing is obtained
    # by running it (emit.sq = a foreign single-qudit gate came out)
    'line-cx-u1-sx': (2, lambda: {CNOTGate(), U1Gate(), SqrtXGate()}, 'line', 0),
    'line-cz-rz-rx': (2, lambda: {CZGate(), RZGate(), RXGate()}, 'line', 0),
    # every Z-X member at once (both flags have a free choice)
    'line-cx-zx-all': (
        2, lambda: {CNOTGate(), U1Gate(), RZGate(), RXGate(), SqrtXGate()},
        'line', 0),
    'a2a-cx-nosq': (2, lambda: {CNOTGate()}, 'a2a', 0),
    'line-cx-nosq': (2, lambda: {CNOTGate()}, 'line', 0),
    'line-cx-h-t': (2, lambda: {CNOTGate(), HGate(), TGate()}, 'line', 0),
    'line-cz-varu': (
        2, lambda: {CZGate(), VariableUnitaryGate(1)}, 'line', 0),
    'line-cx-swap-u3': (
        2, lambda: {CNOTGate(), SwapGate(), U3Gate()}, 'line', 0),
    'a2a-ccx-cx-u3': (
        2, lambda: {CCXGate(), CNOTGate(), U3Gate()}, 'a2a', 0),
    'line-ccx-cx-u3': (
        2, lambda: {CCXGate(), CNOTGate(), U3Gate()}, 'line', 0),
    'a2a-qutrit': (
        3, lambda: {CSUMGate(3), VariableUnitaryGate(1, [3])}, 'a2a', 0),
    'line-qutrit': (
        3, lambda: {CSUMGate(3), VariableUnitaryGate(1, [3])}, 'line', 0),
}


def make_model(mname: str, width: int) -> MachineModel:
    radix, gs, shape, extra = MODELS[mname]
    n = width + extra
    return MachineModel(n, graph(shape, n), gs(), [radix] * n)


def make_input(kind: str, width: int, radix: int):
    radixes = [radix] * width
    dim = radix ** width
    if kind == 'circuit':
        return Circuit(width, radixes)
    if kind == 'unitary':
        return UnitaryMatrix.identity(dim, radixes)
    vec = [0.0] * dim
    vec[0] = 1.0
    sv = StateVector(vec, radixes)
    if kind == 'state':
        return sv
    return StateSystem({sv: sv})


def configurations():
    """(kind, level, mname, width, max_synth, err_thr) -- a covering grid."""
    out = []
    for mname, level in it.product(MODELS, (1, 2, 3, 4)):
        many = 'ccx' in mname
        lo = 3 if many else 2
        # circuits: the tree depends on (model, level, max_synth, err_thr);
        # the width only enters through the abstract start state.
        for width, ms, thr in ((5, 3, False), (2, lo, True), (1, 3, False),
                               (3, max(lo, 4) if level == 1 else 3, True)):
            out.append(('circuit', level, mname, width, ms, thr))
        for kind in ('unitary', 'state', 'system'):
            for width, ms, thr in ((1, 3, False), (2, lo, True), (3, 3, False)):
                out.append((kind, level, mname, width, ms, thr))
    return out


def outside_compile_domain(width: int, model: MachineModel, ms: int) -> str:
    """The argument checks `compile()` performs before it builds a workflow
    (compile.py: max_synthesis_size against the largest native gate,
    type_and_check_input); configurations it rejects are not serialised."""
    gs = model.gate_set
    if ms < max(g.num_qudits for g in gs):
        return 'max_synthesis_size smaller than the largest native gate'
    if model.num_qudits < width:
        return 'machine too small'
    if len(gs.multi_qudit_gates) == 0 and width > 1:
        return 'no entangling gates'
    if all(g.num_qudits > width for g in gs):
        return 'every native gate is wider than the input'
    return ''


def model_facts(model: MachineModel, width: int, radix: int) -> dict:
    from bqskit.passes.control.predicates.single import (
        AllConstantSingleQuditGates, HasGeneralSingleQuditGate,
        NoSingleQuditGatesInModel, ZXGatePredicate,
    )
    from bqskit.ir.opt.instantiaters import Minimization, instantiater_order
    c = Circuit(1, [radix])
    d = PassData(c)
    d.model = model
    gs = model.gate_set
    # a circuit of the model's own gates, asked of the REAL instantiaters
    probe = native_dummy(Ctx('circuit', 1, 2, radix, model, 3, False, None, ''), 2)
    mq = [g.num_qudits for g in gs if g.num_qudits > 1]
    n = model.num_qudits
    edges = set(tuple(sorted(e)) for e in model.coupling_graph)
    sub = model.coupling_graph.get_subgraph(tuple(range(width)))
    return {
        'width': n,
        'hasSQ': not NoSingleQuditGatesInModel().get_truth_value(c, d),
        'hasGeneralSQ': HasGeneralSingleQuditGate().get_truth_value(c, d),
        'zx': ZXGatePredicate().get_truth_value(c, d),
        'allConstSQ': AllConstantSingleQuditGates().get_truth_value(c, d),
        'has2': any(k == 2 for k in mq),
        'hasMany': any(k > 2 for k in mq),
        'minMQ': min(mq) if mq else 0,
        'swapNative': (SwapGate(radix) if radix != 2 else SwapGate()) in gs,
        'allToAll': len(edges) == n * (n - 1) // 2,
        'prefixCoupled': width == 1 or sub.is_fully_connected(),
        'minCapable': Minimization.is_capable(probe),
        'anyCapable': any(i.is_capable(probe) for i in instantiater_order),
    }


def lean_facts(f: dict) -> str:
    return '{ ' + ', '.join(
        f'{k} := {b(v) if isinstance(v, bool) else v}' for k, v in f.items()
    ) + ' }'


def generate(out: Path = OUT) -> dict:
    logging.disable(logging.WARNING)
    pool = Pool()
    _MEMO.clear()
    del DUMMY_LOG[:]
    wfs = []
    info = []
    all_classes: set[str] = set()
    for kind, level, mname, width, ms, thr in configurations():
        radix = MODELS[mname][0]
        model = make_model(mname, width)
        inp = make_input(kind, width, radix)
        ctx = Ctx(kind, level, width, radix, model, ms, thr, inp, mname)
        why = outside_compile_domain(width, model, ms)
        if why:
            info.append({'name': f'{kind}/L{level}/{mname}/w{width}/ms{ms}',
                         'refused': why})
            continue
        try:
            with warnings.catch_warnings():
                warnings.simplefilter('ignore')
                wf = cc.build_workflow(
                    inp, model, level, EPS, ms, 1e-2 if thr else None, 8, None)
        except ValueError as ex:
            # build_workflow refuses the configuration (input wider than
            # max_synthesis_size): outside compile()'s domain
            info.append({'name': f'{kind}/L{level}/{mname}/w{width}/ms{ms}',
                         'refused': str(ex)[:80]})
            continue
        term = ser(ctx, pool, wf)
        facts = model_facts(model, width, radix)
        name = f'{kind}/L{level}/{mname}/w{width}/ms{ms}/thr{int(thr)}'
        cfg = (f'{{ kind := .{kind}, level := {level}, width := {width}, '
               f'maxSynth := {ms}, errThr := {b(thr)}, m := {lean_facts(facts)} }}')
        wfs.append((name, kind, cfg, term))
        all_classes |= ctx.classes
        info.append({'name': name, 'nodes': ctx.nodes,
                     'classes': len(ctx.classes)})
    lines = [
        '/- GENERATED by translate/workflows.py from the live code '
        '(bqskit.compiler.compile.build_workflow). Do not edit. -/',
        'import BqVerif.Model.Pipeline',
        'set_option maxRecDepth 100000',
        'namespace BqVerif.Generated.Workflows',
        'open BqVerif.Pipeline',
        '',
    ]
    for name, term in pool.order:
        lines.append(f'def {name} : Pass := {term}')
    lines.append('')
    groups: dict[str, list[str]] = {
        'circuit': [], 'unitary': [], 'state': [], 'system': []}
    for i, (name, kind, cfg, term) in enumerate(wfs):
        lines.append(
            f'def w{i} : WF := {{ name := "{name}", cfg := {cfg}, '
            f'pass := {term} }}')
        groups[kind].append(f'w{i}')
    lines.append('')
    NCH = 4
    for k in range(NCH):
        lines.append(f'def circuitWFs{k} : List WF := ['
                     + ', '.join(groups['circuit'][k::NCH]) + ']')
    lines.append('def circuitWFs : List WF := '
                 + ' ++ '.join(f'circuitWFs{k}' for k in range(NCH)))
    for kind in ('unitary', 'state', 'system'):
        lines.append(f'def {kind}WFs : List WF := ['
                     + ', '.join(groups[kind]) + ']')
    lines.append(
        'def workflows : List WF := circuitWFs ++ unitaryWFs ++ stateWFs '
        '++ systemWFs')
    lines.append('')
    # named instances used by the witness theorems (first match in the grid)
    wit = {
        'witStatePrep': lambda k, l, m, w: k == 'state' and m == 'a2a-cx-u3'
        and w == 2 and l == 1,
        'witSystem': lambda k, l, m, w: k == 'system' and m == 'a2a-cx-u3'
        and w == 2 and l == 1,
        'witManySparse': lambda k, l, m, w: k == 'circuit'
        and m == 'line-ccx-cx-u3' and w == 5 and l == 1,
        'witUnitaryWide': lambda k, l, m, w: k == 'unitary'
        and m == 'wide-line-cx-u3' and w == 2 and l == 1,
        'witL4W1Wide': lambda k, l, m, w: k == 'circuit'
        and m == 'wide-line-cx-u3' and w == 1 and l == 4,
        'witStateWide': lambda k, l, m, w: k == 'state'
        and m == 'wide-line-cx-u3' and w == 2 and l == 1,
        'witCzVaruCircuit': lambda k, l, m, w: k == 'circuit'
        and m == 'line-cz-varu' and w == 2 and l == 1,
        'witCzVaruUnitary': lambda k, l, m, w: k == 'unitary'
        and m == 'line-cz-varu' and w == 2 and l == 1,
        'witCzVaruUnitary1Q': lambda k, l, m, w: k == 'unitary'
        and m == 'line-cz-varu' and w == 1 and l == 1,
        'witStateL4': lambda k, l, m, w: k == 'state' and m == 'a2a-cx-u3'
        and w == 2 and l == 4,
        'witSystemL4': lambda k, l, m, w: k == 'system' and m == 'a2a-cx-u3'
        and w == 2 and l == 4,
        'witState1Q': lambda k, l, m, w: k == 'state' and m == 'a2a-cx-u3'
        and w == 1 and l == 2,
        'witSystem1Q': lambda k, l, m, w: k == 'system' and m == 'a2a-cx-u3'
        and w == 1 and l == 1,
        'witQutritState': lambda k, l, m, w: k == 'state'
        and m == 'a2a-qutrit' and w == 2 and l == 1,
        'witStateL2': lambda k, l, m, w: k == 'state' and m == 'a2a-cx-u3'
        and w == 2 and l == 2,
        'witNoSQ': lambda k, l, m, w: k == 'circuit'
        and m == 'line-cx-nosq' and w == 5 and l == 1,
        'witResynth': lambda k, l, m, w: k == 'circuit'
        and m == 'line-cx-u3' and w == 5 and l == 3,
    }
    for wname, pr in wit.items():
        for i, (name, kind, cfg, term) in enumerate(wfs):
            k, l, m, w = name.split('/')[:4]
            if pr(k, int(l[1:]), m, int(w[1:])):
                lines.append(f'def {wname} : WF := w{i}')
                break
        else:
            raise UnknownConstruct(f'no configuration for witness {wname}')
    lines.append('')
    lines.append('end BqVerif.Generated.Workflows')
    text = '\n'.join(lines) + '\n'
    out.parent.mkdir(parents=True, exist_ok=True)
    if not out.exists() or out.read_text() != text:
        out.write_text(text)
    summary = {
        'workflows': len(wfs), 'shared_defs': len(pool.order),
        'pass_classes': sorted(all_classes),
        'sha': hashlib.sha256(text.encode()).hexdigest()[:16],
        'nodes_min': min(i['nodes'] for i in info if 'nodes' in i),
        'nodes_max': max(i['nodes'] for i in info if 'nodes' in i),
        'refused': [i['name'] for i in info if 'refused' in i],
        'names': [w[0] for w in wfs],
        'dummy_raises': sorted(set(DUMMY_LOG)),
        'dummy_time': {k: round(v, 1) for k, v in DUMMY_TIME.items()},
    }
    return summary


if __name__ == '__main__':
    try:
        s = generate(Path(sys.argv[1]) if len(sys.argv) > 1 else OUT)
    except UnknownConstruct as ex:
        print(f'TRANSLATOR-ERROR: {ex}', file=sys.stderr)
        sys.exit(2)
    s.pop('names')
    print(json.dumps(s, indent=1))
