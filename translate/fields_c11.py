"""(B)-kind translator for C11 (shared idea with C16): reads from the LIVE source

  * the attribute set `PassData.__init__` creates (instantiate, list `__dict__`),
  * the attributes `PassData.copy` carries over and those `PassData.become`
    assigns, per branch of its `deepcopy` flag (AST),
  * the table of `gen_replace_filter` in passes/control/foreach.py: name ->
    (wrapper, comparison function) (AST)

and writes lean/BqVerif/Generated/FieldsC11.lean.  The same tables are sent to the
driver on every case (`fields`, `filter` lines), so the executable model
follows the code as it is while Props/C11.lean re-checks by `decide` that every
field is restored.
"""
from __future__ import annotations

import ast
import inspect
import textwrap
from pathlib import Path

GEN = Path(__file__).resolve().parent.parent / 'lean' / 'BqVerif' / 'Generated'


def _self_assigned(stmts):
    out = []
    for st in stmts:
        for node in ast.walk(st):
            if isinstance(node, (ast.Assign, ast.AnnAssign, ast.AugAssign)):
                tgts = node.targets if isinstance(node, ast.Assign) else [node.target]
                for t in tgts:
                    if (isinstance(t, ast.Attribute) and isinstance(t.value, ast.Name)
                            and t.value.id == 'self' and t.attr not in out):
                        out.append(t.attr)
    return out


def extract():
    from bqskit.ir.circuit import Circuit
    from bqskit.compiler.passdata import PassData
    import bqskit.passes.control.foreach as fe
    init = sorted(vars(PassData(Circuit(1))).keys())

    # become: assignments in each branch of `if deepcopy:`
    fn = ast.parse(textwrap.dedent(inspect.getsource(PassData.become))).body[0]
    deep, shallow, common = [], [], []
    for st in fn.body:
        if isinstance(st, ast.If):
            deep += _self_assigned(st.body)
            shallow += _self_assigned(st.orelse)
        else:
            common += _self_assigned([st])
    become_deep = sorted(set(deep + common))
    become_shallow = sorted(set(shallow + common))

    # copy: `return copy.deepcopy(self)` carries every attribute; otherwise
    # the attributes assigned on the fresh object / passed to become
    fn = ast.parse(textwrap.dedent(inspect.getsource(PassData.copy))).body[0]
    whole = False
    for node in ast.walk(fn):
        if (isinstance(node, ast.Return) and isinstance(node.value, ast.Call)
                and ast.unparse(node.value.func) in ('copy.deepcopy', 'deepcopy')
                and len(node.value.args) == 1
                and ast.unparse(node.value.args[0]) == 'self'):
            whole = True
    if whole:
        copy_fields = list(init)
    else:
        copy_fields = []
        for node in ast.walk(fn):
            if (isinstance(node, ast.Assign)):
                for t in node.targets:
                    if isinstance(t, ast.Attribute) and t.attr.startswith('_'):
                        copy_fields.append(t.attr)
            if (isinstance(node, ast.Call) and isinstance(node.func, ast.Attribute)
                    and node.func.attr == 'become'):
                copy_fields += become_deep if any(
                    ast.unparse(k.value) == 'True' for k in node.keywords
                ) or len(node.args) > 1 else become_shallow
        copy_fields = sorted(set(copy_fields))

    # gen_replace_filter
    mod = ast.parse(inspect.getsource(fe))
    funcs = {n.name: n for n in mod.body if isinstance(n, ast.FunctionDef)}
    table = None
    for node in ast.walk(funcs['gen_replace_filter']):
        if isinstance(node, ast.Assign) and isinstance(node.value, ast.Dict):
            table = node.value
    cmp_names = {'_less_than': 'ops', '_less_than_multi': 'multi',
                 '_less_than_many': 'many'}
    wrap_names = {'_less_than_fn_respecting': 'respecting',
                  '_less_than_fn_respecting_fully': 'fully'}
    filters = []
    for k, v in zip(table.keys, table.values):
        name = ast.literal_eval(k)
        gen = funcs[ast.unparse(v)]
        ret = [n for n in ast.walk(gen) if isinstance(n, ast.Return)][-1].value
        if isinstance(ret, ast.Name):
            if ret.id == 'default_replace_filter':
                kind = 'always'
            elif ret.id in cmp_names:
                kind = 'plain:' + cmp_names[ret.id]
            else:
                kind = 'unknown:' + ret.id
        elif (isinstance(ret, ast.Call)
              and ast.unparse(ret.func) in ('functools.partial', 'partial')):
            w = ast.unparse(ret.args[0])
            kw = {k.arg: ast.unparse(k.value) for k in ret.keywords}
            if (w in wrap_names and kw.get('model') == 'model'
                    and kw.get('fn') in cmp_names and len(ret.args) == 1):
                kind = wrap_names[w] + ':' + cmp_names[kw['fn']]
            else:
                kind = 'unknown:' + ast.unparse(ret)
        else:
            kind = 'unknown:' + ast.unparse(ret)
        filters.append((name, kind))
    return {'init': init, 'copy': copy_fields, 'become': become_shallow,
            'become_deep': become_deep, 'filters': filters}


def lean_list(xs):
    return '[' + ', '.join('"' + x + '"' for x in xs) + ']'


def render(t):
    lines = [
        '/- GENERATED by translate/fields.py from the live source (bqskit/compiler/passdata.py,',
        '   bqskit/passes/control/foreach.py).  Do not edit. -/',
        'namespace BqVerif.Generated.FieldsC11',
        '/-- attributes created by `PassData.__init__` (instance `__dict__`) -/',
        f'def initFields : List String := {lean_list(t["init"])}',
        '/-- attributes a `PassData.copy()` carries -/',
        f'def copyFields : List String := {lean_list(t["copy"])}',
        '/-- attributes assigned by `PassData.become(other)` (deepcopy=False, what the control passes call) -/',
        f'def becomeFields : List String := {lean_list(t["become"])}',
        '/-- attributes assigned by `PassData.become(other, deepcopy=True)` -/',
        f'def becomeDeepFields : List String := {lean_list(t["become_deep"])}',
        '/-- `gen_replace_filter`: method name -> what its generator returns -/',
        'def replaceFilters : List (String × String) := ['
        + ', '.join(f'("{a}", "{b}")' for a, b in t['filters']) + ']',
        'end BqVerif.Generated.FieldsC11', '']
    return '\n'.join(lines)


def main():
    t = extract()
    GEN.mkdir(exist_ok=True)
    f = GEN / 'FieldsC11.lean'
    new = render(t)
    if not f.exists() or f.read_text() != new:
        f.write_text(new)
    return t


if __name__ == '__main__':
    print(main())
