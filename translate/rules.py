"""(B)-kind translator for C10: extracts every fixed rewrite rule from the LIVE
pass objects of /repo into lean/BqVerif/Generated/Rules.lean.

For each rule pass the data is obtained *behaviourally* and cross-checked with
the stored replacement circuit:

  * source gate: the pass is run on one probe circuit per library gate of the
    right width; the gates whose probe is rewritten are the sources (exactly one
    is expected),
  * replacement: the operations (gate, location, parameters) of the pass's
    OUTPUT on the probe `Circuit(2)[G at (0, 1)]`; it must coincide with
    `pass.cg._circuit` (the stored sub-circuit),
  * parameters are written as exact multiples of pi/4 when they are (|p - k*pi/4|
    <= 4 ulp), as `Ang.bad` otherwise (no identity can then be proved and the
    obligation breaks).

The parameterised single-qubit decompositions (U3Decomposition and the four
option combinations of ZXZXZDecomposition) are run on two generic unitaries;
parameters that differ between the runs become rule variables `Ang.var k`,
those that agree must be exact multiples of pi/4.

Output is deterministic (sorted by rule name).
"""
from __future__ import annotations

import asyncio
import importlib
import inspect
import math
import pkgutil
from pathlib import Path

import numpy as np

from bqskit.ir.circuit import Circuit  # noqa: E402  (before bqskit.qis)
from bqskit.compiler.basepass import BasePass
from bqskit.compiler.passdata import PassData
from bqskit.ir.gates import CircuitGate
from bqskit.qis.unitary import UnitaryMatrix

OUT = (Path(__file__).resolve().parent.parent / 'lean' / 'BqVerif'
       / 'Generated' / 'Rules.lean')

# bqskit gate class name -> constructor of BqVerif.Rules.G
GATE_NAMES = {
    'CNOTGate': 'cx', 'CYGate': 'cy', 'CZGate': 'cz', 'CHGate': 'ch',
    'SwapGate': 'swap', 'HGate': 'h', 'SGate': 's', 'SdgGate': 'sdg',
    'XGate': 'x', 'YGate': 'y', 'ZGate': 'z', 'TGate': 't', 'TdgGate': 'tdg',
    'SqrtXGate': 'sx', 'RXGate': 'rx', 'RYGate': 'ry', 'RZGate': 'rz',
    'U1Gate': 'u1', 'U3Gate': 'u3',
}


def run_pass(p: BasePass, c: Circuit, data: PassData | None = None) -> Circuit:
    c = c.copy()
    asyncio.run(p.run(c, data if data is not None else PassData(c)))
    return c


def ang(p: float) -> str:
    k = round(p / (math.pi / 4))
    if abs(p - k * (math.pi / 4)) <= 4 * np.spacing(max(1.0, abs(p))):
        return f'.pi4 ({k})'
    return '.bad'


def gname(g) -> str:
    n = type(g).__name__
    return '.' + GATE_NAMES[n] if n in GATE_NAMES else f'.other "{n}"'


def op_tuple(op):
    return (type(op.gate).__name__, tuple(int(q) for q in op.location),
            tuple(float(x) for x in op.params))


def library_gates(width: int):
    """One instance of every constant/parameterised qubit gate class of bqskit
    that can be built without arguments and has the given width."""
    import bqskit.ir.gates as G
    out = []
    seen = set()
    for n in sorted(set(G.__all__)):
        cls = getattr(G, n)
        if not inspect.isclass(cls) or cls.__name__ in seen:
            continue
        seen.add(cls.__name__)
        try:
            g = cls()
        except Exception:
            continue
        try:
            if g.num_qudits == width and all(r == 2 for r in g.radixes):
                out.append(g)
        except Exception:
            continue
    return out


def rule_pass_classes():
    """Every pass class under bqskit.passes.rules (whether exported or not) and
    every class exported by bqskit.passes that holds a fixed CircuitGate."""
    import bqskit.passes as P
    import bqskit.passes.rules as R
    seen = {}
    for m in pkgutil.iter_modules(R.__path__):
        mod = importlib.import_module(f'bqskit.passes.rules.{m.name}')
        for n, cls in vars(mod).items():
            if (inspect.isclass(cls) and issubclass(cls, BasePass)
                    and cls.__module__ == mod.__name__):
                seen[n] = cls
    for n in P.__all__:
        cls = getattr(P, n)
        if inspect.isclass(cls) and issubclass(cls, BasePass):
            seen.setdefault(n, cls)
    return seen


def extract_fixed(name: str, p: BasePass) -> dict:
    cgs = [(k, v) for k, v in sorted(vars(p).items())
           if isinstance(v, CircuitGate)]
    assert len(cgs) == 1, (name, cgs)
    stored = cgs[0][1]._circuit
    n = stored.num_qudits
    sources = []
    outs = {}
    for g in library_gates(n):
        c = Circuit(n)
        params = [0.3 + 0.1 * i for i in range(g.num_params)]
        c.append_gate(g, tuple(range(n)), params)
        before = [op_tuple(o) for o in c]
        try:
            out = run_pass(p, c)
        except Exception:
            continue
        after = [op_tuple(o) for o in out]
        if after != before:
            sources.append(g)
            outs[type(g).__name__] = after
    if len(sources) != 1:
        raise RuntimeError(
            f'{name}: expected exactly one source gate, the pass rewrites '
            f'{[type(g).__name__ for g in sources]}')
    src = sources[0]
    after = outs[type(src).__name__]
    stored_ops = [op_tuple(o) for o in stored]
    consistent = (after == stored_ops)
    return {
        'name': name, 'n': n, 'src': gname(src), 'src_py': type(src).__name__,
        'srcloc': list(range(n)), 'srcpar': [],
        'ops': [(g if g not in GATE_NAMES else g, loc, par)
                for g, loc, par in after],
        'stored_consistent': consistent, 'nvars': 0,
    }


def generic_unitary(seed: int) -> UnitaryMatrix:
    rng = np.random.RandomState(seed)
    a = rng.normal(size=(2, 2)) + 1j * rng.normal(size=(2, 2))
    q, _ = np.linalg.qr(a)
    return UnitaryMatrix(q)


def extract_param(name: str, p: BasePass, label: str) -> dict:
    from bqskit.ir.gates import ConstantUnitaryGate
    runs = []
    for seed in (11, 12):
        c = Circuit(1)
        c.append_gate(ConstantUnitaryGate(generic_unitary(seed)), 0)
        runs.append([op_tuple(o) for o in run_pass(p, c)])
    a, b = runs
    assert [x[:2] for x in a] == [x[:2] for x in b], (name, a, b)
    ops = []
    nv = 0
    for (g, loc, pa), (_, _, pb) in zip(a, b):
        par = []
        for x, y in zip(pa, pb):
            if x == y:
                par.append(x)
            else:
                par.append(('var', nv))
                nv += 1
        ops.append((g, loc, tuple(par)))
    return {'name': label, 'n': 1, 'src': None, 'src_py': 'SU2', 'srcloc': [0],
            'srcpar': [], 'ops': ops, 'stored_consistent': True, 'nvars': nv}


def extract_all() -> list[dict]:
    rules = []
    classes = rule_pass_classes()
    for name in sorted(classes):
        cls = classes[name]
        try:
            p = cls()
        except Exception:
            continue
        if any(isinstance(v, CircuitGate) for v in vars(p).values()):
            rules.append(extract_fixed(name, p))
    from bqskit.passes.rules.u3 import U3Decomposition
    from bqskit.passes.rules.zxzxz import ZXZXZDecomposition
    rules.append(extract_param('U3Decomposition', U3Decomposition(),
                               'U3Decomposition'))
    for rx in (False, True):
        for u1 in (False, True):
            label = ('ZXZXZ_' + ('rx' if rx else 'sx') + '_'
                     + ('u1' if u1 else 'rz'))
            rules.append(extract_param(
                'ZXZXZDecomposition', ZXZXZDecomposition(rx, u1), label))
    return sorted(rules, key=lambda r: r['name'])


def lean_ang(x) -> str:
    if isinstance(x, tuple) and x[0] == 'var':
        return f'.var {x[1]}'
    return ang(x)


def render(rules: list[dict]) -> str:
    out = [
        '-- GENERATED by translate/rules.py from the live pass objects of '
        '/repo. Do not edit.',
        'import BqVerif.Model.Rules',
        'namespace BqVerif.Rules.Generated',
        '',
    ]
    for r in rules:
        ops = []
        for g, loc, par in r['ops']:
            gn = '.' + GATE_NAMES[g] if g in GATE_NAMES else f'.other "{g}"'
            ops.append(
                f'    ⟨{gn}, [{", ".join(map(str, loc))}], '
                f'[{", ".join(lean_ang(x) for x in par)}]⟩')
        src = r['src'] if r['src'] is not None else '.su2'
        out.append(f'def rule_{r["name"]} : Rule :=')
        out.append(f'  {{ name := "{r["name"]}", n := {r["n"]}, src := {src},'
                   f' srcLoc := [{", ".join(map(str, r["srcloc"]))}],'
                   f' nvars := {r["nvars"]},')
        out.append('    ops := [')
        out.append(',\n'.join(ops))
        out.append('    ] }')
        out.append('')
    out.append('def allRules : List Rule := ['
               + ', '.join(f'rule_{r["name"]}' for r in rules) + ']')
    out.append('')
    out.append('end BqVerif.Rules.Generated')
    return '\n'.join(out) + '\n'


def main() -> list[dict]:
    rules = extract_all()
    text = render(rules)
    OUT.parent.mkdir(parents=True, exist_ok=True)
    if not OUT.exists() or OUT.read_text() != text:
        OUT.write_text(text)
    return rules


if __name__ == '__main__':
    for r in main():
        print(r['name'], r['src_py'], r['stored_consistent'], r['ops'])
