"""(B)-kind translator for C18 (strengthening round): what `__eq__` and
`__hash__` of every exported gate class LOOK AT.

For every class exported by bqskit.ir.gates (and the three helper classes gate
identity delegates to: UnitaryMatrix, Operation, CircuitLocation) the class
that provides `__eq__` / `__hash__` is found along the MRO, its source is parsed
(`ast`) and every read of `self` is recorded as an *access*

    (path, root, type, chain)

* path  - the attribute path read from `self` (`gate`, `control_levels`,
          `_circuit.radixes`, `radixes[0]`, `frozen_params.items()`,
          `get_unitary()`, `__class__.__name__`; `self` when the object itself
          is passed on),
* root  - the path without a trailing `.items()` / `.__eq__(..)` / `.__hash__()` (the
          value the access is derived from),
* type  - the runtime type(s) of that value on fixed sample instances
          (`Gate` for every gate, `|`-joined when samples differ),
* chain - the calls the value flows through, innermost first, up to the
          statement (`tuple>hash`, `sorted>tuple>hash`); a comparison operand
          ends in `==` / `!=`; a value iterated by a comprehension / for loop
          continues with `each{..}` listing what is applied to the elements
          (`zip>each{set>==}>all`, `each{tuple}>tuple>hash`); a statement inside `try:` ends in
          `try:<caught exceptions>`, one inside a handler in `except`.

The table is written to lean/BqVerif/Generated/GateIdentity.lean on every run.
`Props/C18.lean` proves (decide) that it equals the hand-maintained
`Model/GateIdentityTable.lean` - so a change to either method of any class
breaks an obligation - and that every row is *coherent* (each hash input is
determined by what `__eq__` compares, `Model/GateIdentity.lean`) except the
rows of the known findings.
"""
from __future__ import annotations

import ast
import inspect
import re
import textwrap
import warnings
from pathlib import Path

VERIF = Path(__file__).resolve().parent.parent
OUT = VERIF / 'lean' / 'BqVerif' / 'Generated' / 'GateIdentity.lean'
MODEL = VERIF / 'lean' / 'BqVerif' / 'Model' / 'GateIdentityTable.lean'

# sample instances (python expressions, `G` = bqskit.ir.gates) used for the runtime types
SAMPLES = {
    'ControlledGate': ['G.ControlledGate(G.XGate())',
                       'G.ControlledGate(G.ShiftGate(3), 1, 3, [[1, 2]])'],
    'DaggerGate': ['G.DaggerGate(G.TGate())'],
    'PowerGate': ['G.PowerGate(G.TGate(), 2)'],
    'EmbeddedGate': ['G.EmbeddedGate(G.RYGate(), 3, [0, 2])'],
    'FrozenParameterGate': ['G.FrozenParameterGate(G.U3Gate(), {1: 0.5})'],
    'TaggedGate': ['G.TaggedGate(G.XGate(), "t")', 'G.TaggedGate(G.XGate(), {"k": 1})'],
    'VariableLocationGate': ['G.VariableLocationGate(G.CNOTGate(), [(0, 1), (1, 2)])'],
    'BarrierPlaceholder': ['G.BarrierPlaceholder(2)'],
    'MeasurementPlaceholder': ["G.MeasurementPlaceholder([('c', 1)], {0: ('c', 0)})"],
    'ConstantUnitaryGate': ['G.ConstantUnitaryGate(np.eye(2))'],
    'CircuitGate': ['G.CircuitGate(mk())'],
    'PDGate': ['G.PDGate(1, 3)'], 'SubSwapGate': ['G.SubSwapGate(3, "0,1;2,0")'],
    'PermutationGate': ['G.PermutationGate(2, (1, 0))'],
    'MPRYGate': ['G.MPRYGate(2)'], 'MPRZGate': ['G.MPRZGate(2)'],
    'PauliGate': ['G.PauliGate(1)'], 'PauliZGate': ['G.PauliZGate(1)'],
    'RSU3Gate': ['G.RSU3Gate(0)'], 'VariableUnitaryGate': ['G.VariableUnitaryGate(1, [3])'],
}
HELPERS = ['qis.UnitaryMatrix', 'ir.Operation', 'ir.CircuitLocation']


def provider(cls, meth):
    for c in cls.__mro__:
        if meth in c.__dict__:
            return c
    return object


def _call_name(f):
    if isinstance(f, ast.Name):
        return f.id
    if isinstance(f, ast.Attribute):
        return '.' + f.attr
    return '?'


def accesses(fn_node):
    """[(path, chain)] of every read of `self` in the function."""
    selfname = fn_node.args.args[0].arg
    parents = {}
    for p in ast.walk(fn_node):
        for c in ast.iter_child_nodes(p):
            parents[c] = p

    def path_of(node):
        parts, n = [], node
        while True:
            if isinstance(n, ast.Attribute):
                parts.append('.' + n.attr)
                n = n.value
            elif isinstance(n, ast.Subscript):
                parts.append('[' + ast.unparse(n.slice) + ']')
                n = n.value
            elif isinstance(n, ast.Call) and isinstance(n.func, ast.Attribute):
                parts.append('()' if not (n.args or n.keywords) else '(..)')
                n = n.func
            elif isinstance(n, ast.Name):
                if n.id != selfname:
                    return None
                return ''.join(reversed(parts)).lstrip('.') or 'self'
            else:
                return None

    def chain_part(n):
        p = parents.get(n)
        if isinstance(p, (ast.Attribute, ast.Subscript)) and p.value is n:
            return True
        if isinstance(p, ast.Call) and p.func is n and isinstance(n, ast.Attribute):
            return True
        return False

    def var_uses(owner_bodies, var, stop):
        """chains applied to the loop variable `var` inside the given bodies"""
        inner = set()
        for b in owner_bodies:
            for x in ast.walk(b):
                if isinstance(x, ast.Name) and x.id == var and isinstance(x.ctx, ast.Load):
                    inner.add('>'.join(up(x, stop)))
        return '{' + '|'.join(sorted(inner)) + '}'

    def up(n, stop=None):
        """calls / operators enclosing n, innermost first"""
        chain, cur = [], n
        while cur in parents and cur is not stop:
            p = parents[cur]
            if p is stop:
                break
            if isinstance(p, ast.Attribute) and p.value is cur:
                # attribute of a loop variable (op.gate)
                chain.append('.' + p.attr)
            elif isinstance(p, ast.Call) and cur is not p.func:
                chain.append(_call_name(p.func))
            elif isinstance(p, ast.Compare):
                ops = {type(o).__name__ for o in p.ops}
                chain.append({'Eq': '==', 'NotEq': '!='}.get(ops.pop(), 'cmp')
                             if len(ops) == 1 else 'cmp')
            elif isinstance(p, ast.comprehension) and cur is p.iter:
                owner = parents[p]
                tgt = p.target
                names = [t.id for t in tgt.elts] if isinstance(tgt, ast.Tuple) else \
                    [tgt.id if isinstance(tgt, ast.Name) else ast.unparse(tgt)]
                var = names[0]
                if chain and chain[-1] == 'zip' and isinstance(cur, ast.Call):
                    pos = [i for i, a in enumerate(cur.args)
                           if any(x is n for x in ast.walk(a))]
                    if pos and pos[0] < len(names):
                        var = names[pos[0]]
                bodies = [owner.elt] if hasattr(owner, 'elt') else [owner.key, owner.value]
                bodies = bodies + list(p.ifs)
                chain.append('each' + var_uses(bodies, var, owner))
                cur = owner
                continue
            elif isinstance(p, ast.For) and cur is p.iter:
                tgt = p.target
                var = tgt.id if isinstance(tgt, ast.Name) else ast.unparse(tgt)
                chain.append('each' + var_uses(p.body, var, p))
                break
            elif isinstance(p, ast.stmt):
                if isinstance(p, ast.If) and cur is p.test:
                    chain.append('if')
                elif isinstance(p, ast.Assign) and len(p.targets) == 1 \
                        and isinstance(p.targets[0], ast.Name) and stop is None:
                    # the value is kept in a local variable: continue with its uses
                    chain.append('=' + var_uses(fn_node.body, p.targets[0].id, fn_node))
                if stop is None:
                    # inside `try:` (the exceptions it catches) / inside an `except` handler
                    q = p
                    while q in parents:
                        pq = parents[q]
                        if isinstance(pq, ast.Try) and q in pq.body:
                            names = sorted(ast.unparse(h.type) if h.type is not None else '*'
                                           for h in pq.handlers)
                            chain.append('try:' + ','.join(names))
                        elif isinstance(pq, ast.ExceptHandler):
                            chain.append('except')
                        q = pq
                break
            cur = p
        return chain

    out = set()
    for n in ast.walk(fn_node):
        if isinstance(n, ast.Name):
            if n.id == selfname and not chain_part(n) and isinstance(parents.get(n), ast.Call) \
                    and n is not parents[n].func:
                out.add(('self', '>'.join(up(n))))
            continue
        if isinstance(n, (ast.Attribute, ast.Subscript, ast.Call)) and not chain_part(n):
            pth = path_of(n)
            if pth and pth != 'self':
                out.add((pth, '>'.join(up(n))))
    return sorted(out)


def eval_path(obj, path):
    if path == 'self':
        return obj
    cur = obj
    for tok in re.findall(r'\[[^\]]*\]|\(\.\.\)|\(\)|[A-Za-z_][A-Za-z_0-9]*', path):
        if tok == '()':
            cur = cur()
        elif tok == '(..)':
            return cur
        elif tok.startswith('['):
            cur = cur[eval(tok[1:-1])]
        else:
            cur = getattr(cur, tok)
    return cur


def type_tag(samples, path):
    from bqskit.ir.gate import Gate
    tags = set()
    for s in samples:
        try:
            v = eval_path(s, path)
        except Exception:
            continue
        if isinstance(v, Gate):
            tags.add('Gate')
        elif v is s:
            tags.add('self')
        elif isinstance(v, (list, tuple)) and v:
            e = v[0]
            tags.add(type(v).__name__ + '[' + ('Gate' if isinstance(e, Gate)
                                               else type(e).__name__) + ']')
        else:
            tags.add(type(v).__name__)
    return '|'.join(sorted(tags)) or '?'


def root_of(path):
    for suf in ('.items()', '.__eq__(..)', '.__hash__()'):
        if path.endswith(suf):
            return path[:-len(suf)]
    return path


def describe(cls, samples):
    row = {}
    for m in ('__eq__', '__hash__'):
        c = provider(cls, m)
        if c is object:
            row[m] = ('object', [])
            continue
        fn = ast.parse(textwrap.dedent(inspect.getsource(c.__dict__[m]))).body[0]
        row[m] = (c.__name__, [(p, root_of(p), type_tag(samples, p), ch)
                                for p, ch in accesses(fn)])
    return row


def rows():
    warnings.simplefilter('ignore')
    from bqskit.ir.circuit import Circuit  # noqa: F401 (import order)
    import numpy as np
    import bqskit.ir.gates as G
    from bqskit.ir.gate import Gate
    from bqskit.ir.location import CircuitLocation
    from bqskit.ir.operation import Operation
    from bqskit.qis.unitary.unitarymatrix import UnitaryMatrix
    from bqskit.utils.cachedclass import CachedClass

    def mk():
        c = Circuit(2)
        c.append_gate(G.HGate(), 0)
        c.append_gate(G.CNOTGate(), (0, 1))
        return c
    ns = {'G': G, 'np': np, 'mk': mk}
    out = []
    for n in sorted(set(G.__all__)):
        o = getattr(G, n)
        if not (inspect.isclass(o) and issubclass(o, Gate)) or inspect.isabstract(o) \
                or n in ('QuditGate', 'GeneralGate'):
            continue
        samples = []
        for e in SAMPLES.get(n, [f'G.{n}()']):
            try:
                samples.append(eval(e, ns))
            except Exception:
                pass
        d = describe(o, samples)
        out.append((n, d['__eq__'][0], d['__hash__'][0], issubclass(o, CachedClass),
                    d['__eq__'][1], d['__hash__'][1]))
    helpers = {
        'qis.UnitaryMatrix': (UnitaryMatrix, [UnitaryMatrix(np.eye(2))]),
        'ir.Operation': (Operation, [Operation(G.HGate(), 0)]),
        'ir.CircuitLocation': (CircuitLocation, [CircuitLocation((0, 1))]),
    }
    for n in HELPERS:
        o, samples = helpers[n]
        d = describe(o, samples)
        out.append((n, d['__eq__'][0], d['__hash__'][0], False,
                    d['__eq__'][1], d['__hash__'][1]))
    return out


def lean_str(s: str) -> str:
    return '"' + s.replace('\\', '\\\\').replace('"', '\\"') + '"'


def render_row(r):
    def accs(a):
        return '[' + ', '.join(f'⟨{lean_str(p)}, {lean_str(r)}, {lean_str(t)}, {lean_str(c)}⟩'
                               for p, r, t, c in a) + ']'
    n, e, h, cached, ea, ha = r
    return (f'  ⟨{lean_str(n)}, {lean_str(e)}, {lean_str(h)}, '
            f'{"true" if cached else "false"},\n    {accs(ea)},\n    {accs(ha)}⟩')


def render(rs, defname, header):
    return header + f'def {defname} : List IdRow := [\n' + ',\n'.join(map(render_row, rs)) + '\n]\n'


def write():
    rs = rows()
    OUT.parent.mkdir(parents=True, exist_ok=True)
    txt = ('import BqVerif.Model.GateIdentity\n'
           '/- GENERATED by translate/gate_identity.py from the source of the live classes of\n'
           'bqskit.ir.gates on every check run.  Do not edit. -/\n'
           'namespace BqVerif.Generated\nopen BqVerif.GateIdentity\n\n')
    txt = render(rs, 'gateIdentity', txt) + '\nend BqVerif.Generated\n'
    if not OUT.exists() or OUT.read_text() != txt:
        OUT.write_text(txt)
    return rs


ROW = re.compile(r'⟨"([^"]*)", "([^"]*)", "([^"]*)", (true|false),\n    (\[.*\]),\n    (\[.*\])⟩')


def parse(path):
    return [m.groups() for m in ROW.finditer(path.read_text())]


def diff_against_model():
    """Human-readable difference between the regenerated and the model table."""
    if not MODEL.exists() or not OUT.exists():
        return ['table file missing']
    a, b = parse(MODEL), parse(OUT)
    da, db = {r[0]: r for r in a}, {r[0]: r for r in b}
    out = []
    for k in sorted(set(da) | set(db)):
        if da.get(k) != db.get(k):
            out.append({'class': k, 'model': da.get(k), 'live': db.get(k)})
    if not out and [r[0] for r in a] != [r[0] for r in b]:
        out.append('row order differs')
    return out


if __name__ == '__main__':
    import sys
    rs = write()
    print(len(rs), 'rows')
    for r in rs:
        if r[1] != 'object' or r[2] != 'object':
            print(r[0], '| eq by', r[1], r[4], '| hash by', r[2], r[5])
    if '--init-model' in sys.argv:
        hdr = ('import BqVerif.Model.GateIdentity\n'
               '/- What `__eq__` / `__hash__` of every exported gate class read (C18, strengthening '
               'round):\nclass, provider of `__eq__`, provider of `__hash__`, CachedClass?, accesses '
               'of `__eq__`, accesses of\n`__hash__` (path, runtime type, call chain - see '
               'translate/gate_identity.py).  HAND-MAINTAINED with the\nmodel; `Props/C18.lean` '
               'proves it equal to the table regenerated from the live classes\n'
               '(Generated/GateIdentity.lean) and coherent. -/\n'
               'namespace BqVerif.GateIdentity\n\n')
        MODEL.write_text(render(rs, 'identityTable', hdr) + '\nend BqVerif.GateIdentity\n')
