import Mathlib.Analysis.SpecialFunctions.Sqrt
import Mathlib.Data.Complex.Basic
#check Real.sqrt
#check Real.mul_self_sqrt
example : (Complex.I) * Complex.I = -1 := Complex.I_mul_I
