import BqVerif.Proofs.GatesBase
namespace BqVerif.C18
open BqVerif.Gates Matrix

variable {R : Type} [CommRing R] [StarRing R]
set_option linter.unusedSimpArgs false

theorem C18_unitary_u3 (K : Consts R) (hK : K.Valid) (t p l : Ang R)
    (ht : t.Valid) (hp : p.Valid) (hl : l.Valid) : IsUnitary 2 (u3 K t p l) := by
  unfold IsUnitary
  have h1 := hK.ii
  have h2 := ht.circ
  have h3 := hp.circ
  have h4 := hl.circ
  ext i j
  fin_cases i <;> fin_cases j <;>
    simp [toM, u3, Matrix.mul_apply, Fin.sum_univ_two, Ang.e, ht.rc, ht.rs, hp.rc, hp.rs,
      hl.rc, hl.rs, hK.si] <;> grind

end BqVerif.C18

#print axioms BqVerif.C18.C18_unitary_u3
