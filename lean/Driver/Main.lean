import BqVerif.Drivers.Graph
/- bqdriver <machine>: line protocol on stdin/stdout.  Imports models only. -/
def main (args : List String) : IO UInt32 := do
  match args with
  | ["graph"] => BqVerif.Drv.Graph.main; return 0
  | _ => IO.eprintln "usage: bqdriver <machine>"; return 2
