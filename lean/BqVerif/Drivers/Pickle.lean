import BqVerif.Model.Circ
import BqVerif.Model.Pickle
import BqVerif.Drivers.Util
import BqVerif.Drivers.Circ
/-
Driver for the `pickle` machine (C16).  Stateless, one request per line.

  reduce <circuit>
      -> <groups> # <rebuilt circuit | err ..> # inv=.. iterok=.. kahn=same|diff ncycles=a:b
     groups: the payload's cycles, each item printed as an op (gate index resolved), items by
     '+', groups by '/', in the order `__reduce__` emits them (DAG iteration)
  rebuild <n> <radixes> <g;rad;npar&...> <gi;loc;par+.../...>
      -> <circuit> | err <class>          (arbitrary payload: the malformed stream)
  eqhash <op> <op>          -> eq=<bool> hasheq=<bool> geq=<bool> ghasheq=<bool>
  eqblock <radixes> <op+op..|-> | <radixes> <op+..|->   -> CircuitGate.__eq__ (fixed code)
  eqcirc <circuit> | <circuit>                          -> Circuit.__eq__ (fixed code)
  graphhash <n> <a,b,a,b..> | <a,b,..>                  -> hashes of two edge listings agree
  errmul <p/q> <p/q> ...    -> folded update_error_mul, exact
  pd <become|copy|update|set k v|get k> <rec> | <rec>
      rec: t e m p i f s k=v,k=v      (values are naturals)
-/
namespace BqVerif.Drv.Pickle
open BqVerif.Circ BqVerif.Drv BqVerif.Drv.Circ

def showGroups (tbl : List GateId) (cycles : List (List MOp)) : String :=
  "/".intercalate (cycles.map (fun cy => "+".intercalate (cy.map (fun m =>
    match tbl[m.gi]? with
    | some g => s!"{g.gid};{showInts m.par};{showNats m.loc};{showNats g.rad}"
    | none => s!"?{m.gi};{showInts m.par};{showNats m.loc};"))))

def showRes : Except Err Circ → String
  | .ok c => showCirc c
  | .error e => showErr e

def parseGate (s : String) : Option GateId :=
  match s.splitOn ";" with
  | [g, r, n] => do
    let g ← g.toNat?; let r ← splitNats r; let n ← n.toNat?
    some ⟨g, r, n⟩
  | _ => none

def parseMOp (s : String) : Option MOp :=
  match s.splitOn ";" with
  | [g, l, p] => do
    let g ← g.toNat?; let l ← splitNats l; let p ← splitInts p
    some ⟨g, l, p⟩
  | _ => none

def parseRat (s : String) : Option Rat :=
  match s.splitOn "/" with
  | [p, q] => do
    let p ← p.toInt?; let q ← q.toNat?
    if q == 0 then none else some (mkRat p q)
  | [p] => do let p ← p.toInt?; some (p : Rat)
  | _ => none

def showRat (r : Rat) : String := s!"{r.num}/{r.den}"

def parseKV (s : String) : Option (List (String × Nat)) :=
  if s == "-" then some [] else
  (s.splitOn ",").mapM (fun kv => match kv.splitOn "=" with
    | [k, v] => do let v ← v.toNat?; some (k, v)
    | _ => none)

def parsePD : List String → Option (PData Nat)
  | [t, e, m, p, i, f, s, d] => do
    let t ← t.toNat?; let e ← e.toNat?; let m ← m.toNat?; let p ← p.toNat?
    let i ← i.toNat?; let f ← f.toNat?; let s ← s.toNat?; let d ← parseKV d
    some ⟨t, e, m, p, i, f, s, d⟩
  | _ => none

def showPD (x : PData Nat) : String :=
  let d := if x.data.isEmpty then "-" else ",".intercalate (x.data.map (fun kv => s!"{kv.1}={kv.2}"))
  s!"{x.target} {x.error} {x.model} {x.placement} {x.initialMapping} {x.finalMapping} {x.seed} {d}"

def step (line : String) : String :=
  match groups line with
  | [["reduce", ct]] =>
    (match parseCirc ct with
     | some c =>
       let p := c.reduce
       let r := p.rebuild
       let nc := match r with | .ok c' => toString c'.numCycles | .error _ => "-"
       showGroups p.gates p.cycles ++ " # " ++ showRes r ++ " # " ++
         s!"inv={c.invB} radok={c.radOk} iterok={c.iterOkB c.iterKahn} " ++
         "kahn=" ++ (if c.iterKahn == c.iterCyc then "same" else "diff") ++
         s!" ncycles={c.numCycles}:{nc}" ++
         " rm=" ++ (if showRes c.reduceRM.rebuild == showRes r then "same" else "diff")
     | none => "bad-op")
  | [["rebuild", n, r, gs, cs]] =>
    (match n.toNat?, splitNats (if r == "-" then "" else r),
       (if gs == "-" then some [] else (gs.splitOn "&").mapM parseGate),
       (if cs == "-" then some [] else (cs.splitOn "/").mapM (fun cy =>
          if cy == "" then some [] else (cy.splitOn "+").mapM parseMOp)) with
     | some n, some r, some gs, some cs => showRes (Pickled.rebuild ⟨n, r, gs, cs⟩)
     | _, _, _, _ => "bad-op")
  | [["eqhash", a, b]] =>
    (match parseOp a, parseOp b with
     | some a, some b =>
       s!"eq={a.eqOp b} hasheq={a.hashOp == b.hashOp} geq={a.gate == b.gate} ghasheq={a.gate.hash == b.gate.hash}"
     | _, _ => "bad-op")
  | [["eqblock", ra, a], [rb, b]] =>
    -- CircuitGate.__eq__: radixes, then (gate, location) sequences in iteration order
    (match splitNats ra, splitNats rb,
       (if a == "-" then some [] else (a.splitOn "+").mapM parseOp),
       (if b == "-" then some [] else (b.splitOn "+").mapM parseOp) with
     | some ra, some rb, some a, some b =>
       let f (o : Op) : GateId × List Nat := (⟨o.gid, o.rad, o.par.length⟩, o.loc)
       toString (ra == rb && eqSeq (a.map f) (b.map f))
     | _, _, _, _ => "bad-op")
  | [["eqcirc", ca], [cb]] =>
    (match parseCirc ca, parseCirc cb with
     | some a, some b =>
       toString (eqCircuit a.radixes (a.iterKahn.map (·.2)) b.radixes (b.iterKahn.map (·.2)))
     | _, _ => "bad-op")
  | [["graphhash", n, a], [b]] =>
    (match n.toNat?, nats (a.splitOn ","), nats (b.splitOn ",") with
     | some n, some a, some b => toString (graphHash n (pairs a) == graphHash n (pairs b))
     | _, _, _ => "bad-op")
  | ["errmul" :: xs] =>
    (match xs.mapM parseRat with
     | some (x :: rest) => showRat (rest.foldl errMul x)
     | _ => "bad-op")
  | [("pd" :: op), b] =>
    (match parsePD b with
     | none => "bad-op"
     | some b =>
       match op with
       | "become" :: a => (match parsePD a with | some a => showPD (a.become b) | none => "bad-op")
       | "update" :: a => (match parsePD a with | some a => showPD (a.update b) | none => "bad-op")
       | ["copy"] => showPD b.copy
       | ["set", k, v] => (match v.toNat? with | some v => showPD (b.setItem k v) | none => "bad-op")
       | ["get", k] => (match b.getItem k with | some v => toString v | none => "err key")
       | _ => "bad-op")
  | _ => "bad-op"

def main : IO Unit := do loop (← IO.getStdin) step

end BqVerif.Drv.Pickle
