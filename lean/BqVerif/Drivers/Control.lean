import BqVerif.Model.Control
import BqVerif.Drivers.Util
import BqVerif.Drivers.Circ
/-
Driver for the `control` machine (C11).  One case is a group of lines

  case
  defblock <gid> <circuit>                 names of circuit-gate bodies of the input
  fields <copy> <become>                   comma separated python attribute names (from translate/fields_c11.py)
  filter <name> <kind>                     gen_replace_filter's table (from translate/fields_c11.py)
  leaf <i> (<act> ...)                     what leaf pass i does
  cond <i> <spec> | collect <i> <spec> | rfilt <i> <spec>
  script b b .. | errs p/q .. | arrivals 0,1 2 ..
  state <circuit> <passdata>
  run <fuel> <tree>        -> <outcome> # (trace) # (st ..) # (left script errs arrivals) # (dist (old new) ..)
  breplace <circuit> <c q op> ...          -> batch_replace alone: <ret> # circuit # found ops

Everything structured is an S-expression; circuits are atoms in the text format of Drivers/Circ
on input and, on output, in the *expanded* format (a circuit-gate operation is printed as
`B[<body with its parameters>];loc;radixes`, so gate-id allocation is immaterial).
-/
namespace BqVerif.Drv.Control
open BqVerif.Circ BqVerif.Control BqVerif.Drv
open BqVerif.Drv.Circ (parseOp parseCirc showNats showInts splitNats)

/-! ## S-expressions -/
inductive SE where
  | atom (s : String)
  | node (l : List SE)
deriving Inhabited

def tokenize (s : String) : List String :=
  ((s.replace "(" " ( ").replace ")" " ) ").splitOn " " |>.filter (· ≠ "")

/-- parse a sequence of expressions up to a closing paren / end; returns the rest -/
partial def parseSeq : List String → List SE → List SE × List String
  | [], acc => (acc.reverse, [])
  | ")" :: rest, acc => (acc.reverse, rest)
  | "(" :: rest, acc =>
    let (inner, rest') := parseSeq rest []
    parseSeq rest' (SE.node inner :: acc)
  | t :: rest, acc => parseSeq rest (SE.atom t :: acc)

def parseAll (s : String) : List SE := (parseSeq (tokenize s) []).1

partial def SE.show : SE → String
  | .atom s => s
  | .node l => "(" ++ " ".intercalate (l.map SE.show) ++ ")"

def SE.atom? : SE → Option String
  | .atom s => some s
  | _ => none
def SE.nat? (e : SE) : Option Nat := e.atom?.bind (·.toNat?)
def SE.int? (e : SE) : Option Int := e.atom?.bind (·.toInt?)
def atomsNat (l : List SE) : Option (List Nat) := l.mapM SE.nat?

def parseRat (s : String) : Option Rat :=
  match s.splitOn "/" with
  | [p] => p.toInt?.map (fun p => (p : Rat))
  | [p, q] => do
    let p ← p.toInt?
    let q ← q.toNat?
    if q == 0 then none else some ((p : Rat) / (q : Rat))
  | _ => none

def showRat (r : Rat) : String := s!"{r.num}/{r.den}"

/-! ## sorting helpers (canonical output) -/
def insertStr (x : String × String) : List (String × String) → List (String × String)
  | [] => [x]
  | y :: ys => if x.1 ≤ y.1 then x :: y :: ys else y :: insertStr x ys
def sortStr (l : List (String × String)) : List (String × String) := l.foldr insertStr []

/-! ## expanded circuit text -/
partial def showOpX (bl : Blocks) (o : Op) : String :=
  match bl.body? o.gid with
  | some body =>
    let inner := setParams body o.par
    s!"B[{showCircX bl inner}];{showNats o.loc};{showNats o.rad}"
  | none => s!"{o.gid};{showInts o.par};{showNats o.loc};{showNats o.rad}"
where
  showCircX (bl : Blocks) (c : Circ) : String :=
    showNats c.radixes ++ ":" ++ "/".intercalate
      (c.cycles.map (fun cy => "+".intercalate ((sortBy Op.minQ cy).map (showOpX bl))))

def showCircX (bl : Blocks) (c : Circ) : String := showOpX.showCircX bl c

/-! ## values and PassData -/
partial def parseVal : SE → Option Val
  | .atom "none" => some .none
  | .node [.atom "i", .atom x] => x.toInt?.map .int
  | .node [.atom "q", .atom x] => (parseRat x).map .rat
  | .node [.atom "s", .atom x] => some (.str x)
  | .node [.atom "s"] => some (.str "")
  | .node [.atom "c", .atom x] => (parseCirc x).map .circ
  | .node (.atom "l" :: xs) => (xs.mapM parseVal).map .list
  | .node (.atom "d" :: xs) => (xs.mapM (fun (e : SE) => match e with
      | SE.node [k, v] => do some ((← k.int?), (← parseVal v))
      | _ => none)).map .dict
  | _ => none

partial def showVal (bl : Blocks) : Val → String
  | .none => "none"
  | .int i => s!"(i {i})"
  | .rat r => s!"(q {showRat r})"
  | .str s => s!"(s {s})"
  | .circ c => s!"(c {showCircX bl c})"
  | .list l => "(l" ++ String.join (l.map (fun v => " " ++ showVal bl v)) ++ ")"
  | .dict l =>
    let rec ins (x : Int × Val) : List (Int × Val) → List (Int × Val)
      | [] => [x]
      | y :: ys => if x.1 ≤ y.1 then x :: y :: ys else y :: ins x ys
    "(d" ++ String.join ((l.foldr ins []).map (fun e => s!" ({e.1} {showVal bl e.2})")) ++ ")"

def parseEdges (l : List SE) : Option (List (Nat × Nat)) :=
  l.mapM (fun e => match e.atom? with
    | some s => match s.splitOn "-" with
      | [a, b] => do let a ← a.toNat?; let b ← b.toNat?; some (Graph.norm (a, b))
      | _ => none
    | none => none)

def parseModel : SE → Option MModel
  | .node [.atom "model", n, gn, .node (.atom "e" :: es), .node (.atom "g" :: gs), .node (.atom "r" :: rs)] => do
    let n ← n.nat?
    let gn ← gn.nat?
    let es ← parseEdges es
    let gs ← atomsNat gs
    let rs ← atomsNat rs
    some ⟨n, gn, es, gs, rs⟩
  | _ => none

def showModel (m : MModel) : String :=
  let es := (BqVerif.Drv.Circ.sortPts m.edges).map (fun e => s!"{e.1}-{e.2}")
  s!"(model {m.n} {m.gn} (e{String.join (es.map (" " ++ ·))}) (g{String.join ((sortNat m.gates).map (fun g => s!" {g}"))}) (r{String.join (m.radixes.map (fun g => s!" {g}"))}))"

def parseTarget : SE → Option Target
  | .node [.atom "target", .atom "circ", .atom c] => (parseCirc c).map .ofCirc
  | .node [.atom "target", .atom "named", k, n] => do some (.named (← k.nat?) (← n.nat?))
  | _ => none

def parsePData : SE → Option PData
  | .node [.atom "pd", t, .node [.atom "error", .atom e], m, .node (.atom "placement" :: pl),
      .node (.atom "imap" :: im), .node (.atom "fmap" :: fm), .node [.atom "seed", sd],
      .node (.atom "data" :: kvs)] => do
    let t ← parseTarget t
    let e ← parseRat e
    let m ← parseModel m
    let pl ← atomsNat pl
    let im ← atomsNat im
    let fm ← atomsNat fm
    let sd ← match sd with
      | .atom "none" => some none
      | x => x.int?.map some
    let kvs ← kvs.mapM (fun kv => match kv with
      | .node [.atom k, v] => (parseVal v).map (fun v => (k, v))
      | _ => none)
    some ⟨t, e, m, pl, im, fm, kvs, sd⟩
  | _ => none

def showL (name : String) (l : List Nat) : String :=
  s!"({name}{String.join (l.map (fun x => s!" {x}"))})"

def showPData (bl : Blocks) (d : PData) : String :=
  let t := match d.target with
    | .ofCirc c => s!"(target circ {showCircX bl c})"
    | .named k n => s!"(target named {k} {n})"
  let sd := match d.seed with | some s => s!"{s}" | none => "none"
  let kvs := sortStr (d.data.map (fun e => (e.1, showVal bl e.2)))
  s!"(pd {t} (error {showRat d.error}) {showModel d.model} {showL "placement" d.placement} {showL "imap" d.initialMapping} {showL "fmap" d.finalMapping} (seed {sd}) (data{String.join (kvs.map (fun e => s!" ({e.1} {e.2})"))}))"

def showSt (bl : Blocks) (s : St) : String := s!"(st {showCircX bl s.circ} {showPData bl s.data})"

/-! ## leaf actions -/
inductive Act where
  | append (o : Op) | insert (ci : Int) (o : Op) | pop (p : Option (Int × Int))
  | replace (p : Int × Int) (o : Op) | setCirc (c : Circ) | reparam (a b : Nat)
  | placement (l : List Nat) | imap (l : List Nat) | fmap (l : List Nat)
  | seed (s : Option Int) | error (r : Rat) | model (m : MModel) | gateSet (g : List Nat)
  | target (k n : Nat) | put (k : String) (v : Val) | del (k : String)
  | incr (k : String) (n : Int) | push (k : String) (v : Val)
  | raise

def exU : Circ × Except Err Unit → Circ × Option Err
  | (c, .ok ()) => (c, none)
  | (c, .error e) => (c, some e)

def runAct (s : St) : Act → St × Option Err
  | .append o => let (c, r) := s.circ.append o; ({ s with circ := c }, match r with | .ok _ => none | .error e => some e)
  | .insert ci o => let (c, e) := exU (s.circ.insert ci o); ({ s with circ := c }, e)
  | .pop p => let (c, r) := s.circ.pop p; ({ s with circ := c }, match r with | .ok _ => none | .error e => some e)
  | .replace p o => let (c, e) := exU (s.circ.replace p o); ({ s with circ := c }, e)
  | .setCirc c => ({ s with circ := c }, none)
  | .reparam a b =>
    -- `circuit.set_params(v)` with `v[i] = (a*i + b) % 6001 - 3000` (scaled): block operations get
    -- new parameters, the circuits frozen inside their gates (the block table) do not change
    let n := (s.circ.iter.map (·.par.length)).sum
    ({ s with circ := setParams s.circ ((List.range n).map (fun i => ((a * i + b) % 6001 : Nat) - (3000 : Int))) }, none)
  | .placement l => ({ s with data := { s.data with placement := l } }, none)
  | .imap l => ({ s with data := { s.data with initialMapping := l } }, none)
  | .fmap l => ({ s with data := { s.data with finalMapping := l } }, none)
  | .seed sd => ({ s with data := { s.data with seed := sd } }, none)
  | .error r => ({ s with data := { s.data with error := r } }, none)
  | .model m => ({ s with data := { s.data with model := m } }, none)
  | .gateSet g => ({ s with data := { s.data with model := { s.data.model with gates := g } } }, none)
  | .target k n => ({ s with data := s.data.setTarget k n }, none)
  | .put k v => ({ s with data := { s.data with data := s.data.data.put k v } }, none)
  | .del k =>
    if s.data.data.has k then ({ s with data := { s.data with data := s.data.data.del k } }, none)
    else (s, some .runtime)
  | .incr k n =>
    match s.data.data.get? k with
    | some (.int i) => ({ s with data := { s.data with data := s.data.data.put k (.int (i + n)) } }, none)
    | none => ({ s with data := { s.data with data := s.data.data.put k (.int n) } }, none)
    | some _ => (s, some .type)
  | .push k v =>
    match s.data.data.get? k with
    | some (.list l) => ({ s with data := { s.data with data := s.data.data.put k (.list (l ++ [v])) } }, none)
    | none => ({ s with data := { s.data with data := s.data.data.put k (.list [v]) } }, none)
    | some _ => (s, some .type)
  | .raise => (s, some .runtime)

def runActs : List Act → St → St × Option Err
  | [], s => (s, none)
  | a :: as, s =>
    match runAct s a with
    | (s', some e) => (s', some e)
    | (s', none) => runActs as s'

def parsePt2 (a b : SE) : Option (Int × Int) := do some (← a.int?, ← b.int?)

def parseAct : SE → Option Act
  | .node [.atom "append", .atom o] => (parseOp o).map .append
  | .node [.atom "insert", ci, .atom o] => do some (.insert (← ci.int?) (← parseOp o))
  | .node [.atom "pop", a, b] => (parsePt2 a b).map (fun p => .pop (some p))
  | .node [.atom "poplast"] => some (.pop none)
  | .node [.atom "replace", a, b, .atom o] => do some (.replace (← parsePt2 a b) (← parseOp o))
  | .node [.atom "setcirc", .atom c] => (parseCirc c).map .setCirc
  | .node [.atom "reparam", a, b] => do some (.reparam (← a.nat?) (← b.nat?))
  | .node (.atom "placement" :: l) => (atomsNat l).map .placement
  | .node (.atom "imap" :: l) => (atomsNat l).map .imap
  | .node (.atom "fmap" :: l) => (atomsNat l).map .fmap
  | .node [.atom "seed", .atom "none"] => some (.seed none)
  | .node [.atom "seed", x] => x.int?.map (fun i => .seed (some i))
  | .node [.atom "error", .atom r] => (parseRat r).map .error
  | .node (.atom "model" :: rest) => (parseModel (.node (.atom "model" :: rest))).map .model
  | .node (.atom "gateset" :: l) => (atomsNat l).map .gateSet
  | .node [.atom "target", k, n] => do some (.target (← k.nat?) (← n.nat?))
  | .node [.atom "put", .atom k, v] => (parseVal v).map (.put k)
  | .node [.atom "del", .atom k] => some (.del k)
  | .node [.atom "incr", .atom k, n] => n.int?.map (.incr k)
  | .node [.atom "push", .atom k, v] => (parseVal v).map (.push k)
  | .node [.atom "raise"] => some .raise
  | _ => none

/-! ## callables -/
inductive CondSpec | const (b : Bool) | opsLt | opsLe | opsGt | cyclesLt
inductive CollectSpec | all | gids (l : List Nat) | arity (k : Nat) | block | minq (q : Nat) | notGids (l : List Nat)
inductive RFiltSpec | const (b : Bool) | opsLtOld | opsLt (k : Nat) | locHas (q : Nat)

def CondSpec.eval : CondSpec → Circ → Circ → Bool
  | .const b, _, _ => b
  | .opsLt, a, b => a.numOps < b.numOps
  | .opsLe, a, b => a.numOps ≤ b.numOps
  | .opsGt, a, b => a.numOps > b.numOps
  | .cyclesLt, a, b => a.numCycles < b.numCycles

def CollectSpec.eval (bl : Blocks) : CollectSpec → Op → Bool
  | .all, _ => true
  | .gids l, o => l.contains o.gid
  | .notGids l, o => !l.contains o.gid
  | .arity k, o => o.loc.length == k
  | .block, o => (bl.body? o.gid).isSome
  | .minq q, o => o.minQ == q

def RFiltSpec.eval (bl : Blocks) : RFiltSpec → Circ → Op → Bool
  | .const b, _, _ => b
  | .opsLtOld, new, old => match bl.body? old.gid with
    | some body => new.numOps < body.numOps
    | none => new.numOps < 1
  | .opsLt k, new, _ => new.numOps < k
  | .locHas q, _, old => old.loc.contains q

def parseCondSpec : List String → Option CondSpec
  | ["true"] => some (.const true) | ["false"] => some (.const false)
  | ["opslt"] => some .opsLt | ["opsle"] => some .opsLe | ["opsgt"] => some .opsGt
  | ["cycleslt"] => some .cyclesLt
  | _ => none
def parseCollectSpec : List String → Option CollectSpec
  | ["all"] => some .all | ["block"] => some .block
  | ["gids", l] => (splitNats l).map .gids
  | ["notgids", l] => (splitNats l).map .notGids
  | ["arity", k] => k.toNat?.map .arity
  | ["minq", q] => q.toNat?.map .minq
  | _ => none
def parseRFiltSpec : List String → Option RFiltSpec
  | ["true"] => some (.const true) | ["false"] => some (.const false)
  | ["opsltold"] => some .opsLtOld
  | ["opslt", k] => k.toNat?.map .opsLt
  | ["lochas", q] => q.toNat?.map .locHas
  | _ => none

def parseFilterKind (s : String) : Option FilterKind := FilterKind.ofString s

/-! ## trees -/
partial def parsePred : SE → Option Pred
  | .atom "script" => some .script
  | .atom "change" => some .change
  | .node [.atom "popkey", .atom k] => some (.popKey k)
  | .node [.atom "keylt", .atom k, n] => n.int?.map (.keyLt k)
  | .node [.atom "width", n] => n.nat?.map .width
  | .node (.atom "gatecount" :: l) => (atomsNat l).map .gateCount
  | .node [.atom "not", p] => (parsePred p).map .not
  | .node [.atom "and", p, q] => do some (.and (← parsePred p) (← parsePred q))
  | .node [.atom "or", p, q] => do some (.or (← parsePred p) (← parsePred q))
  | _ => none

def parseCond : SE → Option Cond
  | .atom "script" => some .script
  | .node [.atom "fn", i] => i.nat?.map .fn
  | _ => none

def parseBool : SE → Option Bool
  | .atom "1" => some true | .atom "0" => some false | _ => none

partial def parseTree : SE → Option Tree
  | .node [.atom "leaf", i] => i.nat?.map .leaf
  | .node (.atom "seq" :: ts) => (ts.mapM parseTree).map .seq
  | .node [.atom "ite", p, t] => do some (.ite (← parsePred p) (← parseTree t) none)
  | .node [.atom "ite", p, t, e] => do some (.ite (← parsePred p) (← parseTree t) (some (← parseTree e)))
  | .node [.atom "while", p, b] => do some (.while (← parsePred p) (← parseTree b))
  | .node [.atom "dowhile", p, b] => do some (.doWhile (← parsePred p) (← parseTree b))
  | .node [.atom "dtd", c, w] => do some (.dtd (← parseCond c) (← parseTree w))
  | .node [.atom "par", lt, pf, .node (.atom "ws" :: ws)] => do
    some (.par (← ws.mapM parseTree) (← parseCond lt) (← parseBool pf))
  | .node [.atom "foreach", cb, col, rf, b] => do
    let col ← match col with
      | .atom "default" => some Collect.default
      | .node [.atom "fn", i] => i.nat?.map Collect.fn
      | _ => none
    let rf ← match rf with
      | .node [.atom "named", .atom s] => some (RFilter.named s)
      | .node [.atom "fn", i] => i.nat?.map RFilter.fn
      | _ => none
    some (.forEach ⟨← parseBool cb, col, rf⟩ (← parseTree b))
  | .atom "clearall" => some .clearAll
  | _ => none

/-! ## driver state -/
structure DSt where
  blocks : Blocks := []
  copyF : List Field := Field.all
  becomeF : List Field := Field.all
  filters : List (String × FilterKind) := []
  leaves : List (Nat × List Act) := []
  conds : List (Nat × CondSpec) := []
  collects : List (Nat × CollectSpec) := []
  rfilts : List (Nat × RFiltSpec) := []
  script : List Bool := []
  errs : List Rat := []
  arrivals : List (List Nat) := []
  st : Option St := none

def parseFields (s : String) : Option (List Field) :=
  -- attribute names the model does not know are skipped (Props/C11 then fails its `decide`)
  if s == "-" then some [] else some ((s.splitOn ",").filterMap Field.ofPyName)

/-- the environment of a case -/
def DSt.env (d : DSt) : Env :=
  { leaf := fun i s => match d.leaves.find? (·.1 == i) with
      | some (_, acts) => runActs acts s
      | none => (s, some .runtime)
    cond := fun i a b => match d.conds.find? (·.1 == i) with
      | some (_, sp) => sp.eval a b
      | none => false
    collect := fun i bl o => match d.collects.find? (·.1 == i) with
      | some (_, sp) => sp.eval bl o
      | none => false
    rfilt := fun i bl new old => match d.rfilts.find? (·.1 == i) with
      | some (_, sp) => sp.eval bl new old
      | none => false
    filters := d.filters
    copyFields := d.copyF
    becomeFields := d.becomeF }

def showOutcome : Outcome → String
  | .ok => "ok"
  | .raised e => BqVerif.Drv.Circ.showErr e

def showB (b : Bool) : String := if b then "1" else "0"

def step (d : DSt) (line : String) : DSt × String :=
  let bad := (d, "bad-line")
  match line.splitOn " " |>.filter (· ≠ "") with
  | ["case"] => ({}, "ok")
  | ["defblock", g, ct] =>
    (match g.toNat?, parseCirc ct with
     | some g, some b => ({ d with blocks := (g, b) :: d.blocks.filter (·.1 != g) }, "ok")
     | _, _ => bad)
  | ["fields", c, b] =>
    (match parseFields c, parseFields b with
     | some c, some b => ({ d with copyF := c, becomeF := b }, "ok")
     | _, _ => bad)
  | ["filter", name, kind] =>
    (match parseFilterKind kind with
     | some k => ({ d with filters := d.filters ++ [(name, k)] }, "ok")
     | none => bad)
  | "leaf" :: i :: _ =>
    (match i.toNat?, parseAll line with
     | some i, [_, _, .node acts] =>
       (match acts.mapM parseAct with
        | some acts => ({ d with leaves := (i, acts) :: d.leaves }, "ok")
        | none => bad)
     | _, _ => bad)
  | "cond" :: i :: spec =>
    (match i.toNat?, parseCondSpec spec with
     | some i, some sp => ({ d with conds := (i, sp) :: d.conds }, "ok")
     | _, _ => bad)
  | "collect" :: i :: spec =>
    (match i.toNat?, parseCollectSpec spec with
     | some i, some sp => ({ d with collects := (i, sp) :: d.collects }, "ok")
     | _, _ => bad)
  | "rfilt" :: i :: spec =>
    (match i.toNat?, parseRFiltSpec spec with
     | some i, some sp => ({ d with rfilts := (i, sp) :: d.rfilts }, "ok")
     | _, _ => bad)
  | "script" :: bs => ({ d with script := bs.map (· == "1") }, "ok")
  | "errs" :: rs =>
    (match rs.mapM parseRat with
     | some rs => ({ d with errs := rs }, "ok")
     | none => bad)
  | "arrivals" :: bs =>
    (match bs.mapM splitNats with
     | some bs => ({ d with arrivals := bs }, "ok")
     | none => bad)
  | "state" :: ct :: _ =>
    (match parseCirc ct, parseAll line with
     | some c, [_, _, pd] =>
       (match parsePData pd with
        | some pd => ({ d with st := some ⟨c, pd⟩ }, "ok")
        | none => bad)
     | _, _ => bad)
  | "run" :: fuel :: _ =>
    (match fuel.toNat?, parseAll line, d.st with
     | some fuel, [_, _, t], some st =>
       (match parseTree t with
        | none => bad
        | some t =>
          let w : World := ⟨d.script, d.errs, d.arrivals, d.blocks, []⟩
          match exec d.env fuel t w st with
          | none => (d, "out-of-fuel")
          | some r =>
            let bl := r.w.blocks
            let tr := " ".intercalate (r.trace.map (fun e => s!"(ev {e.leaf} {showB e.may} {showSt bl e.st})"))
            let left := s!"(left (script{String.join (r.w.script.map (fun b => " " ++ showB b))}) (errs {r.w.errs.length}) (arrivals {r.w.arrivals.length}))"
            let dl := " ".intercalate (r.w.distLog.map (fun p => s!"({showCircX bl p.1} {showCircX bl p.2})"))
            (d, s!"{showOutcome r.out} # ({tr}) # {showSt bl r.st} # {left} # (dist {dl})"))
     | _, _, _ => bad)
  | "breplace" :: ct :: items =>
    (match parseCirc ct, BqVerif.Drv.Circ.parseItems items with
     | some c, some items =>
       let (c', r) := c.batchReplace items
       (d, s!"{BqVerif.Drv.Circ.retU r} # {showCircX d.blocks c'}")
     | _, _ => bad)
  | _ => bad

def main : IO Unit := do loopS (← IO.getStdin) step {}

end BqVerif.Drv.Control
