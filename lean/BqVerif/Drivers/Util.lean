/- Line-protocol helpers shared by all machine drivers (no imports). -/
namespace BqVerif.Drv

/-- Split a line into `|`-separated groups of space-separated tokens. -/
def groups (line : String) : List (List String) :=
  (line.splitOn "|").map (fun g => (g.splitOn " ").filter (· ≠ ""))

def nats (ts : List String) : Option (List Nat) := ts.mapM (·.toNat?)
def ints (ts : List String) : Option (List Int) := ts.mapM (·.toInt?)

def pairs : List Nat → List (Nat × Nat)
  | a :: b :: t => (a, b) :: pairs t
  | _ => []

def showList (l : List Nat) : String := " ".intercalate (l.map toString)
def showPairs (l : List (Nat × Nat)) : String :=
  " ".intercalate (l.map (fun p => s!"{p.1}-{p.2}"))

def chomp (s : String) : String :=
  String.ofList (s.toList.reverse.dropWhile (fun c => c == '\n' || c == '\r')).reverse

partial def loop (h : IO.FS.Stream) (step : String → String) : IO Unit := do
  let line ← h.getLine
  if line.isEmpty then return ()
  IO.println (step (chomp line))
  loop h step

/-- stateful variant -/
partial def loopS {σ : Type} (h : IO.FS.Stream) (step : σ → String → σ × String) (s : σ) : IO Unit := do
  let line ← h.getLine
  if line.isEmpty then return ()
  let (s', out) := step s (chomp line)
  IO.println out
  loopS h step s'

end BqVerif.Drv
