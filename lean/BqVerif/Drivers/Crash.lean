import BqVerif.Model.Crash
import BqVerif.Drivers.Util
/- Driver for the `crash` machine (C14).  Stateful.

  topo <attached 0|1> <nclients> p0:k0 p1:k1 ...   new network (kind codes 0 server, 1 manager, 2 worker)
  track d                                          report potential / critical / growth w.r.t. node d
  <label>                                          one transition; answer = canonical state or `none`

Labels: `crash n t`, `recvEmp p e f | emits`, `recvUp n f | emits`, `recvClient c f | emits`,
`flush n`, `flushDrop n`, `wsend w msg`, `wrecv w`, `ccall c msg`, `cwake c`.
Messages: S shutdown, R.m.v, E sysError, o.k other, B broken, q.k request, s.k submit (k-th task of the client),
d disconnect, X error, r.k reply.  Emits: `u:msg`, `e<i>:msg`, `c<i>:msg`.
The `f` of `recvEmp` / `recvUp` is `0`, `1` or the name of the exception class `recv` raised on a lost connection
(`eof reset pipe aborted closed trunc`; classified by `ConnExc.hard`).
Stateless: `recvall <eof> | msgs`, `predrain <eof> | msgs` (the client's receive loops),
`react <site> <exc>` (the reaction table `react`). -/
namespace BqVerif.Drv.Crash
open BqVerif.Crash BqVerif.Drv

def showMsg : Msg → String
  | .shutdown => "S" | .result m v => s!"R.{m}.{v}" | .sysError => "E" | .other k => s!"o.{k}"
  | .broken => "B" | .request m => s!"q.{m}" | .submit k => s!"s.{k}" | .disconnect => "d"
  | .error => "X" | .reply k => s!"r.{k}"

def parseMsg (tok : String) : Option Msg :=
  match tok.splitOn "." with
  | ["S"] => some .shutdown
  | ["R", m, v] => do some (.result (← m.toNat?) (← v.toNat?))
  | ["E"] => some .sysError
  | ["o", k] => k.toNat?.map .other
  | ["B"] => some .broken
  | ["q", m] => m.toNat?.map .request
  | ["s", k] => k.toNat?.map .submit
  | ["d"] => some .disconnect
  | ["X"] => some .error
  | ["r", k] => k.toNat?.map .reply
  | _ => none

def showDest : Dest → String
  | .up => "u" | .emp e => s!"e{e}" | .client c => s!"c{c}"

def parseDest (tok : String) : Option Dest :=
  if tok = "u" then some .up
  else match tok.toList with
    | 'e' :: r => (String.ofList r).toNat?.map .emp
    | 'c' :: r => (String.ofList r).toNat?.map .client
    | _ => none

def parseEmit (tok : String) : Option (Dest × Msg) :=
  match tok.splitOn ":" with
  | [d, m] => do some (← parseDest d, ← parseMsg m)
  | _ => none

def parseBool (tok : String) : Option Bool :=
  if tok = "1" then some true else if tok = "0" then some false else none

def parseExc (tok : String) : Option ConnExc :=
  match tok with
  | "eof" => some .eof | "reset" => some .reset | "pipe" => some .pipe | "aborted" => some .aborted
  | "closed" => some .closedHandle | "trunc" => some .truncated | _ => none

def parseSite (tok : String) : Option Site :=
  match tok with
  | "runRecv" => some .runRecv | "workerRecv" => some .workerRecv | "clientRecv" => some .clientRecv
  | "clientSend" => some .clientSend | "outgoingSend" => some .outgoingSend
  | "shutdownSend" => some .shutdownSend | "managerUpSend" => some .managerUpSend
  | "unknownTaskSend" => some .unknownTaskSend | "workerSend" => some .workerSend
  | "sysErrClientSend" => some .sysErrClientSend | _ => none

def showReaction : Reaction → String
  | .disconnect => "disconnect" | .systemError => "systemError" | .selfKill => "selfKill"
  | .raises => "raises" | .dropped => "dropped" | .shutdownThenEscapes => "shutdownThenEscapes"

/-- the `fails` flag of a delivery: `0` / `1` (a handler of ordinary traffic raised), or the NAME of the
exception class that `recv` raised on a lost connection - classified by the model (`ConnExc.hard`) -/
def parseFails (tok : String) : Option Bool :=
  match parseBool tok with
  | some b => some b
  | none => (parseExc tok).map ConnExc.hard

def parseLabel (gs : List (List String)) : Option Label :=
  let emits := (gs.drop 1).headD []
  match gs.headD [] with
  | ["crash", n, tr] => do some (.crash (← n.toNat?) (← parseBool tr))
  | ["recvEmp", p, e, f] => do some (.recvEmp (← p.toNat?) (← e.toNat?) (← emits.mapM parseEmit) (← parseFails f))
  | ["recvUp", n, f] => do some (.recvUp (← n.toNat?) (← emits.mapM parseEmit) (← parseFails f))
  | ["recvClient", c, f] => do some (.recvClient (← c.toNat?) (← emits.mapM parseEmit) (← parseBool f))
  | ["flush", n] => n.toNat?.map .flush
  | ["flushDrop", n] => n.toNat?.map .flushDrop
  | ["wsend", w, m] => do some (.wsend (← w.toNat?) (← parseMsg m))
  | ["wrecv", w] => w.toNat?.map .wrecv
  | ["ccall", c, m] => do some (.ccall (← c.toNat?) (← parseMsg m))
  | ["cwake", c] => c.toNat?.map .cwake
  | _ => none

def b (x : Bool) : String := if x then "1" else "0"
def showMsgs (l : List Msg) : String := ",".intercalate (l.map showMsg)
def showQ (l : List (Dest × Msg)) : String :=
  ",".intercalate (l.map (fun x => s!"{showDest x.1}:{showMsg x.2}"))

def insBy {α : Type} (le : α → α → Bool) (x : α) : List α → List α
  | [] => [x]
  | y :: t => if le x y then x :: y :: t else y :: insBy le x t
def sortKey {α : Type} (l : List (Nat × α)) : List (Nat × α) :=
  l.foldr (insBy (fun a c => a.1 ≤ c.1)) []

def showOpt : Option Nat → String
  | none => "-" | some v => toString v

def showCEv : CEv → String
  | .returned c m => s!"ret.{c}.{showMsg m}" | .raised c => s!"raise.{c}"

def showState (t : Topo) (nc : Nat) (s : State) : String :=
  let nodes := (List.range t.n).map (fun i =>
    s!"{i}:a{b (s.alive i)}r{b (s.running i)}c{b (s.cleared i)}o{b (s.outAlive i)}" ++
    s!"u{b (s.upOpen i)}d{b (s.downOpen i)}S{b (s.sentShutdown i)}y{s.syslog i}" ++
    s!"|out={showMsgs (s.outbox i)}|in={showMsgs (s.inbox i)}|q={showQ (s.outq i)}")
  let cls := (List.range nc).map (fun c =>
    s!"C{c}:o{b (s.copen c)}n{b (s.cconn c)}w{b (s.cwait c)}|tc={showMsgs (s.toClient c)}|ts={showMsgs (s.toServer c)}")
  let bx := (sortKey s.boxes).map (fun p =>
    s!"{p.1}:{p.2.owner}:{showOpt p.2.result}:{b p.2.waiting}")
  let comp := (s.completed.reverse).map (fun p => s!"{p.1}.{p.2}")
  " ; ".intercalate nodes ++ " ;; " ++ " ; ".intercalate cls ++
  s!" ;; boxes={" ".intercalate bx} ctr={s.counter} ;; clog={" ".intercalate (s.clog.map showCEv)}" ++
  s!" ;; done={" ".intercalate comp}"

structure St where
  t : Topo
  nc : Nat
  s : State
  track : Option Nat

def fresh : St := ⟨Topo.ofList [(0, 0)] false, 0, init, none⟩

def parseTopoEntry (tok : String) : Option (Nat × Nat) :=
  match tok.splitOn ":" with
  | [p, k] => do some (← p.toNat?, ← k.toNat?)
  | _ => none

def stepLine (st : St) (line : String) : St × String :=
  let gs := groups line
  match gs.headD [] with
  | "topo" :: att :: nc :: entries =>
    match parseBool att, nc.toNat?, entries.mapM parseTopoEntry with
    | some a, some k, some l =>
      if Topo.okList l then (⟨Topo.ofList l a, k, init, none⟩, s!"ok n={l.length}")
      else (st, "bad-topo")
    | _, _, _ => (st, "parse-error")
  | ["track", d] =>
    match d.toNat? with
    | some d => ({ st with track := some d },
        s!"pot={potential st.t st.s d} dpot={dpotential st.t st.s} path={showList (path st.t d)}")
    | none => (st, "parse-error")
  | ["show"] => (st, showState st.t st.nc st.s)
  | ["recvall", eof] =>
    -- stateless: `recvall <eof 0|1> | msgs`  ->  what `_recv_handle_log_error` does
    match parseBool eof, ((gs.drop 1).headD []).mapM parseMsg with
    | some e, some ms =>
      (st, match recvAll ms none e with
        | .returned m => s!"returned {showMsg m}" | .raised => "raised" | .blocked => "blocked")
    | _, _ => (st, "parse-error")
  | ["react", site, exc] =>
    -- stateless: which reaction the model prescribes for exception class `exc` at `site`
    match parseSite site, parseExc exc with
    | some st', some x => (st, showReaction (react st' x))
    | _, _ => (st, "parse-error")
  | ["predrain", eof] =>
    match parseBool eof, ((gs.drop 1).headD []).mapM parseMsg with
    | some e, some ms => (st, if preDrain ms e then "raises" else "clean")
    | _, _ => (st, "parse-error")
  | _ =>
    match parseLabel gs with
    | none => (st, "parse-error")
    | some l =>
      match step st.t st.s l with
      | none => (st, "none")
      | some s' =>
        let extra := match st.track with
          | none => ""
          | some d => s!" ;; crit={b (isCrit st.t st.s d l)} growth={growth st.t st.s d l} pot={potential st.t s' d}" ++
              s!" dcrit={b (isDownCrit st.t st.s l)} dgrowth={downGrowth st.t st.s l} dpot={dpotential st.t s'}"
        ({ st with s := s' }, showState st.t st.nc s' ++ extra)

def main : IO Unit := do
  let h ← IO.getStdin
  loopS h stepLine fresh

end BqVerif.Drv.Crash
