import BqVerif.Model.Num
import BqVerif.Model.Gates
import BqVerif.Model.GatesCKM
import BqVerif.Drivers.Util
/-
Driver for the `gates` machine (C18): evaluates the gate model exactly over
`Q8 = ℚ(i)[√2]`.  One self-contained request per line:

    <what> | <gate expression> | <angle> | <angle> | …

`what`  = `u` (unitary), `g` (gradient), `inv` (unitary of `get_inverse()` at
          `get_inverse_params`), `shape` (radixes and number of parameters)
`gate`  = prefix expression
            fam NAME k a1 … ak
            ctrl n  r1 m1 l… r2 m2 l… …  <gate>
            dag <gate> | tag <gate> | pow N <gate>
            frz k  idx1 <8 rationals> … idxk <8 rationals>  <gate>
            emb nq R1 … Rnq  m1 l… m2 l… …  <gate>
`angle` = a point of the unit circle as 8 rationals: `c` then `s`, each a `Q8`
Output: `n n e00 e01 …` (each entry 4 rationals), gradients joined by ` ; `,
`err <reason>` otherwise.  `π` (gradient rate of PhasedXZ only) is evaluated as 1;
the harness rescales.
-/
namespace BqVerif.Drv.Gates
open BqVerif.Num BqVerif.Gates BqVerif.Drv

instance : Conj Q8 := ⟨Q8.conj⟩

def K8 : Consts Q8 := ⟨Q8.I, Q8.half, Q8.invSqrt2, 1⟩

inductive GExp
  | fam (name : String) (args : List Nat)
  | ctrl (controls : List (Nat × List Nat)) (g : GExp)
  | dag (g : GExp)
  | tag (g : GExp)
  | pow (n : Int) (g : GExp)
  | frz (frozen : List (Nat × Ang Q8)) (g : GExp)
  | emb (radixes : List Nat) (maps : List (List Nat)) (g : GExp)

def takeNats (k : Nat) (ts : List String) : Option (List Nat × List String) :=
  if ts.length < k then none else (nats (ts.take k)).map (·, ts.drop k)

def parseAng (ts : List String) : Option (Ang Q8) := do
  let c ← Q8.parse4? (ts.take 4)
  let s ← Q8.parse4? ((ts.drop 4).take 4)
  if ts.length = 8 then some ⟨c, s⟩ else none

/-- `count` groups of the form `[hd…] m l1 … lm` (`withHead` extra leading naturals) -/
def parseGroups (withHead : Nat) : Nat → List String → Option (List (List Nat × List Nat) × List String)
  | 0, ts => some ([], ts)
  | k + 1, ts => do
    let (hd, ts) ← takeNats withHead ts
    let ([m], ts) ← takeNats 1 ts | none
    let (ls, ts) ← takeNats m ts
    let (rest, ts) ← parseGroups withHead k ts
    some ((hd, ls) :: rest, ts)

def parseFrozen : Nat → List String → Option (List (Nat × Ang Q8) × List String)
  | 0, ts => some ([], ts)
  | k + 1, ts => do
    let ([idx], ts) ← takeNats 1 ts | none
    let a ← parseAng (ts.take 8)
    let (rest, ts) ← parseFrozen k (ts.drop 8)
    some ((idx, a) :: rest, ts)

def parseG : Nat → List String → Option (GExp × List String)
  | 0, _ => none
  | fuel + 1, ts =>
    match ts with
    | "fam" :: name :: k :: ts => do
      let k ← k.toNat?
      let (args, ts) ← takeNats k ts
      some (.fam name args, ts)
    | "dag" :: ts => do let (g, ts) ← parseG fuel ts; some (.dag g, ts)
    | "tag" :: ts => do let (g, ts) ← parseG fuel ts; some (.tag g, ts)
    | "pow" :: n :: ts => do
      let n ← n.toInt?
      let (g, ts) ← parseG fuel ts
      some (.pow n g, ts)
    | "ctrl" :: n :: ts => do
      let n ← n.toNat?
      let (gs, ts) ← parseGroups 1 n ts
      let (g, ts) ← parseG fuel ts
      some (.ctrl (gs.map fun x => (x.1.headD 2, x.2)) g, ts)
    | "frz" :: k :: ts => do
      let k ← k.toNat?
      let (fr, ts) ← parseFrozen k ts
      let (g, ts) ← parseG fuel ts
      some (.frz fr g, ts)
    | "emb" :: nq :: ts => do
      let nq ← nq.toNat?
      let (rs, ts) ← takeNats nq ts
      let (gs, ts) ← parseGroups 0 nq ts
      let (g, ts) ← parseG fuel ts
      some (.emb rs (gs.map (·.2)) g, ts)
    | _ => none

def eval : GExp → Option (GVal Q8)
  | .fam name args => familyExt K8 name args
  | .ctrl cs g => (eval g).map (GVal.controlled cs)
  | .dag g => (eval g).map GVal.dagger
  | .tag g => (eval g).map GVal.tagged
  | .pow n g => (eval g).map (GVal.power n)
  | .frz fr g => (eval g).map (GVal.frozen fr)
  | .emb rs maps g => (eval g).map (GVal.embedded rs maps)


/-- model of `Gate.get_inverse` / `get_inverse_params` on expressions:
returns the inverse expression and the parameter transformation -/
def inverse (e : GExp) (v : GVal Q8) : GExp × (List (Ang Q8) → List (Ang Q8)) :=
  match e with
  | .fam "U3Gate" [] => (e, u3InverseParams)
  | .dag g => (g, id)
  | .pow n g => (.pow (-n) g, id)
  | _ =>
    -- `is_constant() and is_self_inverse()` → the gate itself, else `DaggerGate(self)`
    if v.np = 0 && Mat.beq (v.u []) (QMat.dagger (v.u [])) then (e, id)
    else (.dag e, id)

def step (line : String) : String :=
  match groups line with
  | [what] :: gtoks :: angs =>
    match parseG (gtoks.length + 1) gtoks, angs.mapM parseAng with
    | some (e, []), some ps =>
      match eval e with
      | none => "err unmodelled"
      | some v =>
        if ps.length ≠ v.np then s!"err params {v.np}" else
        match what with
        | "u" => QMat.toString (v.u ps)
        | "g" => " ; ".intercalate ((v.g ps).map QMat.toString)
        | "shape" => s!"{v.np} : {showList v.radixes}"
        | "inv" =>
          let (e', f) := inverse e v
          match eval e' with
          | some v' => QMat.toString (v'.u (f ps))
          | none => "err unmodelled-inverse"
        | "unitary?" => toString (QMat.isUnitary (v.u ps))
        | _ => "bad-op"
    | _, _ => "err parse"
  | _ => "bad-op"

def main : IO Unit := do
  let stdin ← IO.getStdin
  loop stdin step

end BqVerif.Drv.Gates
