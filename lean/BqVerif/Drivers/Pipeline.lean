import BqVerif.Model.Pipeline
import BqVerif.Generated.Workflows
import BqVerif.Drivers.Util
/- Driver for the `pipeline` machine (C01, C02, C03).  One self-contained request per line:

  final <workflow name> <input width> <model width> <numOK 0|1> <delOK 0|1>
      abstract result of the regenerated workflow tree of that configuration, with the widths of
      the run substituted (the tree itself does not depend on them)
  compat <model radixes> | <model gate ids> | <model edges u v …> | <circuit radixes> |
         <operations in iteration order: gate-id placeholder(0|1) k q1 … qk, flattened> |
         <placement … or ->
      MachineModel.is_compatible (transcription): true / false / raise
  restore <final mapping> | <q c q c …>          RestoreMeasurements re-keying, or raise
  place <placement> | <mapping>                    ApplyPlacement mapping composition, or raise

(Imports the generated workflow table besides the model: it only depends on the model.) -/
namespace BqVerif.Drv.Pipeline
open BqVerif.Pipeline BqVerif.Drv

def bit (b : Bool) : String := if b then "1" else "0"

def showState (a : AState) : String :=
  s!"f2={bit a.f2} fMany={bit a.fMany} nMany={bit a.nMany} fSQ={bit a.fSQ} blocks={bit a.blocks} " ++
  s!"uncoupled={bit a.uncoupled} narrow={bit a.narrow} noModel={bit a.noModel} " ++
  s!"hidden={bit a.hidden} measPending={bit a.measPending} measHazard={bit a.measHazard} " ++
  s!"circBad={bit a.circBad} mapped={bit a.mapped} numeric={bit a.numeric} crash={bit a.crash} " ++
  s!"executable={bit (executable a)} semOK={bit (semOK a)}"

def showOptB : Option Bool → String
  | some true => "true"
  | some false => "false"
  | none => "raise"

/-- `gate ph k q1 … qk` repeated. -/
def parseOps : Nat → List Nat → Option (List OpView)
  | _, [] => some []
  | 0, _ => none
  | fuel + 1, g :: ph :: k :: rest =>
    if rest.length < k then none
    else (parseOps fuel (rest.drop k)).map (fun t => ⟨g, ph != 0, rest.take k⟩ :: t)
  | _, _ => none

def step (line : String) : String :=
  match groups line with
  | [["final", name, w, mw, numOK, delOK]] =>
    (match BqVerif.Generated.Workflows.workflows.find? (fun x => x.name == name),
           w.toNat?, mw.toNat? with
     | some wf, some w, some mw =>
       let cfg := { wf.cfg with width := w, m := { wf.cfg.m with width := mw } }
       let h : Hyps := { numOK := numOK == "1", delOK := delOK == "1" }
       showState (ainterp cfg h wf.pass (init cfg))
     | none, _, _ => "unknown-workflow"
     | _, _, _ => "bad-op")
  | ["compat" :: mr, mg, me, cr, co, pl] =>
    (match nats mr, nats mg, nats me, nats cr, (nats co).bind (fun l => parseOps (l.length + 1) l) with
     | some mr, some mg, some me, some cr, some ops =>
       let placement : Option (Option (List Nat)) :=
         if pl == ["-"] then some none else (nats pl).map some
       (match placement with
        | some p => showOptB (isCompatible ⟨mr, mg, pairs me⟩ ⟨cr, ops⟩ p)
        | none => "bad-op")
     | _, _, _, _, _ => "bad-op")
  | ["restore" :: fm, ms] =>
    (match nats fm, nats ms with
     | some fm, some ms =>
       (match restoreMeas fm (pairs ms) with
        | some r => showPairs r
        | none => "raise")
     | _, _ => "bad-op")
  | ["place" :: pl, fm] =>
    (match nats pl, nats fm with
     | some pl, some fm =>
       (match applyPlacementMap pl fm with
        | some r => showList r
        | none => "raise")
     | _, _ => "bad-op")
  | _ => "bad-op"

def main : IO Unit := do loop (← IO.getStdin) step

end BqVerif.Drv.Pipeline
