import BqVerif.Model.Circ
import BqVerif.Model.CircBlocks
import BqVerif.Drivers.Util
/-
Driver for the `circ` machine (C04, C05, C16a).  Stateful: one current circuit
and a block table.  One call per line; the reply is
  <ret> # <canonical circuit> # <views>
Text formats
  op      gid;p1,p2;q0,q1;r0,r1          (params / lists may be empty)
  circuit r0,r1,..:op+op/op/...           (cycles separated by '/', ops by '+')
-/
namespace BqVerif.Drv.Circ
open BqVerif.Circ BqVerif.Drv

def splitNats (s : String) : Option (List Nat) :=
  if s == "" then some [] else (s.splitOn ",").mapM (·.toNat?)
def splitInts (s : String) : Option (List Int) :=
  if s == "" then some [] else (s.splitOn ",").mapM (·.toInt?)

def parseOp (s : String) : Option Op :=
  match s.splitOn ";" with
  | [g, p, l, r] => do
    let g ← g.toNat?
    let p ← splitInts p
    let l ← splitNats l
    let r ← splitNats r
    some ⟨g, p, l, r⟩
  | _ => none

def parseCirc (s : String) : Option Circ :=
  match s.splitOn ":" with
  | [r, body] => do
    let r ← splitNats r
    if body == "" then some ⟨r, []⟩ else
    let cycles ← (body.splitOn "/").mapM (fun cy =>
      if cy == "" then some [] else (cy.splitOn "+").mapM parseOp)
    some ⟨r, cycles⟩
  | _ => none

def showNats (l : List Nat) : String := ",".intercalate (l.map toString)
def showInts (l : List Int) : String := ",".intercalate (l.map toString)
def showOp (o : Op) : String :=
  s!"{o.gid};{showInts o.par};{showNats o.loc};{showNats o.rad}"
def showCirc (c : Circ) : String :=
  showNats c.radixes ++ ":" ++ "/".intercalate
    (c.cycles.map (fun cy => "+".intercalate ((sortBy Op.minQ cy).map showOp)))
def showPt (p : Nat × Nat) : String := s!"{p.1}.{p.2}"
def ptLe (a b : Nat × Nat) : Bool := a.1 < b.1 || (a.1 == b.1 && a.2 ≤ b.2)
def sortPts (l : List (Nat × Nat)) : List (Nat × Nat) := l.foldr insertPt []
def showPts (l : List (Nat × Nat)) : String := ",".intercalate ((sortPts l).map showPt)
def showOptPt : Option (Nat × Nat) → String
  | some p => showPt p
  | none => "-"
def showErr : Err → String
  | .index => "err index" | .value => "err value" | .type => "err type" | .runtime => "err runtime"

def views (c : Circ) : String :=
  let n := c.numQudits
  let it := c.iterCyc
  let gids := (dedupNat (c.ops.map (·.gid)) |> sortNat).filter (· < 1000)
  let nblocks := (c.ops.filter (fun o => o.gid ≥ 1000)).length
  " ".intercalate [
    "iter=" ++ "+".intercalate (it.map (fun (k, o) => s!"{k}:{showOp o}")),
    "kahn=" ++ (if c.iterKahn == it then "same" else
        "+".intercalate (c.iterKahn.map (fun (k, o) => s!"{k}:{showOp o}"))),
    "rev=" ++ "+".intercalate (c.iterRev.map showOp),
    "first=" ++ ",".intercalate ((List.range n).map (fun q => showOptPt (c.firstPoint q))),
    "last=" ++ ",".intercalate ((List.range n).map (fun q => showOptPt (c.lastPointOn q))),
    "front=" ++ showPts c.front,
    "rear=" ++ showPts c.rear,
    "next=" ++ "|".intercalate (it.map (fun (k, o) => showPts (c.next k o))),
    "prev=" ++ "|".intercalate (it.map (fun (k, o) => showPts (c.prev k o))),
    s!"nops={c.numOps}", s!"nparams={c.numParams}", s!"ncycles={c.numCycles}",
    "active=" ++ showNats c.activeQudits,
    "coupling=" ++ showPts c.coupling,
    s!"depth={c.depth}",
    "counts=" ++ ",".intercalate (gids.map (fun g => s!"{g}:{c.gateCount g}")),
    s!"blocks={nblocks}",
    "inv=" ++ (if c.invB then "true" else if c.cycles.any (·.isEmpty) then "false:idle-cycle"
      else "false:cells")]

structure St where
  blocks : Blocks := []
  c : Circ := ⟨[2], []⟩
  saved : Circ := ⟨[2], []⟩

def reply (st : St) (ret : String) : St × String :=
  (st, ret ++ " # " ++ showCirc st.c ++ " # " ++ views st.c)

def retU : Except Err Unit → String
  | .ok () => "ok" | .error e => showErr e

def parsePt (a b : String) : Option (Int × Int) := do
  let a ← a.toInt?; let b ← b.toInt?; some (a, b)

def parsePts : List String → Option (List (Int × Int))
  | a :: b :: t => do let p ← parsePt a b; let r ← parsePts t; some (p :: r)
  | [] => some []
  | _ => none

def parseItems : List String → Option (List ((Int × Int) × Op))
  | a :: b :: o :: t => do
    let p ← parsePt a b; let o ← parseOp o; let r ← parseItems t; some ((p, o) :: r)
  | [] => some []
  | _ => none

def parseRegion : List String → Option Region
  | q :: lo :: hi :: t => do
    let q ← q.toNat?; let lo ← lo.toNat?; let hi ← hi.toNat?
    let r ← parseRegion t; some ((q, (lo, hi)) :: r)
  | [] => some []
  | _ => none

/-- as_circuit_gate: the block gid and the flat params -/
def blockOp (gid : Nat) (sub : Circ) (loc : List Nat) : Op :=
  ⟨gid, sub.iter.flatMap (·.par), loc, sub.radixes⟩

def step (st : St) (line : String) : St × String :=
  let bad := (st, "bad-op")
  match groups line with
  | [["new", r]] =>
    (match splitNats r with
     | some r => reply { st with c := Circ.empty r, saved := Circ.empty r } "ok"
     | none => bad)
  | [["defblock", g, ct]] =>
    (match g.toNat?, parseCirc ct with
     | some g, some b => ({ st with blocks := (g, b) :: st.blocks.filter (·.1 != g) }, "ok")
     | _, _ => bad)
  | [["set", ct]] =>
    (match parseCirc ct with
     | some c => reply { st with c := c } "ok"
     | none => bad)
  | [["append", o]] =>
    (match parseOp o with
     | some o =>
       let (c, r) := st.c.append o
       reply { st with c := c } (match r with | .ok k => s!"ok {k}" | .error e => showErr e)
     | none => bad)
  | [["insert", ci, o]] =>
    (match ci.toInt?, parseOp o with
     | some ci, some o => let (c, r) := st.c.insert ci o; reply { st with c := c } (retU r)
     | _, _ => bad)
  | [["pop", "none"]] =>
    let (c, r) := st.c.pop none
    reply { st with c := c } (match r with | .ok o => "ok " ++ showOp o | .error e => showErr e)
  | [["pop", a, b]] =>
    (match parsePt a b with
     | some p =>
       let (c, r) := st.c.pop (some p)
       reply { st with c := c } (match r with | .ok o => "ok " ++ showOp o | .error e => showErr e)
     | none => bad)
  | [["replace", a, b, o]] =>
    (match parsePt a b, parseOp o with
     | some p, some o => let (c, r) := st.c.replace p o; reply { st with c := c } (retU r)
     | _, _ => bad)
  | ["batch_replace" :: items] =>
    (match parseItems items with
     | some items => let (c, r) := st.c.batchReplace items; reply { st with c := c } (retU r)
     | none => bad)
  | ["batch_pop" :: pts] =>
    (match parsePts pts with
     | some pts =>
       let (c, r) := st.c.batchPop pts
       reply { st with c := c } (match r with | .ok s => "ok " ++ showCirc s | .error e => showErr e)
     | none => bad)
  | [["pop_cycle", ci]] =>
    (match ci.toInt? with
     | some ci => let (c, r) := st.c.popCycle ci; reply { st with c := c } (retU r)
     | none => bad)
  | [["append_circuit", ct, loc, asg]] =>
    (match parseCirc ct, splitNats loc, asg.toNat? with
     | some sub, some loc, some g =>
       if g == 0 then
         let (c, r) := st.c.appendCircuit sub loc
         reply { st with c := c } (retU r)
       else if sub.numQudits != loc.length then reply st "err value"
       else
         let (c, r) := st.c.append (blockOp g sub loc)
         reply { st with c := c } (match r with | .ok k => s!"ok {k}" | .error e => showErr e)
     | _, _, _ => bad)
  | [["insert_circuit", ci, ct, loc, asg]] =>
    (match ci.toInt?, parseCirc ct, splitNats loc, asg.toNat? with
     | some ci, some sub, some loc, some g =>
       if g == 0 then
         let (c, r) := st.c.insertCircuit ci sub loc
         reply { st with c := c } (retU r)
       else if sub.numQudits != loc.length then reply st "err value"
       else
         let (c, r) := st.c.insert ci (blockOp g sub loc)
         reply { st with c := c } (retU r)
     | _, _, _, _ => bad)
  | [["replace_with_circuit", a, b, ct, asg]] =>
    (match parsePt a b, parseCirc ct, asg.toNat? with
     | some p, some sub, some g =>
       if g == 0 then
         let (c, r) := st.c.replaceWithCircuit p sub
         reply { st with c := c } (retU r)
       else if !(st.c.cycleInRange p.1 && st.c.qubitInRange p.2) then reply st "err index"
       else
         let p : Int × Int := ((normIdx st.c.numCycles p.1 : Nat), (normIdx st.c.numQudits p.2 : Nat))
         let (c1, r) := st.c.pop (some p)
         (match r with
          | .error e => reply { st with c := c1 } (showErr e)
          | .ok o =>
            if sub.numQudits != o.loc.length then reply { st with c := c1 } "err value"
            else if sub.radixes != o.loc.map (st.c.radixes.getD · 0) then
              reply { st with c := c1 } "err value"
            else
              let (c2, r2) := c1.insert p.1 (blockOp g sub o.loc)
              reply { st with c := c2 } (retU r2))
     | _, _, _ => bad)
  | [["append_qudit", r]] =>
    (match r.toInt? with
     | some r => let (c, x) := st.c.appendQudit r; reply { st with c := c } (retU x)
     | none => bad)
  | [["insert_qudit", q, r]] =>
    (match q.toInt?, r.toInt? with
     | some q, some r => let (c, x) := st.c.insertQudit q r; reply { st with c := c } (retU x)
     | _, _ => bad)
  | [["pop_qudit", q]] =>
    (match q.toInt? with
     | some q => let (c, x) := st.c.popQudit q; reply { st with c := c } (retU x)
     | none => bad)
  | [["renumber", perm]] =>
    (match splitNats perm with
     | some perm => let (c, x) := st.c.renumber perm; reply { st with c := c } (retU x)
     | none => bad)
  | [["renumber"]] => let (c, x) := st.c.renumber []; reply { st with c := c } (retU x)
  | [["compress"]] => reply { st with c := st.c.compress } "ok"
  | [["clear"]] => reply { st with c := ⟨st.c.radixes, []⟩ } "ok"
  | [["save"]] => reply { st with saved := st.c } "ok"          -- x = circuit.copy()
  | [["restore"]] => reply { st with c := st.saved } "ok"       -- circuit.become(x)
  | [["unfold", a, b]] =>
    (match parsePt a b with
     | some p => let (c, r) := st.c.unfold st.blocks p; reply { st with c := c } (retU r)
     | none => bad)
  | ["batch_unfold" :: pts] =>
    (match parsePts pts with
     | some pts => let (c, r) := st.c.batchUnfold st.blocks pts; reply { st with c := c } (retU r)
     | none => bad)
  | [["unfold_all"]] => reply { st with c := st.c.unfoldAll st.blocks 64 } "ok"
  | [["add", ct]] =>
    (match parseCirc ct with
     | some b => let (c, r) := st.c.add b; reply { st with c := c } (retU r)
     | none => bad)
  | [["iadd", ct]] =>
    (match parseCirc ct with
     | some b =>
       let (c, r) := st.c.appendCircuit b (List.range st.c.numQudits)
       reply { st with c := c } (retU r)
     | none => bad)
  | [["mul", k]] =>
    (match k.toNat? with
     | some k => reply { st with c := st.c.mul k } "ok"
     | none => bad)
  | [["imul", k]] =>
    (match k.toNat? with
     | some k => reply { st with c := st.c.imul k } "ok"
     | none => bad)
  | ["inverse" :: pairs] =>
    -- pairs: op=>op list giving the gate-level inverse of every op of the circuit
    (match pairs.mapM (fun s => match s.splitOn "=>" with
        | [a, b] => do let a ← parseOp a; let b ← parseOp b; some (a, b)
        | _ => none) with
     | some tbl =>
       let inv (o : Op) : Op := match tbl.find? (fun (a, _) => a.gid == o.gid && a.par == o.par) with
         | some (_, b) => { b with loc := o.loc }
         | none => o
       reply { st with c := st.c.inverse inv } "ok"
     | none => bad)
  | ["straighten" :: net :: "=>" :: [ct]] =>
    (match net.toInt?, parseCirc ct with
     | some net, some c' =>
       (match validStraighten st.c c' net with
        | none => reply { st with c := c' } "ok-rel"
        | some clause => reply { st with c := c' } ("violated " ++ clause))
     | _, _ => bad)
  | [("fold" :: a :: b :: reg), ["=>", ct]] =>
    (match a.toNat?, b.toNat?, parseRegion reg, parseCirc ct with
     | some a, some b, some reg, some c' =>
       (match validFold st.blocks st.c reg c' (a, b) with
        | none => reply { st with c := c' } "ok-rel"
        | some clause => reply { st with c := c' } ("violated " ++ clause))
     | _, _, _, _ => bad)
  | [["unchanged", ct]] =>
    -- the call raised before touching the circuit: state must be what it was
    (match parseCirc ct with
     | some c' => reply st (if showCirc c' == showCirc st.c then "ok" else "violated state-changed-on-error")
     | none => bad)
  | _ => bad

def main : IO Unit := do loopS (← IO.getStdin) step {}

end BqVerif.Drv.Circ
