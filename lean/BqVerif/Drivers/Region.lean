import BqVerif.Model.Region
import BqVerif.Drivers.Util
/-
Driver for the `region` machine (C08 / C04: `CycleInterval`, `CircuitRegion`).
  iv <alo> <ahi> <blo> <bhi> <c>        every interval method on the pair (a, b) and the cycle c
  one <region> | <k> <c> <q>            every unary region method (shift amount k, point (c, q))
  pair <region> | <region>              every binary region method
  topo <region> <region> …              GreedyPartitioner.topo_sort: indices in output order, or !runtime
Region text: `q:lo:hi,q:lo:hi,…` in dict order, `-` for the empty region.
Output: `name=value` fields separated by spaces; errors are `!value`, `!type`, `!key`.
-/
namespace BqVerif.Drv.Region
open BqVerif.Region BqVerif.Drv

def parseRegion (s : String) : Option Region :=
  if s == "-" then some [] else
  (s.splitOn ",").mapM (fun t => match t.splitOn ":" with
    | [q, a, b] => do
      let q ← q.toNat?; let a ← a.toNat?; let b ← b.toNat?
      some (q, (⟨a, b⟩ : Iv))
    | _ => none)

def showErr : Err → String
  | .value => "!value" | .type => "!type" | .key => "!key"
def showB (b : Bool) : String := if b then "T" else "F"
def showIv (i : Iv) : String := s!"{i.lo}:{i.hi}"
def showEx {α : Type} (f : α → String) : Except Err α → String
  | .ok v => f v
  | .error e => showErr e
def showNats (l : List Nat) : String := if l.isEmpty then "-" else ",".intercalate (l.map toString)
/-- canonical: sorted by qudit -/
def showRegion (r : Region) : String :=
  if r.isEmpty then "-" else
  ",".intercalate ((Region.location r).filterMap (fun q => (Region.get r q).map (fun i => s!"{q}:{showIv i}")))

def ivLine (a b : Iv) (c : Nat) : String :=
  " ".intercalate [
    s!"len={a.len}", s!"idx={showNats a.indices}", s!"mem={showB (a.mem c)}",
    s!"ov={showB (a.overlaps b)}", s!"inter={showEx showIv (a.inter b)}",
    s!"union={showEx showIv (a.union b)}", s!"lt={showB (a.lt b)}"]

def oneLine (r : Region) (k c q : Nat) : String :=
  " ".intercalate [
    s!"min={showEx toString r.minCycle}", s!"max={showEx toString r.maxCycle}",
    s!"maxmin={showEx toString r.maxMinCycle}", s!"minmax={showEx toString r.minMaxCycle}",
    s!"minq={showEx toString r.minQudit}", s!"maxq={showEx toString r.maxQudit}",
    s!"loc={showNats r.location}",
    s!"pts={if r.points.isEmpty then "-" else ",".intercalate (r.points.map (fun p => s!"{p.1}.{p.2}"))}",
    s!"vol={r.volume}", s!"width={r.width}",
    s!"shl={showEx showRegion (r.shiftLeft k)}", s!"shr={showRegion (r.shiftRight k)}",
    s!"tr={if r.transpose.isEmpty then "-" else ";".intercalate (r.transpose.map (fun p => s!"{p.1}>{showNats p.2}"))}",
    s!"ovpt={showB (r.overlapsPt c q)}", s!"haskey={showB (r.hasKey q)}",
    s!"ltpt={showEx (fun o => match o with | some b => showB b | none => "N") (r.ltPoint c q)}",
    s!"strict={if r.isEmpty then "-" else showB r.strictOk}"]

def pairLine (r s : Region) : String :=
  " ".intercalate [
    s!"ov={showB (r.overlaps s)}", s!"in={showB (r.contains s)}",
    s!"inter={showRegion (r.inter s)}", s!"union={showEx showRegion (r.union s)}",
    s!"dep={showB (r.dependsOn s)}", s!"dcy={r.dependency s}",
    s!"eq={showB (r.eqv s)}", s!"lt={showEx showB (r.ltRegion s)}"]

def step (line : String) : String :=
  match groups line with
  | [["iv", a, b, c, d, e]] =>
    match nats [a, b, c, d, e] with
    | some [a, b, c, d, e] => ivLine ⟨a, b⟩ ⟨c, d⟩ e
    | _ => "bad-op"
  | [["one", r], [k, c, q]] =>
    match parseRegion r, nats [k, c, q] with
    | some r, some [k, c, q] => oneLine r k c q
    | _, _ => "bad-op"
  | [["pair", r], [s]] =>
    match parseRegion r, parseRegion s with
    | some r, some s => pairLine r s
    | _, _ => "bad-op"
  | [("topo" :: rs)] =>
    match rs.mapM parseRegion with
    | some rs => match topoSortRegions rs with
      | some out => showNats out
      | none => "!runtime"
    | none => "bad-op"
  | _ => "bad-op"

def main : IO Unit := do loop (← IO.getStdin) step

end BqVerif.Drv.Region
