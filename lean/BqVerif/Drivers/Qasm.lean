import BqVerif.Model.QasmPrint
import BqVerif.Model.QasmSpec
import BqVerif.Drivers.Util
/-! Driver for the `qasm` machine (C17).  Stateful: `def …` lines load the live gate table,
then one request per line.  Text arguments are escaped (`\n`, `\t`, `\\`).  Floats are printed
as the decimal value of their IEEE-754 bit pattern (the harness decodes them); `Float` is
used here for comparison output only. -/
namespace BqVerif.Drv.Qasm
open BqVerif.Qasm BqVerif.Drv

def unescape : List Char → List Char
  | '\\' :: 'n' :: r => '\n' :: unescape r
  | '\\' :: 't' :: r => '\t' :: unescape r
  | '\\' :: '\\' :: r => '\\' :: unescape r
  | c :: r => c :: unescape r
  | [] => []

def escape (s : String) : String :=
  String.join (s.toList.map fun c =>
    if c == '\n' then "\\n" else if c == '\t' then "\\t" else if c == '\\' then "\\\\"
    else String.ofList [c])

def floatArith : Arith Float where
  ofLit m e := if e ≥ 0 then Float.ofScientific m false e.toNat
               else Float.ofScientific m true (-e).toNat
  pi := 3.141592653589793
  zero := 0.0
  add := (· + ·)
  sub := (· - ·)
  mul := (· * ·)
  div := (· / ·)
  pow := Float.pow
  neg := fun x => -x
  fn f x := match f with
    | .sin => Float.sin x | .cos => Float.cos x | .tan => Float.tan x
    | .exp => Float.exp x | .ln => Float.log x | .sqrt => Float.sqrt x
  isNeg v := v < 0.0 || (v == 0.0 && 1.0 / v < 0.0)
  abs := Float.abs

def showF (x : Float) : String := toString x.toBits.toNat

def showNats (l : List Nat) : String := s!"{l.length} {showList l}"

partial def showOp : Op Float → String
  | .prim gid loc ps => s!"G {gid} {showNats loc} {ps.length} {" ".intercalate (ps.map showF)}"
  | .block name nv body loc =>
    s!"B {name} {nv} {showNats loc} {body.length} {" ".intercalate (body.map showOp)}"
  | .barrier loc => s!"R {showNats loc}"
  | .measure loc ms =>
    s!"M {showNats loc} {ms.length} {" ".intercalate (ms.map fun (k, c, i) => s!"{k} {c} {i}")}"
  | .reset q => s!"Z {q}"

def showDecoded (d : Decoded Float) : String :=
  let cr := " ".intercalate (d.cregs.map fun (n, k) => s!"{n} {k}")
  s!"ok {d.numQubits} {d.cregs.length} {cr} {d.ops.length} {" ".intercalate (d.ops.map showOp)}"

def showBOp : BOp → String
  | .add => "+" | .sub => "-" | .mul => "*" | .div => "/"
def showFn : Fn → String
  | .sin => "sin" | .cos => "cos" | .tan => "tan" | .exp => "EXP" | .ln => "ln" | .sqrt => "sqrt"

partial def showQE : QE Float → String
  | .num s => s!"(num {s})"
  | .id s => s!"(id {s})"
  | .pidx i => s!"(pidx {i})"
  | .val v => s!"(val {showF v})"
  | .paren e => s!"(paren {showQE e})"
  | .usub e => s!"(usub {showQE e})"
  | .pow a b => s!"(pow {showQE a} {showQE b})"
  | .call f e => s!"(call {showFn f} {showQE e})"
  | .bin op l r => s!"(bin {showBOp op} {showQE l} {showQE r})"

def showETok : ETok Float → String
  | .lit s => s | .val v => s!"<{showF v}>" | .name s => s | .fn f => showFn f
  | .lp => "(" | .rp => ")" | .plus => "+" | .minus => "-" | .star => "*" | .slash => "/"
  | .pow => "**"

def optF : Option Float → String
  | some v => showF v
  | none => "err"

structure DSt where
  table : List BuiltinDef := []

def parsePOp (g : List String) : Option POp :=
  match g with
  | name :: rest =>
    let (ps, locs) := rest.span (· != ":")
    let params := ps.map fun t =>
      if t.startsWith "-" then (⟨true, (t.drop 1).toString⟩ : PLit) else ⟨false, t⟩
    (nats (locs.drop 1)).map fun l => ⟨name, params, l⟩
  | [] => none

def step (s : DSt) (line : String) : DSt × String :=
  let (cmd, rest) := line.toList.span (· != ' ')
  let arg := String.ofList (unescape (rest.drop 1))
  match String.ofList cmd with
  | "def" =>
    (match (String.ofList (rest.drop 1)).splitOn " " with
     | [key, np, nv, gid, gnp, gnq] =>
       (match np.toNat?, nv.toNat?, gnp.toNat?, gnq.toNat? with
        | some a, some b, some c, some d =>
          ({ s with table := s.table ++ [⟨key, a, b, gid, c, d⟩] }, "ok")
        | _, _, _, _ => (s, "bad-op"))
     | _ => (s, "bad-op"))
  | "decode" =>
    (s, match decode floatArith s.table arg with
        | some d => showDecoded d
        | none => "err")
  | "spec" =>       -- the reference elaboration (what the program means)
    (s, match specDecode floatArith s.table arg with
        | some d => showDecoded d
        | none => "err")
  | "stage" =>      -- which stage rejects (diagnostics only)
    (s, match lex arg with
        | none => "lex"
        | some ts =>
          match (parseProgram ts : Option (List (Stmt Float))) with
          | none => "parse"
          | some ss =>
            match elabStmts floatArith { table := s.table } ss with
            | none => "elab"
            | some st => match finish st with | none => "finish" | some _ => "ok")
  | "lex" =>
    (s, match lex arg with
        | some ts => "ok " ++ " ".intercalate (ts.map Tok.show)
        | none => "err")
  | "exp" =>
    (s, match lex arg with
        | none => "err"
        | some ts =>
          match (pExpSeg ts : Option (QE Float)) with
          | none => "err"
          | some e =>
            s!"ok {showQE e} | {" ".intercalate ((flatten floatArith e).map showETok)} | "
              ++ s!"{optF (evalQ floatArith e)} | {optF (specEvalQ floatArith e)}")
  | "print" =>
    (match groups (String.ofList (rest.drop 1)) with
     | [n] :: ops =>
       (match n.toNat?, ops.mapM parsePOp with
        | some n, some ops =>
          let txt := printProgram n ops
          let okLex := decide (lex txt = some (programToks n ops))
          (s, s!"ok {okLex} {escape txt}")
        | _, _ => (s, "bad-op"))
     | _ => (s, "bad-op"))
  | "printdef" =>
    -- printdef name np nq | spelling np loc… | …
    (match groups (String.ofList (rest.drop 1)) with
     | [name, np, nq] :: body =>
       let b := body.mapM fun g => match g with
         | sp :: k :: loc => (match k.toNat?, nats loc with
            | some k, some l => some (sp, k, l) | _, _ => none)
         | _ => none
       (match np.toNat?, nq.toNat?, b with
        | some np, some nq, some b => (s, "ok " ++ escape (printGateDef name np nq b))
        | _, _, _ => (s, "bad-op"))
     | _ => (s, "bad-op"))
  | _ => (s, "bad-op")

def main : IO Unit := do loopS (← IO.getStdin) step {}

end BqVerif.Drv.Qasm
