import BqVerif.Model.Server
import BqVerif.Drivers.Util
/- Driver for the `server` machine (C13).  Stateful: `reset` starts a new history,
every other line is one event; the answer is the canonical state after one
iteration of the run loop on that event, together with the automaton's replies. -/
namespace BqVerif.Drv.Server
open BqVerif.Server BqVerif.Drv

def insBy {α : Type} (le : α → α → Bool) (x : α) : List α → List α
  | [] => [x]
  | y :: t => if le x y then x :: y :: t else y :: insBy le x t
def sortBy {α : Type} (le : α → α → Bool) (l : List α) : List α := l.foldr (insBy le) []
def sortNat (l : List Nat) : List Nat := sortBy (· ≤ ·) l
def sortKey {α : Type} (l : List (Nat × α)) : List (Nat × α) := sortBy (fun a b => a.1 ≤ b.1) l

def showStat : CStat → String
  | .unknown => "unknown" | .running => "running" | .done => "done"

def showReply : Reply → String
  | .status c s => s!"S.{c}.{showStat s}"
  | .cancelAck c => s!"K.{c}"
  | .errorTo c m => s!"E.{c}.{m}"
  | .resultTo c v => s!"R.{c}.{v}"
  | .logTo c m => s!"L.{c}.{m}"
  | .ready c => s!"Y.{c}"
  | .close c => s!"X.{c}"

def showDown : Out → Option String
  | .downSubmit m => some s!"ds.{m}"
  | .downCancel m => some s!"dc.{m}"
  | .downImportPath => some "di"
  | _ => none

def strLe (a b : String) : Bool := a ≤ b

def showOpt : Option Nat → String
  | none => "-" | some v => toString v

def showTaskSt : TaskSt → String
  | .unknown => "U"
  | .running c w => s!"Run.{c}.{if w then 1 else 0}"
  | .done c v => s!"Done.{c}.{v}"
  | .delivered c => s!"Del.{c}"
  | .cancelled c => s!"Can.{c}"

def showSrv (s : Srv) : String :=
  let cl := (sortKey s.clients).map (fun p => s!"{p.1}:{",".intercalate ((sortNat p.2).map toString)}")
  let tk := (sortKey s.tasks).map (fun p => s!"{p.1}:{p.2.1}:{p.2.2}")
  let mt := (sortKey s.m2t).map (fun p => s!"{p.1}:{p.2}")
  let bx := (sortKey s.boxes).map (fun p => s!"{p.1}:{showOpt p.2.result}:{if p.2.waiting then 1 else 0}")
  s!"clients={" ".intercalate cl} ; tasks={" ".intercalate tk} ; m2t={" ".intercalate mt} ; " ++
  s!"boxes={" ".intercalate bx} ; ctr={s.counter} ; run={if s.running then 1 else 0} ; " ++
  s!"closed={" ".intercalate ((sortNat s.closed.eraseDups).map toString)}"

structure St where
  srv : Srv
  abs : Abs
  maxT : Nat
  stack : List (Srv × Abs × Nat) := []
  saved : Array (Srv × Abs × Nat) := #[]

def parseEv : List String → Option Ev
  | ["connect", c] => c.toNat?.map .connect
  | ["hello", c] => c.toNat?.map .hello
  | ["disconnect", c] => c.toNat?.map .disconnect
  | ["submit", c, t] => do some (.submit (← c.toNat?) (← t.toNat?))
  | ["request", c, t] => do some (.request (← c.toNat?) (← t.toNat?))
  | ["status", c, t] => do some (.status (← c.toNat?) (← t.toNat?))
  | ["cancel", c, t] => do some (.cancel (← c.toNat?) (← t.toNat?))
  | ["result", m, v] => do some (.result (← m.toNat?) (← v.toNat?))
  | ["error", m, v] => do some (.error (← m.toNat?) (← v.toNat?))
  | ["log", m, v] => do some (.log (← m.toNat?) (← v.toNat?))
  | _ => none

def evTid : Ev → Nat
  | .submit _ t | .request _ t | .status _ t | .cancel _ t => t
  | _ => 0

def fresh : St := ⟨init, absInit, 0, [], #[]⟩

def step (st : St) (line : String) : St × String :=
  match (line.splitOn " ").filter (· ≠ "") with
  | ["reset"] => (fresh, "reset")
  | ["push"] => ({ st with stack := (st.srv, st.abs, st.maxT) :: st.stack }, "push")
  | ["pop"] =>
    (match st.stack with
     | (s, a, m) :: r => ({ st with srv := s, abs := a, maxT := m, stack := r }, "pop")
     | [] => (st, "bad-op"))
  | ["save"] => ({ st with saved := st.saved.push (st.srv, st.abs, st.maxT) }, s!"saved {st.saved.size}")
  | ["load", k] =>
    (match k.toNat? with
     | some k =>
       (match st.saved[k]? with
        | some (s, a, m) => ({ st with srv := s, abs := a, maxT := m }, "load")
        | none => (st, "bad-op"))
     | none => (st, "bad-op"))
  | toks =>
    match parseEv toks with
    | none => (st, "bad-op")
    | some e =>
      let w := wf st.srv e
      let req := absEv st.srv e
      let (a', rs) := spec st.abs req
      let outcome := match BqVerif.Server.step st.srv e with | .ok _ => "ok" | .error _ => "keyerror"
      let s' := runLoop st.srv e
      let maxT := max st.maxT (evTid e)
      let cli := (clientReplies s'.out).map showReply
      let down := sortBy strLe (s'.out.filterMap showDown)
      let absS := (List.range (maxT + 1)).map (fun t => s!"{t}:{showTaskSt (a'.task t)}")
      ({ st with srv := s', abs := a', maxT := maxT },
       s!"{outcome} ; wf={if w then 1 else 0} ; out={" ".intercalate cli} ; down={" ".intercalate down} ; " ++
       s!"spec={" ".intercalate (rs.map showReply)} ; {showSrv s'} ; abs={" ".intercalate absS} ; " ++
       s!"written={" ".intercalate ((writtenReplies s'.out).map showReply)}")

/-- second protocol on the same machine: `bubble …` and `recv …` lines are stateless. -/
def parseCMsgs : List String → Option (List CMsg)
  | [] => some []
  | "L" :: x :: r => do some (.log (← x.toNat?) :: (← parseCMsgs r))
  | "E" :: x :: r => do some (.error (← x.toNat?) :: (← parseCMsgs r))
  | "R" :: x :: r => do some (.other (.resultTo 0 (← x.toNat?)) :: (← parseCMsgs r))
  | "K" :: r => do some (.other (.cancelAck 0) :: (← parseCMsgs r))
  | "S" :: x :: r =>
    let st := match x with | "running" => some CStat.running | "done" => some .done
                           | "unknown" => some .unknown | _ => none
    do some (.other (.status 0 (← st)) :: (← parseCMsgs r))
  | _ => none

def showCOut : COut → String
  | .raised m => s!"raised {m}"
  | .returned r => s!"returned {showReply r}"
  | .blocked => "blocked"

def showPreOut : PreOut → String
  | .clean => "clean"
  | .raised m => s!"raised {m}"
  | .unexpected => "unexpected"

def stepAll (st : St) (line : String) : St × String :=
  match (line.splitOn " ").filter (· ≠ "") with
  | "sendrecv" :: ms =>
    -- `sendrecv <pending…> / <arriving…>`
    (st, match ms.splitOn "/" with
      | [p, a] =>
        (match parseCMsgs p, parseCMsgs a with
         | some p, some a =>
           (match sendRecv p a with
            | .returned r => s!"returned {showReply r}"
            | .wrapped (some m) => s!"wrapped {m}"
            | .wrapped none => "wrapped -"
            | .blocked => "blocked")
         | _, _ => "bad-op")
      | _ => "bad-op")
  | ["outgoing", e] =>
    (st, match (match e with
        | "eof" => some SendExc.eof | "reset" => some .connectionReset
        | "brokenpipe" => some .brokenPipe | "oserror" => some .otherOSError
        | "nonoserror" => some .nonOSError | _ => none) with
      | some x =>
        let (alive, s') := outgoingStep st.srv 0 (.failed x)
        s!"{alive} {if showSrv s' == showSrv st.srv then "same" else "changed"}"
      | none => "bad-op")
  | "predrain" :: ms =>
    (st, match parseCMsgs ms with | some l => showPreOut (preDrain l) | none => "bad-op")
  | "recv" :: ms =>
    (st, match parseCMsgs ms with | some l => showCOut (recvHandle l none) | none => "bad-op")
  | ["bubble", m, depth, hops, cancelledAncestor, plainRte, msg] =>
    -- a task `depth` levels below the root task of mailbox `m` raises; `hops` manager levels
    (st, match m.toNat?, depth.toNat?, hops.toNat?, cancelledAncestor.toNat?, plainRte.toNat?, msg.toNat? with
      | some m, some d, some h, some ca, some pr, some msg =>
        let t := (List.range d).foldl (fun p i => spawn p (Int.ofNat i) i 0) (rootTask m)
        let cancelled : List Addr := if ca == 1 then [(rootTask m).addr] else []
        (match workerOnException cancelled t (pr == 1) msg with
         | none => "swallowed"
         | some u => match throughManagers h u with | .error m' msg' => s!"error {m'} {msg'}")
      | _, _, _, _, _, _ => "bad-op")
  | _ => step st line

def main : IO Unit := do loopS (← IO.getStdin) stepAll fresh

end BqVerif.Drv.Server
