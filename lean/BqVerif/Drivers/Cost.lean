import BqVerif.Model.Cost
import BqVerif.Drivers.Util
import BqVerif.Drivers.Circ
/-
Driver for the `cost` machine (C19).  Stateless, one request per line, `|`-separated groups.
Numbers are exact rationals `p/q` (or integers); a complex entry is two consecutive rationals
`re im`; matrices are row-major entry lists.

  ucost n K | T | U | dU_1 | dU_2 | ...      unitary / state-system target (K = N resp. vec_count)
      -> t.re t.im | |t|^2 | 1-|t|^2/K^2 | gradNum_1 gradNum_2 ...
  resid n | T | U | dU_1 | ...               residual vector and Jacobian columns
      -> r_1 r_2 ... | sumsq | J_1 entries | J_2 entries ...
  state n | psi | u0 | du0_1 | ...           state target (vectors of length n)
      -> t.re t.im | cost | grad_1 ... | residuals | sum residuals | Jcol_1 | ...
  argmin c_1 c_2 ...                         sorted(range, key=cost)[0]      -> index | raise
  select vu,lo vu,lo ... | auto / given 0|1 / name <s> / other   -> given | entry i | err value|type
  setparams <circuit> | p_1 p_2 ...          -> <circuit> | err value
  params <circuit>                           -> n | p_1 p_2 ...
-/
namespace BqVerif.Drv.Cost
open BqVerif.NumC19 BqVerif.Cost BqVerif.Drv

def parseRat (s : String) : Option Rat :=
  match s.splitOn "/" with
  | [a] => (fun (x : Int) => (x : Rat)) <$> a.toInt?
  | [a, b] => do
    let x ← a.toInt?
    let y ← b.toNat?
    if y == 0 then none else some (mkRat x y)
  | _ => none

def showRat (r : Rat) : String :=
  if r.den == 1 then toString r.num else s!"{r.num}/{r.den}"

def showRats (l : List Rat) : String := " ".intercalate (l.map showRat)

def toGQs : List Rat → List GQ
  | a :: b :: t => ⟨a, b⟩ :: toGQs t
  | _ => []

def parseMat (n m : Nat) (ts : List String) : Option (Mat n m) := do
  let rs ← ts.mapM parseRat
  if rs.length != 2 * n * m then none else
  some (Mat.ofList n m (toGQs rs))

def showGQ (z : GQ) : String := s!"{showRat z.re} {showRat z.im}"

def bar (l : List String) : String := " | ".intercalate l

def stepU (n : Nat) (K : Rat) (Tt Ut : List String) (dUs : List (List String)) : String :=
  match parseMat n n Tt, parseMat n n Ut, dUs.mapM (parseMat n n) with
  | some T, some U, some dUs =>
    let t := hsInner T U
    let gn := dUs.map (fun dU => gradNum t (hsInner T dU))
    bar [showGQ t, showRat t.absSq, showRat (costGap t K), showRats gn]
  | _, _, _ => "bad-op"

def stepR (n : Nat) (Tt Ut : List String) (dUs : List (List String)) : String :=
  match parseMat n n Tt, parseMat n n Ut, dUs.mapM (parseMat n n) with
  | some T, some U, some dUs =>
    let r := residuals T U
    bar ([showRats r, showRat (sumSq r)] ++ dUs.map (fun dU => showRats (residualsJac T dU)))
  | _, _, _ => "bad-op"

def stepS (n : Nat) (pt ut : List String) (dus : List (List String)) : String :=
  match parseMat n 1 pt, parseMat n 1 ut, dus.mapM (parseMat n 1) with
  | some psi, some u0, some dus =>
    let t := stateInner psi u0
    let gs := dus.map (fun du => stateGrad t (stateInner psi du))
    let r := stateResiduals psi u0
    bar ([showGQ t, showRat (stateCost psi u0), showRats gs, showRats r, showRat (sumL r)]
      ++ dus.map (fun du => showRats (stateResidualsJac psi u0 du)))
  | _, _, _ => "bad-op"

def parseCaps (s : String) : Option GateCaps :=
  match s.splitOn "," with
  | [a, b] => do
    let a ← a.toNat?
    let b ← b.toNat?
    some ⟨a != 0, b != 0⟩
  | _ => none

def showSel : Except BqVerif.Circ.Err Chosen → String
  | .ok .given => "given"
  | .ok (.entry i) => s!"entry {i}"
  | .error e => Circ.showErr e

def step (line : String) : String :=
  match groups line with
  | ("ucost" :: [n, k]) :: Tt :: Ut :: dUs =>
    (match n.toNat?, parseRat k with
     | some n, some K => stepU n K Tt Ut dUs
     | _, _ => "bad-op")
  | ["resid", n] :: Tt :: Ut :: dUs =>
    (match n.toNat? with
     | some n => stepR n Tt Ut dUs
     | _ => "bad-op")
  | ["state", n] :: pt :: ut :: dus =>
    (match n.toNat? with
     | some n => stepS n pt ut dus
     | _ => "bad-op")
  | ["argmin" :: cs] =>
    (match cs.mapM parseRat with
     | some cs => (match multiStartIdx cs with | some i => toString i | none => "raise")
     | none => "bad-op")
  | [ "select" :: gs, m] =>
    (match gs.mapM parseCaps with
     | some gs =>
       let meth : Option Method := match m with
         | ["auto"] => some .auto
         | ["given", b] => some (.given (b != "0"))
         | ["name"] => some (.byName "")
         | ["name", s] => some (.byName s)
         | ["other"] => some .other
         | _ => none
       (match meth with
        | some meth => showSel (selectInst assumedOrder gs meth)
        | none => "bad-op")
     | none => "bad-op")
  | [["setparams", c], ps] =>
    (match Circ.parseCirc c, ints ps with
     | some c, some ps =>
       (match setParams c ps with
        | .ok c' => Circ.showCirc c'
        | .error e => Circ.showErr e)
     | _, _ => "bad-op")
  | [["params", c]] =>
    (match Circ.parseCirc c with
     | some c => s!"{numParams c} | " ++ " ".intercalate ((params c).map toString)
     | none => "bad-op")
  | _ => "bad-op"

def main : IO Unit := do loop (← IO.getStdin) step

end BqVerif.Drv.Cost
