import BqVerif.Model.Cost
import BqVerif.Model.CostCirc
import BqVerif.Drivers.Util
import BqVerif.Drivers.Circ
/-
Driver for the `cost` machine (C19).  Stateless, one request per line, `|`-separated groups.
Numbers are exact rationals `p/q` (or integers); a complex entry is two consecutive rationals
`re im`; matrices are row-major entry lists.

  ucost n K | T | U | dU_1 | dU_2 | ...      unitary / state-system target (K = N resp. vec_count)
      -> t.re t.im | |t|^2 | 1-|t|^2/K^2 | gradNum_1 gradNum_2 ...
  resid n | T | U | dU_1 | ...               residual vector and Jacobian columns
      -> r_1 r_2 ... | sumsq | J_1 entries | J_2 entries ...
  state n | psi | u0 | du0_1 | ...           state target (vectors of length n)
      -> t.re t.im | cost | grad_1 ... | residuals | sum residuals | Jcol_1 | ...
  argmin c_1 c_2 ...                         sorted(range, key=cost)[0]      -> index | raise
  select vu,lo vu,lo ... | auto / given 0|1 / name <s> / other   -> given | entry i | err value|type
  select ... | <method> | tdim cdim          the same followed by the dimension guard of e23425b
  xcirc U|S|Y nd | radixes | lam.re lam.im | - or a b ca cb | - or cols | op | op ...
      op = loc(q,q,..) np  G entries  dG_1 entries ... dG_np entries      (exact gate matrices)
      the circuit unitary, its first nd derivatives and the target are computed by the model:
      U = product of the embedded gate matrices (Model/CostCirc.lean), W = lam*U [Givens-mixed],
      target = W (U), W|0> (S), the listed columns of W (Y)
      -> U entries # W entries # <ucost or state reply> # <resid reply>
  setparams <circuit> | p_1 p_2 ...          -> <circuit> | err value
  params <circuit>                           -> n | p_1 p_2 ...
-/
namespace BqVerif.Drv.Cost
open BqVerif.NumC19 BqVerif.Cost BqVerif.Drv BqVerif.CostCirc

def parseRat (s : String) : Option Rat :=
  match s.splitOn "/" with
  | [a] => (fun (x : Int) => (x : Rat)) <$> a.toInt?
  | [a, b] => do
    let x ← a.toInt?
    let y ← b.toNat?
    if y == 0 then none else some (mkRat x y)
  | _ => none

def showRat (r : Rat) : String :=
  if r.den == 1 then toString r.num else s!"{r.num}/{r.den}"

def showRats (l : List Rat) : String := " ".intercalate (l.map showRat)

def toGQs : List Rat → List GQ
  | a :: b :: t => ⟨a, b⟩ :: toGQs t
  | _ => []

def parseMat (n m : Nat) (ts : List String) : Option (Dense n m) := do
  let rs ← ts.mapM parseRat
  if rs.length != 2 * n * m then none else
  some (Dense.ofList n m (toGQs rs))

def showGQ (z : GQ) : String := s!"{showRat z.re} {showRat z.im}"

def bar (l : List String) : String := " | ".intercalate l

def outU {n : Nat} (K : Rat) (T U : Mat n n) (dUs : List (Mat n n)) : String :=
  let t := hsInner T U
  let gn := dUs.map (fun dU => gradNum t (hsInner T dU))
  bar [showGQ t, showRat t.absSq, showRat (costGap t K), showRats gn]

def outR {n : Nat} (T U : Mat n n) (dUs : List (Mat n n)) : String :=
  let r := residuals T U
  bar ([showRats r, showRat (sumSq r)] ++ dUs.map (fun dU => showRats (residualsJac T dU)))

def outS {n : Nat} (psi u0 : Mat n 1) (dus : List (Mat n 1)) : String :=
  let t := stateInner psi u0
  let gs := dus.map (fun du => stateGrad t (stateInner psi du))
  let r := stateResiduals psi u0
  bar ([showGQ t, showRat (stateCost psi u0), showRats gs, showRats r, showRat (sumL r)]
    ++ dus.map (fun du => showRats (stateResidualsJac psi u0 du)))

def stepU (n : Nat) (K : Rat) (Tt Ut : List String) (dUs : List (List String)) : String :=
  match parseMat n n Tt, parseMat n n Ut, dUs.mapM (parseMat n n) with
  | some T, some U, some dUs => outU K T.get U.get (dUs.map (·.get))
  | _, _, _ => "bad-op"

def stepR (n : Nat) (Tt Ut : List String) (dUs : List (List String)) : String :=
  match parseMat n n Tt, parseMat n n Ut, dUs.mapM (parseMat n n) with
  | some T, some U, some dUs => outR T.get U.get (dUs.map (·.get))
  | _, _, _ => "bad-op"

def stepS (n : Nat) (pt ut : List String) (dus : List (List String)) : String :=
  match parseMat n 1 pt, parseMat n 1 ut, dus.mapM (parseMat n 1) with
  | some psi, some u0, some dus => outS psi.get u0.get (dus.map (·.get))
  | _, _, _ => "bad-op"

/-! ### exact circuits -/

def chunk (k : Nat) : Nat → List GQ → List (List GQ)
  | 0, _ => []
  | m + 1, l => l.take k :: chunk k m (l.drop k)

def parseXOp (radixes : List Nat) (ts : List String) : Option XOp :=
  match ts with
  | locT :: npT :: ents => do
    let loc ← Circ.splitNats locT
    let np ← npT.toNat?
    let rs ← ents.mapM parseRat
    let d := Tensor.prod (loc.map (radixes.getD · 0))
    if rs.length != 2 * d * d * (1 + np) then none else
    let ms := (chunk (d * d) (1 + np) (toGQs rs)).map (fun l => (⟨[d, d], l.toArray⟩ : Tensor.T GQ))
    match ms with
    | g :: gs => some ⟨loc, g, gs⟩
    | [] => none
  | _ => none

def showMat {n m : Nat} (A : Mat n m) : String := " ".intercalate (A.entries.map showGQ)

def stepX (kind : String) (nd : Nat) (radT lamT pertT colsT : List String)
    (opsT : List (List String)) : String :=
  match nats radT, lamT.mapM parseRat, opsT.mapM (parseXOp ((nats radT).getD [])) with
  | some radixes, some [lr, li], some ops =>
    let pert : Option (Option (Rat × Rat × Nat × Nat)) := match pertT with
      | ["-"] => some none
      | [a, b, ca, cb] => (match parseRat a, parseRat b, ca.toNat?, cb.toNat? with
        | some a, some b, some ca, some cb => some (some (a, b, ca, cb))
        | _, _, _, _ => none)
      | _ => none
    let cols : Option (List Nat) := match colsT with
      | ["-"] => some []
      | cs => nats cs
    match pert, cols, unitary radixes ops, grads radixes ops nd with
    | some pert, some cols, .ok Ut, .ok dUt =>
      let n := Tensor.prod radixes
      let Ud : Dense n n := toDense n Ut
      let dUd : List (Dense n n) := dUt.map (toDense n)
      let Wd : Dense n n := Mat.freeze (targetOf ⟨lr, li⟩ Ud.get pert)
      let (r1, r2) : String × String :=
        if kind == "S" then
          let c0 (A : Dense n n) : Dense n 1 := Mat.freeze (col0 A.get)
          let (p, u, ds) := (c0 Wd, c0 Ud, dUd.map c0)
          (outS p.get u.get (ds.map (·.get)), "")
        else
          let Td : Dense n n := if kind == "Y" then Mat.freeze (keepCols Wd.get cols) else Wd
          let K : Rat := if kind == "Y" then (cols.length : Nat) else (n : Nat)
          (outU K Td.get Ud.get (dUd.map (·.get)), outR Td.get Ud.get (dUd.map (·.get)))
      " # ".intercalate [showMat Ud.get, showMat Wd.get, r1, r2]
    | _, _, _, _ => "bad-op"
  | _, _, _ => "bad-op"

def parseCaps (s : String) : Option GateCaps :=
  match s.splitOn "," with
  | [a, b] => do
    let a ← a.toNat?
    let b ← b.toNat?
    some ⟨a != 0, b != 0⟩
  | _ => none

def showSel : Except BqVerif.Circ.Err Chosen → String
  | .ok .given => "given"
  | .ok (.entry i) => s!"entry {i}"
  | .error e => Circ.showErr e

def step (line : String) : String :=
  match groups line with
  | ("ucost" :: [n, k]) :: Tt :: Ut :: dUs =>
    (match n.toNat?, parseRat k with
     | some n, some K => stepU n K Tt Ut dUs
     | _, _ => "bad-op")
  | ["resid", n] :: Tt :: Ut :: dUs =>
    (match n.toNat? with
     | some n => stepR n Tt Ut dUs
     | _ => "bad-op")
  | ["state", n] :: pt :: ut :: dus =>
    (match n.toNat? with
     | some n => stepS n pt ut dus
     | _ => "bad-op")
  | ["xcirc", kind, nd] :: radT :: lamT :: pertT :: colsT :: opsT =>
    (match nd.toNat? with
     | some nd => stepX kind nd radT lamT pertT colsT opsT
     | none => "bad-op")
  | ["argmin" :: cs] =>
    (match cs.mapM parseRat with
     | some cs => (match multiStartIdx cs with | some i => toString i | none => "raise")
     | none => "bad-op")
  | [ "select" :: gs, m] =>
    (match gs.mapM parseCaps with
     | some gs =>
       let meth : Option Method := match m with
         | ["auto"] => some .auto
         | ["given", b] => some (.given (b != "0"))
         | ["name"] => some (.byName "")
         | ["name", s] => some (.byName s)
         | ["other"] => some .other
         | _ => none
       (match meth with
        | some meth => showSel (selectInst assumedOrder gs meth)
        | none => "bad-op")
     | none => "bad-op")
  | [ "select" :: gs, m, [td, cd]] =>
    (match gs.mapM parseCaps, td.toNat?, cd.toNat? with
     | some gs, some td, some cd =>
       let meth : Option Method := match m with
         | ["auto"] => some .auto
         | ["given", b] => some (.given (b != "0"))
         | ["name"] => some (.byName "")
         | ["name", s] => some (.byName s)
         | ["other"] => some .other
         | _ => none
       (match meth with
        | some meth => showSel (selectGuarded assumedOrder gs meth td cd)
        | none => "bad-op")
     | _, _, _ => "bad-op")
  | [["setparams", c], ps] =>
    (match Circ.parseCirc c, ints ps with
     | some c, some ps =>
       (match setParams c ps with
        | .ok c' => Circ.showCirc c'
        | .error e => Circ.showErr e)
     | _, _ => "bad-op")
  | [["params", c]] =>
    (match Circ.parseCirc c with
     | some c => s!"{numParams c} | " ++ " ".intercalate ((params c).map toString)
     | none => "bad-op")
  | _ => "bad-op"

def main : IO Unit := do loop (← IO.getStdin) step

end BqVerif.Drv.Cost
