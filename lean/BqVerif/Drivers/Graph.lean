import BqVerif.Model.Graph
import BqVerif.Model.GraphExt
import BqVerif.Model.GraphRel
import BqVerif.Drivers.Util
/- Driver for the `graph` machine (C20). One self-contained request per line. -/
namespace BqVerif.Drv.Graph
open BqVerif.Graph BqVerif.Drv

def sortNat (l : List Nat) : List Nat := l.foldr insertSorted []
def pairLe (a b : Nat × Nat) : Bool := a.1 < b.1 || (a.1 == b.1 && a.2 ≤ b.2)
def sortPairs (l : List (Nat × Nat)) : List (Nat × Nat) :=
  (l.toArray.qsort (fun a b => pairLe a b && a != b)).toList
def listLe : List Nat → List Nat → Bool
  | [], _ => true
  | _ :: _, [] => false
  | a :: as, b :: bs => a < b || (a == b && listLe as bs)
def sortLists (l : List (List Nat)) : List (List Nat) :=
  (l.toArray.qsort (fun a b => listLe a b && a != b)).toList

def showG (g : G) : String := s!"{g.n} : {showPairs (sortPairs g.edges)}"
def showW : W → String
  | some a => toString a
  | none => "inf"

/-- graph group: `n m u v u v …` (edges given raw; constructed with num_qudits = n) -/
def parseG (ts : List String) : Option G := do
  let xs ← nats ts
  match xs with
  | n :: _m :: rest => mk? (pairs rest) (some n)
  | _ => none

def step (line : String) : String :=
  match groups line with
  | ["mk" :: ts, numG] =>
    (match nats ts, numG with
     | some xs, ["-"] => (match mk? (pairs xs) none with | some g => showG g | none => "err")
     | some xs, [k] => (match k.toNat? with
        | some k => (match mk? (pairs xs) (some k) with | some g => showG g | none => "err")
        | none => "bad-op")
     | _, _ => "bad-op")
  | ["connected" :: ts] =>
    (match parseG ts with | some g => toString g.isFullyConnected | none => "err")
  | ["linear" :: ts] =>
    (match parseG ts with | some g => toString g.isLinear | none => "err")
  | ["degrees" :: ts] =>
    (match parseG ts with | some g => showList g.degrees | none => "err")
  | ["adj" :: ts] =>
    (match parseG ts with
     | some g => " ; ".intercalate ((List.range g.n).map (fun v => showList (g.adj v)))
     | none => "err")
  | ["fw" :: ts, w, rem, ov] =>
    (match parseG ts, nats w, nats rem, nats ov with
     | some g, some [dw, rw], some rem, some ov =>
       let rec triples : List Nat → List ((Nat × Nat) × Nat)
         | a :: b :: c :: t => ((a, b), c) :: triples t
         | _ => []
       let m := floydWarshall g.n (g.weightMat dw rw (pairs rem) (triples ov))
       " ; ".intercalate (m.map (fun row => " ".intercalate (row.map showW)))
     | _, _, _, _ => "err")
  | ["spt" :: ts, [s]] =>
    (match parseG ts, s.toNat? with
     | some g, some s =>
       (match g.shortestPathTree s with
        | some ps => " ; ".intercalate (ps.map showList)
        | none => "raise")
     | _, _ => "err")
  | ["subgraph" :: ts, loc, ren] =>
    (match parseG ts, nats loc, nats ren with
     | some g, some loc, some ren =>
       let r := match ren with
         | 0 :: _ => none
         | _ :: rest => some (pairs rest)
         | [] => none
       (match g.subgraph loc r with | some h => showG h | none => "raise")
     | _, _, _ => "err")
  | ["subsize" :: ts, [k]] =>
    (match parseG ts, k.toNat? with
     | some g, some k =>
       (match g.subgraphsOfSize k with
        | some ls => " ; ".intercalate ((sortLists ls).map showList)
        | none => "raise")
     | _, _ => "err")
  | ["embedded" :: ts, ts2] =>
    (match parseG ts, parseG ts2 with
     | some g, some h => toString (g.isEmbeddedIn h)
     | _, _ => "err")
  | [["topo", kind, a]] =>
    (match a.toNat? with
     | some n =>
       let raw : Option (List (Nat × Nat)) := match kind with
         | "all_to_all" => some (allToAllRaw n)
         | "linear" => some (linearRaw n)
         | "ring" => ringRaw n
         | "star" => some (starRaw n)
         | _ => none
       (match raw.bind (fun r => mk? r none) with | some g => showG g | none => "raise")
     | none => "bad-op")
  | [["topo", "grid", a, b]] =>
    (match a.toNat?, b.toNat? with
     | some r, some c => (match mk? (gridRaw r c) none with | some g => showG g | none => "raise")
     | _, _ => "bad-op")
  | ["perm" :: ts] =>
    (match nats ts with
     | some (n :: r :: loc) =>
       showList ((List.range (r ^ n)).map (permFromLocation n r loc))
     | _ => "bad-op")
  | ["genswap" :: ts] =>
    (match nats ts with
     | some [r] => showList ((List.range (r * r)).map (genSwapRow r))
     | _ => "bad-op")
  | ["permspec" :: ts] =>
    (match nats ts with
     | some (n :: r :: loc) =>
       showList ((List.range (r ^ n)).map (permSpec n r loc))
     | _ => "bad-op")
  | ["fcw" :: ts, [q]] =>
    (match parseG ts, q.toNat? with
     | some g, some q =>
       (match g.isFullyConnectedWithout q with
        | some b => toString b
        | none => "raise")
     | _, _ => "err")
  | ["qpu" :: ts, rem] =>
    (match parseG ts, nats rem with
     | some g, some rem =>
       let remote := ((pairs rem).map norm).eraseDups
       let sets (ls : List (List Nat)) : String :=
         " ; ".intercalate (ls.map (fun l => showList (sortNat l)))
       s!"{sets (g.qpuToQudit remote)} # {showList (g.quditToQpuImpl remote)} # {sets (g.qpuConnImpl remote)}"
     | _, _ => "err")
  | ["matchcheck" :: ts, ign, res] =>
    (match parseG ts, nats ign, nats res with
     | some g, some ign, some res => toString (validMatching g (pairs ign) (pairs res))
     | _, _, _ => "err")
  | ["spancheck" :: ts, [root], res] =>
    (match parseG ts, root.toNat?, nats res with
     | some g, some root, some res => toString (validMinSpan g root (pairs res))
     | _, _, _ => "err")
  | _ => "bad-op"

def main : IO Unit := do loop (← IO.getStdin) step

end BqVerif.Drv.Graph
