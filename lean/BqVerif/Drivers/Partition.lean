import BqVerif.Model.Circ
import BqVerif.Model.CircBlocks
import BqVerif.Model.Partition
import BqVerif.Drivers.Util
import BqVerif.Drivers.Circ
/-
Driver for the `partition` machine (C08).  Stateful: the block table.
  reset                                   forget all block bodies
  defblock <gid> <circuit>                body of block gate <gid> (placeholder params)
  check <k> <strict 0|1> <barrier gids…> | <c> | <p>
        -> "ok"  or  "violated <clause>"
  flat <circuit>                          -> the unfolded op list (diagnostics)
  quick …                                 see `QuickSpec` (trace validation)
Circuit / op text formats are those of Drivers/Circ.lean.
-/
namespace BqVerif.Drv.Partition
open BqVerif.Circ BqVerif.Partition BqVerif.Drv BqVerif.Drv.Circ

def parseMove (t : String) : Option QMove :=
  match t.splitOn ":" with
  | ["e", tags, blk] => do
    let tags ← splitNats tags
    some (.emit tags (blk == "B"))
  | ["l", j, m] => do let j ← j.toNat?; let m ← m.toNat?; some (.lift j m)
  | ["f"] => some .fuse
  | _ => none

structure St where
  blocks : Blocks := []

def step (st : St) (line : String) : St × String :=
  let bad := (st, "bad-op")
  match groups line with
  | [["reset"]] => ({ st with blocks := [] }, "ok")
  | [["defblock", g, ct]] =>
    (match g.toNat?, parseCirc ct with
     | some g, some b => ({ st with blocks := (g, b) :: st.blocks.filter (·.1 != g) }, "ok")
     | _, _ => bad)
  | [("check" :: k :: strict :: gids), [ct], [pt]] =>
    (match k.toNat?, strict.toNat?, nats gids, parseCirc ct, parseCirc pt with
     | some k, some s, some gids, some c, some p =>
       (match validPartition st.blocks gids (s != 0) c p k with
        | none => (st, "ok")
        | some clause => (st, "violated " ++ clause))
     | _, _, _, _, _ => bad)
  | ("quick" :: k :: gids) :: [ct] :: [ops] :: moves :: [] =>
    -- quick <k> <barrier gids…> | <c> | <op+op+…> | <moves…>
    (match k.toNat?, nats gids, parseCirc ct,
        (if ops == "-" then some [] else (ops.splitOn "+").mapM parseOp), moves.mapM parseMove with
     | some k, some gids, some c, some l, some ms =>
       if !sameTimelines c.numQudits l c.ops then (st, "violated op-list-is-not-the-circuit")
       else
       (match qrun gids k (QState.init l) ms 0 with
        | .error i => (st, s!"illegal {i}")
        | .ok s =>
          if !s.rem.isEmpty then (st, s!"stuck {s.rem.length}")
          else (st, "ok " ++ " ".intercalate (s.out.map (fun g =>
            (if g.blk then "B:" else "b:") ++ ",".intercalate (g.ops.map (fun x => toString x.tag))))))
     | _, _, _, _, _ => bad)
  | [["flat", ct]] =>
    (match parseCirc ct with
     | some c => (st, "+".intercalate ((flat st.blocks c.ops).map showOp))
     | none => bad)
  | _ => bad

def main : IO Unit := do loopS (← IO.getStdin) step {}

end BqVerif.Drv.Partition
