import BqVerif.Model.Circ
import BqVerif.Model.CircBlocks
import BqVerif.Model.Partition
import BqVerif.Model.PartitionBins
import BqVerif.Drivers.Util
import BqVerif.Drivers.Circ
/-
Driver for the `partition` machine (C08).  Stateful: the block table.
  reset                                   forget all block bodies
  defblock <gid> <circuit>                body of block gate <gid> (placeholder params)
  check <k> <strict 0|1> <barrier gids…> | <c> | <p>
        -> "ok"  or  "violated <clause>"
  flat <circuit>                          -> the unfolded op list (diagnostics)
  quick …                                 see `QuickSpec` (trace validation)
  bins …                                  see `BinSpec` (Model/PartitionBins.lean)
Circuit / op text formats are those of Drivers/Circ.lean.
-/
namespace BqVerif.Drv.Partition
open BqVerif.Circ BqVerif.Partition BqVerif.Drv BqVerif.Drv.Circ

def parseMove (t : String) : Option QMove :=
  match t.splitOn ":" with
  | ["e", tags, blk] => do
    let tags ← splitNats tags
    some (.emit tags (blk == "B"))
  | ["l", j, m] => do let j ← j.toNat?; let m ← m.toNat?; some (.lift j m)
  | ["f"] => some .fuse
  | _ => none

/-- `cyc@op` -/
def parseCOp (i : Nat) (t : String) : Option COp :=
  match t.splitOn "@" with
  | [c, o] => do let c ← c.toNat?; let o ← parseOp o; some ⟨i, c, o⟩
  | _ => none

def parseCOps (s : String) : Option (List COp) :=
  if s == "-" then some [] else
  ((s.splitOn "+").zipIdx.mapM (fun (t, i) => parseCOp i t))

/-- `q,s,e;q,s,e` with `e = n` for an end still open (the harness sends ends + 1) -/
def parseIvs (s : String) : Option (List (Nat × Nat × Option Nat)) :=
  if s == "" then some [] else
  (s.splitOn ";").mapM (fun t => match t.splitOn "," with
    | [q, a, e] => do
      let q ← q.toNat?; let a ← a.toNat?
      let e ← if e == "n" then some none else (e.toNat?).map some
      some (q, a, e)
    | _ => none)

inductive BTok
  | mv (m : BMove)
  | emit (b : Nat) (ivs : List (Nat × Nat × Option Nat))

def parseBTok (t : String) : Option BTok :=
  match t.splitOn ":" with
  | ["a", b] => do let b ← b.toNat?; some (.mv (.add b))
  | ["r", b] => do let b ← b.toNat?; some (.mv (.bar b))
  | ["fin"] => some (.mv .finish)
  | ["e", b, ivs] => do let b ← b.toNat?; let ivs ← parseIvs ivs; some (.emit b ivs)
  | _ => none

def ivLe (a b : Nat × Nat × Option Nat) : Bool := a.1 ≤ b.1
def sortIvs (l : List (Nat × Nat × Option Nat)) : List (Nat × Nat × Option Nat) :=
  l.foldr (fun x acc =>
    let rec ins : List (Nat × Nat × Option Nat) → List (Nat × Nat × Option Nat)
      | [] => [x]
      | y :: ys => if ivLe x y then x :: y :: ys else y :: ins ys
    ins acc) []

/-- replay of the recorded bin events: every move legal, the real `starts/ends` of a placed
bin equal the model's, the drain succeeds right after the scan, nothing left at the end -/
def binsRun (bg : List Nat) : BState → List BTok → Nat → String
  | s, [], _ =>
    if s.done.isEmpty && s.todo.isEmpty then "ok" else s!"unplaced {s.done.length + s.todo.length}"
  | s, .mv m :: ts, i =>
    match bstep bg s m with
    | none => s!"illegal {i}"
    | some s' =>
      if m == .finish && (bDrain (s'.done.length + 1) s').isNone then s!"drain-stuck {i}"
      else binsRun bg s' ts (i + 1)
  | s, .emit b ivs :: ts, i =>
    if sortIvs (s.binIvs b) != sortIvs ivs then s!"bookkeeping {i}"
    else match bstep bg s (.emit b) with
      | none => s!"illegal {i}"
      | some s' => binsRun bg s' ts (i + 1)

structure St where
  blocks : Blocks := []

def step (st : St) (line : String) : St × String :=
  let bad := (st, "bad-op")
  match groups line with
  | [["reset"]] => ({ st with blocks := [] }, "ok")
  | [["defblock", g, ct]] =>
    (match g.toNat?, parseCirc ct with
     | some g, some b => ({ st with blocks := (g, b) :: st.blocks.filter (·.1 != g) }, "ok")
     | _, _ => bad)
  | [("check" :: k :: strict :: gids), [ct], [pt]] =>
    (match k.toNat?, strict.toNat?, nats gids, parseCirc ct, parseCirc pt with
     | some k, some s, some gids, some c, some p =>
       (match validPartition st.blocks gids (s != 0) c p k with
        | none => (st, "ok")
        | some clause => (st, "violated " ++ clause))
     | _, _, _, _, _ => bad)
  | ("quick" :: k :: gids) :: [ct] :: [ops] :: moves :: [] =>
    -- quick <k> <barrier gids…> | <c> | <op+op+…> | <moves…>
    (match k.toNat?, nats gids, parseCirc ct,
        (if ops == "-" then some [] else (ops.splitOn "+").mapM parseOp), moves.mapM parseMove with
     | some k, some gids, some c, some l, some ms =>
       if !sameTimelines c.numQudits l c.ops then (st, "violated op-list-is-not-the-circuit")
       else
       (match qrun gids k (QState.init l) ms 0 with
        | .error i => (st, s!"illegal {i}")
        | .ok s =>
          if !s.rem.isEmpty then (st, s!"stuck {s.rem.length}")
          else (st, "ok " ++ " ".intercalate (s.out.map (fun g =>
            (if g.blk then "B:" else "b:") ++ ",".intercalate (g.ops.map (fun x => toString x.tag))))))
     | _, _, _, _, _ => bad)
  | ("bins" :: gids) :: [nc] :: [ops] :: toks :: [] =>
    -- bins <barrier gids…> | <num_cycles> | <cyc@op+cyc@op+…> | <moves…>
    (match nats gids, nc.toNat?, parseCOps ops, toks.mapM parseBTok with
     | some gids, some nc, some l, some ts =>
       if !(gridWFb l && l.all (fun x => x.cyc < nc)) then (st, "violated input-not-a-grid")
       else (st, binsRun gids (BState.init l nc) ts 0)
     | _, _, _, _ => bad)
  | [["flat", ct]] =>
    (match parseCirc ct with
     | some c => (st, "+".intercalate ((flat st.blocks c.ops).map showOp))
     | none => bad)
  | _ => bad

def main : IO Unit := do loopS (← IO.getStdin) step {}

end BqVerif.Drv.Partition
