import BqVerif.Model.Rules
import BqVerif.Generated.Rules
import BqVerif.Drivers.Util
/- Driver for the `rules` machine (C10). Numbers are elements of ℚ[ζ]/(ζ⁸+1), ζ = e^{iπ/8}, printed
as 8 comma-separated rationals; matrices as rows separated by `;`, entries by a blank.
Requests:
  gate <name> <k…>                      matrix of a library gate, parameters k·π/4
  ops <n> | <name> <loc…> ; <k…> | …    ordered product of operations on n qubits (k·π/4 parameters)
  rule <name>                           `<n> # <source matrix> # <product of the generated replacement>`
  rulev <name> | c0 s0 | c1 s1 | …      parameterised rule at rational half-angle points (cos, sin)
  names                                 the generated rule names -/
namespace BqVerif.Drv.Rules
open BqVerif.Rules BqVerif.Drv

def showRat (r : Rat) : String := if r.den == 1 then toString r.num else s!"{r.num}/{r.den}"
def showQ (q : Q16) : String := ",".intercalate (q.co.map showRat)
def showMat (m : Mat Q16) : String := ";".intercalate (m.map fun row => " ".intercalate (row.map showQ))

def parseG : String → G
  | "cx" => .cx | "cy" => .cy | "cz" => .cz | "ch" => .ch | "swap" => .swap | "h" => .h
  | "s" => .s | "sdg" => .sdg | "x" => .x | "y" => .y | "z" => .z | "t" => .t | "tdg" => .tdg
  | "sx" => .sx | "rx" => .rx | "ry" => .ry | "rz" => .rz | "u1" => .u1 | "u3" => .u3
  | n => .other n

def parseRat (s : String) : Option Rat :=
  match s.splitOn "/" with
  | [a] => a.toInt?.map fun n => (n : Rat)
  | [a, b] => do
    let n ← a.toInt?
    let d ← b.toNat?
    if d == 0 then none else some ((n : Rat) / (d : Rat))
  | _ => none

def K0 : Consts Q16 := Q16.consts (fun _ => 1) (fun _ => 0)

def parseOp : List String → Option ROp
  | name :: rest =>
    match (" ".intercalate rest).splitOn ";" with
    | [l, p] => do
      let loc ← nats ((l.splitOn " ").filter (· ≠ ""))
      let ks ← ints ((p.splitOn " ").filter (· ≠ ""))
      some ⟨parseG name, loc, ks.map Ang.pi4⟩
    | _ => none
  | _ => none

def findRule (n : String) : Option Rule := Generated.allRules.find? (·.name == n)

def outOpt : Option (Mat Q16) → String
  | some m => showMat m
  | none => "none"

def step (line : String) : String :=
  match groups line with
  | [["names"]] => " ".intercalate (Generated.allRules.map (·.name))
  | [ "gate" :: name :: ks ] =>
    (match ints ks with
     | some ks => outOpt (gateMat K0 (parseG name) (ks.map Ang.pi4))
     | none => "bad-op")
  | ["ops", n] :: ops =>
    (match n.toNat?, ops.mapM parseOp with
     | some n, some ops => if n ≤ 6 then outOpt (evalOps K0 n ops) else "bad-op"
     | _, _ => "bad-op")
  | [["rule", name]] =>
    (match findRule name with
     | some r => s!"{r.n} # {outOpt (srcMat K0 r)} # {outOpt (evalRule K0 r)}"
     | none => "unknown-rule")
  | ["rulev", name] :: pts =>
    (match findRule name, pts.mapM (fun p => p.mapM parseRat) with
     | some r, some pts =>
       let vc := fun k => Q16.ofRat ((pts.getD k []).getD 0 1)
       let vs := fun k => Q16.ofRat ((pts.getD k []).getD 1 0)
       s!"{r.n} # {outOpt (evalRule (Q16.consts vc vs) r)}"
     | _, _ => "bad-op")
  | _ => "bad-op"

def main : IO Unit := do
  let stdin ← IO.getStdin
  loop stdin step

end BqVerif.Drv.Rules
