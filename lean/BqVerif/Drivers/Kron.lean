import BqVerif.Model.Kron
import BqVerif.Drivers.Util
/- Driver for the `kron` machine (C20, Kronecker clause). One request per line.
A monomial matrix is written `row phase row phase …` (one pair per column) and
printed `row:phase row:phase …`. -/
namespace BqVerif.Drv.Kron
open BqVerif.Kron BqVerif.Drv

def showMono (m : Mono) : String :=
  " ".intercalate (m.map (fun e => s!"{e.1}:{e.2}"))

def parseMono (ts : List String) : Option Mono := do
  let xs ← nats ts
  if xs.length % 2 != 0 then none else
  let m : Mono := pairs xs
  if m.wf then some m else none

def parseOps : List (List String) → Option (List Op)
  | [] => some []
  | [side, inv] :: loc :: rad :: m :: rest => do
    let s ← match side with
      | "R" => some Side.right
      | "L" => some Side.left
      | _ => none
    let i ← match inv with
      | "0" => some false
      | "1" => some true
      | _ => none
    let loc ← nats loc
    let rad ← nats rad
    let m ← parseMono m
    let tl ← parseOps rest
    some ({ side := s, inverse := i, loc := loc, radixes := rad, m := m } :: tl)
  | _ => none

def step (line : String) : String :=
  match groups line with
  | ["otimes"] :: a :: rest =>
    (match parseMono a, rest.mapM parseMono with
     | some a, some rest => showMono (otimesAll a rest)
     | _, _ => "bad-op")
  | [["ipower"], a, [k]] =>
    (match parseMono a, k.toInt? with
     | some a, some k => showMono (ipower a k)
     | _, _ => "bad-op")
  | [["dagger"], a] =>
    (match parseMono a with
     | some a => showMono (dagger a)
     | none => "bad-op")
  | [["embed"], rad, loc, a] =>
    (match nats rad, nats loc, parseMono a with
     | some rad, some loc, some a => showMono (embed a loc rad)
     | _, _, _ => "bad-op")
  | ["build"] :: rad :: ops =>
    (match nats rad, parseOps ops with
     | some rad, some ops =>
       (match build rad ops with
        | some u => showMono u
        | none => "raise")
     | _, _ => "bad-op")
  | _ => "bad-op"

def main : IO Unit := do loop (← IO.getStdin) step

end BqVerif.Drv.Kron
