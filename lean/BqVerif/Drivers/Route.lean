import BqVerif.Model.Route
import BqVerif.Drivers.Util
import BqVerif.Drivers.Circ
/-
Driver for the `route` machine (C09).  Stateless: one request per line, groups separated
by `|`, tokens by blanks.

  wf  | N a b a b .. | n | free gids | swapgid radix | ops | im0 | fm0 | P | layout | moves
  wfi | ... same ...                                                        | routed ops
      layout : `-` (no layout pass) or `L` followed by  `s a b`  /  `p k q1..qk`
      moves  : `x i` exec, `s a b` swap, `u a b` unswap (backtrack), `b i` PAM barrier,
               `p i k p1(k) p2(k) m1 s1(2*m1) m2 s2(2*m2)` PAM block
      wfi    : the moves are inferred from the routed circuit (op list in iteration order)
  greedy | N a b .. | growth order (most recent first)

Reply (wf/wfi):  ok | pl=.. | pi=.. | out=.. | fm4=.. | phys=.. | pl5=.. | im5=.. | fm5=.. | L=.. | unpi=.. | chk=..
             or  reject <stage> <detail>
-/
namespace BqVerif.Drv.Route
open BqVerif.Circ BqVerif.Drv BqVerif.Route BqVerif.Graph
open BqVerif.Drv.Circ (parseOp showOp)

def showEm : Em → String
  | .gate o => showOp o
  | .swap a b => s!"S:{a}:{b}"
  | .vswap a b => s!"V:{a}:{b}"

def showEms (l : List Em) : String := " ".intercalate (l.map showEm)
def showOps (l : List Op) : String := " ".intercalate (l.map showOp)

def parsePairs : List Nat → List (Nat × Nat)
  | a :: b :: t => (a, b) :: parsePairs t
  | _ => []

partial def parseLayout : List String → Option (List LMove)
  | [] => some []
  | "s" :: a :: b :: t => do
    let a ← a.toNat?; let b ← b.toNat?; let r ← parseLayout t; some (.swap a b :: r)
  | "p" :: k :: t => do
    let k ← k.toNat?
    let p ← nats (t.take k)
    if p.length != k then none else
    let r ← parseLayout (t.drop k)
    some (.perm p :: r)
  | _ => none

partial def parseMoves : List String → Option (List Move)
  | [] => some []
  | "x" :: i :: t => do let i ← i.toNat?; let r ← parseMoves t; some (.exec i :: r)
  | "b" :: i :: t => do let i ← i.toNat?; let r ← parseMoves t; some (.pamBarrier i :: r)
  | "s" :: a :: b :: t => do
    let a ← a.toNat?; let b ← b.toNat?; let r ← parseMoves t; some (.swap a b :: r)
  | "u" :: a :: b :: t => do
    let a ← a.toNat?; let b ← b.toNat?; let r ← parseMoves t; some (.unswap a b :: r)
  | "p" :: i :: k :: t => do
    let i ← i.toNat?; let k ← k.toNat?
    let p1 ← nats (t.take k)
    let t := t.drop k
    let p2 ← nats (t.take k)
    let t := t.drop k
    match t with
    | m1 :: t =>
      let m1 ← m1.toNat?
      let s1 ← nats (t.take (2 * m1))
      let t := t.drop (2 * m1)
      match t with
      | m2 :: t =>
        let m2 ← m2.toNat?
        let s2 ← nats (t.take (2 * m2))
        let t := t.drop (2 * m2)
        if p1.length != k || p2.length != k || s1.length != 2 * m1 || s2.length != 2 * m2 then none
        else
          let r ← parseMoves t
          some (.perm i p1 p2 (parsePairs s1) (parsePairs s2) :: r)
      | _ => none
    | _ => none
  | _ => none

/-- find a move that emits `o` from state `s` (exec of a matching front operation is
preferred over a routing swap, as the code executes every executable front gate before it
considers a swap) -/
def inferOne (free : Nat → Bool) (g : G) (swapGid : Nat) (s : St) (o : Op) : Option Move :=
  match (List.range s.rem.length).find? (fun i =>
      match s.rem[i]? with
      | some l => relab (piAt s.pi) l == o && inFront s.rem i && canExe free g s.pi l == some true
      | none => false) with
  | some i => some (.exec i)
  | none =>
    match o.loc with
    | [a, b] => if o.gid == swapGid && g.hasEdge a b then some (.swap a b) else none
    | _ => none

def infer (free : Nat → Bool) (g : G) (swapGid : Nat) : St → List Op → Option (List Move)
  | _, [] => some []
  | s, o :: os =>
    match inferOne free g swapGid s o with
    | none => none
    | some m =>
      match step free g s m with
      | none => none
      | some s' => (infer free g swapGid s' os).map (m :: ·)

def projAll (n : Nat) (l : List Op) : List (List Op) := (List.range n).map (fun q => proj q l)

def wf (infer? : Bool) (gs : List (List String)) : String :=
  match gs with
  | [_, gm, gn, gfree, gswap, gops, gim, gfm, gP, glay, gmoves] =>
    match nats gm, nats gn, nats gfree, nats gswap, gops.mapM parseOp, nats gim, nats gfm, nats gP with
    | some (bigN :: es), some [n], some freeL, some [swapGid, radix], some ops, some im0, some fm0,
        some P =>
      match mk? (parsePairs es) (some bigN) with
      | none => "reject model graph"
      | some m =>
        let free := fun gid => freeL.contains gid
        let lay? : Option (Option (List LMove)) := match glay with
          | ["-"] => some none
          | "L" :: t => (parseLayout t).map some
          | _ => none
        match lay? with
        | none => "reject parse layout"
        | some lay =>
          let d0 : PD := ⟨⟨n, []⟩, List.range n, im0, fm0⟩
          -- stage by stage, for diagnostics
          match setModel m n d0 with
          | none => "reject setmodel too-small"
          | some d1 =>
            let d2 := { d1 with placement := P }
            if !placementOK d2 then "reject placement not-connected-or-invalid" else
            let d3? := match lay with
              | none => some d2
              | some l => layoutPass n l d2
            match d3? with
            | none => "reject layout"
            | some d3 =>
              match connectivity d3 with
              | none => "reject route connectivity"
              | some sg =>
                let moves? : Option (List Move) :=
                  if infer? then
                    match gmoves.mapM parseOp with
                    | some routed => infer free sg swapGid (init n ops) routed
                    | none => none
                  else parseMoves gmoves
                match moves? with
                | none => if infer? then "reject infer no-accepted-run-emits-this-circuit"
                          else "reject parse moves"
                | some moves =>
                  match runDiag free sg (init n ops) moves 0 with
                  | .error k => s!"reject move {k}"
                  | .ok _ =>
                    match workflow free m n ops P lay moves d0 with
                    | none => "reject workflow"
                    | some (phys, s, d4, d5) =>
                      let swapOp := fun a b => (⟨swapGid, [], [a, b], [radix, radix]⟩ : Op)
                      -- wire w of the input circuit enters at placement[w] ...
                      let un := unroute d4.placement phys
                      -- ... and leaves at un.2[w]; the mappings compose with that
                      let c1 := d5.fm == fm0.map (piAt un.2) && d5.im == im0.map (piAt d4.placement)
                      let c2 := projAll n un.1 == projAll n ops
                      let c3 := nodupL d5.im && nodupL d5.fm && d5.im.all (· < bigN)
                                  && d5.fm.all (· < bigN)
                      let un0 := unroute (List.range n) s.out
                      let c4 := un0.2 == s.pi && projAll n un0.1 == projAll n ops
                      let chk := (if c1 then "" else "unroute-final-mapping ")
                        ++ (if c2 then "" else "unroute-timelines ")
                        ++ (if c3 then "" else "mappings-injective ")
                        ++ (if c4 then "" else "unroute-subgraph ")
                      " | ".intercalate [
                        "ok", "pl=" ++ showList d4.placement, "pi=" ++ showList s.pi,
                        "out=" ++ showEms s.out, "fm4=" ++ showList d4.fm,
                        "phys=" ++ showOps (physOps swapOp phys),
                        "pl5=" ++ showList d5.placement, "im5=" ++ showList d5.im,
                        "fm5=" ++ showList d5.fm, "L=" ++ showOps un.1, "unpi=" ++ showList un.2,
                        "chk=" ++ (if chk == "" then "ok" else chk),
                        "moves=" ++ toString moves.length]
    | _, _, _, _, _, _, _, _ => "reject parse"
  | _ => "reject parse groups"

def greedy (gs : List (List String)) : String :=
  match gs with
  | [_, gm, grow] =>
    match nats gm, nats grow with
    | some (bigN :: es), some grow =>
      match mk? (parsePairs es) (some bigN) with
      | none => "reject model graph"
      | some m =>
        let d : PD := ⟨m, greedyResult grow, [], []⟩
        s!"grow={validGrow m grow} pl={showList (greedyResult grow)} ok={placementOK d}"
    | _, _ => "reject parse"
  | _ => "reject parse groups"

/-! ## unit-level requests (strengthening round): one model function per request, many
arguments per line (`;`-separated inside the last group) -/

/-- split a token list at the token `;` -/
def splitSemi (ts : List String) : List (List String) :=
  let r := ts.foldl (fun (acc : List (List String) × List String) t =>
    if t == ";" then (acc.1 ++ [acc.2], []) else (acc.1, acc.2 ++ [t])) ([], [])
  r.1 ++ [r.2]

def showOptL : Option (List Nat) → String
  | none => "R"
  | some l => "[" ++ showList l ++ "]"

/-- `canexe | N a b .. | pi | loc ; loc ; ..` : `_can_exe` of a non-free operation at every
listed logical location: `T` / `F` / `R` (get_subgraph raises) -/
def unitCanExe (gs : List (List String)) : String :=
  match gs with
  | [_, gm, gpi, glocs] =>
    match nats gm, nats gpi with
    | some (bigN :: es), some π =>
      match mk? (parsePairs es) (some bigN) with
      | none => "reject graph"
      | some g =>
        " ".intercalate ((splitSemi glocs).map (fun l =>
          match nats l with
          | none => "?"
          | some loc =>
            match canExe (fun _ => false) g π ⟨1, [], loc, loc.map (fun _ => 2)⟩ with
            | none => "R"
            | some true => "T"
            | some false => "F"))
    | _, _ => "reject parse"
  | _ => "reject parse groups"

/-- `aswap | pi | a b ; a b ; ..` : `_apply_swap` on `pi`, each pair independently -/
def unitSwap (gs : List (List String)) : String :=
  match gs with
  | [_, gpi, gsw] =>
    match nats gpi with
    | some π =>
      " ".intercalate ((splitSemi gsw).map (fun l =>
        match nats l with
        | some [a, b] => showOptL (applySwap π a b)
        | _ => "?"))
    | none => "reject parse"
  | _ => "reject parse groups"

/-- `aperm | pi | perm ; perm ; ..` : `_apply_perm(perm, pi)`, each independently -/
def unitPerm (gs : List (List String)) : String :=
  match gs with
  | [_, gpi, gp] =>
    match nats gpi with
    | some π =>
      " ".intercalate ((splitSemi gp).map (fun l =>
        match nats l with
        | some p => showOptL (applyPerm p π)
        | none => "?"))
    | none => "reject parse"
  | _ => "reject parse groups"

/-- `mv | N a b .. | pi | swapgid radix | emitted ops (or -) | s a b / u a b ; ..` : one
machine step (`step`) from the state (no remaining op, `pi`, emitted list), each move
independently: new `pi` and length of the emitted list, or `X` when the move is rejected.
A trailing op text `gid;;a,b;r,r` with `gid = swapgid` is an emitted swap. -/
def unitMove (gs : List (List String)) : String :=
  match gs with
  | [_, gm, gpi, gswap, gout, gmv] =>
    match nats gm, nats gpi, nats gswap with
    | some (bigN :: es), some π, some [swapGid, _] =>
      match mk? (parsePairs es) (some bigN),
            (if gout == ["-"] then some [] else gout.mapM parseOp) with
      | some g, some outOps =>
        let out : List Em := outOps.map (fun o =>
          match o.loc with
          | [a, b] => if o.gid == swapGid then .swap a b else .gate o
          | _ => .gate o)
        " ".intercalate ((splitSemi gmv).map (fun l =>
          match parseMoves l with
          | some [m] =>
            match step (fun _ => false) g ⟨[], π, out⟩ m with
            | none => "X"
            | some s => "[" ++ showList s.pi ++ "]/" ++ toString s.out.length
          | _ => "?"))
      | _, _ => "reject graph"
    | _, _, _ => "reject parse"
  | _ => "reject parse groups"

def handle (line : String) : String :=
  let gs := groups line
  match gs.head? with
  | some ["wf"] => wf false gs
  | some ["wfi"] => wf true gs
  | some ["greedy"] => greedy gs
  | some ["canexe"] => unitCanExe gs
  | some ["aswap"] => unitSwap gs
  | some ["aperm"] => unitPerm gs
  | some ["mv"] => unitMove gs
  | _ => "reject unknown request"

def main : IO Unit := do
  let h ← IO.getStdin
  loop h handle

end BqVerif.Drv.Route
