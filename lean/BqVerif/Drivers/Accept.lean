import BqVerif.Model.Accept
import BqVerif.Model.AcceptGrid
import BqVerif.Model.CircBlocks
import BqVerif.Model.Mux
import BqVerif.Drivers.Util
/- Driver for the `accept` machine (C10): the scanning / tree-scanning / exhaustive removal loops run
with a SCRIPTED threshold oracle, and the timeline comparison used for the structural passes.
An operation is `tag:struct:nq` (tag = index in the input circuit, struct = id of its gate+location,
nq = number of qudits). The scripted oracle accepts a candidate with remaining tags T iff
  (Σ_{t∈T} (t+1)(t+3) + 7·seed + 13·|T|) mod m < k.
Requests:
  scan | ops… | order tags… | kept tags… | seed m k         → surviving tags
  tree depth | ops… | order tags… | seed m k                 → surviving tags
  exh | ops… | seed m k                                      → surviving tags
  sametl n | gid:q,q… … | gid:q,q… …                         → 1 / 0
  gtc left|right orig | cycle / cycle / … (ops tag:q,q) | cyc:q cyc:q …  → get_tree_circs on the grid:
                                                               `raise` or the tag lists `a b c ; …`
  movelast t | q q q …                                       → MGDPass.run's re-ordered location / `raise`
  muxact t | q q q … | b b b … (bits of a basis state, qudit 0 first) → `k tg` (angle index, target qudit) -/
namespace BqVerif.Drv.Accept
open BqVerif.Accept BqVerif.Drv

abbrev A := Nat × Nat

def parseOp (s : String) : Option (Nat × A) :=
  match (s.splitOn ":").mapM (·.toNat?) with
  | some [t, st, nq] => some (t, (st, nq))
  | _ => none

def script (seed m k : Nat) (ops : Ops A) (_ : Unit) : Bool :=
  let sum := ops.foldl (fun a o => a + (o.1 + 1) * (o.1 + 3)) 0
  (sum + 7 * seed + 13 * ops.length) % m < k

def showTags (ops : Ops A) : String := " ".intercalate (ops.map fun o => toString o.1)

/-- default_scoring_fn: −Σ ((num_qudits − 1)·100 + 1). -/
def score (ops : Ops A) : Int := - ((ops.map fun o => ((o.2.2 - 1) * 100 + 1 : Nat)).foldl (· + ·) 0 : Nat)

def parseTlOp (s : String) : Option BqVerif.Circ.Op :=
  match s.splitOn ":" with
  | [g, l] => do
    let gid ← g.toNat?
    let loc ← (l.splitOn ",").mapM (·.toNat?)
    some { gid := gid, par := [], loc := loc, rad := loc.map fun _ => 2 }
  | _ => none

def parseGrid (ts : List String) : Option AcceptGrid.Grid :=
  ((" ".intercalate ts).splitOn "/").mapM fun cy =>
    ((cy.splitOn " ").filter (· ≠ "")).mapM fun o =>
      match o.splitOn ":" with
      | [t, l] => do
        let t ← t.toNat?
        let loc ← (l.splitOn ",").mapM (·.toNat?)
        some ({ tag := t, loc := loc } : AcceptGrid.GOp)
      | _ => none

def parseChunk (ts : List String) : Option (List AcceptGrid.ChunkOp) :=
  ts.mapM fun o =>
    match (o.splitOn ":").mapM (·.toNat?) with
    | some [c, q] => some ⟨c, q⟩
    | _ => none

def step (line : String) : String :=
  match groups line with
  | [["scan"], ops, order, kept, [seed, m, k]] =>
    (match ops.mapM parseOp, nats order, nats kept, nats [seed, m, k] with
     | some ops, some order, some kept, some [seed, m, k] =>
       if m == 0 then "bad-op" else
       showTags (scan (fun _ => ()) (script seed m k) (fun i => kept.contains i) order (ops, ())).1
     | _, _, _, _ => "bad-op")
  | [["tree", depth], ops, order, [seed, m, k]] =>
    (match depth.toNat?, ops.mapM parseOp, nats order, nats [seed, m, k] with
     | some depth, some ops, some order, some [seed, m, k] =>
       if m == 0 || depth == 0 then "bad-op" else
       showTags (treeScan (fun _ => ()) (script seed m k) depth (order.length + 1) order (ops, ())).1
     | _, _, _, _ => "bad-op")
  | [["exh"], ops, [seed, m, k]] =>
    (match ops.mapM parseOp, nats [seed, m, k] with
     | some ops, some [seed, m, k] =>
       if m == 0 then "bad-op" else
       showTags (exhaustiveRun (fun _ => ()) (script seed m k) score (ops, ())).1
     | _, _ => "bad-op")
  | [["gtc", dir, orig], grid, chunk] =>
    (match orig.toNat?, parseGrid grid, parseChunk chunk with
     | some orig, some g, some ch =>
       (match AcceptGrid.getTreeCircs (dir == "left") orig g ch with
        | none => "raise"
        | some l => " ; ".intercalate (l.map fun x =>
            " ".intercalate ((AcceptGrid.tags x).map toString)))
     | _, _, _ => "bad-op")
  | [["sametl", n], l1, l2] =>
    (match n.toNat?, l1.mapM parseTlOp, l2.mapM parseTlOp with
     | some n, some l1, some l2 => if BqVerif.Circ.sameTimelines n l1 l2 then "1" else "0"
     | _, _, _ => "bad-op")
  | [["movelast", t], loc] =>
    (match t.toNat?, nats loc with
     | some t, some loc => (match BqVerif.Mux.moveLast loc t with
        | none => "raise" | some r => showList r)
     | _, _ => "bad-op")
  | [["muxact", t], loc, bits] =>
    (match t.toNat?, nats loc, nats bits with
     | some t, some loc, some bits =>
       (match BqVerif.Mux.act loc t (fun q => bits.getD q 0 == 1) with
        | none => "raise" | some (k, tg) => s!"{k} {tg}")
     | _, _, _ => "bad-op")
  | _ => "bad-op"

def main : IO Unit := do
  let stdin ← IO.getStdin
  loop stdin step

end BqVerif.Drv.Accept
