import BqVerif.Model.RuntimeWitness
import BqVerif.Model.FineWake
import BqVerif.Model.MapArgs
import BqVerif.Drivers.Util
/-!
Driver for the `runtime` machine (C07, C12, C15): replays the transition log of
`harness/runtime_sim.py` on the network model and prints, per transition,

    note # body events # emitted messages # canonical state of the acting node

Header lines: `begin flat <attached> <nw> <nc>` | `begin tree <nc> <sizes…>`, `prog <pid> <tokens…>`, `go`.
Transitions:  `d <src> <dst> | <asg…> | <ord…> | <died>`,  `w <node>`,
              `c <j> <op…> | <dies>`.
-/
namespace BqVerif.Drv.Runtime
open BqVerif.Runtime BqVerif.Drv

def sInt (i : Int) : String := toString i
def sAddr (a : Addr) : String := s!"{a.w}.{a.m}.{a.s}"
def sOAddr : Option Addr → String
  | none => "-"
  | some a => sAddr a
def sVal (v : Val) : String := if v.isEmpty then "e" else ",".intercalate (v.map toString)
def sTag (t : List Nat) : String := ".".intercalate (t.map toString)
def sNats (l : List Nat) : String := ",".intercalate (l.map toString)

def addrLe (a b : Addr) : Bool :=
  a.w < b.w || (a.w == b.w && (a.m < b.m || (a.m == b.m && a.s ≤ b.s)))

def insBy {α} (le : α → α → Bool) (x : α) : List α → List α
  | [] => [x]
  | y :: ys => if le x y then x :: y :: ys else y :: insBy le x ys
def sortBy {α} (le : α → α → Bool) (l : List α) : List α := l.foldr (insBy le) []

def sTask (t : Task) : String :=
  s!"{sAddr t.addr}^{t.comp}^{",".intercalate (t.crumbs.map sAddr)}"

def sNode : NodeId → String
  | .server => "S"
  | .mgr i => s!"M{i}"
  | .wrk id => s!"W{id}"
  | .client j => s!"C{j}"

def sMsg : Msg → String
  | .submit t => s!"SUBMIT {sTask t}"
  | .batch ts => "BATCH " ++ " ".intercalate (ts.map sTask)
  | .result a v b => s!"RESULT {sAddr a} {b} {sVal v}"
  | .error c k => s!"ERROR {c} {k}"
  | .sysError k => s!"SYSERR {k}"
  | .cancel a => s!"CANCEL {sAddr a}"
  | .waiting n r => s!"WAITING {n} {sOAddr r}"
  | .update d => s!"UPDATE {d}"
  | .shutdown => "SHUTDOWN"
  | .eof => "EOF"
  | .cSubmit ci pid => s!"cSUBMIT {ci} {pid}"
  | .cRequest ci => s!"cREQUEST {ci}"
  | .cStatus ci => s!"cSTATUS {ci}"
  | .cCancel ci => s!"cCANCEL {ci}"
  | .cDisconnect => "cDISCONNECT"
  | .sResult v => s!"sRESULT {sVal v}"
  | .sStatus n => s!"sSTATUS {n}"
  | .sCancelAck => "sCANCEL"
  | .sError k => s!"sERROR {k}"

def sEv : Ev → String
  | .start _ t => s!"start {sTag t}"
  | .spawn t k m => s!"spawn {sTag t} {k} {m}"
  | .saw t k v => s!"saw {sTag t} {k} {sVal v}"
  | .cancel t k => s!"cancel {sTag t} {k}"
  | .raise t => s!"raise {sTag t}"
  | .ret _ t v => s!"ret {sTag t} {sVal v}"

def sBool (b : Bool) : String := if b then "1" else "0"

def sBox (p : Nat × Box) : String :=
  let b := p.2
  let fr := match b.fresh with
    | none => "N"
    | some l => "[" ++ sNats (l.map (fun (p : Nat × Val) => p.1)) ++ "]"
  s!"{p.1}:{sBool b.single},{b.expected},{b.num},{sOAddr b.dest},{fr},{sVal b.value}"

def sWTask (t : Task) : String :=
  let d := match t.desired with | none => "-" | some m => toString m
  s!"{sAddr t.addr}({d},{sBool t.wakeNext},[{sNats t.owned}])"

def sWorker (w : Worker) : String :=
  let tasks := sortBy (fun (a b : Task) => addrLe a.addr b.addr) w.tasks
  let boxes := sortBy (fun (a b : Nat × Box) => decide (a.1 ≤ b.1)) w.boxes
  s!"tasks={" ".intercalate (tasks.map sWTask)} delayed={" ".intercalate (w.delayed.map (sAddr ·.addr))} "
  ++ s!"ready={" ".intercalate (w.ready.map sAddr)} cancelled={" ".intercalate ((sortBy addrLe w.cancelled).map sAddr)} "
  ++ s!"boxes={" ".intercalate (boxes.map sBox)} ctr={w.counter} receipt={sOAddr w.receipt} "
  ++ s!"blocked={sBool w.blocked} alive={sBool (w.alive && !w.mainDead)}"

def sEmp (e : Emp) : String :=
  s!"({e.numTasks},{e.idle},[{" ".intercalate (e.cache.map (fun p => s!"{sAddr p.1}:{p.2}"))}])"

def sBoss (b : Boss) : String :=
  s!"emps={" ".intercalate (b.emps.map sEmp)} idle={b.numIdle}"

def sServer (s : Server) : String :=
  let le := fun (a b : Nat × SBox) => decide (a.1 ≤ b.1)
  let boxes := (sortBy le s.boxes).map (fun p => s!"{p.1}:{sBool p.2.result.isSome},{sBool p.2.waiting}")
  let tasks := (sortBy (fun (a b : Nat × Nat × Nat) => decide (a.1 ≤ b.1)) s.tasks).map
    (fun t => s!"{t.1}:{t.2.1}:{t.2.2}")
  let m2t := (sortBy (fun (a b : Nat × Nat) => decide (a.1 ≤ b.1)) s.mbox2task).map
    (fun t => s!"{t.1}:{t.2}")
  let cl := (sortBy (fun (a b : Nat × List Nat) => decide (a.1 ≤ b.1)) s.clients).map
    (fun c => s!"{c.1}:[{sNats (sortBy (fun a b => decide (a ≤ b)) c.2)}]")
  s!"{sBoss s.boss} boxes={" ".intercalate boxes} tasks={" ".intercalate tasks} "
  ++ s!"m2t={" ".intercalate m2t} clients={" ".intercalate cl} ctr={s.counter} run={sBool s.running}"

def sManager (g : Manager) : String :=
  s!"{sBoss g.boss} last={g.lastSent} receipt={sOAddr g.receipt} run={sBool g.running}"

def sState (n : Net) : NodeId → String
  | .server => sServer n.server
  | .mgr i => match n.mgrs[i]? with | some g => sManager g | none => "?"
  | .wrk id => match n.workers.find? (fun w => w.id == id) with | some w => sWorker w | none => "?"
  | .client _ => "-"

def parseNode (s : String) : Option NodeId :=
  if s == "S" then some .server
  else match s.toList with
  | 'M' :: r => (String.ofList r).toNat?.map NodeId.mgr
  | 'W' :: r => (String.ofList r).toInt?.map NodeId.wrk
  | 'C' :: r => (String.ofList r).toNat?.map NodeId.client
  | _ => none

def parseProg : List Nat → Option Prog
  | [] => some []
  | 0 :: p :: t => (parseProg t).map (Instr.sub p :: ·)
  | 1 :: n :: t => (parseProg (t.drop n)).map (Instr.map (t.take n) :: ·)
  | 2 :: k :: t => (parseProg t).map (Instr.await k :: ·)
  | 3 :: k :: t => (parseProg t).map (Instr.next k :: ·)
  | 4 :: k :: t => (parseProg t).map (Instr.cancel k :: ·)
  | 5 :: t => (parseProg t).map (Instr.raise :: ·)
  | 6 :: t => (parseProg t).map (Instr.ret :: ·)
  | 7 :: n :: t =>
    (parseProg (((t.drop n).drop 1).drop ((t.drop n).headD 0))).map
      (Instr.mapArgs (t.take n) (((t.drop n).drop 1).take ((t.drop n).headD 0)) :: ·)
  | _ => none
termination_by l => l.length
decreasing_by all_goals simp_wf <;> omega

def sTrLine : Tr → String
  | .step id => s!"w W{id}"
  | .client j m dies =>
    let op := match m with
      | some (.cSubmit ci pid) => s!"submit {ci} {pid}"
      | some (.cRequest ci) => s!"request {ci}"
      | some (.cStatus ci) => s!"status {ci}"
      | some (.cCancel ci) => s!"cancel {ci}"
      | some .cDisconnect => "disconnect"
      | some .eof => "eof"
      | _ => "none"
    s!"c {j} {op} | {sBool dies}"
  | .deliver s d asg ord died =>
    s!"d {sNode s} {sNode d} | {" ".intercalate (asg.map toString)} | {" ".intercalate (ord.map toString)} | {sBool died}"

def witnessLines (name : String) : String :=
  let r := match name with
    | "leak" => some leakRun
    | "drift" => some driftRun
    | "orphan" => some orphanRun
    | _ => none
  match r with
  | some trs => " ;; ".intercalate (trs.map sTrLine)
  | none => "unknown-witness"


/-! ### source-line model (`Model/FineWake.lean`): `fine <lk> <bits>` prints the state before every
    step and the final state; `fine-paths <lk>` prints one shortest schedule per reachable state -/
namespace Fine
open BqVerif.FineWake

def sBox (b : FBox) : String := s!"{if b.present then 1 else 0}{b.num}{if b.dest then 1 else 0}"
def sMain : MainPc → String
  | .pa l m => s!"pa{l}.{m}"
  | .loop k => s!"loop{k}"
  | .failed => "failed"
  | .finished => "finished"
def sInc : InPc → String
  | .hr l m => s!"hr{l}.{m}"
  | .crashed => "crashed"
  | .done => "done"
def sLock : Holder → String
  | .free => "-"
  | .mainT => "M"
  | .incT => "I"
def sState (s : FState) : String :=
  let d := match s.desired with | none => "-" | some m => toString m
  s!"{sMain s.main} {sInc s.inc} {sLock s.lock} {sBox s.box0} {sBox s.box1} {d} {if s.wakeNext then 1 else 0} {s.ready} {s.maxReady}"

def bitsOf (t : String) : List Bool := t.toList.filterMap (fun c => if c == '1' then some true else if c == '0' then some false else none)
def sBits (l : List Bool) : String := String.ofList (l.map (fun b => if b then '1' else '0'))

def trace (lk : Bool) (s : FState) : List Bool → List String
  | [] => [sState s]
  | b :: t => sState s :: trace lk (step lk s b) t

partial def bfs (lk : Bool) (seen : List (FState × List Bool)) (frontier : List (FState × List Bool)) :
    List (FState × List Bool) :=
  match frontier with
  | [] => seen
  | _ =>
    let (seen', next) := frontier.foldl (fun (acc : List (FState × List Bool) × List (FState × List Bool)) x =>
      [true, false].foldl (fun acc b =>
        let y := step lk x.1 b
        if acc.1.any (fun z => z.1 == y) then acc else (acc.1 ++ [(y, x.2 ++ [b])], acc.2 ++ [(y, x.2 ++ [b])])) acc)
      (seen, [])
    bfs lk seen' next

def paths (lk : Bool) : String :=
  " ".intercalate ((bfs lk [({}, [])] [({}, [])]).map (fun x => "p" ++ sBits x.2))

end Fine

structure St where
  hdr : List String := []
  tbl : Table := []
  net : Option Net := none

def render (n : Net) (acting : NodeId) (r : TrOut) : String :=
  let em := " ; ".intercalate (r.emitted.map (fun e => s!"{sNode e.1}>{sNode e.2.1}:{sMsg e.2.2}"))
  let ev := " ; ".intercalate (r.evs.map sEv)
  let _ := n
  s!"{r.note} # {ev} # {em} # {sState r.net acting}"

def step (st : St) (line : String) : St × String :=
  match groups line with
  | ["witness", name] :: _ => (st, witnessLines name)
  | ["fine", lk, bits] :: _ => (st, " ;; ".intercalate (Fine.trace (lk == "1") {} (Fine.bitsOf bits)))
  | ["fine-paths", lk] :: _ => (st, Fine.paths (lk == "1"))
  | ("begin" :: rest) :: _ => ({ hdr := rest }, "ok")
  | ("prog" :: _pid :: toks) :: _ =>
    match nats toks >>= parseProg with
    | some p => ({ st with tbl := st.tbl ++ [p] }, "ok")
    | none => (st, "bad-prog")
  | ["go"] :: _ =>
    match st.hdr with
    | "flat" :: a :: nw :: nc :: _ =>
      match a.toNat?, nw.toNat?, nc.toNat? with
      | some a, some nw, some nc => ({ st with net := some (Net.initFlat st.tbl (a == 1) nw nc) }, "ok")
      | _, _, _ => (st, "bad-header")
    | "tree" :: nc :: sizes =>
      match nc.toNat?, nats sizes with
      | some nc, some sizes => ({ st with net := some (Net.initTree st.tbl sizes nc) }, "ok")
      | _, _ => (st, "bad-header")
    | _ => (st, "bad-header")
  | ["w", nd] :: _ =>
    match st.net, parseNode nd with
    | some n, some (.wrk id) =>
      let r := n.workerStep id
      ({ st with net := some r.net }, render n (.wrk id) r)
    | _, _ => (st, "bad-op")
  | ("d" :: src :: dst :: _) :: g =>
    match st.net, parseNode src, parseNode dst with
    | some n, some s, some d =>
      let asg := (g.head?.bind nats).getD []
      let ord := ((g.drop 1).head?.bind nats).getD []
      let died := ((g.drop 2).head? == some ["1"])
      let r := n.deliver s d asg ord died
      ({ st with net := some r.net }, render n d r)
    | _, _, _ => (st, "bad-op")
  | ("c" :: j :: op) :: g =>
    match st.net, j.toNat? with
    | some n, some j =>
      let dies := (g.head? == some ["1"])
      let m : Option (Option Msg) := match op with
        | ["submit", ci, pid] => (do let a ← ci.toNat?; let b ← pid.toNat?; pure (some (Msg.cSubmit a b)))
        | ["request", ci] => ci.toNat?.map (fun a => some (Msg.cRequest a))
        | ["status", ci] => ci.toNat?.map (fun a => some (Msg.cStatus a))
        | ["cancel", ci] => ci.toNat?.map (fun a => some (Msg.cCancel a))
        | ["disconnect"] => some (some Msg.cDisconnect)
        | ["eof"] => some (some Msg.eof)
        | ["none"] => some none
        | _ => none
      match m with
      | some m =>
        let r := n.clientSend j m dies
        ({ st with net := some r.net }, render n (.client j) r)
      | none => (st, "bad-op")
    | _, _ => (st, "bad-op")
  | _ => (st, "bad-op")

def main : IO Unit := do
  let stdin ← IO.getStdin
  loopS stdin step ({} : St)

end BqVerif.Drv.Runtime
