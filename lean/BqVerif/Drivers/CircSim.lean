import BqVerif.Model.CircSim
import BqVerif.Model.GateLibC06
import BqVerif.Drivers.Util
/- Driver for the `circsim` machine (C06).  Stateful: gates and circuits are defined by
earlier lines and referred to by number.  Every line prints exactly one line. -/
namespace BqVerif.Drv.CircSim
open BqVerif.Tensor BqVerif.CircSim BqVerif.NumC06 BqVerif.GateLibC06 BqVerif.Drv

abbrev C := Circ Param GQ
abbrev Op := GOp Param GQ

structure St where
  gates : List (Nat × GateSem) := []
  circs : List (Nat × C) := []
  builders : List (Nat × Builder GQ) := []
  fresh : Nat := 1000000
  nextOid : Nat := 0

def St.gate (s : St) (g : Nat) : Option GateSem := (s.gates.find? (·.1 == g)).map (·.2)
def St.circ (s : St) (c : Nat) : Option C := (s.circs.find? (·.1 == c)).map (·.2)
def St.setCirc (s : St) (k : Nat) (c : C) : St :=
  { s with circs := (k, c) :: s.circs.filter (·.1 != k) }

def St.builder (s : St) (b : Nat) : Option (Builder GQ) := (s.builders.find? (·.1 == b)).map (·.2)
def St.setBuilder (s : St) (k : Nat) (b : Builder GQ) : St :=
  { s with builders := (k, b) :: s.builders.filter (·.1 != k) }

def conj : GQ → GQ := GQ.conj

def parseParam (t : String) : Option Param :=
  match t.splitOn ":" with
  | [a, b, c] =>
    match a.toInt?, GQ.parseRat b, GQ.parseRat c with
    | some tag, some x, some y => some ⟨tag, x, y⟩
    | _, _, _ => none
  | _ => none

def parseParams (ts : List String) : Option (List Param) := ts.mapM parseParam
def parseGQs (ts : List String) : Option (List GQ) := ts.mapM GQ.parse

def showT (t : T GQ) : String := " ".intercalate (t.data.toList.map GQ.toStr)
def showErr (e : Err) : String := s!"err {e.toStr}"
def showTags (ps : List Param) : String := " ".intercalate (ps.map (fun p => toString p.tag))

def parseInt2 (a b : String) : Option (Int × Int) :=
  match a.toInt?, b.toInt? with
  | some x, some y => some (x, y)
  | _, _ => none

def triples : List Nat → List (Nat × Nat × Nat)
  | a :: b :: c :: t => (a, b, c) :: triples t
  | _ => []

def showOps (l : List (Nat × Op)) : String :=
  " ".intercalate (l.map (fun e => s!"{e.1}:{e.2.gid}:{e.2.loc.headD 0}"))

/-- product of the embedded operation matrices in iteration order (the *specification*
side of `C06_unitary_is_product`, evaluated directly). -/
def embedProd (c : C) (explicit : Bool) (params : List Param) :
    List (Nat × Op) → Nat → T GQ → Except Err (T GQ)
  | [], _, acc => .ok acc
  | (_, op) :: rest, idx, acc => do
    let gp := if explicit then (params.drop idx).take op.numParams else []
    let u ← op.getUnitary gp
    let e := embedMat c.radixes u.mat op.loc
    let acc ← matmul e acc
    embedProd c explicit params rest (idx + op.numParams) acc

def step (s : St) (line : String) : St × String :=
  match groups line with
  | [["reset"]] => ({}, "ok")
  | [["gconst", g], rad, ents] =>
    (match g.toNat?, nats rad, parseGQs ents with
     | some g, some rad, some es =>
       let d := prod rad
       if es.length ≠ d * d then (s, "bad-op") else
       let m : T GQ := ⟨[d, d], es.toArray⟩
       ({ s with gates := (g, ⟨0, rad, fun _ => m, fun _ => []⟩) :: s.gates }, "ok")
     | _, _, _ => (s, "bad-op"))
  | [("glib" :: g :: kind :: args)] =>
    (match g.toNat?, nats args with
     | some g, some args =>
       (match lib kind args with
        | some sem => ({ s with gates := (g, sem) :: s.gates }, "ok")
        | none => (s, "bad-op"))
     | _, _ => (s, "bad-op"))
  | [["gcirc", g, c]] =>
    (match g.toNat?, c.toNat?.bind s.circ with
     | some g, some c =>
       let op := circuitGate conj c g [] []
       ({ s with gates := (g, ⟨op.numParams, op.radixes, op.unitary, op.grad⟩) :: s.gates }, "ok")
     | _, _ => (s, "bad-op"))
  | [["gfrozen", g, inner, k, p]] =>
    (match g.toNat?, inner.toNat?.bind s.gate, k.toNat?, parseParam p with
     | some g, some sem, some k, some p =>
       let op : Op := ⟨g, g, [], [], sem.numParams, sem.radixes, sem.unitary, sem.grad⟩
       let f := freezeGate op k p g
       ({ s with gates := (g, ⟨f.numParams, f.radixes, f.unitary, f.grad⟩) :: s.gates }, "ok")
     | _, _, _, _ => (s, "bad-op"))
  | [["bnew", b], rad] =>
    (match b.toNat?, nats rad with
     | some b, some rad => (s.setBuilder b (Builder.new rad), "ok")
     | _, _ => (s, "bad-op"))
  | [["bapply", b, side, g, inv, chk], loc] =>
    (match b.toNat?, g.toNat?.bind s.gate, nats loc with
     | some bi, some sem, some loc =>
       (match s.builder bi with
        | some b =>
          let u : UM GQ := ⟨sem.radixes, sem.unitary []⟩
          let r := if side == "right" then b.applyRight conj u loc (inv == "1") (chk == "1")
                   else b.applyLeft conj u loc (inv == "1") (chk == "1")
          (match r with
           | .ok b' => (s.setBuilder bi b', "ok")
           | .error e => (s, showErr e))
        | none => (s, "bad-op"))
     | _, _, _ => (s, "bad-op"))
  | [["beval", b, side, g], loc] =>
    (match b.toNat?.bind s.builder, g.toNat?.bind s.gate, nats loc with
     | some b, some sem, some loc =>
       let r := if side == "right" then b.evalApplyRight (sem.unitary []) loc
                else b.evalApplyLeft (sem.unitary []) loc
       (match r with
        | .ok m => (s, "ok " ++ showT m)
        | .error e => (s, showErr e))
     | _, _, _ => (s, "bad-op"))
  | [["bget", b]] =>
    (match b.toNat?.bind s.builder with
     | some b => (s, "ok " ++ showT b.getUnitary)
     | none => (s, "bad-op"))
  | [["benv", b], loc] =>
    (match b.toNat?.bind s.builder, nats loc with
     | some b, some loc =>
       (match b.calcEnvMatrix loc with
        | .ok m => (s, "ok " ++ showT m)
        | .error e => (s, showErr e))
     | _, _ => (s, "bad-op"))
  | [["circ", c], rad] =>
    (match c.toNat?, nats rad with
     | some c, some rad => (s.setCirc c ⟨rad, 0, []⟩, "ok")
     | _, _ => (s, "bad-op"))
  | [["cycles", c, k]] =>
    (match c.toNat?, k.toNat? with
     | some ci, some k =>
       (match s.circ ci with
        | some c => (s.setCirc ci { c with numCycles := k }, "ok")
        | none => (s, "bad-op"))
     | _, _ => (s, "bad-op"))
  | [("add" :: c :: cycle :: g :: oidTok), loc, ps] =>
    (match c.toNat?, cycle.toNat?, g.toNat?, nats loc, parseParams ps, nats oidTok with
     | some ci, some cycle, some g, some loc, some ps, some oidL =>
       (match s.circ ci, s.gate g with
        | some c, some sem =>
          -- optional 5th token: identity of the Operation object (shared objects alias)
          let oid := match oidL with
            | [o] => o
            | _ => 5000000 + s.nextOid
          let op : Op := ⟨oid, g, loc, ps, sem.numParams, sem.radixes, sem.unitary, sem.grad⟩
          ({ (s.setCirc ci { c with ops := insertOp (cycle, op) c.ops
                                    numCycles := max c.numCycles (cycle + 1) })
             with nextOid := s.nextOid + 1 }, "ok")
        | _, _ => (s, "bad-op"))
     | _, _, _, _, _, _ => (s, "bad-op"))
  | [["order", c]] =>
    (match c.toNat?.bind s.circ with
     | some c => (s, showOps c.ops)
     | none => (s, "bad-op"))
  | [["opmat", c, k]] =>
    (match c.toNat?.bind s.circ, k.toNat? with
     | some c, some k =>
       (match c.ops[k]? with
        | some (_, op) =>
          (match op.getUnitaryAndGrad [] with
           | .ok (u, gs) => (s, "ok " ++ " ; ".intercalate ((u.mat :: gs).map showT))
           | .error e => (s, showErr e))
        | none => (s, "bad-op"))
     | _, _ => (s, "bad-op"))
  | [["unitary", c], ps] =>
    (match c.toNat?.bind s.circ, parseParams ps with
     | some c, some ps =>
       (match c.getUnitary conj ps with
        | .ok u => (s, "ok " ++ showT u)
        | .error e => (s, showErr e))
     | _, _ => (s, "bad-op"))
  | [["embedprod", c], ps] =>
    (match c.toNat?.bind s.circ, parseParams ps with
     | some c, some ps =>
       (match embedProd c (ps.length ≠ 0) ps c.ops 0 (identity (prod c.radixes)) with
        | .ok u => (s, "ok " ++ showT u)
        | .error e => (s, showErr e))
     | _, _ => (s, "bad-op"))
  | [["state", c], vec, ps, sr] =>
    (match c.toNat?.bind s.circ, parseGQs vec, parseParams ps with
     | some c, some vec, some ps =>
       let sr : Option (Option (List Nat)) := match sr with
         | ["-"] => some none
         | rs => (nats rs).map some
       (match sr with
        | some sr =>
          (match c.getStatevector conj ⟨[vec.length], vec.toArray⟩ sr ps with
           | .ok v => (s, "ok " ++ showT v)
           | .error e => (s, showErr e))
        | none => (s, "bad-op"))
     | _, _, _ => (s, "bad-op"))
  | [["grad", c], ps] =>
    (match c.toNat?.bind s.circ, parseParams ps with
     | some c, some ps =>
       (match c.getUnitaryAndGrad conj ps with
        | .ok (u, gs) => (s, "ok " ++ " ; ".intercalate ((u :: gs).map showT))
        | .error e => (s, showErr e))
     | _, _ => (s, "bad-op"))
  | [["env", c], loc] =>
    (match c.toNat?.bind s.circ, nats loc with
     | some c, some loc =>
       (match (do
          let b ← unitaryLoop conj false [] c.ops 0 (Builder.new c.radixes)
          b.calcEnvMatrix loc) with
        | .ok m => (s, "ok " ++ showT m)
        | .error e => (s, showErr e))
     | _, _ => (s, "bad-op"))
  | [["params", c]] =>
    (match c.toNat?.bind s.circ with
     | some c => (s, s!"{c.numParams} | {showTags c.params}")
     | none => (s, "bad-op"))
  | [["paramloc", c, i]] =>
    (match c.toNat?.bind s.circ, i.toInt? with
     | some c, some i =>
       (match c.getParamLocation i with
        | .ok (cy, q, k) => (s, s!"ok {cy} {q} {k}")
        | .error e => (s, showErr e))
     | _, _ => (s, "bad-op"))
  | [["getparam", c, i]] =>
    (match c.toNat?.bind s.circ, i.toInt? with
     | some c, some i =>
       (match c.getParam i with
        | .ok p => (s, s!"ok {p.tag}")
        | .error e => (s, showErr e))
     | _, _ => (s, "bad-op"))
  | [["setparam", c, i, p]] =>
    (match c.toNat?, i.toInt?, parseParam p with
     | some ci, some i, some p =>
       (match s.circ ci with
        | some c =>
          (match c.setParam i p with
           | .ok c' => (s.setCirc ci c', "ok")
           | .error e => (s, showErr e))
        | none => (s, "bad-op"))
     | _, _, _ => (s, "bad-op"))
  | [["setparams", c], ps] =>
    (match c.toNat?, parseParams ps with
     | some ci, some ps =>
       (match s.circ ci with
        | some c =>
          (match c.setParams ps with
           | .ok c' => (s.setCirc ci c', "ok")
           | .error e => (s, showErr e))
        | none => (s, "bad-op"))
     | _, _ => (s, "bad-op"))
  | [["freeze", c, i]] =>
    (match c.toNat?, i.toInt? with
     | some ci, some i =>
       (match s.circ ci with
        | some c =>
          (match c.freezeParam i s.fresh with
           | .ok c' => ({ s.setCirc ci c' with fresh := s.fresh + 1 }, "ok")
           | .error e => (s, showErr e))
        | none => (s, "bad-op"))
     | _, _ => (s, "bad-op"))
  | [["iter", c], st, en, mode, flags] =>
    (match c.toNat?.bind s.circ, ints st, flags with
     | some c, some [sc, sq], [ex, rv] =>
       let stop : Option (Option (Int × Int)) := match en with
         | ["-"] => some none
         | [a, b] => (parseInt2 a b).map some
         | _ => none
       let mode : Option Mode := match mode with
         | ["all"] => some .all
         | "region" :: r => (nats r).map (fun xs => .region (triples xs))
         | "qudits" :: q => (nats q).map .qudits
         | _ => none
       (match stop, mode with
        | some stop, some mode =>
          (match c.iterate ⟨(sc, sq), stop, mode, ex == "1", rv == "1"⟩ with
           | .ok (some l) => (s, "ok " ++ showOps l)
           | .ok none => (s, "fuel")
           | .error e => (s, showErr e))
        | _, _ => (s, "bad-op"))
     | _, _, _ => (s, "bad-op"))
  | _ => (s, "bad-op")

def main : IO Unit := do loopS (← IO.getStdin) step ({} : St)

end BqVerif.Drv.CircSim
