import BqVerif.Proofs.GatesComposed
import Mathlib.LinearAlgebra.Matrix.Trace
/-! General gates: the algebra behind `U3Gate.calc_params` and `GeneralGate.optimize`
(the numerical facts — determinant root, `np.angle`, `np.abs`, the SVD — are hypotheses). -/
namespace BqVerif.Gates
open Matrix
set_option linter.unusedSectionVars false
set_option linter.unusedVariables false

variable {R : Type} [CommRing R] [StarRing R]

/-- the special unitary `mag·utry` of `U3Gate.calc_params` in polar form:
`su[1,1] = e^{iA}·d`, `su[1,0] = e^{iB}·c` (`a = angle(su[1,1])`, `b = angle(su[1,0])`,
`c = |su[1,0]|`, `d = |su[0,0]|`) and the first row forced by special unitarity -/
def suPolar (K : Consts R) (A B : Ang R) (c d : R) : M R
  | 0, 0 => A.en K * d
  | 0, 1 => -(B.en K * c)
  | 1, 0 => B.e K * c
  | 1, 1 => A.e K * d
  | _, _ => 0

/-- `calc_params` returns `θ = 2·atan2(c, d)` (half-angle point `(d, c)`), `φ = a + b`,
`λ = a − b`; the U3 gate at these parameters is `e^{ia}` times the special unitary, i.e. the
argument up to a global phase -/
theorem calc_params_u3 (K : Consts R) (hK : K.Valid) (A B : Ang R) (hA : A.Valid) (hB : B.Valid)
    (c d : R) :
    toM 2 (u3 K ⟨d, c⟩ (A.add B) (A.add B.neg)) = A.e K • toM 2 (suPolar K A B c d) := by
  gate_hyps
  ext i j
  fin_cases i <;> fin_cases j <;>
    simp [toM, u3, suPolar, Ang.e, Ang.en, Ang.add, Ang.neg, Matrix.smul_apply] <;> grind

/-- `GeneralGate.optimize`: with an SVD `env = W·Σ·Vᴴ` (`W`, `V` unitary) the returned unitary
`V·Wᴴ` (`Vh.conj().T @ U.conj().T`) attains `tr(env · V Wᴴ) = tr Σ`, and for every `U` the objective
is `tr(env·U) = tr(Σ·X)` with `X = Vᴴ U W` (unitary when `U` is).  What is NOT formalised is the
final estimate `Re tr(Σ X) ≤ tr Σ` for unitary `X` and `Σ ≥ 0` (it needs `|X_ii| ≤ 1` over `ℂ`). -/
theorem optimize_svd {n : Nat} (E W S V U : Matrix (Fin n) (Fin n) R)
    (hE : E = W * S * Vᴴ) (hW : Wᴴ * W = 1) (hV : Vᴴ * V = 1) :
    trace (E * (V * Wᴴ)) = trace S ∧ trace (E * U) = trace (S * (Vᴴ * U * W)) := by
  subst hE
  constructor
  · calc trace (W * S * Vᴴ * (V * Wᴴ))
        = trace (W * S * (Vᴴ * V) * Wᴴ) := by simp only [Matrix.mul_assoc]
      _ = trace (W * S * Wᴴ) := by rw [hV, Matrix.mul_one]
      _ = trace (Wᴴ * (W * S)) := by rw [Matrix.trace_mul_comm]
      _ = trace S := by rw [← Matrix.mul_assoc, hW, Matrix.one_mul]
  · calc trace (W * S * Vᴴ * U)
        = trace (W * (S * Vᴴ * U)) := by simp only [Matrix.mul_assoc]
      _ = trace (S * Vᴴ * U * W) := by rw [Matrix.trace_mul_comm]
      _ = trace (S * (Vᴴ * U * W)) := by simp only [Matrix.mul_assoc]

end BqVerif.Gates
