import BqVerif.Proofs.CircInv3
import Mathlib.Data.List.Nodup
/-! `Inv` through the qudit-level calls: append_qudit, insert_qudit, pop_qudit (its relabelling
step), renumber_qudits. -/
namespace BqVerif.Circ

/-- relabelling every location by a map that is injective on `[0, n)` into `[0, n')`, with the
radix list following the relabelling, keeps a cycle well-formed -/
theorem cycleOk_relabel (n n' : Nat) (rad rad' : List Nat) (f : Nat → Nat)
    (hinj : ∀ a b, a < n → b < n → f a = f b → a = b)
    (hrange : ∀ a, a < n → f a < n')
    (hrad : ∀ a, a < n → rad'.getD (f a) 0 = rad.getD a 0)
    (cy : Cycle) (hok : CycleOk n rad cy) :
    CycleOk n' rad' (cy.map (fun o => { o with loc := o.loc.map f })) := by
  obtain ⟨h1, h2, h3⟩ := hok
  refine ⟨by simpa using h1, ?_, ?_⟩
  · apply List.Pairwise.map _ _ (List.Pairwise.and_mem.mp h2)
    rintro a b ⟨ha, hb, hab⟩ q hqa hqb
    simp only [List.mem_map] at hqa hqb
    obtain ⟨x, hx, rfl⟩ := hqa
    obtain ⟨y, hy, hxy⟩ := hqb
    have hxn := (h3 a ha).2.2.1 x hx
    have hyn := (h3 b hb).2.2.1 y hy
    have := hinj y x hyn hxn hxy
    subst this
    exact hab y hx hy
  · intro o ho
    rw [List.mem_map] at ho
    obtain ⟨x, hx, rfl⟩ := ho
    obtain ⟨w1, w2, w3, w4⟩ := h3 x hx
    refine ⟨by simpa using w1, ?_, ?_, ?_⟩
    · dsimp only
      exact List.Nodup.map_on (fun a ha b hb hab => hinj a b (w3 a ha) (w3 b hb) hab) w2
    · intro q hq
      simp only [List.mem_map] at hq
      obtain ⟨a, ha, rfl⟩ := hq
      exact hrange a (w3 a ha)
    · dsimp only
      rw [w4, List.map_map]
      apply List.map_congr_left
      intro a ha
      simp only [Function.comp]
      exact (hrad a (w3 a ha)).symm

theorem appendQudit_inv (c : Circ) (r : Int) (hinv : c.Inv) : (c.appendQudit r).1.Inv := by
  unfold Circ.appendQudit
  split
  · exact hinv
  · rw [inv_iff] at *
    intro cy hcy
    have hok := hinv cy hcy
    have := cycleOk_relabel c.numQudits (c.numQudits + 1) c.radixes (c.radixes ++ [r.toNat]) id
      (fun a b _ _ h => h) (fun a ha => by simp only [id]; omega)
      (fun a ha => by
        simp only [id, Circ.numQudits] at ha ⊢
        simp [List.getD_eq_getElem?_getD, List.getElem?_append_left ha]) cy hok
    have e : cy.map (fun o => { o with loc := o.loc.map id }) = cy := by simp
    rw [e] at this
    simpa [Circ.numQudits] using this

theorem getD_insertIdx_shift (l : List Nat) (k x a : Nat) (hk : k ≤ l.length) :
    (l.insertIdx k x).getD (if a < k then a else a + 1) 0 = l.getD a 0 := by
  simp only [List.getD_eq_getElem?_getD]
  split
  · rename_i h
    rw [List.getElem?_insertIdx_of_lt (by omega)]
  · rename_i h
    rw [List.getElem?_insertIdx_of_gt (by omega)]
    simp

theorem insertQudit_inv (c : Circ) (qi r : Int) (hinv : c.Inv) : (c.insertQudit qi r).1.Inv := by
  unfold Circ.insertQudit
  split
  · exact hinv
  · split
    · exact appendQudit_inv c r hinv
    · rename_i hge
      dsimp only
      generalize hk : (if qi ≤ -(c.numQudits : Int) then 0 else normIdx c.numQudits qi) = k
      have hkle : k ≤ c.radixes.length := by
        rw [← hk]
        split
        · omega
        · unfold normIdx; simp only [Circ.numQudits] at *; split <;> omega
      rw [inv_iff] at *
      intro cy hcy
      simp only [Circ.mapLocs, List.mem_map] at hcy
      obtain ⟨cy0, hcy0, rfl⟩ := hcy
      have hok := hinv cy0 hcy0
      have := cycleOk_relabel c.numQudits (c.numQudits + 1) c.radixes
        (c.radixes.insertIdx k r.toNat) (fun q => if q < k then q else q + 1)
        (fun a b _ _ h => by split at h <;> split at h <;> omega)
        (fun a ha => by split <;> omega)
        (fun a _ => getD_insertIdx_shift c.radixes k r.toNat a hkle) cy0 hok
      simp only [Circ.numQudits] at this ⊢
      rw [List.length_insertIdx_of_le_length hkle]
      exact this

theorem getD_nat_of_lt (l : List Nat) (i : Nat) (h : i < l.length) : l.getD i 0 = l[i] := by
  simp [List.getD_eq_getElem?_getD, List.getElem?_eq_getElem h]

theorem idxOf_getD_of_nodup (perm : List Nat) (q : Nat) (hq : q < perm.length) (hn : perm.Nodup) :
    perm.idxOf (perm.getD q 0) = q := by
  rw [getD_nat_of_lt _ _ hq]
  exact List.Nodup.idxOf_getElem hn q hq

theorem renumber_inv (c : Circ) (perm : List Nat) (hinv : c.Inv)
    (hrange : ∀ x ∈ perm, x < c.numQudits) : (c.renumber perm).1.Inv := by
  unfold Circ.renumber
  split
  · exact hinv
  · rename_i hlen
    split
    · exact hinv
    · rename_i hnd
      have hlen' : perm.length = c.numQudits := by simpa using hlen
      have hnd' : perm.Nodup := (nodupL_iff' perm).1 (by simpa using hnd)
      rw [inv_iff] at *
      intro cy hcy
      simp only [Circ.mapLocs, List.mem_map] at hcy
      obtain ⟨cy0, hcy0, rfl⟩ := hcy
      have hok := hinv cy0 hcy0
      have := cycleOk_relabel c.numQudits c.numQudits c.radixes
        ((List.range c.numQudits).map (fun q => c.radixes.getD (perm.idxOf q) 0))
        (fun q => perm.getD q 0)
        (fun a b ha hb h => by
          have h1 := idxOf_getD_of_nodup perm a (by omega) hnd'
          have h2 := idxOf_getD_of_nodup perm b (by omega) hnd'
          rw [h] at h1; omega)
        (fun a ha => by
          apply hrange
          rw [getD_nat_of_lt _ _ (by omega)]
          exact List.getElem_mem _)
        (fun a ha => by
          have hp : perm.getD a 0 < c.numQudits := by
            apply hrange
            rw [getD_nat_of_lt _ _ (by omega)]
            exact List.getElem_mem _
          have hidx := idxOf_getD_of_nodup perm a (by omega) hnd'
          generalize perm.getD a 0 = p at hp hidx
          have hl : p < ((List.range c.numQudits).map
              (fun q => c.radixes.getD (perm.idxOf q) 0)).length := by simpa using hp
          rw [getD_nat_of_lt _ _ hl]
          simp [hidx]) cy0 hok
      simpa [Circ.numQudits] using this
where
  nodupL_iff' (l : List Nat) : nodupL l = true ↔ l.Nodup := by
    induction l with
    | nil => simp [nodupL]
    | cons a t ih => simp [nodupL, ih, List.nodup_cons]

end BqVerif.Circ
