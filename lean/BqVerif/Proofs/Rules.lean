import Mathlib.Tactic.Ring
import Mathlib.Tactic.LinearCombination
import BqVerif.Generated.Rules
/-! C10 — proofs of the rule identities: every rewrite rule extracted from the live pass objects
(`Generated/Rules.lean`) evaluates, in every commutative ring with constants satisfying the
defining equations of i, 1/√2, cos π/8, sin π/8, to the matrix of the gate it replaces. -/
set_option linter.unusedSimpArgs false
namespace BqVerif.Rules
open Generated

/-- The defining equations of the constants (true in ℂ for i, 1/√2, cos π/8, sin π/8). -/
structure Valid {R : Type} [CommRing R] (K : Consts R) : Prop where
  ii : K.i * K.i = -1
  hh : 2 * (K.h * K.h) = 1
  cs1 : K.c8 * K.c8 - K.s8 * K.s8 = K.h
  cs2 : 2 * (K.c8 * K.s8) = K.h
  cs3 : K.c8 * K.c8 + K.s8 * K.s8 = 1

variable {R : Type} [CommRing R] (K : Consts R)

/-! Explicit small cases of `mmul`, `ident`, `embed` (all by unfolding the model definitions). -/
theorem mmul2 (a00 a01 a10 a11 b00 b01 b10 b11 : R) :
    mmul [[a00, a01], [a10, a11]] [[b00, b01], [b10, b11]] =
    [[a00 * b00 + (a01 * b10 + 0), a00 * b01 + (a01 * b11 + 0)],
     [a10 * b00 + (a11 * b10 + 0), a10 * b01 + (a11 * b11 + 0)]] := rfl
theorem ident2 : (ident 2 : Mat R) = [[1, 0], [0, 1]] := rfl
theorem mmul4 (a00 a01 a02 a03 a10 a11 a12 a13 a20 a21 a22 a23 a30 a31 a32 a33 b00 b01 b02 b03 b10 b11 b12 b13 b20 b21 b22 b23 b30 b31 b32 b33 : R) :
    mmul [[a00, a01, a02, a03], [a10, a11, a12, a13], [a20, a21, a22, a23], [a30, a31, a32, a33]] [[b00, b01, b02, b03], [b10, b11, b12, b13], [b20, b21, b22, b23], [b30, b31, b32, b33]] =
    [[a00 * b00 + (a01 * b10 + (a02 * b20 + (a03 * b30 + 0))), a00 * b01 + (a01 * b11 + (a02 * b21 + (a03 * b31 + 0))), a00 * b02 + (a01 * b12 + (a02 * b22 + (a03 * b32 + 0))), a00 * b03 + (a01 * b13 + (a02 * b23 + (a03 * b33 + 0)))],
     [a10 * b00 + (a11 * b10 + (a12 * b20 + (a13 * b30 + 0))), a10 * b01 + (a11 * b11 + (a12 * b21 + (a13 * b31 + 0))), a10 * b02 + (a11 * b12 + (a12 * b22 + (a13 * b32 + 0))), a10 * b03 + (a11 * b13 + (a12 * b23 + (a13 * b33 + 0)))],
     [a20 * b00 + (a21 * b10 + (a22 * b20 + (a23 * b30 + 0))), a20 * b01 + (a21 * b11 + (a22 * b21 + (a23 * b31 + 0))), a20 * b02 + (a21 * b12 + (a22 * b22 + (a23 * b32 + 0))), a20 * b03 + (a21 * b13 + (a22 * b23 + (a23 * b33 + 0)))],
     [a30 * b00 + (a31 * b10 + (a32 * b20 + (a33 * b30 + 0))), a30 * b01 + (a31 * b11 + (a32 * b21 + (a33 * b31 + 0))), a30 * b02 + (a31 * b12 + (a32 * b22 + (a33 * b32 + 0))), a30 * b03 + (a31 * b13 + (a32 * b23 + (a33 * b33 + 0)))]] := rfl
theorem ident4 : (ident 4 : Mat R) = [[1, 0, 0, 0], [0, 1, 0, 0], [0, 0, 1, 0], [0, 0, 0, 1]] := rfl
theorem embed1_0 (m00 m01 m10 m11 : R) :
    embed 1 [0] [[m00, m01], [m10, m11]] =
    [[m00, m01], [m10, m11]] := rfl
theorem embed2_0 (m00 m01 m10 m11 : R) :
    embed 2 [0] [[m00, m01], [m10, m11]] =
    [[m00, 0, m01, 0], [0, m00, 0, m01], [m10, 0, m11, 0], [0, m10, 0, m11]] := rfl
theorem embed2_1 (m00 m01 m10 m11 : R) :
    embed 2 [1] [[m00, m01], [m10, m11]] =
    [[m00, m01, 0, 0], [m10, m11, 0, 0], [0, 0, m00, m01], [0, 0, m10, m11]] := rfl
theorem embed2_01 (m00 m01 m02 m03 m10 m11 m12 m13 m20 m21 m22 m23 m30 m31 m32 m33 : R) :
    embed 2 [0, 1] [[m00, m01, m02, m03], [m10, m11, m12, m13], [m20, m21, m22, m23], [m30, m31, m32, m33]] =
    [[m00, m01, m02, m03], [m10, m11, m12, m13], [m20, m21, m22, m23], [m30, m31, m32, m33]] := rfl
theorem embed2_10 (m00 m01 m02 m03 m10 m11 m12 m13 m20 m21 m22 m23 m30 m31 m32 m33 : R) :
    embed 2 [1, 0] [[m00, m01, m02, m03], [m10, m11, m12, m13], [m20, m21, m22, m23], [m30, m31, m32, m33]] =
    [[m00, m02, m01, m03], [m20, m22, m21, m23], [m10, m12, m11, m13], [m30, m32, m31, m33]] := rfl

/-- Closes one entry equation of a fixed rule: a ring identity, ± one defining equation, or the
π/8 combination `h·(c8² − s8²) ± h·2c8s8 (± 2h² = 1)`. -/
macro "rule_entry" K:ident hK:ident : tactic => `(tactic| first
  | ring1
  | linear_combination ($hK).hh | linear_combination -($hK).hh
  | linear_combination ($hK).cs1 | linear_combination -($hK).cs1
  | linear_combination ($hK).cs2 | linear_combination -($hK).cs2
  | linear_combination ($hK).cs3 | linear_combination -($hK).cs3
  | linear_combination ($hK).ii | linear_combination -($hK).ii
  | linear_combination ($K).h * ($hK).cs1 + ($K).h * ($hK).cs2
  | linear_combination ($K).h * ($hK).cs1 + ($K).h * ($hK).cs2 + ($hK).hh
  | linear_combination ($K).h * ($hK).cs1 + ($K).h * ($hK).cs2 - ($hK).hh
  | linear_combination ($K).h * ($hK).cs1 - ($K).h * ($hK).cs2
  | linear_combination ($K).h * ($hK).cs1 - ($K).h * ($hK).cs2 + ($hK).hh
  | linear_combination ($K).h * ($hK).cs1 - ($K).h * ($hK).cs2 - ($hK).hh
  | linear_combination -($K).h * ($hK).cs1 + ($K).h * ($hK).cs2
  | linear_combination -($K).h * ($hK).cs1 + ($K).h * ($hK).cs2 + ($hK).hh
  | linear_combination -($K).h * ($hK).cs1 + ($K).h * ($hK).cs2 - ($hK).hh
  | linear_combination -($K).h * ($hK).cs1 - ($K).h * ($hK).cs2
  | linear_combination -($K).h * ($hK).cs1 - ($K).h * ($hK).cs2 + ($hK).hh
  | linear_combination -($K).h * ($hK).cs1 - ($K).h * ($hK).cs2 - ($hK).hh)

/-- Evaluates both sides of a fixed width-2 rule to explicit 4×4 matrices and closes the entries. -/
macro "rule_fixed" r:ident K:ident hK:ident : tactic => `(tactic| (
  simp (config := {decide := true}) [evalRule, srcMat, $r:ident, evalOps, opMat, gateMat,
    gateMatCS, angCS, halfCS, locOk, embed2_0, embed2_1, embed2_01, embed2_10, mmul4, ident4]
  <;> (try (repeat' constructor)) <;> rule_entry $K $hK))

theorem rule_CHToCNOT (hK : Valid K) :
    evalRule K rule_CHToCNOTPass = srcMat K rule_CHToCNOTPass := by rule_fixed rule_CHToCNOTPass K hK
theorem rule_CNOTToCH (hK : Valid K) :
    evalRule K rule_CNOTToCHPass = srcMat K rule_CNOTToCHPass := by rule_fixed rule_CNOTToCHPass K hK
theorem rule_CNOTToCY (hK : Valid K) :
    evalRule K rule_CNOTToCYPass = srcMat K rule_CNOTToCYPass := by rule_fixed rule_CNOTToCYPass K hK
theorem rule_CYToCNOT (hK : Valid K) :
    evalRule K rule_CYToCNOTPass = srcMat K rule_CYToCNOTPass := by rule_fixed rule_CYToCNOTPass K hK
theorem rule_CNOTToCZ (hK : Valid K) :
    evalRule K rule_CNOTToCZPass = srcMat K rule_CNOTToCZPass := by rule_fixed rule_CNOTToCZPass K hK
theorem rule_CZToCNOT (hK : Valid K) :
    evalRule K rule_CZToCNOTPass = srcMat K rule_CZToCNOTPass := by rule_fixed rule_CZToCNOTPass K hK
set_option linter.unusedVariables false in
theorem rule_SwapToCNOT (hK : Valid K) :
    evalRule K rule_SwapToCNOTPass = srcMat K rule_SwapToCNOTPass := by rule_fixed rule_SwapToCNOTPass K hK

/-- The source matrices are what they should be (so the identities above are not `none = none`). -/
theorem srcMat_CHToCNOT : srcMat K rule_CHToCNOTPass =
    some [[1, 0, 0, 0], [0, 1, 0, 0], [0, 0, K.h, K.h], [0, 0, K.h, -K.h]] := rfl
end BqVerif.Rules
