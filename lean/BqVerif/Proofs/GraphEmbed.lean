import BqVerif.Proofs.GraphBasic
/-!
`CouplingGraph.is_embedded_in` (graph.py 797-850): the model `G.isEmbeddedIn` is true iff an
injective edge-preserving vertex map exists; in particular the degree pre-check
(`candidate_labels`) never rejects an embeddable graph, i.e. it is redundant.
-/
namespace BqVerif.Graph

/-! ### `injections` = `itertools.permutations(range(m), k)` (started from `acc`) -/

/-- `injections k m acc` enumerates exactly the extensions of `acc` by k further distinct values < m -/
theorem mem_injections (k m : Nat) (acc f : List Nat) :
    f ∈ injections k m acc ↔ ∃ ext, f = acc ++ ext ∧ ext.length = k ∧ (∀ v ∈ ext, v < m ∧ v ∉ acc) ∧ ext.Nodup := by
  induction k generalizing acc with
  | zero =>
    simp only [injections, List.mem_singleton]
    constructor
    · intro h; exact ⟨[], by simp [h]⟩
    · rintro ⟨ext, h1, h2, _⟩
      rw [List.length_eq_zero_iff] at h2
      simp [h1, h2]
  | succ k ih =>
    simp only [injections, List.mem_flatMap, List.mem_filter, List.mem_range, ih]
    constructor
    · rintro ⟨v, ⟨hv, hna⟩, ext, rfl, hl, hall, hnd⟩
      have hna' : v ∉ acc := by simpa using hna
      refine ⟨v :: ext, by simp, by simp [hl], ?_, ?_⟩
      · intro w hw
        rcases List.mem_cons.1 hw with rfl | hw
        · exact ⟨hv, hna'⟩
        · have := hall w hw
          exact ⟨this.1, fun h => this.2 (List.mem_append_left _ h)⟩
      · rw [List.nodup_cons]
        refine ⟨fun h => ?_, hnd⟩
        exact (hall v h).2 (by simp)
    · rintro ⟨ext, rfl, hl, hall, hnd⟩
      match ext, hl, hall, hnd with
      | v :: ext', hl, hall, hnd =>
        rw [List.nodup_cons] at hnd
        have hv := hall v (by simp)
        refine ⟨v, ⟨hv.1, by simpa using hv.2⟩, ext', by simp, by simpa using hl, ?_, hnd.2⟩
        intro w hw
        have := hall w (List.mem_cons_of_mem _ hw)
        refine ⟨this.1, fun h => ?_⟩
        rcases List.mem_append.1 h with h | h
        · exact this.2 h
        · have : w = v := by simpa using h
          exact hnd.1 (this ▸ hw)

/-- the candidate maps of the brute-force loop -/
theorem mem_injections_nil (k m : Nat) (f : List Nat) :
    f ∈ injections k m [] ↔ f.length = k ∧ (∀ v ∈ f, v < m) ∧ f.Nodup := by
  rw [mem_injections]
  constructor
  · rintro ⟨ext, rfl, hl, hall, hnd⟩
    exact ⟨by simpa using hl, fun v hv => (hall v (by simpa using hv)).1, by simpa using hnd⟩
  · rintro ⟨hl, hall, hnd⟩
    exact ⟨f, by simp, hl, fun v hv => ⟨hall v hv, by simp⟩, hnd⟩

/-! ### the specification -/

/-- `f` is an embedding of `g` into `h` -/
def IsEmbedding (g h : G) (f : Nat → Nat) : Prop :=
  (∀ a, a < g.n → f a < h.n) ∧
  (∀ a b, a < g.n → b < g.n → f a = f b → a = b) ∧
  (∀ a b, g.hasEdge a b = true → h.hasEdge (f a) (f b) = true)

/-- the brute-force part of `is_embedded_in` -/
def bruteEmbed (g h : G) : Bool :=
  (injections g.n h.n []).any (fun f =>
    g.edges.all (fun e => h.hasEdge (f.getD e.1 0) (f.getD e.2 0)))

theorem nodup_map_range {n : Nat} {f : Nat → Nat}
    (hinj : ∀ a b, a < n → b < n → f a = f b → a = b) : ((List.range n).map f).Nodup := by
  rw [List.nodup_iff_pairwise_ne, List.pairwise_map]
  refine List.Pairwise.imp_of_mem ?_ (List.nodup_range (n := n))
  intro a b ha hb hne heq
  exact hne (hinj a b (List.mem_range.1 ha) (List.mem_range.1 hb) heq)

theorem bruteEmbed_iff (g h : G) (hg : g.WF) :
    bruteEmbed g h = true ↔ ∃ f, IsEmbedding g h f := by
  unfold bruteEmbed
  rw [List.any_eq_true]
  constructor
  · rintro ⟨f, hf, hall⟩
    rw [mem_injections_nil] at hf
    obtain ⟨hl, hlt, hnd⟩ := hf
    rw [List.all_eq_true] at hall
    refine ⟨fun a => f.getD a 0, ?_, ?_, ?_⟩
    · intro a ha
      show f.getD a 0 < h.n
      apply hlt
      rw [List.getD_eq_getElem?_getD, List.getElem?_eq_getElem (by omega)]
      simp
    · intro a b ha hb hab
      exact (List.getD_inj (by omega) (by omega) hnd).1 hab
    · intro a b hab
      show h.hasEdge (f.getD a 0) (f.getD b 0) = true
      rw [G.hasEdge_iff] at hab
      have := hall _ hab
      unfold norm at this
      split at this
      · exact this
      · rw [G.hasEdge_comm]; exact this
  · rintro ⟨f, hlt, hinj, hedge⟩
    refine ⟨(List.range g.n).map f, ?_, ?_⟩
    · rw [mem_injections_nil]
      refine ⟨by simp, ?_, nodup_map_range hinj⟩
      intro v hv
      rw [List.mem_map] at hv
      obtain ⟨a, ha, rfl⟩ := hv
      exact hlt a (List.mem_range.1 ha)
    · rw [List.all_eq_true]
      intro e he
      have hwf := hg e he
      have h1 : ((List.range g.n).map f).getD e.1 0 = f e.1 := by
        rw [List.getD_eq_getElem?_getD, List.getElem?_eq_getElem (by simp; omega)]
        simp
      have h2 : ((List.range g.n).map f).getD e.2 0 = f e.2 := by
        rw [List.getD_eq_getElem?_getD, List.getElem?_eq_getElem (by simp; omega)]
        simp
      rw [h1, h2]
      exact hedge _ _ (g.hasEdge_of_mem hg he)

/-! ### consequences of the existence of an embedding -/

/-- pigeonhole: `A larger graph cannot be embedded in a smaller graph` -/
theorem IsEmbedding.n_le {g h : G} {f : Nat → Nat} (hf : IsEmbedding g h f) : g.n ≤ h.n := by
  obtain ⟨hlt, hinj, _⟩ := hf
  have h1 := List.Nodup.length_le_of_subset (l₂ := List.range h.n) (nodup_map_range hinj) (by
    intro v hv
    rw [List.mem_map] at hv
    obtain ⟨a, ha, rfl⟩ := hv
    exact List.mem_range.2 (hlt a (List.mem_range.1 ha)))
  simpa using h1

/-- an embedding does not decrease degrees -/
theorem IsEmbedding.deg_le {g h : G} {f : Nat → Nat} (hf : IsEmbedding g h f) (q : Nat) :
    (g.adj q).length ≤ (h.adj (f q)).length := by
  obtain ⟨hlt, hinj, hedge⟩ := hf
  have hnd : ((g.adj q).map f).Nodup := by
    rw [List.nodup_iff_pairwise_ne, List.pairwise_map]
    refine List.Pairwise.imp_of_mem ?_ (g.nodup_adj q)
    intro a b ha hb hne heq
    exact hne (hinj a b ((g.mem_adj q a).1 ha).1 ((g.mem_adj q b).1 hb).1 heq)
  have hsub : (g.adj q).map f ⊆ h.adj (f q) := by
    intro v hv
    rw [List.mem_map] at hv
    obtain ⟨u, hu, rfl⟩ := hv
    rw [G.mem_adj] at hu
    rw [G.mem_adj]
    exact ⟨hlt u hu.1, hedge q u hu.2⟩
  simpa using hnd.length_le_of_subset hsub

theorem noCandidate_iff (g h : G) (q1 : Nat) :
    noCandidate g h q1 = true ↔ ∀ q2, q2 < h.n → (h.adj q2).length < (g.adj q1).length := by
  unfold noCandidate
  rw [List.all_eq_true]
  constructor
  · intro hall q2 hq2
    have := hall q2 (List.mem_range.2 hq2)
    simpa using this
  · intro hall q2 hq2
    have := hall q2 (List.mem_range.1 hq2)
    simpa using this

/-- the degree pre-check never rejects an embeddable graph -/
theorem IsEmbedding.precheck {g h : G} {f : Nat → Nat} (hf : IsEmbedding g h f) :
    (List.range g.n).any (noCandidate g h) = false := by
  rw [List.any_eq_false]
  intro q1 hq1 hno
  rw [noCandidate_iff] at hno
  have := hno (f q1) (hf.1 q1 (List.mem_range.1 hq1))
  have := hf.deg_le q1
  omega

theorem isEmbeddedIn_eq (g h : G) :
    g.isEmbeddedIn h =
      (if g.n > h.n then false else
        if (List.range g.n).any (noCandidate g h) then false else bruteEmbed g h) := rfl

/-! ### final theorems -/

/-- (only `g.WF` is needed; `h` may be arbitrary) -/
theorem isEmbeddedIn_iff_isEmbedding (g h : G) (hg : g.WF) :
    g.isEmbeddedIn h = true ↔ ∃ f, IsEmbedding g h f := by
  rw [isEmbeddedIn_eq, ← bruteEmbed_iff g h hg]
  constructor
  · intro hemb
    split at hemb
    · exact absurd hemb (by simp)
    · split at hemb
      · exact absurd hemb (by simp)
      · exact hemb
  · intro hb
    obtain ⟨f, hf⟩ := (bruteEmbed_iff g h hg).1 hb
    have h1 := hf.n_le
    have h2 := hf.precheck
    rw [if_neg (by omega), h2]
    simpa using hb

/-- `is_embedded_in` returns `True` iff an injective edge-preserving vertex map exists
(the hypothesis `hh` is not used by the proof) -/
theorem isEmbeddedIn_iff (g h : G) (hg : g.WF) (hh : h.WF) :
    g.isEmbeddedIn h = true ↔
      ∃ f : Nat → Nat, (∀ a, a < g.n → f a < h.n) ∧
        (∀ a b, a < g.n → b < g.n → f a = f b → a = b) ∧
        (∀ a b, g.hasEdge a b = true → h.hasEdge (f a) (f b) = true) :=
  have _ := hh
  isEmbeddedIn_iff_isEmbedding g h hg

/-- the pre-check is redundant: the brute-force search alone decides the same thing -/
theorem isEmbeddedIn_precheck_redundant (g h : G) (hg : g.WF) (hh : h.WF) :
    g.isEmbeddedIn h =
      (if g.n > h.n then false else
        (injections g.n h.n []).any (fun f => g.edges.all (fun e => h.hasEdge (f.getD e.1 0) (f.getD e.2 0)))) := by
  have _ := hh
  show _ = if g.n > h.n then false else bruteEmbed g h
  rw [isEmbeddedIn_eq]
  split
  · rfl
  · split
    · next hpre =>
      cases hb : bruteEmbed g h
      · rfl
      · obtain ⟨f, hf⟩ := (bruteEmbed_iff g h hg).1 hb
        rw [hf.precheck] at hpre
        exact absurd hpre (by simp)
    · rfl

/-! ### non-vacuity -/

/-- path 0-1-2 -/
def exPath3 : G := ⟨3, [(0, 1), (1, 2)]⟩
/-- triangle -/
def exTri : G := ⟨3, [(0, 1), (1, 2), (0, 2)]⟩
/-- star K1,3 -/
def exStar4 : G := ⟨4, [(0, 1), (0, 2), (0, 3)]⟩
/-- path 0-1-2-3 -/
def exPath4 : G := ⟨4, [(0, 1), (1, 2), (2, 3)]⟩

example : exPath3.WF ∧ exTri.WF ∧ exStar4.WF ∧ exPath4.WF := by
  refine ⟨?_, ?_, ?_, ?_⟩ <;> (unfold G.WF; decide)

example : [2, 0] ∈ injections 2 3 [] := by decide
example : injections 2 3 [] = [[0, 1], [0, 2], [1, 0], [1, 2], [2, 0], [2, 1]] := by decide
example : injections 1 3 [1] = [[1, 0], [1, 2]] := by decide
/-- the path embeds in the triangle -/
example : exPath3.isEmbeddedIn exTri = true := by decide
/-- the triangle does not embed in the path (brute force fails, pre-check passes) -/
example : exTri.isEmbeddedIn exPath3 = false ∧
    (List.range exTri.n).any (noCandidate exTri exPath3) = false := by decide
/-- the star does not embed in the path on 4 vertices: the pre-check fires -/
example : exStar4.isEmbeddedIn exPath4 = false ∧
    (List.range exStar4.n).any (noCandidate exStar4 exPath4) = true := by decide
/-- a larger graph does not embed in a smaller one (size test) -/
example : exPath4.isEmbeddedIn exTri = false := by decide

/-- the theorem applied: an embedding of the path into the triangle exists, none of the star
into the 4-path -/
example : ∃ f, IsEmbedding exPath3 exTri f :=
  (isEmbeddedIn_iff_isEmbedding _ _ (by unfold G.WF; decide)).1 (by decide)
example : ¬ ∃ f, IsEmbedding exStar4 exPath4 f := fun hf =>
  absurd ((isEmbeddedIn_iff_isEmbedding _ _ (by unfold G.WF; decide)).2 hf) (by decide)

end BqVerif.Graph
