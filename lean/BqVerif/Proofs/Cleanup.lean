import BqVerif.Proofs.StartOnce
/-!
# Clean-up after cancellation, worker level (after fix commits dfc4d06 / 6ca9fa1)

`CInv`: the task table has no duplicate addresses; a task of the table that has a cancelled
ancestor (and whose own address is not cancelled) still has an entry in the ready queue - the
entry whose removal by `_get_next_ready_task` also removes the task; a blocked worker with an
empty ready queue has no delayed tasks.
-/
namespace BqVerif.Runtime

structure CInv (w : Worker) : Prop where
  nodup : (w.tasks.map (·.addr)).Nodup
  pending : ∀ t ∈ w.tasks, t.addr ∉ w.cancelled → (∃ c ∈ t.crumbs, c ∈ w.cancelled) → t.addr ∈ w.ready
  idle : w.blocked = true → w.ready = [] → w.delayed = []

theorem taskErase_addrs (l : List Task) (a : Addr) :
    (taskErase l a).map (·.addr) = (l.map (·.addr)).filter (· != a) := by
  induction l with
  | nil => rfl
  | cons x xs ih =>
    simp only [taskErase, List.filter_cons, List.map_cons] at ih ⊢
    by_cases h : x.addr != a
    · simp [h, ih]
    · simp [h, ih]

theorem taskSet_addrs (l : List Task) (t : Task) : (taskSet l t).map (·.addr) = l.map (·.addr) := by
  induction l with
  | nil => rfl
  | cons x xs ih =>
    simp only [taskSet, List.map_cons] at ih ⊢
    rw [ih]
    by_cases h : x.addr == t.addr
    · have : x.addr = t.addr := by simpa using h
      simp [h, this]
    · simp [h]

theorem mem_taskErase (l : List Task) (a : Addr) (t : Task) (h : t ∈ taskErase l a) :
    t ∈ l ∧ t.addr ≠ a := by
  simp only [taskErase, List.mem_filter, bne_iff_ne, ne_eq] at h
  exact h

theorem addTask_cinv (w : Worker) (t : Task) (h : CInv w) (hb : w.blocked = false ∨ True) :
    (∀ x ∈ (w.addTask t).tasks, x.addr ∉ w.cancelled → (∃ c ∈ x.crumbs, c ∈ w.cancelled) →
      x.addr ∈ (w.addTask t).ready) ∧ ((w.addTask t).tasks.map (·.addr)).Nodup := by
  constructor
  · intro x hx hn hc
    simp only [Worker.addTask, List.mem_append, List.mem_singleton] at hx ⊢
    rcases hx with hx | rfl
    · exact Or.inl (h.pending x (mem_taskErase _ _ _ hx).1 hn hc)
    · exact Or.inr rfl
  · simp only [Worker.addTask, List.map_append, List.map_cons, List.map_nil]
    rw [taskErase_addrs, List.nodup_append]
    refine ⟨h.nodup.sublist List.filter_sublist, by simp, ?_⟩
    intro a ha b hb'
    simp only [List.mem_filter, bne_iff_ne, ne_eq] at ha
    simp only [List.mem_singleton] at hb'
    rw [hb']; exact ha.2

theorem handleResult_ready (w : Worker) (a : Addr) (v : Val) :
    (w.handleResult a v).cancelled = w.cancelled ∧ (w.handleResult a v).blocked = w.blocked
    ∧ ∀ x ∈ w.ready, x ∈ (w.handleResult a v).ready := by
  unfold Worker.handleResult
  split
  · exact ⟨rfl, rfl, fun _ h => h⟩
  · split
    · exact ⟨rfl, rfl, fun _ h => h⟩
    · dsimp only
      split
      · exact ⟨rfl, rfl, fun _ h => h⟩
      · split
        · exact ⟨rfl, rfl, fun _ h => h⟩
        · split
          · exact ⟨rfl, rfl, fun _ h => List.mem_append_left _ h⟩
          · exact ⟨rfl, rfl, fun _ h => h⟩

theorem handleResult_ready_nonempty (w : Worker) (a : Addr) (v : Val)
    (h : (w.handleResult a v).ready = []) : w.ready = [] := by
  have := (handleResult_ready w a v).2.2
  cases hr : w.ready with
  | nil => rfl
  | cons x xs =>
    have := this x (by rw [hr]; exact List.mem_cons_self)
    rw [h] at this; simp at this

theorem recv_cinv (w : Worker) (m : Msg) (h : CInv w) : CInv (w.recv m) := by
  cases m with
  | submit t =>
    obtain ⟨h1, h2⟩ := addTask_cinv w t h (Or.inr trivial)
    refine ⟨h2, h1, ?_⟩
    intro _ hr
    simp [Worker.recv, Worker.addTask] at hr
  | batch ts =>
    simp only [Worker.recv]
    split
    · exact ⟨h.nodup, h.pending, h.idle⟩
    · rename_i last _
      obtain ⟨h1, h2⟩ := addTask_cinv { w with receipt := ts.head?.map (fun (x : Task) => x.addr) } last
        ⟨h.nodup, h.pending, h.idle⟩ (Or.inr trivial)
      refine ⟨h2, h1, ?_⟩
      intro _ hr
      simp [Worker.addTask] at hr
  | result a v b =>
    obtain ⟨e1, e2, e3⟩ := handleResult_ready w a v
    refine ⟨?_, ?_, ?_⟩
    · simp only [Worker.recv, (handleResult_tables w a v).1]; exact h.nodup
    · intro t ht hn hc
      simp only [Worker.recv, (handleResult_tables w a v).1, e1] at ht hn hc ⊢
      exact e3 _ (h.pending t ht hn hc)
    · intro hb hr
      simp only [Worker.recv] at hb hr ⊢
      rw [(handleResult_tables w a v).2]
      exact h.idle (by rw [← e2]; exact hb) (handleResult_ready_nonempty w a v hr)
  | cancel a =>
    have key : CInv (w.handleCancel a) := by
      refine ⟨?_, ?_, ?_⟩
      · simp only [Worker.handleCancel]
        exact h.nodup.sublist (List.Sublist.map _ List.filter_sublist)
      · intro t ht hn hc
        simp only [Worker.handleCancel, List.mem_filter, Bool.not_eq_true'] at ht
        obtain ⟨htm, hdesc⟩ := ht
        simp only [Task.descOf, Bool.or_eq_false_iff, beq_eq_false_iff_ne, ne_eq] at hdesc
        have hcr : a ∉ t.crumbs := by
          intro hm
          have : t.crumbs.contains a = true := List.contains_iff_mem.mpr hm
          rw [this] at hdesc; exact Bool.noConfusion hdesc.2
        have hsub : ∀ x, x ∈ (w.handleCancel a).cancelled → x ∈ w.cancelled ∨ x = a := by
          intro x hx
          simp only [Worker.handleCancel] at hx
          split at hx
          · exact Or.inl hx
          · rcases List.mem_append.mp hx with hx | hx
            · exact Or.inl hx
            · exact Or.inr (by simpa using hx)
        have hn' : t.addr ∉ w.cancelled := fun hm => hn ((handleCancel_mono w a).canc _ hm)
        obtain ⟨c, hc1, hc2⟩ := hc
        rcases hsub c hc2 with hc2 | rfl
        · exact h.pending t htm hn' ⟨c, hc1, hc2⟩
        · exact absurd hc1 hcr
      · intro hb hr
        simp only [Worker.handleCancel] at hb hr ⊢
        rw [h.idle hb hr]; rfl
    simp only [Worker.recv]
    split
    · exact ⟨key.nodup, key.pending, key.idle⟩
    · exact key
  | shutdown => exact ⟨h.nodup, h.pending, h.idle⟩
  | eof => exact ⟨h.nodup, h.pending, h.idle⟩
  | _ => exact h


-- ------------------------------------------------------------- main thread
/-- what one step of a task may do to the tables relevant for clean-up -/
structure StepRel (w w' : Worker) : Prop where
  tasks : ∀ t' ∈ w'.tasks, ∃ t ∈ w.tasks, t.addr = t'.addr ∧ t.crumbs = t'.crumbs
  nodup : (w.tasks.map (·.addr)).Nodup → (w'.tasks.map (·.addr)).Nodup
  ready : ∀ a ∈ w.ready, a ∈ w'.ready
  canc : w'.cancelled = w.cancelled
  blocked : w'.blocked = w.blocked
  delayed : w'.delayed = w.delayed

theorem StepRel.refl (w : Worker) : StepRel w w :=
  ⟨fun t h => ⟨t, h, rfl, rfl⟩, fun h => h, fun _ h => h, rfl, rfl, rfl⟩

theorem StepRel.trans {a b c : Worker} (h1 : StepRel a b) (h2 : StepRel b c) : StepRel a c := by
  refine ⟨?_, fun h => h2.nodup (h1.nodup h), fun x hx => h2.ready x (h1.ready x hx),
    by rw [h2.canc, h1.canc], by rw [h2.blocked, h1.blocked], by rw [h2.delayed, h1.delayed]⟩
  intro t hc
  obtain ⟨t1, ht1, e1, e2⟩ := h2.tasks t hc
  obtain ⟨t0, ht0, f1, f2⟩ := h1.tasks t1 ht1
  exact ⟨t0, ht0, by rw [f1, e1], by rw [f2, e2]⟩

/-- only boxes / counter / flags other than the relevant tables change -/
theorem StepRel.of_same {w w' : Worker} (ht : w'.tasks = w.tasks) (hr : w'.ready = w.ready)
    (hc : w'.cancelled = w.cancelled) (hb : w'.blocked = w.blocked) (hd : w'.delayed = w.delayed) :
    StepRel w w' :=
  ⟨fun t h => ⟨t, by rw [← ht]; exact h, rfl, rfl⟩, fun h => by rw [ht]; exact h,
   fun a h => by rw [hr]; exact h, hc, hb, hd⟩

theorem CInv.of_rel {w w' : Worker} (h : CInv w) (hr : StepRel w w') : CInv w' := by
  refine ⟨hr.nodup h.nodup, ?_, ?_⟩
  · intro t' ht' hn hc
    obtain ⟨t, ht, e1, e2⟩ := hr.tasks t' ht'
    rw [hr.canc] at hn hc
    rw [← e1] at hn ⊢
    rw [← e2] at hc
    exact hr.ready _ (h.pending t ht hn hc)
  · intro hb hre
    rw [hr.blocked] at hb
    rw [hr.delayed]
    apply h.idle hb
    cases hq : w.ready with
    | nil => rfl
    | cons x xs =>
      have := hr.ready x (by rw [hq]; exact List.mem_cons_self)
      rw [hre] at this; simp at this

theorem handleResult_rel (w : Worker) (a : Addr) (v : Val) : StepRel w (w.handleResult a v) := by
  obtain ⟨e1, e2, e3⟩ := handleResult_ready w a v
  obtain ⟨t1, t2⟩ := handleResult_tables w a v
  exact ⟨fun t h => ⟨t, by rw [← t1]; exact h, rfl, rfl⟩, fun h => by rw [t1]; exact h, e3, e1, e2, t2⟩

theorem desiredResult_rel (w w' : Worker) (t t' : Task) (v : Option Val)
    (h : desiredResult w t = .ok (w', t', v)) :
    StepRel w w' ∧ t'.addr = t.addr ∧ t'.crumbs = t.crumbs := by
  unfold desiredResult at h
  split at h
  · simp only [Except.ok.injEq, Prod.mk.injEq] at h
    rw [← h.1, ← h.2.1]; exact ⟨StepRel.refl w, rfl, rfl⟩
  · split at h
    · simp at h
    · split at h
      · split at h
        · simp at h
        · simp only [Except.ok.injEq, Prod.mk.injEq] at h
          rw [← h.1, ← h.2.1]; exact ⟨StepRel.of_same rfl rfl rfl rfl rfl, rfl, rfl⟩
      · split at h
        · simp at h
        · split at h
          · simp at h
          · simp only [Except.ok.injEq, Prod.mk.injEq] at h
            rw [← h.1, ← h.2.1]; exact ⟨StepRel.of_same rfl rfl rfl rfl rfl, rfl, rfl⟩

theorem runBody_rel (tbl : Table) (fuel : Nat) (r : Run) :
    StepRel r.w (runBody tbl fuel r).1.w ∧ (runBody tbl fuel r).1.t.addr = r.t.addr
    ∧ (runBody tbl fuel r).1.t.crumbs = r.t.crumbs := by
  induction fuel generalizing r with
  | zero => exact ⟨StepRel.refl _, rfl, rfl⟩
  | succ n ih =>
    simp only [runBody]
    split
    · have := ih { r with
          w := { r.w with counter := r.w.counter + 1, boxes := r.w.boxes ++ [(r.w.counter, Box.new none)] },
          t := { r.t with owned := r.t.owned ++ [r.w.counter], futs := r.t.futs ++ [r.w.counter], pc := r.t.pc + 1 },
          out := r.out ++ [Msg.submit (mkChild r.w r.t r.w.counter 0 ‹Nat› r.t.futs.length)],
          evs := r.evs ++ [Ev.spawn r.t.tag r.t.futs.length r.w.counter] }
      refine ⟨StepRel.trans ?_ this.1, this.2.1, this.2.2⟩
      exact StepRel.of_same rfl rfl rfl rfl rfl
    · split
      · exact ⟨StepRel.refl _, rfl, rfl⟩
      · rename_i ps _ _
        have := ih { r with
            w := { r.w with counter := r.w.counter + 1,
                            boxes := r.w.boxes ++ [(r.w.counter, Box.new (some ps.length))] },
            t := { r.t with owned := r.t.owned ++ [r.w.counter], futs := r.t.futs ++ [r.w.counter], pc := r.t.pc + 1 },
            out := r.out ++ [Msg.batch ((enumFrom 0 ps).map (fun ip => mkChild r.w r.t r.w.counter ip.1 ip.2 r.t.futs.length))],
            evs := r.evs ++ [Ev.spawn r.t.tag r.t.futs.length r.w.counter] }
        refine ⟨StepRel.trans ?_ this.1, this.2.1, this.2.2⟩
        exact StepRel.of_same rfl rfl rfl rfl rfl
    · split <;> exact ⟨StepRel.refl _, rfl, rfl⟩
    · split
      · exact ⟨StepRel.refl _, rfl, rfl⟩
      · split <;> exact ⟨StepRel.refl _, rfl, rfl⟩
    · split
      · exact ⟨StepRel.refl _, rfl, rfl⟩
      · split
        · exact ⟨StepRel.refl _, rfl, rfl⟩
        · split
          · exact ⟨StepRel.refl _, rfl, rfl⟩
          · rename_i k _ _ m _ _ b _ _
            have := ih { ({ w := r.w, t := r.t, out := r.out, evs := r.evs ++ [Ev.cancel r.t.tag k] } : Run).cancelBox m b with
                t := { (({ w := r.w, t := r.t, out := r.out, evs := r.evs ++ [Ev.cancel r.t.tag k] } : Run).cancelBox m b).t with pc := r.t.pc + 1 } }
            refine ⟨StepRel.trans ?_ this.1, this.2.1, this.2.2⟩
            exact StepRel.of_same rfl rfl rfl rfl rfl
    · exact ⟨StepRel.refl _, rfl, rfl⟩
    · exact ⟨StepRel.refl _, rfl, rfl⟩

theorem completionLoop_rel (ms : List Nat) (r : Run) : StepRel r.w (completionLoop ms r).1.w := by
  induction ms generalizing r with
  | nil => exact StepRel.refl _
  | cons m ms ih =>
    simp only [completionLoop]
    split
    · split
      · refine StepRel.trans ?_ (ih _)
        exact StepRel.of_same rfl rfl rfl rfl rfl
      · refine StepRel.trans ?_ (ih _)
        exact StepRel.of_same rfl rfl rfl rfl rfl
    · exact StepRel.refl _

/-- removing entries of the table -/
theorem erase_rel (w : Worker) (a : Addr) : StepRel w { w with tasks := taskErase w.tasks a } :=
  ⟨fun t h => ⟨t, (mem_taskErase _ _ _ h).1, rfl, rfl⟩,
   fun h => by
     show ((taskErase w.tasks a).map (·.addr)).Nodup
     rw [taskErase_addrs]; exact h.sublist List.filter_sublist,
   fun _ h => h, rfl, rfl, rfl⟩

/-- the active task agrees with its table entry on the breadcrumbs -/
def Agree (w : Worker) (t : Task) : Prop := ∀ x ∈ w.tasks, x.addr = t.addr → x.crumbs = t.crumbs

theorem Agree.of_rel {w w' : Worker} {t t' : Task} (h : Agree w t) (hr : StepRel w w')
    (ha : t'.addr = t.addr) (hc : t'.crumbs = t.crumbs) : Agree w' t' := by
  intro x hx hxa
  obtain ⟨y, hy, e1, e2⟩ := hr.tasks x hx
  rw [← e2, hc]
  exact h y hy (by rw [e1, hxa, ha])

theorem taskSet_rel (w : Worker) (t : Task) (hA : Agree w t) :
    StepRel w { w with tasks := taskSet w.tasks t } := by
  refine ⟨?_, fun h => by show ((taskSet w.tasks t).map (·.addr)).Nodup; rw [taskSet_addrs]; exact h,
    fun _ h => h, rfl, rfl, rfl⟩
  intro t' ht'
  simp only [taskSet, List.mem_map] at ht'
  obtain ⟨x, hx, rfl⟩ := ht'
  by_cases e : x.addr == t.addr
  · simp only [e, if_true]
    have e' : x.addr = t.addr := by simpa using e
    exact ⟨x, hx, e', hA x hx e'⟩
  · simp only [e]
    exact ⟨x, hx, rfl, rfl⟩

theorem processAwait_rel (r r' : Run) (m : Nat) (nxt : Bool) (h : processAwait r m nxt = some r') :
    StepRel r.w r'.w ∧ r'.t.addr = r.t.addr ∧ r'.t.crumbs = r.t.crumbs := by
  unfold processAwait at h
  split at h
  · simp at h
  · simp only [Option.some.injEq] at h
    rw [← h]
    dsimp only
    split
    · exact ⟨⟨fun t h => ⟨t, h, rfl, rfl⟩, fun h => h, fun a h => List.mem_append_left _ h, rfl, rfl, rfl⟩,
        rfl, rfl⟩
    · exact ⟨StepRel.of_same rfl rfl rfl rfl rfl, rfl, rfl⟩

theorem completionEnter_rel (r : Run) (v : Val) : StepRel r.w (completionEnter r v).w := by
  unfold completionEnter
  split
  · exact (handleResult_rel r.w r.t.addr v).trans (erase_rel _ _)
  · exact erase_rel _ _

theorem processCompletion_rel (r : Run) (v : Val) : StepRel r.w (processCompletion r v).1.w := by
  unfold processCompletion
  split
  · exact StepRel.refl _
  · exact (completionEnter_rel r v).trans (completionLoop_rel _ _)

theorem bubbleErr_rel (w : Worker) (t : Task) (out : List Msg) (evs : List Ev) (cls : Nat) (isRt : Bool)
    (hA : Agree w t) : StepRel w (bubbleErr w t out evs cls isRt).w := by
  have : Agree w { t with live := false } := hA
  unfold bubbleErr
  dsimp only
  split <;> exact taskSet_rel w _ this

theorem finishStep_rel (r : Run) (oc : Outcome) (hA : Agree r.w r.t) : StepRel r.w (finishStep r oc).w := by
  cases oc with
  | awaitF m nxt =>
    simp only [finishStep]
    split
    · rename_i r1 h1
      obtain ⟨h, ha, hc⟩ := processAwait_rel r r1 m nxt h1
      exact h.trans (taskSet_rel r1.w r1.t (hA.of_rel h ha hc))
    · split <;> exact taskSet_rel r.w r.t hA
  | done v =>
    simp only [finishStep]
    split
    · exact (processCompletion_rel r v).trans (StepRel.of_same rfl rfl rfl rfl rfl)
    · exact processCompletion_rel r v
  | err cls isRt => exact bubbleErr_rel _ _ _ _ _ _ hA

theorem resume_addr (tbl : Table) (t1 : Task) (val : Option Val) :
    (resume tbl t1 val).1.addr = t1.addr ∧ (resume tbl t1 val).1.crumbs = t1.crumbs := by
  unfold resume
  dsimp only
  split <;> exact ⟨rfl, rfl⟩

theorem stepTask_rel (tbl : Table) (w : Worker) (out : List Msg) (t0 : Task) (hA : Agree w t0) :
    StepRel w (stepTask tbl w out t0).w := by
  unfold stepTask
  split
  · exact StepRel.refl _
  · rename_i w1 t1 val hd
    obtain ⟨h1, ha, hc⟩ := desiredResult_rel w w1 t0 t1 val hd
    split
    · refine h1.trans (bubbleErr_rel _ _ _ _ _ _ ?_)
      exact hA.of_rel h1 ha hc
    · dsimp only
      have hb := runBody_rel tbl ((tbl.getD t1.prog []).length + 2)
        { w := w1, t := (resume tbl t1 val).1, out := out, evs := (resume tbl t1 val).2 }
      obtain ⟨e1, e2⟩ := resume_addr tbl t1 val
      refine h1.trans (hb.1.trans (finishStep_rel _ _ ?_))
      exact hA.of_rel (h1.trans hb.1) (by rw [hb.2.1]; exact e1.trans ha) (by rw [hb.2.2]; exact e2.trans hc)

theorem taskGet_none_not_mem (l : List Task) (a : Addr) (h : taskGet l a = none) :
    ∀ t ∈ l, t.addr ≠ a := by
  intro t ht e
  simp only [taskGet, List.find?_eq_none] at h
  exact h t ht (by simp [e])

theorem nodup_addr_eq (l : List Task) (hn : (l.map (·.addr)).Nodup) (x y : Task) (hx : x ∈ l) (hy : y ∈ l)
    (e : x.addr = y.addr) : x = y := by
  induction l with
  | nil => simp at hx
  | cons z zs ih =>
    simp only [List.map_cons, List.nodup_cons, List.mem_map, not_exists, not_and] at hn
    simp only [List.mem_cons] at hx hy
    rcases hx with rfl | hx <;> rcases hy with rfl | hy
    · rfl
    · exact absurd e.symm (hn.1 y hy)
    · exact absurd e (hn.1 x hx)
    · exact ih hn.2 hx hy

/-- `_get_next_ready_task` -/
theorem pick_cinv (fuel : Nat) (w : Worker) (h : CInv w) (hb : w.blocked = false) :
    CInv (Worker.pick fuel w).w := by
  fun_induction Worker.pick fuel w with
  | case1 w => exact h
  | case2 fuel w hr t' ht' ih =>
    apply ih _ hb
    have h0 : CInv { w with delayed := w.delayed.dropLast } :=
      ⟨h.nodup, h.pending, fun hb' => by rw [show ({ w with delayed := w.delayed.dropLast } : Worker).blocked = w.blocked from rfl, hb] at hb'; cases hb'⟩
    have := addTask_cinv _ t' h0 (Or.inr trivial)
    exact ⟨this.2, this.1, fun hb' => by
      rw [show (({ w with delayed := w.delayed.dropLast } : Worker).addTask t').blocked = w.blocked from rfl, hb] at hb'
      cases hb'⟩
  | case3 fuel w hr hd =>
    refine ⟨h.nodup, ?_, ?_⟩
    · intro t ht hn hc
      have := h.pending t ht hn hc
      rw [hr] at this; cases this
    · intro _ _
      show w.delayed = []
      cases hq : w.delayed with
      | nil => rfl
      | cons x xs => rw [hq] at hd; simp [List.getLast?_cons_cons] at hd
  | case4 fuel w a rest hr w1 hc ih =>
    apply ih _ hb
    refine ⟨h.nodup, ?_, fun hb' => by rw [show w1.blocked = w.blocked from rfl, hb] at hb'; cases hb'⟩
    intro t ht hn hcc
    have := h.pending t ht hn hcc
    rw [hr] at this
    rcases List.mem_cons.1 this with e | e
    · exfalso; apply hn; rw [e]
      simpa using hc
    · exact e
  | case5 fuel w a rest hr w1 hc hg ih =>
    apply ih _ hb
    refine ⟨h.nodup, ?_, fun hb' => by rw [show w1.blocked = w.blocked from rfl, hb] at hb'; cases hb'⟩
    intro t ht hn hcc
    have := h.pending t ht hn hcc
    rw [hr] at this
    rcases List.mem_cons.1 this with e | e
    · exact absurd e (taskGet_none_not_mem _ _ hg t ht)
    · exact e
  | case6 fuel w a rest hr w1 hc t' hg hcr ih =>
    apply ih _ hb
    refine ⟨?_, ?_, fun hb' => by rw [show w1.blocked = w.blocked from rfl, hb] at hb'; cases hb'⟩
    · show ((taskErase w.tasks a).map (·.addr)).Nodup
      rw [taskErase_addrs]; exact h.nodup.sublist List.filter_sublist
    · intro t ht hn hcc
      obtain ⟨ht1, hne⟩ := mem_taskErase _ _ _ ht
      have := h.pending t ht1 hn hcc
      rw [hr] at this
      rcases List.mem_cons.1 this with e | e
      · exact absurd e hne
      · exact e
  | case7 fuel w a rest hr w1 hc t' hg hcr =>
    refine ⟨h.nodup, ?_, fun hb' => by rw [show w1.blocked = w.blocked from rfl, hb] at hb'; cases hb'⟩
    intro t ht hn hcc
    have := h.pending t ht hn hcc
    rw [hr] at this
    rcases List.mem_cons.1 this with e | e
    · exfalso
      have hm : t' ∈ w.tasks := List.mem_of_find?_eq_some hg
      have ha' : t'.addr = a := taskGet_addr _ _ _ hg
      have : t = t' := nodup_addr_eq _ h.nodup t t' ht hm (by rw [e, ha'])
      subst this
      obtain ⟨c, hc1, hc2⟩ := hcc
      apply hcr
      simp only [List.any_eq_true]
      exact ⟨c, hc1, by simpa using hc2⟩
    · exact e

theorem agree_of_get (w : Worker) (t : Task) (hn : (w.tasks.map (·.addr)).Nodup)
    (hg : taskGet w.tasks t.addr = some t) : Agree w t := by
  intro x hx e
  have := nodup_addr_eq _ hn x t hx (List.mem_of_find?_eq_some hg) e
  rw [this]

/-- one iteration of the main loop -/
theorem step_cinv (tbl : Table) (w : Worker) (h : CInv w) : CInv (w.step tbl).w := by
  have h0 : CInv { w with blocked := false } := ⟨h.nodup, h.pending, fun hb => by cases hb⟩
  have hp := pick_cinv w.pickFuel _ h0 rfl
  unfold Worker.step
  dsimp only
  split
  · exact hp
  · rename_i t0 ht0
    exact hp.of_rel (stepTask_rel tbl _ _ t0 (agree_of_get _ _ hp.nodup (pick_task_mem _ _ _ ht0)))

theorem applyOp_cinv (tbl : Table) (w : Worker) (op : WOp) (h : CInv w) : CInv (w.applyOp tbl op) := by
  cases op with
  | recv m => exact recv_cinv w m h
  | step => exact step_cinv tbl w h

theorem run_cinv (tbl : Table) (w : Worker) (ops : List WOp) (h : CInv w) :
    CInv (ops.foldl (Worker.applyOp tbl) w) := by
  induction ops generalizing w with
  | nil => exact h
  | cons op ops ih => exact ih _ (applyOp_cinv tbl w op h)

/-- Clean-up of a worker after cancellation: whatever messages arrive in whatever order, once the
    worker is idle (it reported WAITING and its ready queue is empty) it holds no delayed task,
    and every task left in its table either has no cancelled ancestor at all or is a task that
    arrived after the CANCEL of its own address. -/
theorem cleanup_worker (tbl : Table) (w : Worker) (ops : List WOp) (h : CInv w)
    (hb : (ops.foldl (Worker.applyOp tbl) w).blocked = true)
    (hr : (ops.foldl (Worker.applyOp tbl) w).ready = []) :
    (ops.foldl (Worker.applyOp tbl) w).delayed = [] ∧
    ∀ t ∈ (ops.foldl (Worker.applyOp tbl) w).tasks,
      t.addr ∈ (ops.foldl (Worker.applyOp tbl) w).cancelled ∨
      ∀ c ∈ t.crumbs, c ∉ (ops.foldl (Worker.applyOp tbl) w).cancelled := by
  have hc := run_cinv tbl w ops h
  refine ⟨hc.idle hb hr, ?_⟩
  intro t ht
  by_cases ha : t.addr ∈ (ops.foldl (Worker.applyOp tbl) w).cancelled
  · exact Or.inl ha
  · right
    intro c hc1 hc2
    have := hc.pending t ht ha ⟨c, hc1, hc2⟩
    rw [hr] at this; cases this

-- ------------------------------------------------ completion-time clean-up (fix 6ca9fa1)
/-- the clean-up loop of `_process_task_completion`, iterating over a copy of the owned
    mailboxes: unless it raised, every mailbox of the list is gone afterwards -/
theorem completionLoop_clears (ms : List Nat) (r : Run) (hf : Fresh r.w)
    (h : (completionLoop ms r).2 = false) : ∀ m ∈ ms, Gone (completionLoop ms r).1.w m := by
  induction ms generalizing r with
  | nil => intro m hm; cases hm
  | cons m ms ih =>
    revert h
    simp only [completionLoop]
    split
    · rename_i b hb
      have hk : m < r.w.counter := hf m ((boxGet_isSome_iff _ _).mp (by rw [hb]; rfl))
      split
      · intro h x hx
        have hg : Gone ({ r with w := { r.w with boxes := boxErase r.w.boxes m } } : Run).w m :=
          ⟨hk, boxGet_boxErase_self _ _⟩
        have hf1 : Fresh ({ r with w := { r.w with boxes := boxErase r.w.boxes m } } : Run).w := by
          intro k hk'; exact hf k (mem_keys_boxErase _ _ _ hk').1
        rcases List.mem_cons.1 hx with rfl | hx
        · exact (completionLoop_mono ms _).gone _ hg
        · exact ih _ hf1 h x hx
      · intro h x hx
        have hg := cancelBox_gone r m b hf hb
        have hf1 : Fresh (r.cancelBox m b).w := (cancelBox_mono r m b).fresh hf
        rcases List.mem_cons.1 hx with rfl | hx
        · exact (completionLoop_mono ms _).gone _ hg
        · exact ih _ hf1 h x hx
    · intro h; cases h

theorem processCompletion_clears (r : Run) (v : Val) (hf : Fresh r.w)
    (hg : (taskGet r.w.tasks r.t.addr).isSome) (h : (processCompletion r v).2 = false) :
    ∀ m ∈ r.t.owned, Gone (processCompletion r v).1.w m := by
  revert h
  unfold processCompletion
  split
  · rename_i hn; rw [hn] at hg; cases hg
  · intro h
    have := completionLoop_clears r.t.owned (completionEnter r v)
      ((completionEnter_mono r v).fresh hf) h
    have e : (completionEnter r v).t = r.t := by unfold completionEnter; split <;> rfl
    exact this

end BqVerif.Runtime
