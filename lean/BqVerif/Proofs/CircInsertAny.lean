import BqVerif.Proofs.CircUnfoldSem
/-! # `insert_circuit` for ANY cycle index (negative, out of range): the timelines (C04) -/
namespace BqVerif.Circ

theorem resolveCycle_nonneg (c : Circ) (ci0 : Int) : 0 ≤ c.resolveCycle ci0 := by
  unfold Circ.resolveCycle
  split
  · exact Int.le_refl _
  · split <;> omega

/-- the cycle the call works at: `0` below `-numCycles`, counted from the end for a negative index
in range, the index itself otherwise -/
theorem resolveCycle_toNat (c : Circ) (ci0 : Int) :
    (c.resolveCycle ci0).toNat =
      if ci0 < -(c.numCycles : Int) then 0
      else if ci0 < 0 then c.numCycles - (-ci0).toNat else ci0.toNat := by
  unfold Circ.resolveCycle
  split
  · rfl
  · split <;> omega

theorem insertCircuit_resolved (c : Circ) (ci0 : Int) (sub : Circ) (loc : List Nat) :
    c.insertCircuit ci0 sub loc =
      c.insertCircuit (((c.resolveCycle ci0).toNat : Nat) : Int) sub loc := by
  have h := resolveCycle_nonneg c ci0
  unfold Circ.insertCircuit
  rw [resolveCycle_nat, Int.toNat_of_nonneg h]

/-- **`insert_circuit(cycle_index, circuit, location)` for any index**: with `k` the resolved
cycle, when every relabelled operation passes `check_valid_operation` the call succeeds and
* `k < num_cycles`: the sub-circuit's operations come, in every timeline, after everything in the
  cycles `< k` and before everything in the cycles `≥ k` (they are inserted in reversed order at
  `k`, so they end up in forward order);
* `k ≥ num_cycles`: they are appended at the end of every timeline, in iteration order. -/
theorem insertCircuit_any_timeline (c sub : Circ) (loc : List Nat) (ci0 : Int)
    (hlen : sub.numQudits = loc.length)
    (hv : ∀ x ∈ sub.ops, c.checkValid (x.mapLoc loc) = .ok ()) (q : Nat) :
    (c.insertCircuit ci0 sub loc).2 = .ok () ∧
    (c.insertCircuit ci0 sub loc).1.timeline q =
      if (c.resolveCycle ci0).toNat < c.numCycles then
        proj q (c.cycles.take (c.resolveCycle ci0).toNat).flatten ++
          proj q (sub.iterRev.reverse.map (·.mapLoc loc)) ++
          proj q (c.cycles.drop (c.resolveCycle ci0).toNat).flatten
      else c.timeline q ++ proj q (sub.iter.map (·.mapLoc loc)) := by
  rw [insertCircuit_resolved]
  generalize (c.resolveCycle ci0).toNat = k
  split
  · rename_i hk
    rw [insertCircuit_eq_lt c sub loc k hlen hk, List.map_reverse]
    exact insert_fold_timeline k _ c hk (by
      intro y hy
      rw [List.mem_map] at hy
      obtain ⟨x, hx, rfl⟩ := hy
      exact hv x ((mem_iterRev sub x).1 hx)) q
  · rename_i hk
    rw [insertCircuit_eq_ge c sub loc k hlen (Nat.le_of_not_lt hk), appendCircuit_eq c sub loc hlen]
    exact append_fold_timeline _ c (by
      intro y hy
      rw [List.mem_map] at hy
      obtain ⟨x, hx, rfl⟩ := hy
      exact hv x ((mem_iter sub x).1 hx)) q

end BqVerif.Circ
