import BqVerif.Proofs.TokenServer
/-! Token uniqueness on the flat network: every task address has at most one token, in
    every reachable state (`GInv`). -/
namespace BqVerif.Runtime

-- ---------------------------------------------------------------- channels
theorem tokChans_chanSet (a : Addr) (cs : List ((NodeId × NodeId) × List Msg)) (k : NodeId × NodeId)
    (v : List Msg) :
    tokChans a (chanSet cs k v) + tokMsgs a (chanGet cs k) = tokChans a cs + tokMsgs a v := by
  induction cs with
  | nil => simp [chanSet, chanGet, tokChans, sumBy, tokMsgs]
  | cons c t ih =>
    obtain ⟨x, l⟩ := c
    by_cases h : x = k
    · simp only [chanSet, chanGet, h, if_true, tokChans, sumBy]; omega
    · simp only [chanSet, chanGet, h, if_false, tokChans, sumBy] at ih ⊢; omega

theorem Tok_post_le (a : Addr) (n : Net) (s d : NodeId) (m : Msg) :
    Tok a (n.post s d m) ≤ Tok a n + tokMsg a m := by
  unfold Net.post
  split
  · have := tokChans_chanSet a n.chans (s, d) (chanGet n.chans (s, d) ++ [m])
    simp only [Tok, tokMsgs, sumBy_append, sumBy] at this ⊢
    omega
  · exact Nat.le_add_right _ _

theorem post_fields (n : Net) (s d : NodeId) (m : Msg) :
    (n.post s d m).workers = n.workers ∧ (n.post s d m).server = n.server
    ∧ (n.post s d m).mgrs = n.mgrs ∧ (n.post s d m).tbl = n.tbl := by
  unfold Net.post; split <;> exact ⟨rfl, rfl, rfl, rfl⟩

theorem postAll_fields (n : Net) (s : NodeId) (o : Out) :
    (n.postAll s o).workers = n.workers ∧ (n.postAll s o).server = n.server
    ∧ (n.postAll s o).mgrs = n.mgrs ∧ (n.postAll s o).tbl = n.tbl := by
  unfold Net.postAll
  induction o generalizing n with
  | nil => exact ⟨rfl, rfl, rfl, rfl⟩
  | cons dm t ih =>
    simp only [List.foldl_cons]
    obtain ⟨h1, h2, h3, h4⟩ := ih (n.post s dm.1 dm.2)
    obtain ⟨g1, g2, g3, g4⟩ := post_fields n s dm.1 dm.2
    exact ⟨h1.trans g1, h2.trans g2, h3.trans g3, h4.trans g4⟩

theorem Tok_postAll_le (a : Addr) (n : Net) (s : NodeId) (o : Out) :
    Tok a (n.postAll s o) ≤ Tok a n + tokOut a o := by
  unfold Net.postAll
  induction o generalizing n with
  | nil => simp [tokOut, sumBy]
  | cons dm t ih =>
    simp only [List.foldl_cons, tokOut, sumBy]
    have h1 := ih (n.post s dm.1 dm.2)
    have h2 := Tok_post_le a n s dm.1 dm.2
    simp only [tokOut] at h1
    omega

/-- taking the head message off a channel -/
theorem Tok_pop (a : Addr) (n : Net) (k : NodeId × NodeId) (m : Msg) (rest : List Msg)
    (h : chanGet n.chans k = m :: rest) :
    Tok a { n with chans := chanSet n.chans k rest } + tokMsg a m = Tok a n := by
  have := tokChans_chanSet a n.chans k rest
  rw [h] at this
  simp only [Tok, tokMsgs, sumBy] at this ⊢
  omega

-- ----------------------------------------------------------------- workers
theorem sumBy_setWorker (f : Worker → Nat) (ws : List Worker) (w w' : Worker)
    (hn : (ws.map (·.id)).Nodup) (hw : w ∈ ws) (hid : w'.id = w.id) :
    sumBy f (setWorker ws w') + f w = sumBy f ws + f w' := by
  induction ws with
  | nil => simp at hw
  | cons x xs ih =>
    simp only [List.map_cons, List.nodup_cons] at hn
    simp only [setWorker, List.map_cons, sumBy]
    rcases List.mem_cons.mp hw with rfl | hw'
    · have e : (w.id == w'.id) = true := by simp [hid]
      simp only [e, if_true]
      -- no other worker has this id
      have : sumBy f (xs.map (fun x => if x.id == w'.id then w' else x)) = sumBy f xs := by
        rw [sumBy_map]
        apply sumBy_congr
        intro y hy
        have : y.id ≠ w'.id := by
          intro e2
          apply hn.1
          rw [← hid, ← e2]
          exact List.mem_map.mpr ⟨y, hy, rfl⟩
        simp [this]
      rw [this]; omega
    · have hx : x.id ≠ w'.id := by
        intro e2
        apply hn.1
        rw [e2, hid]
        exact List.mem_map.mpr ⟨w, hw', rfl⟩
      have e : (x.id == w'.id) = false := by simpa using hx
      simp only [e, Bool.false_eq_true, if_false]
      have := ih hn.2 hw'
      simp only [setWorker] at this
      omega

theorem setWorker_ids (ws : List Worker) (w' : Worker) :
    (setWorker ws w').map (·.id) = ws.map (·.id) := by
  induction ws with
  | nil => rfl
  | cons x xs ih =>
    simp only [setWorker, List.map_cons] at ih ⊢
    rw [ih]
    by_cases h : x.id == w'.id
    · simp only [h, if_true]; have : x.id = w'.id := by simpa using h
      rw [this]
    · simp [h]

theorem mem_setWorker (ws : List Worker) (w' x : Worker) (h : x ∈ setWorker ws w') :
    x = w' ∨ (x ∈ ws ∧ x.id ≠ w'.id) := by
  simp only [setWorker, List.mem_map] at h
  obtain ⟨y, hy, rfl⟩ := h
  by_cases e : y.id == w'.id
  · simp [e]
  · simp only [e]
    right
    exact ⟨hy, by simpa using e⟩

theorem find_worker_mem (ws : List Worker) (id : Int) (w : Worker)
    (h : ws.find? (fun w => w.id == id) = some w) : w ∈ ws ∧ w.id = id := by
  have h1 := List.mem_of_find?_eq_some h
  have h2 := List.find?_some h
  exact ⟨h1, by simpa using h2⟩


-- ------------------------------------------------------------ server counter
theorem shutdown_counter (s : Server) : s.shutdown.1.counter = s.counter := rfl

theorem systemError_counter (s : Server) (cls : Nat) (why : String) :
    (s.systemError cls why).st.counter = s.counter := rfl

theorem sched_counter (s : Server) (ts : List Task) (asg : List Nat) :
    (s.sched ts asg).st.counter = s.counter := by
  unfold Server.sched; split <;> rfl

theorem cancelCore_counter (s : Server) (ci : Nat) : (s.cancelCore ci).st.counter = s.counter := by
  unfold Server.cancelCore
  split
  · rfl
  · split <;> rfl

theorem cancelComp_counter (s : Server) (ci : Nat) (c : Option Nat) :
    (s.cancelComp ci c).st.counter = s.counter := by
  unfold Server.cancelComp
  split
  · split
    · rfl
    · split
      · rfl
      · exact cancelCore_counter _ _
  · exact cancelCore_counter _ _

theorem cancelAll_counter (l : List Nat) (acc : HOut Server) :
    (Server.cancelAll acc l).st.counter = acc.st.counter := by
  induction l generalizing acc with
  | nil => rfl
  | cons x xs ih =>
    simp only [Server.cancelAll]
    split
    · rfl
    · rw [ih]; exact cancelComp_counter _ _ _

theorem disconnect_counter (s : Server) (j : Nat) (ord : List Nat) :
    (s.disconnect j ord).st.counter = s.counter := by
  unfold Server.disconnect
  split
  · rfl
  · dsimp only
    split
    · rfl
    · split
      · rfl
      · split
        · split
          · rw [cancelAll_counter]
          · simp only; rw [cancelAll_counter]
        · split
          · rw [cancelAll_counter]
          · simp only; rw [cancelAll_counter]

theorem result_counter (s : Server) (x : Addr) (v : Val) (b : Int) :
    (s.result x v b).st.counter = s.counter := by
  unfold Server.result
  split
  · rfl
  · dsimp only
    split
    · split
      · rfl
      · split
        · rfl
        · split
          · split
            · rfl
            · split
              · rfl
              · split <;> rfl
          · rfl
    · split
      · rfl
      · split <;> rfl

theorem fromBelow_counter (s : Server) (ei : Nat) (m : Msg) (asg : List Nat) :
    (s.fromBelow ei m asg).st.counter = s.counter := by
  cases m with
  | submit t => exact sched_counter _ _ _
  | batch ts => exact sched_counter _ _ _
  | result x v b => exact result_counter _ _ _ _
  | error comp cls =>
    simp only [Server.fromBelow]
    split
    · rfl
    · split
      · rfl
      · split <;> rfl
  | waiting n r =>
    simp only [Server.fromBelow]
    split <;> rfl
  | _ => rfl

theorem fromClient_counter (s : Server) (j : Nat) (m : Msg) (asg ord : List Nat) :
    s.counter ≤ (s.fromClient j m asg ord).st.counter
    ∧ (∀ a, 0 < hTok a (s.fromClient j m asg ord) → s.counter < (s.fromClient j m asg ord).st.counter) := by
  cases m with
  | cSubmit ci pid =>
    simp only [Server.fromClient]
    split
    · refine ⟨Nat.le_refl _, ?_⟩
      intro a h; rw [hTok_syserr] at h; omega
    · rw [sched_counter]
      exact ⟨Nat.le_succ _, fun _ _ => Nat.lt_succ_self _⟩
  | cRequest ci =>
    have ht := fromClient_tok
    simp only [Server.fromClient]
    split
    · refine ⟨Nat.le_refl _, ?_⟩
      intro a h; rw [hTok_syserr] at h; omega
    · split
      · have hc := disconnect_counter s j ord
        have h := disconnect_noTok s j ord
        refine ⟨Nat.le_of_eq hc.symm, ?_⟩
        intro a h0
        have h1 := h.1 a
        have h2 := h.2 a
        simp only [hTok, tokOut, sumBy_append, sumBy, tokMsg] at h1 h2 h0
        omega
      · split
        · refine ⟨Nat.le_refl _, ?_⟩
          intro a h; rw [hTok_syserr] at h; omega
        · split
          · refine ⟨Nat.le_refl _, ?_⟩
            intro a h; rw [hTok_syserr] at h; omega
          · split
            · refine ⟨Nat.le_refl _, ?_⟩
              intro a h; simp [hTok, tokOut, sumBy, tokMsg] at h
            · refine ⟨Nat.le_refl _, ?_⟩
              intro a h; simp [hTok, tokOut, sumBy] at h
  | cStatus ci =>
    have := fromClient_tok
    refine ⟨?_, ?_⟩
    · simp only [Server.fromClient]
      split
      · exact Nat.le_refl _
      · split
        · exact Nat.le_refl _
        · split
          · exact Nat.le_refl _
          · split <;> exact Nat.le_refl _
    · intro a h
      have := fromClient_tok a s j (.cStatus ci) asg ord
      exfalso
      simp only [Server.fromClient] at h this
      revert h
      split
      · rw [hTok_syserr]; omega
      · split
        · simp [hTok, tokOut, sumBy, tokMsg]
        · split
          · rw [hTok_syserr]; omega
          · split
            · rw [hTok_syserr]; omega
            · simp [hTok, tokOut, sumBy, tokMsg]
  | cCancel ci =>
    simp only [Server.fromClient]
    refine ⟨Nat.le_of_eq (cancelComp_counter _ _ _).symm, ?_⟩
    intro a h; rw [(cancelComp_noTok s ci (some j)).zero] at h; omega
  | cDisconnect =>
    simp only [Server.fromClient]
    refine ⟨Nat.le_of_eq (disconnect_counter _ _ _).symm, ?_⟩
    intro a h; rw [(disconnect_noTok s j ord).zero] at h; omega
  | eof =>
    simp only [Server.fromClient]
    refine ⟨Nat.le_of_eq (disconnect_counter _ _ _).symm, ?_⟩
    intro a h; rw [(disconnect_noTok s j ord).zero] at h; omega
  | submit _ => exact ⟨Nat.le_refl _, fun a h => by simp only [Server.fromClient] at h; rw [hTok_syserr] at h; omega⟩
  | batch _ => exact ⟨Nat.le_refl _, fun a h => by simp only [Server.fromClient] at h; rw [hTok_syserr] at h; omega⟩
  | result _ _ _ => exact ⟨Nat.le_refl _, fun a h => by simp only [Server.fromClient] at h; rw [hTok_syserr] at h; omega⟩
  | error _ _ => exact ⟨Nat.le_refl _, fun a h => by simp only [Server.fromClient] at h; rw [hTok_syserr] at h; omega⟩
  | sysError _ => exact ⟨Nat.le_refl _, fun a h => by simp only [Server.fromClient] at h; rw [hTok_syserr] at h; omega⟩
  | cancel _ => exact ⟨Nat.le_refl _, fun a h => by simp only [Server.fromClient] at h; rw [hTok_syserr] at h; omega⟩
  | waiting _ _ => exact ⟨Nat.le_refl _, fun a h => by simp only [Server.fromClient] at h; rw [hTok_syserr] at h; omega⟩
  | update _ => exact ⟨Nat.le_refl _, fun a h => by simp only [Server.fromClient] at h; rw [hTok_syserr] at h; omega⟩
  | shutdown => exact ⟨Nat.le_refl _, fun a h => by simp only [Server.fromClient] at h; rw [hTok_syserr] at h; omega⟩
  | sResult _ => exact ⟨Nat.le_refl _, fun a h => by simp only [Server.fromClient] at h; rw [hTok_syserr] at h; omega⟩
  | sStatus _ => exact ⟨Nat.le_refl _, fun a h => by simp only [Server.fromClient] at h; rw [hTok_syserr] at h; omega⟩
  | sCancelAck => exact ⟨Nat.le_refl _, fun a h => by simp only [Server.fromClient] at h; rw [hTok_syserr] at h; omega⟩
  | sError _ => exact ⟨Nat.le_refl _, fun a h => by simp only [Server.fromClient] at h; rw [hTok_syserr] at h; omega⟩


-- ---------------------------------------------------------------- invariant
/-- flat topology; worker ids distinct and non-negative; **every address has at most one
    token**; token addresses lie below the mailbox counter of the node that creates them -/
structure GInv (n : Net) : Prop where
  flat : n.mgrs = []
  ids : (n.workers.map (·.id)).Nodup
  pos : ∀ w ∈ n.workers, 0 ≤ w.id
  uniq : ∀ a, Tok a n ≤ 1
  freshW : ∀ w ∈ n.workers, ∀ a, a.w = w.id → 0 < Tok a n → a.m < w.counter
  freshS : ∀ a, a.w = -1 → 0 < Tok a n → a.m < n.server.counter

theorem GInv.step {n n' : Net} (h : GInv n) (hm : n'.mgrs = [])
    (hids : n'.workers.map (·.id) = n.workers.map (·.id))
    (hctrW : ∀ w' ∈ n'.workers, ∃ w ∈ n.workers, w.id = w'.id ∧ w.counter ≤ w'.counter)
    (hctrS : n.server.counter ≤ n'.server.counter)
    (δ : Addr → Nat) (htok : ∀ a, Tok a n' ≤ Tok a n + δ a) (hδ1 : ∀ a, δ a ≤ 1)
    (hδ : ∀ a, 0 < δ a → Tok a n = 0 ∧ (a.w = -1 → a.m < n'.server.counter)
      ∧ (∀ w' ∈ n'.workers, a.w = w'.id → a.m < w'.counter)) : GInv n' := by
  refine ⟨hm, by rw [hids]; exact h.ids, ?_, ?_, ?_, ?_⟩
  · intro w' hw'
    obtain ⟨w, hw, e, _⟩ := hctrW w' hw'
    rw [← e]; exact h.pos w hw
  · intro a
    have := htok a
    have := hδ1 a
    have := h.uniq a
    by_cases hd : 0 < δ a
    · have := (hδ a hd).1; omega
    · omega
  · intro w' hw' a ha hpos
    by_cases hd : 0 < δ a
    · exact (hδ a hd).2.2 w' hw' ha
    · obtain ⟨w, hw, e, hc⟩ := hctrW w' hw'
      have := htok a
      have : 0 < Tok a n := by omega
      have := h.freshW w hw a (by rw [ha, e]) this
      omega
  · intro a ha hpos
    by_cases hd : 0 < δ a
    · exact (hδ a hd).2.1 ha
    · have := htok a
      have : 0 < Tok a n := by omega
      have := h.freshS a ha this
      omega

/-- no new tokens, nodes only move forward -/
theorem GInv.of_le {n n' : Net} (h : GInv n) (hm : n'.mgrs = [])
    (hids : n'.workers.map (·.id) = n.workers.map (·.id))
    (hctrW : ∀ w' ∈ n'.workers, ∃ w ∈ n.workers, w.id = w'.id ∧ w.counter ≤ w'.counter)
    (hctrS : n.server.counter ≤ n'.server.counter)
    (htok : ∀ a, Tok a n' ≤ Tok a n) : GInv n' :=
  h.step hm hids hctrW hctrS (fun _ => 0) (fun a => by have := htok a; omega) (fun _ => Nat.zero_le _)
    (fun a ha => absurd ha (Nat.lt_irrefl 0))

theorem same_workers_ctr (ws : List Worker) : ∀ w' ∈ ws, ∃ w ∈ ws, w.id = w'.id ∧ w.counter ≤ w'.counter :=
  fun w' hw' => ⟨w', hw', rfl, Nat.le_refl _⟩

theorem tokOut_map_boss (a : Addr) (boss : NodeId) (out : List Msg) :
    tokOut a (out.map (fun m => (boss, m))) = tokMsgs a out := by
  simp only [tokOut, tokMsgs, sumBy_map]

theorem GInv.pop {n : Net} (h : GInv n) (k : NodeId × NodeId) (m : Msg) (rest : List Msg)
    (hk : chanGet n.chans k = m :: rest) : GInv { n with chans := chanSet n.chans k rest } :=
  h.of_le h.flat rfl (same_workers_ctr _) (Nat.le_refl _)
    (fun a => by have := Tok_pop a n k m rest hk; omega)

/-- worker `w` is replaced by `w'` and `out` is posted -/
theorem Tok_setWorker_post (a : Addr) (n : Net) (w w' : Worker) (src : NodeId) (o : Out)
    (hn : (n.workers.map (·.id)).Nodup) (hw : w ∈ n.workers) (hid : w'.id = w.id) :
    Tok a (({ n with workers := setWorker n.workers w' } : Net).postAll src o) + tokW a w
      ≤ Tok a n + tokW a w' + tokOut a o := by
  have h1 := Tok_postAll_le a ({ n with workers := setWorker n.workers w' } : Net) src o
  have h2 := sumBy_setWorker (tokW a) n.workers w w' hn hw hid
  simp only [Tok] at h1 ⊢
  omega


-- -------------------------------------------------------------- transitions
theorem Tok_workerStep_le (a : Addr) (n : Net) (w w' : Worker) (out : List Msg) (boss src : NodeId)
    (hn : (n.workers.map (·.id)).Nodup) (hw : w ∈ n.workers) (hid : w'.id = w.id) :
    Tok a (({ n with workers := setWorker n.workers w' } : Net).postAll src
        (out.map (fun m => (boss, m)))) + tokW a w
      ≤ Tok a n + tokW a w' + tokMsgs a out := by
  have := Tok_setWorker_post a n w w' src (out.map (fun m => (boss, m))) hn hw hid
  rw [tokOut_map_boss] at this
  exact this

theorem GInv.workerStep {n : Net} (h : GInv n) (id : Int) : GInv (n.workerStep id).net := by
  unfold Net.workerStep
  split
  · exact h
  · rename_i w hf
    obtain ⟨hw, hwid⟩ := find_worker_mem _ _ _ hf
    split
    · exact h
    · dsimp only
      have hmono := step_mono n.tbl w
      have hid' : (if (w.step n.tbl).w.mainDead then { (w.step n.tbl).w with alive := false }
          else (w.step n.tbl).w).id = w.id := by split <;> simp [hmono.id]
      refine GInv.step (δ := fun a => ind a w (w.step n.tbl).w) h ?_ ?_ ?_ ?_ ?_ ?_ ?_
      · rw [(postAll_fields _ _ _).2.2.1]; exact h.flat
      · rw [(postAll_fields _ _ _).1]; exact setWorker_ids _ _
      · intro w'' hw''
        rw [(postAll_fields _ _ _).1] at hw''
        rcases mem_setWorker _ _ _ hw'' with rfl | ⟨hm, _⟩
        · refine ⟨w, hw, hid'.symm, ?_⟩
          split <;> exact hmono.ctr
        · exact ⟨w'', hm, rfl, Nat.le_refl _⟩
      · rw [(postAll_fields _ _ _).2.1]; exact Nat.le_refl _
      · intro a
        have hst := step_tok a n.tbl w
        apply Nat.le_of_add_le_add_right (b := tokW a w)
        refine Nat.le_trans (Tok_workerStep_le a n w _ _ _ _ h.ids hw hid') ?_
        simp only [phi] at hst
        split <;> (simp only [tokW] at hst ⊢; omega)
      · intro a; simp only [ind]; split <;> omega
      · intro a ha
        simp only [ind] at ha
        split at ha
        · rename_i hc
          obtain ⟨h1, h2, h3⟩ := hc
          refine ⟨?_, ?_, ?_⟩
          · cases ht : Tok a n with
            | zero => rfl
            | succ k =>
              have := h.freshW w hw a h1 (by omega)
              omega
          · intro hneg
            have := h.pos w hw
            omega
          · intro w'' hw'' haw
            rw [(postAll_fields _ _ _).1] at hw''
            rcases mem_setWorker _ _ _ hw'' with rfl | ⟨_, hne⟩
            · split <;> exact h3
            · exfalso
              apply hne
              rw [← haw, h1, hid']
        · omega

theorem GInv.clientSend {n : Net} (h : GInv n) (j : Nat) (m : Option Msg) (dies : Bool)
    (hwf : ∀ msg, m = some msg → ∀ a, tokMsg a msg = 0) : GInv (n.clientSend j m dies).net := by
  cases m with
  | none =>
    simp only [Net.clientSend]
    split
    · exact h.of_le h.flat rfl (same_workers_ctr _) (Nat.le_refl _) (fun _ => Nat.le_refl _)
    · exact h
  | some msg =>
    have base : GInv (n.post (.client j) .server msg) := by
      refine h.of_le ?_ ?_ ?_ ?_ ?_
      · rw [(post_fields _ _ _ _).2.2.1]; exact h.flat
      · rw [(post_fields _ _ _ _).1]
      · rw [(post_fields _ _ _ _).1]; exact same_workers_ctr _
      · rw [(post_fields _ _ _ _).2.1]; exact Nat.le_refl _
      · intro a
        have := Tok_post_le a n (.client j) .server msg
        rw [hwf msg rfl a] at this
        exact this
    simp only [Net.clientSend]
    split
    · exact base.of_le base.flat rfl (same_workers_ctr _) (Nat.le_refl _) (fun _ => Nat.le_refl _)
    · exact base


def isClient : NodeId → Bool
  | .client _ => true
  | _ => false

/-- what the server's handler may emit: from below at most the tokens of the message, from a
    client at most the root of a new compilation -/
theorem handle_tok (a : Addr) (s : Server) (src : NodeId) (m : Msg) (asg ord : List Nat) :
    hTok a (s.handle src m asg ord)
      ≤ if isClient src then (if a = ⟨-1, s.counter, 0⟩ then 1 else 0) else tokMsg a m := by
  unfold Server.handle
  split
  · simp only [isClient, if_true]
    split
    · simp [hTok, tokOut, sumBy]
    · exact fromClient_tok a s _ m asg ord
  · rename_i hnc
    have : isClient src = false := by
      cases src with
      | client j => exact absurd rfl (hnc j)
      | _ => rfl
    simp only [this, Bool.false_eq_true, if_false]
    split
    · simp [hTok, tokOut, sumBy]
    · exact fromBelow_tok a s _ m asg

theorem handle_counter (s : Server) (src : NodeId) (m : Msg) (asg ord : List Nat) :
    s.counter ≤ (s.handle src m asg ord).st.counter
    ∧ (∀ a, isClient src = true → 0 < hTok a (s.handle src m asg ord) →
        s.counter < (s.handle src m asg ord).st.counter) := by
  unfold Server.handle
  split
  · split
    · exact ⟨Nat.le_refl _, fun a _ h => by simp [hTok, tokOut, sumBy] at h⟩
    · have := fromClient_counter s ‹Nat› m asg ord
      exact ⟨this.1, fun a _ h => this.2 a h⟩
  · rename_i hnc
    have hc : isClient src = false := by
      cases src with
      | client j => exact absurd rfl (hnc j)
      | _ => rfl
    split
    · exact ⟨Nat.le_refl _, fun a h _ => by rw [hc] at h; exact absurd h (by simp)⟩
    · exact ⟨Nat.le_of_eq (fromBelow_counter _ _ _ _).symm,
        fun a h _ => by rw [hc] at h; exact absurd h (by simp)⟩

theorem tokOut_flush_le (a : Addr) (s : Server) (q : Out) : tokOut a (flushServer s q) ≤ tokOut a q := by
  unfold flushServer
  split
  · simp [tokOut, sumBy]
  · exact tokOut_filter_le _ _ _

theorem Tok_setWorker (a : Addr) (n : Net) (w w' : Worker)
    (hn : (n.workers.map (·.id)).Nodup) (hw : w ∈ n.workers) (hid : w'.id = w.id) :
    Tok a ({ n with workers := setWorker n.workers w' } : Net) + tokW a w = Tok a n + tokW a w' := by
  have h2 := sumBy_setWorker (tokW a) n.workers w w' hn hw hid
  simp only [Tok]
  omega

theorem Tok_server_irrelevant (a : Addr) (n : Net) (s : Server) :
    Tok a ({ n with server := s } : Net) = Tok a n := rfl

theorem GInv.deliver {n : Net} (h : GInv n) (src dst : NodeId) (asg ord : List Nat) (died : Bool) :
    GInv (n.deliver src dst asg ord died).net := by
  cases hk : chanGet n.chans (src, dst) with
  | nil => simp only [Net.deliver, hk]; exact h
  | cons m rest =>
    have h0 := h.pop (src, dst) m rest hk
    have hpop := fun a => Tok_pop a n (src, dst) m rest hk
    cases dst with
    | wrk id =>
      simp only [Net.deliver, hk]
      split
      · exact h0
      · rename_i w hf
        obtain ⟨hw, hwid⟩ := find_worker_mem _ _ _ hf
        split
        · exact h0
        · have hmono := recv_mono w m
          refine h.of_le h.flat (setWorker_ids _ _) ?_ (Nat.le_refl _) ?_
          · intro w'' hw''
            rcases mem_setWorker _ _ _ hw'' with rfl | ⟨hm, _⟩
            · exact ⟨w, hw, hmono.id.symm, hmono.ctr⟩
            · exact ⟨w'', hm, rfl, Nat.le_refl _⟩
          · intro a
            have h1 := Tok_setWorker a { n with chans := chanSet n.chans (src, .wrk id) rest } w (w.recv m)
              h0.ids hw hmono.id
            have h2 := tokW_recv_le a w m
            have h3 := hpop a
            have e : ({ ({ n with chans := chanSet n.chans (src, .wrk id) rest } : Net) with
                workers := setWorker ({ n with chans := chanSet n.chans (src, .wrk id) rest } : Net).workers
                  (w.recv m) } : Net)
                = { n with chans := chanSet n.chans (src, .wrk id) rest,
                           workers := setWorker n.workers (w.recv m) } := rfl
            rw [e] at h1
            dsimp only
            omega
    | client j =>
      simp only [Net.deliver, hk]
      split
      · exact h0
      · split
        · refine h0.of_le ?_ ?_ ?_ ?_ ?_
          · rw [(post_fields _ _ _ _).2.2.1]; exact h0.flat
          · rw [(post_fields _ _ _ _).1]
          · rw [(post_fields _ _ _ _).1]; exact same_workers_ctr _
          · rw [(post_fields _ _ _ _).2.1]; exact Nat.le_refl _
          · intro a
            have := Tok_post_le a ({ ({ n with chans := chanSet n.chans (src, .client j) rest } : Net) with
              deadClients := n.deadClients ++ [j] } : Net) (.client j) .server .eof
            simp only [tokMsg, Nat.add_zero] at this
            exact Nat.le_trans this (Nat.le_of_eq rfl)
        · exact h0
    | mgr i =>
      have : n.mgrs[i]? = none := by rw [h.flat]; rfl
      simp only [Net.deliver, hk, this]
      exact h0
    | server =>
      simp only [Net.deliver, hk]
      split
      · exact h0
      · have htok := fun a => handle_tok a n.server src m asg ord
        have hctr := handle_counter n.server src m asg ord
        refine GInv.step (n := n)
          (δ := fun a => if isClient src then hTok a (n.server.handle src m asg ord) else 0) h ?_ ?_ ?_ ?_ ?_ ?_ ?_
        · rw [(postAll_fields _ _ _).2.2.1]; exact h.flat
        · rw [(postAll_fields _ _ _).1]
        · rw [(postAll_fields _ _ _).1]; exact same_workers_ctr _
        · rw [(postAll_fields _ _ _).2.1]; exact hctr.1
        · intro a
          have final : Tok a (({ ({ n with chans := chanSet n.chans (src, .server) rest } : Net) with server := (n.server.handle src m asg ord).st } : Net).postAll .server ((n.server.handle src m asg ord).direct ++ flushServer (n.server.handle src m asg ord).st (n.server.handle src m asg ord).queued))
              ≤ Tok a n + (if isClient src then hTok a (n.server.handle src m asg ord) else 0) := by
            have h1 := Tok_postAll_le a ({ ({ n with chans := chanSet n.chans (src, .server) rest } : Net) with server := (n.server.handle src m asg ord).st } : Net) .server ((n.server.handle src m asg ord).direct ++ flushServer (n.server.handle src m asg ord).st (n.server.handle src m asg ord).queued)
            have e : Tok a ({ ({ n with chans := chanSet n.chans (src, .server) rest } : Net) with server := (n.server.handle src m asg ord).st } : Net) = Tok a ({ n with chans := chanSet n.chans (src, .server) rest } : Net) := rfl
            have h2 := tokOut_flush_le a (n.server.handle src m asg ord).st (n.server.handle src m asg ord).queued
            have h3 := hpop a
            have h4 := htok a
            rw [tokOut_append, e] at h1
            have hh : hTok a (n.server.handle src m asg ord)
                = tokOut a (n.server.handle src m asg ord).direct
                  + tokOut a (n.server.handle src m asg ord).queued := rfl
            by_cases hc : isClient src = true
            · simp only [hc, if_true] at h4 ⊢
              dsimp only at h1 ⊢
              omega
            · have hc' : isClient src = false := by simpa using hc
              simp only [hc', Bool.false_eq_true, if_false, Nat.add_zero] at h4 ⊢
              dsimp only at h1 ⊢
              omega
          exact final
        · intro a
          have h4 := htok a
          split
          · rename_i hc
            simp only [hc, if_true] at h4
            refine Nat.le_trans h4 ?_
            split <;> omega
          · exact Nat.zero_le _
        · intro a ha
          split at ha
          · rename_i hc
            have h4 := htok a
            simp only [hc, if_true] at h4
            have ha' : a = ⟨-1, n.server.counter, 0⟩ := by
              by_cases e : a = ⟨-1, n.server.counter, 0⟩
              · exact e
              · simp only [e, if_false] at h4; omega
            refine ⟨?_, ?_, ?_⟩
            · cases ht : Tok a n with
              | zero => rfl
              | succ k =>
                have := h.freshS a (by rw [ha']) (by omega)
                rw [ha'] at this
                simp at this
            · intro _
              rw [(postAll_fields _ _ _).2.1]
              have := hctr.2 a hc ha
              rw [ha']
              exact this
            · intro w' hw' haw
              rw [(postAll_fields _ _ _).1] at hw'
              have := h.pos w' hw'
              rw [ha'] at haw
              simp at haw
              omega
          · omega

/-- well-formed transition: clients only send client messages -/
def Tr.wf : Tr → Prop
  | .client _ (some m) _ => ∀ a, tokMsg a m = 0
  | _ => True

/-- every message in a channel that starts at a client carries no token -/
def ClientChansClean (n : Net) : Prop :=
  ∀ c ∈ n.chans, isClient c.1.1 = true → ∀ m ∈ c.2, ∀ a, tokMsg a m = 0


-- ------------------------------------------------------------ reachability
theorem Tok_init (a : Addr) (tbl : Table) (att : Bool) (nw nc : Nat) :
    Tok a (Net.initFlat tbl att nw nc) = 0 := by
  simp only [Tok, Net.initFlat, tokChans, sumBy, Nat.zero_add]
  apply sumBy_zero
  intro w hw
  simp only [mkWorkers, List.mem_map] at hw
  obtain ⟨i, _, rfl⟩ := hw
  simp [tokW, cntA, sumBy]

theorem GInv.init (tbl : Table) (att : Bool) (nw nc : Nat) : GInv (Net.initFlat tbl att nw nc) := by
  refine ⟨rfl, ?_, ?_, ?_, ?_, ?_⟩
  · simp only [Net.initFlat, mkWorkers, List.map_map]
    have : (List.range nw).Pairwise (fun x1 x2 => x1 < x2) := List.pairwise_lt_range
    have h2 := List.Pairwise.map (S := fun (x y : Int) => x ≠ y)
      (fun (i : Nat) => (({ id := (i : Int) } : Worker).id)) (fun a b h => by simp; omega) this
    simpa [List.Nodup, Function.comp_def] using h2
  · intro w hw
    simp only [Net.initFlat, mkWorkers, List.mem_map] at hw
    obtain ⟨i, hi, rfl⟩ := hw
    obtain ⟨k, _, rfl⟩ := hi
    simp
  · intro a; rw [Tok_init]; exact Nat.zero_le _
  · intro w _ a _ h; rw [Tok_init] at h; omega
  · intro a _ h; rw [Tok_init] at h; omega

theorem GInv.apply {n : Net} (h : GInv n) (t : Tr) (hwf : t.wf) : GInv (n.apply t).net := by
  cases t with
  | deliver s d asg ord died => exact h.deliver s d asg ord died
  | step id => exact h.workerStep id
  | client j m dies =>
    apply h.clientSend j m dies
    intro msg hm a
    subst hm
    exact hwf a

/-- in every reachable state of the flat network every task address has at most one token -/
theorem GInv.exec {n : Net} (h : GInv n) (trs : List Tr) (hwf : ∀ t ∈ trs, t.wf) : GInv (n.exec trs) := by
  induction trs generalizing n with
  | nil => exact h
  | cons t ts ih =>
    simp only [Net.exec, List.foldl_cons]
    exact ih (h.apply t (hwf t List.mem_cons_self)) (fun t' ht' => hwf t' (List.mem_cons_of_mem _ ht'))

end BqVerif.Runtime
