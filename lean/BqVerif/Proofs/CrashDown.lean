import BqVerif.Proofs.CrashRes
/-
C14 - downwards: a SHUTDOWN that a stopping node sent to an employee stays pending in the
employee's channel (and the employee keeps listening on that channel) until the employee
is gone.
-/
namespace BqVerif.Crash

/-- the fields `JInv` reads -/
structure JView where
  sent : Nat → Bool
  inbox : Nat → List Msg
  upOpen : Nat → Bool
  alive : Nat → Bool
  running : Nat → Bool

def State.jview (s : State) : JView := ⟨s.sentShutdown, s.inbox, s.upOpen, s.alive, s.running⟩

def JView.gone (v : JView) (i : Nat) : Bool := !(v.alive i) || !(v.running i)

def JInvV (t : Topo) (v : JView) : Prop :=
  ∀ e, v.sent e = true →
    v.gone e = true ∨ (Msg.shutdown ∈ v.inbox e ∧ (t.kind e = .worker ∨ v.upOpen e = true))

def JInv (t : Topo) (s : State) : Prop := JInvV t s.jview

theorem jinv_init (t : Topo) : JInv t init := by
  intro e h; simp [State.jview, init] at h

theorem JInv.congr {t : Topo} {s s' : State} (h : JInv t s) (hv : s'.jview = s.jview) : JInv t s' := by
  unfold JInv; rw [hv]; exact h

/-- nothing new was sent, nobody came back, pending SHUTDOWNs and open upstreams of live
nodes are kept -/
theorem JInv.simple {t : Topo} {s s' : State} (h : JInv t s)
    (hs : ∀ e, s'.sentShutdown e = true → s.sentShutdown e = true)
    (hg : ∀ e, s.gone e = true → s'.gone e = true)
    (hi : ∀ e, s'.gone e = false → Msg.shutdown ∈ s.inbox e → Msg.shutdown ∈ s'.inbox e)
    (hu : ∀ e, s'.gone e = false → s.upOpen e = true → s'.upOpen e = true) : JInv t s' := by
  intro e he
  cases hge : s'.gone e with
  | true => exact Or.inl hge
  | false =>
    right
    rcases h e (hs e he) with x | ⟨x, y⟩
    · have := hg e x; rw [hge] at this; cases this
    · refine ⟨hi e hge x, ?_⟩
      rcases y with y | y
      · exact Or.inl y
      · exact Or.inr (hu e hge y)

theorem gone_jview (s : State) (i : Nat) : s.jview.gone i = s.gone i := rfl

/-- the main thread of `p` shuts down -/
theorem JInv.shutNode {t : Topo} (wf : t.WF) {s : State} (h : JInv t s) {p : Nat}
    (hup : ∀ e, t.isChild p e = true → s.cleared p = false → s.downOpen e = true →
      s.gone e = true ∨ t.kind e = .worker ∨ s.upOpen e = true) :
    JInv t (shutdownNode t s p) := by
  intro e he
  have hgm : ∀ i, s.gone i = true → (shutdownNode t s p).gone i = true := by
    intro i x
    unfold State.gone at *
    simp only [shutdownNode_alive, shutdownNode_running, upd_apply]
    split <;> simp_all
  show (shutdownNode t s p).gone e = true ∨ _
  have hin : ∀ x, x ∈ s.inbox e → x ∈ (shutdownNode t s p).inbox e := by
    intro x hx
    show x ∈ (if t.isChild p e && !(s.cleared p) && s.downOpen e then s.inbox e ++ [Msg.shutdown] else s.inbox e)
    split
    · exact List.mem_append_left _ hx
    · exact hx
  have hupo : e ≠ p → (shutdownNode t s p).upOpen e = s.upOpen e := by
    intro hep
    show (if p != 0 then upd s.upOpen p false else s.upOpen) e = s.upOpen e
    split
    · simp [upd_apply, hep]
    · rfl
  by_cases hep : e = p
  · left
    subst hep
    simp [State.gone]
  have hsent : (shutdownNode t s p).sentShutdown e =
      (s.sentShutdown e || (t.isChild p e && !(s.cleared p) && s.downOpen e)) := rfl
  simp only [State.jview] at he
  rw [hsent] at he
  cases hold : s.sentShutdown e with
  | true =>
    rcases h e hold with x | ⟨x, y⟩
    · exact Or.inl (hgm e x)
    · right
      refine ⟨hin _ x, ?_⟩
      rcases y with y | y
      · exact Or.inl y
      · right; show (shutdownNode t s p).upOpen e = true; rw [hupo hep]; exact y
  | false =>
    simp only [hold, Bool.false_or, Bool.and_eq_true, Bool.not_eq_true'] at he
    obtain ⟨⟨hc, hcl⟩, hd⟩ := he
    rcases hup e hc hcl hd with x | x | x
    · exact Or.inl (hgm e x)
    · right
      refine ⟨?_, Or.inl x⟩
      show Msg.shutdown ∈ (if t.isChild p e && !(s.cleared p) && s.downOpen e then s.inbox e ++ [Msg.shutdown] else s.inbox e)
      simp [hc, hcl, hd]
    · right
      refine ⟨?_, Or.inr ?_⟩
      · show Msg.shutdown ∈ (if t.isChild p e && !(s.cleared p) && s.downOpen e then s.inbox e ++ [Msg.shutdown] else s.inbox e)
        simp [hc, hcl, hd]
      · show (shutdownNode t s p).upOpen e = true; rw [hupo hep]; exact x

theorem jview_systemError (t : Topo) (s : State) (p : Nat) :
    (systemError t s p).jview = (shutdownNode t s p).jview := by
  unfold systemError
  split
  · rfl
  · split <;> rfl

/-- what `Inv` gives about the employees of a node that is about to stop -/
theorem hup_of_inv {t : Topo} {s : State} (hi : Inv t s) {p : Nat} :
    ∀ e, t.isChild p e = true → s.cleared p = false → s.downOpen e = true →
      s.gone e = true ∨ t.kind e = .worker ∨ s.upOpen e = true := by
  intro e _ _ _
  cases hge : s.gone e with
  | true => exact Or.inl rfl
  | false =>
    right; right
    unfold State.gone at hge
    simp only [Bool.or_eq_false_iff, Bool.not_eq_false'] at hge
    exact hi.upo e hge.2

theorem JInv.shut {t : Topo} (wf : t.WF) {s : State} (h : JInv t s) (hi : Inv t s) {p : Nat}
    (_hl : s.loopOk t p = true) : JInv t (shutdownNode t s p) :=
  h.shutNode wf (hup_of_inv hi)

theorem JInv.sysErr {t : Topo} (wf : t.WF) {s : State} (h : JInv t s) (hi : Inv t s) {p : Nat}
    (hl : s.loopOk t p = true) : JInv t (systemError t s p) :=
  (h.shut wf hi hl).congr (jview_systemError t s p)

/-- shutting down after closing one employee connection first (the EOF branch) -/
theorem JInv.closeShut {t : Topo} (wf : t.WF) {s : State} (h : JInv t s) (hi : Inv t s) {p e : Nat}
    (hl : s.loopOk t p = true) :
    JInv t (shutdownNode t { s with downOpen := upd s.downOpen e false } p) := by
  refine JInv.shutNode (s := { s with downOpen := upd s.downOpen e false }) wf (h.congr rfl) ?_
  intro e' hc hcl hd
  have hd' : s.downOpen e' = true := by
    simp only [upd_apply] at hd
    split at hd
    · cases hd
    · exact hd
  exact hup_of_inv hi e' hc hcl hd'

theorem JInv.clientGone {t : Topo} (wf : t.WF) {s : State} (h : JInv t s) (hi : Inv t s)
    (hl : s.loopOk t 0 = true) (c : Nat) (em : List (Dest × Msg)) : JInv t (clientGone t s c em) := by
  unfold Crash.clientGone
  split
  · exact h.shut wf hi hl
  · exact h.congr rfl

theorem JInv.handleRequest {t : Topo} (wf : t.WF) {s : State} (h : JInv t s) (hi : Inv t s)
    (hl : s.loopOk t 0 = true) (c k : Nat) (em : List (Dest × Msg)) :
    JInv t (handleRequest t s c k em) := by
  have hbad : JInv t (Crash.clientGone t { s with toClient := upd s.toClient c (s.toClient c ++ [.error]) } c em) :=
    JInv.clientGone (s := { s with toClient := upd s.toClient c (s.toClient c ++ [.error]) }) wf
      (h.congr rfl) (hi.congr rfl) hl c em
  unfold Crash.handleRequest
  simp only
  split
  · exact hbad
  · split
    · split
      · split
        · exact h.congr rfl
        · exact h.congr rfl
      · exact hbad
    · exact hbad

theorem jview_handleResult (s : State) (m v : Nat) : (handleResult s m v).jview = s.jview := by
  unfold handleResult; split
  · rfl
  · split <;> rfl

/-- a node dies: `alive := false` -/
theorem JInv.kill {t : Topo} {s : State} (h : JInv t s) (w : Nat) :
    JInv t { s with alive := upd s.alive w false } := by
  refine h.simple (fun _ x => x) (fun e x => ?_) (fun _ _ x => x) (fun _ _ x => x)
  unfold State.gone at *
  simp only [upd_apply]
  split <;> simp_all

/-- every transition keeps `JInv` (given the liveness invariant) -/
theorem step_jinv {t : Topo} (wf : t.WF) {s s' : State} {l : Label} (hj : JInv t s) (hi : Inv t s)
    (h : step t s l = some s') : JInv t s' := by
  cases l with
  | crash n tr =>
    simp only [step, crash] at h
    split at h
    · cases h
    split at h <;> cases h
    · exact (hj.kill n).congr rfl
    · exact hj.kill n
  | recvEmp p e em f =>
    simp only [step] at h
    unfold recvEmp at h
    split at h
    · cases h
    rename_i hg
    simp only [Bool.not_eq_true', Bool.not_eq_false, Bool.and_eq_true] at hg
    obtain ⟨⟨⟨hloop, _⟩, _⟩, _⟩ := hg
    split at h
    · split at h
      · cases h
      split at h
      · cases h; exact hj.sysErr wf hi hloop
      split at h
      · cases h; exact (hj.closeShut wf hi hloop).congr rfl
      split at h
      · cases h; exact hj.shut wf hi hloop
      · cases h; exact hj.closeShut wf hi hloop
    · rename_i m rest hout
      have hj0 : JInv t { s with outbox := upd s.outbox e rest } := hj.congr rfl
      have hi0 : Inv t { s with outbox := upd s.outbox e rest } := hi.congr rfl
      have hl0 : ({ s with outbox := upd s.outbox e rest } : State).loopOk t p = true := hloop
      simp only at h
      split at h
      · split at h <;> cases h
        · exact hj0.shut wf hi0 hl0
        · exact hj0.congr rfl
      · cases h; exact hj0.sysErr wf hi0 hl0
      · split at h <;> cases h
        · exact (hj0.sysErr wf hi0 hl0).congr rfl
        · exact hj0.congr rfl
      · split at h <;> cases h
        · exact hj0.congr (jview_handleResult _ _ _)
        · exact hj0.congr rfl
      · split at h <;> cases h
        · exact hj0.sysErr wf hi0 hl0
        · exact hj0.congr rfl
      · split at h <;> cases h
        · exact hj0.sysErr wf hi0 hl0
        · exact hj0.congr rfl
  | recvUp n em f =>
    simp only [step] at h
    unfold recvUp at h
    split at h
    · cases h
    rename_i hg
    simp only [Bool.not_eq_true', Bool.not_eq_false, Bool.and_eq_true] at hg
    obtain ⟨⟨⟨hloop, _⟩, _⟩, _⟩ := hg
    have hgn := gone_false_of_loopOk hloop
    split at h
    · rename_i hin
      split at h
      · cases h
      split at h
      · cases h; exact hj.sysErr wf hi hloop
      · cases h
        -- EOF on upstream: nothing can be pending for `n`; it closes upstream and stops
        have hj0 : JInv t { s with upOpen := upd s.upOpen n false } := by
          intro e he
          by_cases hen : e = n
          · subst hen
            rcases hj e he with x | ⟨x, _⟩
            · exact Or.inl x
            · have : Msg.shutdown ∈ s.inbox e := x
              rw [hin] at this; cases this
          · rcases hj e he with x | ⟨x, y⟩
            · exact Or.inl x
            · right
              refine ⟨x, ?_⟩
              rcases y with y | y
              · exact Or.inl y
              · right
                show (upd s.upOpen n false) e = true
                simp only [upd_apply, hen, if_false]; exact y
        refine JInv.shutNode (s := { s with upOpen := upd s.upOpen n false }) wf hj0 ?_
        intro e hc hcl hd
        rcases hup_of_inv hi e hc hcl hd with x | x | x
        · exact Or.inl x
        · exact Or.inr (Or.inl x)
        · by_cases hen : e = n
          · subst hen
            exact absurd (child_lt wf hc) (Nat.lt_irrefl _)
          · right; right
            show (upd s.upOpen n false) e = true
            simp only [upd_apply, hen, if_false]; exact x
    · rename_i m rest hin
      -- consuming the head of the inbox: a pending SHUTDOWN behind it stays pending
      have pop : ∀ s1 : State, s1.jview = ({ s with inbox := upd s.inbox n rest } : State).jview →
          (Msg.shutdown ∈ s.inbox n → Msg.shutdown ∈ rest) → JInv t s1 := by
        intro s1 hv hm
        have hs1 : s1.sentShutdown = s.sentShutdown := congrArg JView.sent hv
        have hin1 : s1.inbox = upd s.inbox n rest := congrArg JView.inbox hv
        have hu1 : s1.upOpen = s.upOpen := congrArg JView.upOpen hv
        have ha1 : s1.alive = s.alive := congrArg JView.alive hv
        have hr1 : s1.running = s.running := congrArg JView.running hv
        refine hj.simple (fun e x => by rw [← hs1]; exact x)
          (fun e x => by unfold State.gone at *; rw [ha1, hr1]; exact x) (fun e _ x => ?_)
          (fun e _ x => by rw [hu1]; exact x)
        rw [hin1]
        simp only [upd_apply]
        split
        · rename_i hen; subst hen; exact hm x
        · exact x
      have hi0 : Inv t { s with inbox := upd s.inbox n rest } := hi.congr rfl
      have hl0 : ({ s with inbox := upd s.inbox n rest } : State).loopOk t n = true := hloop
      simp only at h
      split at h
      · cases h
        -- SHUTDOWN from above: handled, `n` is gone
        have hsd : JInv t (shutdownNode t s n) := hj.shut wf hi hloop
        intro e he
        by_cases hen : e = n
        · subst hen; left; simp [State.jview, JView.gone]
        · rcases hsd e he with x | ⟨x, y⟩
          · exact Or.inl x
          · right
            refine ⟨?_, y⟩
            have hsame : (shutdownNode t { s with inbox := upd s.inbox n rest } n).inbox e =
                (shutdownNode t s n).inbox e := by
              show (if t.isChild n e && !(s.cleared n) && s.downOpen e then (upd s.inbox n rest) e ++ [Msg.shutdown]
                else (upd s.inbox n rest) e) =
                (if t.isChild n e && !(s.cleared n) && s.downOpen e then s.inbox e ++ [Msg.shutdown] else s.inbox e)
              simp [upd_apply, hen]
            show Msg.shutdown ∈ (shutdownNode t { s with inbox := upd s.inbox n rest } n).inbox e
            rw [hsame]; exact x
      · cases h
        refine (pop _ rfl (fun x => ?_)).sysErr wf hi0 hl0
        rw [hin] at x
        rcases List.mem_cons.mp x with y | y
        · cases y
        · exact y
      · rename_i hns hnb
        have hmem : Msg.shutdown ∈ s.inbox n → Msg.shutdown ∈ rest := by
          intro x
          rw [hin] at x
          rcases List.mem_cons.mp x with y | y
          · exact absurd y.symm (fun z => hns z)
          · exact y
        split at h <;> cases h
        · exact (pop _ rfl hmem).sysErr wf hi0 hl0
        · exact (pop _ rfl hmem).congr rfl
  | recvClient c em f =>
    simp only [step] at h
    unfold recvClient at h
    split at h
    · cases h
    rename_i hg
    simp only [Bool.not_eq_true', Bool.not_eq_false, Bool.and_eq_true] at hg
    obtain ⟨⟨hloop, _⟩, _⟩ := hg
    split at h
    · split at h <;> cases h
      exact JInv.clientGone wf hj hi hloop c em
    · rename_i m rest hin
      have hj0 : JInv t { s with toServer := upd s.toServer c rest } := hj.congr rfl
      have hi0 : Inv t { s with toServer := upd s.toServer c rest } := hi.congr rfl
      have hl0 : ({ s with toServer := upd s.toServer c rest } : State).loopOk t 0 = true := hloop
      simp only at h
      split at h
      · cases h; exact JInv.clientGone wf hj0 hi0 hl0 c em
      · cases h; exact hj0.congr rfl
      · cases h; exact JInv.handleRequest wf hj0 hi0 hl0 c _ em
      · split at h <;> cases h
        · exact hj0.sysErr wf hi0 hl0
        · exact hj0.congr rfl
      · cases h; exact hj0.sysErr wf hi0 hl0
  | flush n =>
    simp only [step] at h
    unfold flush at h
    split at h
    · cases h
    split at h
    · cases h
    simp only at h
    split at h
    · split at h
      · cases h
      split at h <;> cases h <;> exact hj.congr rfl
    · rename_i e
      split at h
      · cases h
      split at h <;> cases h
      · refine hj.simple (fun _ x => x) (fun _ x => x) (fun e' _ x => ?_) (fun _ _ x => x)
        simp only [upd_apply]
        split
        · rename_i hee; subst hee; exact List.mem_append_left _ x
        · exact x
      · exact hj.congr rfl
    · split at h
      · cases h
      split at h <;> cases h <;> exact hj.congr rfl
  | flushDrop n =>
    simp only [step] at h
    unfold flushDrop at h
    split at h
    · cases h
    split at h
    · cases h
    split at h <;> cases h
    exact hj.congr rfl
  | wsend w m =>
    simp only [step] at h
    unfold wsend at h
    split at h
    · cases h
    split at h <;> cases h
    · exact hj.congr rfl
    · exact hj.congr rfl
    · exact (hj.kill w).congr rfl
  | wrecv w =>
    simp only [step] at h
    unfold wrecv at h
    split at h
    · cases h
    split at h
    · split at h <;> cases h
      exact hj.kill w
    · rename_i m rest hin
      simp only at h
      have popk : JInv t { s with inbox := upd s.inbox w rest, alive := upd s.alive w false } := by
        refine hj.simple (fun _ x => x) (fun e x => ?_) (fun e hge x => ?_) (fun _ _ x => x)
        · unfold State.gone at *
          simp only [upd_apply]
          split <;> simp_all
        · simp only [upd_apply]
          split
          · rename_i hew; subst hew
            exfalso
            unfold State.gone at hge
            simp [upd_apply] at hge
          · exact x
      split at h <;> cases h
      · exact popk
      · exact popk
      · rename_i hns hnb
        refine hj.simple (fun _ x => x) (fun _ x => x) (fun e _ x => ?_) (fun _ _ x => x)
        simp only [upd_apply]
        split
        · rename_i hew; subst hew
          rw [hin] at x
          rcases List.mem_cons.mp x with y | y
          · exact absurd y.symm (fun z => hns z)
          · exact y
        · exact x
  | ccall c r =>
    simp only [step] at h
    unfold ccall at h
    split at h
    · cases h
    split at h
    · cases h; exact hj.congr rfl
    split at h <;> cases h <;> exact hj.congr rfl
  | cwake c =>
    simp only [step] at h
    unfold cwake at h
    split at h
    · cases h
    split at h
    · cases h
    split at h <;> cases h <;> exact hj.congr rfl

theorem run_jinv {t : Topo} (wf : t.WF) : ∀ (ls : List Label) (s sf : State), JInv t s → Inv t s →
    run t s ls = some sf → JInv t sf := by
  intro ls
  induction ls with
  | nil => intro s sf hj _ h; simp only [run, Option.some.injEq] at h; subst h; exact hj
  | cons l ls ih =>
    intro s sf hj hi h
    simp only [run] at h
    cases hs : step t s l with
    | none => simp [hs] at h
    | some s1 => simp only [hs] at h; exact ih s1 sf (step_jinv wf hj hi hs) (step_inv wf hi hs) h

/-- an employee with a pending SHUTDOWN can take its next message -/
theorem reader_enabled {t : Topo} {s : State} {e : Nat} (hen : e < t.n) (he0 : e ≠ 0)
    (hg : s.gone e = false) (hm : Msg.shutdown ∈ s.inbox e)
    (hk : t.kind e = .worker ∨ s.upOpen e = true) :
    (t.kind e = .worker → ∃ s', step t s (.wrecv e) = some s') ∧
    (t.kind e ≠ .worker → ∃ s', step t s (.recvUp e [] false) = some s') := by
  unfold State.gone at hg
  simp only [Bool.or_eq_false_iff, Bool.not_eq_false'] at hg
  cases hin : s.inbox e with
  | nil => rw [hin] at hm; cases hm
  | cons m rest =>
    refine ⟨fun hw => ?_, fun hw => ?_⟩
    · simp only [step]
      unfold wrecv
      have : isWorker t s e = true := by simp [isWorker, hen, hw, hg.1]
      simp only [this, Bool.not_true, Bool.false_eq_true, if_false, hin]
      split <;> exact ⟨_, rfl⟩
    · simp only [step]
      unfold recvUp
      have hup : s.upOpen e = true := by
        rcases hk with x | x
        · exact absurd x hw
        · exact x
      have hl : s.loopOk t e = true := by
        simp [State.loopOk, hen, hw, hg.1, hg.2]
      have hguard : (!(s.loopOk t e && e != 0 && s.upOpen e && okEmits [])) = false := by
        simp [hl, he0, hup, okEmits]
      rw [if_neg (by simp [hguard])]
      simp only [hin]
      split
      · exact ⟨_, rfl⟩
      · exact ⟨_, rfl⟩
      · split <;> exact ⟨_, rfl⟩

end BqVerif.Crash
