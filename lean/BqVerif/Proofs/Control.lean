import BqVerif.Model.Control
/-!
# The control interpreter: fuel is immaterial, big-step laws

`Runs env t w s r` : the pass tree `t`, started in world `w` and state `s`, terminates with result
`r` (for some — hence every larger — fuel).  The lemmas `runs_*` are the textbook big-step rules,
as equivalences.
-/
namespace BqVerif.Control
open BqVerif.Circ

/-- `f ≤ g`: whenever `f` gives an answer, `g` gives the same -/
def Run.le (f g : Run) : Prop := ∀ t w s r, f t w s = some r → g t w s = some r

theorem andThen_mono {k k' : World → St → Option Res}
    (h : ∀ w s r, k w s = some r → k' w s = some r) (r x : Res)
    (hx : r.andThen k = some x) : r.andThen k' = some x := by
  unfold Res.andThen at *
  cases ho : r.out with
  | raised e => simp only [ho] at hx ⊢; exact hx
  | ok =>
    simp only [ho] at hx ⊢
    cases hk : k r.w r.st with
    | none => simp [hk] at hx
    | some r2 => rw [h _ _ _ hk]; simpa [hk] using hx

theorem seqM_mono {f g : Run} (h : Run.le f g) :
    ∀ ts w s r, seqM f ts w s = some r → seqM g ts w s = some r := by
  intro ts
  induction ts with
  | nil => intro w s r hr; simpa [seqM] using hr
  | cons t ts ih =>
    intro w s r hr
    simp only [seqM] at hr ⊢
    cases hf : f t w s with
    | none => simp [hf] at hr
    | some r1 =>
      rw [h _ _ _ _ hf]
      simp only [hf] at hr
      exact andThen_mono (fun w s r => ih w s r) r1 r hr

theorem subDoWork_mono {f g : Run} (h : Run.le f g) (t : Tree) (w : World) (s : St) (r : Res)
    (hr : subDoWork f t w s = some r) : subDoWork g t w s = some r := by
  unfold subDoWork at *
  cases hf : f t { w with script := [] } s with
  | none => simp [hf] at hr
  | some r1 => rw [h _ _ _ _ hf]; simpa [hf] using hr

theorem mapM'_mono {α : Type} {F G : World → α → Option Res}
    (h : ∀ w x r, F w x = some r → G w x = some r) :
    ∀ (xs : List α) w out, mapM' F w xs = some out → mapM' G w xs = some out := by
  intro xs
  induction xs with
  | nil => intro w out ho; simpa [mapM'] using ho
  | cons x xs ih =>
    intro w out ho
    simp only [mapM'] at ho ⊢
    cases hF : F w x with
    | none => simp [hF] at ho
    | some r =>
      simp only [hF] at ho
      simp only [h _ _ _ hF]
      cases hm : mapM' F r.w xs with
      | none => simp [hm] at ho
      | some p => rw [ih _ _ hm]; simpa [hm] using ho

theorem execStep_mono (env : Env) {f g : Run} (h : Run.le f g) : Run.le (execStep env f) (execStep env g) := by
  intro t w s r hr
  cases t with
  | leaf i => simpa [execStep] using hr
  | seq ts => exact seqM_mono h ts w s r hr
  | ite p t e =>
    simp only [execStep, iteM] at hr ⊢
    cases hp : evalPred p w s with
    | error err => simpa [hp] using hr
    | ok x =>
      obtain ⟨b, w', s'⟩ := x
      simp only [hp] at hr ⊢
      by_cases hb : b
      · simp only [hb, if_true] at hr ⊢; exact h _ _ _ _ hr
      · simp only [hb] at hr ⊢
        cases e with
        | none => simpa using hr
        | some e => exact h _ _ _ _ (by simpa using hr)
  | «while» p b =>
    simp only [execStep, whileM] at hr ⊢
    cases hp : evalPred p w s with
    | error err => simpa [hp] using hr
    | ok x =>
      obtain ⟨c, w', s'⟩ := x
      simp only [hp] at hr ⊢
      by_cases hc : c
      · simp only [hc, Bool.not_true] at hr ⊢
        cases hf : f b w' s' with
        | none => simp [hf] at hr
        | some r1 =>
          rw [h _ _ _ _ hf]
          simp only [hf] at hr
          exact andThen_mono (fun w s r => h _ w s r) r1 r (by simpa using hr)
      · simpa [hc] using hr
  | doWhile p b =>
    simp only [execStep, doWhileM] at hr ⊢
    cases hf : f b w s with
    | none => simp [hf] at hr
    | some r1 =>
      rw [h _ _ _ _ hf]
      simp only [hf] at hr
      exact andThen_mono (fun w s r => h _ w s r) r1 r hr
  | dtd c body =>
    simp only [execStep, dtdM] at hr ⊢
    cases hf : f body w s with
    | none => simp [hf] at hr
    | some r1 => rw [h _ _ _ _ hf]; simpa [hf] using hr
  | par ws lt pf =>
    simp only [execStep, parM] at hr ⊢
    cases ha : arrivedOf pf ws.length w with
    | none => simpa [ha] using hr
    | some x =>
      obtain ⟨idxs, w0⟩ := x
      simp only [ha] at hr ⊢
      cases hm : mapM' (fun w (j : Tree × Nat) => subDoWork f j.1 w s) w0
          (List.filter (fun j => idxs.contains j.2) ws.zipIdx) with
      | none => rw [hm] at hr; cases hr
      | some out =>
        rw [mapM'_mono (G := fun w (j : Tree × Nat) => subDoWork g j.1 w s)
          (fun w x r hx => subDoWork_mono h _ _ _ _ hx) _ _ _ hm]
        rw [hm] at hr; exact hr
  | forEach cfg body =>
    simp only [execStep, forEachM] at hr ⊢
    by_cases hu : feUnknown env cfg
    · simpa [hu] using hr
    · simp only [hu] at hr ⊢
      by_cases he : (feBlocks env w.blocks cfg (feRoom s).circ).isEmpty
      · simpa [he] using hr
      · simp only [he] at hr ⊢
        cases hj : feJobs w.blocks cfg (feRoom s) (feBlocks env w.blocks cfg (feRoom s).circ) with
        | error e => simpa [hj] using hr
        | ok jobs =>
          simp only [hj] at hr ⊢
          cases hm : mapM' (fun w (j : BlockJob) => subDoWork f body w ⟨j.sub, j.bd⟩) w jobs with
          | none => rw [hm] at hr; cases hr
          | some out =>
            rw [mapM'_mono (G := fun w (j : BlockJob) => subDoWork g body w ⟨j.sub, j.bd⟩)
              (fun w x r hx => subDoWork_mono h _ _ _ _ hx) _ _ _ hm]
            rw [hm] at hr; exact hr
  | clearAll => simpa [execStep] using hr

/-- more fuel never changes an answer -/
theorem exec_mono (env : Env) : ∀ n m, n ≤ m → Run.le (exec env n) (exec env m) := by
  intro n
  induction n with
  | zero => intro m _ t w s r hr; simp [exec] at hr
  | succ n ih =>
    intro m hm
    cases m with
    | zero => omega
    | succ m =>
      simp only [exec]
      exact execStep_mono env (ih m (by omega))

/-- the pass tree terminates with result `r` -/
def Runs (env : Env) (t : Tree) (w : World) (s : St) (r : Res) : Prop :=
  ∃ fuel, exec env fuel t w s = some r

theorem Runs.unique {env : Env} {t : Tree} {w : World} {s : St} {r r' : Res}
    (h : Runs env t w s r) (h' : Runs env t w s r') : r = r' := by
  obtain ⟨n, hn⟩ := h
  obtain ⟨m, hm⟩ := h'
  have h1 := exec_mono env n (max n m) (by omega) _ _ _ _ hn
  have h2 := exec_mono env m (max n m) (by omega) _ _ _ _ hm
  rw [h1] at h2
  exact Option.some.inj h2

/-- `Runs` unfolds through `execStep` -/
theorem runs_iff_step (env : Env) (t : Tree) (w : World) (s : St) (r : Res) :
    Runs env t w s r ↔ ∃ n, execStep env (exec env n) t w s = some r := by
  constructor
  · rintro ⟨n, hn⟩
    cases n with
    | zero => simp [exec] at hn
    | succ n => exact ⟨n, hn⟩
  · rintro ⟨n, hn⟩; exact ⟨n + 1, hn⟩

/-- the continuation form of `andThen` under `Runs` -/
def Then (_env : Env) (r1 : Res) (t2 : World → St → Res → Prop) (r : Res) : Prop :=
  match r1.out with
  | .raised _ => r = r1
  | .ok => ∃ r2, t2 r1.w r1.st r2 ∧ r = { r2 with trace := r1.trace ++ r2.trace }

theorem andThen_runs (env : Env) (r1 r : Res) (n : Nat) (t2 : Tree)
    (h : r1.andThen (exec env n t2) = some r) : Then env r1 (Runs env t2) r := by
  unfold Res.andThen at h
  unfold Then
  cases ho : r1.out with
  | raised e => simp only [ho] at h ⊢; exact (Option.some.inj h).symm
  | ok =>
    simp only [ho] at h ⊢
    cases hk : exec env n t2 r1.w r1.st with
    | none => simp [hk] at h
    | some r2 => exact ⟨r2, ⟨n, hk⟩, by simpa [hk] using h.symm⟩

theorem runs_andThen (env : Env) (r1 r : Res) (t2 : Tree) (h : Then env r1 (Runs env t2) r) :
    ∃ n, ∀ m, n ≤ m → r1.andThen (exec env m t2) = some r := by
  unfold Then at h
  unfold Res.andThen
  cases ho : r1.out with
  | raised e => simp only [ho] at h ⊢; exact ⟨0, fun m _ => by rw [h]⟩
  | ok =>
    simp only [ho] at h ⊢
    obtain ⟨r2, ⟨n, hn⟩, hr⟩ := h
    refine ⟨n, fun m hm => ?_⟩
    rw [exec_mono env n m hm _ _ _ _ hn, hr]

/-! ## the big-step rules -/
theorem runs_leaf (env : Env) (i : Nat) (w : World) (s : St) (r : Res) :
    Runs env (.leaf i) w s r ↔ r = leafM env i w s := by
  rw [runs_iff_step]; simp [execStep, eq_comm]

theorem runs_clearAll (env : Env) (w : World) (s : St) (r : Res) :
    Runs env .clearAll w s r ↔ r = clearAllM w s := by
  rw [runs_iff_step]; simp [execStep, eq_comm]

theorem runs_seq_nil (env : Env) (w : World) (s : St) (r : Res) :
    Runs env (.seq []) w s r ↔ r = Res.skip w s := by
  rw [runs_iff_step]; simp [execStep, seqM, eq_comm]

/-- Workflow: run the first pass; if it did not raise, run the rest on what it left -/
theorem runs_seq_cons (env : Env) (t : Tree) (ts : List Tree) (w : World) (s : St) (r : Res) :
    Runs env (.seq (t :: ts)) w s r ↔
      ∃ r1, Runs env t w s r1 ∧ Then env r1 (Runs env (.seq ts)) r := by
  rw [runs_iff_step]
  constructor
  · rintro ⟨n, hn⟩
    simp only [execStep, seqM] at hn
    cases hf : exec env n t w s with
    | none => simp [hf] at hn
    | some r1 =>
      simp only [hf] at hn
      refine ⟨r1, ⟨n, hf⟩, ?_⟩
      have : r1.andThen (exec env (n + 1) (.seq ts)) = some r := hn
      exact andThen_runs env r1 r (n + 1) (.seq ts) this
  · rintro ⟨r1, ⟨n1, h1⟩, h2⟩
    obtain ⟨n2, h2⟩ := runs_andThen env r1 r (.seq ts) h2
    refine ⟨max n1 n2 + 1, ?_⟩
    simp only [execStep, seqM]
    rw [exec_mono env n1 (max n1 n2 + 1) (by omega) _ _ _ _ h1]
    exact h2 (max n1 n2 + 2) (by omega)

/-- IfThenElsePass: the predicate is evaluated once; exactly the selected branch runs -/
theorem runs_ite (env : Env) (p : Pred) (t : Tree) (e : Option Tree) (w : World) (s : St) (r : Res) :
    Runs env (.ite p t e) w s r ↔
      match evalPred p w s with
      | .error err => r = Res.fail [] s w err
      | .ok (b, w', s') =>
        if b then Runs env t w' s' r
        else match e with
          | some e => Runs env e w' s' r
          | none => r = Res.skip w' s' := by
  rw [runs_iff_step]
  simp only [execStep, iteM]
  cases hp : evalPred p w s with
  | error err => simp [eq_comm]
  | ok x =>
    obtain ⟨b, w', s'⟩ := x
    by_cases hb : b
    · simp [hb, Runs]
    · cases e with
      | none => simp [hb, eq_comm]
      | some e => simp [hb, Runs]

/-- WhileLoopPass: test; on true run the body, then the loop again on what the body left -/
theorem runs_while (env : Env) (p : Pred) (b : Tree) (w : World) (s : St) (r : Res) :
    Runs env (.while p b) w s r ↔
      match evalPred p w s with
      | .error err => r = Res.fail [] s w err
      | .ok (c, w', s') =>
        if c then ∃ r1, Runs env b w' s' r1 ∧ Then env r1 (Runs env (.while p b)) r
        else r = Res.skip w' s' := by
  rw [runs_iff_step]
  simp only [execStep, whileM]
  cases hp : evalPred p w s with
  | error err => simp [eq_comm]
  | ok x =>
    obtain ⟨c, w', s'⟩ := x
    by_cases hc : c
    · simp only [hc, Bool.not_true, if_true]
      constructor
      · rintro ⟨n, hn⟩
        cases hf : exec env n b w' s' with
        | none => simp [hf] at hn
        | some r1 =>
          simp only [hf] at hn
          exact ⟨r1, ⟨n, hf⟩, andThen_runs env r1 r n _ (by simpa using hn)⟩
      · rintro ⟨r1, ⟨n1, h1⟩, h2⟩
        obtain ⟨n2, h2⟩ := runs_andThen env r1 r _ h2
        refine ⟨max n1 n2, ?_⟩
        rw [exec_mono env n1 (max n1 n2) (by omega) _ _ _ _ h1]
        simpa using h2 (max n1 n2) (by omega)
    · simp [hc, eq_comm]

/-- DoWhileLoopPass = body, then the while loop -/
theorem runs_doWhile (env : Env) (p : Pred) (b : Tree) (w : World) (s : St) (r : Res) :
    Runs env (.doWhile p b) w s r ↔
      ∃ r1, Runs env b w s r1 ∧ Then env r1 (Runs env (.while p b)) r := by
  rw [runs_iff_step]
  simp only [execStep, doWhileM]
  constructor
  · rintro ⟨n, hn⟩
    cases hf : exec env n b w s with
    | none => simp [hf] at hn
    | some r1 =>
      simp only [hf] at hn
      exact ⟨r1, ⟨n, hf⟩, andThen_runs env r1 r n _ hn⟩
  · rintro ⟨r1, ⟨n1, h1⟩, h2⟩
    obtain ⟨n2, h2⟩ := runs_andThen env r1 r _ h2
    refine ⟨max n1 n2, ?_⟩
    rw [exec_mono env n1 (max n1 n2) (by omega) _ _ _ _ h1]
    simpa using h2 (max n1 n2) (by omega)

/-- DoThenDecide -/
theorem runs_dtd (env : Env) (c : Cond) (body : Tree) (w : World) (s : St) (r : Res) :
    Runs env (.dtd c body) w s r ↔
      ∃ rb, Runs env body w s rb ∧
        match rb.out with
        | .raised _ => r = rb
        | .ok =>
          match evalCond env c rb.w s.circ rb.st.circ with
          | .error err => r = { rb with out := .raised err }
          | .ok (accept, w') =>
            if accept then r = { rb with w := w' }
            else r = { rb with w := w', st := restore env s rb.st } := by
  rw [runs_iff_step]
  simp only [execStep, dtdM]
  constructor
  · rintro ⟨n, hn⟩
    cases hf : exec env n body w s with
    | none => simp [hf] at hn
    | some rb =>
      simp only [hf] at hn
      refine ⟨rb, ⟨n, hf⟩, ?_⟩
      cases ho : rb.out with
      | raised e => simp only [ho] at hn ⊢; exact (Option.some.inj hn).symm
      | ok =>
        simp only [ho] at hn ⊢
        cases hc : evalCond env c rb.w s.circ rb.st.circ with
        | error err => simp only [hc] at hn ⊢; exact (Option.some.inj hn).symm
        | ok x =>
          obtain ⟨a, w'⟩ := x
          simp only [hc] at hn ⊢
          by_cases ha : a
          · simp only [ha, if_true] at hn ⊢; exact (Option.some.inj hn).symm
          · simp only [ha] at hn ⊢; exact (Option.some.inj hn).symm
  · rintro ⟨rb, ⟨n, hf⟩, h⟩
    refine ⟨n, ?_⟩
    simp only [hf]
    cases ho : rb.out with
    | raised e => simp only [ho] at h ⊢; rw [h]
    | ok =>
      simp only [ho] at h ⊢
      cases hc : evalCond env c rb.w s.circ rb.st.circ with
      | error err => simp only [hc] at h ⊢; rw [h]
      | ok x =>
        obtain ⟨a, w'⟩ := x
        simp only [hc] at h ⊢
        by_cases ha : a
        · simp only [ha, if_true] at h ⊢; rw [h]
        · simp only [ha] at h ⊢
          rw [h]; rfl

/-! ## restore -/
theorem becomeWith_all (fs : List Field) (h : ∀ f, f ∈ fs) (a b : PData) : a.becomeWith fs b = b := by
  cases b
  simp [PData.becomeWith, h]

theorem restore_all (env : Env) (hc : ∀ f, f ∈ env.copyFields) (hb : ∀ f, f ∈ env.becomeFields)
    (old now : St) : restore env old now = old := by
  unfold restore PData.copyWith
  rw [becomeWith_all _ hc, becomeWith_all _ hb]

/-! ## ParallelDo's selection -/
theorem pickBestM_fn (env : Env) (i : Nat) :
    ∀ (rs : List Res) (w : World) (best : Res),
      pickBestM env (.fn i) w best rs = .ok (pickBest (env.cond i) best rs, w) := by
  intro rs
  induction rs with
  | nil => intro w best; simp [pickBestM, pickBest]
  | cons r rs ih =>
    intro w best
    simp only [pickBestM, pickBest, evalCond]
    by_cases h : env.cond i r.st.circ best.st.circ
    · simp [h, ih]
    · simp [h, ih]

theorem pickBest_mem (lt : Circ → Circ → Bool) :
    ∀ (rs : List Res) (best : Res), pickBest lt best rs ∈ best :: rs := by
  intro rs
  induction rs with
  | nil => intro best; simp [pickBest]
  | cons r rs ih =>
    intro best
    simp only [pickBest]
    by_cases h : lt r.st.circ best.st.circ
    · simp only [h, if_true]
      have := ih r
      simp only [List.mem_cons] at this ⊢
      rcases this with h1 | h1
      · exact Or.inr (Or.inl h1)
      · exact Or.inr (Or.inr h1)
    · simp only [h]
      have := ih best
      simp only [List.mem_cons] at this ⊢
      rcases this with h1 | h1
      · exact Or.inl h1
      · exact Or.inr (Or.inr h1)

/-- the selection loop splits the list of results at the chosen one: nothing after it is preferred
to it, and it is either the first result or was preferred to the best of those before it -/
theorem pickBest_split (lt : Circ → Circ → Bool) :
    ∀ (rs : List Res) (best : Res),
      ∃ pre post, best :: rs = pre ++ pickBest lt best rs :: post ∧
        (∀ y ∈ post, lt y.st.circ (pickBest lt best rs).st.circ = false) ∧
        (pre = [] ∨ ∃ b0 pre', pre = b0 :: pre' ∧
          lt (pickBest lt best rs).st.circ (pickBest lt b0 pre').st.circ = true) := by
  intro rs
  induction rs with
  | nil => intro best; exact ⟨[], [], by simp [pickBest], by simp, Or.inl rfl⟩
  | cons r rs ih =>
    intro best
    simp only [pickBest]
    by_cases h : lt r.st.circ best.st.circ
    · simp only [h, if_true]
      obtain ⟨pre, post, hsplit, hpost, hpre⟩ := ih r
      refine ⟨best :: pre, post, by rw [hsplit]; rfl, hpost, Or.inr ⟨best, pre, rfl, ?_⟩⟩
      rcases hpre with hpre | ⟨b0, pre', hp, hlt⟩
      · subst hpre
        simp only [List.nil_append, List.cons.injEq] at hsplit
        simp only [pickBest]
        rw [← hsplit.1]; exact h
      · subst hp
        simp only [List.cons_append, List.cons.injEq] at hsplit
        obtain ⟨h1, _⟩ := hsplit
        subst h1
        simp only [pickBest, h, if_true]
        exact hlt
    · have h' : lt r.st.circ best.st.circ = false := by simpa using h
      simp only [h', Bool.false_eq_true, if_false]
      obtain ⟨pre, post, hsplit, hpost, hpre⟩ := ih best
      rcases hpre with hpre | ⟨b0, pre', hp, hlt⟩
      · subst hpre
        simp only [List.nil_append, List.cons.injEq] at hsplit
        refine ⟨[], r :: rs, by simp [← hsplit.1], ?_, Or.inl rfl⟩
        intro y hy
        simp only [List.mem_cons] at hy
        rcases hy with hy | hy
        · subst hy; rw [← hsplit.1]; simpa using h
        · rw [hsplit.2] at hy; exact hpost y hy
      · subst hp
        simp only [List.cons_append, List.cons.injEq] at hsplit
        obtain ⟨h1, h2⟩ := hsplit
        subst h1
        -- the chosen one sits in rs; r is skipped because it is not preferred to `best`
        refine ⟨best :: r :: pre', post, by simp only [List.cons_append]; rw [← h2], hpost,
          Or.inr ⟨best, r :: pre', rfl, ?_⟩⟩
        simp only [pickBest, h', Bool.false_eq_true, if_false]
        exact hlt

/-- for a strict weak order (`lt` irreflexive and transitive, "not preferred" transitive) nothing is
preferred to the chosen result -/
theorem pickBest_minimal (lt : Circ → Circ → Bool)
    (hirr : ∀ a, lt a a = false)
    (htrans : ∀ a b c, lt a b = true → lt b c = true → lt a c = true)
    (hneg : ∀ a b c, lt a b = false → lt b c = false → lt a c = false) :
    ∀ (rs : List Res) (best : Res), ∀ y ∈ best :: rs,
      lt y.st.circ (pickBest lt best rs).st.circ = false := by
  intro rs
  induction rs with
  | nil =>
    intro best y hy
    simp only [List.mem_cons, List.not_mem_nil, or_false] at hy
    subst hy
    simpa [pickBest] using hirr _
  | cons r rs ih =>
    intro best y hy
    simp only [pickBest]
    by_cases h : lt r.st.circ best.st.circ
    · simp only [h, if_true]
      simp only [List.mem_cons] at hy
      rcases hy with hy | hy
      · subst hy
        have hr := ih r r (by simp)
        cases hx : lt y.st.circ (pickBest lt r rs).st.circ with
        | false => rfl
        | true => rw [htrans _ _ _ h hx] at hr; exact absurd hr (by simp)
      · exact ih r y (by simpa using hy)
    · simp only [h]
      simp only [List.mem_cons] at hy
      rcases hy with hy | hy | hy
      · exact ih best y (by simp [hy])
      · subst hy
        have h1 : lt y.st.circ best.st.circ = false := by simpa using h
        exact hneg _ _ _ h1 (ih best best (by simp))
      · exact ih best y (by simp [hy])

/-! ## jobs handed to the runtime (ParallelDo branches, ForEach bodies) -/
/-- `_sub_do_work` on a job terminates with `r` -/
def SubRuns (env : Env) (t : Tree) (w : World) (s : St) (r : Res) : Prop :=
  ∃ r0, Runs env t { w with script := [] } s r0 ∧ r = subFinish w s r0

theorem subRuns_iff (env : Env) (t : Tree) (w : World) (s : St) (r : Res) :
    SubRuns env t w s r ↔ ∃ n, subDoWork (exec env n) t w s = some r := by
  unfold SubRuns subDoWork Runs
  constructor
  · rintro ⟨r0, ⟨n, hn⟩, rfl⟩
    exact ⟨n, by simp [hn]⟩
  · rintro ⟨n, hn⟩
    cases hf : exec env n t { w with script := [] } s with
    | none => simp [hf] at hn
    | some r0 =>
      simp only [hf, Option.some.injEq] at hn
      exact ⟨r0, ⟨n, hf⟩, hn.symm⟩

/-- the jobs of one `map`, run one after the other with the oracles threaded through -/
inductive JobsRun {α : Type} (sub : World → α → Res → Prop) : World → List α → List Res → World → Prop
  | nil (w : World) : JobsRun sub w [] [] w
  | cons {w : World} {x : α} {xs : List α} {r : Res} {rs : List Res} {w' : World} :
      sub w x r → JobsRun sub r.w xs rs w' → JobsRun sub w (x :: xs) (r :: rs) w'

theorem JobsRun.length {α : Type} {sub : World → α → Res → Prop} {w : World} {xs : List α}
    {rs : List Res} {w' : World} (h : JobsRun sub w xs rs w') : rs.length = xs.length := by
  induction h with
  | nil => rfl
  | cons _ _ ih => simp [ih]

theorem mapM'_runs {α : Type} (F : Nat → World → α → Option Res)
    (hmono : ∀ n m, n ≤ m → ∀ w x r, F n w x = some r → F m w x = some r) :
    ∀ (xs : List α) (w : World) (rs : List Res) (w' : World),
      (∃ n, mapM' (F n) w xs = some (rs, w')) ↔
        JobsRun (fun w x r => ∃ n, F n w x = some r) w xs rs w' := by
  intro xs
  induction xs with
  | nil =>
    intro w rs w'
    constructor
    · rintro ⟨n, hn⟩
      simp only [mapM', Option.some.injEq, Prod.mk.injEq] at hn
      obtain ⟨h1, h2⟩ := hn
      subst h1; subst h2
      exact JobsRun.nil w
    · intro h
      cases h
      exact ⟨0, rfl⟩
  | cons x xs ih =>
    intro w rs w'
    constructor
    · rintro ⟨n, hn⟩
      simp only [mapM'] at hn
      cases hF : F n w x with
      | none => simp [hF] at hn
      | some r =>
        simp only [hF] at hn
        cases hm : mapM' (F n) r.w xs with
        | none => simp [hm] at hn
        | some p =>
          obtain ⟨rs', w''⟩ := p
          simp only [hm, Option.some.injEq, Prod.mk.injEq] at hn
          obtain ⟨h1, h2⟩ := hn
          subst h1; subst h2
          exact JobsRun.cons ⟨n, hF⟩ ((ih r.w rs' w'').mp ⟨n, hm⟩)
    · intro h
      cases h with
      | cons h1 h2 =>
        rename_i r rs'
        obtain ⟨n1, hn1⟩ := h1
        obtain ⟨n2, hn2⟩ := (ih r.w rs' w').mpr h2
        refine ⟨max n1 n2, ?_⟩
        simp only [mapM']
        rw [hmono n1 (max n1 n2) (by omega) _ _ _ hn1]
        have := mapM'_mono (F := F n2) (G := F (max n1 n2))
          (fun w x r hx => hmono n2 (max n1 n2) (by omega) w x r hx) xs r.w _ hn2
        simp [this]

theorem subDoWork_exec_mono (env : Env) (n m : Nat) (h : n ≤ m) (t : Tree) (w : World) (s : St)
    (r : Res) (hr : subDoWork (exec env n) t w s = some r) : subDoWork (exec env m) t w s = some r :=
  subDoWork_mono (exec_mono env n m h) t w s r hr

/-- ParallelDo: the awaited branches run as jobs on copies of the state; then `parFinish` -/
theorem runs_par (env : Env) (ws : List Tree) (lt : Cond) (pf : Bool) (w : World) (s : St) (r : Res) :
    Runs env (.par ws lt pf) w s r ↔
      match arrivedOf pf ws.length w with
      | none => r = Res.fail [] s w .runtime
      | some (idxs, w0) =>
        ∃ rs w2,
          JobsRun (fun w (j : Tree × Nat) r => SubRuns env j.1 w s r) w0
            (ws.zipIdx.filter (fun (j : Tree × Nat) => idxs.contains j.2)) rs w2 ∧
          r = parFinish env lt s idxs (ws.zipIdx.filter (fun (j : Tree × Nat) => idxs.contains j.2)) rs w2 := by
  rw [runs_iff_step]
  simp only [execStep, parM]
  cases ha : arrivedOf pf ws.length w with
  | none => simp [eq_comm]
  | some x =>
    obtain ⟨idxs, w0⟩ := x
    simp only
    have hF := mapM'_runs (fun n w (j : Tree × Nat) => subDoWork (exec env n) j.1 w s)
      (fun n m h w x r hr => subDoWork_exec_mono env n m h _ _ _ _ hr)
      (ws.zipIdx.filter (fun (j : Tree × Nat) => idxs.contains j.2))
    have hsub : (fun w (j : Tree × Nat) r => ∃ n, subDoWork (exec env n) j.1 w s = some r) =
        (fun w (j : Tree × Nat) r => SubRuns env j.1 w s r) := by
      funext w j r; exact propext (subRuns_iff env j.1 w s r).symm
    constructor
    · rintro ⟨n, hn⟩
      cases hm : mapM' (fun w (j : Tree × Nat) => subDoWork (exec env n) j.1 w s) w0
          (ws.zipIdx.filter (fun (j : Tree × Nat) => idxs.contains j.2)) with
      | none => rw [hm] at hn; cases hn
      | some p =>
        obtain ⟨rs, w2⟩ := p
        rw [hm] at hn
        refine ⟨rs, w2, ?_, (Option.some.inj hn).symm⟩
        rw [← hsub]
        exact (hF w0 rs w2).mp ⟨n, hm⟩
    · rintro ⟨rs, w2, hj, hr⟩
      rw [← hsub] at hj
      obtain ⟨n, hn⟩ := (hF w0 rs w2).mpr hj
      exact ⟨n, by rw [hn, hr]⟩

/-- ForEachBlockPass: unknown filter name -> raises first; no block -> records `[]`; otherwise the
body runs as one job per collected block, then `feFinish` -/
theorem runs_forEach (env : Env) (cfg : FECfg) (body : Tree) (w : World) (s : St) (r : Res) :
    Runs env (.forEach cfg body) w s r ↔
      if feUnknown env cfg then r = Res.fail [] s w .value
      else if (feBlocks env w.blocks cfg (feRoom s).circ).isEmpty then
        r = ⟨[], { feRoom s with data := feAppendRec (feRoom s).data (.list []) }, w, .ok⟩
      else
        match feJobs w.blocks cfg (feRoom s) (feBlocks env w.blocks cfg (feRoom s).circ) with
        | .error e => r = Res.fail [] (feRoom s) w e
        | .ok jobs =>
          ∃ rs w1,
            JobsRun (fun w (j : BlockJob) r => SubRuns env body w ⟨j.sub, j.bd⟩ r) w jobs rs w1 ∧
            r = feFinish env cfg (feRoom s) jobs rs w1 := by
  rw [runs_iff_step]
  simp only [execStep, forEachM]
  by_cases hu : feUnknown env cfg
  · simp [hu, eq_comm]
  · simp only [hu, Bool.false_eq_true, if_false]
    by_cases he : (feBlocks env w.blocks cfg (feRoom s).circ).isEmpty
    · simp [he, eq_comm]
    · simp only [he, Bool.false_eq_true, if_false]
      cases hj : feJobs w.blocks cfg (feRoom s) (feBlocks env w.blocks cfg (feRoom s).circ) with
      | error e => simp [eq_comm]
      | ok jobs =>
        simp only
        have hF := mapM'_runs (fun n w (j : BlockJob) => subDoWork (exec env n) body w ⟨j.sub, j.bd⟩)
          (fun n m h w x r hr => subDoWork_exec_mono env n m h _ _ _ _ hr) jobs
        have hsub : (fun w (j : BlockJob) r => ∃ n, subDoWork (exec env n) body w ⟨j.sub, j.bd⟩ = some r) =
            (fun w (j : BlockJob) r => SubRuns env body w ⟨j.sub, j.bd⟩ r) := by
          funext w j r; exact propext (subRuns_iff env body w _ r).symm
        constructor
        · rintro ⟨n, hn⟩
          cases hm : mapM' (fun w (j : BlockJob) => subDoWork (exec env n) body w ⟨j.sub, j.bd⟩) w jobs with
          | none => rw [hm] at hn; cases hn
          | some p =>
            obtain ⟨rs, w1⟩ := p
            rw [hm] at hn
            refine ⟨rs, w1, ?_, (Option.some.inj hn).symm⟩
            rw [← hsub]
            exact (hF w rs w1).mp ⟨n, hm⟩
        · rintro ⟨rs, w1, hj', hr⟩
          rw [← hsub] at hj'
          obtain ⟨n, hn⟩ := (hF w rs w1).mpr hj'
          exact ⟨n, by rw [hn, hr]⟩

/-- the state ParallelDo leaves when no awaited branch raised and `less_than` is a function: the
circuit of the result chosen by the selection loop over the results in arrival order, and the data
having become that result's data -/
theorem parFinish_choice (env : Env) (i : Nat) (s : St) (idxs : List Nat) (jobs : List (Tree × Nat))
    (rs : List Res) (w2 : World) (first : Res) (rest : List Res)
    (hno : firstRaised rs = none)
    (hch : idxs.filterMap (fun i => ((jobs.zip rs).find? (fun jr => jr.1.2 == i)).map (·.2)) = first :: rest) :
    (parFinish env (.fn i) s idxs jobs rs w2).out = .ok ∧
    (parFinish env (.fn i) s idxs jobs rs w2).st.circ = (pickBest (env.cond i) first rest).st.circ ∧
    (parFinish env (.fn i) s idxs jobs rs w2).st.data =
      s.data.becomeWith env.becomeFields (pickBest (env.cond i) first rest).st.data := by
  unfold parFinish
  simp [hno, hch, pickBestM_fn]

/-! ## counting: a scripted loop around a leaf -/
/-- the state after `n` executions of leaf `i` -/
def iterLeaf (env : Env) (i : Nat) : Nat → St → St
  | 0, s => s
  | n + 1, s => iterLeaf env i n (env.leaf i s).1

/-- `n` executions of leaf `i`, each with the state it saw -/
def leafTrace (env : Env) (i : Nat) : Nat → St → List Ev
  | 0, _ => []
  | n + 1, s => ⟨i, s, false⟩ :: leafTrace env i n (env.leaf i s).1

theorem leafTrace_length (env : Env) (i : Nat) : ∀ n s, (leafTrace env i n s).length = n := by
  intro n
  induction n with
  | zero => intro s; rfl
  | succ n ih => intro s; simp [leafTrace, ih]

/-- a while loop whose predicate is scripted `true^n false` runs its leaf body exactly `n` times, each
time on the state the previous execution left, and consumes exactly `n + 1` outcomes -/
theorem while_script_leaf (env : Env) (i : Nat) (hok : ∀ s, (env.leaf i s).2 = none) :
    ∀ (n : Nat) (w : World) (s : St) (rest : List Bool),
      Runs env (.while .script (.leaf i))
        { w with script := List.replicate n true ++ false :: rest } s
        ⟨leafTrace env i n s, iterLeaf env i n s, { w with script := rest }, .ok⟩ := by
  intro n
  induction n with
  | zero =>
    intro w s rest
    rw [runs_while]
    simp [evalPred, leafTrace, iterLeaf, Res.skip]
  | succ n ih =>
    intro w s rest
    rw [runs_while]
    simp only [evalPred, List.replicate_succ, List.cons_append, if_true]
    refine ⟨leafM env i { w with script := List.replicate n true ++ false :: rest } s,
      (runs_leaf _ _ _ _ _).mpr rfl, ?_⟩
    unfold Then
    have hout : (leafM env i { w with script := List.replicate n true ++ false :: rest } s).out = .ok := by
      simp [leafM, hok]
    simp only [hout]
    refine ⟨_, ih w (env.leaf i s).1 rest, ?_⟩
    simp [leafM, leafTrace, iterLeaf]

/-- a do-while loop runs the body once more than its scripted predicate says `true` -/
theorem doWhile_script_leaf (env : Env) (i : Nat) (hok : ∀ s, (env.leaf i s).2 = none)
    (n : Nat) (w : World) (s : St) (rest : List Bool) :
    Runs env (.doWhile .script (.leaf i))
      { w with script := List.replicate n true ++ false :: rest } s
      ⟨leafTrace env i (n + 1) s, iterLeaf env i (n + 1) s, { w with script := rest }, .ok⟩ := by
  rw [runs_doWhile]
  refine ⟨leafM env i { w with script := List.replicate n true ++ false :: rest } s,
    (runs_leaf _ _ _ _ _).mpr rfl, ?_⟩
  unfold Then
  have hout : (leafM env i { w with script := List.replicate n true ++ false :: rest } s).out = .ok := by
    simp [leafM, hok]
  simp only [hout]
  refine ⟨_, while_script_leaf env i hok n w (env.leaf i s).1 rest, ?_⟩
  simp [leafM, leafTrace, iterLeaf]

end BqVerif.Control
