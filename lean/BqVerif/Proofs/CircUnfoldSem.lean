import BqVerif.Proofs.CircSem
import BqVerif.Proofs.CircUnfold
import BqVerif.Proofs.CircReplace
import BqVerif.Proofs.CircWhole
/-! S3 for the call itself: `unfold(point)` keeps the denotation of the circuit, in every
semantics that reads a block as the ordered product of its contents (C04). -/
namespace BqVerif.Circ

/-! ## `set_params` on a body keeps its grid -/
def parSum (l : List Op) : Nat := (l.map (·.par.length)).sum

theorem distribute_append (a r : List Op) (ps : List Int) :
    distribute (a ++ r) ps = distribute a ps ++ distribute r (ps.drop (parSum a)) := by
  induction a generalizing ps with
  | nil => simp [distribute, parSum]
  | cons x t ih =>
    simp only [List.cons_append, distribute, ih, List.drop_drop]
    congr 3

theorem distribute_length (l : List Op) (ps : List Int) : (distribute l ps).length = l.length := by
  induction l generalizing ps with
  | nil => rfl
  | cons x t ih => simp [distribute, ih]

def distCycles : List Cycle → List Int → List Cycle
  | [], _ => []
  | cy :: rest, ps => distribute cy ps :: distCycles rest (ps.drop (parSum cy))

theorem go_spec (l : List Cycle) (ps : List Int) :
    setParams.go l (distribute l.flatten ps) = distCycles l ps := by
  induction l generalizing ps with
  | nil => rfl
  | cons cy rest ih =>
    simp only [List.flatten_cons, distribute_append, setParams.go, distCycles]
    rw [List.take_left' (distribute_length cy ps), List.drop_left' (distribute_length cy ps), ih]

theorem distCycles_flatten (l : List Cycle) (ps : List Int) :
    (distCycles l ps).flatten = distribute l.flatten ps := by
  induction l generalizing ps with
  | nil => rfl
  | cons cy rest ih => simp only [distCycles, List.flatten_cons, distribute_append, ih]

theorem setParams_cycles (body : Circ) (ps : List Int) :
    (setParams body ps).cycles = distCycles (body.cycles.map (sortBy Op.head)) ps := by
  simp only [setParams, Circ.iter, List.flatMap_def]
  exact go_spec _ _

theorem setParams_ops (body : Circ) (ps : List Int) :
    (setParams body ps).ops = distribute body.iter ps := by
  simp only [Circ.ops, setParams_cycles, distCycles_flatten, Circ.iter, List.flatMap_def]

theorem pairwise_distribute (cy : Cycle) (ps : List Int) (h : cy.Pairwise Indep) :
    (distribute cy ps).Pairwise Indep := by
  induction cy generalizing ps with
  | nil => simp [distribute]
  | cons a t ih =>
    rw [List.pairwise_cons] at h
    simp only [distribute, List.pairwise_cons]
    refine ⟨?_, ih _ h.2⟩
    intro x hx
    obtain ⟨o, ho, h1, _⟩ := mem_distribute _ _ x hx
    intro q hq hqx
    rw [h1] at hqx
    exact h.1 o ho q hq hqx

theorem cycleOk_distribute (n : Nat) (rad : List Nat) (cy : Cycle) (ps : List Int)
    (h : CycleOk n rad cy) : CycleOk n rad (distribute cy ps) := by
  obtain ⟨h1, h2, h3⟩ := h
  refine ⟨?_, pairwise_distribute cy ps h2, ?_⟩
  · intro he
    have := distribute_length cy ps
    rw [he] at this
    exact h1 (List.eq_nil_of_length_eq_zero this.symm)
  · intro x hx
    obtain ⟨o, ho, e1, e2, _⟩ := mem_distribute _ _ x hx
    have := h3 o ho
    unfold Op.WF at this ⊢
    rw [e1, e2]; exact this

theorem indep_symm {a b : Op} (h : Indep a b) : Indep b a := fun q hq hqa => h q hqa hq

theorem cycleOk_sortBy (n : Nat) (rad : List Nat) (cy : Cycle) (h : CycleOk n rad cy) :
    CycleOk n rad (sortBy Op.head cy) := by
  obtain ⟨h1, h2, h3⟩ := h
  have hperm := sortBy_perm Op.head cy
  refine ⟨?_, ?_, fun o ho => h3 o ((mem_sortBy _ _ _).1 ho)⟩
  · intro he
    have := hperm.length_eq
    rw [he] at this
    exact h1 (List.eq_nil_of_length_eq_zero this.symm)
  · exact (hperm.pairwise_iff (fun {a b} h => indep_symm h)).2 h2

theorem distCycles_ok (n : Nat) (rad : List Nat) (l : List Cycle) (ps : List Int)
    (h : ∀ cy ∈ l, CycleOk n rad cy) : ∀ cy ∈ distCycles l ps, CycleOk n rad cy := by
  induction l generalizing ps with
  | nil => intro cy hcy; simp [distCycles] at hcy
  | cons a t ih =>
    intro cy hcy
    simp only [distCycles, List.mem_cons] at hcy
    rcases hcy with rfl | hcy
    · exact cycleOk_distribute n rad a ps (h a (by simp))
    · exact ih _ (fun cy' h' => h cy' (by simp [h'])) cy hcy

theorem setParams_inv (body : Circ) (ps : List Int) (hinv : body.Inv) : (setParams body ps).Inv := by
  rw [inv_iff] at *
  rw [setParams_cycles]
  apply distCycles_ok
  intro cy hcy
  rw [List.mem_map] at hcy
  obtain ⟨cy0, h0, rfl⟩ := hcy
  exact cycleOk_sortBy _ _ cy0 (hinv cy0 h0)

/-! ## timelines through the circuit-level folds -/
theorem checkValid_congr (c c' : Circ) (o : Op) (h : c'.radixes = c.radixes) :
    c'.checkValid o = c.checkValid o := by
  unfold Circ.checkValid Circ.numQudits; rw [h]

theorem timeline_split (c : Circ) (k q : Nat) :
    c.timeline q = proj q (c.cycles.take k).flatten ++ proj q (c.cycles.drop k).flatten := by
  unfold Circ.timeline Circ.ops
  rw [← proj_append, ← List.flatten_append, List.take_append_drop]

/-- the fold bodies of `append_circuit` / `insert_circuit` -/
def appF (acc : Circ × Except Err Unit) (o : Op) : Circ × Except Err Unit :=
  match acc.2 with
  | .error _ => acc
  | .ok () =>
    let (c', r) := acc.1.append o
    (c', r.map (fun _ => ()))
def insF (ci : Int) (acc : Circ × Except Err Unit) (o : Op) : Circ × Except Err Unit :=
  match acc.2 with
  | .error _ => acc
  | .ok () => acc.1.insert ci o

theorem append_fold_timeline (xs : List Op) (c1 : Circ)
    (hv : ∀ x ∈ xs, c1.checkValid x = .ok ()) (q : Nat) :
    (xs.foldl appF (c1, .ok ())).2 = .ok () ∧
    (xs.foldl appF (c1, .ok ())).1.timeline q = c1.timeline q ++ proj q xs := by
  induction xs generalizing c1 with
  | nil => simp [proj]
  | cons x t ih =>
    simp only [List.foldl_cons]
    have hx := hv x (by simp)
    have hstep : appF (c1, .ok ()) x = ((c1.appendCore x).1, .ok ()) := by
      unfold appF Circ.append; rw [hx]; rfl
    rw [hstep]
    have := ih (c1.appendCore x).1 (fun y hy => by
      rw [checkValid_congr c1 _ y (appendCore_radixes c1 x)]; exact hv y (by simp [hy]))
    refine ⟨this.1, ?_⟩
    rw [this.2, appendCore_timeline]
    have : proj q (x :: t) = (if x.on q then [x] else []) ++ proj q t := by
      rw [← proj_single, ← proj_append]; rfl
    rw [this, List.append_assoc]

theorem take_modify_self {α : Type} (l : List α) (k : Nat) (f : α → α) :
    (l.modify k f).take k = l.take k := by
  induction l generalizing k with
  | nil => simp
  | cons a t ih => cases k with
    | zero => simp
    | succ k => simp [ih]

theorem take_insertIdx_self {α : Type} (l : List α) (k : Nat) (x : α) :
    (l.insertIdx k x).take k = l.take k := by
  induction l generalizing k with
  | nil => cases k <;> simp
  | cons a t ih => cases k with
    | zero => simp
    | succ k => simp [ih]

theorem insertAt_take (c : Circ) (k : Nat) (o : Op) :
    (c.insertAt k o).cycles.take k = c.cycles.take k := by
  unfold Circ.insertAt
  split
  · exact take_modify_self _ _ _
  · exact take_insertIdx_self _ _ _

theorem insertAt_numCycles (c : Circ) (k : Nat) (o : Op) (hk : k < c.numCycles) :
    k < (c.insertAt k o).numCycles := by
  unfold Circ.insertAt Circ.numCycles at *
  split
  · simpa using hk
  · rw [List.length_insertIdx_of_le_length (by omega)]; omega

theorem insert_in_range (c : Circ) (k : Nat) (o : Op) (hk : k < c.numCycles)
    (hv : c.checkValid o = .ok ()) : c.insert (k : Int) o = (c.insertAt k o, .ok ()) := by
  unfold Circ.insert
  rw [hv]; dsimp only
  have h0 : (c.numCycles == 0) = false := by
    rw [beq_eq_false_iff_ne]; omega
  have hr : c.cycleInRange (k : Int) = true := by rw [cycleInRange_iff]; omega
  simp [h0, hr, normIdx_nat]

theorem insert_fold_timeline (k : Nat) (xs : List Op) (c1 : Circ) (hk : k < c1.numCycles)
    (hv : ∀ x ∈ xs, c1.checkValid x = .ok ()) (q : Nat) :
    (xs.foldl (insF (k : Int)) (c1, .ok ())).2 = .ok () ∧
    (xs.foldl (insF (k : Int)) (c1, .ok ())).1.timeline q =
      proj q (c1.cycles.take k).flatten ++ proj q xs.reverse ++
        proj q (c1.cycles.drop k).flatten := by
  induction xs generalizing c1 with
  | nil =>
    simp only [List.foldl_nil, List.reverse_nil]
    refine ⟨trivial, ?_⟩
    rw [show proj q [] = [] from rfl, List.append_nil]
    exact timeline_split c1 k q
  | cons x t ih =>
    simp only [List.foldl_cons]
    have hx := hv x (by simp)
    have hstep : insF (k : Int) (c1, .ok ()) x = (c1.insertAt k x, .ok ()) := by
      unfold insF; exact insert_in_range c1 k x hk hx
    rw [hstep]
    have := ih (c1.insertAt k x) (insertAt_numCycles c1 k x hk) (fun y hy => by
      rw [checkValid_congr c1 _ y (insertAt_radixes c1 k x)]; exact hv y (by simp [hy]))
    refine ⟨this.1, ?_⟩
    rw [this.2, insertAt_take]
    -- the part from cycle k on gained `x` in front
    have hdrop : proj q ((c1.insertAt k x).cycles.drop k).flatten =
        (if x.on q then [x] else []) ++ proj q (c1.cycles.drop k).flatten := by
      have h1 := insertAt_timeline c1 k x q hk
      rw [timeline_split (c1.insertAt k x) k q, insertAt_take, List.append_assoc] at h1
      exact List.append_cancel_left h1
    rw [hdrop, List.reverse_cons, proj_append, proj_single]
    simp [List.append_assoc]

end BqVerif.Circ
