import BqVerif.Proofs.CircSem
import BqVerif.Proofs.CircUnfold
import BqVerif.Proofs.CircReplace
import BqVerif.Proofs.CircWhole
/-! S3 for the call itself: `unfold(point)` keeps the denotation of the circuit, in every
semantics that reads a block as the ordered product of its contents (C04). -/
namespace BqVerif.Circ

/-! ## `set_params` on a body keeps its grid -/
def parSum (l : List Op) : Nat := (l.map (·.par.length)).sum

theorem distribute_append (a r : List Op) (ps : List Int) :
    distribute (a ++ r) ps = distribute a ps ++ distribute r (ps.drop (parSum a)) := by
  induction a generalizing ps with
  | nil => simp [distribute, parSum]
  | cons x t ih =>
    simp only [List.cons_append, distribute, ih, List.drop_drop]
    congr 3

theorem distribute_length (l : List Op) (ps : List Int) : (distribute l ps).length = l.length := by
  induction l generalizing ps with
  | nil => rfl
  | cons x t ih => simp [distribute, ih]

def distCycles : List Cycle → List Int → List Cycle
  | [], _ => []
  | cy :: rest, ps => distribute cy ps :: distCycles rest (ps.drop (parSum cy))

theorem go_spec (l : List Cycle) (ps : List Int) :
    setParams.go l (distribute l.flatten ps) = distCycles l ps := by
  induction l generalizing ps with
  | nil => rfl
  | cons cy rest ih =>
    simp only [List.flatten_cons, distribute_append, setParams.go, distCycles]
    rw [List.take_left' (distribute_length cy ps), List.drop_left' (distribute_length cy ps), ih]

theorem distCycles_flatten (l : List Cycle) (ps : List Int) :
    (distCycles l ps).flatten = distribute l.flatten ps := by
  induction l generalizing ps with
  | nil => rfl
  | cons cy rest ih => simp only [distCycles, List.flatten_cons, distribute_append, ih]

theorem setParams_cycles (body : Circ) (ps : List Int) :
    (setParams body ps).cycles = distCycles (body.cycles.map (sortBy Op.head)) ps := by
  simp only [setParams, Circ.iter, List.flatMap_def]
  exact go_spec _ _

theorem setParams_ops (body : Circ) (ps : List Int) :
    (setParams body ps).ops = distribute body.iter ps := by
  simp only [Circ.ops, setParams_cycles, distCycles_flatten, Circ.iter, List.flatMap_def]

theorem pairwise_distribute (cy : Cycle) (ps : List Int) (h : cy.Pairwise Indep) :
    (distribute cy ps).Pairwise Indep := by
  induction cy generalizing ps with
  | nil => simp [distribute]
  | cons a t ih =>
    rw [List.pairwise_cons] at h
    simp only [distribute, List.pairwise_cons]
    refine ⟨?_, ih _ h.2⟩
    intro x hx
    obtain ⟨o, ho, h1, _⟩ := mem_distribute _ _ x hx
    intro q hq hqx
    rw [h1] at hqx
    exact h.1 o ho q hq hqx

theorem cycleOk_distribute (n : Nat) (rad : List Nat) (cy : Cycle) (ps : List Int)
    (h : CycleOk n rad cy) : CycleOk n rad (distribute cy ps) := by
  obtain ⟨h1, h2, h3⟩ := h
  refine ⟨?_, pairwise_distribute cy ps h2, ?_⟩
  · intro he
    have := distribute_length cy ps
    rw [he] at this
    exact h1 (List.eq_nil_of_length_eq_zero this.symm)
  · intro x hx
    obtain ⟨o, ho, e1, e2, _⟩ := mem_distribute _ _ x hx
    have := h3 o ho
    unfold Op.WF at this ⊢
    rw [e1, e2]; exact this

theorem indep_symm_op {a b : Op} (h : Indep a b) : Indep b a := fun q hq hqa => h q hqa hq

theorem cycleOk_sortBy (n : Nat) (rad : List Nat) (cy : Cycle) (h : CycleOk n rad cy) :
    CycleOk n rad (sortBy Op.head cy) := by
  obtain ⟨h1, h2, h3⟩ := h
  have hperm := sortBy_perm Op.head cy
  refine ⟨?_, ?_, fun o ho => h3 o ((mem_sortBy _ _ _).1 ho)⟩
  · intro he
    have := hperm.length_eq
    rw [he] at this
    exact h1 (List.eq_nil_of_length_eq_zero this.symm)
  · exact (hperm.pairwise_iff (fun {a b} h => indep_symm_op h)).2 h2

theorem distCycles_ok (n : Nat) (rad : List Nat) (l : List Cycle) (ps : List Int)
    (h : ∀ cy ∈ l, CycleOk n rad cy) : ∀ cy ∈ distCycles l ps, CycleOk n rad cy := by
  induction l generalizing ps with
  | nil => intro cy hcy; simp [distCycles] at hcy
  | cons a t ih =>
    intro cy hcy
    simp only [distCycles, List.mem_cons] at hcy
    rcases hcy with rfl | hcy
    · exact cycleOk_distribute n rad a ps (h a (by simp))
    · exact ih _ (fun cy' h' => h cy' (by simp [h'])) cy hcy

theorem setParams_inv (body : Circ) (ps : List Int) (hinv : body.Inv) : (setParams body ps).Inv := by
  rw [inv_iff] at *
  rw [setParams_cycles]
  apply distCycles_ok
  intro cy hcy
  rw [List.mem_map] at hcy
  obtain ⟨cy0, h0, rfl⟩ := hcy
  exact cycleOk_sortBy _ _ cy0 (hinv cy0 h0)

/-! ## timelines through the circuit-level folds -/
theorem checkValid_congr (c c' : Circ) (o : Op) (h : c'.radixes = c.radixes) :
    c'.checkValid o = c.checkValid o := by
  unfold Circ.checkValid Circ.numQudits; rw [h]

theorem timeline_split (c : Circ) (k q : Nat) :
    c.timeline q = proj q (c.cycles.take k).flatten ++ proj q (c.cycles.drop k).flatten := by
  unfold Circ.timeline Circ.ops
  rw [← proj_append, ← List.flatten_append, List.take_append_drop]

/-- the fold bodies of `append_circuit` / `insert_circuit` -/
def appF (acc : Circ × Except Err Unit) (o : Op) : Circ × Except Err Unit :=
  match acc.2 with
  | .error _ => acc
  | .ok () =>
    let (c', r) := acc.1.append o
    (c', r.map (fun _ => ()))
def insF (ci : Int) (acc : Circ × Except Err Unit) (o : Op) : Circ × Except Err Unit :=
  match acc.2 with
  | .error _ => acc
  | .ok () => acc.1.insert ci o

theorem append_fold_timeline (xs : List Op) (c1 : Circ)
    (hv : ∀ x ∈ xs, c1.checkValid x = .ok ()) (q : Nat) :
    (xs.foldl appF (c1, .ok ())).2 = .ok () ∧
    (xs.foldl appF (c1, .ok ())).1.timeline q = c1.timeline q ++ proj q xs := by
  induction xs generalizing c1 with
  | nil => simp [proj]
  | cons x t ih =>
    simp only [List.foldl_cons]
    have hx := hv x (by simp)
    have hstep : appF (c1, .ok ()) x = ((c1.appendCore x).1, .ok ()) := by
      unfold appF Circ.append; rw [hx]; rfl
    rw [hstep]
    have := ih (c1.appendCore x).1 (fun y hy => by
      rw [checkValid_congr c1 _ y (appendCore_radixes c1 x)]; exact hv y (by simp [hy]))
    refine ⟨this.1, ?_⟩
    rw [this.2, appendCore_timeline]
    have : proj q (x :: t) = (if x.on q then [x] else []) ++ proj q t := by
      rw [← proj_single, ← proj_append]; rfl
    rw [this, List.append_assoc]

theorem take_modify_self {α : Type} (l : List α) (k : Nat) (f : α → α) :
    (l.modify k f).take k = l.take k := by
  induction l generalizing k with
  | nil => simp
  | cons a t ih => cases k with
    | zero => simp
    | succ k => simp [ih]

theorem take_insertIdx_self {α : Type} (l : List α) (k : Nat) (x : α) :
    (l.insertIdx k x).take k = l.take k := by
  induction l generalizing k with
  | nil => cases k <;> simp
  | cons a t ih => cases k with
    | zero => simp
    | succ k => simp [ih]

theorem insertAt_take (c : Circ) (k : Nat) (o : Op) :
    (c.insertAt k o).cycles.take k = c.cycles.take k := by
  unfold Circ.insertAt
  split
  · exact take_modify_self _ _ _
  · exact take_insertIdx_self _ _ _

theorem insertAt_numCycles (c : Circ) (k : Nat) (o : Op) (hk : k < c.numCycles) :
    k < (c.insertAt k o).numCycles := by
  unfold Circ.insertAt Circ.numCycles at *
  split
  · simpa using hk
  · rw [List.length_insertIdx_of_le_length (by omega)]; omega

theorem insert_in_range (c : Circ) (k : Nat) (o : Op) (hk : k < c.numCycles)
    (hv : c.checkValid o = .ok ()) : c.insert (k : Int) o = (c.insertAt k o, .ok ()) := by
  unfold Circ.insert
  rw [hv]; dsimp only
  have h0 : (c.numCycles == 0) = false := by
    rw [beq_eq_false_iff_ne]; omega
  have hr : c.cycleInRange (k : Int) = true := by rw [cycleInRange_iff]; omega
  simp [h0, hr, normIdx_nat]

theorem insert_fold_timeline (k : Nat) (xs : List Op) (c1 : Circ) (hk : k < c1.numCycles)
    (hv : ∀ x ∈ xs, c1.checkValid x = .ok ()) (q : Nat) :
    (xs.foldl (insF (k : Int)) (c1, .ok ())).2 = .ok () ∧
    (xs.foldl (insF (k : Int)) (c1, .ok ())).1.timeline q =
      proj q (c1.cycles.take k).flatten ++ proj q xs.reverse ++
        proj q (c1.cycles.drop k).flatten := by
  induction xs generalizing c1 with
  | nil =>
    simp only [List.foldl_nil, List.reverse_nil]
    refine ⟨trivial, ?_⟩
    rw [show proj q [] = [] from rfl, List.append_nil]
    exact timeline_split c1 k q
  | cons x t ih =>
    simp only [List.foldl_cons]
    have hx := hv x (by simp)
    have hstep : insF (k : Int) (c1, .ok ()) x = (c1.insertAt k x, .ok ()) := by
      unfold insF; exact insert_in_range c1 k x hk hx
    rw [hstep]
    have := ih (c1.insertAt k x) (insertAt_numCycles c1 k x hk) (fun y hy => by
      rw [checkValid_congr c1 _ y (insertAt_radixes c1 k x)]; exact hv y (by simp [hy]))
    refine ⟨this.1, ?_⟩
    rw [this.2, insertAt_take]
    -- the part from cycle k on gained `x` in front
    have hdrop : proj q ((c1.insertAt k x).cycles.drop k).flatten =
        (if x.on q then [x] else []) ++ proj q (c1.cycles.drop k).flatten := by
      have h1 := insertAt_timeline c1 k x q hk
      rw [timeline_split (c1.insertAt k x) k q, insertAt_take, List.append_assoc] at h1
      exact List.append_cancel_left h1
    rw [hdrop, List.reverse_cons, proj_append, proj_single]
    simp [List.append_assoc]

/-! ## the pieces of `replace_with_circuit` -/
theorem getOp_spec (c : Circ) (p : Int × Int) (k q : Nat) (o : Op)
    (h : c.getOp p = .ok (k, q, o)) :
    c.cycleInRange p.1 = true ∧ c.qubitInRange p.2 = true ∧ k = normIdx c.numCycles p.1 ∧
      q = normIdx c.numQudits p.2 ∧ c.cell k q = some o := by
  unfold Circ.getOp at h
  split at h
  · simp at h
  · rename_i hr
    have hr' : c.cycleInRange p.1 = true ∧ c.qubitInRange p.2 = true := by simpa using hr
    dsimp only at h
    split at h
    · simp at h
    · rename_i o' hc
      simp only [Except.ok.injEq, Prod.mk.injEq] at h
      obtain ⟨h1, h2, h3⟩ := h
      subst h3
      exact ⟨hr'.1, hr'.2, h1.symm, h2.symm, by rw [← h1, ← h2]; exact hc⟩

theorem getOp_nat (c : Circ) (k q : Nat) (o : Op) (hk : k < c.numCycles) (hq : q < c.numQudits)
    (hc : c.cell k q = some o) : c.getOp ((k : Int), (q : Int)) = .ok (k, q, o) := by
  unfold Circ.getOp
  have h1 : c.cycleInRange (k : Int) = true := by rw [cycleInRange_iff]; omega
  have h2 : c.qubitInRange (q : Int) = true := by
    simp only [Circ.qubitInRange, Bool.and_eq_true, decide_eq_true_eq]; omega
  simp [h1, h2, normIdx_nat, hc]

theorem getD_map_of_lt (loc : List Nat) (g : Nat → Nat) (i : Nat) (h : i < loc.length) :
    (loc.map g).getD i 0 = g (loc.getD i 0) := by
  simp [List.getD_eq_getElem?_getD, List.getElem?_eq_getElem h]

/-- a body operation relabelled into the circuit passes `check_valid_operation` -/
theorem checkValid_mapLoc (c sub : Circ) (loc : List Nat) (x : Op)
    (hx : x.WF sub.numQudits sub.radixes) (hlen : sub.numQudits = loc.length)
    (hloc : ∀ q ∈ loc, q < c.numQudits) (hrad : sub.radixes = loc.map (c.radixes.getD · 0)) :
    c.checkValid (x.mapLoc loc) = .ok () := by
  obtain ⟨_, _, w3, w4⟩ := hx
  unfold Circ.checkValid
  have h1 : (x.mapLoc loc).loc.all (· < c.numQudits) = true := by
    simp only [Op.mapLoc, List.all_eq_true, List.mem_map, decide_eq_true_eq]
    rintro y ⟨i, hi, rfl⟩
    apply hloc
    rw [getD_nat_of_lt _ _ (by have := w3 i hi; omega)]
    exact List.getElem_mem _
  have h2 : ((x.mapLoc loc).rad.zip (x.mapLoc loc).loc).any
      (fun (r, q) => r != c.radixes.getD q 0) = false := by
    rw [List.any_eq_false]
    intro y hy
    simp only [Op.mapLoc, w4, List.zip_map', List.mem_map] at hy
    obtain ⟨i, hi, rfl⟩ := hy
    have hil : i < loc.length := by have := w3 i hi; omega
    simp only [hrad, getD_map_of_lt loc _ i hil]
    simp
  rw [h1, h2]; rfl

theorem appendCircuit_eq (c sub : Circ) (loc : List Nat) (h : sub.numQudits = loc.length) :
    c.appendCircuit sub loc = (sub.iter.map (·.mapLoc loc)).foldl appF (c, .ok ()) := by
  unfold Circ.appendCircuit
  have : (sub.numQudits != loc.length) = false := by simp [h]
  rw [this, List.foldl_map]
  rfl

theorem resolveCycle_nat (c : Circ) (k : Nat) : c.resolveCycle (k : Int) = (k : Int) := by
  unfold Circ.resolveCycle
  rw [if_neg (by omega), if_neg (by omega)]

theorem insertCircuit_eq_ge (c sub : Circ) (loc : List Nat) (k : Nat)
    (h : sub.numQudits = loc.length) (hk : c.numCycles ≤ k) :
    c.insertCircuit (k : Int) sub loc = c.appendCircuit sub loc := by
  unfold Circ.insertCircuit
  have h1 : (sub.numQudits != loc.length) = false := by simp [h]
  have h2 : ((k : Int) ≥ (c.numCycles : Int)) := by omega
  simp only [resolveCycle_nat]
  rw [h1]; simp only [Bool.false_eq_true, if_false, h2, if_true]

theorem insertCircuit_eq_lt (c sub : Circ) (loc : List Nat) (k : Nat)
    (h : sub.numQudits = loc.length) (hk : k < c.numCycles) :
    c.insertCircuit (k : Int) sub loc =
      (sub.iterRev.map (·.mapLoc loc)).foldl (insF (k : Int)) (c, .ok ()) := by
  unfold Circ.insertCircuit
  have h1 : (sub.numQudits != loc.length) = false := by simp [h]
  have h2 : ¬ ((k : Int) ≥ (c.numCycles : Int)) := by omega
  simp only [resolveCycle_nat]
  rw [h1]; simp only [Bool.false_eq_true, if_false, h2]
  rw [List.foldl_map]
  rfl

/-- relabelling through a map that is injective on the qudits in use: the timelines of the
relabelled list are determined by the timelines of the list -/
theorem proj_map_relabel_congr (f : Nat → Nat) (m : Nat)
    (hinj : ∀ a b, a < m → b < m → f a = f b → a = b) (l1 l2 : List Op)
    (h1 : ∀ o ∈ l1, ∀ i ∈ o.loc, i < m) (h2 : ∀ o ∈ l2, ∀ i ∈ o.loc, i < m)
    (hp : ∀ q, proj q l1 = proj q l2) (q : Nat) :
    proj q (l1.map (Op.relabel f)) = proj q (l2.map (Op.relabel f)) := by
  have key : ∀ (l : List Op), (∀ o ∈ l, ∀ i ∈ o.loc, i < m) →
      (∀ q0, q0 < m → proj (f q0) (l.map (Op.relabel f)) = (proj q0 l).map (Op.relabel f)) ∧
      ((∀ q0, q0 < m → f q0 ≠ q) → proj q (l.map (Op.relabel f)) = []) := by
    intro l hl
    constructor
    · intro q0 hq0
      induction l with
      | nil => simp [proj]
      | cons a t ih =>
        have hon : (Op.relabel f a).on (f q0) = a.on q0 := by
          have hiff : f q0 ∈ a.loc.map f ↔ q0 ∈ a.loc := by
            constructor
            · intro h
              obtain ⟨x, hx, hfx⟩ := List.mem_map.mp h
              have := hinj x q0 (hl a (by simp) x hx) hq0 hfx
              exact this ▸ hx
            · intro h; exact List.mem_map.mpr ⟨q0, h, rfl⟩
          simp only [Op.on, Op.relabel, List.contains_eq_mem]
          exact decide_eq_decide.mpr hiff
        have iht := ih (fun o ho => hl o (by simp [ho]))
        simp only [List.map_cons, proj, List.filter_cons, hon]
        split
        · simp only [List.map_cons, List.cons.injEq, true_and]; exact iht
        · exact iht
    · intro hq
      simp only [proj, List.filter_eq_nil_iff, List.mem_map, Op.on]
      rintro x ⟨a, ha, rfl⟩
      simp only [Op.relabel, List.contains_eq_mem, decide_eq_true_eq]
      intro h
      obtain ⟨i, hi, hfi⟩ := List.mem_map.mp h
      exact hq i (hl a ha i hi) hfi
  by_cases hq : ∃ q0, q0 < m ∧ f q0 = q
  · obtain ⟨q0, hq0, rfl⟩ := hq
    rw [(key l1 h1).1 q0 hq0, (key l2 h2).1 q0 hq0, hp q0]
  · have hq' : ∀ q0, q0 < m → f q0 ≠ q := fun q0 h0 h => hq ⟨q0, h0, h⟩
    rw [(key l1 h1).2 hq', (key l2 h2).2 hq']

/-! ## unfold -/
theorem bodyOk_of_inv (body : Circ) (h : body.Inv) : BodyOk body := by
  intro o ho
  obtain ⟨w1, w2, w3, w4⟩ := mem_ops_wf body h o ho
  exact ⟨w1, w2, by rw [w4]; simp, w3⟩

/-- **the timelines after `unfold`**: the block operation's place in every timeline is taken by
a linearisation `inner` of the body (parameters set, relabelled through the block's location)
whose per-qudit projections are those of the body's operation sequence. -/
theorem unfold_timeline (c : Circ) (hinv : c.Inv) (b : Blocks) (p : Int × Int) (k q0 : Nat)
    (o : Op) (body : Circ) (hg : c.getOp p = .ok (k, q0, o)) (hbody : b.body? o.gid = some body)
    (hbinv : body.Inv) (hfit : body.radixes = o.rad) :
    ∃ (hlt : k < c.cycles.length) (inner : List Op),
      (c.unfold b p).2 = .ok () ∧ (c.unfold b p).1.Inv ∧
      (∀ x ∈ inner, x.loc ≠ []) ∧
      (∀ q, proj q inner = proj q ((distribute body.iter o.par).map (·.mapLoc o.loc))) ∧
      (∀ q, c.timeline q = proj q (c.cycles.take k).flatten ++ (if o.on q then [o] else []) ++
        proj q (c.cycles[k].filter (fun x => !x.on q0)) ++
          proj q (c.cycles.drop (k + 1)).flatten) ∧
      (∀ q, (c.unfold b p).1.timeline q = proj q (c.cycles.take k).flatten ++ proj q inner ++
        proj q (c.cycles[k].filter (fun x => !x.on q0)) ++
          proj q (c.cycles.drop (k + 1)).flatten) := by
  obtain ⟨hr1, hr2, hk, hq, hcell⟩ := getOp_spec c p k q0 o hg
  obtain ⟨hlt, hmem, hq0⟩ := cell_mem c k q0 o hcell
  have hwf := hinv.2.2 _ (List.getElem_mem hlt) o hmem
  obtain ⟨w1, w2, w3, w4⟩ := hwf
  have hq0n : q0 < c.numQudits := w3 q0 hq0
  let sub := setParams body o.par
  have hsubinv : sub.Inv := setParams_inv body o.par hbinv
  have hsubq : sub.numQudits = o.loc.length := by
    show body.radixes.length = o.loc.length
    rw [hfit, w4]; simp
  have hsubr : sub.radixes = o.loc.map (c.radixes.getD · 0) := by
    show body.radixes = _
    rw [hfit, w4]
  -- the call is pop followed by insert_circuit
  have hunf : c.unfold b p = (c.removeAt k q0).insertCircuit (k : Int) sub o.loc := by
    unfold Circ.unfold
    rw [hg]; simp only [hbody]
    unfold Circ.replaceWithCircuit
    simp only [hr1, hr2, Bool.and_self, Bool.not_true, Bool.false_eq_true, if_false, ← hk, ← hq]
    have hpop : c.pop (some ((k : Int), (q0 : Int))) = (c.removeAt k q0, .ok o) := by
      unfold Circ.pop; simp [getOp_nat c k q0 o hlt hq0n hcell]
    rw [hpop]
    have e1 : ((setParams body o.par).numQudits != o.loc.length) = false := by
      rw [bne_eq_false_iff_eq]; exact hsubq
    have e2 : ((setParams body o.par).radixes != o.loc.map (c.radixes.getD · 0)) = false := by
      rw [bne_eq_false_iff_eq]; exact hsubr
    simp only [e1, e2, Bool.false_eq_true, if_false]
    rfl
  have hc1r : (c.removeAt k q0).radixes = c.radixes := removeAt_radixes c k q0
  -- every relabelled body operation is accepted by the circuit
  have hvalid : ∀ x ∈ sub.ops, (c.removeAt k q0).checkValid (x.mapLoc o.loc) = .ok () := by
    intro x hx
    rw [checkValid_congr c _ _ hc1r]
    exact checkValid_mapLoc c sub o.loc x (mem_ops_wf sub hsubinv x hx) hsubq w3 hsubr
  -- relabelling through the block's location is injective on the body's qudits
  have hinj : ∀ a b, a < o.loc.length → b < o.loc.length →
      o.loc.getD a 0 = o.loc.getD b 0 → a = b := by
    intro a b' ha hb hab
    have h1 := idxOf_getD_of_nodup o.loc a ha w2
    have h2 := idxOf_getD_of_nodup o.loc b' hb w2
    rw [hab] at h1; omega
  have hsub_lt : ∀ x ∈ sub.ops, ∀ i ∈ x.loc, i < o.loc.length := by
    intro x hx i hi
    have := (mem_ops_wf sub hsubinv x hx).2.2.1 i hi
    omega
  have hinvU : (c.unfold b p).1.Inv := by
    have : (c.unfold b p).1 = (c.replaceWithCircuit p sub).1 := by
      unfold Circ.unfold; rw [hg]; simp only [hbody]; rfl
    rw [this]
    apply replaceWithCircuit_inv c sub p hinv
    intro loc hl hlen
    exact setParams_shape body (bodyOk_of_inv body hbinv) _ loc hl hlen
  have hcellf : c.cycles[k].find? (·.on q0) = some o := by
    have := hcell
    unfold Circ.cell at this
    rwa [getD_of_lt _ _ hlt] at this
  have hcyk := List.getElem_mem hlt
  -- the linearisation of the body that the call produces
  have hmain : ∃ L : List Op, (∀ x, x ∈ L ↔ x ∈ sub.ops) ∧ (∀ q, proj q L = proj q sub.ops) ∧
      (c.unfold b p).2 = .ok () ∧
      ∀ q, (c.unfold b p).1.timeline q =
        proj q ((c.removeAt k q0).cycles.take k).flatten ++ proj q (L.map (·.mapLoc o.loc)) ++
          proj q ((c.removeAt k q0).cycles.drop k).flatten := by
    by_cases hkc : k < (c.removeAt k q0).numCycles
    · refine ⟨sub.iterRev.reverse, fun x => by rw [List.mem_reverse, mem_iterRev],
        fun q => by rw [proj_iterRev_reverse sub hsubinv]; rfl, ?_, ?_⟩
      · rw [hunf, insertCircuit_eq_lt _ sub o.loc k hsubq hkc]
        exact (insert_fold_timeline k _ _ hkc (by
          intro y hy
          rw [List.mem_map] at hy
          obtain ⟨x, hx, rfl⟩ := hy
          exact hvalid x ((mem_iterRev sub x).1 hx)) 0).1
      · intro q
        rw [hunf, insertCircuit_eq_lt _ sub o.loc k hsubq hkc]
        rw [(insert_fold_timeline k _ _ hkc (by
          intro y hy
          rw [List.mem_map] at hy
          obtain ⟨x, hx, rfl⟩ := hy
          exact hvalid x ((mem_iterRev sub x).1 hx)) q).2, List.map_reverse]
    · have hkc' : (c.removeAt k q0).numCycles ≤ k := Nat.le_of_not_lt hkc
      have hkeq : (c.removeAt k q0).cycles.length = k := by
        have := removeAt_numCycles_ge c k q0 hlt
        simp only [Circ.numCycles] at this hkc'; omega
      refine ⟨sub.iter, fun x => mem_iter sub x,
        fun q => by rw [proj_iter sub hsubinv]; rfl, ?_, ?_⟩
      · rw [hunf, insertCircuit_eq_ge _ sub o.loc k hsubq hkc', appendCircuit_eq _ sub o.loc hsubq]
        exact (append_fold_timeline _ _ (by
          intro y hy
          rw [List.mem_map] at hy
          obtain ⟨x, hx, rfl⟩ := hy
          exact hvalid x ((mem_iter sub x).1 hx)) 0).1
      · intro q
        rw [hunf, insertCircuit_eq_ge _ sub o.loc k hsubq hkc', appendCircuit_eq _ sub o.loc hsubq]
        rw [(append_fold_timeline _ _ (by
          intro y hy
          rw [List.mem_map] at hy
          obtain ⟨x, hx, rfl⟩ := hy
          exact hvalid x ((mem_iter sub x).1 hx)) q).2]
        have e1 : (c.removeAt k q0).cycles.take k = (c.removeAt k q0).cycles :=
          List.take_of_length_le (by omega)
        have e2 : (c.removeAt k q0).cycles.drop k = [] :=
          List.drop_of_length_le (by omega)
        rw [e1, e2]
        simp [Circ.timeline, Circ.ops, proj]
  obtain ⟨L, hLmem, hLproj, hok, htl⟩ := hmain
  refine ⟨hlt, L.map (·.mapLoc o.loc), hok, hinvU, ?_, ?_, ?_, ?_⟩
  · intro x hx
    rw [List.mem_map] at hx
    obtain ⟨y, hy, rfl⟩ := hx
    have := (mem_ops_wf sub hsubinv y ((hLmem y).1 hy)).1
    simpa [Op.mapLoc] using this
  · intro q
    have hops : distribute body.iter o.par = sub.ops := (setParams_ops body o.par).symm
    rw [hops]
    exact proj_map_relabel_congr (fun i => o.loc.getD i 0) o.loc.length hinj L sub.ops
      (fun x hx => hsub_lt x ((hLmem x).1 hx)) hsub_lt hLproj q
  · intro q
    obtain ⟨hsplit, _⟩ := proj_cycle_old c.cycles[k] q0 q o (hinv.2.1 _ hcyk)
      (fun x hx => (hinv.2.2 _ hcyk x hx).1) hcellf
    unfold Circ.timeline Circ.ops
    rw [flatten_split c.cycles k hlt]
    simp only [proj_append, hsplit, List.append_assoc]
  · intro q
    rw [htl q, removeAt_take, removeAt_drop_flatten c k q0 hlt]
    simp only [proj_append, List.append_assoc]

variable {M : Type} [Monoid M]

/-- **unfold keeps the unitary**: in every monoid semantics in which operations on disjoint
qudits commute and a block operation denotes the ordered product of its expansion, the circuit
after `unfold(point)` denotes what it denoted before. -/
theorem unfold_same_den (sem : Op → M)
    (hcomm : ∀ a b, Indep a b → sem a * sem b = sem b * sem a) (b : Blocks)
    (hblock : ∀ o inner, expandOp b o = some inner → sem o = den sem inner)
    (c : Circ) (hinv : c.Inv) (p : Int × Int) (k q0 : Nat) (o : Op) (body : Circ)
    (hg : c.getOp p = .ok (k, q0, o)) (hbody : b.body? o.gid = some body)
    (hbinv : body.Inv) (hfit : body.radixes = o.rad) :
    (c.unfold b p).2 = .ok () ∧ (c.unfold b p).1.Inv ∧
      den sem (c.unfold b p).1.iter = den sem c.iter := by
  obtain ⟨hlt, inner, hok, hinvU, hne, hinner, hbefore, hafter⟩ :=
    unfold_timeline c hinv b p k q0 o body hg hbody hbinv hfit
  refine ⟨hok, hinvU, ?_⟩
  obtain ⟨_, _, _, _, hcell⟩ := getOp_spec c p k q0 o hg
  obtain ⟨_, hmem, _⟩ := cell_mem c k q0 o hcell
  have hcyk := List.getElem_mem hlt
  have hc_ne : ∀ x ∈ c.ops, x.loc ≠ [] := fun x hx => (mem_ops_wf c hinv x hx).1
  have ho_ops : o ∈ c.ops := by
    simp only [Circ.ops, List.mem_flatten]; exact ⟨_, hcyk, hmem⟩
  have hpre : ∀ x ∈ (c.cycles.take k).flatten, x ∈ c.ops := by
    intro x hx
    simp only [Circ.ops, List.mem_flatten] at hx ⊢
    obtain ⟨cy, hcy, hx⟩ := hx
    exact ⟨cy, List.mem_of_mem_take hcy, hx⟩
  have hmid : ∀ x ∈ c.cycles[k].filter (fun x => !x.on q0), x ∈ c.ops := by
    intro x hx
    simp only [Circ.ops, List.mem_flatten]
    exact ⟨_, hcyk, (List.mem_filter.mp hx).1⟩
  have hpost : ∀ x ∈ (c.cycles.drop (k + 1)).flatten, x ∈ c.ops := by
    intro x hx
    simp only [Circ.ops, List.mem_flatten] at hx ⊢
    obtain ⟨cy, hcy, hx⟩ := hx
    exact ⟨cy, List.mem_of_mem_drop hcy, hx⟩
  generalize hPRE : (c.cycles.take k).flatten = PRE at *
  generalize hMID : c.cycles[k].filter (fun x => !x.on q0) = MID at *
  generalize hPOST : (c.cycles.drop (k + 1)).flatten = POST at *
  -- the expansion of the block
  have hexp : expandOp b o = some ((distribute body.iter o.par).map (·.mapLoc o.loc)) := by
    simp [expandOp, hbody]
  have hE_ne : ∀ x ∈ (distribute body.iter o.par).map (·.mapLoc o.loc), x.loc ≠ [] := by
    intro x hx
    rw [List.mem_map] at hx
    obtain ⟨y, hy, rfl⟩ := hx
    obtain ⟨z, hz, e1, _⟩ := mem_distribute _ _ y hy
    have := (mem_ops_wf body hbinv z ((mem_iter body z).1 hz)).1
    simpa [Op.mapLoc, e1] using this
  have h3 : den sem inner = den sem ((distribute body.iter o.par).map (·.mapLoc o.loc)) :=
    trace_equiv sem hcomm _ _ hne hE_ne hinner
  have h4 := hblock o _ hexp
  -- before
  have h1 : den sem c.iter = den sem (PRE ++ o :: (MID ++ POST)) := by
    apply trace_equiv sem hcomm _ _ (inv_iter_locs c hinv).1
    · intro x hx
      rcases List.mem_append.mp hx with hx | hx
      · exact hc_ne x (hpre x hx)
      · rcases List.mem_cons.mp hx with rfl | hx
        · exact hc_ne _ ho_ops
        · rcases List.mem_append.mp hx with hx | hx
          · exact hc_ne x (hmid x hx)
          · exact hc_ne x (hpost x hx)
    · intro q
      rw [proj_iter c hinv, hbefore q]
      have : proj q (o :: (MID ++ POST)) = (if o.on q then [o] else []) ++ proj q (MID ++ POST) := by
        rw [← proj_single, ← proj_append]; rfl
      rw [proj_append, this, proj_append]
      simp only [List.append_assoc]
  -- after
  have h2 : den sem (c.unfold b p).1.iter = den sem (PRE ++ inner ++ (MID ++ POST)) := by
    apply trace_equiv sem hcomm _ _ (inv_iter_locs _ hinvU).1
    · intro x hx
      rcases List.mem_append.mp hx with hx | hx
      · rcases List.mem_append.mp hx with hx | hx
        · exact hc_ne x (hpre x hx)
        · exact hne x hx
      · rcases List.mem_append.mp hx with hx | hx
        · exact hc_ne x (hmid x hx)
        · exact hc_ne x (hpost x hx)
    · intro q
      rw [proj_iter _ hinvU, hafter q]
      simp only [proj_append, List.append_assoc]
  rw [h1, h2]
  simp only [den_append, den_cons]
  rw [h3, ← h4, mul_assoc]

end BqVerif.Circ
