import BqVerif.Proofs.ServerHist
/-! C13: the error path worker -> managers -> server -> client. -/
namespace BqVerif.Server

/-- `d` was created (transitively, by `submit`/`map`) by the task `root` -/
inductive Desc (root : RTask) : RTask → Prop
  | root : Desc root root
  | spawn {p : RTask} (w : Int) (mb slot : Nat) : Desc root p → Desc root (spawn p w mb slot)

theorem Desc.comp {root d : RTask} (h : Desc root d) : d.comp = root.comp := by
  induction h with
  | root => rfl
  | spawn w mb slot _ ih => simpa [BqVerif.Server.spawn] using ih

theorem throughManagers_id (k : Nat) (u : Up) : throughManagers k u = u := by
  induction k generalizing u with
  | zero => rfl
  | succ k ih =>
    cases u with
    | error m msg => simp [throughManagers, mgrBelow, mgrForwardsVerbatim, ih]

theorem recvHandle_logs (logs : List Nat) (rest : List CMsg) (tr : Option Reply) :
    recvHandle (logs.map CMsg.log ++ rest) tr = recvHandle rest tr := by
  induction logs with
  | nil => rfl
  | cons x xs ih => simpa [recvHandle] using ih

theorem step_error_eq {s : Srv} (h : Inv s) (m : Mid) (msg : Nat) :
    ∃ s', step s (.error m msg) = .ok s' ∧ s'.clients = s.clients ∧ s'.tasks = s.tasks ∧
      s'.m2t = s.m2t ∧ s'.boxes = s.boxes ∧ s'.counter = s.counter ∧ s'.running = s.running ∧
      s'.closed = s.closed ∧
      (match get? s.boxes m with
       | none => s'.out = []
       | some _ => ∃ t c ts, get? s.m2t m = some t ∧ get? s.tasks t = some (m, c) ∧
           get? s.clients c = some ts ∧ t ∈ ts ∧ s'.out = [.errorTo c msg]) := by
  rcases handleError_eq h.clearOut m msg with ⟨hb, e1⟩ | ⟨b, t, c, ts, hb, hm, h1, hc, ht, e1⟩
  · have hb' : get? s.boxes m = none := hb
    exact ⟨_, e1, rfl, rfl, rfl, rfl, rfl, rfl, rfl, by simp [hb']⟩
  · have hb' : get? s.boxes m = some b := hb
    exact ⟨_, e1, rfl, rfl, rfl, rfl, rfl, rfl, rfl,
      by simp only [hb']; exact ⟨t, c, ts, hm, h1, hc, ht, by simp [Srv.emit]⟩⟩

theorem preDrain_logs (logs : List Nat) (rest : List CMsg) :
    preDrain (logs.map CMsg.log ++ rest) = preDrain rest := by
  induction logs with
  | nil => rfl
  | cons x xs ih => simpa [preDrain] using ih

end BqVerif.Server
