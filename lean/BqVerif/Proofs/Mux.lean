import BqVerif.Model.Mux
/-! Lemmas on the location re-ordering of `MGDPass.run` (C10). -/
namespace BqVerif.Mux

theorem moveLast_eq {loc : List Nat} {t : Nat} (h : t < loc.length) :
    moveLast loc t = some (loc.eraseIdx t ++ [loc[t]]) := by
  simp [moveLast, h, List.eraseIdx_eq_take_drop_succ]

theorem moveLast_none {loc : List Nat} {t : Nat} : moveLast loc t = none ↔ loc.length ≤ t := by
  simp [moveLast]

theorem length_eraseIdx_lt {loc : List Nat} {t : Nat} (h : t < loc.length) :
    (loc.eraseIdx t).length = loc.length - 1 := by
  simp [List.length_eraseIdx, h]

/-- The roles under the last-target gate at the re-ordered location. -/
theorem roles_moveLast {loc : List Nat} {t : Nat} (h : t < loc.length) :
    roles (loc.eraseIdx t ++ [loc[t]]) (loc.length - 1) = roles loc t := by
  have hl : (loc.eraseIdx t).length = loc.length - 1 := length_eraseIdx_lt h
  have h1 : loc.length - 1 < (loc.eraseIdx t ++ [loc[t]]).length := by
    simp [hl]
  simp only [roles, h1, h, dite_true]
  congr 1
  refine Prod.ext ?_ ?_
  · simp only
    rw [← hl, List.eraseIdx_append_of_length_le (Nat.le_refl _)]
    simp
  · simp only
    rw [List.getElem_append_right (by omega)]
    simp [hl]

theorem perm_moveLast {loc : List Nat} {t : Nat} (h : t < loc.length) :
    (loc.eraseIdx t ++ [loc[t]]).Perm loc := by
  have e : loc = loc.take t ++ loc[t] :: loc.drop (t + 1) := by
    conv => lhs; rw [← List.take_append_drop t loc]
    rw [List.drop_eq_getElem_cons h]
  have p1 : (loc.eraseIdx t ++ [loc[t]]).Perm (loc[t] :: loc.eraseIdx t) :=
    List.perm_append_singleton _ _
  have p2 : (loc[t] :: loc.eraseIdx t).Perm (loc.take t ++ loc[t] :: loc.drop (t + 1)) := by
    rw [List.eraseIdx_eq_take_drop_succ]
    exact List.perm_middle.symm
  have p3 : (loc.take t ++ loc[t] :: loc.drop (t + 1)).Perm loc := by rw [← e]
  exact (p1.trans p2).trans p3

end BqVerif.Mux
