import BqVerif.Proofs.ServerInv
/-! C13: `handle_disconnect` on invariant states - the two loops never hit a missing key;
extensional description of the post-state. -/
namespace BqVerif.Server

/-- mailbox of a task -/
def mbOf (s : Srv) (t : Tid) : Option Mid := (get? s.tasks t).map (·.1)

/-- owner of a mailbox -/
def mbOwner (s : Srv) (m : Mid) : Option Conn :=
  (get? s.m2t m).bind (fun t => (get? s.tasks t).map (·.2))

theorem clientReplies_append (a b : List Out) :
    clientReplies (a ++ b) = clientReplies a ++ clientReplies b := by
  simp [clientReplies, List.filterMap_append]

/-- `cancelCore` as `handle_disconnect` uses it: the owner is already popped and closed. -/
theorem cancelCore_closed {s : Srv} {c t m b} (hc : get? s.clients c = none) (hcl : c ∈ s.closed)
    (h1 : get? s.tasks t = some (m, c)) (h2 : get? s.boxes m = some b) :
    cancelCore s t = .ok ({ s with boxes := del s.boxes m }.emit (.downCancel m)) := by
  simp [cancelCore, h1, h2, hc, Srv.emit, hcl]

theorem cancelAll_post (c : Conn) : ∀ (ts : List Tid) (s : Srv),
    get? s.clients c = none → c ∈ s.closed → ts.Nodup →
    (∀ t ∈ ts, ∃ m b, get? s.tasks t = some (m, c) ∧ get? s.boxes m = some b) →
    (∀ t t' m c1 c2, get? s.tasks t = some (m, c1) → get? s.tasks t' = some (m, c2) → t = t') →
    ∃ s2, cancelAll ts s = .ok s2 ∧ s2.clients = s.clients ∧ s2.tasks = s.tasks ∧ s2.m2t = s.m2t ∧
      s2.counter = s.counter ∧ s2.running = s.running ∧ s2.closed = s.closed ∧
      (∃ downs, s2.out = s.out ++ downs ∧ ∀ o ∈ downs, ∃ m, o = Out.downCancel m) ∧
      ∀ m, get? s2.boxes m = if ts.any (fun t => mbOf s t == some m) then none else get? s.boxes m := by
  intro ts
  induction ts with
  | nil => intro s _ _ _ _ _; exact ⟨s, rfl, rfl, rfl, rfl, rfl, rfl, rfl, ⟨[], by simp, by simp⟩, by simp⟩
  | cons t r ih =>
    intro s hc hcl hnd hall hinj
    obtain ⟨m, b, h1, h2⟩ := hall t (List.mem_cons_self)
    have hnd' := List.nodup_cons.mp hnd
    let s1 : Srv := { s with boxes := del s.boxes m }.emit (.downCancel m)
    have hall' : ∀ t' ∈ r, ∃ m' b', get? s1.tasks t' = some (m', c) ∧ get? s1.boxes m' = some b' := by
      intro t' ht'
      obtain ⟨m', b', x, y⟩ := hall t' (List.mem_cons_of_mem _ ht')
      refine ⟨m', b', x, ?_⟩
      have : m ≠ m' := by
        intro e; subst e
        have := hinj _ _ _ _ _ h1 x; subst this; exact hnd'.1 ht'
      simp [s1, Srv.emit, get?_del, this, y]
    obtain ⟨s2, e0, e1, e2, e3, e4, e5, e6, e7, e8⟩ := ih s1 hc hcl hnd'.2 hall' hinj
    refine ⟨s2, ?_, e1, e2, e3, e4, e5, e6, ?_, ?_⟩
    · simp only [cancelAll, cancelCore_closed hc hcl h1 h2]; exact e0
    · obtain ⟨downs, d1, d2⟩ := e7
      refine ⟨Out.downCancel m :: downs, by rw [d1]; simp [s1, Srv.emit], ?_⟩
      intro o ho
      rcases List.mem_cons.mp ho with x | x
      · exact ⟨m, x⟩
      · exact d2 o x
    · intro m'
      rw [e8 m']
      have hmb : mbOf s t = some m := by simp [mbOf, h1]
      have same : ∀ t', mbOf s1 t' = mbOf s t' := fun _ => rfl
      simp only [List.any_cons, same, hmb]
      by_cases e : m = m'
      · subst e; simp [s1, Srv.emit, get?_del]
      · have : (some m == some m') = false := by simp [e]
        simp [this, s1, Srv.emit, get?_del, e]

theorem popList_post : ∀ (L : List (Tid × Mid)) (s : Srv),
    (L.map (·.1)).Nodup → (L.map (·.2)).Nodup →
    (∀ p ∈ L, (get? s.tasks p.1).isSome ∧ (get? s.m2t p.2).isSome) →
    ∃ s', popList L s = .ok s' ∧ s'.clients = s.clients ∧ s'.boxes = s.boxes ∧
      s'.counter = s.counter ∧ s'.running = s.running ∧ s'.closed = s.closed ∧ s'.out = s.out ∧
      (∀ t, get? s'.tasks t = if t ∈ L.map (·.1) then none else get? s.tasks t) ∧
      (∀ m, get? s'.m2t m = if m ∈ L.map (·.2) then none else get? s.m2t m) ∧
      (KeysNodup s.tasks → KeysNodup s'.tasks) := by
  intro L
  induction L with
  | nil => intro s _ _ _; exact ⟨s, rfl, rfl, rfl, rfl, rfl, rfl, rfl, by simp, by simp, id⟩
  | cons p r ih =>
    intro s n1 n2 hall
    obtain ⟨t, m⟩ := p
    simp only [List.map_cons, List.nodup_cons] at n1 n2
    obtain ⟨ht, hm⟩ := hall (t, m) (List.mem_cons_self)
    let s1 : Srv := { s with tasks := del s.tasks t, m2t := del s.m2t m }
    have hall' : ∀ p ∈ r, (get? s1.tasks p.1).isSome ∧ (get? s1.m2t p.2).isSome := by
      intro p hp
      obtain ⟨x, y⟩ := hall p (List.mem_cons_of_mem _ hp)
      have a : t ≠ p.1 := by
        intro e; exact n1.1 (e ▸ List.mem_map.mpr ⟨p, hp, rfl⟩)
      have b : m ≠ p.2 := by
        intro e; exact n2.1 (e ▸ List.mem_map.mpr ⟨p, hp, rfl⟩)
      simp [s1, get?_del, a, b, x, y]
    obtain ⟨s', e0, e1, e2, e3, e4, e5, e6, e7, e8, e9⟩ := ih s1 n1.2 n2.2 hall'
    refine ⟨s', ?_, e1, e2, e3, e4, e5, e6, ?_, ?_, ?_⟩
    · cases hx : get? s.tasks t with
      | none => rw [hx] at ht; cases ht
      | some x =>
        cases hy : get? s.m2t m with
        | none => rw [hy] at hm; cases hm
        | some y => simp only [popList, hx, hy]; exact e0
    · intro t'
      rw [e7 t']
      by_cases a : t = t'
      · subst a; simp [s1, get?_del]
      · have : ¬ t' = t := fun e => a e.symm
        simp only [List.map_cons, List.mem_cons, this, false_or]
        simp [s1, get?_del, a]
    · intro m'
      rw [e8 m']
      by_cases a : m = m'
      · subst a; simp [s1, get?_del]
      · have : ¬ m' = m := fun e => a e.symm
        simp only [List.map_cons, List.mem_cons, this, false_or]
        simp [s1, get?_del, a]
    · intro hk; exact e9 (hk.del t)

theorem mem_ownedBy {tasks : List (Tid × (Mid × Conn))} {c : Conn} {t : Tid} {m : Mid} :
    (t, m) ∈ ownedBy tasks c ↔ (t, (m, c)) ∈ tasks := by
  simp only [ownedBy, List.mem_map, List.mem_filter]
  constructor
  · rintro ⟨⟨t', m', c'⟩, ⟨h1, h2⟩, h3⟩
    simp at h2 h3; obtain ⟨rfl, rfl⟩ := h3; subst h2; exact h1
  · intro h; exact ⟨(t, (m, c)), ⟨h, by simp⟩, rfl⟩

/-- what `handle_disconnect` leaves behind -/
structure DiscPost (s : Srv) (c : Conn) (s' : Srv) : Prop where
  clients : ∀ c', get? s'.clients c' = if c = c' then none else get? s.clients c'
  tasks : ∀ t, get? s'.tasks t = (get? s.tasks t).filter (fun e => e.2 != c)
  m2t : ∀ m, get? s'.m2t m = if mbOwner s m = some c then none else get? s.m2t m
  boxes : ∀ m, get? s'.boxes m = if mbOwner s m = some c then none else get? s.boxes m
  counter : s'.counter = s.counter
  running : s'.running = s.running
  closed : s'.closed = c :: s.closed
  replies : clientReplies s'.out = clientReplies s.out ++ [.close c]
  outShape : ∃ downs, s'.out = s.out ++ Out.close c :: downs ∧ ∀ o ∈ downs, ∃ m, o = Out.downCancel m
  nodup : KeysNodup s'.tasks

theorem handleDisconnect_post {s : Srv} (h : Inv s) {c ts} (hc : get? s.clients c = some ts) :
    ∃ s', handleDisconnect s c = .ok s' ∧ DiscPost s c s' := by
  let s1 : Srv := { s with closed := c :: s.closed, clients := del s.clients c }.emit (.close c)
  have A := cancelAll_post c ts s1 (by simp [s1, Srv.emit, get?_del]) (by simp [s1, Srv.emit])
    (h.clNodup c ts hc)
    (by intro t ht; exact h.clSub c ts t hc ht)
    (by intro t t' m c1 c2 x y; exact h.mb_inj x y)
  obtain ⟨s2, a0, a1, a2, a3, a4, a5, a6, a7, a8⟩ := A
  have tk2 : s2.tasks = s.tasks := a2
  have mt2 : s2.m2t = s.m2t := a3
  -- the second loop
  have memL : ∀ t m, (t, m) ∈ ownedBy s.tasks c ↔ get? s.tasks t = some (m, c) := by
    intro t m
    rw [mem_ownedBy]
    exact ⟨mem_get? h.tkNodup, get?_mem⟩
  have n1 : ((ownedBy s.tasks c).map (·.1)).Nodup := by
    have : (ownedBy s.tasks c).map (·.1) = (s.tasks.filter (fun e => e.2.2 == c)).map (·.1) := by
      simp [ownedBy, List.map_map, Function.comp_def]
    rw [this]
    exact List.Nodup.sublist (List.Sublist.map _ List.filter_sublist) h.tkNodup
  have n2 : ((ownedBy s.tasks c).map (·.2)).Nodup := by
    have e : (ownedBy s.tasks c).map (·.2) = (s.tasks.filter (fun e => e.2.2 == c)).map (·.2.1) := by
      simp [ownedBy, List.map_map, Function.comp_def]
    rw [e, List.nodup_iff_pairwise_ne, List.pairwise_map]
    have hk : List.Pairwise (fun a b : Tid × (Mid × Conn) => a.1 ≠ b.1)
        (s.tasks.filter (fun e => e.2.2 == c)) := by
      have := h.tkNodup
      rw [KeysNodup, List.nodup_iff_pairwise_ne, List.pairwise_map] at this
      exact this.filter _
    refine hk.imp_of_mem ?_
    intro a b ha hb hab e
    obtain ⟨ta, ma, ca⟩ := a
    obtain ⟨tb, mb, cb⟩ := b
    simp only [List.mem_filter] at ha hb
    simp at e; subst e
    exact hab (h.mb_inj (mem_get? h.tkNodup ha.1) (mem_get? h.tkNodup hb.1))
  have B := popList_post (ownedBy s2.tasks c) s2 (by rw [tk2]; exact n1) (by rw [tk2]; exact n2)
    (by
      intro p hp
      rw [tk2] at hp
      obtain ⟨t, m⟩ := p
      have x := (memL t m).mp hp
      rw [tk2, mt2]
      simp [x, (h.tk _ _ _ x).2.1])
  obtain ⟨s3, b0, b1, b2, b3, b4, b5, b6, b7, b8, b9⟩ := B
  refine ⟨s3, ?_, ?_⟩
  · simp only [handleDisconnect, hc]
    change (match cancelAll ts s1 with
      | Except.error e => Except.error e
      | Except.ok s2 => popList (ownedBy s2.tasks c) s2) = Except.ok s3
    rw [a0]; exact b0
  · have inL1 : ∀ t, t ∈ (ownedBy s.tasks c).map (·.1) ↔ ∃ m, get? s.tasks t = some (m, c) := by
      intro t
      constructor
      · intro ht
        obtain ⟨⟨t', m⟩, hp, rfl⟩ := List.mem_map.mp ht
        exact ⟨m, (memL _ _).mp hp⟩
      · rintro ⟨m, hm⟩
        exact List.mem_map.mpr ⟨(t, m), (memL _ _).mpr hm, rfl⟩
    have inL2 : ∀ m, m ∈ (ownedBy s.tasks c).map (·.2) ↔ ∃ t, get? s.tasks t = some (m, c) := by
      intro m
      constructor
      · intro hm
        obtain ⟨⟨t, m'⟩, hp, rfl⟩ := List.mem_map.mp hm
        exact ⟨t, (memL _ _).mp hp⟩
      · rintro ⟨t, ht⟩
        exact List.mem_map.mpr ⟨(t, m), (memL _ _).mpr ht, rfl⟩
    have own : ∀ m, mbOwner s m = some c ↔ ∃ t, get? s.tasks t = some (m, c) := by
      intro m
      constructor
      · intro ho
        simp only [mbOwner] at ho
        cases hm : get? s.m2t m with
        | none => simp [hm] at ho
        | some t =>
          obtain ⟨c', hc'⟩ := h.mt m t hm
          simp [hm, hc'] at ho; subst ho; exact ⟨t, hc'⟩
      · rintro ⟨t, ht⟩
        simp [mbOwner, (h.tk _ _ _ ht).2.1, ht]
    constructor
    · intro c'
      rw [b1, a1]
      simp [s1, Srv.emit, get?_del]
    · intro t
      rw [b7 t, tk2]
      by_cases x : t ∈ (ownedBy s.tasks c).map (·.1)
      · obtain ⟨m, hm⟩ := (inL1 t).mp x
        simp [x, hm, Option.filter]
      · simp only [x, if_false]
        cases ht : get? s.tasks t with
        | none => rfl
        | some e =>
          obtain ⟨m, c'⟩ := e
          have : c' ≠ c := by
            intro e; subst e; exact x ((inL1 t).mpr ⟨m, ht⟩)
          simp [Option.filter, this]
    · intro m
      rw [b8 m, tk2, mt2]
      by_cases x : mbOwner s m = some c
      · simp [x, (inL2 m).mpr ((own m).mp x)]
      · have : m ∉ (ownedBy s.tasks c).map (·.2) := fun y => x ((own m).mpr ((inL2 m).mp y))
        simp [x, this]
    · intro m
      rw [b2, a8 m]
      have hs1 : get? s1.boxes m = get? s.boxes m := rfl
      rw [hs1]
      by_cases x : mbOwner s m = some c
      · simp only [x, if_true]
        obtain ⟨t, ht⟩ := (own m).mp x
        cases hb : get? s.boxes m with
        | none => simp
        | some b =>
          obtain ⟨t', c', ts', y1, y2, y3⟩ := h.bx m b hb
          have := h.mb_inj ht y1; subst this
          rw [ht] at y1; cases y1
          rw [hc] at y2; cases y2
          have : ts.any (fun t => mbOf s1 t == some m) = true := by
            apply List.any_eq_true.mpr
            exact ⟨t, y3, by simp [mbOf, s1, Srv.emit, ht]⟩
          simp [this]
      · simp only [x, if_false]
        have : ts.any (fun t => mbOf s1 t == some m) = false := by
          apply Bool.eq_false_iff.mpr
          intro hany
          obtain ⟨t, ht, hm⟩ := List.any_eq_true.mp hany
          obtain ⟨m', b', z1, _⟩ := h.clSub c ts t hc ht
          have : m' = m := by simpa [mbOf, s1, Srv.emit, z1] using hm
          subst this
          exact x ((own m').mpr ⟨t, z1⟩)
        simp [this]
    · rw [b3, a4]; rfl
    · rw [b4, a5]; rfl
    · rw [b5, a6]; rfl
    · obtain ⟨downs, d1, d2⟩ := a7
      rw [b6, d1]
      have : clientReplies downs = [] := by
        unfold clientReplies
        apply List.filterMap_eq_nil_iff.mpr
        intro o ho; obtain ⟨m, rfl⟩ := d2 o ho; rfl
      rw [clientReplies_append, this]
      simp [s1, Srv.emit, clientReplies, Out.reply?]
    · obtain ⟨downs, d1, d2⟩ := a7
      exact ⟨downs, by rw [b6, d1]; simp [s1, Srv.emit], d2⟩
    · exact b9 (by rw [tk2]; exact h.tkNodup)

theorem Inv.mbOwner_eq {s : Srv} (h : Inv s) {t m c} (ht : get? s.tasks t = some (m, c)) :
    mbOwner s m = some c := by
  simp [BqVerif.Server.mbOwner, (h.tk _ _ _ ht).2.1, ht]

theorem filter_owner_some {e : Mid × Conn} {c : Conn} {o : Option (Mid × Conn)} {x : Mid × Conn}
    (h : (o.filter (fun e => e.2 != c)) = some x) : o = some x ∧ x.2 ≠ c := by
  cases o with
  | none => simp [Option.filter] at h
  | some y =>
    simp only [Option.filter] at h
    by_cases hy : (y.2 != c) = true
    · simp [hy] at h; subst h; exact ⟨rfl, by simpa using hy⟩
    · simp [hy] at h

theorem Inv.disc {s s' : Srv} (h : Inv s) {c} (p : DiscPost s c s') : Inv s' := by
  have tk' : ∀ t m c', get? s'.tasks t = some (m, c') → get? s.tasks t = some (m, c') ∧ c' ≠ c := by
    intro t m c' ht
    rw [p.tasks t] at ht
    exact filter_owner_some (e := (m, c')) ht
  have tk'' : ∀ t m c', get? s.tasks t = some (m, c') → c' ≠ c → get? s'.tasks t = some (m, c') := by
    intro t m c' ht hne
    rw [p.tasks t, ht]; simp [Option.filter, hne]
  constructor
  · exact p.nodup
  · intro c' ts' hc'
    rw [p.clients c'] at hc'
    by_cases e : c = c'
    · simp [e] at hc'
    · simp [e] at hc'; exact h.clNodup _ _ hc'
  · intro c' ts' t' hc' ht'
    rw [p.clients c'] at hc'
    by_cases e : c = c'
    · simp [e] at hc'
    · simp [e] at hc'
      obtain ⟨m', b', x, y⟩ := h.clSub _ _ _ hc' ht'
      have ne : c' ≠ c := fun z => e z.symm
      refine ⟨m', b', tk'' _ _ _ x ne, ?_⟩
      rw [p.boxes m', h.mbOwner_eq x]; simp [ne, y]
  · intro t' m' c' ht'
    obtain ⟨x, ne⟩ := tk' _ _ _ ht'
    obtain ⟨⟨ts', y⟩, z, w⟩ := h.tk _ _ _ x
    have ne' : ¬ c = c' := fun z => ne z.symm
    refine ⟨⟨ts', by rw [p.clients c']; simp [ne', y]⟩, ?_, by rw [p.counter]; exact w⟩
    rw [p.m2t m', h.mbOwner_eq x]; simp [ne, z]
  · intro m' t' hm'
    rw [p.m2t m'] at hm'
    by_cases e : mbOwner s m' = some c
    · simp [e] at hm'
    · simp [e] at hm'
      obtain ⟨c', x⟩ := h.mt _ _ hm'
      have : c' ≠ c := by intro z; subst z; exact e (h.mbOwner_eq x)
      exact ⟨c', tk'' _ _ _ x this⟩
  · intro m' b' hb'
    rw [p.boxes m'] at hb'
    by_cases e : mbOwner s m' = some c
    · simp [e] at hb'
    · simp [e] at hb'
      obtain ⟨t', c', ts', x, y, z⟩ := h.bx _ _ hb'
      have ne : c' ≠ c := by intro z; subst z; exact e (h.mbOwner_eq x)
      have ne' : ¬ c = c' := fun z => ne z.symm
      exact ⟨t', c', ts', tk'' _ _ _ x ne, by rw [p.clients c']; simp [ne', y], z⟩
  · intro c' hc'
    rw [p.closed] at hc'
    rw [p.clients c']
    by_cases e : c = c'
    · simp [e]
    · simp [e]
      rcases List.mem_cons.mp hc' with z | z
      · exact absurd z.symm e
      · exact h.closed c' z
  · rw [p.running]; exact h.running

end BqVerif.Server
