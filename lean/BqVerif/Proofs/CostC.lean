import BqVerif.Proofs.CostAlg
import Mathlib.LinearAlgebra.Matrix.PosDef
import Mathlib.Analysis.Complex.Basic
/-!
The Hilbert–Schmidt cost over ℂ: `Definite ℂ`, the equality case with norms, the bound
`|tr(A†B)| ≤ c`, and the three target kinds.
-/
namespace BqVerif.CostAlg
open Matrix ComplexOrder

variable {m k : Type*} [Fintype m] [Fintype k]

theorem definite_complex : Definite ℂ m k :=
  fun _ h => trace_conjTranspose_mul_self_eq_zero_iff.mp h

theorem mul_star_eq_norm_sq (t : ℂ) : t * star t = ((‖t‖ ^ 2 : ℝ) : ℂ) := by
  rw [Complex.star_def, Complex.mul_conj, Complex.normSq_eq_norm_sq]

theorem norm_eq_iff_mul_star (t : ℂ) (c : ℝ) (hc : 0 ≤ c) :
    ‖t‖ = c ↔ t * star t = (c : ℂ) * c := by
  rw [mul_star_eq_norm_sq, ← Complex.ofReal_mul, Complex.ofReal_inj]
  constructor
  · intro h; rw [h]; ring
  · intro h
    have h2 : ‖t‖ ^ 2 = c ^ 2 := by rw [h]; ring
    exact (sq_eq_sq₀ (norm_nonneg t) hc).mp h2

/-- Cauchy–Schwarz equality for two complex matrices of equal squared Frobenius norm `c > 0`. -/
theorem frob_eq_iff_complex (A B : Matrix m k ℂ) (c : ℝ) (hc : 0 < c)
    (hA : hs A A = c) (hB : hs B B = c) :
    ‖hs A B‖ = c ↔ ∃ l : ℂ, ‖l‖ = 1 ∧ B = l • A := by
  have hne : (c : ℂ) ≠ 0 := Complex.ofReal_ne_zero.mpr (ne_of_gt hc)
  rw [norm_eq_iff_mul_star _ c (le_of_lt hc),
    frob_eq_iff definite_complex A B (c : ℂ) (c : ℂ)⁻¹ (mul_inv_cancel₀ hne)
      (by simp) (by simp) hA hB]
  constructor
  · rintro ⟨l, hl, h⟩
    refine ⟨l, ?_, h⟩
    have := (norm_eq_iff_mul_star l 1 zero_le_one).mpr (by simpa using hl)
    exact this
  · rintro ⟨l, hl, h⟩
    refine ⟨l, ?_, h⟩
    have := (norm_eq_iff_mul_star l 1 zero_le_one).mp hl
    simpa using this

theorem hs_self_re_nonneg (D : Matrix m k ℂ) : 0 ≤ (hs D D).re := by
  have h := (posSemidef_conjTranspose_mul_self D).trace_nonneg
  exact (Complex.nonneg_iff.mp h).1

/-- Cauchy–Schwarz: `|tr(A†B)| ≤ c` for matrices of squared norm `c`. -/
theorem frob_le_complex (A B : Matrix m k ℂ) (c : ℝ) (hA : hs A A = c) (hB : hs B B = c) :
    ‖hs A B‖ ≤ c := by
  set t := hs A B with ht
  by_cases h0 : t = 0
  · rw [h0, norm_zero]
    have := hs_self_re_nonneg A
    rw [hA] at this; simpa using this
  · have hn : (0 : ℝ) < ‖t‖ := norm_pos_iff.mpr h0
    set l : ℂ := t / (‖t‖ : ℂ) with hl
    have hnc : ((‖t‖ : ℝ) : ℂ) ≠ 0 := Complex.ofReal_ne_zero.mpr (ne_of_gt hn)
    have hll : star l * l = 1 := by
      rw [hl, star_div₀, Complex.star_def, Complex.conj_ofReal, div_mul_div_comm, mul_comm,
        ← Complex.star_def, mul_star_eq_norm_sq]
      rw [div_eq_one_iff_eq (mul_ne_zero hnc hnc)]
      push_cast; ring
    have hlt : star l * t = (‖t‖ : ℂ) := by
      rw [hl, star_div₀, Complex.star_def, Complex.conj_ofReal, div_mul_eq_mul_div, mul_comm,
        ← Complex.star_def, mul_star_eq_norm_sq, div_eq_iff hnc]
      push_cast; ring
    have hlt' : l * star t = (‖t‖ : ℂ) := by
      have := congrArg star hlt
      rw [star_mul', star_star, Complex.star_def, Complex.conj_ofReal] at this
      rw [mul_comm] at this
      simpa [mul_comm] using this
    have h := hs_self_re_nonneg (B - l • A)
    have hBA : hs B A = star t := (hs_conj A B).symm
    rw [hs_diff, hA, hB, hBA, hlt', ← ht, hlt, hll] at h
    simp at h
    linarith

end BqVerif.CostAlg
