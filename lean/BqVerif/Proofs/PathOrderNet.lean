import BqVerif.Proofs.PathOrder
/-!
# SUBMIT before CANCEL on the link worker → server, in every reachable state of the flat network
-/
namespace BqVerif.Runtime

theorem chanGet_chanSet (cs : List ((NodeId × NodeId) × List Msg)) (k k' : NodeId × NodeId)
    (v : List Msg) : chanGet (chanSet cs k v) k' = if k = k' then v else chanGet cs k' := by
  induction cs with
  | nil => simp [chanSet, chanGet]
  | cons c t ih =>
    obtain ⟨x, l⟩ := c
    by_cases h : x = k
    · subst h
      simp only [chanSet, if_true, chanGet]
      by_cases h2 : x = k' <;> simp [h2]
    · simp only [chanSet, h, if_false, chanGet, ih]
      by_cases h2 : x = k'
      · subst h2
        simp only [if_true]
        have : ¬ k = x := fun e => h e.symm
        simp [this]
      · simp [h2]

theorem alive_post (n : Net) (s d : NodeId) (m : Msg) (x : NodeId) :
    (n.post s d m).alive x = n.alive x := by
  unfold Net.post
  split
  · cases x <;> rfl
  · rfl

theorem chanGet_post (n : Net) (s d : NodeId) (m : Msg) (k : NodeId × NodeId) :
    chanGet (n.post s d m).chans k
      = if (s, d) = k ∧ n.alive d = true then chanGet n.chans k ++ [m] else chanGet n.chans k := by
  unfold Net.post
  by_cases ha : n.alive d = true
  · simp only [ha, if_true, and_true]
    rw [chanGet_chanSet]
    by_cases hk : (s, d) = k
    · subst hk; simp
    · simp [hk]
  · simp [ha]

theorem chanGet_postAll_ne (n : Net) (s : NodeId) (o : Out) (k : NodeId × NodeId) (h : k.1 ≠ s) :
    chanGet (n.postAll s o).chans k = chanGet n.chans k := by
  unfold Net.postAll
  induction o generalizing n with
  | nil => rfl
  | cons dm t ih =>
    simp only [List.foldl_cons]
    rw [ih, chanGet_post]
    have : ¬ ((s, dm.1) = k ∧ n.alive dm.1 = true) := by
      rintro ⟨e, _⟩
      apply h; rw [← e]
    simp [this]

theorem chanGet_postAll_same (n : Net) (s d : NodeId) (out : List Msg) :
    chanGet (n.postAll s (out.map (fun m => (d, m)))).chans (s, d)
      = if n.alive d = true then chanGet n.chans (s, d) ++ out else chanGet n.chans (s, d) := by
  unfold Net.postAll
  induction out generalizing n with
  | nil => simp
  | cons m t ih =>
    simp only [List.map_cons, List.foldl_cons]
    rw [ih, alive_post, chanGet_post]
    by_cases ha : n.alive d = true
    · simp [ha]
    · simp [ha]

/-- the link invariant: on the channel of every worker to the server no task of `a` is behind a
    CANCEL of `a`; every CANCEL there is for a mailbox id of that worker below its counter -/
structure PInv (n : Net) : Prop where
  fresh : ∀ w ∈ n.workers, Fresh w
  link : ∀ w ∈ n.workers, ∀ a, LInv a w.id w.counter (chanGet n.chans (.wrk w.id, .server))

theorem LInv.tail {a : Addr} {id : Int} {c : Nat} {m : Msg} {l : List Msg} (h : LInv a id c (m :: l)) :
    LInv a id c l :=
  ⟨okSeq_tail a m l h.ok, fun x => h.can (by simp [List.any_cons, x])⟩

theorem LInv.ite {a : Addr} {id : Int} {c : Nat} {x y : List Msg} (P : Prop) [Decidable P]
    (hx : LInv a id c x) (hy : LInv a id c y) : LInv a id c (if P then x else y) := by
  split
  · exact hx
  · exact hy

/-- transitions that only take messages off worker→server channels and let workers receive -/
theorem PInv.of_shrink {n n' : Net} (h : PInv n)
    (hw : ∀ w' ∈ n'.workers, ∃ w ∈ n.workers, Mono w w')
    (hc : ∀ x, chanGet n'.chans (.wrk x, .server) = chanGet n.chans (.wrk x, .server)
      ∨ ∃ m, chanGet n.chans (.wrk x, .server) = m :: chanGet n'.chans (.wrk x, .server)) :
    PInv n' := by
  refine ⟨?_, ?_⟩
  · intro w' hw'
    obtain ⟨w, hwm, hm⟩ := hw w' hw'
    exact hm.fresh (h.fresh w hwm)
  · intro w' hw' a
    obtain ⟨w, hwm, hm⟩ := hw w' hw'
    have h0 := h.link w hwm a
    rw [← hm.id] at h0
    rcases hc w'.id with e | ⟨m, e⟩
    · rw [e]; exact h0.mono hm.ctr
    · rw [e] at h0; exact h0.tail.mono hm.ctr

theorem PInv.workerStep {n : Net} (h : PInv n) (hflat : n.mgrs = []) (id : Int) :
    PInv (n.workerStep id).net := by
  unfold Net.workerStep
  split
  · exact h
  · rename_i w hf
    obtain ⟨hw, hid⟩ := find_worker_mem _ _ _ hf
    split
    · exact h
    · dsimp only
      simp only [hflat, List.find?_nil]
      have hm := step_mono n.tbl w
      have hfw := h.fresh w hw
      refine ⟨?_, ?_⟩
      · intro x hx
        rw [(postAll_fields _ _ _).1] at hx
        rcases mem_setWorker _ _ _ hx with rfl | ⟨hxm, _⟩
        · split
          · exact hm.fresh hfw
          · exact hm.fresh hfw
        · exact h.fresh x hxm
      · intro x hx a
        rw [(postAll_fields _ _ _).1] at hx
        rcases mem_setWorker _ _ _ hx with hxe | ⟨hxm, hne⟩
        · -- the worker that made the step: its channel got the output appended
          have hxid : x.id = id := by
            rw [hxe]; split
            · exact hm.id.trans hid
            · exact hm.id.trans hid
          have hxc : x.counter = (w.step n.tbl).w.counter := by
            rw [hxe]; split <;> rfl
          rw [hxid, hxc, chanGet_postAll_same]
          have h0 := h.link w hw a
          rw [hid] at h0
          have hs := step_linv a n.tbl w hfw
          rw [hid] at hs
          apply LInv.ite
          · exact h0.append _ hs.ok hs.can hm.ctr
              (fun msg hmsg ht => (step_tasks_fresh a n.tbl w msg hmsg ht).2)
          · exact h0.mono hm.ctr
        · -- another worker: nothing changed
          have hxid : x.id ≠ id := by
            intro e
            apply hne
            rw [e]; split
            · exact (hm.id.trans hid).symm
            · exact (hm.id.trans hid).symm
          rw [chanGet_postAll_ne _ _ _ _ (by
            show NodeId.wrk x.id ≠ NodeId.wrk id
            intro e; injection e with e; exact hxid e)]
          exact h.link x hxm a

theorem PInv.clientSend {n : Net} (h : PInv n) (j : Nat) (m : Option Msg) (dies : Bool) :
    PInv (n.clientSend j m dies).net := by
  apply h.of_shrink
  · intro w' hw'
    refine ⟨w', ?_, Mono.refl w'⟩
    simp only [Net.clientSend] at hw'
    cases m with
    | none => dsimp only at hw'; split at hw' <;> exact hw'
    | some msg =>
      dsimp only at hw'
      split at hw'
      · have e : ({ (n.post (.client j) .server msg) with
            deadClients := (n.post (.client j) .server msg).deadClients ++ [j] } : Net).workers
            = (n.post (.client j) .server msg).workers := rfl
        rw [e, (post_fields _ _ _ _).1] at hw'; exact hw'
      · rw [(post_fields _ _ _ _).1] at hw'; exact hw'
  · intro x
    left
    simp only [Net.clientSend]
    cases m with
    | none => dsimp only; split <;> rfl
    | some msg =>
      dsimp only
      have e : chanGet (n.post (.client j) .server msg).chans (.wrk x, .server)
          = chanGet n.chans (.wrk x, .server) := by
        rw [chanGet_post]
        have : ¬ ((NodeId.client j, NodeId.server) = (NodeId.wrk x, NodeId.server) ∧ n.alive .server = true) := by
          rintro ⟨e, _⟩; injection e with e1 _; cases e1
        simp [this]
      split <;> exact e

theorem chanGet_pop (n : Net) (k : NodeId × NodeId) (m : Msg) (rest : List Msg)
    (hk : chanGet n.chans k = m :: rest) (x : Int) :
    chanGet (chanSet n.chans k rest) (.wrk x, .server) = chanGet n.chans (.wrk x, .server)
      ∨ ∃ m, chanGet n.chans (.wrk x, .server) = m :: chanGet (chanSet n.chans k rest) (.wrk x, .server) := by
  rw [chanGet_chanSet]
  by_cases e : k = (NodeId.wrk x, NodeId.server)
  · right
    subst e
    exact ⟨m, by simpa using hk⟩
  · left; simp [e]

theorem PInv.deliver {n : Net} (h : PInv n) (hflat : n.mgrs = []) (src dst : NodeId) (asg ord : List Nat)
    (died : Bool) : PInv (n.deliver src dst asg ord died).net := by
  cases hk : chanGet n.chans (src, dst) with
  | nil => simp only [Net.deliver, hk]; exact h
  | cons m rest =>
    have hpop := chanGet_pop n (src, dst) m rest hk
    cases dst with
    | wrk id =>
      simp only [Net.deliver, hk]
      split
      · exact h.of_shrink (fun w' hw' => ⟨w', hw', Mono.refl w'⟩) hpop
      · rename_i w hf
        obtain ⟨hw, _⟩ := find_worker_mem _ _ _ hf
        split
        · exact h.of_shrink (fun w' hw' => ⟨w', hw', Mono.refl w'⟩) hpop
        · apply h.of_shrink _ hpop
          intro w' hw'
          rcases mem_setWorker _ _ _ hw' with rfl | ⟨hm, _⟩
          · exact ⟨w, hw, recv_mono w m⟩
          · exact ⟨w', hm, Mono.refl w'⟩
    | client j =>
      simp only [Net.deliver, hk]
      split
      · exact h.of_shrink (fun w' hw' => ⟨w', hw', Mono.refl w'⟩) hpop
      · split
        · apply h.of_shrink
          · intro w' hw'
            rw [(post_fields _ _ _ _).1] at hw'
            exact ⟨w', hw', Mono.refl w'⟩
          · intro x
            rw [chanGet_post]
            have : ¬ ((NodeId.client j, NodeId.server) = (NodeId.wrk x, NodeId.server) ∧
                ({ n with chans := chanSet n.chans (src, NodeId.client j) rest,
                          deadClients := n.deadClients ++ [j] } : Net).alive .server = true) := by
              rintro ⟨e, _⟩; injection e with e1 _; cases e1
            simp only [this, if_false]
            exact hpop x
        · exact h.of_shrink (fun w' hw' => ⟨w', hw', Mono.refl w'⟩) hpop
    | mgr i =>
      have : n.mgrs[i]? = none := by rw [hflat]; rfl
      simp only [Net.deliver, hk, this]
      exact h.of_shrink (fun w' hw' => ⟨w', hw', Mono.refl w'⟩) hpop
    | server =>
      simp only [Net.deliver, hk]
      split
      · exact h.of_shrink (fun w' hw' => ⟨w', hw', Mono.refl w'⟩) hpop
      · apply h.of_shrink
        · intro w' hw'
          rw [(postAll_fields _ _ _).1] at hw'
          exact ⟨w', hw', Mono.refl w'⟩
        · intro x
          rw [chanGet_postAll_ne _ _ _ _ (by
            show NodeId.wrk x ≠ NodeId.server
            intro e; cases e)]
          exact hpop x

theorem PInv.apply {n : Net} (h : PInv n) (hflat : n.mgrs = []) (t : Tr) : PInv (n.apply t).net := by
  cases t with
  | deliver s d asg ord died => exact h.deliver hflat s d asg ord died
  | step id => exact h.workerStep hflat id
  | client j m dies => exact h.clientSend j m dies

theorem PInv.init (tbl : Table) (att : Bool) (nw nc : Nat) : PInv (Net.initFlat tbl att nw nc) := by
  have hch : ∀ k, chanGet (Net.initFlat tbl att nw nc).chans k = [] := by
    intro k; simp [Net.initFlat, chanGet]
  refine ⟨?_, ?_⟩
  · intro w hw
    simp only [Net.initFlat, mkWorkers, List.mem_map] at hw
    obtain ⟨i, _, rfl⟩ := hw
    intro k hk; simp [keys] at hk
  · intro w _ a
    rw [hch]; exact LInv.nil a _ _

theorem PInv.exec {n : Net} (g : GInv n) (h : PInv n) (trs : List Tr) (hwf : ∀ t ∈ trs, t.wf) :
    PInv (n.exec trs) := by
  induction trs generalizing n with
  | nil => exact h
  | cons t ts ih =>
    simp only [Net.exec, List.foldl_cons]
    exact ih (g.apply t (hwf t List.mem_cons_self)) (h.apply g.flat t)
      (fun t' ht' => hwf t' (List.mem_cons_of_mem _ ht'))

end BqVerif.Runtime
