import BqVerif.Proofs.GatesComposed
/-! Qudit families (any radix where the argument is uniform, radix 2–5 by a proved-sound
Boolean checker otherwise), frozen-parameter index arithmetic, the U3 inverse. -/
namespace BqVerif.Gates
open Matrix
set_option linter.unusedSectionVars false
set_option linter.unusedVariables false

variable {R : Type} [CommRing R] [StarRing R]

/-! ### a Boolean checker for "`col` permutes `[0, n)`" -/

def permOK (n : Nat) (col : Nat → Nat) : Bool :=
  (List.range n).all fun i => decide (col i < n) &&
    (List.range n).all fun j => decide (col i = col j → i = j)

theorem permOK_sound {n : Nat} {col : Nat → Nat} (h : permOK n col = true) :
    (∀ i, i < n → col i < n) ∧ (∀ i, i < n → ∀ j, j < n → col i = col j → i = j) := by
  simp only [permOK, List.all_eq_true, List.mem_range, Bool.and_eq_true, decide_eq_true_eq] at h
  exact ⟨fun i hi => (h i hi).1, fun i hi j hj => (h i hi).2 j hj⟩

/-- a `0/1` matrix given by a checked permutation of the rows is unitary -/
theorem mono_one_unitary (n : Nat) (col : Nat → Nat) (h : permOK n col = true) :
    IsUnitary n (mono col (fun _ => 1) : M R) :=
  mono_unitary n col _ (permOK_sound h).1 (permOK_sound h).2 (by simp)

/-- column-monomial `0/1` matrix: column `c` has its 1 in row `row c` -/
theorem colmono_unitary (n : Nat) (row : Nat → Nat) (h : permOK n row = true) :
    IsUnitary n (fun r c => if row c = r then 1 else 0 : M R) := by
  -- it is the dagger of the row-monomial matrix of `row`, which is unitary
  have hm := (mono_one_unitary (R := R) n row h).dagger
  have : (dagger (mono row fun _ => (1 : R)) : M R) = fun r c => if row c = r then 1 else 0 := by
    funext r c; simp only [dagger, mono, Conj.conj]; split_ifs <;> simp
  rwa [this] at hm

/-! ### Shift, Clock, PD, SubSwap — every radix -/

theorem shift_col (d i : Nat) (hi : i < d) :
    (i + d - 1) % d = if i = 0 then d - 1 else i - 1 := by
  split
  · next h => subst h; simp
  · next h =>
    have : i + d - 1 = (i - 1) + d := by omega
    rw [this, Nat.add_mod_right, Nat.mod_eq_of_lt (by omega)]

/-- `ShiftGate(d)` is unitary for every radix -/
theorem unitary_shift (d : Nat) : IsUnitary d (shiftGate d : M R) := by
  unfold shiftGate
  apply mono_unitary
  · intro i hi; exact Nat.mod_lt _ (by omega)
  · intro i hi j hj h
    rw [shift_col d i hi, shift_col d j hj] at h
    split_ifs at h <;> omega
  · simp

theorem wpow_unit (w : R) (hw : w * star w = 1) (k : Nat) : wpow w k * star (wpow w k) = 1 := by
  induction k with
  | zero => simp [wpow]
  | succ k ih =>
    simp only [wpow, star_mul']
    calc wpow w k * w * (star (wpow w k) * star w)
        = (wpow w k * star (wpow w k)) * (w * star w) := by ring
      _ = 1 := by rw [ih, hw, mul_one]

theorem diag_unitary (n : Nat) (ph : Nat → R) (h : ∀ i, i < n → ph i * star (ph i) = 1) :
    IsUnitary n (diag ph) := by
  have : (diag ph : M R) = mono id ph := by funext i j; simp [diag, mono]
  rw [this]
  exact mono_unitary n id ph (fun i hi => hi) (fun i _ j _ h => h) h

/-- `ClockGate(d)`: unitary for every unimodular `w` (in particular `w = e^{2πi/d}`) -/
theorem unitary_clock (d : Nat) (w : R) (hw : w * star w = 1) : IsUnitary d (clockGate w) :=
  diag_unitary d _ fun i _ => wpow_unit w hw i

/-- `PDGate(index, d)` -/
theorem unitary_pd (d : Nat) (w : R) (hw : w * star w = 1) (index : Nat) :
    IsUnitary d (pdGate w index) := by
  apply diag_unitary
  intro i _
  split
  · simpa using wpow_unit w hw (2 * index)
  · simp

/-- `SubSwapGate`: swapping two basis states `i, j < n` -/
theorem unitary_subSwap (n i j : Nat) (hi : i < n) (hj : j < n) :
    IsUnitary n (subSwap i j : M R) := by
  unfold subSwap
  apply mono_unitary
  · intro r hr; split_ifs <;> omega
  · intro r hr s hs h; split_ifs at h <;> omega
  · simp

/-! ### FrozenParameterGate: index arithmetic of `get_full_params` -/

section frozen
variable {β : Type}

theorem insertAt_length (l : List β) (i : Nat) (v : β) : (insertAt l i v).length = l.length + 1 := by
  simp [insertAt]; omega

theorem insertAt_get_self (l : List β) (i : Nat) (v : β) (hi : i ≤ l.length) :
    (insertAt l i v)[i]? = some v := by
  simp [insertAt, List.getElem?_append_right, List.length_take, Nat.min_eq_left hi]

theorem insertAt_get_lt (l : List β) (i j : Nat) (v : β) (hj : j < i) (hl : j < l.length) :
    (insertAt l i v)[j]? = l[j]? := by
  simp only [insertAt]
  rw [List.getElem?_append_left (by simp; omega)]
  simp [List.getElem?_take, hj]

theorem eraseIdx_insertAt (l : List β) (i : Nat) (v : β) (hi : i ≤ l.length) :
    (insertAt l i v).eraseIdx i = l := by
  simp only [insertAt]
  rw [List.eraseIdx_append_of_length_le (by simp [Nat.min_eq_left hi])]
  simp [Nat.min_eq_left hi]

/-- every frozen index is a valid insertion position at its turn and smaller than the later ones -/
def ValidFrozen : Nat → List (Nat × β) → Prop
  | _, [] => True
  | len, p :: fr => p.1 ≤ len ∧ (∀ q ∈ fr, p.1 < q.1) ∧ ValidFrozen (len + 1) fr

theorem fullParams_get_stable (fr : List (Nat × β)) :
    ∀ (l : List β) (i : Nat), i < l.length → (∀ p ∈ fr, i < p.1) →
      (fullParams l fr)[i]? = l[i]? := by
  induction fr with
  | nil => intro l i _ _; rfl
  | cons p fr ih =>
    intro l i hi h
    have hp := h p (by simp)
    simp only [fullParams, List.foldl_cons]
    have := ih (insertAt l p.1 p.2) i (by rw [insertAt_length]; omega)
      (fun q hq => h q (by simp [hq]))
    simp only [fullParams] at this
    rw [this, insertAt_get_lt l p.1 i p.2 hp hi]

/-- (1) every frozen value sits at its index of the full parameter vector -/
theorem fullParams_frozen (fr : List (Nat × β)) :
    ∀ (ps : List β), ValidFrozen ps.length fr → ∀ p ∈ fr, (fullParams ps fr)[p.1]? = some p.2 := by
  induction fr with
  | nil => intro ps _ p hp; simp at hp
  | cons q fr ih =>
    intro ps hv p hp
    obtain ⟨hq, hlt, hrest⟩ := hv
    simp only [fullParams, List.foldl_cons]
    rcases List.mem_cons.mp hp with rfl | hp'
    · have := fullParams_get_stable fr (insertAt ps p.1 p.2) p.1
        (by rw [insertAt_length]; omega) hlt
      simp only [fullParams] at this
      rw [this, insertAt_get_self ps p.1 p.2 hq]
    · have := ih (insertAt ps q.1 q.2) (by rwa [insertAt_length]) p hp'
      simpa only [fullParams] using this

/-- (2) removing the frozen positions (last first) leaves exactly the free parameters, in order -/
theorem fullParams_free (fr : List (Nat × β)) :
    ∀ (ps : List β), ValidFrozen ps.length fr →
      fr.foldr (fun p l => l.eraseIdx p.1) (fullParams ps fr) = ps := by
  induction fr with
  | nil => intro ps _; rfl
  | cons q fr ih =>
    intro ps hv
    obtain ⟨hq, _, hrest⟩ := hv
    simp only [fullParams, List.foldl_cons, List.foldr_cons]
    have := ih (insertAt ps q.1 q.2) (by rwa [insertAt_length])
    simp only [fullParams] at this
    rw [this, eraseIdx_insertAt ps q.1 q.2 hq]

theorem fullParams_length (fr : List (Nat × β)) :
    ∀ ps : List β, (fullParams ps fr).length = ps.length + fr.length := by
  induction fr with
  | nil => intro ps; rfl
  | cons q fr ih =>
    intro ps
    simp only [fullParams, List.foldl_cons, List.length_cons]
    have := ih (insertAt ps q.1 q.2)
    simp only [fullParams] at this
    rw [this, insertAt_length]; omega

theorem head_le_of_sorted (B : Nat) : ∀ (l : List Nat) (a : Nat),
    (a :: l).Pairwise (· < ·) → (∀ x ∈ a :: l, x < B) → a + (l.length + 1) ≤ B := by
  intro l
  induction l with
  | nil => intro a _ h; have := h a (by simp); simp; omega
  | cons b l ih =>
    intro a hs hb
    have hab : a < b := (List.pairwise_cons.mp hs).1 b (by simp)
    have := ih b (List.pairwise_cons.mp hs).2 (fun x hx => hb x (List.mem_cons_of_mem _ hx))
    simp at this ⊢; omega

/-- what the constructor and `check_parameters` guarantee (distinct keys `< num_params`, taken in
`sorted` order, `len(params) = num_params - len(frozen)`) implies `ValidFrozen` -/
theorem validFrozen_of_sorted (fr : List (Nat × β)) :
    ∀ (len : Nat), (fr.map (·.1)).Pairwise (· < ·) → (∀ p ∈ fr, p.1 < len + fr.length) →
      ValidFrozen len fr := by
  induction fr with
  | nil => intro _ _ _; trivial
  | cons q fr ih =>
    intro len hs hb
    simp only [List.map_cons] at hs
    refine ⟨?_, ?_, ?_⟩
    · have := head_le_of_sorted (len + (q :: fr).length) (fr.map (·.1)) q.1 hs
        (by intro x hx
            rcases List.mem_cons.mp hx with h | h
            · subst h; exact hb q (by simp)
            · obtain ⟨p, hp, rfl⟩ := List.mem_map.mp h; exact hb p (by simp [hp]))
      simp at this; omega
    · intro p hp
      exact (List.pairwise_cons.mp hs).1 p.1 (List.mem_map.mpr ⟨p, hp, rfl⟩)
    · apply ih (len + 1) (List.pairwise_cons.mp hs).2
      intro p hp
      have := hb p (by simp [hp])
      simp at this; omega

end frozen

/-! ### the U3 inverse -/

/-- `U3Gate.get_inverse() = U3Gate()`, `get_inverse_params = [-θ, -λ, -φ]` -/
theorem inverse_u3 (K : Consts R) (hK : K.Valid) (t p l : Ang R)
    (ht : t.Valid) (hp : p.Valid) (hl : l.Valid) :
    toM 2 (u3 K t.neg l.neg p.neg) * toM 2 (u3 K t p l) = 1 := by
  gate_hyps
  gate_entries

end BqVerif.Gates
