import BqVerif.Proofs.Token
/-! Token accounting for the server handlers: a handler never creates a token except the
    root task of a new compilation; `schedule_tasks` forwards every task at most once. -/
namespace BqVerif.Runtime

theorem tokOut_append (a : Addr) (o1 o2 : Out) : tokOut a (o1 ++ o2) = tokOut a o1 + tokOut a o2 :=
  sumBy_append _ _ _

theorem tokOut_filter_le (a : Addr) (p : NodeId × Msg → Bool) (o : Out) :
    tokOut a (o.filter p) ≤ tokOut a o := sumBy_filter_le _ _ _

theorem sumBy_add {α} (f g : α → Nat) (l : List α) :
    sumBy (fun x => f x + g x) l = sumBy f l + sumBy g l := by
  induction l with
  | nil => rfl
  | cons x xs ih => simp only [sumBy, ih]; omega

theorem sumBy_ind_nodup (l : List Nat) (x : Nat) (c : Nat) (h : l.Nodup) :
    sumBy (fun e => if x = e then c else 0) l ≤ c := by
  induction l with
  | nil => simp [sumBy]
  | cons y ys ih =>
    simp only [sumBy]
    have hn := List.nodup_cons.mp h
    by_cases e : x = y
    · subst e
      have : sumBy (fun e => if x = e then c else 0) ys = 0 := by
        apply sumBy_zero
        intro z hz
        have : x ≠ z := fun e => hn.1 (e ▸ hz)
        simp [this]
      simp [this]
    · simp only [e, if_false, Nat.zero_add]
      exact ih hn.2

/-- tasks of address `a` that `batchOf` gives to employee `e` -/
theorem cntA_batchOf (a : Addr) (tasks : List Task) (asg : List Nat) (K e : Nat) :
    cntA a (batchOf tasks asg K e)
      = sumBy (fun p : Task × Nat => if p.2 = e then (if p.1.addr = a then 1 else 0) else 0)
          (tasks.zip asg) := by
  have key : ∀ l : List (Task × Nat),
      cntA a ((l.filter (fun p => p.2 == e)).map (·.1))
        = sumBy (fun p : Task × Nat => if p.2 = e then (if p.1.addr = a then 1 else 0) else 0) l := by
    intro l
    induction l with
    | nil => rfl
    | cons p ps ih =>
      simp only [List.filter_cons]
      by_cases h : p.2 = e
      · simp only [h, beq_self_eq_true, if_true, List.map_cons, cntA, sumBy] at ih ⊢
        rw [ih]
      · have : (p.2 == e) = false := by simpa using h
        simp only [this, Bool.false_eq_true, if_false, sumBy, h, Nat.zero_add]
        exact ih
  unfold batchOf
  simp only [cntA_append, key]
  rw [sumBy_reverse, sumBy_take_drop]

theorem sum_batches_le (a : Addr) (tasks : List Task) (asg : List Nat) (K : Nat) (idxs : List Nat)
    (h : idxs.Nodup) :
    sumBy (fun e => cntA a (batchOf tasks asg K e)) idxs ≤ cntA a tasks := by
  have e1 : sumBy (fun e => cntA a (batchOf tasks asg K e)) idxs
      = sumBy (fun e => sumBy (fun p : Task × Nat =>
          if p.2 = e then (if p.1.addr = a then 1 else 0) else 0) (tasks.zip asg)) idxs :=
    sumBy_congr _ _ _ (fun e _ => cntA_batchOf a tasks asg K e)
  rw [e1]
  have key : ∀ l : List (Task × Nat),
      sumBy (fun e => sumBy (fun p : Task × Nat =>
          if p.2 = e then (if p.1.addr = a then 1 else 0) else 0) l) idxs
        ≤ sumBy (fun p : Task × Nat => if p.1.addr = a then 1 else 0) l := by
    intro l
    induction l with
    | nil => simp only [sumBy]; exact Nat.le_of_eq (sumBy_zero _ _ (fun _ _ => rfl))
    | cons p ps ih =>
      simp only [sumBy]
      rw [sumBy_add]
      have := sumBy_ind_nodup idxs p.2 (if p.1.addr = a then 1 else 0) h
      omega
  refine Nat.le_trans (key _) ?_
  -- zip truncates
  have : ∀ (ts : List Task) (as : List Nat),
      sumBy (fun p : Task × Nat => if p.1.addr = a then 1 else 0) (ts.zip as) ≤ cntA a ts := by
    intro ts
    induction ts with
    | nil => intro as; simp [sumBy, cntA]
    | cons t ts ih =>
      intro as
      cases as with
      | nil => simp [sumBy]
      | cons x xs =>
        simp only [List.zip_cons_cons, sumBy, cntA]
        have := ih xs
        simp only [cntA] at this
        omega
  exact this _ _

theorem sumBy_insDesc (F : Nat × Int → Nat) (x : Nat × Int) (l : List (Nat × Int)) :
    sumBy F (insDesc x l) = F x + sumBy F l := by
  induction l with
  | nil => rfl
  | cons y ys ih =>
    simp only [insDesc]
    split
    · simp only [sumBy, ih]; omega
    · simp only [sumBy]

theorem sumBy_sortDesc (F : Nat × Int → Nat) (l : List (Nat × Int)) :
    sumBy F (l.foldr insDesc []) = sumBy F l := by
  induction l with
  | nil => rfl
  | cons x xs ih => simp only [List.foldr_cons, sumBy_insDesc, sumBy, ih]

theorem enumFromN_fst_nodup {α} (i : Nat) (l : List α) : ((enumFromN i l).map (·.1)).Nodup := by
  induction l generalizing i with
  | nil => simp [enumFromN]
  | cons x xs ih =>
    simp only [enumFromN, List.map_cons, List.nodup_cons]
    refine ⟨?_, ih (i + 1)⟩
    intro hm
    simp only [List.mem_map] at hm
    obtain ⟨p, hp, he⟩ := hm
    have : ∀ (j : Nat) (l : List α) (p : Nat × α), p ∈ enumFromN j l → j ≤ p.1 := by
      intro j l
      induction l generalizing j with
      | nil => intro p hp; simp [enumFromN] at hp
      | cons y ys ih2 =>
        intro p hp
        simp only [enumFromN, List.mem_cons] at hp
        rcases hp with rfl | hp
        · exact Nat.le_refl _
        · exact Nat.le_trans (Nat.le_succ _) (ih2 (j + 1) p hp)
    have := this (i + 1) xs p hp
    omega

/-- **`schedule_tasks` forwards every task at most once** (for any observed assignment) -/
theorem schedule_tok (a : Addr) (b : Boss) (ts : List Task) (asg : List Nat) :
    sumBy (fun p : Nat × List Task => cntA a p.2) (b.schedule ts asg).2 ≤ cntA a ts := by
  unfold Boss.schedule
  split
  · simp [sumBy]
  · dsimp only
    refine Nat.le_trans (sumBy_filter_le _ _ _) ?_
    rw [sumBy_map, sumBy_sortDesc, sumBy_map]
    have := sum_batches_le a ts asg (idleList b.emps).length ((enumFromN 0 b.emps).map (·.1))
      (enumFromN_fst_nodup 0 b.emps)
    rw [sumBy_map] at this
    exact this

/-- messages that carry no task and no result -/
def NoTok (o : Out) : Prop := ∀ a, tokOut a o = 0

theorem NoTok.nil : NoTok [] := fun _ => rfl

theorem NoTok.append {o1 o2 : Out} (h1 : NoTok o1) (h2 : NoTok o2) : NoTok (o1 ++ o2) := by
  intro a; rw [tokOut_append, h1 a, h2 a]

theorem NoTok.of_forall (o : Out) (h : ∀ dm ∈ o, ∀ a, tokMsg a dm.2 = 0) : NoTok o := by
  intro a; exact sumBy_zero _ _ (fun dm hdm => h dm hdm a)

theorem NoTok.filter {o : Out} (h : NoTok o) (p : NodeId × Msg → Bool) : NoTok (o.filter p) := by
  intro a
  have := tokOut_filter_le a p o
  rw [h a] at this
  omega

theorem noTok_broadcast_cancel (b : Boss) (x : Addr) : NoTok (b.broadcast (.cancel x)) := by
  apply NoTok.of_forall
  intro dm hdm a
  simp only [Boss.broadcast, List.mem_map] at hdm
  obtain ⟨e, _, rfl⟩ := hdm
  rfl

theorem noTok_shutdownOut (b : Boss) : NoTok b.shutdownOut := by
  apply NoTok.of_forall
  intro dm hdm a
  simp only [Boss.shutdownOut, List.mem_append, List.mem_map] at hdm
  rcases hdm with ⟨e, _, rfl⟩ | ⟨e, _, rfl⟩ <;> rfl

theorem noTok_server_shutdown (s : Server) : NoTok s.shutdown.2 := by
  simp only [Server.shutdown]
  apply NoTok.append (noTok_shutdownOut _)
  apply NoTok.of_forall
  intro dm hdm a
  simp only [List.mem_map] at hdm
  obtain ⟨c, _, rfl⟩ := hdm
  rfl

theorem noTok_systemError (s : Server) (cls : Nat) (why : String) :
    NoTok (s.systemError cls why).direct ∧ NoTok (s.systemError cls why).queued := by
  simp only [Server.systemError]
  refine ⟨NoTok.append ?_ (noTok_server_shutdown s), NoTok.nil⟩
  apply NoTok.of_forall
  intro dm hdm a
  simp only [List.mem_map] at hdm
  obtain ⟨c, _, rfl⟩ := hdm
  rfl


def hTok {σ} (a : Addr) (r : HOut σ) : Nat := tokOut a r.direct + tokOut a r.queued

def HNoTok {σ} (r : HOut σ) : Prop := NoTok r.direct ∧ NoTok r.queued

theorem HNoTok.zero {σ} {r : HOut σ} (h : HNoTok r) (a : Addr) : hTok a r = 0 := by
  simp [hTok, h.1 a, h.2 a]

theorem syserr_noTok (s : Server) (cls : Nat) (why : String) : HNoTok (s.systemError cls why) :=
  noTok_systemError s cls why

theorem hTok_syserr (a : Addr) (s : Server) (cls : Nat) (why : String) :
    hTok a (s.systemError cls why) = 0 := (syserr_noTok s cls why).zero a

theorem hTok_shutdown (a : Addr) (s : Server) (note : String) :
    hTok a ({ st := s.shutdown.1, direct := s.shutdown.2, note := note } : HOut Server) = 0 := by
  have := (noTok_server_shutdown s) a
  simp only [hTok, tokOut, sumBy] at this ⊢
  omega

theorem noTok_single (d : NodeId) (m : Msg) (h : ∀ a, tokMsg a m = 0) : NoTok [(d, m)] :=
  NoTok.of_forall _ (by intro dm hdm a; simp at hdm; subst hdm; exact h a)

theorem sched_tok (a : Addr) (s : Server) (ts : List Task) (asg : List Nat) :
    hTok a (s.sched ts asg) ≤ cntA a ts := by
  unfold Server.sched
  split
  · simp [hTok, tokOut, sumBy]
  · dsimp only
    simp only [hTok, tokOut, sumBy, Nat.zero_add]
    rw [sumBy_map]
    exact schedule_tok a s.boss ts asg

theorem cancelCore_noTok (s : Server) (ci : Nat) : HNoTok (s.cancelCore ci) := by
  unfold Server.cancelCore
  split
  · exact syserr_noTok _ _ _
  · split
    · exact syserr_noTok _ _ _
    · refine ⟨NoTok.nil, NoTok.append (noTok_broadcast_cancel _ _) ?_⟩
      split
      · exact NoTok.nil
      · exact noTok_single _ _ (fun _ => rfl)

theorem cancelComp_noTok (s : Server) (ci : Nat) (conn : Option Nat) : HNoTok (s.cancelComp ci conn) := by
  unfold Server.cancelComp
  split
  · split
    · exact syserr_noTok _ _ _
    · split
      · exact ⟨NoTok.nil, noTok_single _ _ (fun _ => rfl)⟩
      · exact cancelCore_noTok _ _
  · exact cancelCore_noTok _ _

theorem cancelAll_noTok (l : List Nat) (acc : HOut Server) (h : HNoTok acc) :
    HNoTok (Server.cancelAll acc l) := by
  induction l generalizing acc with
  | nil => exact h
  | cons x xs ih =>
    simp only [Server.cancelAll]
    split
    · exact h
    · apply ih
      have hc := cancelComp_noTok acc.st x none
      exact ⟨NoTok.append h.1 hc.1, NoTok.append h.2 hc.2⟩

theorem disconnect_noTok (s : Server) (j : Nat) (ord : List Nat) : HNoTok (s.disconnect j ord) := by
  unfold Server.disconnect
  split
  · exact ⟨noTok_server_shutdown s, NoTok.nil⟩
  · dsimp only
    have hd : NoTok (if s.closed.contains j then ([] : Out) else [(NodeId.client j, Msg.eof)]) := by
      split
      · exact NoTok.nil
      · exact noTok_single _ _ (fun _ => rfl)
    split
    · exact ⟨hd, NoTok.nil⟩
    · split
      · exact ⟨NoTok.nil, NoTok.nil⟩
      · have hall : ∀ (acc : HOut Server), HNoTok acc → HNoTok (Server.cancelAll acc ord) :=
          fun acc h => cancelAll_noTok ord acc h
        split
        · split
          · exact hall _ ⟨NoTok.nil, NoTok.nil⟩
          · exact hall _ ⟨NoTok.nil, NoTok.nil⟩
        · split
          · exact hall _ ⟨noTok_single _ _ (fun _ => rfl), NoTok.nil⟩
          · exact hall _ ⟨noTok_single _ _ (fun _ => rfl), NoTok.nil⟩

theorem result_tok (a : Addr) (s : Server) (x : Addr) (v : Val) (by_ : Int) :
    hTok a (s.result x v by_) ≤ (if x = a then 1 else 0) := by
  unfold Server.result
  split
  · rw [hTok_syserr]; exact Nat.zero_le _
  · dsimp only
    split
    · split
      · simp [hTok, tokOut, sumBy]
      · split
        · rw [hTok_syserr]; exact Nat.zero_le _
        · split
          · split
            · rw [hTok_syserr]; exact Nat.zero_le _
            · split
              · rw [hTok_syserr]; exact Nat.zero_le _
              · split
                · rw [hTok_syserr]; exact Nat.zero_le _
                · simp [hTok, tokOut, sumBy, tokMsg]
          · simp [hTok, tokOut, sumBy]
    · split
      · rw [hTok_syserr]; exact Nat.zero_le _
      · split
        · rw [hTok_syserr]; exact Nat.zero_le _
        · simp [hTok, tokOut, sumBy, tokMsg]

theorem fromBelow_tok (a : Addr) (s : Server) (ei : Nat) (m : Msg) (asg : List Nat) :
    hTok a (s.fromBelow ei m asg) ≤ tokMsg a m := by
  cases m with
  | submit t =>
    have := sched_tok a s [t] asg
    simpa [Server.fromBelow, tokMsg, cntA, sumBy] using this
  | batch ts => exact sched_tok a s ts asg
  | result x v b => exact result_tok a s x v b
  | error comp cls =>
    simp only [Server.fromBelow, tokMsg]
    split
    · simp [hTok, tokOut, sumBy]
    · split
      · simp [hTok, tokOut, sumBy]
      · split
        · rw [hTok_syserr]; exact Nat.le_refl _
        · simp [hTok, tokOut, sumBy, tokMsg]
  | sysError cls => simp only [Server.fromBelow, tokMsg]; rw [hTok_syserr]; exact Nat.le_refl _
  | cancel x =>
    simp only [Server.fromBelow, tokMsg]
    have := (noTok_broadcast_cancel s.boss x) a
    simp only [hTok, tokOut, sumBy] at this ⊢
    omega
  | waiting n r =>
    simp only [Server.fromBelow, tokMsg]
    split
    · simp [hTok, tokOut, sumBy]
    · rw [hTok_syserr]; exact Nat.le_refl _
    · rw [hTok_syserr]; exact Nat.le_refl _
    · rw [hTok_syserr]; exact Nat.le_refl _
  | update d => simp [Server.fromBelow, tokMsg, hTok, tokOut, sumBy]
  | shutdown => simp only [Server.fromBelow, tokMsg]; rw [hTok_shutdown]; exact Nat.le_refl _
  | eof => simp only [Server.fromBelow, tokMsg]; rw [hTok_shutdown]; exact Nat.le_refl _
  | cSubmit _ _ => simp only [Server.fromBelow, tokMsg]; rw [hTok_syserr]; exact Nat.le_refl _
  | cRequest _ => simp only [Server.fromBelow, tokMsg]; rw [hTok_syserr]; exact Nat.le_refl _
  | cStatus _ => simp only [Server.fromBelow, tokMsg]; rw [hTok_syserr]; exact Nat.le_refl _
  | cCancel _ => simp only [Server.fromBelow, tokMsg]; rw [hTok_syserr]; exact Nat.le_refl _
  | cDisconnect => simp only [Server.fromBelow, tokMsg]; rw [hTok_syserr]; exact Nat.le_refl _
  | sResult _ => simp only [Server.fromBelow, tokMsg]; rw [hTok_syserr]; exact Nat.le_refl _
  | sStatus _ => simp only [Server.fromBelow, tokMsg]; rw [hTok_syserr]; exact Nat.le_refl _
  | sCancelAck => simp only [Server.fromBelow, tokMsg]; rw [hTok_syserr]; exact Nat.le_refl _
  | sError _ => simp only [Server.fromBelow, tokMsg]; rw [hTok_syserr]; exact Nat.le_refl _

/-- a client message creates at most the root task of a new compilation, at the fresh
    address `(-1, mailbox_counter, 0)` -/
theorem fromClient_tok (a : Addr) (s : Server) (j : Nat) (m : Msg) (asg ord : List Nat) :
    hTok a (s.fromClient j m asg ord) ≤ (if a = ⟨-1, s.counter, 0⟩ then 1 else 0) := by
  cases m with
  | cSubmit ci pid =>
    simp only [Server.fromClient]
    split
    · rw [hTok_syserr]; exact Nat.zero_le _
    · refine Nat.le_trans (sched_tok a _ _ asg) ?_
      simp only [cntA, sumBy, Nat.add_zero]
      split
      · rename_i e; rw [if_pos e.symm]; exact Nat.le_refl _
      · exact Nat.zero_le _
  | cRequest ci =>
    simp only [Server.fromClient]
    split
    · rw [hTok_syserr]; exact Nat.zero_le _
    · split
      · have h := disconnect_noTok s j ord
        have h1 := h.1 a
        have h2 := h.2 a
        simp only [hTok, tokOut, sumBy_append, sumBy, tokMsg] at h1 h2 ⊢
        omega
      · split
        · rw [hTok_syserr]; exact Nat.zero_le _
        · split
          · rw [hTok_syserr]; exact Nat.zero_le _
          · split
            · simp [hTok, tokOut, sumBy, tokMsg]
            · simp [hTok, tokOut, sumBy]
  | cStatus ci =>
    simp only [Server.fromClient]
    split
    · rw [hTok_syserr]; exact Nat.zero_le _
    · split
      · simp [hTok, tokOut, sumBy, tokMsg]
      · split
        · rw [hTok_syserr]; exact Nat.zero_le _
        · split
          · rw [hTok_syserr]; exact Nat.zero_le _
          · simp [hTok, tokOut, sumBy, tokMsg]
  | cCancel ci =>
    simp only [Server.fromClient]
    rw [(cancelComp_noTok s ci (some j)).zero]; exact Nat.zero_le _
  | cDisconnect =>
    simp only [Server.fromClient]
    rw [(disconnect_noTok s j ord).zero]; exact Nat.zero_le _
  | eof =>
    simp only [Server.fromClient]
    rw [(disconnect_noTok s j ord).zero]; exact Nat.zero_le _
  | submit _ => simp only [Server.fromClient]; rw [hTok_syserr]; exact Nat.zero_le _
  | batch _ => simp only [Server.fromClient]; rw [hTok_syserr]; exact Nat.zero_le _
  | result _ _ _ => simp only [Server.fromClient]; rw [hTok_syserr]; exact Nat.zero_le _
  | error _ _ => simp only [Server.fromClient]; rw [hTok_syserr]; exact Nat.zero_le _
  | sysError _ => simp only [Server.fromClient]; rw [hTok_syserr]; exact Nat.zero_le _
  | cancel _ => simp only [Server.fromClient]; rw [hTok_syserr]; exact Nat.zero_le _
  | waiting _ _ => simp only [Server.fromClient]; rw [hTok_syserr]; exact Nat.zero_le _
  | update _ => simp only [Server.fromClient]; rw [hTok_syserr]; exact Nat.zero_le _
  | shutdown => simp only [Server.fromClient]; rw [hTok_syserr]; exact Nat.zero_le _
  | sResult _ => simp only [Server.fromClient]; rw [hTok_syserr]; exact Nat.zero_le _
  | sStatus _ => simp only [Server.fromClient]; rw [hTok_syserr]; exact Nat.zero_le _
  | sCancelAck => simp only [Server.fromClient]; rw [hTok_syserr]; exact Nat.zero_le _
  | sError _ => simp only [Server.fromClient]; rw [hTok_syserr]; exact Nat.zero_le _

end BqVerif.Runtime
