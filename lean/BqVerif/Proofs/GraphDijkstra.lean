import BqVerif.Proofs.GraphBasic
/-!
Correctness of the hop-count Dijkstra `G.shortestPathTree`
(`CouplingGraph.get_shortest_path_tree`, graph.py lines 354-384):
every returned path is a valid path source…v with the minimum number of edges, and the result is
`none` (RuntimeError) exactly when some vertex is unreachable from the source.
-/
namespace BqVerif.Graph

/-- consecutive vertices adjacent -/
def IsPath (g : G) : List Nat → Prop
  | [] => True
  | [_] => True
  | a :: b :: rest => g.hasEdge a b = true ∧ IsPath g (b :: rest)

/-- there is a walk a → b with exactly k edges -/
inductive WalkLen (g : G) : Nat → Nat → Nat → Prop
  | refl (a : Nat) : WalkLen g a a 0
  | step {a b c k : Nat} : WalkLen g a b k → g.hasEdge b c = true → WalkLen g a c (k + 1)

theorem WalkLen.reach {g : G} {a b k : Nat} (h : WalkLen g a b k) : Reach g a b := by
  induction h with
  | refl => exact Reach.refl _
  | step _ he ih => exact Reach.step ih he

theorem reach_iff_walkLen (g : G) (a b : Nat) : Reach g a b ↔ ∃ k, WalkLen g a b k := by
  constructor
  · intro h
    induction h with
    | refl => exact ⟨0, WalkLen.refl _⟩
    | step _ he ih =>
      obtain ⟨k, hk⟩ := ih
      exact ⟨k + 1, WalkLen.step hk he⟩
  · rintro ⟨k, hk⟩
    exact hk.reach

theorem WalkLen.lt {g : G} (hwf : g.WF) {a b k : Nat} (h : WalkLen g a b k) (ha : a < g.n) :
    b < g.n := Reach.lt hwf h.reach ha

/-! ### paths -/
theorem isPath_append_single (g : G) : ∀ (p : List Nat) (c x : Nat), IsPath g p →
    p.getLast? = some c → g.hasEdge c x = true → IsPath g (p ++ [x])
  | [], _, _, _, h, _ => by simp at h
  | [a], c, x, _, h, he => by
    simp at h
    subst h
    exact ⟨he, trivial⟩
  | a :: b :: rest, c, x, hp, h, he => by
    have ih := isPath_append_single g (b :: rest) c x hp.2
      (by rw [List.getLast?_cons_cons] at h; exact h) he
    exact ⟨hp.1, ih⟩

theorem WalkLen.head {g : G} {a b c k : Nat} (he : g.hasEdge a b = true) (h : WalkLen g b c k) :
    WalkLen g a c (k + 1) := by
  induction h with
  | refl => exact WalkLen.step (WalkLen.refl a) he
  | step _ he' ih => exact WalkLen.step ih he'

/-- an `IsPath` list from `a` to `b` is a walk with `length - 1` edges -/
theorem walkLen_of_isPath (g : G) : ∀ (p : List Nat) (a b : Nat), IsPath g p → p.head? = some a →
    p.getLast? = some b → WalkLen g a b (p.length - 1)
  | [], _, _, _, h, _ => by simp at h
  | [x], a, b, _, hh, hl => by
    simp at hh hl
    subst hh; subst hl
    exact WalkLen.refl _
  | x :: y :: rest, a, b, hp, hh, hl => by
    simp at hh
    subst hh
    have ih := walkLen_of_isPath g (y :: rest) y b hp.2 rfl
      (by rw [List.getLast?_cons_cons] at hl; exact hl)
    exact WalkLen.head hp.1 ih

/-! ### order on weights (`none` = ∞) -/
/-- `a ≤ b` on `W` -/
def dle (a b : W) : Prop := wlt b a = false

theorem dle_some_some (a b : Nat) : dle (some a) (some b) ↔ a ≤ b := by simp [dle, wlt]
theorem dle_none_right (a : W) : dle a none := by cases a <;> simp [dle, wlt]
theorem dle_none_left (b : W) : dle none b ↔ b = none := by cases b <;> simp [dle, wlt]
theorem dle_refl (a : W) : dle a a := by cases a <;> simp [dle, wlt]
theorem dle_trans {a b c : W} (h1 : dle a b) (h2 : dle b c) : dle a c := by
  cases a <;> cases b <;> cases c <;> simp_all [dle, wlt] <;> omega
theorem dle_of_wlt {a b : W} (h : wlt a b = true) : dle a b := by
  cases a <;> cases b <;> simp_all [dle, wlt] <;> omega
theorem wlt_eq_true_iff (a b : W) : wlt a b = true ↔ ¬ dle b a := by simp [dle]
theorem dle_some_succ {a : W} {d : Nat} (h : dle a (some d)) : dle a (some (d + 1)) :=
  dle_trans h ((dle_some_some _ _).2 (Nat.le_succ d))
theorem dle_some_mono {a : W} {d e : Nat} (h : dle a (some d)) (hde : d ≤ e) : dle a (some e) :=
  dle_trans h ((dle_some_some _ _).2 hde)

/-! ### list helpers -/
theorem getD_set' {α} (l : List α) (i j : Nat) (a d : α) :
    (l.set i a).getD j d = if i = j ∧ i < l.length then a else l.getD j d := by
  simp only [List.getD_eq_getElem?_getD, List.getElem?_set]
  by_cases h : i = j
  · subst h
    by_cases h2 : i < l.length <;> simp [h2]
  · simp [h]

/-! ### pickMin -/
/-- the step function of the `pickMin` fold -/
def pickStep (D : List W) (best : Option Nat) (v : Nat) : Option Nat :=
  match best with
  | none => some v
  | some b => if wlt (D.getD v none) (D.getD b none) then some v else some b

theorem pickMin_eq (s : DState) : pickMin s = s.unvisited.foldl (pickStep s.dist) none := rfl

theorem pick_foldl_some (D : List W) : ∀ (l : List Nat) (b : Nat),
    ∃ c, l.foldl (pickStep D) (some b) = some c ∧ c ∈ b :: l ∧
      ∀ v ∈ b :: l, dle (D.getD c none) (D.getD v none)
  | [], b => ⟨b, rfl, by simp, by intro v hv; simp at hv; subst hv; exact dle_refl _⟩
  | v :: l, b => by
    rw [List.foldl_cons]
    by_cases h : wlt (D.getD v none) (D.getD b none) = true
    · have hs : pickStep D (some b) v = some v := by
        show (if _ then _ else _) = _
        rw [if_pos h]
      rw [hs]
      obtain ⟨c, hc, hm, hmin⟩ := pick_foldl_some D l v
      refine ⟨c, hc, List.mem_cons_of_mem _ hm, ?_⟩
      intro w hw
      rcases List.mem_cons.1 hw with rfl | hw
      · exact dle_trans (hmin v (by simp)) (dle_of_wlt h)
      · exact hmin w hw
    · have hs : pickStep D (some b) v = some b := by
        show (if _ then _ else _) = _
        rw [if_neg h]
      rw [hs]
      obtain ⟨c, hc, hm, hmin⟩ := pick_foldl_some D l b
      refine ⟨c, hc, ?_, ?_⟩
      · rcases List.mem_cons.1 hm with rfl | hm
        · simp
        · simp [hm]
      · intro w hw
        rcases List.mem_cons.1 hw with rfl | hw
        · exact hmin w (by simp)
        · rcases List.mem_cons.1 hw with rfl | hw
          · have : dle (D.getD b none) (D.getD w none) := by simpa [dle] using h
            exact dle_trans (hmin b (by simp)) this
          · exact hmin w (by simp [hw])

/-- `pickMin` on a nonempty unvisited list returns an unvisited vertex of minimal distance. -/
theorem pickMin_spec (s : DState) (hne : s.unvisited ≠ []) :
    ∃ c, pickMin s = some c ∧ c ∈ s.unvisited ∧
      ∀ v ∈ s.unvisited, dle (s.dist.getD c none) (s.dist.getD v none) := by
  rw [pickMin_eq]
  cases hU : s.unvisited with
  | nil => exact absurd hU hne
  | cons b l =>
    rw [List.foldl_cons]
    exact pick_foldl_some s.dist l b

/-! ### the relaxation fold -/
/-- body of the `for other_qudit in unvisited_neighbors` loop -/
def relaxStep (d cur : Nat) (s : DState) (o : Nat) : DState :=
  if wlt (some (d + 1)) (s.dist.getD o none) then
    { s with dist := s.dist.set o (some (d + 1)),
             paths := s.paths.set o (s.paths.getD cur [] ++ [o]) }
  else s

theorem dijkstraLoop_succ (g : G) (fuel : Nat) (s : DState) :
    dijkstraLoop g (fuel + 1) s =
      if s.unvisited.isEmpty then some s.paths else
      match pickMin s with
      | none => some s.paths
      | some cur =>
        match s.dist.getD cur none with
        | none => none
        | some d =>
          let s' := ((g.adj cur).filter (fun v => s.unvisited.contains v)).foldl (relaxStep d cur) s
          dijkstraLoop g fuel { s' with unvisited := s'.unvisited.erase cur } := rfl

/-- pointwise description of the state after the relaxation loop -/
theorem relax_foldl (d cur : Nat) : ∀ (l : List Nat) (s : DState), l.Nodup → cur ∉ l →
    (∀ o ∈ l, o < s.dist.length ∧ o < s.paths.length) →
    (l.foldl (relaxStep d cur) s).unvisited = s.unvisited ∧
    (l.foldl (relaxStep d cur) s).dist.length = s.dist.length ∧
    (l.foldl (relaxStep d cur) s).paths.length = s.paths.length ∧
    ∀ x, (x ∈ l ∧ wlt (some (d + 1)) (s.dist.getD x none) = true →
            (l.foldl (relaxStep d cur) s).dist.getD x none = some (d + 1) ∧
            (l.foldl (relaxStep d cur) s).paths.getD x [] = s.paths.getD cur [] ++ [x]) ∧
         (¬ (x ∈ l ∧ wlt (some (d + 1)) (s.dist.getD x none) = true) →
            (l.foldl (relaxStep d cur) s).dist.getD x none = s.dist.getD x none ∧
            (l.foldl (relaxStep d cur) s).paths.getD x [] = s.paths.getD x [])
  | [], s, _, _, _ => by simp
  | o :: l, s, hnd, hcur, hl => by
    rw [List.nodup_cons] at hnd
    have hco : cur ≠ o := fun e => hcur (by simp [e])
    have hcl : cur ∉ l := fun e => hcur (by simp [e])
    have ho := hl o (by simp)
    rw [List.foldl_cons]
    -- one step
    have h1u : (relaxStep d cur s o).unvisited = s.unvisited := by
      unfold relaxStep; split <;> rfl
    have h1d : (relaxStep d cur s o).dist.length = s.dist.length := by
      unfold relaxStep; split <;> simp
    have h1p : (relaxStep d cur s o).paths.length = s.paths.length := by
      unfold relaxStep; split <;> simp
    have h1x : ∀ x, x ≠ o → (relaxStep d cur s o).dist.getD x none = s.dist.getD x none ∧
        (relaxStep d cur s o).paths.getD x [] = s.paths.getD x [] := by
      intro x hx
      unfold relaxStep
      split
      · simp only [getD_set']
        simp [Ne.symm hx]
      · exact ⟨rfl, rfl⟩
    have h1o : wlt (some (d + 1)) (s.dist.getD o none) = true →
        (relaxStep d cur s o).dist.getD o none = some (d + 1) ∧
        (relaxStep d cur s o).paths.getD o [] = s.paths.getD cur [] ++ [o] := by
      intro hw
      unfold relaxStep
      rw [if_pos hw]
      simp only [getD_set']
      simp [ho.1, ho.2]
    have h1o' : ¬ wlt (some (d + 1)) (s.dist.getD o none) = true →
        relaxStep d cur s o = s := by
      intro hw
      unfold relaxStep
      rw [if_neg hw]
    have ih := relax_foldl d cur l (relaxStep d cur s o) hnd.2 hcl
      (by intro o' ho'; rw [h1d, h1p]; exact hl o' (by simp [ho']))
    obtain ⟨iu, id, ip, ix⟩ := ih
    refine ⟨iu.trans h1u, id.trans h1d, ip.trans h1p, ?_⟩
    intro x
    by_cases hxo : x = o
    · subst hxo
      have hxl : ¬ (x ∈ l ∧ wlt (some (d + 1)) ((relaxStep d cur s x).dist.getD x none) = true) :=
        fun h => hnd.1 h.1
      have := (ix x).2 hxl
      rw [this.1, this.2]
      constructor
      · intro h
        exact h1o h.2
      · intro h
        have hw : ¬ wlt (some (d + 1)) (s.dist.getD x none) = true := fun e => h ⟨by simp, e⟩
        rw [h1o' hw]
        exact ⟨rfl, rfl⟩
    · have hx := h1x x hxo
      have hc := h1x cur hco
      have := ix x
      rw [hx.1, hx.2, hc.2] at this
      simpa [hxo] using this

theorem ext_getD {α} (l1 l2 : List α) (d : α) (hlen : l1.length = l2.length)
    (h : ∀ i, l1.getD i d = l2.getD i d) : l1 = l2 := by
  apply List.ext_getElem hlen
  intro i h1 h2
  have := h i
  simpa [List.getD_eq_getElem?_getD, h1, h2] using this

/-- The relaxation loop does not depend on the iteration order of the Python set
`unvisted_neighbors`: any two duplicate-free enumerations of the same set give the same state. -/
theorem relax_foldl_order_indep (d cur : Nat) (l1 l2 : List Nat) (s : DState)
    (h1 : l1.Nodup) (h2 : l2.Nodup) (hmem : ∀ x, x ∈ l1 ↔ x ∈ l2) (hcur : cur ∉ l1)
    (hl : ∀ o ∈ l1, o < s.dist.length ∧ o < s.paths.length) :
    l1.foldl (relaxStep d cur) s = l2.foldl (relaxStep d cur) s := by
  obtain ⟨au, ad, ap, ax⟩ := relax_foldl d cur l1 s h1 hcur hl
  obtain ⟨bu, bd, bp, bx⟩ := relax_foldl d cur l2 s h2 (fun h => hcur ((hmem _).2 h))
    (fun o ho => hl o ((hmem o).2 ho))
  have hx : ∀ x, (l1.foldl (relaxStep d cur) s).dist.getD x none =
        (l2.foldl (relaxStep d cur) s).dist.getD x none ∧
      (l1.foldl (relaxStep d cur) s).paths.getD x [] =
        (l2.foldl (relaxStep d cur) s).paths.getD x [] := by
    intro x
    by_cases h : x ∈ l1 ∧ wlt (some (d + 1)) (s.dist.getD x none) = true
    · have h' : x ∈ l2 ∧ wlt (some (d + 1)) (s.dist.getD x none) = true := ⟨(hmem x).1 h.1, h.2⟩
      have a := (ax x).1 h
      have b := (bx x).1 h'
      exact ⟨a.1.trans b.1.symm, a.2.trans b.2.symm⟩
    · have h' : ¬ (x ∈ l2 ∧ wlt (some (d + 1)) (s.dist.getD x none) = true) :=
        fun e => h ⟨(hmem x).2 e.1, e.2⟩
      have a := (ax x).2 h
      have b := (bx x).2 h'
      exact ⟨a.1.trans b.1.symm, a.2.trans b.2.symm⟩
  generalize l1.foldl (relaxStep d cur) s = s1 at *
  generalize l2.foldl (relaxStep d cur) s = s2 at *
  cases s1; cases s2
  simp only [DState.mk.injEq]
  exact ⟨au.trans bu.symm, ext_getD _ _ none (ad.trans bd.symm) (fun i => (hx i).1),
    ext_getD _ _ [] (ap.trans bp.symm) (fun i => (hx i).2)⟩

/-! ### the loop invariant -/
/-- `p` is a path `src … x` with `d` edges -/
structure GoodPath (g : G) (src x : Nat) (p : List Nat) (d : Nat) : Prop where
  head : p.head? = some src
  last : p.getLast? = some x
  isPath : IsPath g p
  len : p.length = d + 1
  walk : WalkLen g src x d

theorem GoodPath.snoc {g : G} {src c x : Nat} {p : List Nat} {d : Nat}
    (h : GoodPath g src c p d) (he : g.hasEdge c x = true) : GoodPath g src x (p ++ [x]) (d + 1) where
  head := by
    have := h.head
    cases p with
    | nil => simp at this
    | cons a p => simpa using this
  last := by simp
  isPath := isPath_append_single g p c x h.isPath h.last he
  len := by simp [h.len]
  walk := WalkLen.step h.walk he

/-- Invariant of the `while` loop; "visited" = `< n` and not in `unvisited`. -/
structure Inv (g : G) (src : Nat) (s : DState) : Prop where
  lenD : s.dist.length = g.n
  lenP : s.paths.length = g.n
  nodup : s.unvisited.Nodup
  ult : ∀ v ∈ s.unvisited, v < g.n
  src0 : s.dist.getD src none = some 0
  sound : ∀ x d, x < g.n → s.dist.getD x none = some d → GoodPath g src x (s.paths.getD x []) d
  opt : ∀ u, u < g.n → u ∉ s.unvisited →
    ∃ d, s.dist.getD u none = some d ∧ ∀ k, WalkLen g src u k → d ≤ k
  relaxed : ∀ u, u < g.n → u ∉ s.unvisited → ∀ d, s.dist.getD u none = some d →
    ∀ v, g.hasEdge u v = true → dle (s.dist.getD v none) (some (d + 1))
  order : ∀ u, u < g.n → u ∉ s.unvisited → ∀ v ∈ s.unvisited,
    dle (s.dist.getD u none) (s.dist.getD v none)

theorem inv_init (g : G) (src : Nat) (hs : src < g.n) :
    Inv g src { unvisited := List.range g.n,
                dist := (List.replicate g.n none).set src (some 0),
                paths := (List.replicate g.n []).set src [src] } where
  lenD := by simp
  lenP := by simp
  nodup := List.nodup_range
  ult := by intro v hv; simpa using hv
  src0 := by simp [hs]
  sound := by
    intro x d hx hd
    simp only [getD_set'] at hd ⊢
    by_cases h : src = x
    · subst h
      simp [hs] at hd ⊢
      subst hd
      exact ⟨rfl, rfl, trivial, rfl, WalkLen.refl _⟩
    · simp [h, hx] at hd
  opt := by intro u hu hnu; exact absurd (List.mem_range.2 hu) hnu
  relaxed := by intro u hu hnu; exact absurd (List.mem_range.2 hu) hnu
  order := by intro u hu hnu; exact absurd (List.mem_range.2 hu) hnu

/-- key lemma: the minimal unvisited distance is a lower bound for the length of every walk from
the source to an unvisited vertex. -/
theorem Inv.min_le_walk {g : G} (hwf : g.WF) {src : Nat} (hs : src < g.n) {s : DState}
    (inv : Inv g src s) {cur : Nat}
    (hmin : ∀ v ∈ s.unvisited, dle (s.dist.getD cur none) (s.dist.getD v none)) :
    ∀ x k, WalkLen g src x k → x ∈ s.unvisited → dle (s.dist.getD cur none) (some k) := by
  intro x k hw
  induction hw with
  | refl =>
    intro hx
    have := hmin src hx
    rwa [inv.src0] at this
  | @step b c k hw he ih =>
    intro hc
    by_cases hb : b ∈ s.unvisited
    · exact dle_some_succ (ih hb)
    · have hbn : b < g.n := hw.lt hwf hs
      obtain ⟨d, hd, hopt⟩ := inv.opt b hbn hb
      have h1 := inv.relaxed b hbn hb d hd c he
      have h2 := hmin c hc
      exact dle_some_mono (dle_trans h2 h1) (by have := hopt k hw; omega)

/-- one iteration of the loop preserves the invariant -/
theorem Inv.step {g : G} (hwf : g.WF) {src : Nat} (hs : src < g.n) {s : DState}
    (inv : Inv g src s) {cur d : Nat} (hcur : cur ∈ s.unvisited)
    (hmin : ∀ v ∈ s.unvisited, dle (s.dist.getD cur none) (s.dist.getD v none))
    (hd : s.dist.getD cur none = some d) :
    Inv g src
      { (((g.adj cur).filter (fun v => s.unvisited.contains v)).foldl (relaxStep d cur) s) with
        unvisited := (((g.adj cur).filter (fun v => s.unvisited.contains v)).foldl
          (relaxStep d cur) s).unvisited.erase cur } := by
  have hcn : cur < g.n := inv.ult cur hcur
  have hnb : ∀ o, o ∈ (g.adj cur).filter (fun v => s.unvisited.contains v) ↔
      g.hasEdge cur o = true ∧ o ∈ s.unvisited := by
    intro o
    rw [List.mem_filter, G.mem_adj_wf g hwf]
    simp
  have hcnb : cur ∉ (g.adj cur).filter (fun v => s.unvisited.contains v) := by
    intro h
    have := ((hnb cur).1 h).1
    rw [G.not_hasEdge_self g hwf] at this
    exact absurd this (by decide)
  obtain ⟨fu, fd, fp, fx⟩ := relax_foldl d cur _ s
    (List.Pairwise.filter _ (g.nodup_adj cur)) hcnb
    (by
      intro o ho
      have := inv.ult o ((hnb o).1 ho).2
      rw [inv.lenD, inv.lenP]
      exact ⟨this, this⟩)
  generalize ((g.adj cur).filter (fun v => s.unvisited.contains v)).foldl (relaxStep d cur) s = s'
    at fu fd fp fx
  -- facts about the new distances
  have hle : ∀ x, dle (s'.dist.getD x none) (s.dist.getD x none) := by
    intro x
    by_cases h : x ∈ (g.adj cur).filter (fun v => s.unvisited.contains v) ∧
        wlt (some (d + 1)) (s.dist.getD x none) = true
    · rw [((fx x).1 h).1]
      exact dle_of_wlt h.2
    · rw [((fx x).2 h).1]
      exact dle_refl _
  have hsame : ∀ x, x ∉ s.unvisited ∨ x = cur → s'.dist.getD x none = s.dist.getD x none ∧
      s'.paths.getD x [] = s.paths.getD x [] := by
    intro x hx
    apply (fx x).2
    rintro ⟨h, _⟩
    rcases hx with hx | rfl
    · exact hx ((hnb x).1 h).2
    · exact hcnb h
  have hcases : ∀ x, s'.dist.getD x none = s.dist.getD x none ∨
      (s'.dist.getD x none = some (d + 1) ∧ g.hasEdge cur x = true ∧
        s'.paths.getD x [] = s.paths.getD cur [] ++ [x]) := by
    intro x
    by_cases h : x ∈ (g.adj cur).filter (fun v => s.unvisited.contains v) ∧
        wlt (some (d + 1)) (s.dist.getD x none) = true
    · right
      exact ⟨((fx x).1 h).1, ((hnb x).1 h.1).1, ((fx x).1 h).2⟩
    · left
      exact ((fx x).2 h).1
  have hopt_cur : ∀ k, WalkLen g src cur k → d ≤ k := by
    intro k hw
    have := inv.min_le_walk hwf hs hmin cur k hw hcur
    rwa [hd, dle_some_some] at this
  have hmem : ∀ u, u ∉ s'.unvisited.erase cur ↔ (u ∉ s.unvisited ∨ u = cur) := by
    intro u
    rw [fu, List.Nodup.mem_erase_iff inv.nodup]
    by_cases h : u = cur <;> simp [h]
  have hmem' : ∀ u, u ∈ s'.unvisited.erase cur ↔ (u ∈ s.unvisited ∧ u ≠ cur) := by
    intro u
    rw [fu, List.Nodup.mem_erase_iff inv.nodup]
    exact And.comm
  -- visited vertices have distance ≤ d
  have hvis_le : ∀ u, u < g.n → (u ∉ s.unvisited ∨ u = cur) → dle (s.dist.getD u none) (some d) := by
    intro u hu h
    rcases h with h | rfl
    · have := inv.order u hu h cur hcur
      rwa [hd] at this
    · rw [hd]; exact dle_refl _
  refine ⟨by simpa [fd] using inv.lenD, by simpa [fp] using inv.lenP, ?_, ?_, ?_, ?_, ?_, ?_, ?_⟩
  · show (s'.unvisited.erase cur).Nodup
    rw [fu]; exact inv.nodup.erase _
  · intro v hv
    exact inv.ult v ((hmem' v).1 hv).1
  · show s'.dist.getD src none = some 0
    rcases hcases src with h | ⟨h, _, _⟩
    · rw [h]; exact inv.src0
    · have := hle src
      rw [h, inv.src0, dle_some_some] at this
      omega
  · intro x dx hx hdx
    show GoodPath g src x (s'.paths.getD x []) dx
    change s'.dist.getD x none = some dx at hdx
    by_cases h : x ∈ (g.adj cur).filter (fun v => s.unvisited.contains v) ∧
        wlt (some (d + 1)) (s.dist.getD x none) = true
    · have h1 := (fx x).1 h
      rw [h1.1] at hdx
      injection hdx with hdx
      subst hdx
      rw [h1.2]
      exact (inv.sound cur d hcn hd).snoc ((hnb x).1 h.1).1
    · have h1 := (fx x).2 h
      rw [h1.1] at hdx
      rw [h1.2]
      exact inv.sound x dx hx hdx
  · intro u hu hnu
    show ∃ d, s'.dist.getD u none = some d ∧ _
    have h := (hmem u).1 hnu
    rw [(hsame u h).1]
    rcases h with h | rfl
    · exact inv.opt u hu h
    · exact ⟨d, hd, hopt_cur⟩
  · intro u hu hnu du hdu v he
    show dle (s'.dist.getD v none) (some (du + 1))
    change s'.dist.getD u none = some du at hdu
    have h := (hmem u).1 hnu
    rw [(hsame u h).1] at hdu
    rcases h with h | rfl
    · exact dle_trans (hle v) (inv.relaxed u hu h du hdu v he)
    · rw [hd] at hdu
      injection hdu with hdu
      subst hdu
      have hvn : v < g.n := (g.hasEdge_lt hwf he).2.2
      by_cases hv : v ∈ s.unvisited
      · by_cases hw : wlt (some (d + 1)) (s.dist.getD v none) = true
        · rw [((fx v).1 ⟨(hnb v).2 ⟨he, hv⟩, hw⟩).1]
          exact dle_refl _
        · have : dle (s.dist.getD v none) (some (d + 1)) := by simpa [dle] using hw
          exact dle_trans (hle v) this
      · exact dle_trans (hle v) (dle_some_succ (hvis_le v hvn (Or.inl hv)))
  · intro u hu hnu v hv
    show dle (s'.dist.getD u none) (s'.dist.getD v none)
    have h := (hmem u).1 hnu
    have hv' := (hmem' v).1 hv
    rw [(hsame u h).1]
    rcases hcases v with h2 | ⟨h2, _, _⟩
    · rw [h2]
      rcases h with h | rfl
      · exact inv.order u hu h v hv'.1
      · exact hmin v hv'.1
    · rw [h2]
      exact dle_some_succ (hvis_le u hu h)

/-! ### the main loop -/
theorem loop_spec {g : G} (hwf : g.WF) {src : Nat} (hs : src < g.n) :
    ∀ (fuel : Nat) (s : DState), Inv g src s → s.unvisited.length ≤ fuel →
      match dijkstraLoop g fuel s with
      | none => ∃ v, v < g.n ∧ ∀ k, ¬ WalkLen g src v k
      | some ps => ∃ s', Inv g src s' ∧ s'.unvisited = [] ∧ s'.paths = ps
  | 0, s, inv, hf => by
    have hU : s.unvisited = [] := List.eq_nil_of_length_eq_zero (by omega)
    have : dijkstraLoop g 0 s = some s.paths := by simp [dijkstraLoop, hU]
    rw [this]
    exact ⟨s, inv, hU, rfl⟩
  | fuel + 1, s, inv, hf => by
    rw [dijkstraLoop_succ]
    by_cases hU : s.unvisited = []
    · simp only [hU, List.isEmpty_nil, if_true]
      exact ⟨s, inv, hU, rfl⟩
    · have hE : s.unvisited.isEmpty = false := by simpa using hU
      simp only [hE]
      obtain ⟨cur, hp, hcur, hmin⟩ := pickMin_spec s hU
      simp only [hp]
      cases hd : s.dist.getD cur none with
      | none =>
        refine ⟨cur, inv.ult cur hcur, ?_⟩
        intro k hw
        have := inv.min_le_walk hwf hs hmin cur k hw hcur
        rw [hd, dle_none_left] at this
        exact absurd this (by simp)
      | some d =>
        have inv' := inv.step hwf hs hcur hmin hd
        have hlen : ((((g.adj cur).filter (fun v => s.unvisited.contains v)).foldl
            (relaxStep d cur) s).unvisited.erase cur).length ≤ fuel := by
          have hu := (relax_foldl d cur ((g.adj cur).filter (fun v => s.unvisited.contains v)) s
            (List.Pairwise.filter _ (g.nodup_adj cur))
            (by
              intro h
              have := (List.mem_filter.1 h).1
              rw [G.mem_adj_wf g hwf, G.not_hasEdge_self g hwf] at this
              exact absurd this (by decide))
            (by
              intro o ho
              have := (g.mem_adj cur o).1 (List.mem_filter.1 ho).1
              rw [inv.lenD, inv.lenP]
              exact ⟨this.1, this.1⟩)).1
          rw [hu, List.length_erase_of_mem hcur]
          omega
        exact loop_spec hwf hs fuel _ inv' hlen

theorem shortestPathTree_eq (g : G) (src : Nat) :
    g.shortestPathTree src = dijkstraLoop g g.n
      { unvisited := List.range g.n,
        dist := (List.replicate g.n none).set src (some 0),
        paths := (List.replicate g.n []).set src [src] } := rfl

/-! ### final theorems -/
/-- If `get_shortest_path_tree(s)` returns, the result has one entry per vertex, and the entry of
`v` is a path `s … v` in the graph with the minimum possible number of edges. -/
theorem shortestPathTree_some (g : G) (hwf : g.WF) (s : Nat) (hs : s < g.n) (ps : List (List Nat))
    (h : g.shortestPathTree s = some ps) :
    ps.length = g.n ∧ ∀ v, v < g.n →
      (ps.getD v []).head? = some s ∧ (ps.getD v []).getLast? = some v ∧ IsPath g (ps.getD v []) ∧
      WalkLen g s v ((ps.getD v []).length - 1) ∧
      ∀ k, WalkLen g s v k → (ps.getD v []).length - 1 ≤ k := by
  have hl := loop_spec hwf hs g.n _ (inv_init g s hs) (by simp)
  rw [← shortestPathTree_eq, h] at hl
  obtain ⟨s', inv, hU, rfl⟩ := hl
  refine ⟨inv.lenP, ?_⟩
  intro v hv
  obtain ⟨d, hd, hopt⟩ := inv.opt v hv (by rw [hU]; simp)
  have gp := inv.sound v d hv hd
  have hlen : (s'.paths.getD v []).length - 1 = d := by rw [gp.len]; omega
  rw [hlen]
  exact ⟨gp.head, gp.last, gp.isPath, gp.walk, hopt⟩

/-- `get_shortest_path_tree(s)` raises `RuntimeError` exactly when some vertex is unreachable
from `s`. -/
theorem shortestPathTree_none_iff (g : G) (hwf : g.WF) (s : Nat) (hs : s < g.n) :
    g.shortestPathTree s = none ↔ ∃ v, v < g.n ∧ ¬ Reach g s v := by
  constructor
  · intro h
    have hl := loop_spec hwf hs g.n _ (inv_init g s hs) (by simp)
    rw [← shortestPathTree_eq, h] at hl
    obtain ⟨v, hv, hw⟩ := hl
    refine ⟨v, hv, ?_⟩
    rw [reach_iff_walkLen]
    rintro ⟨k, hk⟩
    exact hw k hk
  · rintro ⟨v, hv, hnr⟩
    cases h : g.shortestPathTree s with
    | none => rfl
    | some ps =>
      have := ((shortestPathTree_some g hwf s hs ps h).2 v hv).2.2.2.1
      exact absurd this.reach hnr

/-- consequence: the result is `some` iff every vertex is reachable from the source -/
theorem shortestPathTree_isSome_iff (g : G) (hwf : g.WF) (s : Nat) (hs : s < g.n) :
    (g.shortestPathTree s).isSome = true ↔ ∀ v, v < g.n → Reach g s v := by
  have := shortestPathTree_none_iff g hwf s hs
  cases h : g.shortestPathTree s with
  | none =>
    obtain ⟨v, hv, hnr⟩ := this.1 h
    simp only [Option.isSome_none, Bool.false_eq_true, false_iff]
    intro hall
    exact hnr (hall v hv)
  | some ps =>
    simp only [Option.isSome_some, true_iff]
    intro v hv
    exact (((shortestPathTree_some g hwf s hs ps h).2 v hv).2.2.2.1).reach

/-! ### non-vacuity -/
/-- connected example: the path 0 - 1 - 2 - 3 with the chord 0 - 2, source 1 -/
example : (G.mk 4 [(0, 1), (1, 2), (2, 3), (0, 2)]).WF ∧
    1 < (G.mk 4 [(0, 1), (1, 2), (2, 3), (0, 2)]).n ∧
    (G.mk 4 [(0, 1), (1, 2), (2, 3), (0, 2)]).shortestPathTree 1 =
      some [[1, 0], [1], [1, 2], [1, 2, 3]] := by
  refine ⟨?_, by decide, by decide⟩
  unfold G.WF; decide

/-- disconnected example: vertex 2 is isolated, the call raises -/
example : (G.mk 3 [(0, 1)]).WF ∧ 0 < (G.mk 3 [(0, 1)]).n ∧
    (G.mk 3 [(0, 1)]).shortestPathTree 0 = none := by
  refine ⟨?_, by decide, by decide⟩
  unfold G.WF; decide

/-- and by the theorem the isolated vertex is indeed unreachable -/
example : ∃ v, v < 3 ∧ ¬ Reach (G.mk 3 [(0, 1)]) 0 v :=
  (shortestPathTree_none_iff (G.mk 3 [(0, 1)]) (by unfold G.WF; decide) 0 (by decide)).1 (by decide)

end BqVerif.Graph
