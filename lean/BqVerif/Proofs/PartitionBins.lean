import BqVerif.Proofs.QuickSpec
import BqVerif.Model.PartitionBins
/-!
BinSpec (Model/PartitionBins.lean): the invariant of QuickPartitioner's bin bookkeeping and
the proof that the code's emission guard (`dividing_line[q] == start` on every qudit of a
pending bin) implies QuickSpec's semantic guard `closedIn`.
-/
namespace BqVerif.Partition
open BqVerif.Circ BqVerif.Sem

/-- binned-but-unplaced operations followed by the unscanned ones: the input order -/
def remC (s : BState) : List COp := s.done.map (·.1) ++ s.todo

theorem remT_eq (s : BState) : s.remT = (remC s).map (fun x => (⟨x.tag, x.op⟩ : TOp)) := rfl

/-! ### `closedIn` as a pairwise property -/
def ClosedRel (tags : List Nat) (x y : TOp) : Prop :=
  tags.contains x.tag = true ∨ tags.contains y.tag = false ∨ disjointL x.op.loc y.op.loc = true

theorem closedIn_of_pairwise (tags : List Nat) :
    ∀ (l : List TOp), l.Pairwise (ClosedRel tags) → closedIn tags l = true
  | [], _ => rfl
  | x :: t, h => by
    rw [List.pairwise_cons] at h
    unfold closedIn
    rw [Bool.and_eq_true]
    refine ⟨?_, closedIn_of_pairwise tags t h.2⟩
    by_cases hx : tags.contains x.tag = true
    · rw [hx, Bool.true_or]
    · have hx' : tags.contains x.tag = false := by simpa using hx
      rw [hx', Bool.false_or, List.all_eq_true]
      intro y hy
      rcases h.1 y hy with h1 | h1 | h1
      · exact absurd h1 hx
      · rw [h1]; rfl
      · rw [h1, Bool.or_true]

/-! ### the grid -/
theorem gridRel_lt {x y : COp} (h : gridRel x y) {q : Nat} (hx : q ∈ x.op.loc) (hy : q ∈ y.op.loc) :
    x.cyc < y.cyc := by
  rcases Nat.lt_or_ge x.cyc y.cyc with hlt | hge
  · exact hlt
  · have heq : x.cyc = y.cyc := Nat.le_antisymm h.1 hge
    exact absurd hy (disjointL_spec (h.2 heq) hx)

theorem gridWFb_spec : ∀ (l : List COp), gridWFb l = true → l.Pairwise gridRel
  | [], _ => List.Pairwise.nil
  | x :: t, h => by
    unfold gridWFb at h
    rw [Bool.and_eq_true] at h
    rw [List.pairwise_cons]
    refine ⟨?_, gridWFb_spec t h.2⟩
    intro y hy
    have := List.all_eq_true.mp h.1 y hy
    unfold gridRelB at this
    simp only [Bool.and_eq_true, decide_eq_true_eq, Bool.or_eq_true, bne_iff_ne, ne_eq] at this
    refine ⟨this.1, fun heq => ?_⟩
    rcases this.2 with h2 | h2
    · exact absurd heq h2
    · exact h2

theorem firstCyc_le {q : Nat} : ∀ (l : List COp), l.Pairwise gridRel → ∀ nx, firstCyc q l = some nx →
    ∀ x ∈ l, q ∈ x.op.loc → nx ≤ x.cyc
  | [], _, nx, h, _, hx, _ => by simp at hx
  | a :: t, hp, nx, h, x, hx, hq => by
    rw [List.pairwise_cons] at hp
    unfold firstCyc at h
    by_cases ha : a.op.on q = true
    · simp only [List.find?_cons, ha, Option.map_some, Option.some.injEq] at h
      subst h
      rcases List.mem_cons.mp hx with rfl | hx
      · exact Nat.le_refl _
      · exact (hp.1 x hx).1
    · have ha' : a.op.on q = false := by simpa using ha
      simp only [List.find?_cons, ha'] at h
      rcases List.mem_cons.mp hx with rfl | hx
      · exact absurd ((on_iff _ _).mpr hq) ha
      · exact firstCyc_le t hp.2 nx h x hx hq

theorem firstCyc_none {q : Nat} {l : List COp} (h : firstCyc q l = none) :
    ∀ x ∈ l, q ∉ x.op.loc := by
  intro x hx hq
  unfold firstCyc at h
  simp only [Option.map_eq_none_iff, List.find?_eq_none] at h
  exact h x hx ((on_iff _ _).mpr hq)

/-! ### the invariant -/
structure BInv (s : BState) : Prop where
  grid : (remC s).Pairwise gridRel
  tags : ((remC s).map (·.tag)).Nodup
  j1 : ∀ xb ∈ s.done, ∀ q ∈ xb.1.op.loc, ∃ iv ∈ s.ivs, iv.bin = xb.2 ∧ iv.q = q ∧
    iv.s ≤ xb.1.cyc ∧ ∀ e, iv.e = some e → xb.1.cyc < e
  j2 : ∀ iv ∈ s.ivs, ∀ xb ∈ s.done, iv.q ∈ xb.1.op.loc → iv.s ≤ xb.1.cyc →
    (∀ e, iv.e = some e → xb.1.cyc < e) → xb.2 = iv.bin
  j3 : ∀ iv ∈ s.ivs, ∀ x ∈ s.todo, iv.q ∈ x.op.loc →
    (∀ e, iv.e = some e → e ≤ x.cyc) ∧ (iv.e = none → iv.bar = false)
  j4 : ∀ x ∈ remC s, ∀ q ∈ x.op.loc, s.dl q ≤ x.cyc
  j5 : ∀ iv ∈ s.ivs, ∀ x ∈ s.todo, iv.s ≤ x.cyc
  j6 : ∀ x ∈ remC s, x.cyc < s.ncyc

theorem binv_init (ops : List COp) (ncyc : Nat) (hg : ops.Pairwise gridRel)
    (ht : (ops.map (·.tag)).Nodup) (hn : ∀ x ∈ ops, x.cyc < ncyc) :
    BInv (BState.init ops ncyc) := by
  refine ⟨by simpa [remC, BState.init] using hg, by simpa [remC, BState.init] using ht,
    ?_, ?_, ?_, ?_, ?_, by simpa [remC, BState.init] using hn⟩
  · intro xb h; simp [BState.init] at h
  · intro iv h; simp [BState.init] at h
  · intro iv h; simp [BState.init] at h
  · intro x hx q hq
    simp only [remC, BState.init, List.map_nil, List.nil_append] at hx
    simp only [BState.init]
    cases hf : firstCyc q ops with
    | none => simp
    | some nx => simpa using firstCyc_le ops hg nx hf x hx hq
  · intro iv h; simp [BState.init] at h

/-! ### the code's emission guard implies `closedIn` -/
theorem not_disjointL {a c : List Nat} (h : ¬ disjointL a c = true) : ∃ q, q ∈ a ∧ q ∈ c := by
  unfold disjointL at h
  simp only [List.all_eq_true, Bool.not_eq_true', List.contains_eq_mem, decide_eq_false_iff_not,
    not_forall, Decidable.not_not] at h
  obtain ⟨q, hq, hc⟩ := h
  exact ⟨q, hq, hc⟩

theorem emitGuard_spec {s : BState} {bn : Nat} (hg : emitGuard s bn = true) {iv : Iv}
    (hiv : iv ∈ s.ivs) (hb : iv.bin = bn) :
    (iv.e = none → iv.bar = true) ∧ s.dl iv.q = iv.s := by
  have := List.all_eq_true.mp hg iv hiv
  simp only [hb, bne_self_eq_false, Bool.false_or, Bool.and_eq_true, Bool.or_eq_true,
    beq_iff_eq] at this
  refine ⟨fun he => ?_, this.2⟩
  rcases this.1 with h | h
  · rw [he] at h; simp at h
  · exact h

theorem mem_remC {s : BState} {x : COp} (h : x ∈ remC s) :
    (∃ xb ∈ s.done, xb.1 = x) ∨ x ∈ s.todo := by
  unfold remC at h
  rcases List.mem_append.mp h with h | h
  · obtain ⟨xb, hxb, rfl⟩ := List.mem_map.mp h
    exact Or.inl ⟨xb, hxb, rfl⟩
  · exact Or.inr h

theorem done_mem_remC {s : BState} {xb : COp × Nat} (h : xb ∈ s.done) : xb.1 ∈ remC s :=
  List.mem_append.mpr (Or.inl (List.mem_map.mpr ⟨xb, h, rfl⟩))

theorem todo_mem_remC {s : BState} {x : COp} (h : x ∈ s.todo) : x ∈ remC s :=
  List.mem_append.mpr (Or.inr h)

theorem mem_binTags {s : BState} {bn t : Nat} :
    t ∈ s.binTags bn ↔ ∃ xb ∈ s.done, xb.2 = bn ∧ xb.1.tag = t := by
  unfold BState.binTags
  simp only [List.mem_map, List.mem_filter, beq_iff_eq]
  constructor
  · rintro ⟨xb, ⟨h1, h2⟩, h3⟩; exact ⟨xb, h1, h2, h3⟩
  · rintro ⟨xb, h1, h2, h3⟩; exact ⟨xb, ⟨h1, h2⟩, h3⟩

/-- **The dividing-line guard of `process_pending_bins` implies QuickSpec's `closedIn`.** -/
theorem emit_closed {s : BState} (hinv : BInv s) {bn : Nat} (hg : emitGuard s bn = true) :
    closedIn (s.binTags bn) s.remT = true := by
  rw [remT_eq]
  apply closedIn_of_pairwise
  rw [List.pairwise_map]
  refine List.Pairwise.imp_of_mem ?_ hinv.grid
  intro x y hx hy hxy
  unfold ClosedRel
  simp only
  by_cases hyT : (s.binTags bn).contains y.tag = true
  swap
  · right; left; simpa using hyT
  by_cases hd : disjointL x.op.loc y.op.loc = true
  · right; right; exact hd
  left
  obtain ⟨q, hqx, hqy⟩ := not_disjointL hd
  -- y is a member of the bin
  obtain ⟨yb, hyb, hybn, hytag⟩ := mem_binTags.mp (by simpa using hyT)
  have hyeq : yb.1 = y :=
    List.inj_on_of_nodup_map hinv.tags (done_mem_remC hyb) hy hytag
  obtain ⟨iv, hiv, hivb, hivq, hs, he⟩ := hinv.j1 yb hyb q (by rw [hyeq]; exact hqy)
  rw [hyeq] at hs he
  rw [hybn] at hivb
  obtain ⟨hbar, hdl⟩ := emitGuard_spec hg hiv hivb
  have hlt : x.cyc < y.cyc := gridRel_lt hxy hqx hqy
  have hsx : iv.s ≤ x.cyc := by
    have := hinv.j4 x hx q hqx
    rw [← hivq, hdl] at this
    exact this
  rcases mem_remC hx with ⟨xb, hxb, hxeq⟩ | hxt
  · -- x is binned: it lies in the bin's interval, hence belongs to the bin
    have := hinv.j2 iv hiv xb hxb (by rw [hxeq, hivq]; exact hqx) (by rw [hxeq]; exact hsx)
      (by intro e hee; rw [hxeq]; exact Nat.lt_trans hlt (he e hee))
    have hmem : x.tag ∈ s.binTags bn :=
      mem_binTags.mpr ⟨xb, hxb, by rw [this, hivb], by rw [hxeq]⟩
    simpa using hmem
  · -- x is not even scanned: impossible, the interval is closed before it
    exfalso
    obtain ⟨h1, h2⟩ := hinv.j3 iv hiv x hxt (by rw [hivq]; exact hqx)
    cases hee : iv.e with
    | none =>
      have := hbar hee
      rw [h2 hee] at this
      exact Bool.noConfusion this
    | some e =>
      have := h1 e hee
      have := he e hee
      omega

/-! ### every move keeps the invariant -/
theorem binv_emit {s s' : BState} {bn : Nat} (hinv : BInv s) (h : bEmit s bn = some s') :
    BInv s' := by
  unfold bEmit at h
  split at h
  swap
  · exact absurd h (by simp)
  rename_i hg'
  injection h with h
  subst h
  have hsub : List.Sublist ((s.done.filter (fun x => x.2 != bn)).map (·.1) ++ s.todo) (remC s) :=
    (List.Sublist.map _ List.filter_sublist).append (List.Sublist.refl _)
  refine ⟨hinv.grid.sublist hsub, hinv.tags.sublist (hsub.map _), ?_, ?_, ?_, ?_, ?_, ?_⟩
  · intro xb hxb q hq
    dsimp only at hxb ⊢
    obtain ⟨hxb1, hxb2⟩ := List.mem_filter.mp hxb
    obtain ⟨iv, hiv, h1, h2, h3, h4⟩ := hinv.j1 xb hxb1 q hq
    refine ⟨iv, List.mem_filter.mpr ⟨hiv, ?_⟩, h1, h2, h3, h4⟩
    rw [h1]; exact hxb2
  · intro iv hiv xb hxb
    dsimp only at hiv hxb
    exact hinv.j2 iv (List.mem_filter.mp hiv).1 xb (List.mem_filter.mp hxb).1
  · intro iv hiv x hx
    dsimp only at hiv hx
    exact hinv.j3 iv (List.mem_filter.mp hiv).1 x hx
  · intro x hx q hq
    have hx0 : x ∈ remC s := hsub.subset hx
    dsimp only
    cases hf : s.ivs.find? (fun iv => iv.bin == bn && iv.q == q) with
    | none => exact hinv.j4 x hx0 q hq
    | some iv =>
      dsimp only
      have hiv : iv ∈ s.ivs := List.mem_of_find?_eq_some hf
      have hp := List.find?_some hf
      simp only [Bool.and_eq_true, beq_iff_eq] at hp
      obtain ⟨hbar, hdl⟩ := emitGuard_spec hg' hiv hp.1
      have hsx : iv.s ≤ x.cyc := by
        have := hinv.j4 x hx0 q hq
        rw [← hp.2, hdl] at this
        exact this
      rcases List.mem_append.mp hx with hxd | hxt
      · obtain ⟨xb, hxb, hxeq⟩ := List.mem_map.mp hxd
        obtain ⟨hxb1, hxb2⟩ := List.mem_filter.mp hxb
        have hne : xb.2 ≠ bn := by simpa using hxb2
        unfold Iv.next
        cases hee : iv.e with
        | none =>
          exfalso
          apply hne
          rw [← hp.1]
          exact hinv.j2 iv hiv xb hxb1 (by rw [hxeq, hp.2]; exact hq) (by rw [hxeq]; exact hsx)
            (by intro e he; rw [hee] at he; cases he)
        | some e =>
          dsimp only
          rcases Nat.lt_or_ge x.cyc e with hlt | hge
          · exfalso
            apply hne
            rw [← hp.1]
            exact hinv.j2 iv hiv xb hxb1 (by rw [hxeq, hp.2]; exact hq) (by rw [hxeq]; exact hsx)
              (by intro e' he'; rw [hee] at he'; injection he' with he'; rw [hxeq, ← he']; exact hlt)
          · exact hge
      · obtain ⟨h1, h2⟩ := hinv.j3 iv hiv x hxt (by rw [hp.2]; exact hq)
        unfold Iv.next
        cases hee : iv.e with
        | none =>
          exfalso
          have := hbar hee
          rw [h2 hee] at this
          exact Bool.noConfusion this
        | some e => exact h1 e hee
  · intro iv hiv x hx
    dsimp only at hiv hx
    exact hinv.j5 iv (List.mem_filter.mp hiv).1 x hx
  · intro x hx
    exact hinv.j6 x (hsub.subset hx)

theorem binv_finish {s s' : BState} (hinv : BInv s) (h : bFinish s = some s') : BInv s' := by
  unfold bFinish at h
  split at h
  swap
  · exact absurd h (by simp)
  rename_i htodo
  injection h with h
  subst h
  have hrem : ∀ x, x ∈ remC s ↔ ∃ xb ∈ s.done, xb.1 = x := by
    intro x
    unfold remC
    rw [htodo, List.append_nil, List.mem_map]
  refine ⟨hinv.grid, hinv.tags, ?_, ?_, ?_, hinv.j4, ?_, hinv.j6⟩
  · intro xb hxb q hq
    obtain ⟨iv, hiv, h1, h2, h3, h4⟩ := hinv.j1 xb hxb q hq
    dsimp only
    by_cases hc : (iv.e.isNone && !iv.bar) = true
    · refine ⟨{ iv with e := some s.ncyc }, List.mem_map.mpr ⟨iv, hiv, by rw [if_pos hc]⟩,
        h1, h2, h3, ?_⟩
      intro e he
      injection he with he
      rw [← he]
      exact hinv.j6 xb.1 ((hrem xb.1).mpr ⟨xb, hxb, rfl⟩)
    · exact ⟨iv, List.mem_map.mpr ⟨iv, hiv, by rw [if_neg hc]⟩, h1, h2, h3, h4⟩
  · intro iv hiv xb hxb hq hs he
    dsimp only at hiv hxb
    obtain ⟨iv0, hiv0, hmap⟩ := List.mem_map.mp hiv
    by_cases hc : (iv0.e.isNone && !iv0.bar) = true
    · rw [if_pos hc] at hmap
      subst hmap
      simp only [Bool.and_eq_true, Option.isNone_iff_eq_none] at hc
      exact hinv.j2 iv0 hiv0 xb hxb hq hs (by intro e hee; rw [hc.1] at hee; cases hee)
    · rw [if_neg hc] at hmap
      subst hmap
      exact hinv.j2 iv0 hiv0 xb hxb hq hs he
  · intro iv _ x hx
    dsimp only at hx
    rw [htodo] at hx
    exact absurd hx (List.not_mem_nil)
  · intro iv _ x hx
    dsimp only at hx
    rw [htodo] at hx
    exact absurd hx (List.not_mem_nil)

/-- the interval a bin keeps / gets closed when operation `o` goes to bin `b` -/
def closeOne (b : Nat) (o : COp) (iv : Iv) : Iv :=
  if iv.bin != b && o.op.on iv.q && iv.e.isNone then { iv with e := some o.cyc } else iv

theorem closeOthers_eq (b : Nat) (o : COp) (ivs : List Iv) :
    closeOthers b o ivs = ivs.map (closeOne b o) := rfl

theorem closeOne_fields (b : Nat) (o : COp) (iv : Iv) :
    (closeOne b o iv).bin = iv.bin ∧ (closeOne b o iv).q = iv.q ∧ (closeOne b o iv).s = iv.s ∧
    (closeOne b o iv).bar = iv.bar := by
  unfold closeOne
  split <;> simp

theorem closeOne_e (b : Nat) (o : COp) (iv : Iv) :
    ((closeOne b o iv).e = iv.e) ∨
    (iv.bin ≠ b ∧ iv.q ∈ o.op.loc ∧ iv.e = none ∧ (closeOne b o iv).e = some o.cyc) := by
  unfold closeOne
  split
  · rename_i hc
    simp only [Bool.and_eq_true, bne_iff_ne, ne_eq, Option.isNone_iff_eq_none] at hc
    exact Or.inr ⟨hc.1.1, (on_iff _ _).mp hc.1.2, hc.2, rfl⟩
  · exact Or.inl rfl

/-- an open interval of another bin on a qudit of `o` does get closed -/
theorem closeOne_closes {b : Nat} {o : COp} {iv : Iv} (hb : iv.bin ≠ b) (hq : iv.q ∈ o.op.loc)
    (he : iv.e = none) : (closeOne b o iv).e = some o.cyc := by
  unfold closeOne
  have : (iv.bin != b && o.op.on iv.q && iv.e.isNone) = true := by
    simp [hb, (on_iff _ _).mpr hq, he]
  rw [if_pos this]

theorem remC_consume (s : BState) {o : COp} {rest : List COp} (htodo : s.todo = o :: rest)
    (b : Nat) (ivs' : List Iv) :
    remC { s with todo := rest, done := s.done ++ [(o, b)], ivs := ivs' } = remC s := by
  simp [remC, htodo]

/-- scanning one operation `o` into bin `b` (ordinary or barrier) keeps the invariant -/
theorem binv_consume {s : BState} (hinv : BInv s) {o : COp} {rest : List COp}
    (htodo : s.todo = o :: rest) (b : Nat) (fresh : List Iv)
    (hG : ∀ iv0 ∈ s.ivs, iv0.bin = b → iv0.q ∈ o.op.loc → iv0.e = none)
    (hF1 : ∀ iv ∈ fresh, iv.bin = b ∧ iv.q ∈ o.op.loc ∧ iv.s = o.cyc ∧
      (∀ e, iv.e = some e → o.cyc < e ∧ ∀ x ∈ rest, iv.q ∈ x.op.loc → e ≤ x.cyc) ∧
      (iv.e = none → iv.bar = true → ∀ x ∈ rest, iv.q ∉ x.op.loc))
    (hF2 : ∀ q ∈ o.op.loc, (∃ iv0 ∈ s.ivs, iv0.bin = b ∧ iv0.q = q) ∨ (∃ iv ∈ fresh, iv.q = q)) :
    BInv { s with todo := rest, done := s.done ++ [(o, b)],
                  ivs := closeOthers b o s.ivs ++ fresh } := by
  have hremC := remC_consume s htodo b (List.map (closeOne b o) s.ivs ++ fresh)
  have hgrid := hinv.grid
  unfold remC at hgrid
  rw [htodo, List.pairwise_append] at hgrid
  obtain ⟨_, hpw2, hcross⟩ := hgrid
  rw [List.pairwise_cons] at hpw2
  have hdo : ∀ xb ∈ s.done, gridRel xb.1 o := fun xb hxb =>
    hcross xb.1 (List.mem_map.mpr ⟨xb, hxb, rfl⟩) o (by simp)
  have hor : ∀ x ∈ rest, gridRel o x := hpw2.1
  have ho_todo : o ∈ s.todo := by rw [htodo]; simp
  have hrest_todo : ∀ x ∈ rest, x ∈ s.todo := fun x hx => by rw [htodo]; simp [hx]
  rw [closeOthers_eq]
  refine ⟨by rw [hremC]; exact hinv.grid, by rw [hremC]; exact hinv.tags, ?_, ?_, ?_,
    by rw [hremC]; exact hinv.j4, ?_, by rw [hremC]; exact hinv.j6⟩
  · -- j1
    intro xb hxb q hq
    dsimp only at hxb ⊢
    rcases List.mem_append.mp hxb with hxb | hxb
    · obtain ⟨iv0, hiv0, h1, h2, h3, h4⟩ := hinv.j1 xb hxb q hq
      obtain ⟨f1, f2, f3, _⟩ := closeOne_fields b o iv0
      refine ⟨closeOne b o iv0, List.mem_append.mpr (Or.inl (List.mem_map.mpr ⟨iv0, hiv0, rfl⟩)),
        by rw [f1]; exact h1, by rw [f2]; exact h2, by rw [f3]; exact h3, ?_⟩
      intro e he
      rcases closeOne_e b o iv0 with hsame | ⟨_, hqo, _, hcl⟩
      · rw [hsame] at he; exact h4 e he
      · rw [hcl] at he
        injection he with he
        rw [← he]
        exact gridRel_lt (hdo xb hxb) hq (by rw [← h2]; exact hqo)
    · simp only [List.mem_singleton] at hxb
      subst hxb
      dsimp only at hq ⊢
      rcases hF2 q hq with ⟨iv0, hiv0, hb0, hq0⟩ | ⟨iv, hiv, hqv⟩
      · obtain ⟨f1, f2, f3, _⟩ := closeOne_fields b o iv0
        refine ⟨closeOne b o iv0, List.mem_append.mpr (Or.inl (List.mem_map.mpr ⟨iv0, hiv0, rfl⟩)),
          by rw [f1]; exact hb0, by rw [f2]; exact hq0, by rw [f3]; exact hinv.j5 iv0 hiv0 o ho_todo, ?_⟩
        intro e he
        rcases closeOne_e b o iv0 with hsame | ⟨hne, _, _, _⟩
        · rw [hsame, hG iv0 hiv0 hb0 (by rw [hq0]; exact hq)] at he
          cases he
        · exact absurd hb0 hne
      · obtain ⟨g1, _, g3, g4, _⟩ := hF1 iv hiv
        exact ⟨iv, List.mem_append.mpr (Or.inr hiv), g1, hqv, Nat.le_of_eq g3,
          fun e he => (g4 e he).1⟩
  · -- j2
    intro iv hiv xb hxb hq hs he
    dsimp only at hiv hxb
    rcases List.mem_append.mp hiv with hiv | hiv
    · obtain ⟨iv0, hiv0, rfl⟩ := List.mem_map.mp hiv
      obtain ⟨f1, f2, f3, _⟩ := closeOne_fields b o iv0
      rw [f1]
      rw [f2] at hq
      rw [f3] at hs
      rcases List.mem_append.mp hxb with hxb | hxb
      · apply hinv.j2 iv0 hiv0 xb hxb hq hs
        intro e hee
        rcases closeOne_e b o iv0 with hsame | ⟨_, _, hnone, _⟩
        · exact he e (by rw [hsame]; exact hee)
        · rw [hnone] at hee; cases hee
      · simp only [List.mem_singleton] at hxb
        subst hxb
        dsimp only at hq hs he ⊢
        by_cases hb0 : iv0.bin = b
        · exact hb0.symm
        · exfalso
          cases hee : iv0.e with
          | none =>
            have := he o.cyc (closeOne_closes hb0 hq hee)
            omega
          | some e0 =>
            have h3 := (hinv.j3 iv0 hiv0 o ho_todo hq).1 e0 hee
            rcases closeOne_e b o iv0 with hsame | ⟨_, _, hnone, _⟩
            · have := he e0 (by rw [hsame]; exact hee)
              omega
            · rw [hnone] at hee; cases hee
    · obtain ⟨g1, g2, g3, _, _⟩ := hF1 iv hiv
      rcases List.mem_append.mp hxb with hxb | hxb
      · exfalso
        have := gridRel_lt (hdo xb hxb) hq g2
        rw [g3] at hs
        omega
      · simp only [List.mem_singleton] at hxb
        subst hxb
        exact g1.symm
  · -- j3
    intro iv hiv x hx hq
    dsimp only at hiv hx
    rcases List.mem_append.mp hiv with hiv | hiv
    · obtain ⟨iv0, hiv0, rfl⟩ := List.mem_map.mp hiv
      obtain ⟨_, f2, _, f4⟩ := closeOne_fields b o iv0
      rw [f2] at hq
      rw [f4]
      obtain ⟨h1, h2⟩ := hinv.j3 iv0 hiv0 x (hrest_todo x hx) hq
      rcases closeOne_e b o iv0 with hsame | ⟨_, _, _, hcl⟩
      · rw [hsame]; exact ⟨h1, h2⟩
      · rw [hcl]
        refine ⟨?_, fun h => by cases h⟩
        intro e he
        injection he with he
        rw [← he]
        exact (hor x hx).1
    · obtain ⟨_, _, _, g4, g5⟩ := hF1 iv hiv
      refine ⟨fun e he => (g4 e he).2 x hx hq, fun he => ?_⟩
      cases hbar : iv.bar with
      | false => rfl
      | true => exact absurd hq (g5 he hbar x hx)
  · -- j5
    intro iv hiv x hx
    dsimp only at hiv hx
    rcases List.mem_append.mp hiv with hiv | hiv
    · obtain ⟨iv0, hiv0, rfl⟩ := List.mem_map.mp hiv
      rw [(closeOne_fields b o iv0).2.2.1]
      exact hinv.j5 iv0 hiv0 x (hrest_todo x hx)
    · rw [(hF1 iv hiv).2.2.1]
      exact (hor x hx).1

theorem firstCyc_mem {q : Nat} {l : List COp} {nx : Nat} (h : firstCyc q l = some nx) :
    ∃ x ∈ l, q ∈ x.op.loc ∧ x.cyc = nx := by
  unfold firstCyc at h
  cases hf : l.find? (fun x => x.op.on q) with
  | none => rw [hf] at h; cases h
  | some x =>
    rw [hf] at h
    simp only [Option.map_some, Option.some.injEq] at h
    have hon : x.op.on q = true := List.find?_some (p := fun (y : COp) => y.op.on q) hf
    exact ⟨x, List.mem_of_find?_eq_some hf, (on_iff _ _).mp hon, h⟩

theorem binv_add {bg : List Nat} {s s' : BState} {b : Nat} (hinv : BInv s)
    (h : bAdd bg s b = some s') : BInv s' := by
  unfold bAdd at h
  split at h
  · exact absurd h (by simp)
  rename_i o rest htodo
  split at h
  · exact absurd h (by simp)
  split at h
  · exact absurd h (by simp)
  rename_i _ hguard
  simp only [] at h
  injection h with h
  subst h
  have hall : s.ivs.all (fun iv => !(iv.bin == b && o.op.on iv.q) || iv.e.isNone) = true := by
    revert hguard
    cases s.ivs.all (fun iv => !(iv.bin == b && o.op.on iv.q) || iv.e.isNone) <;> simp
  apply binv_consume hinv htodo b
  · intro iv0 hiv0 hb0 hq0
    have := List.all_eq_true.mp hall iv0 hiv0
    simp only [hb0, beq_self_eq_true, (on_iff _ _).mpr hq0, Bool.and_self, Bool.not_true,
      Bool.false_or, Option.isNone_iff_eq_none] at this
    exact this
  · intro iv hiv
    obtain ⟨q, hq, rfl⟩ := List.mem_map.mp hiv
    refine ⟨rfl, (List.mem_filter.mp hq).1, rfl, ?_, ?_⟩
    · intro e he; cases he
    · intro _ hb; cases hb
  · intro q hq
    by_cases hany : s.ivs.any (fun iv => iv.bin == b && iv.q == q) = true
    · left
      obtain ⟨iv0, hiv0, hp⟩ := List.any_eq_true.mp hany
      simp only [Bool.and_eq_true, beq_iff_eq] at hp
      exact ⟨iv0, hiv0, hp.1, hp.2⟩
    · right
      refine ⟨⟨b, q, o.cyc, none, false⟩, List.mem_map.mpr ⟨q, List.mem_filter.mpr ⟨hq, ?_⟩, rfl⟩, rfl⟩
      simpa using hany

theorem binv_bar {bg : List Nat} {s s' : BState} {b : Nat} (hinv : BInv s)
    (h : bBar bg s b = some s') : BInv s' := by
  unfold bBar at h
  split at h
  · exact absurd h (by simp)
  rename_i o rest htodo
  split at h
  · exact absurd h (by simp)
  split at h
  · exact absurd h (by simp)
  rename_i _ hfreshb
  simp only [] at h
  injection h with h
  subst h
  have hgrid := hinv.grid
  unfold remC at hgrid
  rw [htodo, List.pairwise_append] at hgrid
  obtain ⟨_, hpw2, _⟩ := hgrid
  rw [List.pairwise_cons] at hpw2
  apply binv_consume hinv htodo b
  · intro iv0 hiv0 hb0 _
    exfalso
    apply hfreshb
    exact List.any_eq_true.mpr ⟨iv0, hiv0, by simp [hb0]⟩
  · intro iv hiv
    obtain ⟨q, hq, rfl⟩ := List.mem_map.mp hiv
    refine ⟨rfl, hq, rfl, ?_, ?_⟩
    · intro e he
      dsimp only at he
      obtain ⟨x', hx', hqx', hcyc⟩ := firstCyc_mem he
      refine ⟨?_, fun x hx hqx => firstCyc_le rest hpw2.2 e he x hx hqx⟩
      rw [← hcyc]
      exact gridRel_lt (hpw2.1 x' hx') hq hqx'
    · intro he _ x hx
      exact firstCyc_none he x hx
  · intro q hq
    right
    exact ⟨⟨b, q, o.cyc, firstCyc q rest, true⟩, List.mem_map.mpr ⟨q, hq, rfl⟩, rfl⟩

theorem binv_step {bg : List Nat} {s s' : BState} {m : BMove} (hinv : BInv s)
    (h : bstep bg s m = some s') : BInv s' := by
  cases m with
  | add b => exact binv_add hinv h
  | bar b => exact binv_bar hinv h
  | finish => exact binv_finish hinv h
  | emit b => exact binv_emit hinv h

theorem binv_run {bg : List Nat} : ∀ (ms : List BMove) (s s' : BState) (i : Nat), BInv s →
    brun bg s ms i = .ok s' → BInv s'
  | [], s, s', _, hinv, h => by
    unfold brun at h
    injection h with h
    subst h
    exact hinv
  | m :: ms, s, s', i, hinv, h => by
    unfold brun at h
    split at h
    · rename_i s1 hs1
      exact binv_run ms s1 s' (i + 1) (binv_step hinv hs1) h
    · exact absurd h (by simp)

/-! ### what a move does to the unplaced operations -/
theorem remT_consume (s : BState) {o : COp} {rest : List COp} (htodo : s.todo = o :: rest)
    (b : Nat) (ivs' : List Iv) :
    BState.remT { s with todo := rest, done := s.done ++ [(o, b)], ivs := ivs' } = s.remT := by
  rw [remT_eq, remT_eq, remC_consume s htodo b ivs']

theorem remT_add {bg : List Nat} {s s' : BState} {b : Nat} (h : bAdd bg s b = some s') :
    s'.remT = s.remT := by
  unfold bAdd at h
  split at h
  · exact absurd h (by simp)
  rename_i o rest htodo
  split at h
  · exact absurd h (by simp)
  split at h
  · exact absurd h (by simp)
  simp only [] at h
  injection h with h
  subst h
  exact remT_consume s htodo b _

theorem remT_bar {bg : List Nat} {s s' : BState} {b : Nat} (h : bBar bg s b = some s') :
    s'.remT = s.remT := by
  unfold bBar at h
  split at h
  · exact absurd h (by simp)
  rename_i o rest htodo
  split at h
  · exact absurd h (by simp)
  split at h
  · exact absurd h (by simp)
  simp only [] at h
  injection h with h
  subst h
  exact remT_consume s htodo b _

theorem remT_finish {s s' : BState} (h : bFinish s = some s') : s'.remT = s.remT := by
  unfold bFinish at h
  split at h
  · injection h with h; subst h; rfl
  · exact absurd h (by simp)

/-- placing bin `bn` removes exactly the operations whose tag is in the bin -/
theorem remT_emit {s s' : BState} {bn : Nat} (hinv : BInv s) (h : bEmit s bn = some s') :
    s'.remT = s.remT.filter (fun x => !(s.binTags bn).contains x.tag) := by
  unfold bEmit at h
  split at h
  swap
  · exact absurd h (by simp)
  injection h with h
  subst h
  have htags := hinv.tags
  unfold remC at htags
  rw [List.map_append, List.nodup_append] at htags
  obtain ⟨hnd1, _, hdisj⟩ := htags
  unfold BState.remT
  dsimp only
  rw [List.filter_map, List.filter_append, List.filter_map]
  congr 1
  congr 1
  · -- binned operations: the tag is in the bin iff the bin id is `bn`
    congr 1
    apply List.filter_congr
    intro xb hxb
    simp only [Function.comp]
    by_cases hb : xb.2 = bn
    · have : xb.1.tag ∈ s.binTags bn := mem_binTags.mpr ⟨xb, hxb, hb, rfl⟩
      simp [hb, this]
    · have hnot : xb.1.tag ∉ s.binTags bn := by
        intro hmem
        obtain ⟨yb, hyb, hybn, hytag⟩ := mem_binTags.mp hmem
        have hnd : (s.done.map (fun p => p.1.tag)).Nodup := by
          rw [List.map_map] at hnd1
          exact hnd1
        have := List.inj_on_of_nodup_map hnd hyb hxb hytag
        exact hb (by rw [← this]; exact hybn)
      simp [hb, hnot]
  · -- unscanned operations are in no bin
    symm
    rw [List.filter_eq_self]
    intro x hx
    simp only [Function.comp]
    have hnot : x.tag ∉ s.binTags bn := by
      intro hmem
      obtain ⟨yb, hyb, _, hytag⟩ := mem_binTags.mp hmem
      exact hdisj yb.1.tag (List.mem_map.mpr ⟨yb.1, List.mem_map.mpr ⟨yb, hyb, rfl⟩, rfl⟩)
        x.tag (List.mem_map.mpr ⟨x, hx, rfl⟩) hytag
    simp [hnot]

/-! ### progress -/

/-- soundness of the per-run progress check: a successful drain is a sequence of legal
`emit` moves (the code's own guard each time) that places every bin -/
theorem bDrain_sound (bg : List Nat) : ∀ (fuel : Nat) (s s' : BState) (i : Nat),
    bDrain fuel s = some s' →
    ∃ ms : List BMove, (∀ m ∈ ms, ∃ b, m = BMove.emit b) ∧ brun bg s ms i = .ok s' ∧ s'.done = []
  | 0, s, s', i, h => by
    unfold bDrain at h
    split at h
    · rename_i he
      injection h with h
      subst h
      exact ⟨[], by simp, rfl, List.isEmpty_iff.mp he⟩
    · exact absurd h (by simp)
  | fuel + 1, s, s', i, h => by
    unfold bDrain at h
    split at h
    · rename_i he
      injection h with h
      subst h
      exact ⟨[], by simp, rfl, List.isEmpty_iff.mp he⟩
    · split at h
      · rename_i bn _
        split at h
        · rename_i s1 hs1
          obtain ⟨ms, hms, hrun, hdone⟩ := bDrain_sound bg fuel s1 s' (i + 1) h
          refine ⟨BMove.emit bn :: ms, ?_, ?_, hdone⟩
          · intro m hm
            rcases List.mem_cons.mp hm with rfl | hm
            · exact ⟨bn, rfl⟩
            · exact hms m hm
          · unfold brun
            simp only [bstep, hs1]
            exact hrun
        · exact absurd h (by simp)
      · exact absurd h (by simp)

/-- no tagged element: trivially closed -/
theorem closedIn_of_none (tags : List Nat) : ∀ (l : List TOp),
    (∀ y ∈ l, tags.contains y.tag = false) → closedIn tags l = true
  | [], _ => rfl
  | x :: t, h => by
    unfold closedIn
    rw [Bool.and_eq_true]
    refine ⟨?_, closedIn_of_none tags t (fun y hy => h y (by simp [hy]))⟩
    rw [h x (by simp), Bool.false_or, List.all_eq_true]
    intro y hy
    rw [h y (by simp [hy])]
    rfl

theorem dedupNat_length_le : ∀ (l : List Nat), (dedupNat l).length ≤ l.length
  | [] => Nat.le_refl _
  | x :: xs => by
    unfold dedupNat
    split
    · exact Nat.le_succ_of_le (dedupNat_length_le xs)
    · simp only [List.length_cons]
      exact Nat.succ_le_succ (dedupNat_length_le xs)

/-- **QuickSpec itself is never stuck**: whenever operations are left, placing the first of
them alone is a legal move.  (A deadlock of the real pass is therefore a matter of which
bins it formed, never of the emission rule.) -/
theorem qmachine_progress (bg : List Nat) (k : Nat) (s : QState) (x : TOp) (t : List TOp)
    (hrem : s.rem = x :: t) (hnd : (s.rem.map (·.tag)).Nodup) :
    ∃ s', qEmit bg k s [x.tag] (!barrierLike bg x.op) = some s' ∧ s'.rem = t := by
  rw [hrem, List.map_cons, List.nodup_cons] at hnd
  have hne : ∀ y ∈ t, ([x.tag] : List Nat).contains y.tag = false := by
    intro y hy
    have : y.tag ≠ x.tag := fun h => hnd.1 (h ▸ List.mem_map.mpr ⟨y, hy, rfl⟩)
    simpa using this
  have hg : s.rem.filter (fun y => ([x.tag] : List Nat).contains y.tag) = [x] := by
    rw [hrem, List.filter_cons]
    simp only [List.contains_cons, beq_self_eq_true, Bool.true_or, if_true, List.cons.injEq,
      true_and]
    rw [List.filter_eq_nil_iff]
    intro y hy
    have := hne y hy
    simp only [List.contains_cons] at this
    simpa using this
  have hrest : s.rem.filter (fun y => !([x.tag] : List Nat).contains y.tag) = t := by
    rw [hrem, List.filter_cons]
    have hx : (!([x.tag] : List Nat).contains x.tag) = false := by simp
    rw [hx]
    simp only [Bool.false_eq_true, if_false]
    rw [List.filter_eq_self]
    intro y hy
    rw [hne y hy]
    rfl
  have hclosed : closedIn [x.tag] s.rem = true := by
    rw [hrem]
    unfold closedIn
    rw [Bool.and_eq_true]
    exact ⟨by simp, closedIn_of_none _ t hne⟩
  have hkind : kindOk bg k (!barrierLike bg x.op) [x] = true := by
    unfold kindOk
    cases hb : barrierLike bg x.op with
    | true => simp [hb]
    | false =>
      simp only [Bool.not_false, if_true, List.all_cons, hb, List.all_nil, Bool.and_true,
        Bool.true_and]
      unfold groupWidthOk widest
      simp only [List.flatMap_cons, List.flatMap_nil, List.append_nil, List.map_cons, List.map_nil,
        List.foldl_cons, List.foldl_nil, decide_eq_true_eq]
      have := dedupNat_length_le x.op.loc
      omega
  refine ⟨⟨t, s.out ++ [⟨[x], !barrierLike bg x.op⟩]⟩, ?_, rfl⟩
  unfold qEmit
  simp only [hg, hrest, hclosed, hkind, List.isEmpty_cons, Bool.not_false, Bool.and_self, if_true]

end BqVerif.Partition
