import BqVerif.Proofs.BoxCount
/-!
# No result is deposited into a complete mailbox (flat network)

`NInv2`: on top of `NInv`, (slot) a token of address `(w, m, s)` whose mailbox `m` exists on worker
`w` has `s < expected_num_results`, and (cnt) for every mailbox, results deposited + outstanding
tokens of its slots ≤ `expected_num_results`.  Hence a RESULT in flight, or a task about to
return locally, finds its mailbox incomplete - the second environment assumption of the wake
discipline.
-/
namespace BqVerif.Runtime

/-- outstanding tokens of the first `k` slots of mailbox `m` of worker `id` -/
def sumTok (id : Int) (m k : Nat) (n : Net) : Nat := sumBy (fun s => Tok ⟨id, m, s⟩ n) (List.range k)

structure NInv2 (n : Net) : Prop where
  base : NInv n
  slot : ∀ a, 0 < Tok a n → ∀ w ∈ n.workers, w.id = a.w → ∀ b, boxGet w.boxes a.m = some b → a.s < b.expected
  cnt : ∀ w ∈ n.workers, ∀ m b, boxGet w.boxes m = some b → b.num + sumTok w.id m b.expected n ≤ b.expected

theorem sumBy_le_len {α} (f : α → Nat) (l : List α) (h : ∀ x ∈ l, f x ≤ 1) : sumBy f l ≤ l.length := by
  induction l with
  | nil => simp [sumBy]
  | cons x xs ih =>
    simp only [sumBy, List.length_cons]
    have := h x List.mem_cons_self
    have := ih (fun y hy => h y (List.mem_cons_of_mem _ hy))
    omega

theorem sumBy_succ_le {α} (f g : α → Nat) (l : List α) (h : ∀ x ∈ l, f x ≤ g x) (x0 : α) (hx : x0 ∈ l)
    (h0 : f x0 + 1 ≤ g x0) : sumBy f l + 1 ≤ sumBy g l := by
  induction l with
  | nil => cases hx
  | cons y ys ih =>
    simp only [sumBy]
    have hy := h y List.mem_cons_self
    have hrest := sumBy_le f g ys (fun z hz => h z (List.mem_cons_of_mem _ hz))
    rcases List.mem_cons.1 hx with e | e
    · subst e; omega
    · have := ih (fun z hz => h z (List.mem_cons_of_mem _ hz)) e
      omega

theorem worker_eq_of_id (ws : List Worker) (hn : (ws.map (·.id)).Nodup) (x y : Worker) (hx : x ∈ ws)
    (hy : y ∈ ws) (e : x.id = y.id) : x = y := by
  induction ws with
  | nil => cases hx
  | cons z zs ih =>
    simp only [List.map_cons, List.nodup_cons, List.mem_map, not_exists, not_and] at hn
    rcases List.mem_cons.1 hx with rfl | hx'
    · rcases List.mem_cons.1 hy with rfl | hy'
      · rfl
      · exact absurd e.symm (hn.1 y hy')
    · rcases List.mem_cons.1 hy with rfl | hy'
      · exact absurd e (hn.1 x hx')
      · exact ih hn.2 hx' hy'

/-- a mailbox that exists was created: its slot addresses are not fresh -/
theorem freshA_zero_of_box {n : Net} (g : GInv n) (w : Worker) (hw : w ∈ n.workers) (m s : Nat)
    (hm : m < w.counter) : freshA ⟨w.id, m, s⟩ n = 0 := by
  apply freshA_zero
  · intro hs
    have := g.pos w hw
    simp only at hs
    omega
  · intro w2 hw2 e
    simp only at e
    have : w2 = w := worker_eq_of_id n.workers g.ids w2 w hw2 hw e.symm
    rw [this]; exact hm

theorem sumTok_apply_le {n : Net} (g : GInv n) (t : Tr) (hwf : t.wf) (w : Worker) (hw : w ∈ n.workers)
    (m k : Nat) (hm : m < w.counter) : sumTok w.id m k (n.apply t).net ≤ sumTok w.id m k n :=
  sumBy_le _ _ _ (fun s _ => Tok_apply_le_of_created g t hwf _ (freshA_zero_of_box g w hw m s hm))

theorem ready_false_of_lt (b : Box) (h : b.num < b.expected) : b.ready = false := by
  simp only [Box.ready, Bool.and_eq_false_iff, decide_eq_false_iff_not, Nat.not_le]
  exact Or.inl h

/-- a mailbox that still has an outstanding token is incomplete -/
theorem NInv2.not_ready {n : Net} (h : NInv2 n) (w : Worker) (hw : w ∈ n.workers) (a : Addr) (ha : a.w = w.id)
    (ht : 0 < Tok a n) (b : Box) (hb : boxGet w.boxes a.m = some b) : b.num < b.expected := by
  have hs := h.slot a ht w hw ha.symm b hb
  have hc := h.cnt w hw a.m b hb
  have hmem : a.s ∈ List.range b.expected := List.mem_range.2 hs
  have hle := le_sumBy_of_mem (fun s => Tok ⟨w.id, a.m, s⟩ n) (List.range b.expected) a.s hmem
  have e : (⟨w.id, a.m, a.s⟩ : Addr) = a := by
    cases a; simp only at ha; subst ha; rfl
  simp only [e] at hle
  simp only [sumTok] at hc
  omega

theorem NInv2.tok_of_tokW {n : Net} (w : Worker) (hw : w ∈ n.workers) (a : Addr) (ht : 0 < tokW a w) :
    0 < Tok a n := by
  have := le_sumBy_of_mem (tokW a) n.workers w hw
  simp only [Tok]; omega

/-- **the second environment assumption holds** in every state satisfying `NInv2` -/
theorem NInv2.depositOK {n : Net} (h : NInv2 n) (t : Tr) : n.depositOK t := by
  cases t with
  | client _ _ _ => trivial
  | deliver src dst asg ord died =>
    cases dst with
    | wrk id =>
      intro w hf a v b rest hk haw bx hbx
      obtain ⟨hw, _⟩ := find_worker_mem _ _ _ hf
      have h1 := Tok_head_worker a n (src, .wrk id) _ rest hk w hw
      simp only [tokMsg, if_true] at h1
      exact ready_false_of_lt bx (h.not_ready w hw a haw (by omega) bx hbx)
    | _ => trivial
  | step id =>
    intro w hf
    obtain ⟨hw, _⟩ := find_worker_mem _ _ _ hf
    intro t0 ht w1 t1 val hd hl rb v hv hloc b hb
    have hpb := pick_boxes w.pickFuel { w with blocked := false }
    have hpm := pick_mono w.pickFuel { w with blocked := false }
    have hprs := pick_rs w.pickFuel { w with blocked := false }
    have hmem := pick_task_mem _ _ _ ht
    have hposp : 0 < cntA t0.addr (Worker.pick w.pickFuel { w with blocked := false }).w.tasks :=
      cntA_pos_of_mem _ _ (taskGet_mem _ _ _ hmem)
    have hposw : 0 < tokW t0.addr w := by
      have := hprs.tok t0.addr
      simp only [tokW] at this ⊢
      omega
    have hTok := NInv2.tok_of_tokW w hw t0.addr hposw
    have hfw : Fresh w := (h.base.winv w hw).fresh
    have hfp : Fresh (Worker.pick w.pickFuel { w with blocked := false }).w := by
      intro k hk
      have : k ∈ keys w.boxes := by
        rw [← show ({ w with blocked := false } : Worker).boxes = w.boxes from rfl, ← hpb]; exact hk
      exact Nat.lt_of_lt_of_le (hfw k this) hpm.ctr
    have K1 := desiredResult_keep _ w1 t0 t1 val hd
    have M1 := desiredResult_mono _ w1 t0 t1 val hd
    obtain ⟨_, ea, eid⟩ := desiredResult_fixed _ w1 t0 t1 val hd
    have K2 : BoxKeep (Worker.pick w.pickFuel { w with blocked := false }).w rb.1.w :=
      runBody_keep n.tbl ((n.tbl.getD t1.prog []).length + 2)
        { w := w1, t := (resume n.tbl t1 val).1, out := (Worker.pick w.pickFuel { w with blocked := false }).out,
          evs := (resume n.tbl t1 val).2 } _ K1 M1.ctr (M1.fresh hfp)
    have hfix := runBody_fixed n.tbl ((n.tbl.getD t1.prog []).length + 2)
        { w := w1, t := (resume n.tbl t1 val).1, out := (Worker.pick w.pickFuel { w with blocked := false }).out,
          evs := (resume n.tbl t1 val).2 }
    have haddr : rb.1.t.addr = t0.addr := by
      have : rb.1.t.addr = (resume n.tbl t1 val).1.addr := hfix.2.2.2.1
      rw [this]; exact (resume_fields n.tbl t1 val).1.trans ea
    have hid : rb.1.w.id = w.id := by
      have : rb.1.w.id = w1.id := hfix.2.2.2.2
      rw [this, eid]; exact hpm.id
    rw [haddr] at hloc hb
    have haw : t0.addr.w = w.id := by rw [hloc, hid]
    have hm : t0.addr.m < w.counter := h.base.g.freshW w hw t0.addr haw hTok
    rcases K2 t0.addr.m b hb with ⟨b0, hb0, e1, e2⟩ | ⟨e1, _⟩
    · rw [hpb] at hb0
      have := h.not_ready w hw t0.addr haw hTok b0 hb0
      exact ready_false_of_lt b (by rw [e1, e2]; exact this)
    · exfalso
      have := hpm.ctr
      have e1' : (Worker.pick w.pickFuel { w with blocked := false }).w.counter ≤ t0.addr.m := e1
      have hc0 : ({ w with blocked := false } : Worker).counter = w.counter := rfl
      omega

/-- relation between a worker before and after a transition that is enough for `slot` and `cnt` -/
def WRel (n' : Net) (w w' : Worker) : Prop :=
  w'.id = w.id ∧ ∀ k b', boxGet w'.boxes k = some b' →
    (∃ b, boxGet w.boxes k = some b ∧ b'.expected = b.expected
      ∧ b'.num + sumTok w.id k b'.expected n' ≤ b'.expected)
    ∨ (w.counter ≤ k ∧ b'.num = 0 ∧ ∀ a, a.w = w.id → a.m = k → 0 < Tok a n' → a.s < b'.expected)

theorem addr_eta (a : Addr) (id : Int) (h : a.w = id) : (⟨id, a.m, a.s⟩ : Addr) = a := by
  cases a; simp only at h; subst h; rfl

theorem NInv2.mk2 {n : Net} (h : NInv2 n) (t : Tr) (hwf : t.wf) (hb : NInv (n.apply t).net)
    (hrel : ∀ w' ∈ (n.apply t).net.workers, ∃ w ∈ n.workers, WRel (n.apply t).net w w') :
    NInv2 (n.apply t).net := by
  refine ⟨hb, ?_, ?_⟩
  · intro a ht w' hw' hid b' hb'
    obtain ⟨w, hw, hrid, hr⟩ := hrel w' hw'
    rcases hr a.m b' hb' with ⟨b, hbw, e, _⟩ | ⟨_, _, h3⟩
    · rw [e]
      by_cases hpos : 0 < Tok a n
      · exact h.slot a hpos w hw (by rw [← hrid, hid]) b hbw
      · exfalso
        have hm : a.m < w.counter :=
          (h.base.winv w hw).fresh a.m ((boxGet_isSome_iff _ _).mp (by rw [hbw]; rfl))
        have hf := freshA_zero_of_box h.base.g w hw a.m a.s hm
        rw [addr_eta a w.id (by rw [← hrid, hid])] at hf
        have := Tok_apply_le_of_created h.base.g t hwf a hf
        omega
    · exact h3 a (by rw [← hrid, hid]) rfl ht
  · intro w' hw' m b' hb'
    obtain ⟨w, hw, hrid, hr⟩ := hrel w' hw'
    rw [hrid]
    rcases hr m b' hb' with ⟨b, _, _, h3⟩ | ⟨_, h2, _⟩
    · exact h3
    · rw [h2]
      have := sumBy_le_len (fun s => Tok ⟨w.id, m, s⟩ (n.apply t).net) (List.range b'.expected)
        (fun s _ => hb.g.uniq _)
      simp only [List.length_range] at this
      simp only [sumTok]
      omega

theorem WRel.same {n : Net} (h : NInv2 n) (t : Tr) (hwf : t.wf) (w : Worker) (hw : w ∈ n.workers) :
    WRel (n.apply t).net w w := by
  refine ⟨rfl, ?_⟩
  intro k b hb
  left
  refine ⟨b, hb, rfl, ?_⟩
  have hm : k < w.counter :=
    (h.base.winv w hw).fresh k ((boxGet_isSome_iff _ _).mp (by rw [hb]; rfl))
  have := sumTok_apply_le h.base.g t hwf w hw k b.expected hm
  have := h.cnt w hw k b hb
  omega

theorem exists_pos_of_sumBy_pos {α} (f : α → Nat) (l : List α) (h : 0 < sumBy f l) : ∃ x ∈ l, 0 < f x := by
  induction l with
  | nil => simp [sumBy] at h
  | cons y ys ih =>
    simp only [sumBy] at h
    by_cases hy : 0 < f y
    · exact ⟨y, List.mem_cons_self, hy⟩
    · obtain ⟨x, hx, hfx⟩ := ih (by omega)
      exact ⟨x, List.mem_cons_of_mem _ hx, hfx⟩

theorem exists_of_cntA_pos (a : Addr) (l : List Task) (h : 0 < cntA a l) : ∃ t ∈ l, t.addr = a := by
  obtain ⟨t, ht, hp⟩ := exists_pos_of_sumBy_pos _ l h
  refine ⟨t, ht, ?_⟩
  by_cases e : t.addr = a
  · exact e
  · simp [e] at hp

/-- the worker that received a message -/
theorem WRel_recv {n : Net} (h : NInv2 n) (w : Worker) (hw : w ∈ n.workers) (key : NodeId × NodeId)
    (msg : Msg) (rest : List Msg) (hk : chanGet n.chans key = msg :: rest) (n' : Net)
    (hle : ∀ a, freshA a n = 0 → Tok a n' ≤ Tok a n)
    (heq : ∀ a, Tok a n' + tokW a w + tokMsg a msg = Tok a n + tokW a (w.recv msg)) :
    WRel n' w (w.recv msg) := by
  refine ⟨(recv_mono w msg).id, ?_⟩
  intro k b' hb'
  left
  obtain ⟨b0, hb0, e, hnum⟩ := recv_boxes w msg k b' hb'
  have hm : k < w.counter :=
    (h.base.winv w hw).fresh k ((boxGet_isSome_iff _ _).mp (by rw [hb0]; rfl))
  have hpt : ∀ s, Tok ⟨w.id, k, s⟩ n' ≤ Tok ⟨w.id, k, s⟩ n :=
    fun s => hle _ (freshA_zero_of_box h.base.g w hw k s hm)
  have hc := h.cnt w hw k b0 hb0
  refine ⟨b0, hb0, e, ?_⟩
  rw [e]
  rcases hnum with hnum | ⟨a, v, by_, rfl, rfl, haw, hnum⟩
  · have := sumBy_le (fun s => Tok ⟨w.id, k, s⟩ n') (fun s => Tok ⟨w.id, k, s⟩ n) (List.range b0.expected)
      (fun s _ => hpt s)
    simp only [sumTok] at hc ⊢
    omega
  · have h1 := Tok_head_worker a n key _ rest hk w hw
    simp only [tokMsg, if_true] at h1
    have hs := h.slot a (by omega) w hw haw.symm b0 hb0
    have htw : tokW a (w.recv (.result a v by_)) = tokW a w := by
      obtain ⟨t1, t2⟩ := handleResult_tables w a v
      simp only [Worker.recv, tokW, t1, t2]
    have hq := heq a
    simp only [tokMsg, if_true] at hq
    rw [htw] at hq
    have := sumBy_succ_le (fun s => Tok ⟨w.id, a.m, s⟩ n') (fun s => Tok ⟨w.id, a.m, s⟩ n)
      (List.range b0.expected) (fun s _ => hpt s) a.s (List.mem_range.2 hs)
      (by simp only [addr_eta a w.id haw]; omega)
    simp only [sumTok] at hc ⊢
    omega

theorem resultPicked_outP (w : Worker) (a0 : Option Addr)
    (hp : ∀ x, a0 = some x → 0 < tokW x w) :
    OutP (fun msg => ∀ x v b, msg = Msg.result x v b → 0 < tokW x w) w.id w.counter a0 where
  sub := by intro t _ _ _ a v b e; cases e
  batch := by intro ts _ a v b e; cases e
  cancel := by intro x a v b e; cases e
  waiting := by intro n r a v b e; cases e
  error := by intro c cls a v b e; cases e
  sysError := by intro cls a v b e; cases e
  update := by intro d a v b e; cases e
  result := by intro x y z hx a v b e; cases e; exact hp _ hx

/-- a RESULT a loop iteration sends is for a task the worker held -/
theorem step_result_held (tbl : Table) (w : Worker) (x : Addr) (v : Val) (b : Int)
    (h : Msg.result x v b ∈ (w.step tbl).out) : 0 < tokW x w := by
  have := step_outP (P := fun msg => ∀ x v b, msg = Msg.result x v b → 0 < tokW x w) tbl w (by
    intro a0 ha0
    apply resultPicked_outP
    intro y hy
    rw [hy] at ha0
    cases ht : (Worker.pick w.pickFuel { w with blocked := false }).task with
    | none => rw [ht] at ha0; cases ha0
    | some t0 =>
      rw [ht] at ha0
      simp only [Option.map_some, Option.some.injEq] at ha0
      have hmem := pick_task_mem _ _ _ ht
      have hpos := cntA_pos_of_mem _ _ (taskGet_mem _ _ _ hmem)
      have htok := (pick_rs w.pickFuel { w with blocked := false }).tok t0.addr
      rw [← ha0]
      simp only [tokW] at htok ⊢
      omega)
  exact this _ h x v b rfl

/-- the worker that made a loop iteration -/
theorem WRel_step {n : Net} (h : NInv2 n) (w : Worker) (hw : w ∈ n.workers) (w'' : Worker)
    (hid : w''.id = w.id) (hbx : w''.boxes = (w.step n.tbl).w.boxes)
    (htw : ∀ a, tokW a w'' = tokW a (w.step n.tbl).w) (n' : Net)
    (hle : ∀ a, freshA a n = 0 → Tok a n' ≤ Tok a n)
    (hineq : ∀ a, Tok a n' + tokW a w ≤ Tok a n + tokW a w'' + tokMsgs a (w.step n.tbl).out) :
    WRel n' w w'' := by
  refine ⟨hid, ?_⟩
  have hfw : Fresh w := (h.base.winv w hw).fresh
  have hu := h.base.g.worker_nodup w hw
  have hcr : ∀ a, 0 < tokW a w → ¬ (w.id = a.w ∧ w.counter ≤ a.m) := by
    intro a ha hc
    have := h.base.g.freshW w hw a hc.1.symm (NInv2.tok_of_tokW w hw a ha)
    omega
  have hbs := step_boxstep n.tbl w hfw (fun b => by have := hu b; omega) hcr
  have hrs := step_rs n.tbl w
  intro k b' hb'
  rw [hbx] at hb'
  rcases hbs k b' hb' with ⟨b0, hb0, e1, e2⟩ | ⟨e1, e2⟩ | ⟨b0, a0, hb0, e1, e2, e3, e4, e5, e6⟩
  · -- kept
    left
    have hm : k < w.counter := hfw k ((boxGet_isSome_iff _ _).mp (by rw [hb0]; rfl))
    have := sumBy_le (fun s => Tok ⟨w.id, k, s⟩ n') (fun s => Tok ⟨w.id, k, s⟩ n) (List.range b0.expected)
      (fun s _ => hle _ (freshA_zero_of_box h.base.g w hw k s hm))
    have hc := h.cnt w hw k b0 hb0
    refine ⟨b0, hb0, e2, ?_⟩
    rw [e2, e1]
    simp only [sumTok] at hc ⊢
    omega
  · -- new
    right
    refine ⟨e1, e2, ?_⟩
    intro a haw ham hpos
    have hT0 : Tok a n = 0 := by
      cases hT : Tok a n with
      | zero => rfl
      | succ j =>
        have := h.base.g.freshW w hw a haw (by omega)
        omega
    have hW0 : tokW a w = 0 := by
      have := le_sumBy_of_mem (tokW a) n.workers w hw
      simp only [Tok] at hT0
      omega
    have hW1 : tokW a w'' = 0 := by
      rw [htw]; have := hrs.tok a; omega
    have hq := hineq a
    have hmsgs : 0 < tokMsgs a (w.step n.tbl).out := by omega
    obtain ⟨msg, hmsg, hp⟩ := exists_pos_of_sumBy_pos _ _ hmsgs
    have hslots := step_slots n.tbl w hfw msg hmsg
    cases msg with
    | submit t =>
      simp only [tokMsg] at hp
      have e : t.addr = a := by
        by_cases e : t.addr = a
        · exact e
        · simp [e] at hp
      have := hslots t (by simp [Msg.tasks]) b' (by rw [e, ham]; exact hb')
      rw [e] at this; exact this
    | batch ts =>
      simp only [tokMsg] at hp
      obtain ⟨t, ht, e⟩ := exists_of_cntA_pos a ts hp
      have := hslots t ht b' (by rw [e, ham]; exact hb')
      rw [e] at this; exact this
    | result x v b =>
      simp only [tokMsg] at hp
      have e : x = a := by
        by_cases e : x = a
        · exact e
        · simp [e] at hp
      have := step_result_held n.tbl w x v b hmsg
      rw [e] at this
      omega
    | _ => simp [tokMsg] at hp
  · -- local return
    left
    have hm : k < w.counter := hfw k ((boxGet_isSome_iff _ _).mp (by rw [hb0]; rfl))
    have hpt : ∀ s, Tok ⟨w.id, k, s⟩ n' ≤ Tok ⟨w.id, k, s⟩ n :=
      fun s => hle _ (freshA_zero_of_box h.base.g w hw k s hm)
    have hc := h.cnt w hw k b0 hb0
    have hT := NInv2.tok_of_tokW w hw a0 e5
    have hs := h.slot a0 hT w hw e4.symm b0 (by rw [← e3]; exact hb0)
    have hq := hineq a0
    have hun := h.base.g.uniq a0
    have e6' : tokW a0 w'' + tokMsgs a0 (w.step n.tbl).out = 0 := by rw [htw]; exact e6
    have := sumBy_succ_le (fun s => Tok ⟨w.id, k, s⟩ n') (fun s => Tok ⟨w.id, k, s⟩ n)
      (List.range b0.expected) (fun s _ => hpt s) a0.s (List.mem_range.2 hs)
      (by rw [e3]; simp only [addr_eta a0 w.id e4]; omega)
    refine ⟨b0, hb0, e2, ?_⟩
    rw [e2, e1]
    simp only [sumTok] at hc ⊢
    omega

theorem NInv2.rel_client {n : Net} (h : NInv2 n) (j : Nat) (m : Option Msg) (dies : Bool)
    (hwf : (Tr.client j m dies).wf) :
    ∀ w' ∈ (n.apply (.client j m dies)).net.workers,
      ∃ w ∈ n.workers, WRel (n.apply (.client j m dies)).net w w' := by
  intro w' hw'
  have hmem : w' ∈ n.workers := by
    simp only [Net.apply, Net.clientSend] at hw'
    cases m with
    | none =>
      dsimp only at hw'
      split at hw' <;> exact hw'
    | some msg =>
      dsimp only at hw'
      split at hw'
      · have e : ({ (n.post (.client j) .server msg) with deadClients := (n.post (.client j) .server msg).deadClients ++ [j] } : Net).workers
            = (n.post (.client j) .server msg).workers := rfl
        rw [e, (post_fields _ _ _ _).1] at hw'; exact hw'
      · rw [(post_fields _ _ _ _).1] at hw'; exact hw'
  exact ⟨w', hmem, WRel.same h _ hwf w' hmem⟩

theorem NInv2.rel_step {n : Net} (h : NInv2 n) (id : Int) :
    ∀ w' ∈ (n.apply (.step id)).net.workers, ∃ w ∈ n.workers, WRel (n.apply (.step id)).net w w' := by
  intro w' hw'
  have hle := fun a hf => Tok_apply_le_of_created h.base.g (.step id) trivial a hf
  have hsame := fun w hw => WRel.same h (.step id) trivial w hw
  simp only [Net.apply] at hw' hle hsame ⊢
  unfold Net.workerStep at hw' hle hsame ⊢
  split at hw'
  · exact ⟨w', hw', by rename_i hf; simp only [hf] at hsame; exact hsame w' hw'⟩
  · rename_i w hf
    obtain ⟨hw, hwid⟩ := find_worker_mem _ _ _ hf
    simp only [hf] at hle hsame ⊢
    split at hw'
    · rename_i hen
      simp only [hen, if_true] at hsame ⊢
      exact ⟨w', hw', hsame w' hw'⟩
    · rename_i hen
      simp only [hen, Bool.false_eq_true, if_false] at hle hsame ⊢
      dsimp only at hw'
      rw [(postAll_fields _ _ _).1] at hw'
      rcases mem_setWorker _ _ _ hw' with rfl | ⟨hm, _⟩
      · refine ⟨w, hw, ?_⟩
        have hmono := step_mono n.tbl w
        have hid' : (if (w.step n.tbl).w.mainDead then { (w.step n.tbl).w with alive := false }
            else (w.step n.tbl).w).id = w.id := by split <;> simp [hmono.id]
        have hbx : (if (w.step n.tbl).w.mainDead then { (w.step n.tbl).w with alive := false }
            else (w.step n.tbl).w).boxes = (w.step n.tbl).w.boxes := by split <;> rfl
        have htw : ∀ a, tokW a (if (w.step n.tbl).w.mainDead then { (w.step n.tbl).w with alive := false }
            else (w.step n.tbl).w) = tokW a (w.step n.tbl).w := by intro a; split <;> rfl
        exact WRel_step h w hw _ hid' hbx htw _ hle (fun a =>
          Tok_workerStep_le a n w _ (w.step n.tbl).out
            (match n.mgrs.find? (fun g => g.boss.emps.any (fun e => e.id == id)) with
              | some g => NodeId.mgr g.idx
              | none => NodeId.server) (.wrk id) h.base.g.ids hw hid')
      · exact ⟨w', hm, hsame w' hm⟩

theorem NInv2.rel_deliver {n : Net} (h : NInv2 n) (src dst : NodeId) (asg ord : List Nat) (died : Bool) :
    ∀ w' ∈ (n.apply (.deliver src dst asg ord died)).net.workers,
      ∃ w ∈ n.workers, WRel (n.apply (.deliver src dst asg ord died)).net w w' := by
  intro w' hw'
  have hle := fun a hf => Tok_apply_le_of_created h.base.g (.deliver src dst asg ord died) trivial a hf
  have hsame := fun w hw => WRel.same h (.deliver src dst asg ord died) trivial w hw
  have old : w' ∈ n.workers → ∃ w ∈ n.workers, WRel (n.apply (.deliver src dst asg ord died)).net w w' :=
    fun hm => ⟨w', hm, hsame w' hm⟩
  cases hk : chanGet n.chans (src, dst) with
  | nil =>
    apply old
    simp only [Net.apply, Net.deliver, hk] at hw'; exact hw'
  | cons m rest =>
    cases dst with
    | wrk id =>
      simp only [Net.apply, Net.deliver, hk] at hw' hle ⊢
      split at hw'
      · rename_i hf
        simp only [hf] at hsame ⊢
        simp only [Net.apply, Net.deliver, hk, hf] at hsame
        exact ⟨w', hw', hsame w' hw'⟩
      · rename_i w hf
        obtain ⟨hw, hwid⟩ := find_worker_mem _ _ _ hf
        simp only [hf] at hle ⊢
        simp only [Net.apply, Net.deliver, hk, hf] at hsame
        split at hw'
        · rename_i hal
          simp only [hal, if_true] at hsame ⊢
          exact ⟨w', hw', hsame w' hw'⟩
        · rename_i hal
          simp only [hal, Bool.false_eq_true, if_false] at hle hsame ⊢
          rcases mem_setWorker _ _ _ hw' with rfl | ⟨hm, _⟩
          · refine ⟨w, hw, WRel_recv h w hw (src, .wrk id) m rest hk _ hle ?_⟩
            intro a
            have g0 := h.base.g.pop (src, .wrk id) m rest hk
            have h1 := Tok_setWorker a { n with chans := chanSet n.chans (src, .wrk id) rest } w (w.recv m)
              g0.ids hw (recv_mono w m).id
            have h2 := Tok_pop a n (src, .wrk id) m rest hk
            have e : ({ ({ n with chans := chanSet n.chans (src, .wrk id) rest } : Net) with
                workers := setWorker ({ n with chans := chanSet n.chans (src, .wrk id) rest } : Net).workers
                  (w.recv m) } : Net)
                = { n with chans := chanSet n.chans (src, .wrk id) rest,
                           workers := setWorker n.workers (w.recv m) } := rfl
            rw [e] at h1
            omega
          · exact ⟨w', hm, hsame w' hm⟩
    | client j =>
      apply old
      simp only [Net.apply, Net.deliver, hk] at hw'
      split at hw'
      · exact hw'
      · split at hw'
        · rw [(post_fields _ _ _ _).1] at hw'; exact hw'
        · exact hw'
    | mgr i =>
      apply old
      have : n.mgrs[i]? = none := by rw [h.base.g.flat]; rfl
      simp only [Net.apply, Net.deliver, hk, this] at hw'
      exact hw'
    | server =>
      apply old
      simp only [Net.apply, Net.deliver, hk] at hw'
      split at hw'
      · exact hw'
      · rw [(postAll_fields _ _ _).1] at hw'; exact hw'

/-- **`NInv2` is kept by every transition of the flat network** - no hypothesis on the run -/
theorem NInv2.apply {n : Net} (h : NInv2 n) (t : Tr) (hwf : t.wf) : NInv2 (n.apply t).net := by
  have hb := h.base.apply t hwf (h.depositOK t)
  apply h.mk2 t hwf hb
  cases t with
  | deliver s d asg ord died => exact h.rel_deliver s d asg ord died
  | step id => exact h.rel_step id
  | client j m dies => exact h.rel_client j m dies hwf

theorem NInv2.exec {n : Net} (h : NInv2 n) (trs : List Tr) (hwf : ∀ t ∈ trs, t.wf) : NInv2 (n.exec trs) := by
  induction trs generalizing n with
  | nil => exact h
  | cons t ts ih =>
    simp only [Net.exec, List.foldl_cons]
    exact ih (h.apply t (hwf t List.mem_cons_self)) (fun t' ht' => hwf t' (List.mem_cons_of_mem _ ht'))

theorem NInv2.init (tbl : Table) (att : Bool) (nw nc : Nat) : NInv2 (Net.initFlat tbl att nw nc) := by
  refine ⟨NInv.init tbl att nw nc, ?_, ?_⟩
  · intro a ht
    rw [Tok_init] at ht; omega
  · intro w hw m b hb
    simp only [Net.initFlat, mkWorkers, List.mem_map] at hw
    obtain ⟨i, _, rfl⟩ := hw
    simp [boxGet] at hb

end BqVerif.Runtime
