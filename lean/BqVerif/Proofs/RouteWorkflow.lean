import BqVerif.Proofs.RouteFlow
/-
C09: greedy placement, ApplyPlacement, and the composition of the whole workflow.
-/
namespace BqVerif.Route
open BqVerif.Circ (Op proj disjointL nodupL)
open BqVerif.Graph

/-! ### greedy placement -/
theorem validGrow_spec {g : G} (hwf : g.WF) : ∀ (l : List Nat), validGrow g l = true →
    l ≠ [] ∧ l.Nodup ∧ (∀ x ∈ l, x < g.n) ∧ ConnectedOn g l
  | [], h => by simp [validGrow] at h
  | [v], h => by
    simp only [validGrow, decide_eq_true_eq] at h
    refine ⟨by simp, by simp, by simpa using h, ?_⟩
    intro a ha b hb
    have ea : a = v := by simpa using ha
    have eb : b = v := by simpa using hb
    subst ea; subst eb
    exact ReachIn.refl (by simp)
  | v :: w :: rest, h => by
    simp only [validGrow, Bool.and_eq_true, Bool.not_eq_true', List.any_eq_true] at h
    obtain ⟨⟨h1, u, hu, hue⟩, h3⟩ := h
    obtain ⟨_, hnd, hlt, hc⟩ := validGrow_spec hwf (w :: rest) h3
    have hv : v ∉ w :: rest := by
      intro hm
      have : (w :: rest).contains v = true := by simpa using hm
      rw [this] at h1; cases h1
    refine ⟨by simp, List.nodup_cons.2 ⟨hv, hnd⟩, ?_, ?_⟩
    · intro x hx
      rcases List.mem_cons.1 hx with rfl | hx
      · exact (g.hasEdge_lt hwf hue).2.2
      · exact hlt x hx
    · exact connectedOn_insert (S := w :: rest) (v := v) (fun y => by simp) hc (Or.inr ⟨u, hu, hue⟩)

/-! ### ApplyPlacement -/
theorem applyPlacement_spec {out out' : List Em} {d d' : PD}
    (h : applyPlacement out d = some (out', d')) :
    out' = out.map (Em.relab (piAt d.placement)) ∧
    d'.im = d.im.map (piAt d.placement) ∧ d'.fm = d.fm.map (piAt d.placement) ∧
    d'.placement = List.range d.model.n ∧ d'.model = d.model ∧
    (∀ x ∈ d.placement, x < d.model.n) ∧ (∀ x ∈ d.im, x < d.placement.length) ∧
    (∀ x ∈ d.fm, x < d.placement.length) := by
  unfold applyPlacement at h
  split at h
  · rename_i hc
    simp only [Bool.and_eq_true, List.all_eq_true, decide_eq_true_eq] at hc
    have hp := Option.some.inj h
    have e1 := congrArg Prod.fst hp
    have e2 := congrArg Prod.snd hp
    simp only at e1 e2
    subst e1; subst e2
    exact ⟨rfl, rfl, rfl, rfl, rfl, hc.1.1, hc.1.2, hc.2⟩
  · cases h

theorem piAt_map (f : Nat → Nat) (π : List Nat) {q : Nat} (hq : q < π.length) :
    piAt (π.map f) q = f (piAt π q) := by
  simp [piAt, List.getD_eq_getElem?_getD, hq]

/-! ### the workflow -/
/-- routing + ApplyPlacement from data `d3` whose placement has `n` entries -/
theorem workflow_tail {free : Nat → Bool} {m : G} {n : Nat} {ops : List Op} {P : List Nat}
    {moves : List Move} {d0 d3 : PD} {out : List Em} {s : St} {d4 d5 : PD}
    (hm : m.WF) (hw : OpsWF n ops) (hP : P.length = n)
    (him : PermN n d0.im) (hfm : PermN n d0.fm)
    (hm3 : d3.model = m) (him3 : d3.im = d0.im) (hfm3 : d3.fm = d0.fm) (hp3 : d3.placement.Perm P)
    (h4 : routePass free n ops moves d3 = some (s, d4))
    (h5 : applyPlacement s.out d4 = some (out, d5)) :
    (d4.placement.Nodup ∧ d4.placement.length = n ∧ (∀ x ∈ d4.placement, x < m.n) ∧
      ConnectedOn m d4.placement ∧ d4.placement.Perm P) ∧
    (d5.im.Nodup ∧ d5.im.length = n ∧ (∀ x ∈ d5.im, x < m.n) ∧
      d5.fm.Nodup ∧ d5.fm.length = n ∧ (∀ x ∈ d5.fm, x < m.n)) ∧
    (∀ e ∈ out, EmOK free m e) ∧
    (∃ L, unroute d4.placement out = (L, s.pi.map (piAt d4.placement)) ∧ L.Perm ops ∧
      (∀ q, proj q L = proj q ops) ∧ L.map strip = (gatesOf out).map strip) ∧
    (PermN n s.pi ∧ d5.im = d0.im.map (piAt d4.placement) ∧
      d5.fm = d0.fm.map (piAt (s.pi.map (piAt d4.placement))) ∧
      d5.placement = List.range m.n ∧ d5.model = m) := by
  have hlen3 : d3.placement.length = n := hp3.length_eq.trans hP
  have hm3' : d3.model.WF := hm3 ▸ hm
  obtain ⟨sg, hcon, hfc, _, hinv, hrem, hd4⟩ := routePass_spec hm3' hw hlen3 h4
  obtain ⟨hpnd, hplt, hpc, hsn, hsw, hedge⟩ := connectivity_spec hm3' hcon hfc
  obtain ⟨ho, hi5, hf5, hp5, hmo5, _, _, _⟩ := applyPlacement_spec h5
  have hpl4 : d4.placement = d3.placement := by rw [hd4]
  have hmod4 : d4.model = m := by rw [hd4]; exact hm3
  rw [hm3] at hplt hpc hedge
  have hinj : ∀ x y, x < n → y < n → piAt d3.placement x = piAt d3.placement y → x = y :=
    fun x y hx hy => piAt_inj hpnd (hlen3 ▸ hx) (hlen3 ▸ hy)
  have hfl : ∀ x, x < n → piAt d3.placement x < m.n :=
    fun x hx => hplt _ (piAt_mem (hlen3 ▸ hx))
  have hedge' : ∀ i j, i < n → j < n →
      sg.hasEdge i j = m.hasEdge (piAt d3.placement i) (piAt d3.placement j) :=
    fun i j hi hj => hedge i j (hlen3 ▸ hi) (hlen3 ▸ hj)
  obtain ⟨L, hun, hperm, hproj⟩ := hinv.un
  rw [hrem, List.append_nil] at hperm
  simp only [hrem, List.append_nil] at hproj
  have hrel := unroute_relabel hinj s.out (π := List.range n)
    (fun x hx => List.mem_range.1 hx) hinv.bound
  rw [hun] at hrel
  have hrange : (List.range n).map (piAt d3.placement) = d3.placement := by
    rw [← hlen3]; exact map_piAt_range _
  rw [hrange] at hrel
  simp only at hrel
  have hpi := hinv.perm
  refine ⟨⟨hpl4 ▸ hpnd, hpl4 ▸ hlen3, hpl4 ▸ hplt, hpl4 ▸ hpc, hpl4 ▸ hp3⟩, ?_, ?_, ?_, ?_⟩
  · rw [hi5, hf5, hpl4, hd4]
    simp only [him3, hfm3]
    refine ⟨nodup_map_piAt hpnd him.1 (fun q hq => hlen3 ▸ him.2.2 q hq),
      by simp [him.2.1], ?_,
      nodup_map_piAt hpnd (nodup_map_piAt hpi.1 hfm.1 (fun q hq => hpi.2.1 ▸ hfm.2.2 q hq))
        (fun q hq => by
          obtain ⟨x, hx, rfl⟩ := List.mem_map.1 hq
          rw [hlen3]
          exact hpi.2.2 _ (piAt_mem (hpi.2.1 ▸ hfm.2.2 x hx))),
      by simp [hfm.2.1], ?_⟩
    · intro x hx
      obtain ⟨q, hq, rfl⟩ := List.mem_map.1 hx
      exact hfl q (him.2.2 q hq)
    · intro x hx
      obtain ⟨y, hy, rfl⟩ := List.mem_map.1 hx
      obtain ⟨q, hq, rfl⟩ := List.mem_map.1 hy
      exact hfl _ (hpi.2.2 _ (piAt_mem (hpi.2.1 ▸ hfm.2.2 q hq)))
  · intro e he
    rw [ho] at he
    obtain ⟨e0, he0, rfl⟩ := List.mem_map.1 he
    rw [hpl4]
    exact emOK_relab hsw (hsn.trans hlen3) hinj hfl hedge' (hinv.ok e0 he0)
  · refine ⟨L, ?_, hperm, hproj, ?_⟩
    · rw [ho, hpl4]; exact hrel
    · have := unroute_strip d3.placement (s.out.map (Em.relab (piAt d3.placement)))
      rw [hrel] at this
      rw [ho, hpl4]
      exact this
  · refine ⟨hinv.perm, ?_, ?_, ?_, ?_⟩
    · rw [hi5, hpl4, hd4]; simp [him3]
    · rw [hf5, hpl4, hd4]
      simp only [hfm3, List.map_map]
      apply List.map_congr_left
      intro q hq
      have hq' : q < s.pi.length := hinv.perm.2.1 ▸ hfm.2.2 q hq
      simp only [Function.comp]
      exact (piAt_map _ _ hq').symm
    · rw [hp5, hmod4]
    · rw [hmo5, hmod4]

theorem workflow_spec {free : Nat → Bool} {m : G} {n : Nat} {ops : List Op} {P : List Nat}
    {lay : Option (List LMove)} {moves : List Move} {d0 : PD}
    {out : List Em} {s : St} {d4 d5 : PD}
    (hm : m.WF) (hw : OpsWF n ops) (hP : P.length = n)
    (him : PermN n d0.im) (hfm : PermN n d0.fm)
    (h : workflow free m n ops P lay moves d0 = some (out, s, d4, d5)) :
    (d4.placement.Nodup ∧ d4.placement.length = n ∧ (∀ x ∈ d4.placement, x < m.n) ∧
      ConnectedOn m d4.placement ∧ d4.placement.Perm P) ∧
    (d5.im.Nodup ∧ d5.im.length = n ∧ (∀ x ∈ d5.im, x < m.n) ∧
      d5.fm.Nodup ∧ d5.fm.length = n ∧ (∀ x ∈ d5.fm, x < m.n)) ∧
    (∀ e ∈ out, EmOK free m e) ∧
    (∃ L, unroute d4.placement out = (L, s.pi.map (piAt d4.placement)) ∧ L.Perm ops ∧
      (∀ q, proj q L = proj q ops) ∧ L.map strip = (gatesOf out).map strip) ∧
    (PermN n s.pi ∧ d5.im = d0.im.map (piAt d4.placement) ∧
      d5.fm = d0.fm.map (piAt (s.pi.map (piAt d4.placement))) ∧
      d5.placement = List.range m.n ∧ d5.model = m) := by
  unfold workflow at h
  cases h1 : setModel m n d0 with
  | none => simp [h1] at h
  | some d1 =>
    simp only [h1] at h
    have hd1 : d1 = { d0 with model := m, placement := List.range n } := by
      unfold setModel at h1
      split at h1
      · cases h1
      · exact (Option.some.inj h1).symm
    split at h
    · cases h
    · -- the data handed to the routing pass
      cases lay with
      | none =>
        simp only at h
        cases h4 : routePass free n ops moves { d1 with placement := P } with
        | none => simp [h4] at h
        | some sd =>
          obtain ⟨s1, d4'⟩ := sd
          simp only [h4] at h
          cases h5 : applyPlacement s1.out d4' with
          | none => simp [h5] at h
          | some od =>
            obtain ⟨out1, d5'⟩ := od
            simp only [h5] at h
            have hq := Option.some.inj h
            have q1 : out1 = out := congrArg Prod.fst hq
            have q2 : s1 = s := congrArg (fun x => x.2.1) hq
            have q3 : d4' = d4 := congrArg (fun x => x.2.2.1) hq
            have q4 : d5' = d5 := congrArg (fun x => x.2.2.2) hq
            subst q1; subst q2; subst q3; subst q4
            exact workflow_tail (d3 := { d1 with placement := P }) hm hw hP him hfm
              (by simp [hd1]) (by simp [hd1]) (by simp [hd1]) (List.Perm.refl _) h4 h5
      | some l =>
        simp only at h
        cases h2 : layoutPass n l { d1 with placement := P } with
        | none => simp [h2] at h
        | some d3 =>
          simp only [h2] at h
          obtain ⟨π, _, _, he, hperm, _⟩ := layoutPass_spec (d := { d1 with placement := P }) hP h2
          cases h4 : routePass free n ops moves d3 with
          | none => simp [h4] at h
          | some sd =>
            obtain ⟨s1, d4'⟩ := sd
            simp only [h4] at h
            cases h5 : applyPlacement s1.out d4' with
            | none => simp [h5] at h
            | some od =>
              obtain ⟨out1, d5'⟩ := od
              simp only [h5] at h
              have hq := Option.some.inj h
              have q1 : out1 = out := congrArg Prod.fst hq
              have q2 : s1 = s := congrArg (fun x => x.2.1) hq
              have q3 : d4' = d4 := congrArg (fun x => x.2.2.1) hq
              have q4 : d5' = d5 := congrArg (fun x => x.2.2.2) hq
              subst q1; subst q2; subst q3; subst q4
              exact workflow_tail (d3 := d3) hm hw hP him hfm
                (by rw [he]; simp [hd1]) (by rw [he]; simp [hd1]) (by rw [he]; simp [hd1])
                hperm h4 h5

end BqVerif.Route
