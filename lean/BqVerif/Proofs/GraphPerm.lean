import BqVerif.Proofs.GraphBasic
/-!
`PermutationMatrix.from_qudit_location` / `gen_swap_unitary` (bqskit/qis/permutation.py).

The swap loop is a selection sort of `current_perm = location ++ (remaining qudits, increasing)`.
Invariant `LoopInv` after `k` iterations: the list has length `n`, contains every qudit, positions
`< k` hold their own index, and for every digit assignment `f` the swaps emitted so far (last one
applied first, as `apply_left` does) turn `current_perm.map f` into `perm0.map f`.
After `n` iterations `current_perm = range n` (`swapLoop_final`), so the composed swaps send the digit
list `ds` to `perm0.map ds[·]` (`permFromLocation_eq_spec`).  `permSpec` is a bijection of `[0, r^n)`
(`permSpec_lt`, `permSpec_injective`) whose output digit `i` is input digit `perm0[i]`
(`digits_permSpec`, `permSpec_digit`).  Core only, no Mathlib.
-/
namespace BqVerif.Graph

/-! ### swapDigits -/
theorem length_swapDigits (l : List Nat) (a b : Nat) : (swapDigits l a b).length = l.length := by
  simp [swapDigits]

/-- position-wise description of a swap of two in-range positions -/
theorem getElem?_swapDigits (l : List Nat) (a b : Nat) (ha : a < l.length) (hb : b < l.length)
    (i : Nat) :
    (swapDigits l a b)[i]? = if i = b then l[a]? else if i = a then l[b]? else l[i]? := by
  unfold swapDigits
  rw [List.getElem?_set, List.getElem?_set, List.length_set]
  simp only [List.getD_eq_getElem?_getD, List.getElem?_eq_getElem ha, List.getElem?_eq_getElem hb,
    Option.getD_some, hb, ha, if_true]
  by_cases h1 : b = i
  · subst h1; simp
  · by_cases h2 : a = i
    · subst h2; simp [h1]; intro h; exact absurd h.symm h1
    · simp [h1, h2, Ne.symm h1, Ne.symm h2]

theorem swapDigits_map (f : Nat → Nat) (l : List Nat) (a b : Nat) (ha : a < l.length)
    (hb : b < l.length) : swapDigits (l.map f) a b = (swapDigits l a b).map f := by
  apply List.ext_getElem?
  intro i
  rw [getElem?_swapDigits _ _ _ (by simpa using ha) (by simpa using hb)]
  simp only [List.getElem?_map]
  rw [getElem?_swapDigits _ _ _ ha hb]
  split
  · rfl
  · split <;> rfl

theorem swapDigits_swapDigits (l : List Nat) (a b : Nat) (ha : a < l.length) (hb : b < l.length) :
    swapDigits (swapDigits l a b) a b = l := by
  apply List.ext_getElem?
  intro i
  have hl := length_swapDigits l a b
  rw [getElem?_swapDigits _ _ _ (by omega) (by omega), getElem?_swapDigits _ _ _ ha hb,
    getElem?_swapDigits _ _ _ ha hb, getElem?_swapDigits _ _ _ ha hb]
  by_cases h1 : i = b
  · subst h1; by_cases h2 : a = i <;> simp [h2]
  · by_cases h2 : i = a
    · subst h2; simp [h1]
    · simp [h1, h2]

theorem mem_swapDigits (l : List Nat) (a b : Nat) (ha : a < l.length) (hb : b < l.length)
    (q : Nat) (hq : q ∈ l) : q ∈ swapDigits l a b := by
  rw [List.mem_iff_getElem?] at hq ⊢
  obtain ⟨i, hi⟩ := hq
  by_cases h1 : i = a
  · refine ⟨b, ?_⟩
    rw [getElem?_swapDigits _ _ _ ha hb]; simp [← h1, hi]
  · by_cases h2 : i = b
    · refine ⟨a, ?_⟩
      rw [getElem?_swapDigits _ _ _ ha hb]
      subst h2
      by_cases h3 : a = i
      · simp [h3, hi]
      · simp [h3, hi]
    · refine ⟨i, ?_⟩
      rw [getElem?_swapDigits _ _ _ ha hb]; simp [h1, h2, hi]

/-! ### the initial permutation -/
/-- `current_perm` before the loop -/
def perm0 (n : Nat) (loc : List Nat) : List Nat :=
  loc ++ (List.range n).filter (fun i => !loc.contains i)

theorem mem_perm0 (n : Nat) (loc : List Nat) (hlt : ∀ q ∈ loc, q < n) (q : Nat) :
    q ∈ perm0 n loc ↔ q < n := by
  unfold perm0
  simp only [List.mem_append, List.mem_filter, List.mem_range, List.contains_eq_mem,
    Bool.not_eq_eq_eq_not, Bool.not_true, decide_eq_false_iff_not]
  constructor
  · rintro (h | h)
    · exact hlt q h
    · exact h.1
  · intro h
    by_cases hq : q ∈ loc
    · exact Or.inl hq
    · exact Or.inr ⟨h, hq⟩

theorem nodup_perm0 (n : Nat) (loc : List Nat) (hnd : loc.Nodup) : (perm0 n loc).Nodup := by
  unfold perm0
  rw [List.nodup_append]
  refine ⟨hnd, List.Pairwise.filter _ List.nodup_range, ?_⟩
  intro a ha b hb hab
  subst hab
  simp at hb
  exact hb.2 ha

theorem perm0_perm (n : Nat) (loc : List Nat) (hnd : loc.Nodup) (hlt : ∀ q ∈ loc, q < n) :
    (perm0 n loc).Perm (List.range n) := by
  rw [List.perm_ext_iff_of_nodup (nodup_perm0 n loc hnd) List.nodup_range]
  intro a
  rw [mem_perm0 n loc hlt, List.mem_range]

theorem length_perm0 (n : Nat) (loc : List Nat) (hnd : loc.Nodup) (hlt : ∀ q ∈ loc, q < n) :
    (perm0 n loc).length = n := by
  rw [(perm0_perm n loc hnd hlt).length_eq, List.length_range]

/-! ### the loop -/
/-- one iteration of the `for index, qudit in enumerate(current_perm)` loop -/
def swapStep (acc : List (Nat × Nat) × List Nat) (index : Nat) : List (Nat × Nat) × List Nat :=
  if index != acc.2.getD index 0 then
    (acc.1 ++ [(index, acc.2.idxOf index)], swapDigits acc.2 index (acc.2.idxOf index))
  else acc

theorem swapLoop_eq (n : Nat) (loc : List Nat) :
    swapLoop n loc = (List.range (perm0 n loc).length).foldl swapStep ([], perm0 n loc) := rfl

/-- the digit action of a list of swaps, last swap first (`apply_left`) -/
def applySwaps (swaps : List (Nat × Nat)) (ds : List Nat) : List Nat :=
  swaps.reverse.foldl (fun ds s => swapDigits ds s.1 s.2) ds

theorem applySwaps_snoc (swaps : List (Nat × Nat)) (s : Nat × Nat) (ds : List Nat) :
    applySwaps (swaps ++ [s]) ds = applySwaps swaps (swapDigits ds s.1 s.2) := by
  simp [applySwaps]

/-- loop invariant after `k` iterations -/
structure LoopInv (n : Nat) (p0 : List Nat) (k : Nat) (acc : List (Nat × Nat) × List Nat) : Prop where
  len : acc.2.length = n
  mem : ∀ q < n, q ∈ acc.2
  sorted : ∀ j < k, acc.2[j]? = some j
  comp : ∀ f : Nat → Nat, applySwaps acc.1 (acc.2.map f) = p0.map f

theorem loopInv_step (n : Nat) (p0 : List Nat) (k : Nat) (hk : k < n)
    (acc : List (Nat × Nat) × List Nat) (h : LoopInv n p0 k acc) :
    LoopInv n p0 (k + 1) (swapStep acc k) := by
  obtain ⟨hlen, hmem, hsorted, hcomp⟩ := h
  unfold swapStep
  have hkl : k < acc.2.length := by omega
  by_cases hq : acc.2.getD k 0 = k
  · -- nothing to do
    have : (k != acc.2.getD k 0) = false := by rw [hq]; simp
    rw [this]
    simp only [Bool.false_eq_true, if_false]
    refine ⟨hlen, hmem, ?_, hcomp⟩
    intro j hj
    by_cases hjk : j = k
    · subst hjk
      rw [List.getD_eq_getElem?_getD, List.getElem?_eq_getElem hkl] at hq
      rw [List.getElem?_eq_getElem hkl]
      simpa using hq
    · exact hsorted j (by omega)
  · have : (k != acc.2.getD k 0) = true := by
      simp only [bne_iff_ne, ne_eq]; exact fun e => hq e.symm
    rw [this]
    simp only [if_true]
    have hkm : k ∈ acc.2 := hmem k hk
    have hpl : acc.2.idxOf k < acc.2.length := List.idxOf_lt_length_of_mem hkm
    have hpk : acc.2[acc.2.idxOf k] = k := List.getElem_idxOf hpl
    have hpge : k < acc.2.idxOf k := by
      rcases Nat.lt_trichotomy (acc.2.idxOf k) k with h1 | h1 | h1
      · have := hsorted _ h1
        rw [List.getElem?_eq_getElem hpl, hpk] at this
        simp at this; omega
      · exfalso; apply hq
        rw [List.getD_eq_getElem?_getD, List.getElem?_eq_getElem hkl]
        simp only [Option.getD_some]
        conv => lhs; arg 2; rw [← h1]
        exact hpk
      · exact h1
    refine ⟨?_, ?_, ?_, ?_⟩
    · simp [length_swapDigits, hlen]
    · intro q hq'
      exact mem_swapDigits _ _ _ hkl hpl q (hmem q hq')
    · intro j hj
      rw [getElem?_swapDigits _ _ _ hkl hpl]
      by_cases hjk : j = k
      · subst hjk
        have : ¬ j = acc.2.idxOf j := by omega
        simp [this, List.getElem?_eq_getElem hpl, hpk]
      · have : ¬ j = acc.2.idxOf k := by omega
        simp [this, hjk]
        exact hsorted j (by omega)
    · intro f
      show applySwaps (acc.1 ++ [(k, acc.2.idxOf k)]) _ = _
      rw [applySwaps_snoc]
      simp only
      have hl' := length_swapDigits acc.2 k (acc.2.idxOf k)
      rw [swapDigits_map f _ _ _ (by omega) (by omega),
        swapDigits_swapDigits _ _ _ hkl hpl]
      exact hcomp f

theorem loopInv_range (n : Nat) (p0 : List Nat) (hlen : p0.length = n) (hmem : ∀ q < n, q ∈ p0)
    (k : Nat) (hk : k ≤ n) :
    LoopInv n p0 k ((List.range k).foldl swapStep ([], p0)) := by
  induction k with
  | zero =>
    refine ⟨hlen, hmem, ?_, ?_⟩
    · intro j hj; omega
    · intro f; simp [applySwaps]
  | succ k ih =>
    rw [List.range_succ, List.foldl_append]
    exact loopInv_step n p0 k (by omega) _ (ih (by omega))

theorem swapLoop_inv (n : Nat) (loc : List Nat) (hnd : loc.Nodup) (hlt : ∀ q ∈ loc, q < n) :
    LoopInv n (perm0 n loc) n (swapLoop n loc) := by
  rw [swapLoop_eq, length_perm0 n loc hnd hlt]
  exact loopInv_range n _ (length_perm0 n loc hnd hlt)
    (fun q hq => (mem_perm0 n loc hlt q).2 hq) n (Nat.le_refl n)

/-- the final `current_perm` is the identity (the loop is a selection sort) -/
theorem swapLoop_final (n : Nat) (loc : List Nat) (hnd : loc.Nodup) (hlt : ∀ q ∈ loc, q < n) :
    (swapLoop n loc).2 = List.range n := by
  have h := swapLoop_inv n loc hnd hlt
  apply List.ext_getElem?
  intro i
  by_cases hi : i < n
  · rw [h.sorted i hi]; simp [hi]
  · rw [List.getElem?_eq_none (by rw [h.len]; omega), List.getElem?_eq_none (by simp; omega)]

/-! ### the composed permutation -/
theorem length_digits (r n x : Nat) : (digits r n x).length = n := by simp [digits]

theorem map_getD_range (l : List Nat) : (List.range l.length).map (fun q => l.getD q 0) = l := by
  apply List.ext_getElem
  · simp
  · intro i h1 h2
    simp [List.getD_eq_getElem?_getD, List.getElem?_eq_getElem h2]

theorem permFromLocation_eq_spec (n r : Nat) (loc : List Nat) (hnd : loc.Nodup)
    (hlt : ∀ q ∈ loc, q < n) (col : Nat) :
    permFromLocation n r loc col = permSpec n r loc col := by
  have h := swapLoop_inv n loc hnd hlt
  show undigits r (applySwaps (swapLoop n loc).1 (digits r n col)) =
    undigits r ((perm0 n loc).map (fun q => (digits r n col).getD q 0))
  rw [← h.comp, swapLoop_final n loc hnd hlt]
  conv => lhs; rw [← map_getD_range (digits r n col), length_digits]

/-! ### digits / undigits -/
theorem snoc_induction {motive : List Nat → Prop} (nil : motive [])
    (append_singleton : ∀ ds d, motive ds → motive (ds ++ [d])) (l : List Nat) : motive l := by
  have h : ∀ l : List Nat, motive l.reverse := by
    intro l
    induction l with
    | nil => exact nil
    | cons a l ih => rw [List.reverse_cons]; exact append_singleton _ _ ih
  simpa using h l.reverse

theorem undigits_snoc (r : Nat) (ds : List Nat) (d : Nat) :
    undigits r (ds ++ [d]) = undigits r ds * r + d := by
  simp [undigits]

theorem digits_succ (r n x : Nat) : digits r (n + 1) x = digits r n (x / r) ++ [x % r] := by
  unfold digits
  rw [List.range_succ, List.map_append]
  congr 1
  · apply List.map_congr_left
    intro i hi
    rw [List.mem_range] at hi
    have : n + 1 - 1 - i = (n - 1 - i) + 1 := by omega
    rw [this, Nat.pow_succ, Nat.div_div_eq_div_mul, Nat.mul_comm]
  · simp

theorem undigits_digits (r n x : Nat) (hx : x < r ^ n) : undigits r (digits r n x) = x := by
  induction n generalizing x with
  | zero => simp [digits, undigits]; simp at hx; exact hx.symm
  | succ n ih =>
    rw [digits_succ, undigits_snoc]
    have hr : 0 < r := by
      rcases Nat.eq_zero_or_pos r with h | h
      · subst h; simp at hx
      · exact h
    rw [ih (x / r) (by rw [Nat.div_lt_iff_lt_mul hr]; rwa [Nat.pow_succ] at hx)]
    exact Nat.div_add_mod' x r

theorem digits_lt (r n x : Nat) (hr : 0 < r) : ∀ d ∈ digits r n x, d < r := by
  intro d hd
  simp only [digits, List.mem_map] at hd
  obtain ⟨i, _, rfl⟩ := hd
  exact Nat.mod_lt _ hr

/-- under `x < r ^ n` all digits are `< r` (for `r = 0` this forces `n = 0`: no digits) -/
theorem digits_lt_of_lt (r n x : Nat) (hx : x < r ^ n) : ∀ d ∈ digits r n x, d < r := by
  rcases Nat.eq_zero_or_pos r with h | h
  · subst h
    cases n with
    | zero => simp [digits]
    | succ n => simp at hx
  · exact digits_lt r n x h

theorem undigits_lt (r : Nat) (ds : List Nat) (h : ∀ d ∈ ds, d < r) :
    undigits r ds < r ^ ds.length := by
  induction ds using snoc_induction with
  | nil => simp [undigits]
  | append_singleton ds d ih =>
    rw [undigits_snoc, List.length_append, List.length_singleton, Nat.pow_succ]
    have h1 := ih (fun x hx => h x (by simp [hx]))
    have h2 : d < r := h d (by simp)
    have h3 : (undigits r ds + 1) * r ≤ r ^ ds.length * r := Nat.mul_le_mul_right r h1
    rw [Nat.add_mul] at h3
    omega

theorem digits_undigits (r : Nat) (ds : List Nat) (h : ∀ d ∈ ds, d < r) :
    digits r ds.length (undigits r ds) = ds := by
  induction ds using snoc_induction with
  | nil => simp [digits]
  | append_singleton ds d ih =>
    have h1 := ih (fun x hx => h x (by simp [hx]))
    have h2 : d < r := h d (by simp)
    rw [undigits_snoc, List.length_append, List.length_singleton, digits_succ]
    have hr : 0 < r := by omega
    rw [Nat.mul_comm, Nat.mul_add_div hr, Nat.mul_add_mod, Nat.div_eq_of_lt h2, Nat.mod_eq_of_lt h2,
      Nat.add_zero, h1]

/-! ### the specification is a bijection of `[0, r^n)` -/
theorem permSpec_eq (n r : Nat) (loc : List Nat) (col : Nat) :
    permSpec n r loc col = undigits r ((perm0 n loc).map (fun q => (digits r n col).getD q 0)) := rfl

/-- the digit list of the specification is a list of valid digits -/
theorem specDigits_lt (n r : Nat) (loc : List Nat) (hlt : ∀ q ∈ loc, q < n)
    (col : Nat) (hcol : col < r ^ n) :
    ∀ d ∈ (perm0 n loc).map (fun q => (digits r n col).getD q 0), d < r := by
  intro d hd
  rw [List.mem_map] at hd
  obtain ⟨q, hq, rfl⟩ := hd
  have hqn : q < n := (mem_perm0 n loc hlt q).1 hq
  have hql : q < (digits r n col).length := by rw [length_digits]; exact hqn
  rw [List.getD_eq_getElem?_getD, List.getElem?_eq_getElem hql, Option.getD_some]
  exact digits_lt_of_lt r n col hcol _ (List.getElem_mem hql)

theorem permSpec_lt (n r : Nat) (loc : List Nat) (hnd : loc.Nodup) (hlt : ∀ q ∈ loc, q < n)
    (col : Nat) (hcol : col < r ^ n) : permSpec n r loc col < r ^ n := by
  rw [permSpec_eq]
  have := undigits_lt r _ (specDigits_lt n r loc hlt col hcol)
  rwa [List.length_map, length_perm0 n loc hnd hlt] at this

/-- the digits of the specification: digit `i` of the output is digit `perm0[i]` of the input -/
theorem digits_permSpec (n r : Nat) (loc : List Nat) (hnd : loc.Nodup) (hlt : ∀ q ∈ loc, q < n)
    (col : Nat) (hcol : col < r ^ n) :
    digits r n (permSpec n r loc col) =
      (perm0 n loc).map (fun q => (digits r n col).getD q 0) := by
  rw [permSpec_eq]
  have := digits_undigits r _ (specDigits_lt n r loc hlt col hcol)
  rwa [List.length_map, length_perm0 n loc hnd hlt] at this

theorem permSpec_digit_perm0 (n r : Nat) (loc : List Nat) (hnd : loc.Nodup)
    (hlt : ∀ q ∈ loc, q < n) (col : Nat) (hcol : col < r ^ n) (i : Nat) (hi : i < n) :
    (digits r n (permSpec n r loc col)).getD i 0 =
      (digits r n col).getD ((perm0 n loc).getD i 0) 0 := by
  rw [digits_permSpec n r loc hnd hlt col hcol]
  have hl : i < (perm0 n loc).length := by rw [length_perm0 n loc hnd hlt]; exact hi
  simp [List.getD_eq_getElem?_getD, List.getElem?_eq_getElem hl]

theorem permSpec_digit (n r : Nat) (loc : List Nat) (hnd : loc.Nodup) (hlt : ∀ q ∈ loc, q < n)
    (col : Nat) (hcol : col < r ^ n) (i : Nat) (hi : i < loc.length) :
    (digits r n (permSpec n r loc col)).getD i 0 = (digits r n col).getD (loc.getD i 0) 0 := by
  have hin : i < n := by
    have := length_perm0 n loc hnd hlt
    unfold perm0 at this
    rw [List.length_append] at this
    omega
  rw [permSpec_digit_perm0 n r loc hnd hlt col hcol i hin]
  congr 1
  unfold perm0
  simp [List.getD_eq_getElem?_getD, List.getElem?_append_left hi]

theorem permSpec_injective (n r : Nat) (loc : List Nat) (hnd : loc.Nodup) (hlt : ∀ q ∈ loc, q < n)
    (c1 c2 : Nat) (h1 : c1 < r ^ n) (h2 : c2 < r ^ n)
    (h : permSpec n r loc c1 = permSpec n r loc c2) : c1 = c2 := by
  have hd : digits r n (permSpec n r loc c1) = digits r n (permSpec n r loc c2) := by rw [h]
  rw [digits_permSpec n r loc hnd hlt c1 h1, digits_permSpec n r loc hnd hlt c2 h2,
    List.map_inj_left] at hd
  have he : digits r n c1 = digits r n c2 := by
    apply List.ext_getElem
    · simp [length_digits]
    · intro i hi1 hi2
      rw [length_digits] at hi1
      have := hd i ((mem_perm0 n loc hlt i).2 hi1)
      simpa [List.getD_eq_getElem?_getD, List.getElem?_eq_getElem hi2,
        List.getElem?_eq_getElem (show i < (digits r n c1).length by rw [length_digits]; exact hi1)]
        using this
  rw [← undigits_digits r n c1 h1, ← undigits_digits r n c2 h2, he]

/-! ### gen_swap_unitary -/
theorem genSwapRow_eq (r col : Nat) (hcol : col < r * r) :
    genSwapRow r col = undigits r (swapDigits (digits r 2 col) 0 1) := by
  have hr : 0 < r := by
    rcases Nat.eq_zero_or_pos r with h | h
    · subst h; simp at hcol
    · exact h
  have hdiv : col / r < r := by rw [Nat.div_lt_iff_lt_mul hr]; exact hcol
  simp [genSwapRow, digits, swapDigits, undigits, List.range_succ, Nat.mod_eq_of_lt hdiv]

/-! ### consequences for the loop itself -/
theorem permFromLocation_lt (n r : Nat) (loc : List Nat) (hnd : loc.Nodup) (hlt : ∀ q ∈ loc, q < n)
    (col : Nat) (hcol : col < r ^ n) : permFromLocation n r loc col < r ^ n := by
  rw [permFromLocation_eq_spec n r loc hnd hlt]; exact permSpec_lt n r loc hnd hlt col hcol

theorem permFromLocation_injective (n r : Nat) (loc : List Nat) (hnd : loc.Nodup)
    (hlt : ∀ q ∈ loc, q < n) (c1 c2 : Nat) (h1 : c1 < r ^ n) (h2 : c2 < r ^ n)
    (h : permFromLocation n r loc c1 = permFromLocation n r loc c2) : c1 = c2 := by
  rw [permFromLocation_eq_spec n r loc hnd hlt, permFromLocation_eq_spec n r loc hnd hlt] at h
  exact permSpec_injective n r loc hnd hlt c1 c2 h1 h2 h

/-- qudit `location[i]` of the input ends up at position `i` of the output -/
theorem permFromLocation_digit (n r : Nat) (loc : List Nat) (hnd : loc.Nodup)
    (hlt : ∀ q ∈ loc, q < n) (col : Nat) (hcol : col < r ^ n) (i : Nat) (hi : i < loc.length) :
    (digits r n (permFromLocation n r loc col)).getD i 0 =
      (digits r n col).getD (loc.getD i 0) 0 := by
  rw [permFromLocation_eq_spec n r loc hnd hlt]; exact permSpec_digit n r loc hnd hlt col hcol i hi

/-! ### non-vacuity and sanity checks
The tables are the ones printed by the Python code
(`[argmax |P[:, c]| for c in range(r^n)]` of `PermutationMatrix.from_qudit_location(n, r, loc)`). -/
example : permFromLocation 3 2 [1, 2, 0] 5 = permSpec 3 2 [1, 2, 0] 5 :=
  permFromLocation_eq_spec 3 2 [1, 2, 0] (by decide) (by decide) 5
example : permFromLocation 3 2 [1, 2, 0] 5 = 3 := by decide
example : (swapLoop 3 [1, 2, 0]).1 = [(0, 2), (1, 2)] := by decide
example : (List.range 8).map (permFromLocation 3 2 [1, 2, 0]) = [0, 2, 4, 6, 1, 3, 5, 7] := by decide
example : (List.range 8).map (permSpec 3 2 [1, 2, 0]) = [0, 2, 4, 6, 1, 3, 5, 7] := by decide
example : (List.range 27).map (permFromLocation 3 3 [2]) =
    [0, 9, 18, 1, 10, 19, 2, 11, 20, 3, 12, 21, 4, 13, 22, 5, 14, 23, 6, 15, 24, 7, 16, 25, 8, 17, 26] := by
  decide
example : permSpec 3 2 [1, 2, 0] 5 < 2 ^ 3 :=
  permSpec_lt 3 2 [1, 2, 0] (by decide) (by decide) 5 (by decide)
example : (5 : Nat) = 5 :=
  permSpec_injective 3 2 [1, 2, 0] (by decide) (by decide) 5 5 (by decide) (by decide) rfl
example : (digits 2 3 (permSpec 3 2 [1, 2, 0] 4)).getD 2 0 = (digits 2 3 4).getD 0 0 :=
  permSpec_digit 3 2 [1, 2, 0] (by decide) (by decide) 4 (by decide) 2 (by decide)
example : digits 2 3 4 = [1, 0, 0] ∧ digits 2 3 (permSpec 3 2 [1, 2, 0] 4) = [0, 0, 1] := by decide
example : (swapLoop 3 [1, 2, 0]).2 = List.range 3 :=
  swapLoop_final 3 [1, 2, 0] (by decide) (by decide)
example : (swapLoop 4 [2, 0]) = ([(0, 1), (1, 2)], [0, 1, 2, 3]) := by decide
example : genSwapRow 3 5 = undigits 3 (swapDigits (digits 3 2 5) 0 1) :=
  genSwapRow_eq 3 5 (by decide)
example : (List.range 9).map (genSwapRow 3) = [0, 3, 6, 1, 4, 7, 2, 5, 8] := by decide
example : undigits 3 (digits 3 4 77) = 77 := undigits_digits 3 4 77 (by decide)
example : digits 3 4 77 = [2, 2, 1, 2] := by decide
/-- the guards matter: with a repeated qudit the final list is not the identity, and an
out-of-range digit position would make `swapDigits` lose a digit -/
example : (swapLoop 2 [0, 0]).2 ≠ List.range 2 := by decide
example : swapDigits [1, 2] 0 5 = [0, 2] := by decide

end BqVerif.Graph
