import BqVerif.Proofs.CrashInv
/-
C14 - executions: the potential accounting over a whole run, progress (the critical
delivery is enabled as long as the server runs), what a stopped server looks like, the
client's side, a second crash.
-/
namespace BqVerif.Crash

/-- one step of the accounting: potential + critical ≤ potential + growth -/
theorem potential_step {t : Topo} {s s' : State} {l : Label} (d : Nat) (h : step t s l = some s') :
    potential t s' d + b2n (isCrit t s d l) ≤ potential t s d + growth t s d l := by
  have hwle := step_wle h
  have quiet : gAt s l = (fun _ => 0) → isCrit t s d l = false → growth t s d l = 0 →
      potential t s' d + b2n (isCrit t s d l) ≤ potential t s d + growth t s d l := by
    intro hg hc hgr
    rw [hg] at hwle
    have := sumMap_le0 (f := weight t s) (f' := weight t s') (path t d)
      (fun i => by simpa using hwle.weight (t := t) i)
    unfold potential
    rw [hc, hgr]; simp [b2n]; exact this
  cases l with
  | recvEmp p e em f =>
    obtain ⟨hq, _, _, hst⟩ := recvEmp_wle h
    by_cases he : e ∈ path t d
    · have := sumMap_lt (f := weight t s) (f' := weight t s') (path t d) he
        (fun i => by simpa using hq.weight (t := t) i) hst
      unfold potential
      have hb : b2n (isCrit t s d (.recvEmp p e em f)) ≤ 1 := by unfold b2n; split <;> omega
      simp only [growth]
      omega
    · exact quiet rfl (by simp [isCrit, he]) rfl
  | flush n =>
    have hc : isCrit t s d (.flush n) = false := rfl
    rw [hc]
    simp only [b2n, Bool.false_eq_true, if_false, Nat.add_zero]
    unfold potential
    cases hq : s.outq n with
    | nil =>
      have hg : gAt s (.flush n) = fun _ => 0 := by funext i; simp [gAt, hq]
      rw [hg] at hwle
      simp only [growth, hq, Nat.add_zero]
      exact sumMap_le0 (f := weight t s) (f' := weight t s') (path t d)
        (fun i => by simpa using hwle.weight (t := t) i)
    | cons x xs =>
      obtain ⟨dst, m⟩ := x
      cases dst with
      | up =>
        have hg : gAt s (.flush n) = fun i => if i = n then 1 else 0 := by funext i; simp [gAt, hq]
        rw [hg] at hwle
        simp only [growth, hq]
        exact sumMap_le (f := weight t s) (f' := weight t s') (path t d) (fun i => hwle.weight (t := t) i)
      | emp e =>
        have hg : gAt s (.flush n) = fun _ => 0 := by funext i; simp [gAt, hq]
        rw [hg] at hwle
        simp only [growth, hq, Nat.add_zero]
        exact sumMap_le0 (f := weight t s) (f' := weight t s') (path t d)
          (fun i => by simpa using hwle.weight (t := t) i)
      | client c =>
        have hg : gAt s (.flush n) = fun _ => 0 := by funext i; simp [gAt, hq]
        rw [hg] at hwle
        simp only [growth, hq, Nat.add_zero]
        exact sumMap_le0 (f := weight t s) (f' := weight t s') (path t d)
          (fun i => by simpa using hwle.weight (t := t) i)
  | wsend w m =>
    have hc : isCrit t s d (.wsend w m) = false := rfl
    rw [hc]
    simp only [b2n, Bool.false_eq_true, if_false, Nat.add_zero]
    unfold potential
    simp only [growth]
    have hg : gAt s (.wsend w m) = fun i => if i = w then 1 else 0 := rfl
    rw [hg] at hwle
    exact sumMap_le (f := weight t s) (f' := weight t s') (path t d) (fun i => hwle.weight (t := t) i)
  | crash n tr => exact quiet rfl rfl rfl
  | recvUp n em f => exact quiet rfl rfl rfl
  | recvClient c em f => exact quiet rfl rfl rfl
  | flushDrop n => exact quiet rfl rfl rfl
  | wrecv w => exact quiet rfl rfl rfl
  | ccall c r => exact quiet rfl rfl rfl
  | cwake c => exact quiet rfl rfl rfl

/-- the accounting over a run; the invariant travels along -/
theorem runCount_bound {t : Topo} (wf : t.WF) (d : Nat) :
    ∀ (ls : List Label) (s sf : State) (c g : Nat), Inv t s →
      runCount t d s ls = some (sf, c, g) →
      potential t sf d + c ≤ potential t s d + g ∧ Inv t sf ∧
        (∀ i, s.gone i = true → sf.gone i = true) := by
  intro ls
  induction ls with
  | nil =>
    intro s sf c g hi h
    simp only [runCount, Option.some.injEq, Prod.mk.injEq] at h
    obtain ⟨rfl, rfl, rfl⟩ := h
    exact ⟨by omega, hi, fun _ x => x⟩
  | cons l ls ih =>
    intro s sf c g hi h
    simp only [runCount] at h
    cases hs : step t s l with
    | none => simp [hs] at h
    | some s1 =>
      simp only [hs] at h
      cases hr : runCount t d s1 ls with
      | none => simp [hr] at h
      | some r =>
        obtain ⟨sf', c', g'⟩ := r
        simp only [hr, Option.some.injEq, Prod.mk.injEq] at h
        obtain ⟨rfl, rfl, rfl⟩ := h
        have hi1 := step_inv wf hi hs
        have h1 := potential_step d hs
        obtain ⟨h2, hi2, hg2⟩ := ih s1 sf' c' g' hi1 hr
        exact ⟨by omega, hi2, fun i x => hg2 i ((step_wle hs).gone i x)⟩

theorem run_inv {t : Topo} (wf : t.WF) :
    ∀ (ls : List Label) (s sf : State), Inv t s →
      run t s ls = some sf → Inv t sf := by
  intro ls
  induction ls with
  | nil => intro s sf hi h; simp only [run, Option.some.injEq] at h; subst h; exact hi
  | cons l ls ih =>
    intro s sf hi h
    simp only [run] at h
    cases hs : step t s l with
    | none => simp [hs] at h
    | some s1 =>
      simp only [hs] at h
      exact ih s1 sf (step_inv wf hi hs) h

/-! ### progress -/

/-- the highest gone node on the way from `d` to the server -/
theorem find_top {t : Topo} (wf : t.WF) {s : State} (h0 : s.gone 0 = false) :
    ∀ (f d : Nat), d < f → d ≠ 0 → s.gone d = true →
      ∃ e, e ∈ pathAux t f d ∧ s.gone e = true ∧ s.gone (t.parent e) = false ∧ e ≠ 0 ∧ e ≤ d := by
  intro f
  induction f with
  | zero => intro d h; omega
  | succ f ih =>
    intro d hd hd0 hg
    simp only [pathAux, hd0, if_false]
    cases hp : s.gone (t.parent d) with
    | false => exact ⟨d, List.mem_cons_self, hg, hp, hd0, Nat.le_refl d⟩
    | true =>
      have hlt := wf.lt d (Nat.pos_of_ne_zero hd0)
      have hp0 : t.parent d ≠ 0 := by
        intro h; rw [h] at hp; rw [h0] at hp; cases hp
      obtain ⟨e, he, h1, h2, h3, h4⟩ := ih (t.parent d) (by omega) hp0 hp
      exact ⟨e, List.mem_cons_of_mem _ he, h1, h2, h3, by omega⟩

/-- as long as the server runs, the critical delivery is enabled -/
theorem progress {t : Topo} (wf : t.WF) {s : State} (hi : Inv t s) {d : Nat} (hd0 : d ≠ 0)
    (hdn : d < t.n) (hg : s.gone d = true) (h0 : s.gone 0 = false) :
    ∃ p e s', step t s (.recvEmp p e [] false) = some s' ∧
      isCrit t s d (.recvEmp p e [] false) = true := by
  obtain ⟨e, he, hge, hgp, he0, hed⟩ := find_top wf h0 (d + 1) d (by omega) hd0 hg
  refine ⟨t.parent e, e, ?_⟩
  have hen : e < t.n := by omega
  have hplt := wf.lt e (Nat.pos_of_ne_zero he0)
  have hch : t.isChild (t.parent e) e = true := isChild_iff.mpr ⟨he0, hen, rfl⟩
  have hgp' := hgp
  unfold State.gone at hgp'
  simp only [Bool.or_eq_false_iff, Bool.not_eq_false'] at hgp'
  have hloop : s.loopOk t (t.parent e) = true := by
    unfold State.loopOk
    have hk := wf.pk e (Nat.pos_of_ne_zero he0)
    simp only [Bool.and_eq_true, decide_eq_true_eq, bne_iff_ne, ne_eq]
    exact ⟨⟨⟨by omega, hk⟩, hgp'.1⟩, hgp'.2⟩
  have hdo : s.downOpen e = true := (hi.down _ e hch hgp'.1 hgp'.2).1
  have heof : (s.alive e && s.upOpen e) = false := by
    unfold State.gone at hge
    simp only [Bool.or_eq_true, Bool.not_eq_true'] at hge
    rcases hge with h1 | h1
    · simp [h1]
    · have := hi.upc e he0 h1
      simp only [State.view] at this
      simp [this]
  have hcrit : isCrit t s d (.recvEmp (t.parent e) e [] false) = true := by
    simp only [isCrit, Bool.and_eq_true, decide_eq_true_eq, Bool.not_eq_true']
    exact ⟨⟨he, hge⟩, hgp⟩
  have hen : ∃ s', recvEmp t s (t.parent e) e [] false = some s' := by
    unfold recvEmp
    have hguard : (!(s.loopOk t (t.parent e) && t.isChild (t.parent e) e && s.downOpen e && okEmits [])) = false := by
      simp [hloop, hch, hdo, okEmits]
    rw [if_neg (by simp [hguard])]
    split
    · rw [if_neg (by simp [heof])]
      rw [if_neg (by simp)]
      split
      · exact ⟨_, rfl⟩
      · split <;> exact ⟨_, rfl⟩
    · simp only
      split
      · split <;> exact ⟨_, rfl⟩
      · exact ⟨_, rfl⟩
      · split <;> exact ⟨_, rfl⟩
      · split <;> exact ⟨_, rfl⟩
      · exact ⟨_, rfl⟩
      · split <;> exact ⟨_, rfl⟩
  obtain ⟨s', hs'⟩ := hen
  exact ⟨s', hs', hcrit⟩

/-! ### the server is down -/

/-- once the server stopped: every client connection is closed on the server side and every
employee of the server was sent SHUTDOWN or is itself gone; the same for every stopped manager -/
theorem down_facts {t : Topo} {s : State} (hi : Inv t s) {p : Nat} (hr : s.running p = false) :
    (p = 0 → ∀ c, s.copen c = false) ∧
    (∀ e, t.isChild p e = true → s.sentShutdown e = true ∨ s.gone e = true) ∧
    (p ≠ 0 → s.upOpen p = false) := by
  refine ⟨fun hp c => ?_, fun e hc => ?_, fun hp => ?_⟩
  · subst hp; exact hi.clients hr c
  · exact hi.sent p e hc hr
  · exact hi.upc p hp hr

/-! ### no RESULT after the shutdown -/

theorem shutdownNode_toClient' (t : Topo) (s : State) (p : Nat) : (shutdownNode t s p).toClient = s.toClient := rfl

theorem systemError_toClient (t : Topo) (s : State) {p : Nat} (hp : p ≠ 0) :
    (systemError t s p).toClient = s.toClient := by
  unfold systemError
  simp only [hp, if_false]
  split <;> rfl

theorem loopOk_running {t : Topo} {s : State} {p : Nat} (h : s.loopOk t p = true) : s.running p = true := by
  unfold State.loopOk at h
  simp only [Bool.and_eq_true] at h
  exact h.2

/-- after `running = False` at the server, no transition appends anything to a
server -> client channel: the channel only shrinks (the client reads). -/
theorem no_result_after {t : Topo} {s s' : State} {l : Label} (hr : s.running 0 = false)
    (h : step t s l = some s') (c : Nat) : ∃ pre, s.toClient c = pre ++ s'.toClient c := by
  have same : s'.toClient = s.toClient → ∃ pre, s.toClient c = pre ++ s'.toClient c :=
    fun e => ⟨[], by rw [e]; rfl⟩
  cases l with
  | crash n tr =>
    simp only [step, crash] at h
    split at h
    · cases h
    split at h <;> cases h <;> exact same rfl
  | recvEmp p e em f =>
    simp only [step] at h
    unfold recvEmp at h
    split at h
    · cases h
    rename_i hg
    simp only [Bool.not_eq_true', Bool.not_eq_false, Bool.and_eq_true] at hg
    have hrp := loopOk_running hg.1.1.1
    have hp0 : p ≠ 0 := by intro x; subst x; rw [hr] at hrp; cases hrp
    split at h
    · split at h
      · cases h
      split at h
      · cases h; exact same (systemError_toClient t _ hp0)
      repeat' (first | (cases h; done) | (cases h; exact same rfl) | split at h)
    · simp only at h
      have hpf : (p = 0) = False := by simp [hp0]
      simp only [hpf, if_false] at h
      split at h
      · cases h; exact same rfl
      · cases h; exact same (systemError_toClient t _ hp0)
      · cases h; exact same rfl
      · cases h; exact same rfl
      · split at h <;> cases h
        · exact same (systemError_toClient t _ hp0)
        · exact same rfl
      · cases h; exact same rfl
  | recvUp n em f =>
    simp only [step] at h
    unfold recvUp at h
    split at h
    · cases h
    rename_i hg
    simp only [Bool.not_eq_true', Bool.not_eq_false, Bool.and_eq_true, bne_iff_ne, ne_eq] at hg
    have hn0 : n ≠ 0 := hg.1.1.2
    split at h
    · split at h
      · cases h
      split at h <;> cases h
      · exact same (systemError_toClient t _ hn0)
      · exact same rfl
    · simp only at h
      split at h
      · cases h; exact same rfl
      · cases h; exact same (systemError_toClient t _ hn0)
      · split at h <;> cases h
        · exact same (systemError_toClient t _ hn0)
        · exact same rfl
  | recvClient c' em f =>
    simp only [step] at h
    unfold recvClient at h
    split at h
    · cases h
    rename_i hg
    simp only [Bool.not_eq_true', Bool.not_eq_false, Bool.and_eq_true] at hg
    have := loopOk_running hg.1.1
    rw [hr] at this; cases this
  | flush n =>
    simp only [step] at h
    unfold flush at h
    split at h
    · cases h
    rename_i hg
    simp only [Bool.not_eq_true', Bool.not_eq_false, Bool.and_eq_true] at hg
    have hrn := hg.1.2
    split at h
    · cases h
    simp only at h
    split at h
    · split at h
      · cases h
      split at h <;> cases h <;> exact same rfl
    · split at h
      · cases h
      split at h <;> cases h <;> exact same rfl
    · split at h
      · cases h
      rename_i hn
      have hn0 : n = 0 := by simpa using hn
      subst hn0
      rw [hr] at hrn; cases hrn
  | flushDrop n =>
    simp only [step] at h
    unfold flushDrop at h
    split at h
    · cases h
    split at h
    · cases h
    split at h <;> cases h
    exact same rfl
  | wsend w m =>
    simp only [step] at h
    unfold wsend at h
    split at h
    · cases h
    split at h <;> cases h <;> exact same rfl
  | wrecv w =>
    simp only [step] at h
    unfold wrecv at h
    split at h
    · cases h
    split at h
    · split at h <;> cases h
      exact same rfl
    · simp only at h
      split at h <;> cases h <;> exact same rfl
  | ccall c' r =>
    simp only [step] at h
    unfold ccall at h
    split at h
    · cases h
    split at h
    · cases h; exact same rfl
    split at h <;> cases h
    · by_cases hc : c = c'
      · subst hc; exact ⟨s.toClient c, by simp⟩
      · exact ⟨[], by simp [hc]⟩
    · by_cases hc : c = c'
      · subst hc; exact ⟨s.toClient c, by simp⟩
      · exact ⟨[], by simp [hc]⟩
  | cwake c' =>
    simp only [step] at h
    unfold cwake at h
    split at h
    · cases h
    split at h
    · cases h
    split at h <;> cases h <;>
    · by_cases hc : c = c'
      · subst hc; exact ⟨s.toClient c, by simp⟩
      · exact ⟨[], by simp [hc]⟩

/-- `running` never comes back (any transition) -/
theorem running_mono {t : Topo} {s s' : State} {l : Label} (h : step t s l = some s') (i : Nat)
    (hr : s'.running i = true) : s.running i = true :=
  (step_wle h).running i hr

/-- over a whole run -/
theorem no_result_after_run {t : Topo} :
    ∀ (ls : List Label) (s sf : State), s.running 0 = false → run t s ls = some sf →
      sf.running 0 = false ∧ ∀ c, ∃ pre, s.toClient c = pre ++ sf.toClient c := by
  intro ls
  induction ls with
  | nil =>
    intro s sf hr h
    simp only [run, Option.some.injEq] at h; subst h
    exact ⟨hr, fun c => ⟨[], rfl⟩⟩
  | cons l ls ih =>
    intro s sf hr h
    simp only [run] at h
    cases hs : step t s l with
    | none => simp [hs] at h
    | some s1 =>
      simp only [hs] at h
      have hr1 : s1.running 0 = false := by
        cases hx : s1.running 0 with
        | false => rfl
        | true => have := running_mono hs 0 hx; rw [hr] at this; cases this
      obtain ⟨h1, h2⟩ := ih s1 sf hr1 h
      refine ⟨h1, fun c => ?_⟩
      obtain ⟨pre1, e1⟩ := no_result_after hr hs c
      obtain ⟨pre2, e2⟩ := h2 c
      exact ⟨pre1 ++ pre2, by rw [e1, e2, List.append_assoc]⟩

/-! ### the client -/

theorem recvAll_eof_not_blocked : ∀ (l : List Msg) (tr : Option Msg), recvAll l tr true ≠ .blocked := by
  intro l
  induction l with
  | nil => intro tr; cases tr <;> simp [recvAll]
  | cons m rest ih =>
    intro tr
    cases m <;> simp only [recvAll] <;> first | exact ih _ | simp

theorem preDrain_eof : ∀ (l : List Msg), preDrain l true = true := by
  intro l
  induction l with
  | nil => rfl
  | cons m rest ih => cases m <;> simp only [preDrain] <;> first | exact ih | rfl

/-- a client blocked in `_send_recv` whose connection the server closed: its `recv` is
enabled and the call ends (it raises, or returns a message that was already delivered) -/
theorem blocked_client_ends {s : State} {c : Nat} (hw : s.cwait c = true) (hc : s.copen c = false) :
    ∃ s', cwake s c = some s' ∧ s'.cwait c = false ∧
      (s'.clog = s.clog ++ [.raised c] ∨ ∃ m, m ∈ s.toClient c ∧ s'.clog = s.clog ++ [.returned c m]) := by
  unfold cwake
  simp only [hw, hc, Bool.not_true, Bool.false_eq_true, if_false, Bool.and_false, Bool.not_false]
  cases hra : recvAll (s.toClient c) none true with
  | blocked => exact absurd hra (recvAll_eof_not_blocked _ _)
  | raised => exact ⟨_, rfl, by simp, Or.inl rfl⟩
  | returned m =>
    refine ⟨_, rfl, by simp, Or.inr ⟨m, ?_, rfl⟩⟩
    -- with eof = true `recvAll` never returns
    exfalso
    have : ∀ (l : List Msg) (tr : Option Msg) (m : Msg), recvAll l tr true ≠ .returned m := by
      intro l
      induction l with
      | nil => intro tr m; cases tr <;> simp [recvAll]
      | cons x rest ih =>
        intro tr m
        cases x <;> simp only [recvAll] <;> first | exact ih _ _ | simp
    exact this _ _ _ hra

/-- at EOF the blocked call always raises -/
theorem blocked_client_raises {s : State} {c : Nat} (hw : s.cwait c = true) (hc : s.copen c = false) :
    ∃ s', cwake s c = some s' ∧ s'.cwait c = false ∧ s'.cconn c = false ∧
      s'.clog = s.clog ++ [.raised c] := by
  unfold cwake
  simp only [hw, hc, Bool.not_true, Bool.false_eq_true, if_false, Bool.and_false, Bool.not_false]
  have nr : ∀ (l : List Msg) (tr : Option Msg), recvAll l tr true = .raised := by
    intro l
    induction l with
    | nil => intro tr; cases tr <;> simp [recvAll]
    | cons x rest ih =>
      intro tr
      cases x <;> simp only [recvAll] <;> first | exact ih _ | rfl
  rw [nr]
  exact ⟨_, rfl, by simp, by simp, rfl⟩

/-- a client that enters a call after the server closed its connection gets RuntimeError
and nothing is sent -/
theorem entering_client_raises {s : State} {c : Nat} {r : Msg} (hw : s.cwait c = false) (hr : okReq r = true)
    (hc : s.copen c = false) :
    ∃ s', ccall s c r = some s' ∧ s'.cwait c = false ∧ s'.clog = s.clog ++ [.raised c] ∧
      s'.toServer = s.toServer := by
  unfold ccall
  simp only [hw, hr, Bool.not_true, Bool.or_false, Bool.false_eq_true, if_false]
  cases hcc : s.cconn c with
  | false => exact ⟨_, rfl, hw, rfl, rfl⟩
  | true =>
    simp only [Bool.not_true, Bool.false_eq_true, if_false, hc, Bool.not_false, preDrain_eof, if_true]
    exact ⟨_, rfl, hw, rfl, rfl⟩

/-! ### a second crash -/

/-- a crash changes nothing the server or a client can see: only `alive` of the victim and
possibly one broken frame at the end of its upstream channel -/
theorem crash_frame {t : Topo} {s s' : State} {n : Nat} {tr : Bool} (h : crash t s n tr = some s') :
    s'.running = s.running ∧ s'.copen = s.copen ∧ s'.toClient = s.toClient ∧ s'.cwait = s.cwait ∧
    s'.clog = s.clog ∧ s'.cconn = s.cconn ∧ s'.boxes = s.boxes ∧ s'.sentShutdown = s.sentShutdown ∧
    s'.downOpen = s.downOpen ∧ s'.upOpen = s.upOpen ∧ (∀ i, s'.alive i = true → s.alive i = true) := by
  unfold crash at h
  split at h
  · cases h
  simp only at h
  split at h <;> cases h <;>
  · refine ⟨rfl, rfl, rfl, rfl, rfl, rfl, rfl, rfl, rfl, rfl, fun i x => ?_⟩
    simp only [upd_apply] at x; split at x <;> simp_all

theorem getD_of_isSome {α : Type} (o : Option α) (d : α) (h : o.isSome = true) : o = some (o.getD d) := by
  cases o <;> simp_all

theorem run_append {t : Topo} : ∀ (l1 l2 : List Label) (a b : State), run t a l1 = some b →
    run t a (l1 ++ l2) = run t b l2 := by
  intro l1
  induction l1 with
  | nil => intro l2 a b h; simp only [run, Option.some.injEq] at h; subst h; rfl
  | cons x xs ih =>
    intro l2 a b h
    simp only [run, List.cons_append] at h ⊢
    cases hx : step t a x with
    | none => simp [hx] at h
    | some a1 => simp only [hx] at h ⊢; exact ih l2 a1 b h


end BqVerif.Crash
