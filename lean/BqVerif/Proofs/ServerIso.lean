import BqVerif.Proofs.ServerSim3
/-! C13: isolation between clients, histories, error routing. -/
namespace BqVerif.Server

/-- the client a client-side event comes from -/
def Ev.client : Ev → Option Conn
  | .connect _ => none
  | .hello c | .submit c _ | .request c _ | .status c _ | .cancel c _ | .disconnect c => some c
  | .result .. | .error .. | .log .. => none

/-- everything the tables hold about the tasks of client `B` is the same in `s` and `s'` -/
structure SameFor (B : Conn) (s s' : Srv) : Prop where
  clients : get? s'.clients B = get? s.clients B
  tasks : ∀ t m, get? s.tasks t = some (m, B) → get? s'.tasks t = some (m, B) ∧
    get? s'.m2t m = get? s.m2t m ∧ get? s'.boxes m = get? s.boxes m

theorem SameFor.of_eq {B : Conn} {s s' : Srv} (h1 : s'.clients = s.clients) (h2 : s'.tasks = s.tasks)
    (h3 : s'.m2t = s.m2t) (h4 : s'.boxes = s.boxes) : SameFor B s s' :=
  ⟨by rw [h1], fun t m x => ⟨by rw [h2]; exact x, by rw [h3], by rw [h4]⟩⟩

theorem SameFor.closeLike {A B : Conn} {s s' : Srv} (h : Inv s) (hne : B ≠ A) {ts t m}
    (h1 : get? s.tasks t = some (m, A)) (p : ClosedLike s s' A ts t m) (hm : s'.m2t = s.m2t) :
    SameFor B s s' := by
  constructor
  · rw [p.clients B]; simp [Ne.symm hne]
  · intro t' m' x
    refine ⟨by rw [p.tasks]; exact x, by rw [hm], ?_⟩
    rw [p.boxes m']
    have : m ≠ m' := by
      intro e; subst e
      have := h.mb_inj x h1; subst this
      rw [h1] at x; cases x; exact hne rfl
    simp [this]

theorem SameFor.disc {A B : Conn} {s s' : Srv} (h : Inv s) (hne : B ≠ A) (p : DiscPost s A s') :
    SameFor B s s' := by
  constructor
  · rw [p.clients B]; simp [Ne.symm hne]
  · intro t m x
    refine ⟨?_, ?_, ?_⟩
    · rw [p.tasks t, x]; simp [Option.filter, hne]
    · rw [p.m2t m, h.mbOwner_eq x]; simp [hne]
    · rw [p.boxes m, h.mbOwner_eq x]; simp [hne]

theorem isolation_handle {s : Srv} (h : Inv s) (ho : s.out = []) (e : Ev) {A : Conn}
    (hA : e.client = some A) (hw : wf s e = true) {s' : Srv} (hs : handle s e = .ok s') :
    (∀ r ∈ clientReplies s'.out, r.conn = A) ∧ ∀ B, B ≠ A → SameFor B s s' := by
  cases e with
  | connect c => simp [Ev.client] at hA
  | result m v => simp [Ev.client] at hA
  | error m v => simp [Ev.client] at hA
  | log m v => simp [Ev.client] at hA
  | hello c =>
    simp only [Ev.client, Option.some.injEq] at hA; subst hA
    simp only [handle, handleConnect] at hs; cases hs
    refine ⟨?_, fun B _ => SameFor.of_eq rfl rfl rfl rfl⟩
    simp [Srv.emit, ho, clientReplies, Out.reply?, Reply.conn]
  | status c t =>
    simp only [Ev.client, Option.some.injEq] at hA; subst hA
    obtain ⟨ts, hc⟩ := wf_client (by simpa [wf] using hw)
    simp only [handle, handleStatus_eq h t hc] at hs; cases hs
    refine ⟨?_, fun B _ => SameFor.of_eq rfl rfl rfl rfl⟩
    simp [Srv.emit, ho, clientReplies, Out.reply?, Reply.conn]
  | submit c t =>
    simp only [Ev.client, Option.some.injEq] at hA; subst hA
    simp only [wf, Bool.and_eq_true, Option.isNone_iff_eq_none] at hw
    obtain ⟨ts, hc⟩ := wf_client hw.1
    simp only [handle, handleNewCompTask_eq h hc hw.2] at hs; cases hs
    refine ⟨by simp [afterSubmit, Srv.emit, ho, clientReplies, Out.reply?], ?_⟩
    intro B hne
    constructor
    · simp [afterSubmit, Srv.emit, get?_set, Ne.symm hne]
    · intro t' m' x
      have n1 : t ≠ t' := by intro e; subst e; rw [hw.2] at x; cases x
      have n2 : s.counter ≠ m' := Nat.ne_of_gt (h.tk _ _ _ x).2.2
      simp [afterSubmit, Srv.emit, get?_set, n1, n2, x]
  | cancel c t =>
    simp only [Ev.client, Option.some.injEq] at hA; subst hA
    obtain ⟨ts, hc⟩ := wf_client (by simpa [wf] using hw)
    simp only [handle] at hs
    rcases handleCancel_eq h t hc with ⟨_, e1⟩ | ⟨ht, m, b, h1, _, e1⟩
    · rw [e1] at hs; cases hs
      refine ⟨?_, fun B _ => SameFor.of_eq rfl rfl rfl rfl⟩
      simp [Srv.emit, ho, clientReplies, Out.reply?, Reply.conn]
    · rw [e1] at hs; cases hs
      have cl : ClosedLike s (afterCancel s c ts t m) c ts t m :=
        ⟨rfl, fun c' => by simp [afterCancel, Srv.emit, get?_set],
          fun m' => by simp [afterCancel, Srv.emit, get?_del]⟩
      refine ⟨?_, fun B hne => SameFor.closeLike h hne h1 cl rfl⟩
      simp [afterCancel, Srv.emit, ho, clientReplies, Out.reply?, Reply.conn]
  | request c t =>
    simp only [Ev.client, Option.some.injEq] at hA; subst hA
    obtain ⟨ts, hc⟩ := wf_client (by simpa [wf] using hw)
    simp only [handle] at hs
    by_cases ht : t ∈ ts
    · obtain ⟨m, b, h1, h2, e1⟩ := handleRequest_mine h hc ht
      rw [e1] at hs
      cases hb : b.result with
      | none =>
        rw [hb] at hs; simp only at hs; cases hs
        refine ⟨by simp [ho, clientReplies], ?_⟩
        intro B hne
        refine ⟨rfl, fun t' m' x => ⟨x, rfl, ?_⟩⟩
        have : m ≠ m' := by
          intro e; subst e
          have := h.mb_inj x h1; subst this
          rw [h1] at x; cases x; exact hne rfl
        simp [get?_set, this]
      | some v =>
        rw [hb] at hs; simp only at hs; cases hs
        have cl : ClosedLike s (afterDeliver s c ts t m v) c ts t m :=
          ⟨rfl, fun c' => by simp [afterDeliver, Srv.emit, get?_set],
            fun m' => by simp [afterDeliver, Srv.emit, get?_del]⟩
        refine ⟨?_, fun B hne => SameFor.closeLike h hne h1 cl rfl⟩
        simp [afterDeliver, Srv.emit, ho, clientReplies, Out.reply?, Reply.conn]
    · rw [handleRequest_notMine h hc ht] at hs
      obtain ⟨s'', e2, p⟩ := handleDisconnect_post (h.emit (.errorNow c 0)) (c := c) (ts := ts) hc
      rw [e2] at hs; cases hs
      refine ⟨?_, fun B hne => ?_⟩
      · rw [p.replies]; simp [Srv.emit, ho, clientReplies, Out.reply?, Reply.conn]
      · have := SameFor.disc (h.emit (.errorNow c 0)) hne p
        exact ⟨this.clients, this.tasks⟩
  | disconnect c =>
    simp only [Ev.client, Option.some.injEq] at hA; subst hA
    obtain ⟨ts, hc⟩ := wf_client (by simpa [wf] using hw)
    obtain ⟨s'', e2, p⟩ := handleDisconnect_post h (c := c) (ts := ts) hc
    simp only [handle] at hs; rw [e2] at hs; cases hs
    refine ⟨?_, fun B hne => SameFor.disc h hne p⟩
    rw [p.replies]; simp [ho, clientReplies, Reply.conn]

end BqVerif.Server
