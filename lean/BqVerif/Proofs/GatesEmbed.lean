import BqVerif.Proofs.GatesComposed
/-! EmbeddedGate: writing a unitary into the rows/columns selected by an injective level map,
identity elsewhere, gives a unitary. -/
namespace BqVerif.Gates
open Matrix
set_option linter.unusedSectionVars false
set_option linter.unusedVariables false

variable {R : Type} [CommRing R] [StarRing R]

/-- the level of the small gate mapped to `I`, if any (`_map_matrix` read backwards) -/
def pre (d : Nat) (t : Nat → Nat) (I : Nat) : Option Nat :=
  (List.range d).find? fun i => t i = I

theorem embed_apply (d : Nat) (t : Nat → Nat) (B S : M R) (I J : Nat) :
    embed d t B S I J = match pre d t I, pre d t J with
      | some i, some j => S i j
      | _, _ => B I J := rfl

theorem pre_some {d : Nat} {t : Nat → Nat} {I i : Nat} (h : pre d t I = some i) :
    i < d ∧ t i = I := by
  unfold pre at h
  have h1 := List.mem_of_find?_eq_some h
  have h2 := List.find?_some h
  exact ⟨List.mem_range.mp h1, by simpa using h2⟩

theorem pre_none {d : Nat} {t : Nat → Nat} {I : Nat} (h : pre d t I = none) :
    ∀ i, i < d → t i ≠ I := by
  unfold pre at h
  intro i hi
  have := List.find?_eq_none.mp h i (List.mem_range.mpr hi)
  simpa using this

theorem pre_image {d : Nat} {t : Nat → Nat}
    (hinj : ∀ i, i < d → ∀ j, j < d → t i = t j → i = j) (i : Nat) (hi : i < d) :
    pre d t (t i) = some i := by
  cases h : pre d t (t i) with
  | none => exact absurd rfl (pre_none h i hi)
  | some i' =>
    obtain ⟨h1, h2⟩ := pre_some h
    rw [hinj i' h1 i hi h2]

/-- a sum over the big index whose terms vanish off the image is a sum over the small index -/
theorem sum_image_pre (d D : Nat) (t : Nat → Nat) (ht : ∀ i, i < d → t i < D)
    (hinj : ∀ i, i < d → ∀ j, j < d → t i = t j → i = j) (g : Nat → R) :
    (∑ J : Fin D, match pre d t J.val with | some j => g j | none => 0) = ∑ j : Fin d, g j := by
  let emb : Fin d → Fin D := fun j => ⟨t j.val, ht j.val j.2⟩
  have hemb : Function.Injective emb := by
    intro a b h
    exact Fin.ext (hinj a.val a.2 b.val b.2 (by simpa [emb] using congrArg Fin.val h))
  rw [← Finset.sum_subset (Finset.subset_univ (Finset.univ.image emb))]
  · rw [Finset.sum_image (fun a _ b _ h => hemb h)]
    apply Finset.sum_congr rfl
    intro j _
    simp only [emb, pre_image hinj j.val j.2]
  · intro J _ hJ
    cases h : pre d t J.val with
    | none => rfl
    | some j =>
      exfalso
      obtain ⟨h1, h2⟩ := pre_some h
      exact hJ (Finset.mem_image.mpr ⟨⟨j, h1⟩, Finset.mem_univ _, Fin.ext h2⟩)

/-- `EmbeddedGate.get_unitary` is unitary when the embedded gate is -/
theorem embed_unitary (d D : Nat) (t : Nat → Nat) (U : M R)
    (ht : ∀ i, i < d → t i < D) (hinj : ∀ i, i < d → ∀ j, j < d → t i = t j → i = j)
    (hU : IsUnitary d U) : IsUnitary D (embed d t eye U) := by
  have hU' : ∀ i k, i < d → k < d →
      (∑ j : Fin d, U i j * star (U k j)) = if i = k then 1 else 0 := by
    intro i k hi hk
    have := congrFun (congrFun hU ⟨i, hi⟩) ⟨k, hk⟩
    simpa [IsUnitary, toM, Matrix.mul_apply, Matrix.one_apply, Fin.ext_iff] using this
  unfold IsUnitary
  ext I K
  simp only [Matrix.mul_apply, conjTranspose_apply, toM, Matrix.one_apply, embed_apply]
  cases hI : pre d t I.val with
  | none =>
    -- row I is the identity row
    rw [Finset.sum_eq_single I]
    · simp only [hI]
      cases hK : pre d t K.val <;> by_cases h : I.val = K.val <;>
        simp [Gates.eye, Fin.ext_iff, eq_comm, h]
    · intro J _ hJ
      have : ¬ I.val = J.val := fun e => hJ (Fin.ext e.symm)
      cases pre d t J.val <;> simp [Gates.eye, this]
    · intro h; exact absurd (Finset.mem_univ _) h
  | some i =>
    obtain ⟨hi, hti⟩ := pre_some hI
    cases hK : pre d t K.val with
    | none =>
      have hIK : ¬ I = K := by
        intro e; rw [e] at hI; rw [hI] at hK; cases hK
      rw [if_neg hIK]
      apply Finset.sum_eq_zero
      intro J _
      cases hJ : pre d t J.val with
      | none =>
        have : ¬ I.val = J.val := by intro e; rw [e] at hI; rw [hI] at hJ; cases hJ
        simp [Gates.eye, this]
      | some j =>
        have : ¬ K.val = J.val := by intro e; rw [e] at hK; rw [hK] at hJ; cases hJ
        simp [Gates.eye, this]
    | some k =>
      obtain ⟨hk, htk⟩ := pre_some hK
      have key := sum_image_pre d D t ht hinj (fun j => U i j * star (U k j))
      have hsum : (∑ J : Fin D,
          (match some i, pre d t J.val with
            | some i, some j => U i j
            | _, _ => (Gates.eye : M R) I.val J.val) *
          star (match some k, pre d t J.val with
            | some i, some j => U i j
            | _, _ => (Gates.eye : M R) K.val J.val)) =
          ∑ J : Fin D, match pre d t J.val with | some j => U i j * star (U k j) | none => 0 := by
        apply Finset.sum_congr rfl
        intro J _
        cases hJ : pre d t J.val with
        | none =>
          have : ¬ I.val = J.val := by intro e; rw [e] at hI; rw [hI] at hJ; cases hJ
          simp [Gates.eye, this]
        | some j => rfl
      rw [hsum, key, hU' i k hi hk]
      have : (i = k) ↔ (I = K) := by
        constructor
        · intro e; apply Fin.ext; rw [← hti, ← htk, e]
        · intro e; rw [e] at hI; rw [hI] at hK; exact Option.some.inj hK
      simp [this]

end BqVerif.Gates
