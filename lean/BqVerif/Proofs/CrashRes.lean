import BqVerif.Proofs.CrashRun
/-
C14 - results: every client-bound RESULT anywhere in the network (channels, outgoing
queues, server mailboxes, client logs) is the recorded complete output of the root task of
its mailbox, and it only ever travels towards the client that owns that mailbox.
-/
namespace BqVerif.Crash

structure ResInv (s : State) : Prop where
  ob : ∀ i m v, Msg.result m v ∈ s.outbox i → (m, v) ∈ s.completed
  oq : ∀ i d m v, (d, Msg.result m v) ∈ s.outq i →
    (m, v) ∈ s.completed ∧ ∀ c, d = Dest.client c → getOwner s.owner m = some c
  bx : ∀ m b, (m, b) ∈ s.boxes →
    getOwner s.owner m = some b.owner ∧ ∀ v, b.result = some v → (m, v) ∈ s.completed
  tc : ∀ c m v, Msg.result m v ∈ s.toClient c → (m, v) ∈ s.completed ∧ getOwner s.owner m = some c
  cl : ∀ c m v, CEv.returned c (.result m v) ∈ s.clog →
    (m, v) ∈ s.completed ∧ getOwner s.owner m = some c
  fresh : ∀ m c, getOwner s.owner m = some c → m < s.counter

theorem resInv_init : ResInv init where
  ob := fun _ _ _ h => by simp [init] at h
  oq := fun _ _ _ _ h => by simp [init] at h
  bx := fun _ _ h => by simp [init] at h
  tc := fun _ _ _ h => by simp [init] at h
  cl := fun _ _ _ h => by simp [init] at h
  fresh := fun _ _ h => by simp [init, getOwner] at h

/-- `s'` holds no RESULT that `s` does not hold (same owners, same counter, at least the
same completions) -/
structure ResSub (s s' : State) : Prop where
  ob : ∀ i m v, Msg.result m v ∈ s'.outbox i → Msg.result m v ∈ s.outbox i
  oq : ∀ i d m v, (d, Msg.result m v) ∈ s'.outq i → (d, Msg.result m v) ∈ s.outq i
  bx : ∀ m b, (m, b) ∈ s'.boxes → ∃ b0, (m, b0) ∈ s.boxes ∧ b.owner = b0.owner ∧
    ∀ v, b.result = some v → b0.result = some v
  tc : ∀ c m v, Msg.result m v ∈ s'.toClient c → Msg.result m v ∈ s.toClient c
  cl : ∀ c m v, CEv.returned c (.result m v) ∈ s'.clog → CEv.returned c (.result m v) ∈ s.clog
  cp : ∀ x, x ∈ s.completed → x ∈ s'.completed
  ow : s'.owner = s.owner
  ct : s'.counter = s.counter

theorem ResInv.sub {s s' : State} (h : ResInv s) (hs : ResSub s s') : ResInv s' := by
  refine ⟨fun i m v x => hs.cp _ (h.ob i m v (hs.ob i m v x)), fun i d m v x => ?_, fun m b x => ?_,
    fun c m v x => ?_, fun c m v x => ?_, fun m c x => ?_⟩
  · obtain ⟨a, b⟩ := h.oq i d m v (hs.oq i d m v x)
    exact ⟨hs.cp _ a, fun c hc => by rw [hs.ow]; exact b c hc⟩
  · obtain ⟨b0, hb0, ho, hr⟩ := hs.bx m b x
    obtain ⟨a, c⟩ := h.bx m b0 hb0
    exact ⟨by rw [hs.ow, ho]; exact a, fun v hv => hs.cp _ (c v (hr v hv))⟩
  · obtain ⟨a, b⟩ := h.tc c m v (hs.tc c m v x)
    exact ⟨hs.cp _ a, by rw [hs.ow]; exact b⟩
  · obtain ⟨a, b⟩ := h.cl c m v (hs.cl c m v x)
    exact ⟨hs.cp _ a, by rw [hs.ow]; exact b⟩
  · rw [hs.ow] at x; rw [hs.ct]; exact h.fresh m c x

theorem ResSub.refl (s : State) : ResSub s s :=
  ⟨fun _ _ _ x => x, fun _ _ _ _ x => x, fun m b x => ⟨b, x, rfl, fun _ y => y⟩, fun _ _ _ x => x,
   fun _ _ _ x => x, fun _ x => x, rfl, rfl⟩

theorem ResSub.trans {s s' s'' : State} (h : ResSub s s') (h' : ResSub s' s'') : ResSub s s'' := by
  refine ⟨fun i m v x => h.ob i m v (h'.ob i m v x), fun i d m v x => h.oq i d m v (h'.oq i d m v x),
    fun m b x => ?_, fun c m v x => h.tc c m v (h'.tc c m v x), fun c m v x => h.cl c m v (h'.cl c m v x),
    fun x y => h'.cp x (h.cp x y), by rw [h'.ow, h.ow], by rw [h'.ct, h.ct]⟩
  obtain ⟨b1, hb1, ho1, hr1⟩ := h'.bx m b x
  obtain ⟨b0, hb0, ho0, hr0⟩ := h.bx m b1 hb1
  exact ⟨b0, hb0, by rw [ho1, ho0], fun v hv => hr0 v (hr1 v hv)⟩

/-- only fields without results changed -/
theorem ResSub.of_eq {s s' : State} (h1 : s'.outbox = s.outbox) (h2 : s'.outq = s.outq)
    (h3 : s'.boxes = s.boxes) (h4 : s'.toClient = s.toClient) (h5 : s'.clog = s.clog)
    (h6 : s'.completed = s.completed) (h7 : s'.owner = s.owner) (h8 : s'.counter = s.counter) :
    ResSub s s' := by
  refine ⟨fun i m v x => by rw [← h1]; exact x, fun i d m v x => by rw [← h2]; exact x,
    fun m b x => ⟨b, by rw [← h3]; exact x, rfl, fun _ y => y⟩, fun c m v x => by rw [← h4]; exact x,
    fun c m v x => by rw [← h5]; exact x, fun x y => by rw [h6]; exact y, h7, h8⟩

/-! ### dictionary facts -/

theorem mem_of_getBox : ∀ (l : List (Nat × Box)) (m : Nat) (b : Box), getBox l m = some b → (m, b) ∈ l := by
  intro l
  induction l with
  | nil => intro m b h; cases h
  | cons x xs ih =>
    intro m b h
    obtain ⟨k, bk⟩ := x
    simp only [getBox] at h
    split at h
    · rename_i hk; subst hk
      simp only [Option.some.injEq] at h; subst h
      exact List.mem_cons_self
    · exact List.mem_cons_of_mem _ (ih m b h)

theorem mem_delBox {l : List (Nat × Box)} {m : Nat} {x : Nat × Box} (h : x ∈ delBox l m) : x ∈ l :=
  (List.mem_filter.mp h).1

theorem mem_setBox {l : List (Nat × Box)} {m : Nat} {b : Box} {x : Nat × Box} (h : x ∈ setBox l m b) :
    x = (m, b) ∨ x ∈ l := by
  unfold setBox at h
  rcases List.mem_cons.mp h with h | h
  · exact Or.inl h
  · exact Or.inr (mem_delBox h)

theorem result_mem_append_single {l : List Msg} {x : Msg} {m v : Nat}
    (h : Msg.result m v ∈ l ++ [x]) : Msg.result m v ∈ l ∨ x = Msg.result m v := by
  rcases List.mem_append.mp h with h | h
  · exact Or.inl h
  · simp only [List.mem_singleton] at h; exact Or.inr h.symm

/-! ### the model's functions against `ResSub` -/

theorem resSub_finishShutdown (s : State) (p : Nat) : ResSub s (finishShutdown s p) := by
  refine ⟨fun i m v x => ?_, fun i d m v x => ?_, fun m b x => ⟨b, x, rfl, fun _ y => y⟩,
    fun _ _ _ x => x, fun _ _ _ x => x, fun _ x => x, rfl, rfl⟩
  · simp only [finishShutdown] at x
    split at x
    · simp only [upd_apply] at x
      split at x
      · rename_i hi; subst hi
        rcases result_mem_append_single x with y | y
        · exact y
        · cases y
      · exact x
    · exact x
  · simp only [finishShutdown, upd_apply] at x
    split at x
    · cases x
    · exact x

theorem resSub_shutdownNode (t : Topo) (s : State) (p : Nat) : ResSub s (shutdownNode t s p) :=
  (ResSub.of_eq (s := s) (s' := baseShutdown t s p) rfl rfl rfl rfl rfl rfl rfl rfl).trans
    (resSub_finishShutdown _ p)

theorem resSub_systemError (t : Topo) (s : State) (p : Nat) : ResSub s (systemError t s p) := by
  have key : ∀ s1 : State, ResSub s s1 →
      ResSub s (shutdownNode t { s1 with syslog := upd s1.syslog p (s1.syslog p + 1) } p) :=
    fun s1 h1 => h1.trans ((ResSub.of_eq rfl rfl rfl rfl rfl rfl rfl rfl :
      ResSub s1 { s1 with syslog := upd s1.syslog p (s1.syslog p + 1) }).trans (resSub_shutdownNode t _ p))
  unfold systemError
  refine key _ ?_
  split
  · refine ⟨fun _ _ _ x => x, fun _ _ _ _ x => x, fun m b x => ⟨b, x, rfl, fun _ y => y⟩,
      fun c m v x => ?_, fun _ _ _ x => x, fun _ x => x, rfl, rfl⟩
    simp only at x
    split at x
    · rcases result_mem_append_single x with y | y
      · exact y
      · cases y
    · exact x
  · split
    · refine ⟨fun i m v x => ?_, fun _ _ _ _ x => x, fun m b x => ⟨b, x, rfl, fun _ y => y⟩,
        fun _ _ _ x => x, fun _ _ _ x => x, fun _ x => x, rfl, rfl⟩
      simp only [upd_apply] at x
      split at x
      · rename_i hi; subst hi
        rcases result_mem_append_single x with y | y
        · exact y
        · cases y
      · exact x
    · exact ResSub.refl s

/-- putting items that are not client-bound results -/
theorem resSub_put (s : State) (p : Nat) (items : List (Dest × Msg))
    (h : ∀ d m v, (d, Msg.result m v) ∉ items) : ResSub s (s.put p items) := by
  refine ⟨fun _ _ _ x => x, fun i d m v x => ?_, fun m b x => ⟨b, x, rfl, fun _ y => y⟩,
    fun _ _ _ x => x, fun _ _ _ x => x, fun _ x => x, rfl, rfl⟩
  simp only [State.put, upd_apply] at x
  split at x
  · rename_i hi; subst hi
    rcases List.mem_append.mp x with y | y
    · exact y
    · exact absurd y (h d m v)
  · exact x

theorem okEmits_no_result {em : List (Dest × Msg)} (h : okEmits em = true) :
    ∀ d m v, (d, Msg.result m v) ∉ em := by
  intro d m v hm
  unfold okEmits at h
  have := List.all_eq_true.mp h _ hm
  simp at this

/-- putting one result that is a recorded completion (towards its owner, if towards a client) -/
theorem ResInv.putResult {s : State} (h : ResInv s) (p : Nat) (d : Dest) (m v : Nat)
    (hc : (m, v) ∈ s.completed) (ho : ∀ c, d = Dest.client c → getOwner s.owner m = some c) :
    ResInv (s.put p [(d, .result m v)]) := by
  refine ⟨h.ob, fun i d' m' v' x => ?_, h.bx, h.tc, h.cl, h.fresh⟩
  simp only [State.put, upd_apply] at x
  split at x
  · rcases List.mem_append.mp x with y | y
    · exact h.oq _ d' m' v' y
    · simp only [List.mem_singleton, Prod.mk.injEq, Msg.result.injEq] at y
      obtain ⟨rfl, rfl, rfl⟩ := y
      exact ⟨hc, ho⟩
  · exact h.oq i d' m' v' x

theorem resSub_popOutbox (s : State) (e : Nat) (m : Msg) (rest : List Msg) (h : s.outbox e = m :: rest) :
    ResSub s { s with outbox := upd s.outbox e rest } := by
  refine ⟨fun i mm v x => ?_, fun _ _ _ _ x => x, fun m b x => ⟨b, x, rfl, fun _ y => y⟩,
    fun _ _ _ x => x, fun _ _ _ x => x, fun _ x => x, rfl, rfl⟩
  simp only [upd_apply] at x
  split at x
  · rename_i hi; subst hi; rw [h]; exact List.mem_cons_of_mem _ x
  · exact x

theorem resSub_clientGone (t : Topo) (s : State) (c : Nat) (em : List (Dest × Msg))
    (hem : okEmits em = true) : ResSub s (clientGone t s c em) := by
  unfold clientGone
  split
  · exact resSub_shutdownNode t s 0
  · refine ResSub.trans ?_ (resSub_put _ 0 em (okEmits_no_result hem))
    refine ⟨fun _ _ _ x => x, fun _ _ _ _ x => x, fun m b x => ⟨b, (List.mem_filter.mp x).1, rfl, fun _ y => y⟩,
      fun _ _ _ x => x, fun _ _ _ x => x, fun _ x => x, rfl, rfl⟩

theorem ResInv.handleResult {s : State} (h : ResInv s) (m v : Nat) (hc : (m, v) ∈ s.completed) :
    ResInv (handleResult s m v) := by
  unfold Crash.handleResult
  split
  · exact h
  · rename_i b hb
    have hmem := mem_of_getBox _ _ _ hb
    obtain ⟨hown, _⟩ := h.bx m b hmem
    split
    · have h1 : ResInv { s with boxes := delBox s.boxes m } :=
        h.sub ⟨fun _ _ _ x => x, fun _ _ _ _ x => x, fun m' b' x => ⟨b', mem_delBox x, rfl, fun _ y => y⟩,
          fun _ _ _ x => x, fun _ _ _ x => x, fun _ x => x, rfl, rfl⟩
      exact h1.putResult 0 (.client b.owner) m v hc (fun c hcc => by cases hcc; exact hown)
    · refine ⟨h.ob, h.oq, fun m' b' x => ?_, h.tc, h.cl, h.fresh⟩
      rcases mem_setBox x with y | y
      · simp only [Prod.mk.injEq] at y
        obtain ⟨rfl, rfl⟩ := y
        exact ⟨hown, fun v' hv' => by simp only [Option.some.injEq] at hv'; subst hv'; exact hc⟩
      · exact h.bx m' b' y

theorem ResInv.handleRequest {t : Topo} {s : State} (h : ResInv s) (c k : Nat) (em : List (Dest × Msg))
    (hem : okEmits em = true) : ResInv (handleRequest t s c k em) := by
  have hbad : ResInv (clientGone t { s with toClient := upd s.toClient c (s.toClient c ++ [.error]) } c em) := by
    refine (h.sub ?_).sub (resSub_clientGone t _ c em hem)
    refine ⟨fun _ _ _ x => x, fun _ _ _ _ x => x, fun m b x => ⟨b, x, rfl, fun _ y => y⟩,
      fun c' m v x => ?_, fun _ _ _ x => x, fun _ x => x, rfl, rfl⟩
    simp only [upd_apply] at x
    split at x
    · rename_i hi; subst hi
      rcases result_mem_append_single x with y | y
      · exact y
      · cases y
    · exact x
  unfold Crash.handleRequest
  simp only
  split
  · exact hbad
  · rename_i m _
    split
    · rename_i b hb
      have hmem := mem_of_getBox _ _ _ hb
      obtain ⟨hown, hres⟩ := h.bx m b hmem
      split
      · rename_i hoc
        split
        · rename_i v hv
          have h1 : ResInv { s with boxes := delBox s.boxes m } :=
            h.sub ⟨fun _ _ _ x => x, fun _ _ _ _ x => x,
              fun m' b' x => ⟨b', mem_delBox x, rfl, fun _ y => y⟩,
              fun _ _ _ x => x, fun _ _ _ x => x, fun _ x => x, rfl, rfl⟩
          exact h1.putResult 0 (.client c) m v (hres v hv)
            (fun c' hcc => by cases hcc; rw [← hoc]; exact hown)
        · refine ⟨h.ob, h.oq, fun m' b' x => ?_, h.tc, h.cl, h.fresh⟩
          rcases mem_setBox x with y | y
          · simp only [Prod.mk.injEq] at y
            obtain ⟨rfl, rfl⟩ := y
            exact ⟨hown, hres⟩
          · exact h.bx m' b' y
      · exact hbad
    · exact hbad

theorem getOwner_cons (l : List (Nat × Nat)) (k c m : Nat) :
    getOwner ((k, c) :: l) m = if k = m then some c else getOwner l m := rfl

theorem ResInv.handleSubmit {s : State} (h : ResInv s) (c k : Nat) (em : List (Dest × Msg))
    (hem : okEmits em = true) : ResInv (handleSubmit s c k em) := by
  unfold Crash.handleSubmit
  refine ResInv.sub ?_ (resSub_put _ 0 em (okEmits_no_result hem))
  have keep : ∀ m c', getOwner s.owner m = some c' → getOwner ((s.counter, c) :: s.owner) m = some c' := by
    intro m c' x
    have := h.fresh m c' x
    rw [getOwner_cons]
    have : ¬ s.counter = m := by omega
    simp [this, x]
  refine ⟨h.ob, fun i d m v x => ?_, fun m b x => ?_, fun c' m v x => ?_, fun c' m v x => ?_, fun m c' x => ?_⟩
  · obtain ⟨a, b⟩ := h.oq i d m v x
    exact ⟨a, fun c' hc' => keep m c' (b c' hc')⟩
  · rcases mem_setBox x with y | y
    · simp only [Prod.mk.injEq] at y
      obtain ⟨rfl, rfl⟩ := y
      refine ⟨by simp [getOwner_cons], fun v hv => by cases hv⟩
    · obtain ⟨a, b'⟩ := h.bx m b y
      exact ⟨keep m _ a, b'⟩
  · obtain ⟨a, b⟩ := h.tc c' m v x
    exact ⟨a, keep m c' b⟩
  · obtain ⟨a, b⟩ := h.cl c' m v x
    exact ⟨a, keep m c' b⟩
  · simp only [getOwner_cons] at x
    split at x
    · rename_i hk; subst hk; simp
    · have := h.fresh m c' x
      simp only; omega

theorem recvAll_returned : ∀ (l : List Msg) (tr : Option Msg) (eof : Bool) (r : Msg),
    recvAll l tr eof = .returned r → r ∈ l ∨ tr = some r := by
  intro l
  induction l with
  | nil =>
    intro tr eof r h
    cases tr <;> cases eof <;> simp [recvAll] at h
    exact Or.inr (by rw [h])
  | cons x xs ih =>
    intro tr eof r h
    cases x <;> simp only [recvAll] at h <;>
      first
      | cases h
      | (rcases ih _ _ _ h with y | y
         · exact Or.inl (List.mem_cons_of_mem _ y)
         · first
           | exact Or.inr y
           | (simp only [Option.some.injEq] at y; subst y; exact Or.inl List.mem_cons_self))

theorem resSub_fields {s s' : State} (h1 : s'.outbox = s.outbox) (h2 : s'.outq = s.outq)
    (h3 : s'.boxes = s.boxes) (h4 : s'.toClient = s.toClient) (h5 : s'.clog = s.clog)
    (h6 : s'.completed = s.completed) (h7 : s'.owner = s.owner) (h8 : s'.counter = s.counter) :
    ResSub s s' := ResSub.of_eq h1 h2 h3 h4 h5 h6 h7 h8

/-- every transition keeps `ResInv` -/
theorem step_resInv {t : Topo} {s s' : State} {l : Label} (hi : ResInv s)
    (h : step t s l = some s') : ResInv s' := by
  cases l with
  | crash n tr =>
    simp only [step, crash] at h
    split at h
    · cases h
    split at h <;> cases h
    · refine hi.sub ⟨fun i m v x => ?_, fun _ _ _ _ x => x, fun m b x => ⟨b, x, rfl, fun _ y => y⟩,
        fun _ _ _ x => x, fun _ _ _ x => x, fun _ x => x, rfl, rfl⟩
      simp only [upd_apply] at x
      split at x
      · rename_i hi'; subst hi'
        rcases result_mem_append_single x with y | y
        · exact y
        · cases y
      · exact x
    · exact hi.sub (ResSub.of_eq rfl rfl rfl rfl rfl rfl rfl rfl)
  | recvEmp p e em f =>
    simp only [step] at h
    unfold recvEmp at h
    split at h
    · cases h
    rename_i hg
    simp only [Bool.not_eq_true', Bool.not_eq_false, Bool.and_eq_true] at hg
    have hem := hg.2
    split at h
    · split at h
      · cases h
      split at h
      · cases h; exact hi.sub (resSub_systemError t _ p)
      split at h
      · cases h
        exact hi.sub (((ResSub.of_eq rfl rfl rfl rfl rfl rfl rfl rfl :
          ResSub s { s with downOpen := upd s.downOpen e false }).trans (resSub_shutdownNode t _ p)).trans
          (ResSub.of_eq rfl rfl rfl rfl rfl rfl rfl rfl))
      split at h
      · cases h; exact hi.sub (resSub_shutdownNode t s p)
      · cases h
        exact hi.sub ((ResSub.of_eq rfl rfl rfl rfl rfl rfl rfl rfl :
          ResSub s { s with downOpen := upd s.downOpen e false }).trans (resSub_shutdownNode t _ p))
    · rename_i m rest hout
      have hpop := resSub_popOutbox s e m rest hout
      have hi0 : ResInv { s with outbox := upd s.outbox e rest } := hi.sub hpop
      simp only at h
      split at h
      · split at h <;> cases h
        · exact hi0.sub (resSub_shutdownNode t _ p)
        · exact hi0.sub (resSub_put _ p _ (by intro d m v x; simp at x))
      · cases h; exact hi0.sub (resSub_systemError t _ p)
      · split at h <;> cases h
        · exact hi0.sub ((resSub_systemError t _ p).trans (ResSub.of_eq rfl rfl rfl rfl rfl rfl rfl rfl))
        · exact hi0.sub (resSub_put _ p _ (by intro d m v x; simp at x))
      · rename_i mm v
        have hc : (mm, v) ∈ s.completed := hi.ob e mm v (by rw [hout]; exact List.mem_cons_self)
        split at h <;> cases h
        · exact hi0.handleResult mm v hc
        · exact hi0.putResult p .up mm v hc (fun c x => by cases x)
      · split at h <;> cases h
        · exact hi0.sub (resSub_systemError t _ p)
        · exact hi0.sub (resSub_put _ p em (okEmits_no_result hem))
      · rename_i hns _ _ hnr _
        split at h <;> cases h
        · exact hi0.sub (resSub_systemError t _ p)
        · refine hi0.sub (resSub_put _ p _ ?_)
          intro d mm v x
          simp only [List.mem_singleton, Prod.mk.injEq] at x
          exact hnr mm v x.2.symm
  | recvUp n em f =>
    simp only [step] at h
    unfold recvUp at h
    split at h
    · cases h
    rename_i hg
    simp only [Bool.not_eq_true', Bool.not_eq_false, Bool.and_eq_true] at hg
    have hem := hg.2
    split at h
    · split at h
      · cases h
      split at h <;> cases h
      · exact hi.sub (resSub_systemError t _ n)
      exact hi.sub ((ResSub.of_eq rfl rfl rfl rfl rfl rfl rfl rfl :
        ResSub s { s with upOpen := upd s.upOpen n false }).trans (resSub_shutdownNode t _ n))
    · have hi0 : ResInv { s with inbox := upd s.inbox n ‹List Msg› } :=
        hi.sub (ResSub.of_eq rfl rfl rfl rfl rfl rfl rfl rfl)
      simp only at h
      split at h
      · cases h; exact hi0.sub (resSub_shutdownNode t _ n)
      · cases h; exact hi0.sub (resSub_systemError t _ n)
      · split at h <;> cases h
        · exact hi0.sub (resSub_systemError t _ n)
        · exact hi0.sub (resSub_put _ n em (okEmits_no_result hem))
  | recvClient c em f =>
    simp only [step] at h
    unfold recvClient at h
    split at h
    · cases h
    rename_i hg
    simp only [Bool.not_eq_true', Bool.not_eq_false, Bool.and_eq_true] at hg
    have hem := hg.2
    split at h
    · split at h <;> cases h
      exact hi.sub (resSub_clientGone t s c em hem)
    · have hi0 : ResInv { s with toServer := upd s.toServer c ‹List Msg› } :=
        hi.sub (ResSub.of_eq rfl rfl rfl rfl rfl rfl rfl rfl)
      simp only at h
      split at h
      · cases h; exact hi0.sub (resSub_clientGone t _ c em hem)
      · cases h; exact hi0.handleSubmit c _ em hem
      · cases h; exact hi0.handleRequest c _ em hem
      · split at h <;> cases h
        · exact hi0.sub (resSub_systemError t _ 0)
        · exact hi0.sub (resSub_put _ 0 em (okEmits_no_result hem))
      · cases h; exact hi0.sub (resSub_systemError t _ 0)
  | flush n =>
    simp only [step] at h
    unfold flush at h
    split at h
    · cases h
    split at h
    · cases h
    rename_i d m rest hq
    have hhead : (d, m) ∈ s.outq n := by rw [hq]; exact List.mem_cons_self
    have hsubq : ResSub s { s with outq := upd s.outq n rest } := by
      refine ⟨fun _ _ _ x => x, fun i d' m' v' x => ?_, fun m b x => ⟨b, x, rfl, fun _ y => y⟩,
        fun _ _ _ x => x, fun _ _ _ x => x, fun _ x => x, rfl, rfl⟩
      simp only [upd_apply] at x
      split at x
      · rename_i hi'; subst hi'; rw [hq]; exact List.mem_cons_of_mem _ x
      · exact x
    have hi0 := hi.sub hsubq
    simp only at h
    split at h
    · split at h
      · cases h
      split at h <;> cases h
      · refine ⟨fun i mm v x => ?_, hi0.oq, hi0.bx, hi0.tc, hi0.cl, hi0.fresh⟩
        simp only [upd_apply] at x
        split at x
        · rename_i hi'; subst hi'
          rcases result_mem_append_single x with y | y
          · exact hi.ob _ mm v y
          · subst y; exact (hi.oq _ _ mm v hhead).1
        · exact hi.ob i mm v x
      · exact hi0
    · split at h
      · cases h
      split at h <;> cases h
      · exact hi0.sub (ResSub.of_eq rfl rfl rfl rfl rfl rfl rfl rfl)
      · exact hi0
    · rename_i c
      split at h
      · cases h
      split at h <;> cases h
      · refine ⟨hi0.ob, hi0.oq, hi0.bx, fun c' mm v x => ?_, hi0.cl, hi0.fresh⟩
        simp only [upd_apply] at x
        split at x
        · rename_i hi'; subst hi'
          rcases result_mem_append_single x with y | y
          · exact hi.tc _ mm v y
          · subst y
            obtain ⟨a, b⟩ := hi.oq n _ mm v hhead
            exact ⟨a, b c' rfl⟩
        · exact hi.tc c' mm v x
      · exact hi0
  | flushDrop n =>
    simp only [step] at h
    unfold flushDrop at h
    split at h
    · cases h
    split at h
    · cases h
    rename_i d m rest hq
    split at h <;> cases h
    refine hi.sub ⟨fun _ _ _ x => x, fun i d' m' v' x => ?_, fun m b x => ⟨b, x, rfl, fun _ y => y⟩,
      fun _ _ _ x => x, fun _ _ _ x => x, fun _ x => x, rfl, rfl⟩
    simp only [upd_apply] at x
    split at x
    · rename_i hi'; subst hi'; rw [hq]; exact List.mem_cons_of_mem _ x
    · exact x
  | wsend w m =>
    simp only [step] at h
    unfold wsend at h
    split at h
    · cases h
    split at h <;> cases h
    · refine hi.sub ⟨fun i mm v x => ?_, fun _ _ _ _ x => x, fun m b x => ⟨b, x, rfl, fun _ y => y⟩,
        fun _ _ _ x => x, fun _ _ _ x => x, fun _ x => x, rfl, rfl⟩
      simp only [upd_apply] at x
      split at x
      · rename_i hi'; subst hi'
        rcases result_mem_append_single x with y | y
        · exact y
        · cases y
      · exact x
    · rename_i mm v
      refine ⟨fun i m' v' x => ?_, fun i d m' v' x => ?_, fun m' b x => ?_, fun c m' v' x => ?_,
        fun c m' v' x => ?_, hi.fresh⟩
      · simp only [upd_apply] at x
        split at x
        · rename_i hi'; subst hi'
          rcases result_mem_append_single x with y | y
          · exact List.mem_cons_of_mem _ (hi.ob _ m' v' y)
          · simp only [Msg.result.injEq] at y
            obtain ⟨rfl, rfl⟩ := y
            exact List.mem_cons_self
        · exact List.mem_cons_of_mem _ (hi.ob i m' v' x)
      · obtain ⟨a, b⟩ := hi.oq i d m' v' x
        exact ⟨List.mem_cons_of_mem _ a, b⟩
      · obtain ⟨a, b'⟩ := hi.bx m' b x
        exact ⟨a, fun v' hv' => List.mem_cons_of_mem _ (b' v' hv')⟩
      · obtain ⟨a, b⟩ := hi.tc c m' v' x
        exact ⟨List.mem_cons_of_mem _ a, b⟩
      · obtain ⟨a, b⟩ := hi.cl c m' v' x
        exact ⟨List.mem_cons_of_mem _ a, b⟩
    · refine hi.sub ⟨fun i mm v x => ?_, fun _ _ _ _ x => x, fun m b x => ⟨b, x, rfl, fun _ y => y⟩,
        fun _ _ _ x => x, fun _ _ _ x => x, fun _ x => x, rfl, rfl⟩
      simp only [upd_apply] at x
      split at x
      · rename_i hi'; subst hi'
        rcases result_mem_append_single x with y | y
        · exact y
        · cases y
      · exact x
  | wrecv w =>
    simp only [step] at h
    unfold wrecv at h
    split at h
    · cases h
    split at h
    · split at h <;> cases h
      exact hi.sub (ResSub.of_eq rfl rfl rfl rfl rfl rfl rfl rfl)
    · simp only at h
      split at h <;> cases h <;> exact hi.sub (ResSub.of_eq rfl rfl rfl rfl rfl rfl rfl rfl)
  | ccall c r =>
    simp only [step] at h
    unfold ccall at h
    split at h
    · cases h
    have clr : ∀ s1 : State, s1.outbox = s.outbox → s1.outq = s.outq → s1.boxes = s.boxes →
        s1.toClient = upd s.toClient c [] → (∀ c' m v, CEv.returned c' (.result m v) ∈ s1.clog →
          CEv.returned c' (.result m v) ∈ s.clog) → s1.completed = s.completed →
        s1.owner = s.owner → s1.counter = s.counter → ResSub s s1 := by
      intro s1 h1 h2 h3 h4 h5 h6 h7 h8
      refine ⟨fun i m v x => by rw [← h1]; exact x, fun i d m v x => by rw [← h2]; exact x,
        fun m b x => ⟨b, by rw [← h3]; exact x, rfl, fun _ y => y⟩, fun c' m v x => ?_, h5,
        fun x y => by rw [h6]; exact y, h7, h8⟩
      rw [h4] at x
      simp only [upd_apply] at x
      split at x
      · cases x
      · exact x
    split at h
    · cases h
      refine hi.sub ⟨fun _ _ _ x => x, fun _ _ _ _ x => x, fun m b x => ⟨b, x, rfl, fun _ y => y⟩,
        fun _ _ _ x => x, fun c' m v x => ?_, fun _ x => x, rfl, rfl⟩
      rcases List.mem_append.mp x with y | y
      · exact y
      · simp at y
    split at h <;> cases h
    · refine hi.sub (clr _ rfl rfl rfl rfl (fun c' m v x => ?_) rfl rfl rfl)
      rcases List.mem_append.mp x with y | y
      · exact y
      · simp at y
    · exact hi.sub (clr _ rfl rfl rfl rfl (fun _ _ _ x => x) rfl rfl rfl)
  | cwake c =>
    simp only [step] at h
    unfold cwake at h
    split at h
    · cases h
    split at h
    · cases h
    have clr : ∀ s1 : State, s1.outbox = s.outbox → s1.outq = s.outq → s1.boxes = s.boxes →
        s1.toClient = upd s.toClient c [] → (∀ c' m v, CEv.returned c' (.result m v) ∈ s1.clog →
          CEv.returned c' (.result m v) ∈ s.clog) → s1.completed = s.completed →
        s1.owner = s.owner → s1.counter = s.counter → ResSub s s1 := by
      intro s1 h1 h2 h3 h4 h5 h6 h7 h8
      refine ⟨fun i m v x => by rw [← h1]; exact x, fun i d m v x => by rw [← h2]; exact x,
        fun m b x => ⟨b, by rw [← h3]; exact x, rfl, fun _ y => y⟩, fun c' m v x => ?_, h5,
        fun x y => by rw [h6]; exact y, h7, h8⟩
      rw [h4] at x
      simp only [upd_apply] at x
      split at x
      · cases x
      · exact x
    split at h
    · cases h; exact hi.sub (clr _ rfl rfl rfl rfl (fun _ _ _ x => x) rfl rfl rfl)
    · cases h
      refine hi.sub (clr _ rfl rfl rfl rfl (fun c' m v x => ?_) rfl rfl rfl)
      rcases List.mem_append.mp x with y | y
      · exact y
      · simp at y
    · rename_i r hra
      cases h
      have hmem := recvAll_returned _ _ _ _ hra
      have hr : r ∈ s.toClient c := by
        rcases hmem with y | y
        · exact y
        · cases y
      have h0 : ResInv { s with toClient := upd s.toClient c [], cwait := upd s.cwait c false } :=
        hi.sub (clr _ rfl rfl rfl rfl (fun _ _ _ x => x) rfl rfl rfl)
      refine ⟨h0.ob, h0.oq, h0.bx, h0.tc, fun c' m v x => ?_, h0.fresh⟩
      rcases List.mem_append.mp x with y | y
      · exact hi.cl c' m v y
      · simp only [List.mem_singleton, CEv.returned.injEq] at y
        obtain ⟨rfl, rfl⟩ := y
        exact hi.tc c' m v hr

theorem run_resInv {t : Topo} : ∀ (ls : List Label) (s sf : State), ResInv s → run t s ls = some sf →
    ResInv sf := by
  intro ls
  induction ls with
  | nil => intro s sf hi h; simp only [run, Option.some.injEq] at h; subst h; exact hi
  | cons l ls ih =>
    intro s sf hi h
    simp only [run] at h
    cases hs : step t s l with
    | none => simp [hs] at h
    | some s1 => simp only [hs] at h; exact ih s1 sf (step_resInv hi hs) h

end BqVerif.Crash
