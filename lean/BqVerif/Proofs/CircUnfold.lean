import BqVerif.Proofs.CircHistory
import BqVerif.Proofs.CircQudit
import BqVerif.Model.CircBlocks
/-! `unfold` / `unfold_all` keep `Inv` when the block bodies are well-formed; the call language
extended with them (blocks table as a parameter). -/
namespace BqVerif.Circ

/-- a block body whose operations are well-shaped and stay inside the body's qudits -/
def BodyOk (body : Circ) : Prop :=
  ∀ o ∈ body.ops, o.loc ≠ [] ∧ o.loc.Nodup ∧ o.rad.length = o.loc.length ∧
    ∀ q ∈ o.loc, q < body.numQudits
def Blocks.Ok (b : Blocks) : Prop := ∀ gid body, b.body? gid = some body → BodyOk body

theorem mem_distribute (l : List Op) (ps : List Int) (x : Op) (h : x ∈ distribute l ps) :
    ∃ o ∈ l, x.loc = o.loc ∧ x.rad = o.rad ∧ x.gid = o.gid := by
  induction l generalizing ps with
  | nil => simp [distribute] at h
  | cons a t ih =>
    simp only [distribute, List.mem_cons] at h
    rcases h with rfl | h
    · exact ⟨a, by simp, rfl, rfl, rfl⟩
    · obtain ⟨o, ho, h1⟩ := ih _ h
      exact ⟨o, by simp [ho], h1⟩

theorem mem_setParams_go (l : List Cycle) (fl : List Op) :
    ∀ cy ∈ setParams.go l fl, ∀ x ∈ cy, x ∈ fl := by
  induction l generalizing fl with
  | nil => intro cy hcy; simp [setParams.go] at hcy
  | cons a t ih =>
    intro cy hcy x hx
    simp only [setParams.go, List.mem_cons] at hcy
    rcases hcy with rfl | hcy
    · exact List.mem_of_mem_take hx
    · exact List.mem_of_mem_drop (ih _ cy hcy x hx)

theorem mem_setParams_ops (body : Circ) (ps : List Int) (x : Op) (h : x ∈ (setParams body ps).ops) :
    ∃ o ∈ body.ops, x.loc = o.loc ∧ x.rad = o.rad ∧ x.gid = o.gid := by
  simp only [Circ.ops, setParams, List.mem_flatten] at h
  obtain ⟨cy, hcy, hx⟩ := h
  have := mem_setParams_go _ _ cy hcy x hx
  obtain ⟨o, ho, h1⟩ := mem_distribute _ _ x this
  exact ⟨o, (mem_iter body o).1 ho, h1⟩

theorem setParams_numQudits (body : Circ) (ps : List Int) :
    (setParams body ps).numQudits = body.numQudits := rfl

/-- relabelling a well-shaped body operation through a duplicate-free location of the right
length gives a well-shaped operation -/
theorem mapLoc_shape (o : Op) (loc : List Nat) (hne : o.loc ≠ []) (hnd : o.loc.Nodup)
    (hrl : o.rad.length = o.loc.length) (hlt : ∀ q ∈ o.loc, q < loc.length) (hl : loc.Nodup) :
    (o.mapLoc loc).Shape := by
  refine ⟨by simpa [Op.mapLoc] using hne, ?_, by simpa [Op.mapLoc] using hrl⟩
  simp only [Op.mapLoc]
  apply List.Nodup.map_on _ hnd
  intro a ha b hb hab
  have h1 := idxOf_getD_of_nodup loc a (hlt a ha) hl
  have h2 := idxOf_getD_of_nodup loc b (hlt b hb) hl
  rw [hab] at h1; omega

theorem setParams_shape (body : Circ) (hb : BodyOk body) (ps : List Int) (loc : List Nat)
    (hl : loc.Nodup) (hlen : loc.length = body.numQudits) :
    ∀ o ∈ (setParams body ps).ops, (o.mapLoc loc).Shape := by
  intro x hx
  obtain ⟨o, ho, h1, h2, _⟩ := mem_setParams_ops body ps x hx
  obtain ⟨w1, w2, w3, w4⟩ := hb o ho
  apply mapLoc_shape x loc (by rw [h1]; exact w1) (by rw [h1]; exact w2) (by rw [h1, h2]; exact w3)
    (by rw [h1, hlen]; exact w4) hl

/-- **unfold keeps the invariant** -/
theorem unfold_inv (c : Circ) (b : Blocks) (hb : b.Ok) (p : Int × Int) (hinv : c.Inv) :
    (c.unfold b p).1.Inv := by
  unfold Circ.unfold
  split
  · exact hinv
  · split
    · exact hinv
    · rename_i body hbody
      apply replaceWithCircuit_inv c _ p hinv
      intro loc hl hlen
      exact setParams_shape body (hb _ body hbody) _ loc hl hlen

theorem unfold_radixes (c : Circ) (b : Blocks) (p : Int × Int) :
    (c.unfold b p).1.radixes = c.radixes := by
  unfold Circ.unfold
  split
  · rfl
  · split
    · rfl
    · exact step_radixes c (.replaceWithCircuit p _)

theorem mem_ops_wf (c : Circ) (hinv : c.Inv) (o : Op) (h : o ∈ c.ops) :
    o.WF c.numQudits c.radixes := by
  simp only [Circ.ops, List.mem_flatten] at h
  obtain ⟨cy, hcy, ho⟩ := h
  exact hinv.2.2 cy hcy o ho

/-- one rebuild round of `unfold_all` -/
theorem unfoldRound_inv (c : Circ) (b : Blocks) (hb : b.Ok) (hinv : c.Inv) :
    (c.unfoldRound b).Inv ∧ (c.unfoldRound b).radixes = c.radixes := by
  unfold Circ.unfoldRound
  have key : ∀ (l : List Op) (acc : Circ), (∀ o ∈ l, o.WF c.numQudits c.radixes) →
      acc.Inv → acc.radixes = c.radixes →
      (l.foldl (fun acc o =>
        match b.body? o.gid with
        | some body => (acc.appendCircuit (setParams body o.par) o.loc).1
        | none => (acc.appendCore o).1) acc).Inv ∧
      (l.foldl (fun acc o =>
        match b.body? o.gid with
        | some body => (acc.appendCircuit (setParams body o.par) o.loc).1
        | none => (acc.appendCore o).1) acc).radixes = c.radixes := by
    intro l
    induction l with
    | nil => intro acc _ h1 h2; exact ⟨h1, h2⟩
    | cons a t ih =>
      intro acc hl h1 h2
      simp only [List.foldl_cons]
      have hwf := hl a (by simp)
      apply ih _ (fun o ho => hl o (by simp [ho]))
      · cases hbody : b.body? a.gid with
        | none =>
          dsimp only
          apply appendCore_inv acc a h1
          simpa [Circ.numQudits, h2] using hwf
        | some body =>
          dsimp only
          by_cases hlen : (setParams body a.par).numQudits = a.loc.length
          · apply appendCircuit_inv acc _ a.loc h1
            exact setParams_shape body (hb _ body hbody) _ a.loc hwf.2.1 hlen.symm
          · unfold Circ.appendCircuit
            have : ((setParams body a.par).numQudits != a.loc.length) = true := by
              simpa using hlen
            rw [if_pos this]; exact h1
      · cases hbody : b.body? a.gid with
        | none => dsimp only; rw [appendCore_radixes]; exact h2
        | some body => dsimp only; rw [appendCircuit_radixes]; exact h2
  apply key
  · intro o ho; exact mem_ops_wf c hinv o ((mem_iter c o).1 ho)
  · exact ⟨by simp, by simp, by simp⟩
  · rfl

/-- **unfold_all keeps the invariant** (any number of rounds) -/
theorem unfoldAll_inv (c : Circ) (b : Blocks) (hb : b.Ok) (fuel : Nat) (hinv : c.Inv) :
    (c.unfoldAll b fuel).Inv ∧ (c.unfoldAll b fuel).radixes = c.radixes := by
  induction fuel generalizing c with
  | zero => exact ⟨hinv, rfl⟩
  | succ fuel ih =>
    unfold Circ.unfoldAll
    split
    · obtain ⟨h1, h2⟩ := unfoldRound_inv c b hb hinv
      obtain ⟨h3, h4⟩ := ih (c.unfoldRound b) h1
      exact ⟨h3, by rw [h4, h2]⟩
    · exact ⟨hinv, rfl⟩

/-! ## the call language with blocks -/
inductive CallB where
  | base (call : Call)
  | unfold (p : Int × Int)
  | unfoldAll (fuel : Nat)

def Circ.stepB (b : Blocks) (c : Circ) : CallB → Circ
  | .base call => c.step call
  | .unfold p => (c.unfold b p).1
  | .unfoldAll fuel => c.unfoldAll b fuel

def Circ.runB (b : Blocks) (c : Circ) (h : List CallB) : Circ := h.foldl (Circ.stepB b) c

def CallB.Ok (radixes : List Nat) : CallB → Prop
  | .base call => call.Ok radixes
  | .unfold _ => True
  | .unfoldAll _ => True

theorem stepB_inv (b : Blocks) (hb : b.Ok) (c : Circ) (call : CallB) (hinv : c.Inv)
    (hok : call.Ok c.radixes) :
    (c.stepB b call).Inv ∧ (c.stepB b call).radixes = c.radixes := by
  cases call with
  | base call => exact ⟨step_inv c call hinv hok, step_radixes c call⟩
  | unfold p => exact ⟨unfold_inv c b hb p hinv, unfold_radixes c b p⟩
  | unfoldAll fuel => exact unfoldAll_inv c b hb fuel hinv

theorem runB_inv (b : Blocks) (hb : b.Ok) (c : Circ) (h : List CallB) (hinv : c.Inv)
    (hok : ∀ call ∈ h, call.Ok c.radixes) :
    (c.runB b h).Inv ∧ (c.runB b h).radixes = c.radixes := by
  induction h generalizing c with
  | nil => exact ⟨hinv, rfl⟩
  | cons a t ih =>
    simp only [Circ.runB, List.foldl_cons]
    obtain ⟨h1, h2⟩ := stepB_inv b hb c a hinv (hok a (by simp))
    have := ih (c.stepB b a) h1 (by
      intro call hc
      rw [h2]; exact hok call (by simp [hc]))
    exact ⟨this.1, by rw [← h2]; exact this.2⟩

end BqVerif.Circ
