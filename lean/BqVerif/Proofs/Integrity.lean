import BqVerif.Proofs.StartOnce
/-!
# Result integrity, worker level

Every value stored in a mailbox slot was returned (event `ret a _ v`) by a task whose return
address is that mailbox (and, for `map` mailboxes, that very slot).
-/
namespace BqVerif.Runtime

/-- the history contains the event "the task with address `a` returned `v`" -/
def RetIn (H : List Ev) (a : Addr) (v : Val) : Prop := ∃ tag, Ev.ret a tag v ∈ H

theorem RetIn.mono {H H' : List Ev} {a : Addr} {v : Val} (h : RetIn H a v) (hs : ∀ e ∈ H, e ∈ H') :
    RetIn H' a v := by
  obtain ⟨tag, ht⟩ := h
  exact ⟨tag, hs _ ht⟩

/-- slot `s` of the box holds `v` -/
def Box.has (b : Box) (s : Nat) (v : Val) : Prop := b.slots[s]? = some (some v)

/-- every filled slot holds a value returned by a task addressed to this mailbox / slot -/
def WFilled (H : List Ev) (w : Worker) : Prop :=
  ∀ m b, (m, b) ∈ w.boxes → ∀ s v, b.has s v →
    ∃ s', RetIn H ⟨w.id, m, s'⟩ v ∧ (b.single = false → s' = s)

/-- every box of `w'` is empty or has the slots of a box of `w` with the same id -/
structure BoxesFrom (w w' : Worker) : Prop where
  id : w'.id = w.id
  from_ : ∀ m b', (m, b') ∈ w'.boxes →
    (∀ s v, ¬ b'.has s v) ∨ ∃ b, (m, b) ∈ w.boxes ∧ b.slots = b'.slots ∧ b.single = b'.single

theorem BoxesFrom.refl (w : Worker) : BoxesFrom w w :=
  ⟨rfl, fun m b hb => Or.inr ⟨b, hb, rfl, rfl⟩⟩

theorem BoxesFrom.trans {a b c : Worker} (h1 : BoxesFrom a b) (h2 : BoxesFrom b c) : BoxesFrom a c := by
  refine ⟨by rw [h2.id, h1.id], ?_⟩
  intro m x hx
  rcases h2.from_ m x hx with he | ⟨y, hy, e1, e2⟩
  · exact Or.inl he
  · rcases h1.from_ m y hy with he | ⟨z, hz, f1, f2⟩
    · left
      intro s v hv
      apply he s v
      simp only [Box.has] at hv ⊢
      rw [e1]; exact hv
    · exact Or.inr ⟨z, hz, by rw [f1, e1], by rw [f2, e2]⟩

theorem WFilled.of_from {H : List Ev} {w w' : Worker} (h : WFilled H w) (hf : BoxesFrom w w') :
    WFilled H w' := by
  intro m b' hb' s v hv
  rcases hf.from_ m b' hb' with he | ⟨b, hb, e1, e2⟩
  · exact absurd hv (he s v)
  · have hv' : b.has s v := by simp only [Box.has] at hv ⊢; rw [e1]; exact hv
    obtain ⟨s', hr, hs⟩ := h m b hb s v hv'
    refine ⟨s', ?_, ?_⟩
    · rw [hf.id]; exact hr
    · intro hsg; exact hs (by rw [e2]; exact hsg)

theorem WFilled.mono {H H' : List Ev} {w : Worker} (h : WFilled H w) (hs : ∀ e ∈ H, e ∈ H') :
    WFilled H' w := by
  intro m b hb s v hv
  obtain ⟨s', hr, hs'⟩ := h m b hb s v hv
  exact ⟨s', hr.mono hs, hs'⟩

-- ------------------------------------------------------------ table lemmas
theorem boxGet_mem (bs : List (Nat × Box)) (m : Nat) (b : Box) (h : boxGet bs m = some b) : (m, b) ∈ bs := by
  induction bs with
  | nil => simp [boxGet] at h
  | cons p t ih =>
    obtain ⟨k, x⟩ := p
    simp only [boxGet] at h
    by_cases hk : k = m
    · simp only [hk, if_true, Option.some.injEq] at h
      subst h; subst hk; exact List.mem_cons_self
    · simp only [hk, if_false] at h
      exact List.mem_cons_of_mem _ (ih h)

theorem mem_boxSet (bs : List (Nat × Box)) (k : Nat) (nb : Box) (m : Nat) (b : Box)
    (h : (m, b) ∈ boxSet bs k nb) : (m, b) ∈ bs ∨ (m = k ∧ b = nb) := by
  induction bs with
  | nil =>
    simp only [boxSet, List.mem_singleton, Prod.mk.injEq] at h
    exact Or.inr h
  | cons p t ih =>
    obtain ⟨x, y⟩ := p
    simp only [boxSet] at h
    by_cases hx : x = k
    · simp only [hx, if_true, List.mem_cons, Prod.mk.injEq] at h
      rcases h with ⟨h1, h2⟩ | h
      · exact Or.inr ⟨h1, h2⟩
      · exact Or.inl (List.mem_cons_of_mem _ h)
    · simp only [hx, if_false, List.mem_cons] at h
      rcases h with h | h
      · exact Or.inl (by rw [h]; exact List.mem_cons_self)
      · rcases ih h with h | h
        · exact Or.inl (List.mem_cons_of_mem _ h)
        · exact Or.inr h

theorem mem_boxErase (bs : List (Nat × Box)) (k m : Nat) (b : Box) (h : (m, b) ∈ boxErase bs k) :
    (m, b) ∈ bs := (List.mem_filter.mp h).1

theorem mem_eraseBoxes (bs : List (Nat × Box)) (ks : List Nat) (m : Nat) (b : Box)
    (h : (m, b) ∈ eraseBoxes bs ks) : (m, b) ∈ bs := (List.mem_filter.mp h).1

/-- replacing a box by one with the same slots (flags changed) -/
theorem from_boxSet_same (w : Worker) (k : Nat) (b nb : Box) (hb : boxGet w.boxes k = some b)
    (e1 : b.slots = nb.slots) (e2 : b.single = nb.single) (w' : Worker)
    (hid : w'.id = w.id) (hbx : w'.boxes = boxSet w.boxes k nb) : BoxesFrom w w' := by
  refine ⟨hid, ?_⟩
  intro m x hx
  rw [hbx] at hx
  rcases mem_boxSet _ _ _ _ _ hx with h | ⟨rfl, rfl⟩
  · exact Or.inr ⟨x, h, rfl, rfl⟩
  · exact Or.inr ⟨b, boxGet_mem _ _ _ hb, e1, e2⟩

theorem from_sub (w w' : Worker) (hid : w'.id = w.id) (h : ∀ m b, (m, b) ∈ w'.boxes → (m, b) ∈ w.boxes) :
    BoxesFrom w w' :=
  ⟨hid, fun m b hb => Or.inr ⟨b, h m b hb, rfl, rfl⟩⟩

theorem new_box_empty (n : Option Nat) : ∀ s v, ¬ (Box.new n).has s v := by
  intro s v h
  cases n with
  | none => simp [Box.new, Box.has] at h
  | some k =>
    simp only [Box.new, Box.has] at h
    have : (List.replicate k (none : Option Val))[s]? = some (some v) := h
    rw [List.getElem?_replicate] at this
    split at this <;> simp at this

theorem from_newBox (w : Worker) (n : Option Nat) :
    BoxesFrom w { w with counter := w.counter + 1, boxes := w.boxes ++ [(w.counter, Box.new n)] } := by
  refine ⟨rfl, ?_⟩
  intro m b hb
  simp only [List.mem_append, List.mem_singleton, Prod.mk.injEq] at hb
  rcases hb with hb | ⟨_, rfl⟩
  · exact Or.inr ⟨b, hb, rfl, rfl⟩
  · exact Or.inl (new_box_empty n)


-- ------------------------------------------------------------- handleResult
theorem deposit_has (b : Box) (slot : Nat) (v : Val) (s : Nat) (x : Val)
    (h : (b.deposit slot v).has s x) :
    (x = v ∧ (b.single = false → s = slot)) ∨ (b.has s x ∧ b.single = false) := by
  simp only [Box.deposit, Box.has] at h
  cases hs : b.single with
  | true =>
    simp only [hs, if_true] at h
    left
    cases s with
    | zero =>
      simp only [List.getElem?_cons_zero, Option.some.injEq] at h
      exact ⟨h.symm, fun e => by simp at e⟩
    | succ k => simp at h
  | false =>
    simp only [hs, Bool.false_eq_true, if_false] at h
    by_cases e : s = slot
    · subst e
      left
      have h2 : (b.slots.set s (some v))[s]? = if s < b.slots.length then some (some v) else none := by
        rw [List.getElem?_set]; simp
      rw [h2] at h
      split at h
      · simp only [Option.some.injEq] at h; exact ⟨h.symm, fun _ => rfl⟩
      · simp at h
    · right
      rw [List.getElem?_set_ne (fun e' => e e'.symm)] at h
      exact ⟨h, rfl⟩

theorem handleResult_filled {H H' : List Ev} (w : Worker) (a : Addr) (v : Val)
    (hW : WFilled H w) (hs : ∀ e ∈ H, e ∈ H') (hr : RetIn H' a v) :
    WFilled H' (w.handleResult a v) := by
  have hW' := hW.mono hs
  unfold Worker.handleResult
  split
  · exact hW'
  · rename_i haw
    have haw' : a.w = w.id := by simpa using haw
    split
    · exact hW'
    · rename_i b hb
      have key : ∀ (nb : Box), nb.slots = (b.deposit a.s v).slots → nb.single = b.single →
          ∀ (w' : Worker), w'.id = w.id → w'.boxes = boxSet w.boxes a.m nb → WFilled H' w' := by
        intro nb e1 e2 w' hid hbx m x hx s y hy
        rw [hbx] at hx
        rcases mem_boxSet _ _ _ _ _ hx with h | ⟨rfl, rfl⟩
        · obtain ⟨s', h1, h2⟩ := hW' m x h s y hy
          exact ⟨s', by rw [hid]; exact h1, h2⟩
        · have hy' : (b.deposit a.s v).has s y := by
            simp only [Box.has] at hy ⊢; rw [← e1]; exact hy
          rcases deposit_has b a.s v s y hy' with ⟨rfl, hsl⟩ | ⟨hold, hsg⟩
          · refine ⟨a.s, ?_, ?_⟩
            · rw [hid, ← haw']; exact hr
            · intro hsg; rw [e2] at hsg; exact (hsl hsg).symm
          · obtain ⟨s', h1, h2⟩ := hW' a.m b (boxGet_mem _ _ _ hb) s y hold
            exact ⟨s', by rw [hid]; exact h1, fun _ => h2 hsg⟩
      dsimp only
      split
      · exact key (b.deposit a.s v) rfl rfl _ rfl rfl
      · split
        · exact key (b.deposit a.s v) rfl rfl _ rfl rfl
        · split
          · exact key { (b.deposit a.s v) with dest := none } rfl rfl _ rfl rfl
          · exact key (b.deposit a.s v) rfl rfl _ rfl rfl

-- ------------------------------------------------------- box-preserving functions
theorem handleCancel_from (w : Worker) (a : Addr) : BoxesFrom w (w.handleCancel a) :=
  from_sub _ _ rfl (fun m b hb => mem_eraseBoxes _ _ _ _ hb)

theorem recv_filled {H : List Ev} (w : Worker) (m : Msg) (hW : WFilled H w)
    (hm : ∀ a v b, m = .result a v b → RetIn H a v) : WFilled H (w.recv m) := by
  have same : ∀ w' : Worker, w'.id = w.id → w'.boxes = w.boxes → WFilled H w' :=
    fun w' h1 h2 => hW.of_from (from_sub _ _ h1 (fun _ _ h => by rw [h2] at h; exact h))
  cases m with
  | shutdown => exact same _ rfl rfl
  | eof => exact same _ rfl rfl
  | submit t => exact same _ rfl rfl
  | batch ts =>
    simp only [Worker.recv]
    split
    · exact same _ rfl rfl
    · exact same _ rfl rfl
  | result a v b => exact handleResult_filled w a v hW (fun _ h => h) (hm a v b rfl)
  | cancel a =>
    simp only [Worker.recv]
    split
    · exact hW.of_from ((handleCancel_from w a).trans (from_sub _ _ rfl (fun _ _ h => h)))
    · exact hW.of_from (handleCancel_from w a)
  | _ => exact hW

theorem pick_from (fuel : Nat) (w : Worker) : BoxesFrom w (Worker.pick fuel w).w := by
  induction fuel generalizing w with
  | zero => exact BoxesFrom.refl w
  | succ n ih =>
    simp only [Worker.pick]
    split
    · split
      · refine BoxesFrom.trans ?_ (ih _)
        exact from_sub _ _ rfl (fun _ _ h => h)
      · exact from_sub _ _ rfl (fun _ _ h => h)
    · rename_i a rest _
      have h0 : BoxesFrom w { w with ready := rest } := from_sub _ _ rfl (fun _ _ h => h)
      split
      · exact h0.trans (ih _)
      · split
        · exact h0.trans (ih _)
        · split
          · refine (h0.trans ?_).trans (ih _)
            exact from_sub _ _ rfl (fun _ _ h => h)
          · exact h0

theorem desiredResult_from (w w' : Worker) (t t' : Task) (v : Option Val)
    (h : desiredResult w t = .ok (w', t', v)) : BoxesFrom w w' := by
  unfold desiredResult at h
  split at h
  · simp only [Except.ok.injEq, Prod.mk.injEq] at h; rw [← h.1]; exact BoxesFrom.refl w
  · split at h
    · simp at h
    · rename_i _ m _ _ b hb
      split at h
      · split at h
        · simp at h
        · simp only [Except.ok.injEq, Prod.mk.injEq] at h
          rw [← h.1]
          exact from_boxSet_same w m b { b with fresh := some [] } hb rfl rfl _ rfl rfl
      · split at h
        · simp at h
        · split at h
          · simp at h
          · simp only [Except.ok.injEq, Prod.mk.injEq] at h
            rw [← h.1]
            exact from_sub _ _ rfl (fun _ _ hx => mem_boxErase _ _ _ _ hx)

theorem cancelBox_from (r : Run) (m : Nat) (b : Box) : BoxesFrom r.w (r.cancelBox m b).w :=
  from_sub _ _ rfl (fun _ _ hx => mem_boxErase _ _ _ _ hx)

theorem runBody_from (tbl : Table) (fuel : Nat) (r : Run) (w0 : Worker) (h : BoxesFrom w0 r.w) :
    BoxesFrom w0 (runBody tbl fuel r).1.w := by
  induction fuel generalizing r with
  | zero => exact h
  | succ n ih =>
    simp only [runBody]
    split
    · apply ih; exact h.trans (from_newBox r.w none)
    · split
      · exact h
      · rename_i ps _ _
        apply ih; exact h.trans (from_newBox r.w (some ps.length))
    · split <;> exact h
    · split
      · exact h
      · split <;> exact h
    · split
      · exact h
      · split
        · exact h
        · split
          · exact h
          · apply ih
            exact h.trans (from_sub _ _ rfl (fun _ _ hx => mem_boxErase _ _ _ _ hx))
    · exact h
    · exact h

/-- what `runBody` reports when the body returns: the `ret` event of the active task -/
theorem runBody_done (tbl : Table) (fuel : Nat) (r : Run) (v : Val) (a : Addr) (ha : r.t.addr = a)
    (h : (runBody tbl fuel r).2 = .done v) :
    (∃ tag, Ev.ret a tag v ∈ (runBody tbl fuel r).1.evs) ∧ (runBody tbl fuel r).1.t.addr = a := by
  induction fuel generalizing r with
  | zero => simp [runBody] at h
  | succ n ih =>
    revert h
    simp only [runBody]
    split
    · intro h; exact ih _ (by exact ha) h
    · split
      · intro h; simp at h
      · intro h; exact ih _ (by exact ha) h
    · split <;> (intro h; simp at h)
    · split
      · intro h; simp at h
      · split <;> (intro h; simp at h)
    · split
      · intro h; simp at h
      · split
        · intro h; simp at h
        · split
          · intro h; simp at h
          · intro h; exact ih _ (by exact ha) h
    · intro h; simp at h
    · intro h
      simp only [Outcome.done.injEq] at h
      subst h
      exact ⟨⟨r.t.tag, by rw [← ha]; simp⟩, ha⟩


-- ------------------------------------------------------------ out messages
/-- every RESULT message carries a value the addressed task returned -/
def ResOK (K : List Ev) (out : List Msg) : Prop := ∀ a v b, Msg.result a v b ∈ out → RetIn K a v

theorem ResOK.mono {K K' : List Ev} {out : List Msg} (h : ResOK K out) (hs : ∀ e ∈ K, e ∈ K') :
    ResOK K' out := fun a v b hm => (h a v b hm).mono hs

theorem ResOK.append_noresult {K : List Ev} {out extra : List Msg} (h : ResOK K out)
    (hx : ∀ a v b, Msg.result a v b ∉ extra) : ResOK K (out ++ extra) := by
  intro a v b hm
  rcases List.mem_append.mp hm with hm | hm
  · exact h a v b hm
  · exact absurd hm (hx a v b)

theorem pick_out_noresult (fuel : Nat) (w : Worker) : ∀ a v b, Msg.result a v b ∉ (Worker.pick fuel w).out := by
  induction fuel generalizing w with
  | zero => intro a v b h; simp [Worker.pick] at h
  | succ n ih =>
    simp only [Worker.pick]
    split
    · split
      · exact ih _
      · intro a v b h; simp at h
    · split
      · exact ih _
      · split
        · exact ih _
        · split
          · exact ih _
          · intro a v b h; simp at h

theorem runBody_out (tbl : Table) (fuel : Nat) (r : Run) (K : List Ev) (h : ResOK K r.out) :
    ResOK K (runBody tbl fuel r).1.out := by
  induction fuel generalizing r with
  | zero => exact h
  | succ n ih =>
    simp only [runBody]
    split
    · apply ih; exact h.append_noresult (by intro a v b hm; simp at hm)
    · split
      · exact h
      · apply ih; exact h.append_noresult (by intro a v b hm; simp at hm)
    · split <;> exact h
    · split
      · exact h
      · split <;> exact h
    · split
      · exact h
      · split
        · exact h
        · split
          · exact h
          · apply ih
            exact h.append_noresult (by
              intro a v b hm
              simp only [List.mem_map] at hm
              obtain ⟨i, _, hi⟩ := hm
              simp at hi)
    · exact h
    · exact h

theorem completionLoop_integrity (K : List Ev) (ms : List Nat) (r : Run) (hW : WFilled K r.w)
    (hout : ResOK K r.out) :
    WFilled K (completionLoop ms r).1.w ∧ ResOK K (completionLoop ms r).1.out := by
  induction ms generalizing r with
  | nil => exact ⟨hW, hout⟩
  | cons m ms ih =>
    simp only [completionLoop]
    split
    · split
      · apply ih
        · exact hW.of_from (from_sub _ _ rfl (fun _ _ hx => mem_boxErase _ _ _ _ hx))
        · exact hout
      · apply ih
        · exact hW.of_from (cancelBox_from _ _ _)
        · exact hout.append_noresult (by
            intro a v b hm
            simp only [List.mem_map] at hm
            obtain ⟨i, _, hi⟩ := hm
            simp at hi)
    · exact ⟨hW, hout⟩

theorem finishStep_evs (r : Run) (oc : Outcome) : (finishStep r oc).evs = r.evs := by
  cases oc with
  | awaitF m nxt =>
    simp only [finishStep]
    split
    · rename_i r1 hpa; exact (processAwait_U _ _ _ _ hpa).2.2.2.2.2
    · split <;> rfl
  | done v =>
    have : (processCompletion r v).1.evs = r.evs := by
      unfold processCompletion
      split
      · rfl
      · rw [(completionLoop_U ⟨0, 0, 0⟩ _ _).2.2.2]
        unfold completionEnter; split <;> rfl
    simp only [finishStep]
    split <;> exact this
  | err cls isRt =>
    simp only [finishStep, bubbleErr]
    split <;> rfl

/-- after the coroutine stopped -/
theorem finishStep_integrity (K : List Ev) (r : Run) (oc : Outcome) (hW : WFilled K r.w)
    (hout : ResOK K r.out) (hd : ∀ v, oc = .done v → RetIn K r.t.addr v) :
    WFilled K (finishStep r oc).w ∧ ResOK K (finishStep r oc).out := by
  cases oc with
  | awaitF m nxt =>
    simp only [finishStep]
    split
    · rename_i r1 hpa
      obtain ⟨_, _, h3, _, _, _⟩ := processAwait_U _ _ _ _ hpa
      refine ⟨?_, by rw [h3]; exact hout⟩
      -- processAwait only sets `dest` of an existing box
      have hf : BoxesFrom r.w r1.w := by
        unfold processAwait at hpa
        split at hpa
        · simp at hpa
        · rename_i b hb
          simp only [Option.some.injEq] at hpa
          rw [← hpa]
          dsimp only
          split
          · exact from_boxSet_same r.w m b { b with dest := some r.t.addr } hb rfl rfl _ rfl rfl
          · exact from_boxSet_same r.w m b { b with dest := some r.t.addr } hb rfl rfl _ rfl rfl
      exact (hW.of_from hf).of_from (from_sub _ _ rfl (fun _ _ h => h))
    · split
      · exact ⟨hW.of_from (from_sub _ _ rfl (fun _ _ h => h)), hout⟩
      · exact ⟨hW.of_from (from_sub _ _ rfl (fun _ _ h => h)),
          hout.append_noresult (by intro a v b hm; simp at hm)⟩
  | done v =>
    have hr := hd v rfl
    have key : WFilled K (processCompletion r v).1.w ∧ ResOK K (processCompletion r v).1.out := by
      unfold processCompletion
      split
      · exact ⟨hW, hout⟩
      · apply completionLoop_integrity
        · unfold completionEnter
          split
          · exact (handleResult_filled r.w r.t.addr v hW (fun _ h => h) hr).of_from
              (from_sub _ _ rfl (fun _ _ h => h))
          · exact hW.of_from (from_sub _ _ rfl (fun _ _ h => h))
        · unfold completionEnter
          split
          · exact hout.append_noresult (by intro a v b hm; simp at hm)
          · intro a x b hm
            rcases List.mem_append.mp hm with hm | hm
            · exact hout a x b hm
            · simp only [List.mem_singleton, Msg.result.injEq] at hm
              obtain ⟨rfl, rfl, _⟩ := hm
              exact hr
    simp only [finishStep]
    split
    · exact ⟨key.1.of_from (from_sub _ _ rfl (fun _ _ h => h)),
        key.2.append_noresult (by intro a v b hm; simp at hm)⟩
    · exact key
  | err cls isRt =>
    simp only [finishStep, bubbleErr]
    split
    · exact ⟨hW.of_from (from_sub _ _ rfl (fun _ _ h => h)), hout⟩
    · exact ⟨hW.of_from (from_sub _ _ rfl (fun _ _ h => h)),
        hout.append_noresult (by intro a v b hm; simp at hm)⟩

theorem stepTask_integrity (H : List Ev) (tbl : Table) (w : Worker) (out : List Msg) (t0 : Task)
    (hW : WFilled H w) (hout : ∀ a v b, Msg.result a v b ∉ out) :
    WFilled (H ++ (stepTask tbl w out t0).evs) (stepTask tbl w out t0).w
    ∧ ResOK (H ++ (stepTask tbl w out t0).evs) (stepTask tbl w out t0).out := by
  unfold stepTask
  split
  · refine ⟨hW.mono (fun e he => List.mem_append_left _ he), ?_⟩
    intro a v b hm
    rcases List.mem_append.mp hm with hm | hm
    · exact absurd hm (hout a v b)
    · simp at hm
  · rename_i w1 t1 val hd
    have hf1 := desiredResult_from _ _ _ _ _ hd
    split
    · simp only [bubbleErr]
      split
      · refine ⟨(hW.of_from (hf1.trans (from_sub _ _ rfl (fun _ _ h => h)))).mono
          (fun e he => List.mem_append_left _ he), ?_⟩
        intro a v b hm; exact absurd hm (hout a v b)
      · refine ⟨(hW.of_from (hf1.trans (from_sub _ _ rfl (fun _ _ h => h)))).mono
          (fun e he => List.mem_append_left _ he), ?_⟩
        intro a v b hm
        rcases List.mem_append.mp hm with hm | hm
        · exact absurd hm (hout a v b)
        · simp at hm
    · dsimp only
      rw [finishStep_evs]
      have hrb_from := runBody_from tbl ((tbl.getD t1.prog []).length + 2)
        { w := w1, t := (resume tbl t1 val).1, out := out, evs := (resume tbl t1 val).2 } w hf1
      have hKW : WFilled (H ++ (runBody tbl ((tbl.getD t1.prog []).length + 2)
          { w := w1, t := (resume tbl t1 val).1, out := out, evs := (resume tbl t1 val).2 }).1.evs)
          (runBody tbl ((tbl.getD t1.prog []).length + 2)
          { w := w1, t := (resume tbl t1 val).1, out := out, evs := (resume tbl t1 val).2 }).1.w :=
        (hW.of_from hrb_from).mono (fun e he => List.mem_append_left _ he)
      have hout0 : ResOK (runBody tbl ((tbl.getD t1.prog []).length + 2)
          { w := w1, t := (resume tbl t1 val).1, out := out, evs := (resume tbl t1 val).2 }).1.evs out :=
        fun a v b hm => absurd hm (hout a v b)
      have hout1 := runBody_out tbl ((tbl.getD t1.prog []).length + 2)
        { w := w1, t := (resume tbl t1 val).1, out := out, evs := (resume tbl t1 val).2 } _ hout0
      have hdone : ∀ v, (runBody tbl ((tbl.getD t1.prog []).length + 2)
          { w := w1, t := (resume tbl t1 val).1, out := out, evs := (resume tbl t1 val).2 }).2 = .done v →
          RetIn (runBody tbl ((tbl.getD t1.prog []).length + 2)
          { w := w1, t := (resume tbl t1 val).1, out := out, evs := (resume tbl t1 val).2 }).1.evs
          (runBody tbl ((tbl.getD t1.prog []).length + 2)
          { w := w1, t := (resume tbl t1 val).1, out := out, evs := (resume tbl t1 val).2 }).1.t.addr v := by
        intro v hv
        obtain ⟨⟨tag, ht⟩, ha⟩ := runBody_done tbl _ _ v _ rfl hv
        rw [ha]; exact ⟨tag, ht⟩
      have h1 := finishStep_integrity _ _ _ hKW (hout1.mono (fun e he => List.mem_append_right _ he))
        (fun v hv => (hdone v hv).mono (fun e he => List.mem_append_right _ he))
      exact h1

/-- one loop iteration of a worker keeps the integrity of its mailboxes and only emits RESULT
    messages whose value the addressed task returned -/
theorem step_integrity (H : List Ev) (tbl : Table) (w : Worker) (hW : WFilled H w) :
    WFilled (H ++ (w.step tbl).evs) (w.step tbl).w ∧ ResOK (H ++ (w.step tbl).evs) (w.step tbl).out := by
  unfold Worker.step
  dsimp only
  have hp : BoxesFrom w (Worker.pick w.pickFuel { w with blocked := false }).w :=
    (from_sub w { w with blocked := false } rfl (fun _ _ h => h)).trans (pick_from _ _)
  split
  · refine ⟨(hW.of_from hp).mono (fun e he => List.mem_append_left _ he), ?_⟩
    intro a v b hm
    exact absurd hm (pick_out_noresult _ _ a v b)
  · exact stepTask_integrity H tbl _ _ _ (hW.of_from hp) (pick_out_noresult _ _)

end BqVerif.Runtime
