/- One quarter of the regenerated circuit workflows, evaluated by the kernel (a separate module so
that lake checks the quarters in parallel). -/
import BqVerif.Proofs.PipelineScope
import BqVerif.Generated.Workflows

namespace BqVerif.Pipeline
open BqVerif.Generated.Workflows
set_option maxRecDepth 100000

theorem chk_circuit3 : circuitWFs3.all allCheck = true := by decide +kernel

end BqVerif.Pipeline
