import BqVerif.Proofs.CircUnfoldSem
/-! # `replace_with_circuit(point, circuit)` as a stand-alone timeline theorem (C04)

The proof is the one of `unfold_timeline` with an arbitrary well-formed sub-circuit on the radixes
of the replaced operation in place of the block body. -/
namespace BqVerif.Circ

theorem replaceWithCircuit_timeline (c : Circ) (hinv : c.Inv) (p : Int × Int) (k q0 : Nat)
    (o : Op) (sub : Circ) (hg : c.getOp p = .ok (k, q0, o)) (hsubinv : sub.Inv)
    (hfit : sub.radixes = o.rad) :
    ∃ (hlt : k < c.cycles.length) (inner : List Op),
      (c.replaceWithCircuit p sub).2 = .ok () ∧ (c.replaceWithCircuit p sub).1.Inv ∧
      (∀ x ∈ inner, x.loc ≠ []) ∧
      (∀ q, proj q inner = proj q (sub.iter.map (·.mapLoc o.loc))) ∧
      (∀ q, c.timeline q = proj q (c.cycles.take k).flatten ++ (if o.on q then [o] else []) ++
        proj q (c.cycles[k].filter (fun x => !x.on q0)) ++
          proj q (c.cycles.drop (k + 1)).flatten) ∧
      (∀ q, (c.replaceWithCircuit p sub).1.timeline q =
        proj q (c.cycles.take k).flatten ++ proj q inner ++
        proj q (c.cycles[k].filter (fun x => !x.on q0)) ++
          proj q (c.cycles.drop (k + 1)).flatten) := by
  obtain ⟨hr1, hr2, hk, hq, hcell⟩ := getOp_spec c p k q0 o hg
  obtain ⟨hlt, hmem, hq0⟩ := cell_mem c k q0 o hcell
  have hwf := hinv.2.2 _ (List.getElem_mem hlt) o hmem
  obtain ⟨w1, w2, w3, w4⟩ := hwf
  have hq0n : q0 < c.numQudits := w3 q0 hq0
  have hsubq : sub.numQudits = o.loc.length := by
    show sub.radixes.length = o.loc.length
    rw [hfit, w4]; simp
  have hsubr : sub.radixes = o.loc.map (c.radixes.getD · 0) := by
    rw [hfit, w4]
  have hunf : c.replaceWithCircuit p sub = (c.removeAt k q0).insertCircuit (k : Int) sub o.loc := by
    unfold Circ.replaceWithCircuit
    simp only [hr1, hr2, Bool.and_self, Bool.not_true, Bool.false_eq_true, if_false, ← hk, ← hq]
    have hpop : c.pop (some ((k : Int), (q0 : Int))) = (c.removeAt k q0, .ok o) := by
      unfold Circ.pop; simp [getOp_nat c k q0 o hlt hq0n hcell]
    rw [hpop]
    have e1 : (sub.numQudits != o.loc.length) = false := by
      rw [bne_eq_false_iff_eq]; exact hsubq
    have e2 : (sub.radixes != o.loc.map (c.radixes.getD · 0)) = false := by
      rw [bne_eq_false_iff_eq]; exact hsubr
    simp only [e1, e2, Bool.false_eq_true, if_false]
  have hc1r : (c.removeAt k q0).radixes = c.radixes := removeAt_radixes c k q0
  have hvalid : ∀ x ∈ sub.ops, (c.removeAt k q0).checkValid (x.mapLoc o.loc) = .ok () := by
    intro x hx
    rw [checkValid_congr c _ _ hc1r]
    exact checkValid_mapLoc c sub o.loc x (mem_ops_wf sub hsubinv x hx) hsubq w3 hsubr
  have hinj : ∀ a b, a < o.loc.length → b < o.loc.length →
      o.loc.getD a 0 = o.loc.getD b 0 → a = b := by
    intro a b' ha hb hab
    have h1 := idxOf_getD_of_nodup o.loc a ha w2
    have h2 := idxOf_getD_of_nodup o.loc b' hb w2
    rw [hab] at h1; omega
  have hsub_lt : ∀ x ∈ sub.ops, ∀ i ∈ x.loc, i < o.loc.length := by
    intro x hx i hi
    have := (mem_ops_wf sub hsubinv x hx).2.2.1 i hi
    omega
  have hinvU : (c.replaceWithCircuit p sub).1.Inv := by
    apply replaceWithCircuit_inv c sub p hinv
    intro loc hl hlen x hx
    obtain ⟨v1, v2, v3, v4⟩ := mem_ops_wf sub hsubinv x hx
    exact mapLoc_shape x loc v1 v2 (by rw [v4]; simp) (fun q hq => by
      have := v3 q hq; omega) hl
  have hcellf : c.cycles[k].find? (·.on q0) = some o := by
    have := hcell
    unfold Circ.cell at this
    rwa [getD_of_lt _ _ hlt] at this
  have hcyk := List.getElem_mem hlt
  have hmain : ∃ L : List Op, (∀ x, x ∈ L ↔ x ∈ sub.ops) ∧ (∀ q, proj q L = proj q sub.ops) ∧
      (c.replaceWithCircuit p sub).2 = .ok () ∧
      ∀ q, (c.replaceWithCircuit p sub).1.timeline q =
        proj q ((c.removeAt k q0).cycles.take k).flatten ++ proj q (L.map (·.mapLoc o.loc)) ++
          proj q ((c.removeAt k q0).cycles.drop k).flatten := by
    by_cases hkc : k < (c.removeAt k q0).numCycles
    · refine ⟨sub.iterRev.reverse, fun x => by rw [List.mem_reverse, mem_iterRev],
        fun q => by rw [proj_iterRev_reverse sub hsubinv]; rfl, ?_, ?_⟩
      · rw [hunf, insertCircuit_eq_lt _ sub o.loc k hsubq hkc]
        exact (insert_fold_timeline k _ _ hkc (by
          intro y hy
          rw [List.mem_map] at hy
          obtain ⟨x, hx, rfl⟩ := hy
          exact hvalid x ((mem_iterRev sub x).1 hx)) 0).1
      · intro q
        rw [hunf, insertCircuit_eq_lt _ sub o.loc k hsubq hkc]
        rw [(insert_fold_timeline k _ _ hkc (by
          intro y hy
          rw [List.mem_map] at hy
          obtain ⟨x, hx, rfl⟩ := hy
          exact hvalid x ((mem_iterRev sub x).1 hx)) q).2, List.map_reverse]
    · have hkc' : (c.removeAt k q0).numCycles ≤ k := Nat.le_of_not_lt hkc
      have hkeq : (c.removeAt k q0).cycles.length = k := by
        have := removeAt_numCycles_ge c k q0 hlt
        simp only [Circ.numCycles] at this hkc'; omega
      refine ⟨sub.iter, fun x => mem_iter sub x,
        fun q => by rw [proj_iter sub hsubinv]; rfl, ?_, ?_⟩
      · rw [hunf, insertCircuit_eq_ge _ sub o.loc k hsubq hkc', appendCircuit_eq _ sub o.loc hsubq]
        exact (append_fold_timeline _ _ (by
          intro y hy
          rw [List.mem_map] at hy
          obtain ⟨x, hx, rfl⟩ := hy
          exact hvalid x ((mem_iter sub x).1 hx)) 0).1
      · intro q
        rw [hunf, insertCircuit_eq_ge _ sub o.loc k hsubq hkc', appendCircuit_eq _ sub o.loc hsubq]
        rw [(append_fold_timeline _ _ (by
          intro y hy
          rw [List.mem_map] at hy
          obtain ⟨x, hx, rfl⟩ := hy
          exact hvalid x ((mem_iter sub x).1 hx)) q).2]
        have e1 : (c.removeAt k q0).cycles.take k = (c.removeAt k q0).cycles :=
          List.take_of_length_le (by omega)
        have e2 : (c.removeAt k q0).cycles.drop k = [] :=
          List.drop_of_length_le (by omega)
        rw [e1, e2]
        simp [Circ.timeline, Circ.ops, proj]
  obtain ⟨L, hLmem, hLproj, hok, htl⟩ := hmain
  refine ⟨hlt, L.map (·.mapLoc o.loc), hok, hinvU, ?_, ?_, ?_, ?_⟩
  · intro x hx
    rw [List.mem_map] at hx
    obtain ⟨y, hy, rfl⟩ := hx
    have := (mem_ops_wf sub hsubinv y ((hLmem y).1 hy)).1
    simpa [Op.mapLoc] using this
  · intro q
    exact proj_map_relabel_congr (fun i => o.loc.getD i 0) o.loc.length hinj L sub.iter
      (fun x hx => hsub_lt x ((hLmem x).1 hx))
      (fun x hx => hsub_lt x ((mem_iter sub x).1 hx))
      (fun q' => by rw [hLproj q', proj_iter sub hsubinv]; rfl) q
  · intro q
    obtain ⟨hsplit, _⟩ := proj_cycle_old c.cycles[k] q0 q o (hinv.2.1 _ hcyk)
      (fun x hx => (hinv.2.2 _ hcyk x hx).1) hcellf
    unfold Circ.timeline Circ.ops
    rw [flatten_split c.cycles k hlt]
    simp only [proj_append, hsplit, List.append_assoc]
  · intro q
    rw [htl q, removeAt_take, removeAt_drop_flatten c k q0 hlt]
    simp only [proj_append, List.append_assoc]

variable {M : Type} [Monoid M]

/-- **`replace_with_circuit` replaces the operation's unitary by the sub-circuit's**: if the
replaced operation denotes what the relabelled sub-circuit denotes, the circuit's denotation is
unchanged (in every monoid semantics with commuting disjoint operations). -/
theorem replaceWithCircuit_same_den (sem : Op → M)
    (hcomm : ∀ a b, Indep a b → sem a * sem b = sem b * sem a)
    (c : Circ) (hinv : c.Inv) (p : Int × Int) (k q0 : Nat) (o : Op) (sub : Circ)
    (hg : c.getOp p = .ok (k, q0, o)) (hsubinv : sub.Inv) (hfit : sub.radixes = o.rad)
    (hsem : sem o = den sem (sub.iter.map (·.mapLoc o.loc))) :
    den sem (c.replaceWithCircuit p sub).1.iter = den sem c.iter := by
  obtain ⟨hlt, inner, _, hinvU, hne, hinner, hbefore, hafter⟩ :=
    replaceWithCircuit_timeline c hinv p k q0 o sub hg hsubinv hfit
  obtain ⟨_, _, _, _, hcell⟩ := getOp_spec c p k q0 o hg
  obtain ⟨_, hmem, _⟩ := cell_mem c k q0 o hcell
  have hcyk := List.getElem_mem hlt
  have hc_ne : ∀ x ∈ c.ops, x.loc ≠ [] := fun x hx => (mem_ops_wf c hinv x hx).1
  have ho_ops : o ∈ c.ops := by
    simp only [Circ.ops, List.mem_flatten]; exact ⟨_, hcyk, hmem⟩
  have hpre : ∀ x ∈ (c.cycles.take k).flatten, x ∈ c.ops := by
    intro x hx
    simp only [Circ.ops, List.mem_flatten] at hx ⊢
    obtain ⟨cy, hcy, hx⟩ := hx
    exact ⟨cy, List.mem_of_mem_take hcy, hx⟩
  have hmid : ∀ x ∈ c.cycles[k].filter (fun x => !x.on q0), x ∈ c.ops := by
    intro x hx
    simp only [Circ.ops, List.mem_flatten]
    exact ⟨_, hcyk, (List.mem_filter.mp hx).1⟩
  have hpost : ∀ x ∈ (c.cycles.drop (k + 1)).flatten, x ∈ c.ops := by
    intro x hx
    simp only [Circ.ops, List.mem_flatten] at hx ⊢
    obtain ⟨cy, hcy, hx⟩ := hx
    exact ⟨cy, List.mem_of_mem_drop hcy, hx⟩
  generalize hPRE : (c.cycles.take k).flatten = PRE at *
  generalize hMID : c.cycles[k].filter (fun x => !x.on q0) = MID at *
  generalize hPOST : (c.cycles.drop (k + 1)).flatten = POST at *
  have hE_ne : ∀ x ∈ sub.iter.map (·.mapLoc o.loc), x.loc ≠ [] := by
    intro x hx
    rw [List.mem_map] at hx
    obtain ⟨y, hy, rfl⟩ := hx
    have := (mem_ops_wf sub hsubinv y ((mem_iter sub y).1 hy)).1
    simpa [Op.mapLoc] using this
  have h3 : den sem inner = den sem (sub.iter.map (·.mapLoc o.loc)) :=
    trace_equiv sem hcomm _ _ hne hE_ne hinner
  have h1 : den sem c.iter = den sem (PRE ++ o :: (MID ++ POST)) := by
    apply trace_equiv sem hcomm _ _ (inv_iter_locs c hinv).1
    · intro x hx
      rcases List.mem_append.mp hx with hx | hx
      · exact hc_ne x (hpre x hx)
      · rcases List.mem_cons.mp hx with rfl | hx
        · exact hc_ne _ ho_ops
        · rcases List.mem_append.mp hx with hx | hx
          · exact hc_ne x (hmid x hx)
          · exact hc_ne x (hpost x hx)
    · intro q
      rw [proj_iter c hinv, hbefore q]
      have : proj q (o :: (MID ++ POST)) = (if o.on q then [o] else []) ++ proj q (MID ++ POST) := by
        rw [← proj_single, ← proj_append]; rfl
      rw [proj_append, this, proj_append]
      simp only [List.append_assoc]
  have h2 : den sem (c.replaceWithCircuit p sub).1.iter =
      den sem (PRE ++ inner ++ (MID ++ POST)) := by
    apply trace_equiv sem hcomm _ _ (inv_iter_locs _ hinvU).1
    · intro x hx
      rcases List.mem_append.mp hx with hx | hx
      · rcases List.mem_append.mp hx with hx | hx
        · exact hc_ne x (hpre x hx)
        · exact hne x hx
      · rcases List.mem_append.mp hx with hx | hx
        · exact hc_ne x (hmid x hx)
        · exact hc_ne x (hpost x hx)
    · intro q
      rw [proj_iter _ hinvU, hafter q]
      simp only [proj_append, List.append_assoc]
  rw [h1, h2]
  simp only [den_append, den_cons]
  rw [h3, ← hsem, mul_assoc]

end BqVerif.Circ
