import BqVerif.Proofs.Pickle
/-!
C16(a): `rebuild (reduce c)` on well-formed circuits — assembled from `Proofs/Pickle.lean`.
-/
namespace BqVerif.Circ

/-- what the round trip needs of one block of the payload -/
def GoodBlock (tbl : List GateId) (rad : List Nat) (b : Cycle) : Prop :=
  b ≠ [] ∧ b.Pairwise Indep ∧ (∀ o ∈ b, o.WF rad.length rad) ∧ (∀ o ∈ b, o.gate ∈ tbl)

theorem goodBlock_perm {tbl : List GateId} {rad : List Nat} {b cy : Cycle} (h : b.Perm cy)
    (hg : GoodBlock tbl rad cy) : GoodBlock tbl rad b := by
  obtain ⟨h1, h2, h3, h4⟩ := hg
  refine ⟨?_, (pairwise_indep_perm h).2 h2, fun o ho => h3 o (h.mem_iff.1 ho),
    fun o ho => h4 o (h.mem_iff.1 ho)⟩
  intro h0; subst h0; exact h1 h.symm.eq_nil

theorem rebuild_blocks (c : Circ) (tbl : List GateId) (bs : List Cycle) (hr : c.radOk = true)
    (hb : ∀ b ∈ bs, GoodBlock tbl c.radixes b) :
    (c.reduceWith tbl (blocksFrom 0 bs)).rebuild = .ok ⟨c.radixes, bs⟩ := by
  simp only [Circ.radOk, Bool.and_eq_true, Bool.not_eq_true', List.isEmpty_eq_false_iff] at hr
  obtain ⟨hne, hall⟩ := hr
  have hlen : c.radixes.length ≠ 0 := by
    intro h; exact hne (List.eq_nil_of_length_eq_zero h)
  have hemp : c.radixes.isEmpty = false := by simpa using hne
  have hgr : groupRuns ((blocksFrom 0 bs).map (fun x => (x.1, marshal tbl x.2)))
      = bs.map (List.map (marshal tbl)) := by
    rw [blocksFrom_map]
    apply groupRuns_blocks
    intro b hb'
    obtain ⟨b0, hb0, rfl⟩ := List.mem_map.1 hb'
    have := (hb b0 hb0).1
    simpa using this
  unfold Pickled.rebuild Circ.reduceWith
  simp only [hgr, Circ.numQudits, hemp]
  have h0 : (c.radixes.length == 0) = false := by simpa using hlen
  simp only [h0]
  have hnex : ¬∃ x, x ∈ c.radixes ∧ x < 2 := by
    rintro ⟨x, hx, hlt⟩
    have := List.all_eq_true.1 hall x hx
    simp at this; omega
  have := rebuildCycles_ok tbl c.radixes bs [] (fun g hg => (hb g hg).2.2.1)
    (fun g hg => (hb g hg).2.2.2) (fun g hg => (hb g hg).2.1)
  simpa [hnex] using this

theorem mem_dedupGates (l : List GateId) (g : GateId) : g ∈ dedupGates l ↔ g ∈ l := by
  induction l with
  | nil => simp [dedupGates]
  | cons a l ih =>
    simp only [dedupGates]
    split
    · rename_i h
      have ha : a ∈ l := by simpa using h
      rw [ih]; constructor
      · intro h'; exact List.mem_cons_of_mem _ h'
      · intro h'; rcases List.mem_cons.1 h' with rfl | h'
        · exact ha
        · exact h'
    · simp [ih]

theorem mem_gateTable (c : Circ) : ∀ o ∈ c.ops, o.gate ∈ c.gateTable := by
  intro o ho
  unfold Circ.gateTable
  rw [mem_dedupGates]
  exact List.mem_map.2 ⟨o, ho, rfl⟩

theorem goodBlock_of_inv (c : Circ) (hi : c.Inv) (tbl : List GateId)
    (ht : ∀ o ∈ c.ops, o.gate ∈ tbl) : ∀ cy ∈ c.cycles, GoodBlock tbl c.radixes cy := by
  intro cy hcy
  refine ⟨hi.1 cy hcy, hi.2.1 cy hcy, ?_, ?_⟩
  · intro o ho; simpa [Circ.numQudits] using hi.2.2 cy hcy o ho
  · intro o ho
    apply ht
    unfold Circ.ops
    exact List.mem_flatten.2 ⟨cy, hcy, ho⟩

theorem permCycles_map_sort (l : List Cycle) : PermCycles (l.map (sortBy Op.head)) l := by
  induction l with
  | nil => exact PermCycles.nil
  | cons a l ih => exact PermCycles.cons (sortBy_perm _ a) ih

theorem canon_sameLayout (c : Circ) : SameLayout c.canon c :=
  ⟨rfl, permCycles_map_sort c.cycles⟩

theorem reduceWith_rebuild_rowmajor (c : Circ) (hi : c.Inv) (hr : c.radOk = true)
    (tbl : List GateId) (ht : ∀ o ∈ c.ops, o.gate ∈ tbl) :
    (c.reduceWith tbl c.iterCyc).rebuild = .ok c.canon := by
  rw [iterCyc_blocks]
  apply rebuild_blocks c tbl _ hr
  intro b hb
  obtain ⟨cy, hcy, rfl⟩ := List.mem_map.1 hb
  exact goodBlock_perm (sortBy_perm _ cy) (goodBlock_of_inv c hi tbl ht cy hcy)

theorem permCycles_of_range (f : Nat → Cycle) (l : List Cycle) (i : Nat)
    (h : ∀ k, k < l.length → (f (i + k)).Perm (l.getD k [])) :
    PermCycles ((List.range' i l.length).map f) l := by
  induction l generalizing i with
  | nil => exact PermCycles.nil
  | cons a l ih =>
    simp only [List.length_cons, List.range'_succ, List.map_cons]
    refine PermCycles.cons ?_ (ih (i + 1) ?_)
    · simpa using h 0 (by simp)
    · intro k hk
      have := h (k + 1) (by simp; omega)
      simpa [Nat.add_assoc, Nat.add_comm 1 k] using this

theorem reduceWith_rebuild_iter (c : Circ) (hi : c.Inv) (hr : c.radOk = true)
    (tbl : List GateId) (ht : ∀ o ∈ c.ops, o.gate ∈ tbl) (it : List (Nat × Op))
    (hit : c.iterOkB it = true) :
    ∃ c', (c.reduceWith tbl it).rebuild = .ok c' ∧ SameLayout c' c := by
  simp only [Circ.iterOkB, Bool.and_eq_true, List.all_eq_true, decide_eq_true_eq] at hit
  obtain ⟨⟨hs, hlt⟩, hperm⟩ := hit
  have hblocks := sorted_eq_blocks c.numCycles it 0 (sortedNat_pairwise _ hs) (by simp)
    (by intro x hx; simpa using hlt x hx)
  have hpc : PermCycles (keyBlocks it 0 c.numCycles) c.cycles := by
    unfold keyBlocks Circ.numCycles
    apply permCycles_of_range
    intro k hk
    have := hperm k (by simpa [Circ.numCycles] using hk)
    simpa using permOpsL_perm _ _ this
  refine ⟨⟨c.radixes, keyBlocks it 0 c.numCycles⟩, ?_, rfl, hpc⟩
  have hrb := rebuild_blocks c tbl (keyBlocks it 0 c.numCycles) hr (by
    intro b hb
    obtain ⟨cy, hcy, hp⟩ := forall₂_perm_mem hpc b hb
    exact goodBlock_perm hp (goodBlock_of_inv c hi tbl ht cy hcy))
  rw [← hblocks] at hrb
  exact hrb

/-! ## insertion sort is idempotent: the canonical form iterates like the circuit -/
theorem mem_insertBy (key : Op → Nat) (x z : Op) (l : List Op) :
    z ∈ insertBy key x l ↔ z = x ∨ z ∈ l := by
  rw [(insertBy_perm key x l).mem_iff]; simp

theorem insertBy_sorted (key : Op → Nat) (x : Op) (l : List Op)
    (h : l.Pairwise (fun a b => key a ≤ key b)) :
    (insertBy key x l).Pairwise (fun a b => key a ≤ key b) := by
  induction l with
  | nil => simp [insertBy]
  | cons y ys ih =>
    simp only [insertBy]
    have hy := List.pairwise_cons.1 h
    split
    · rename_i hxy
      refine List.pairwise_cons.2 ⟨?_, h⟩
      intro z hz
      rcases List.mem_cons.1 hz with rfl | hz
      · exact hxy
      · exact Nat.le_trans hxy (hy.1 z hz)
    · rename_i hxy
      refine List.pairwise_cons.2 ⟨?_, ih hy.2⟩
      intro z hz
      rcases (mem_insertBy key x z ys).1 hz with rfl | hz
      · omega
      · exact hy.1 z hz

theorem sortBy_sorted (key : Op → Nat) (l : List Op) :
    (sortBy key l).Pairwise (fun a b => key a ≤ key b) := by
  induction l with
  | nil => exact List.Pairwise.nil
  | cons x xs ih => exact insertBy_sorted key x _ ih

theorem sortBy_of_sorted (key : Op → Nat) (l : List Op)
    (h : l.Pairwise (fun a b => key a ≤ key b)) : sortBy key l = l := by
  induction l with
  | nil => rfl
  | cons x xs ih =>
    have hx := List.pairwise_cons.1 h
    show insertBy key x (sortBy key xs) = x :: xs
    rw [ih hx.2]
    cases xs with
    | nil => rfl
    | cons y ys => simp [insertBy, hx.1 y (by simp)]

theorem sortBy_idem (key : Op → Nat) (l : List Op) : sortBy key (sortBy key l) = sortBy key l :=
  sortBy_of_sorted key _ (sortBy_sorted key l)

theorem canon_iterCyc (c : Circ) : c.canon.iterCyc = c.iterCyc := by
  rw [iterCyc_blocks, iterCyc_blocks]
  simp [Circ.canon, List.map_map, Function.comp_def, sortBy_idem]

theorem canon_iter (c : Circ) : c.canon.iter = c.iter := by
  simp [Circ.iter, Circ.canon, List.flatMap_map, sortBy_idem]

end BqVerif.Circ
