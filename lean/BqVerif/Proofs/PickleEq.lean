import BqVerif.Proofs.PickleKahn
/-!
Equality and hash of the code after the fixes 15423cf / 8f3ffc9 / c6a0f46 (C16(c)):
the zip comparison is equality exactly when the lengths agree, equal gate-count tables force
equal lengths, and a hash of the SORTED edge list does not depend on how the set is listed.
Core Lean only.
-/
namespace BqVerif.Circ

theorem eqSeqZip_of_length {α : Type} [BEq α] [LawfulBEq α] (a b : List α)
    (h : a.length = b.length) : eqSeqZip a b = true ↔ a = b := by
  induction a generalizing b with
  | nil =>
    cases b with
    | nil => simp [eqSeqZip]
    | cons y ys => simp at h
  | cons x xs ih =>
    cases b with
    | nil => simp at h
    | cons y ys =>
      have h' : xs.length = ys.length := by simpa using h
      have := ih ys h'
      simp only [eqSeqZip] at this ⊢
      simp only [List.zip_cons_cons, List.all_cons, Bool.and_eq_true, beq_iff_eq, this,
        List.cons.injEq]

theorem eqSeq_iff {α : Type} [BEq α] [LawfulBEq α] (a b : List α) : eqSeq a b = true ↔ a = b := by
  unfold eqSeq
  constructor
  · intro h
    simp only [Bool.and_eq_true, beq_iff_eq] at h
    exact (eqSeqZip_of_length a b h.1).1 h.2
  · rintro rfl
    simp [(eqSeqZip_of_length a a rfl).2 rfl]

/-- the zip alone accepts every prefix -/
theorem eqSeqZip_prefix {α : Type} [BEq α] [LawfulBEq α] (a t : List α) :
    eqSeqZip a (a ++ t) = true ∧ eqSeqZip (a ++ t) a = true := by
  induction a with
  | nil => simp [eqSeqZip]
  | cons x xs ih =>
    simp only [eqSeqZip] at ih ⊢
    simp [ih.1, ih.2]

theorem countsEq_length (a b : List Op) (h : countsEq a b = true) : a.length = b.length := by
  unfold countsEq at h
  simp only [Bool.and_eq_true, List.all_eq_true, beq_iff_eq] at h
  have hp : (a.map Op.gate).Perm (b.map Op.gate) := by
    rw [List.perm_iff_count]
    intro g
    by_cases ha : g ∈ a.map Op.gate
    · exact h.1 g ha
    · by_cases hb : g ∈ b.map Op.gate
      · exact h.2 g hb
      · rw [List.count_eq_zero_of_not_mem ha, List.count_eq_zero_of_not_mem hb]
  simpa using hp.length_eq

theorem eqCircuit_iff (ra rb : List Nat) (a b : List Op) :
    eqCircuit ra a rb b = true ↔ ra = rb ∧ a = b := by
  unfold eqCircuit
  constructor
  · intro h
    simp only [Bool.and_eq_true, beq_iff_eq] at h
    exact ⟨h.1.2, (eqSeqZip_of_length a b (countsEq_length a b h.1.1)).1 h.2⟩
  · rintro ⟨rfl, rfl⟩
    have hc : countsEq a a = true := by simp [countsEq]
    simp [hc, (eqSeqZip_of_length a a rfl).2 rfl]

/-! ## the sorted edge list does not depend on the listing -/
theorem insertPt_perm (x : Nat × Nat) (l : List (Nat × Nat)) : (insertPt x l).Perm (x :: l) := by
  induction l with
  | nil => exact List.Perm.refl _
  | cons y ys ih =>
    simp only [insertPt]
    split
    · exact List.Perm.refl _
    · exact (List.Perm.cons y ih).trans (List.Perm.swap x y ys)

theorem sortEdges_perm (l : List (Nat × Nat)) : (sortEdges l).Perm l := by
  induction l with
  | nil => exact List.Perm.refl _
  | cons x xs ih => exact (insertPt_perm x _).trans (List.Perm.cons x ih)

theorem lexLe_antisymm {a b : Nat × Nat} (h1 : lexLe a b) (h2 : lexLe b a) : a = b := by
  unfold lexLe at *
  have : a.1 = b.1 ∧ a.2 = b.2 := by omega
  exact Prod.ext this.1 this.2

theorem sortEdges_eq_of_perm (l1 l2 : List (Nat × Nat)) (h : l1.Perm l2) :
    sortEdges l1 = sortEdges l2 := by
  apply List.Perm.eq_of_pairwise (le := lexLe)
  · intro a b _ _ h1 h2; exact lexLe_antisymm h1 h2
  · exact foldr_insertPt_sorted l1
  · exact foldr_insertPt_sorted l2
  · exact (sortEdges_perm l1).trans (h.trans (sortEdges_perm l2).symm)

theorem graphHash_perm (n : Nat) (l1 l2 : List (Nat × Nat)) (h : l1.Perm l2) :
    graphHash n l1 = graphHash n l2 := by
  unfold graphHash; rw [sortEdges_eq_of_perm l1 l2 h]

end BqVerif.Circ
