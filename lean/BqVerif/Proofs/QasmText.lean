import BqVerif.Model.QasmExpr
/-! # What the reader's Python text is

Whenever Lark accepts a token string, the text `eval_exp_recurse` builds from the tree is
that very token string (grouping parentheses included) — whatever shape the LALR tree has
(`-a+b` is `usub(a+b)` there).  Hence the value the reader computes is Python's reading of
the expression's own tokens. -/
namespace BqVerif.Qasm

variable {V : Type}

/-- `ts = pre ++ rest`, and the consumed prefix `pre`, appended to `pfx`, is what flattening
`q` gives -/
def Consumes (ts rest : List (ETok V)) (pfx : List (ETok V)) (q : QE V) : Prop :=
  ∃ pre, ts = pre ++ rest ∧ pfx ++ pre = flatten q

theorem q_consumes : ∀ f,
    (∀ ts q rest, qExp f ts = some (q, rest) → Consumes (V := V) ts rest [] q) ∧
    (∀ acc ts q rest, qExpLoop f acc ts = some (q, rest) →
      Consumes (V := V) ts rest (flatten acc) q) ∧
    (∀ ts q rest, qMul f ts = some (q, rest) → Consumes (V := V) ts rest [] q) ∧
    (∀ acc ts q rest, qMulLoop f acc ts = some (q, rest) →
      Consumes (V := V) ts rest (flatten acc) q) ∧
    (∀ ts q rest, qPrim f ts = some (q, rest) → Consumes (V := V) ts rest [] q) ∧
    (∀ ts q rest, qAtom f ts = some (q, rest) → Consumes (V := V) ts rest [] q) := by
  intro f
  induction f with
  | zero =>
    refine ⟨?_, ?_, ?_, ?_, ?_, ?_⟩ <;> intros <;>
      simp_all [qExp, qExpLoop, qMul, qMulLoop, qPrim, qAtom]
  | succ f ih =>
    obtain ⟨ihE, ihEL, ihM, ihML, ihP, ihA⟩ := ih
    refine ⟨?_, ?_, ?_, ?_, ?_, ?_⟩
    · -- qExp
      intro ts q rest h
      simp only [qExp, Option.bind_eq_some_iff] at h
      obtain ⟨p, hp, hl⟩ := h
      obtain ⟨pre1, rfl, h1⟩ := ihM ts p.1 p.2 (by simpa using hp)
      obtain ⟨pre2, h2e, h2⟩ := ihEL p.1 p.2 q rest hl
      refine ⟨pre1 ++ pre2, by rw [h2e]; simp, ?_⟩
      simp only [List.nil_append] at h1 ⊢
      rw [← h2, ← h1]
    · -- qExpLoop
      intro acc ts q rest h
      unfold qExpLoop at h
      split at h
      · rename_i ts'
        simp only [Option.bind_eq_some_iff] at h
        obtain ⟨p, hp, hl⟩ := h
        obtain ⟨pre1, rfl, h1⟩ := ihM ts' p.1 p.2 (by simpa using hp)
        obtain ⟨pre2, h2e, h2⟩ := ihEL _ p.2 q rest hl
        refine ⟨.plus :: pre1 ++ pre2, by rw [h2e]; simp, ?_⟩
        simp only [List.nil_append] at h1
        simp only [flatten, BOp.tok, ← h1] at h2
        rw [← h2]; simp
      · rename_i ts'
        simp only [Option.bind_eq_some_iff] at h
        obtain ⟨p, hp, hl⟩ := h
        obtain ⟨pre1, rfl, h1⟩ := ihM ts' p.1 p.2 (by simpa using hp)
        obtain ⟨pre2, h2e, h2⟩ := ihEL _ p.2 q rest hl
        refine ⟨.minus :: pre1 ++ pre2, by rw [h2e]; simp, ?_⟩
        simp only [List.nil_append] at h1
        simp only [flatten, BOp.tok, ← h1] at h2
        rw [← h2]; simp
      · simp only [Option.some.injEq, Prod.mk.injEq] at h
        obtain ⟨rfl, rfl⟩ := h
        exact ⟨[], by simp, by simp⟩
    · -- qMul
      intro ts q rest h
      simp only [qMul, Option.bind_eq_some_iff] at h
      obtain ⟨p, hp, hl⟩ := h
      obtain ⟨pre1, rfl, h1⟩ := ihP ts p.1 p.2 (by simpa using hp)
      obtain ⟨pre2, h2e, h2⟩ := ihML p.1 p.2 q rest hl
      refine ⟨pre1 ++ pre2, by rw [h2e]; simp, ?_⟩
      simp only [List.nil_append] at h1 ⊢
      rw [← h2, ← h1]
    · -- qMulLoop
      intro acc ts q rest h
      unfold qMulLoop at h
      split at h
      · rename_i ts'
        simp only [Option.bind_eq_some_iff] at h
        obtain ⟨p, hp, hl⟩ := h
        obtain ⟨pre1, rfl, h1⟩ := ihP ts' p.1 p.2 (by simpa using hp)
        obtain ⟨pre2, h2e, h2⟩ := ihML _ p.2 q rest hl
        refine ⟨.star :: pre1 ++ pre2, by rw [h2e]; simp, ?_⟩
        simp only [List.nil_append] at h1
        simp only [flatten, BOp.tok, ← h1] at h2
        rw [← h2]; simp
      · rename_i ts'
        simp only [Option.bind_eq_some_iff] at h
        obtain ⟨p, hp, hl⟩ := h
        obtain ⟨pre1, rfl, h1⟩ := ihP ts' p.1 p.2 (by simpa using hp)
        obtain ⟨pre2, h2e, h2⟩ := ihML _ p.2 q rest hl
        refine ⟨.slash :: pre1 ++ pre2, by rw [h2e]; simp, ?_⟩
        simp only [List.nil_append] at h1
        simp only [flatten, BOp.tok, ← h1] at h2
        rw [← h2]; simp
      · simp only [Option.some.injEq, Prod.mk.injEq] at h
        obtain ⟨rfl, rfl⟩ := h
        exact ⟨[], by simp, by simp⟩
    · -- qPrim
      intro ts q rest h
      simp only [qPrim, Option.bind_eq_some_iff] at h
      obtain ⟨p, hp, hm⟩ := h
      obtain ⟨pre1, rfl, h1⟩ := ihA ts p.1 p.2 (by simpa using hp)
      split at hm
      · rename_i r hr
        simp only [Option.bind_eq_some_iff, Option.some.injEq, Prod.mk.injEq] at hm
        obtain ⟨p2, hp2, rfl, rfl⟩ := hm
        obtain ⟨pre2, rfl, h2⟩ := ihP r p2.1 p2.2 (by simpa using hp2)
        refine ⟨pre1 ++ .pow :: pre2, by rw [hr]; simp, ?_⟩
        simp only [List.nil_append] at h1 h2 ⊢
        simp [flatten, ← h1, ← h2]
      · simp only [Option.some.injEq] at hm
        subst hm
        exact ⟨pre1, rfl, h1⟩
    · -- qAtom
      intro ts q rest h
      unfold qAtom at h
      split at h
      · -- ( exp )
        rename_i ts'
        simp only [Option.bind_eq_some_iff] at h
        obtain ⟨p, hp, hm⟩ := h
        obtain ⟨pre1, rfl, h1⟩ := ihE ts' p.1 p.2 (by simpa using hp)
        split at hm
        · rename_i r hr
          simp only [Option.some.injEq, Prod.mk.injEq] at hm
          obtain ⟨rfl, rfl⟩ := hm
          refine ⟨.lp :: pre1 ++ [.rp], by rw [hr]; simp, ?_⟩
          simp only [List.nil_append] at h1 ⊢
          simp [flatten, ← h1]
        · simp at hm
      · -- - exp
        rename_i ts'
        simp only [Option.bind_eq_some_iff, Option.some.injEq, Prod.mk.injEq] at h
        obtain ⟨p, hp, rfl, rfl⟩ := h
        obtain ⟨pre1, rfl, h1⟩ := ihE ts' p.1 p.2 (by simpa using hp)
        refine ⟨.minus :: pre1, by simp, ?_⟩
        simp only [List.nil_append] at h1 ⊢
        simp [flatten, ← h1]
      · -- f ( exp )
        rename_i g ts'
        simp only [Option.bind_eq_some_iff] at h
        obtain ⟨p, hp, hm⟩ := h
        obtain ⟨pre1, rfl, h1⟩ := ihE ts' p.1 p.2 (by simpa using hp)
        split at hm
        · rename_i r hr
          simp only [Option.some.injEq, Prod.mk.injEq] at hm
          obtain ⟨rfl, rfl⟩ := hm
          refine ⟨.fn g :: .lp :: pre1 ++ [.rp], by rw [hr]; simp, ?_⟩
          simp only [List.nil_append] at h1 ⊢
          simp [flatten, ← h1]
        · simp at hm
      · rename_i s ts'
        simp only [Option.some.injEq, Prod.mk.injEq] at h
        obtain ⟨rfl, rfl⟩ := h
        exact ⟨[.lit s], by simp, by simp [flatten]⟩
      · rename_i s ts'
        simp only [Option.some.injEq, Prod.mk.injEq] at h
        obtain ⟨rfl, rfl⟩ := h
        exact ⟨[.name s], by simp, by simp [flatten]⟩
      · simp at h

/-- **the Python text the reader evaluates is the expression's own token string** — for every
token string Lark accepts, whatever tree it builds -/
theorem flatten_larkParse (ts : List (ETok V)) (q : QE V) (h : larkParse ts = some q) :
    flatten q = ts := by
  unfold larkParse at h
  split at h
  · rename_i e hq
    simp only [Option.some.injEq] at h
    subst h
    obtain ⟨pre, hpre, hs⟩ := (q_consumes (exprFuel ts)).1 ts e [] hq
    simp only [List.nil_append, List.append_nil] at hs hpre
    rw [hpre, hs]
  · simp at h

end BqVerif.Qasm
