import BqVerif.Proofs.CircBatchUnfoldSem
import BqVerif.Proofs.CircRemoveAll
/-! # `batch_unfold` on points that all hold blocks: the batch completes and every listed block
is unfolded exactly once, at the place where it stands by then (C04)

The blocks are unfolded from the last to the first.  Unfolding a block of cycle `k` leaves the
cells of the earlier cycles alone (`unfold_cell_below`) and moves the other operations of its
cycle, together, to one cycle `K' ≥ k`, the cycles in between holding only operations of the
unfolded body (`unfold_same_cycle`); so `seekOp` finds the next block of that cycle at `K'`. -/
namespace BqVerif.Circ

/-! ## `seekOp` -/
theorem seekOp_spec (c : Circ) (o : Op) (q : Nat) (fuel k K : Nat) (hK1 : k ≤ K)
    (hK2 : K < k + fuel) (hcell : c.cell K q = some o)
    (hnone : ∀ t, k ≤ t → t < K → c.cell t q ≠ some o) : c.seekOp o q k fuel = K := by
  induction fuel generalizing k with
  | zero => omega
  | succ fuel ih =>
    unfold Circ.seekOp
    by_cases hk : c.cell k q = some o
    · have : k = K := by
        by_contra hne
        exact hnone k (Nat.le_refl _) (by omega) hk
      subst this
      simp [hk]
    · have h1 : (c.cell k q == some o) = false := by simpa using hk
      rw [h1]
      simp only [Bool.false_eq_true, if_false]
      have hkK : k ≠ K := fun e => hk (e ▸ hcell)
      exact ih (k + 1) (by omega) (by omega) (fun t h1 h2 => hnone t (by omega) h2)

/-! ## list helpers -/
theorem modify_at_length {α : Type} (pre : List α) (a : α) (rest : List α) (f : α → α) :
    (pre ++ a :: rest).modify pre.length f = pre ++ f a :: rest := by
  induction pre with
  | nil => simp
  | cons x t ih => simp [ih]

theorem insertIdx_at_length {α : Type} (pre rest : List α) (x : α) :
    (pre ++ rest).insertIdx pre.length x = pre ++ x :: rest := by
  induction pre with
  | nil => simp
  | cons y t ih => simp [ih]

theorem cell_eq_of_take_eq (c c' : Circ) (k : Nat) (h : c'.cycles.take k = c.cycles.take k)
    (t : Nat) (ht : t < k) (q : Nat) : c'.cell t q = c.cell t q := by
  unfold Circ.cell
  have h1 : c'.cycles[t]? = c.cycles[t]? := by
    have := congrArg (fun l => l[t]?) h
    simpa [List.getElem?_take, ht] using this
  simp only [List.getD_eq_getElem?_getD, h1]

/-! ## the grid during `insert_circuit` at a cycle -/
/-- from cycle `k` on: new cycles made of inserted operations, then the old cycle `k` with some
inserted operations appended, then the old later cycles -/
def InsForm (cyk : Cycle) (post : List Cycle) (all : List Op) (rest : List Cycle) : Prop :=
  ∃ NEW ADDED, rest = NEW ++ (cyk ++ ADDED) :: post ∧ (∀ cy ∈ NEW, ∀ z ∈ cy, z ∈ all) ∧
    (∀ z ∈ ADDED, z ∈ all)

theorem insForm_step (cyk : Cycle) (post : List Cycle) (all : List Op) (rest : List Cycle)
    (x : Op) (hx : x ∈ all) (hf : InsForm cyk post all rest) :
    ∃ h tl, rest = h :: tl ∧ InsForm cyk post all ((h ++ [x]) :: tl) ∧
      InsForm cyk post all ([x] :: h :: tl) := by
  obtain ⟨NEW, ADDED, rfl, h1, h2⟩ := hf
  cases NEW with
  | nil =>
    refine ⟨cyk ++ ADDED, post, rfl, ⟨[], ADDED ++ [x], by simp, by simp, ?_⟩,
      ⟨[[x]], ADDED, by simp, ?_, h2⟩⟩
    · intro z hz
      rcases List.mem_append.mp hz with hz | hz
      · exact h2 z hz
      · simp only [List.mem_singleton] at hz; subst hz; exact hx
    · intro cy hcy z hz
      simp only [List.mem_singleton] at hcy; subst hcy
      simp only [List.mem_singleton] at hz; subst hz; exact hx
  | cons n ns =>
    refine ⟨n, ns ++ (cyk ++ ADDED) :: post, rfl, ⟨(n ++ [x]) :: ns, ADDED, by simp, ?_, h2⟩,
      ⟨[x] :: n :: ns, ADDED, by simp, ?_, h2⟩⟩
    · intro cy hcy z hz
      rcases List.mem_cons.mp hcy with rfl | hcy
      · rcases List.mem_append.mp hz with hz | hz
        · exact h1 n (by simp) z hz
        · simp only [List.mem_singleton] at hz; subst hz; exact hx
      · exact h1 cy (by simp [hcy]) z hz
    · intro cy hcy z hz
      rcases List.mem_cons.mp hcy with rfl | hcy
      · simp only [List.mem_singleton] at hz; subst hz; exact hx
      · exact h1 cy hcy z hz

theorem insF_fold_form (k : Nat) (pre : List Cycle) (hpre : pre.length = k) (cyk : Cycle)
    (post : List Cycle) (all xs : List Op) (hsub : ∀ x ∈ xs, x ∈ all) (c1 : Circ)
    (rest : List Cycle) (hc1 : c1.cycles = pre ++ rest) (hform : InsForm cyk post all rest)
    (hv : ∀ x ∈ xs, c1.checkValid x = .ok ()) :
    ∃ rest', (xs.foldl (insF (k : Int)) (c1, .ok ())).1.cycles = pre ++ rest' ∧
      InsForm cyk post all rest' := by
  induction xs generalizing c1 rest with
  | nil => exact ⟨rest, hc1, hform⟩
  | cons x t ih =>
    simp only [List.foldl_cons]
    obtain ⟨h, tl, rfl, hf1, hf2⟩ := insForm_step cyk post all rest x (hsub x (by simp)) hform
    have hk : k < c1.numCycles := by
      simp only [Circ.numCycles, hc1, List.length_append, List.length_cons]; omega
    have hstep : insF (k : Int) (c1, .ok ()) x = (c1.insertAt k x, .ok ()) := by
      unfold insF; exact insert_in_range c1 k x hk (hv x (by simp))
    rw [hstep]
    have hv' : ∀ y ∈ t, (c1.insertAt k x).checkValid y = .ok () := fun y hy => by
      rw [checkValid_congr c1 _ y (insertAt_radixes c1 k x)]; exact hv y (by simp [hy])
    have hsub' : ∀ y ∈ t, y ∈ all := fun y hy => hsub y (by simp [hy])
    unfold Circ.insertAt at hv' ⊢
    split
    · apply ih hsub' _ ((h ++ [x]) :: tl) _ hf1 (by simpa [*] using hv')
      show c1.cycles.modify k (· ++ [x]) = _
      rw [hc1, ← hpre, modify_at_length]
    · apply ih hsub' _ ([x] :: h :: tl) _ hf2 (by simpa [*] using hv')
      show c1.cycles.insertIdx k [x] = _
      rw [hc1, ← hpre, insertIdx_at_length]

/-! ## `append` only fills free cells -/
theorem appendCore_cell_mono (c : Circ) (o : Op) (t q : Nat) (y : Op) (h : c.cell t q = some y) :
    (c.appendCore o).1.cell t q = some y := by
  have hlt := cell_lt c t q y h
  unfold Circ.cell at h ⊢
  unfold Circ.appendCore
  dsimp only
  split
  · dsimp only
    rw [getD_of_lt _ _ hlt] at h
    rw [getD_of_lt _ _ (by simp; omega), List.getElem_append_left hlt]
    exact h
  · dsimp only
    rw [getD_of_lt _ _ hlt] at h
    rw [getD_of_lt _ _ (by simpa using hlt), List.getElem_modify]
    split
    · rename_i he
      subst he
      rw [List.find?_append, h]; rfl
    · exact h

theorem appF_fold_cell_mono (xs : List Op) (c1 : Circ) (hv : ∀ x ∈ xs, c1.checkValid x = .ok ())
    (t q : Nat) (y : Op) (h : c1.cell t q = some y) :
    (xs.foldl appF (c1, .ok ())).1.cell t q = some y := by
  induction xs generalizing c1 with
  | nil => exact h
  | cons x r ih =>
    simp only [List.foldl_cons]
    have hstep : appF (c1, .ok ()) x = ((c1.appendCore x).1, .ok ()) := by
      unfold appF Circ.append; rw [hv x (by simp)]; rfl
    rw [hstep]
    exact ih _ (fun z hz => by
      rw [checkValid_congr c1 _ z (appendCore_radixes c1 x)]; exact hv z (by simp [hz]))
      (appendCore_cell_mono c1 x t q y h)

/-! ## `unfold` as pop followed by `insert_circuit` -/
theorem unfold_decomp (c : Circ) (hinv : c.Inv) (b : Blocks) (p : Int × Int) (k q0 : Nat)
    (o : Op) (body : Circ) (hg : c.getOp p = .ok (k, q0, o)) (hbody : b.body? o.gid = some body)
    (hbinv : body.Inv) (hfit : body.radixes = o.rad) :
    c.unfold b p = (c.removeAt k q0).insertCircuit (k : Int) (setParams body o.par) o.loc ∧
    (setParams body o.par).numQudits = o.loc.length ∧
    (∀ x ∈ (setParams body o.par).ops,
      (c.removeAt k q0).checkValid (x.mapLoc o.loc) = .ok ()) ∧
    (∀ x ∈ (setParams body o.par).ops, ∀ i ∈ (x.mapLoc o.loc).loc, i ∈ o.loc) := by
  obtain ⟨hr1, hr2, hk, hq, hcell⟩ := getOp_spec c p k q0 o hg
  obtain ⟨hlt, hmem, hq0⟩ := cell_mem c k q0 o hcell
  obtain ⟨w1, w2, w3, w4⟩ := hinv.2.2 _ (List.getElem_mem hlt) o hmem
  have hq0n : q0 < c.numQudits := w3 q0 hq0
  have hsubinv : (setParams body o.par).Inv := setParams_inv body o.par hbinv
  have hsubq : (setParams body o.par).numQudits = o.loc.length := by
    show body.radixes.length = o.loc.length
    rw [hfit, w4]; simp
  have hsubr : (setParams body o.par).radixes = o.loc.map (c.radixes.getD · 0) := by
    show body.radixes = _
    rw [hfit, w4]
  refine ⟨?_, hsubq, ?_, ?_⟩
  · unfold Circ.unfold
    rw [hg]; simp only [hbody]
    unfold Circ.replaceWithCircuit
    simp only [hr1, hr2, Bool.and_self, Bool.not_true, Bool.false_eq_true, if_false, ← hk, ← hq]
    have hpop : c.pop (some ((k : Int), (q0 : Int))) = (c.removeAt k q0, .ok o) := by
      unfold Circ.pop; simp [getOp_nat c k q0 o hlt hq0n hcell]
    rw [hpop]
    have e1 : ((setParams body o.par).numQudits != o.loc.length) = false := by
      rw [bne_eq_false_iff_eq]; exact hsubq
    have e2 : ((setParams body o.par).radixes != o.loc.map (c.radixes.getD · 0)) = false := by
      rw [bne_eq_false_iff_eq]; exact hsubr
    simp only [e1, e2, Bool.false_eq_true, if_false]
  · intro x hx
    rw [checkValid_congr c _ _ (removeAt_radixes c k q0)]
    exact checkValid_mapLoc c _ o.loc x (mem_ops_wf _ hsubinv x hx) hsubq w3 hsubr
  · intro x hx i hi
    simp only [Op.mapLoc, List.mem_map] at hi
    obtain ⟨j, hj, rfl⟩ := hi
    have hjl : j < o.loc.length := by
      have := (mem_ops_wf _ hsubinv x hx).2.2.1 j hj
      omega
    rw [getD_nat_of_lt _ _ hjl]
    exact List.getElem_mem _

/-- **cells of earlier cycles survive an `unfold`** (they can only gain operations, and only when
the block was alone in the last cycle, so that its body is appended) -/
theorem unfold_cell_below (c : Circ) (hinv : c.Inv) (b : Blocks) (p : Int × Int) (k q0 : Nat)
    (o : Op) (body : Circ) (hg : c.getOp p = .ok (k, q0, o)) (hbody : b.body? o.gid = some body)
    (hbinv : body.Inv) (hfit : body.radixes = o.rad) (t : Nat) (ht : t < k) (q : Nat) (y : Op)
    (hy : c.cell t q = some y) : (c.unfold b p).1.cell t q = some y := by
  obtain ⟨hunf, hsubq, hvalid, _⟩ := unfold_decomp c hinv b p k q0 o body hg hbody hbinv hfit
  obtain ⟨_, _, _, _, hcell⟩ := getOp_spec c p k q0 o hg
  have hlt := cell_lt c k q0 o hcell
  have h1 : (c.removeAt k q0).cell t q = some y := by
    rw [cell_eq_of_take_eq c _ k (removeAt_take c k q0) t ht q]; exact hy
  rw [hunf]
  by_cases hkc : k < (c.removeAt k q0).numCycles
  · rw [insertCircuit_eq_lt _ _ o.loc k hsubq hkc]
    have hk' : k < (c.removeAt k q0).cycles.length := hkc
    obtain ⟨rest', hc, _⟩ := insF_fold_form k ((c.removeAt k q0).cycles.take k)
      (by rw [List.length_take]; omega) (c.removeAt k q0).cycles[k]
      ((c.removeAt k q0).cycles.drop (k + 1)) _ _ (fun x hx => hx) (c.removeAt k q0)
      ((c.removeAt k q0).cycles.drop k) (List.take_append_drop k _).symm
      ⟨[], [], by
        simp only [List.nil_append, List.append_nil]; exact List.drop_eq_getElem_cons hk',
        by simp, by simp⟩
      (by
        intro z hz
        rw [List.mem_map] at hz
        obtain ⟨x, hx, rfl⟩ := hz
        exact hvalid x ((mem_iterRev _ x).1 hx))
    rw [cell_eq_of_take_eq (c.removeAt k q0) _ k (by
      rw [hc, List.take_left' (by rw [List.length_take]; omega)]) t ht q]
    exact h1
  · rw [insertCircuit_eq_ge _ _ o.loc k hsubq (Nat.le_of_not_lt hkc),
      appendCircuit_eq _ _ o.loc hsubq]
    apply appF_fold_cell_mono _ _ _ t q y h1
    intro z hz
    rw [List.mem_map] at hz
    obtain ⟨x, hx, rfl⟩ := hz
    exact hvalid x ((mem_iter _ x).1 hx)

/-- **the other operations of the block's cycle move together**: after `unfold` at cycle `k` they
stand, each at its `location[0]`, in ONE cycle `K' ≥ k`; the cycles from `k` to `K'` hold nothing
on their qudits (only operations of the unfolded body), and the cycles before `k` are unchanged -/
theorem unfold_same_cycle (c : Circ) (hinv : c.Inv) (b : Blocks) (p : Int × Int) (k q0 : Nat)
    (o : Op) (body : Circ) (hg : c.getOp p = .ok (k, q0, o)) (hbody : b.body? o.gid = some body)
    (hbinv : body.Inv) (hfit : body.radixes = o.rad) :
    ∃ K', k ≤ K' ∧ ∀ y, (∃ h : k < c.cycles.length, y ∈ c.cycles[k]) → y ≠ o →
      (c.unfold b p).1.cell K' y.head = some y ∧
      (∀ t, k ≤ t → t < K' → (c.unfold b p).1.cell t y.head = none) ∧
      (∀ t, t < k → ∀ q, (c.unfold b p).1.cell t q = c.cell t q) := by
  obtain ⟨hunf, hsubq, hvalid, hlocs⟩ := unfold_decomp c hinv b p k q0 o body hg hbody hbinv hfit
  obtain ⟨_, _, _, _, hcell⟩ := getOp_spec c p k q0 o hg
  obtain ⟨hlt, hmem, hq0⟩ := cell_mem c k q0 o hcell
  have hcyk := List.getElem_mem hlt
  have hinvU : (c.unfold b p).1.Inv := by
    obtain ⟨_, _, _, h, _⟩ := unfold_timeline c hinv b p k q0 o body hg hbody hbinv hfit
    exact h
  have hpw := hinv.2.1 _ hcyk
  have hne : ∀ x ∈ c.cycles[k], x.loc ≠ [] := fun x hx => (hinv.2.2 _ hcyk x hx).1
  by_cases hex : ∃ y, y ∈ c.cycles[k] ∧ y ≠ o
  · -- the insert branch: the filtered cycle is not empty
    have hfilt : ∀ y, y ∈ c.cycles[k] → y ≠ o →
        y ∈ c.cycles[k].filter (fun x => !x.on q0) := by
      intro y hy hyo
      rw [List.mem_filter]
      refine ⟨hy, ?_⟩
      have hind := indep_of_mem _ hpw hmem hy (fun e => hyo e.symm)
      have : q0 ∉ y.loc := hind q0 hq0
      simpa [Op.on] using this
    have hc1 : (c.removeAt k q0).cycles =
        c.cycles.take k ++ (c.cycles[k].filter (fun x => !x.on q0)) :: c.cycles.drop (k + 1) := by
      obtain ⟨y, hy, hyo⟩ := hex
      have hnonempty : (c.cycles[k].filter (fun x => !x.on q0)).isEmpty = false := by
        cases h : c.cycles[k].filter (fun x => !x.on q0) with
        | nil => have := hfilt y hy hyo; rw [h] at this; simp at this
        | cons _ _ => rfl
      unfold Circ.removeAt
      dsimp only
      rw [getD_of_lt _ _ hlt, hnonempty]
      simp only [Bool.false_eq_true, if_false]
      rw [List.set_eq_take_append_cons_drop, if_pos hlt]
    have hkc : k < (c.removeAt k q0).numCycles := by
      simp only [Circ.numCycles, hc1, List.length_append, List.length_cons, List.length_take]
      omega
    obtain ⟨rest', hc, NEW, ADDED, rfl, hN, hA⟩ := insF_fold_form k (c.cycles.take k)
      (by rw [List.length_take]; omega) (c.cycles[k].filter (fun x => !x.on q0))
      (c.cycles.drop (k + 1)) _ _ (fun x hx => hx) (c.removeAt k q0) _ hc1
      ⟨[], [], by simp, by simp, by simp⟩
      (by
        intro z hz
        rw [List.mem_map] at hz
        obtain ⟨x, hx, rfl⟩ := hz
        exact hvalid x ((mem_iterRev _ x).1 hx))
    have hcyc : (c.unfold b p).1.cycles = c.cycles.take k ++ (NEW ++
        (c.cycles[k].filter (fun x => !x.on q0) ++ ADDED) :: c.cycles.drop (k + 1)) := by
      rw [hunf, insertCircuit_eq_lt _ _ o.loc k hsubq hkc]; exact hc
    have hlenpre : (c.cycles.take k).length = k := by rw [List.length_take]; omega
    refine ⟨k + NEW.length, by omega, ?_⟩
    intro y hy hyo
    obtain ⟨_, hy⟩ := hy
    have hyf := hfilt y hy hyo
    have hyloc : y.head ∈ y.loc := head_mem_loc y (hne y hy)
    have hyo_ind : ∀ i ∈ o.loc, i ≠ y.head := by
      intro i hi e
      have hind := indep_of_mem _ hpw hmem hy (fun e => hyo e.symm)
      exact hind i hi (e ▸ hyloc)
    refine ⟨?_, ?_, ?_⟩
    · have hltK : k + NEW.length < (c.unfold b p).1.cycles.length := by
        rw [hcyc]; simp [hlenpre] <;> omega
      have hget : (c.unfold b p).1.cycles[k + NEW.length] =
          c.cycles[k].filter (fun x => !x.on q0) ++ ADDED := by
        simp only [hcyc]
        rw [List.getElem_append_right (by omega)]
        simp only [hlenpre, Nat.add_sub_cancel_left]
        rw [List.getElem_append_right (by omega)]
        simp
      apply cell_of_mem _ hinvU _ _ _ hltK _ hyloc
      rw [hget]; exact List.mem_append_left _ hyf
    · intro t h1 h2
      have hltT : t < (c.unfold b p).1.cycles.length := by
        rw [hcyc]; simp [hlenpre] <;> omega
      have hget : (c.unfold b p).1.cycles[t] = NEW[t - k]'(by omega) := by
        simp only [hcyc]
        rw [List.getElem_append_right (by omega)]
        simp only [hlenpre]
        rw [List.getElem_append_left (by omega)]
      unfold Circ.cell
      rw [getD_of_lt _ _ hltT, hget, List.find?_eq_none]
      intro z hz hon
      have hzall := hN _ (List.getElem_mem _) z hz
      rw [List.mem_map] at hzall
      obtain ⟨x, hx, rfl⟩ := hzall
      have hi : y.head ∈ (x.mapLoc o.loc).loc := by simpa [Op.on] using hon
      exact hyo_ind _ (hlocs x ((mem_iterRev _ x).1 hx) _ hi) rfl
    · intro t ht q
      apply cell_eq_of_take_eq c _ k _ t ht q
      rw [hcyc, List.take_left' hlenpre]
  · -- no other operation in the cycle: nothing to show
    refine ⟨k, Nat.le_refl _, ?_⟩
    intro y hy hyo
    exact absurd ⟨y, hy.2, hyo⟩ hex

/-! ## the chain of single unfolds -/
/-- `c'` is obtained from `c` by unfolding, one after the other, the listed operations, each at a
cycle not before its listed cycle where it stands at that moment, every `unfold` succeeding -/
inductive UnfoldChain (b : Blocks) : Circ → List (Nat × Op) → Circ → Prop
  | nil (c : Circ) : UnfoldChain b c [] c
  | cons (c : Circ) (K : Nat) (x : Nat × Op) (L : List (Nat × Op)) (c' : Circ) :
      x.1 ≤ K → c.cell K x.2.head = some x.2 →
      (c.unfold b ((K : Int), (x.2.head : Int))).2 = .ok () →
      UnfoldChain b (c.unfold b ((K : Int), (x.2.head : Int))).1 L c' →
      UnfoldChain b c (x :: L) c'

/-- the position invariant of the batch: blocks of earlier cycles stand where they stood, the
remaining blocks of the current cycle `top` stand together in cycle `Kt` -/
def BuPos (acc : Circ) (top Kt : Nat) (x : Nat × Op) : Prop :=
  x.1 ≤ top ∧ (x.1 < top → acc.cell x.1 x.2.head = some x.2) ∧
    (x.1 = top → acc.cell Kt x.2.head = some x.2 ∧
      ∀ t, top ≤ t → t < Kt → acc.cell t x.2.head = none)

theorem buStep_fold_ok (b : Blocks) (hb : b.HF) (L : List (Nat × Op)) :
    ∀ (acc : Circ) (top Kt : Nat), acc.Inv → Fits b acc → top ≤ Kt →
      L.Pairwise (fun x y => y.1 ≤ x.1 ∧ x ≠ y) →
      (∀ x ∈ L, ∃ body, b.body? x.2.gid = some body) →
      (∀ x ∈ L, BuPos acc top Kt x) →
      (L.foldl (buStep b) (acc, .ok ())).2 = .ok () ∧
        UnfoldChain b acc L (L.foldl (buStep b) (acc, .ok ())).1 := by
  induction L with
  | nil => intro acc _ _ _ _ _ _ _ _; exact ⟨rfl, UnfoldChain.nil acc⟩
  | cons x L' ih =>
    intro acc top Kt hinv hfit htK hpw hblk hpos
    rw [List.pairwise_cons] at hpw
    obtain ⟨hxle, hx1, hx2⟩ := hpos x (by simp)
    -- the cycle where `x` stands, shared with the rest of its group
    have key : ∃ K, x.1 ≤ K ∧ acc.cell K x.2.head = some x.2 ∧
        (∀ t, x.1 ≤ t → t < K → acc.cell t x.2.head = none) ∧
        ∀ y ∈ L', BuPos acc x.1 K y := by
      by_cases hlt : x.1 < top
      · refine ⟨x.1, Nat.le_refl _, hx1 hlt, fun t h1 h2 => by omega, ?_⟩
        intro y hy
        obtain ⟨hyle, hy1, _⟩ := hpos y (by simp [hy])
        have hyx := (hpw.1 y hy).1
        exact ⟨hyx, fun h => hy1 (by omega),
          fun h => ⟨h ▸ hy1 (by omega), fun t h1 h2 => by omega⟩⟩
      · have hxt : x.1 = top := by omega
        obtain ⟨h1, h2⟩ := hx2 hxt
        refine ⟨Kt, ?_, h1, fun t h3 h4 => h2 t (by omega) h4, ?_⟩
        · omega
        · intro y hy
          obtain ⟨hyle, hy1, hy2⟩ := hpos y (by simp [hy])
          exact ⟨by omega, fun h => hy1 (by omega), fun h => by
            obtain ⟨a1, a2⟩ := hy2 (by omega)
            exact ⟨a1, fun t h3 h4 => a2 t (by omega) h4⟩⟩
    obtain ⟨K, hK1, hK2, hK3, hrest⟩ := key
    obtain ⟨body, hbody⟩ := hblk x (by simp)
    obtain ⟨hKlt, hxmem, _⟩ := cell_mem acc K x.2.head x.2 hK2
    have hwf := hinv.2.2 _ (List.getElem_mem hKlt) x.2 hxmem
    have hhead : x.2.head < acc.numQudits := hwf.2.2.1 _ (head_mem_loc x.2 hwf.1)
    have hg : acc.getOp ((K : Int), (x.2.head : Int)) = .ok (K, x.2.head, x.2) :=
      getOp_nat acc K x.2.head x.2 hKlt hhead hK2
    have hxops : x.2 ∈ acc.ops := getOp_mem_ops acc _ K x.2.head x.2 hg
    have hbinv := (hb _ body hbody).1
    have hbfit := hfit x.2 hxops body hbody
    obtain ⟨_, _, hok, hinvU, _⟩ :=
      unfold_timeline acc hinv b _ K x.2.head x.2 body hg hbody hbinv hbfit
    have hfitU := unfold_fits acc hinv b hb hfit _ K x.2.head x.2 body hg hbody
    have hseek : acc.seekOp x.2 x.2.head x.1 (acc.numCycles - x.1) = K :=
      seekOp_spec acc x.2 x.2.head _ x.1 K hK1 (by simp only [Circ.numCycles]; omega) hK2
        (fun t h1 h2 => by rw [hK3 t h1 h2]; simp)
    have hstep : buStep b (acc, .ok ()) x =
        ((acc.unfold b ((K : Int), (x.2.head : Int))).1, .ok ()) := by
      unfold buStep
      simp only [hseek]
      exact Prod.ext rfl hok
    simp only [List.foldl_cons]
    rw [hstep]
    obtain ⟨K', hK', hsame⟩ :=
      unfold_same_cycle acc hinv b _ K x.2.head x.2 body hg hbody hbinv hbfit
    have hposU : ∀ y ∈ L', BuPos (acc.unfold b ((K : Int), (x.2.head : Int))).1 x.1 K' y := by
      intro y hy
      obtain ⟨hyle, hy1, hy2⟩ := hrest y hy
      refine ⟨hyle, ?_, ?_⟩
      · intro h
        exact unfold_cell_below acc hinv b _ K x.2.head x.2 body hg hbody hbinv hbfit y.1
          (by omega) _ _ (hy1 h)
      · intro h
        obtain ⟨a1, a2⟩ := hy2 h
        obtain ⟨hlt2, hymem, _⟩ := cell_mem acc K y.2.head y.2 a1
        have hne : y.2 ≠ x.2 := by
          intro e
          exact (hpw.1 y hy).2 (Prod.ext h.symm e.symm)
        obtain ⟨b1, b2, b3⟩ := hsame y.2 ⟨hlt2, hymem⟩ hne
        refine ⟨b1, ?_⟩
        intro t h1 h2
        by_cases htK : t < K
        · rw [b3 t htK]; exact a2 t h1 htK
        · exact b2 t (by omega) h2
    obtain ⟨r1, r2⟩ := ih _ x.1 K' hinvU hfitU (by omega) hpw.2 (fun y hy => hblk y (by simp [hy])) hposU
    exact ⟨r1, UnfoldChain.cons acc K x L' _ hK1 hK2 hok r2⟩

/-! ## the call -/
theorem mapM_ok {α β ε : Type} (f : α → Except ε β) (l : List α)
    (h : ∀ a ∈ l, ∃ r, f a = .ok r) :
    ∃ rs, l.mapM f = .ok rs ∧ (∀ r, r ∈ rs ↔ ∃ a ∈ l, f a = .ok r) := by
  induction l with
  | nil => exact ⟨[], by simp [pure, Except.pure], by simp⟩
  | cons a t ih =>
    obtain ⟨r, hr⟩ := h a (by simp)
    obtain ⟨rs, h1, h2⟩ := ih (fun x hx => h x (by simp [hx]))
    refine ⟨r :: rs, ?_, ?_⟩
    · simp [List.mapM_cons, hr, h1, bind, Except.bind, pure, Except.pure]
    · intro r'
      simp only [List.mem_cons, h2]
      constructor
      · rintro (rfl | ⟨x, hx, hfx⟩)
        · exact ⟨a, Or.inl rfl, hr⟩
        · exact ⟨x, Or.inr hx, hfx⟩
      · rintro ⟨x, (rfl | hx), hfx⟩
        · rw [hr] at hfx; injection hfx with e; exact Or.inl e.symm
        · exact Or.inr ⟨x, hx, hfx⟩

theorem flatMap_range_pairwise (n : Nat) (G : Nat → List (Nat × Op))
    (h1 : ∀ j, ∀ x ∈ G j, x.1 = j) (h2 : ∀ j, (G j).Nodup) :
    ((List.range n).flatMap G).Pairwise (fun a b => a.1 ≤ b.1 ∧ b ≠ a) ∧
      ∀ x ∈ (List.range n).flatMap G, x.1 < n := by
  induction n with
  | zero => simp
  | succ n ih =>
    rw [List.range_succ, List.flatMap_append]
    simp only [List.flatMap_cons, List.flatMap_nil, List.append_nil]
    constructor
    · rw [List.pairwise_append]
      refine ⟨ih.1, ?_, ?_⟩
      · apply List.Pairwise.imp_of_mem _ (h2 n)
        intro a b' ha hb hab
        exact ⟨by rw [h1 n a ha, h1 n b' hb]; exact Nat.le_refl _, fun e => hab e.symm⟩
      · intro a ha b' hb
        have := ih.2 a ha
        have hbn := h1 n b' hb
        exact ⟨by omega, fun e => by rw [e] at hbn; omega⟩
    · intro x hx
      rcases List.mem_append.mp hx with hx | hx
      · have := ih.2 x hx; omega
      · rw [h1 n x hx]; omega

theorem buSorted_props (c : Circ) (found : List (Nat × Nat × Op)) :
    (buSorted c found).Pairwise (fun a b => a.1 ≤ b.1 ∧ b ≠ a) ∧
    ∀ k o, (k, o) ∈ buSorted c found ↔ k < c.numCycles ∧ ∃ q, (k, q, o) ∈ found := by
  constructor
  · apply (flatMap_range_pairwise c.numCycles _ ?_ ?_).1
    · intro j x hx
      simp only [List.mem_map] at hx
      obtain ⟨o, _, rfl⟩ := hx; rfl
    · intro j
      apply List.Nodup.map_on (fun a _ b' _ h => by simpa using h)
      apply (sortBy_perm _ _).nodup_iff.2
      apply List.Nodup.map_on _ ((nodup_dedupOps _).filter _)
      intro x hx y hy hxy
      have hx1 : x.1 = j := by simpa using (List.mem_filter.mp hx).2
      have hy1 : y.1 = j := by simpa using (List.mem_filter.mp hy).2
      exact Prod.ext (by rw [hx1, hy1]) hxy
  · intro k o
    simp only [buSorted, List.mem_flatMap, List.mem_range, List.mem_map, Prod.mk.injEq, mem_sortBy,
      List.mem_filter, mem_dedupOps, Prod.exists, beq_iff_eq]
    constructor
    · rintro ⟨k', hk', o', ⟨a, b', ⟨⟨a', q, o'', hm, rfl, rfl⟩, rfl⟩, rfl⟩, rfl, rfl⟩
      exact ⟨hk', q, hm⟩
    · rintro ⟨hk, q, hm⟩
      exact ⟨k, hk, o, ⟨k, o, ⟨⟨k, q, o, hm, rfl, rfl⟩, rfl⟩, rfl⟩, rfl, rfl⟩

/-- **`batch_unfold` on points that all hold blocks of the table completes**, and the result is
reached by a chain of successful single `unfold`s: one for every listed block (duplicates
collapsed), from the last to the first, each at the cycle (not before its listed cycle) where the
block stands at that moment. -/
theorem batchUnfold_ok (c : Circ) (hinv : c.Inv) (b : Blocks) (hb : b.HF) (hfit : Fits b c)
    (pts : List (Int × Int))
    (hpts : ∀ p ∈ pts, ∃ k q o, c.getOp p = .ok (k, q, o) ∧ ∃ body, b.body? o.gid = some body) :
    ∃ found, pts.mapM c.getOp = .ok found ∧ (∀ r, r ∈ found ↔ ∃ p ∈ pts, c.getOp p = .ok r) ∧
      (c.batchUnfold b pts).2 = .ok () ∧
      UnfoldChain b c (buSorted c found).reverse (c.batchUnfold b pts).1 := by
  obtain ⟨found, hm, hmem⟩ := mapM_ok c.getOp pts (fun p hp => by
    obtain ⟨k, q, o, h, _⟩ := hpts p hp; exact ⟨_, h⟩)
  refine ⟨found, hm, hmem, ?_⟩
  rw [batchUnfold_eq, hm]
  dsimp only
  obtain ⟨hpw, hmemS⟩ := buSorted_props c found
  have hS : ∀ x ∈ (buSorted c found).reverse, x.1 < c.numCycles ∧
      c.cell x.1 x.2.head = some x.2 ∧ ∃ body, b.body? x.2.gid = some body := by
    rintro ⟨k, o⟩ hx
    rw [List.mem_reverse] at hx
    obtain ⟨hk, q, hq⟩ := (hmemS k o).1 hx
    obtain ⟨p, hp, hg⟩ := (hmem (k, q, o)).1 hq
    obtain ⟨k', q', o', hg', hbody⟩ := hpts p hp
    rw [hg] at hg'
    injection hg' with e
    simp only [Prod.mk.injEq] at e
    obtain ⟨rfl, rfl, rfl⟩ := e
    obtain ⟨_, _, _, _, hcell⟩ := getOp_spec c p k q o hg
    obtain ⟨hlt, hmemc, _⟩ := cell_mem c k q o hcell
    have hwf := hinv.2.2 _ (List.getElem_mem hlt) o hmemc
    exact ⟨hk, cell_of_mem c hinv k o.head o hlt hmemc (head_mem_loc o hwf.1), hbody⟩
  exact buStep_fold_ok b hb _ c c.numCycles c.numCycles hinv hfit (Nat.le_refl _)
    (List.pairwise_reverse.mpr (hpw.imp (fun {a b'} h => ⟨h.1, h.2⟩)))
    (fun x hx => (hS x hx).2.2)
    (fun x hx => ⟨Nat.le_of_lt (hS x hx).1, fun _ => (hS x hx).2.1,
      fun h => absurd (hS x hx).1 (by omega)⟩)

end BqVerif.Circ
