import BqVerif.Model.Kron
import BqVerif.Proofs.GraphPerm
/-!
Index-arithmetic facts about the Kronecker/builder model `Model/Kron.lean` and the link to
`PermutationMatrix.from_qudit_location` (`Model/Graph.lean`).

`Model/Graph.lean` abstracts the `UnitaryBuilder`: `permFromLocation` ASSUMES that
`perm_builder.apply_left(swap_utry, (index, pos))` acts on a column index as the digit swap and that
the last applied swap acts first.  Here this assumption is discharged inside Lean: running the builder
model `Kron.build` on the swap sequence of `swapLoop` gives exactly the permutation matrix
`permFromLocation` (`build_swapLoop`), hence `permSpec` (`build_swapLoop_spec`).

Core only, no Mathlib.
-/
namespace BqVerif.Kron
open BqVerif.Graph (swapDigits genSwapRow applySwaps swapLoop permFromLocation permSpec)

/-! ### `Mono.at` on a tabulated function -/
theorem at_eq_getElem (m : Mono) (c : Nat) (h : c < m.length) : m.at c = m[c] := by
  simp [Mono.at, List.getD_eq_getElem?_getD, List.getElem?_eq_getElem h]

theorem at_map_range (d : Nat) (f : Nat → Nat × Nat) (c : Nat) (h : c < d) :
    Mono.at ((List.range d).map f) c = f c := by
  rw [at_eq_getElem _ _ (by simpa using h)]
  simp

/-! ### (B) product of monomial matrices -/
theorem mul_length (a b : Mono) : (mul a b).length = b.length := by simp [mul]

/-- `(A·B)` sends the column `c` to `A(B(c))`, the phases add. -/
theorem mul_at (a b : Mono) (c : Nat) (hc : c < b.length) :
    (mul a b).at c = ((a.at (b.at c).1).1, ((b.at c).2 + (a.at (b.at c).1).2) % 4) := by
  rw [at_eq_getElem _ _ (by rw [mul_length]; exact hc), at_eq_getElem b c hc]
  simp [mul]

/-! ### (A) Kronecker product -/
theorem otimes_length (a b : Mono) : (otimes a b).length = a.length * b.length := by
  unfold otimes
  induction a with
  | nil => simp
  | cons e a ih =>
    rw [List.flatMap_cons, List.length_append, ih, List.length_map, List.length_cons]
    rw [Nat.add_mul, Nat.one_mul, Nat.add_comm]

theorem flatMap_block_getElem? {α β : Type} (a : List α) (L : Nat) (g : α → List β)
    (hg : ∀ e ∈ a, (g e).length = L) (c1 c2 : Nat) (h1 : c1 < a.length) (h2 : c2 < L) :
    (a.flatMap g)[c1 * L + c2]? = (g a[c1])[c2]? := by
  induction a generalizing c1 with
  | nil => simp at h1
  | cons e a ih =>
    rw [List.flatMap_cons]
    have hl : (g e).length = L := hg e (by simp)
    cases c1 with
    | zero =>
      rw [Nat.zero_mul, Nat.zero_add, List.getElem?_append_left (by omega)]
      simp
    | succ c1 =>
      have : (c1 + 1) * L + c2 = (c1 * L + c2) + L := by rw [Nat.add_mul]; omega
      rw [this, List.getElem?_append_right (by omega), hl, Nat.add_sub_cancel]
      rw [ih (fun e he => hg e (by simp [he])) c1 (by simpa using h1)]
      simp

/-- Kronecker product, entry form: the column `c₁·|B| + c₂` goes to the row `r₁·|B| + r₂`,
the phases add. -/
theorem otimes_at (a b : Mono) (c1 c2 : Nat) (h1 : c1 < a.length) (h2 : c2 < b.length) :
    (otimes a b).at (c1 * b.length + c2) =
      ((a.at c1).1 * b.length + (b.at c2).1, ((a.at c1).2 + (b.at c2).2) % 4) := by
  rw [at_eq_getElem a c1 h1, at_eq_getElem b c2 h2]
  unfold Mono.at otimes
  rw [List.getD_eq_getElem?_getD,
    flatMap_block_getElem? a b.length _ (fun e _ => by simp) c1 c2 h1 h2]
  simp [List.getElem?_eq_getElem h2]

/-! ### (C) uniform radix -/
theorem foldl_mul_replicate (n r a : Nat) :
    (List.replicate n r).foldl (· * ·) a = a * r ^ n := by
  induction n generalizing a with
  | zero => simp
  | succ n ih =>
    rw [List.replicate_succ, List.foldl_cons, ih, Nat.pow_succ, Nat.mul_assoc, Nat.mul_comm (r ^ n)]

theorem dim_replicate (n r : Nat) : dim (List.replicate n r) = r ^ n := by
  unfold dim; rw [foldl_mul_replicate, Nat.one_mul]

/-- cons form of the digit recursion (GraphPerm has the snoc form `digits_succ`) -/
theorem graph_digits_succ_cons (r n x : Nat) :
    BqVerif.Graph.digits r (n + 1) x = (x / r ^ n % r) :: BqVerif.Graph.digits r n x := by
  unfold BqVerif.Graph.digits
  rw [List.range_succ_eq_map, List.map_cons, List.map_map]
  congr 1
  apply List.map_congr_left
  intro i _
  simp only [Function.comp]
  have : n + 1 - 1 - (i + 1) = n - 1 - i := by omega
  rw [this]

theorem digits_foldr_replicate (n r x : Nat) :
    (List.replicate n r).foldr
      (fun r (acc : List Nat × Nat) => ((acc.2 % r) :: acc.1, acc.2 / r)) ([], x) =
      (BqVerif.Graph.digits r n x, x / r ^ n) := by
  induction n with
  | zero => simp [BqVerif.Graph.digits]
  | succ n ih =>
    rw [List.replicate_succ, List.foldr_cons, ih, graph_digits_succ_cons, Nat.pow_succ,
      Nat.div_div_eq_div_mul]

/-- for a uniform radix the mixed-radix digits are the base-`r` digits (no range hypothesis needed:
both sides are the `n` low digits of `x`) -/
theorem digits_replicate (n r x : Nat) :
    BqVerif.Kron.digits (List.replicate n r) x = BqVerif.Graph.digits r n x := by
  unfold BqVerif.Kron.digits
  rw [digits_foldr_replicate]

theorem undigits_foldl_replicate (n r : Nat) (ds : List Nat) (h : ds.length = n) (a : Nat) :
    ((List.replicate n r).zip ds).foldl (fun acc rd => acc * rd.1 + rd.2) a =
      ds.foldl (fun acc d => acc * r + d) a := by
  induction ds generalizing n a with
  | nil => simp
  | cons d ds ih =>
    cases n with
    | zero => simp at h
    | succ n =>
      rw [List.replicate_succ, List.zip_cons_cons, List.foldl_cons, List.foldl_cons]
      exact ih n (by simpa using h) _

theorem undigits_replicate (n r : Nat) (ds : List Nat) (h : ds.length = n) :
    BqVerif.Kron.undigits (List.replicate n r) ds = BqVerif.Graph.undigits r ds := by
  unfold BqVerif.Kron.undigits BqVerif.Graph.undigits
  exact undigits_foldl_replicate n r ds h 0

/-- the length guard of `undigits_replicate` is exact: `zip` truncates -/
example : BqVerif.Kron.undigits (List.replicate 1 2) [1, 1] ≠ BqVerif.Graph.undigits 2 [1, 1] := by
  decide

/-! ### (D) the embedded swap gate is the digit swap -/
/-- `gen_swap_unitary(r)` as a monomial matrix -/
def swapMono (r : Nat) : Mono := (List.range (r * r)).map (fun c => (genSwapRow r c, 0))

theorem swapMono_length (r : Nat) : (swapMono r).length = r * r := by simp [swapMono]

theorem swapMono_at (r x y : Nat) (hx : x < r) (hy : y < r) :
    (swapMono r).at (x * r + y) = (y * r + x, 0) := by
  have hlt : x * r + y < r * r := by
    have : (x + 1) * r ≤ r * r := Nat.mul_le_mul_right r hx
    rw [Nat.add_mul] at this; omega
  unfold swapMono
  rw [at_map_range _ _ _ hlt]
  simp only [genSwapRow]
  rw [Nat.mul_comm x r, Nat.mul_add_mod, Nat.mod_eq_of_lt hy, Nat.mul_add_div (by omega),
    Nat.div_eq_of_lt hy, Nat.add_zero]

theorem digits_pair (r x y : Nat) (hx : x < r) (hy : y < r) :
    BqVerif.Kron.digits [r, r] (x * r + y) = [x, y] := by
  simp only [BqVerif.Kron.digits, List.foldr_cons, List.foldr_nil]
  rw [Nat.mul_comm x r, Nat.mul_add_mod, Nat.mod_eq_of_lt hy, Nat.mul_add_div (by omega),
    Nat.div_eq_of_lt hy, Nat.add_zero, Nat.mod_eq_of_lt hx]

theorem embed_length (m : Mono) (loc radixes : List Nat) :
    (embed m loc radixes).length = dim radixes := by simp [embed]

/-- Embedding the swap gate on the qudits `(a, b)` of `n` radix-`r` qudits is the digit swap of the
column index, phase 0.  `a ≠ b` is not needed for this entry formula (for `a = b` both sides are the
identity; such a location is rejected by `Op.ok`, see `swapOp_ok`). -/
theorem embed_swap_at (n r a b : Nat) (ha : a < n) (hb : b < n) (col : Nat) (hcol : col < r ^ n) :
    (embed (swapMono r) [a, b] (List.replicate n r)).at col =
      (BqVerif.Graph.undigits r (swapDigits (BqVerif.Graph.digits r n col) a b), 0) := by
  unfold embed
  simp only
  rw [at_map_range _ _ _ (by rw [dim_replicate]; exact hcol), digits_replicate]
  have hlen := BqVerif.Graph.length_digits r n col
  have hdl := BqVerif.Graph.digits_lt_of_lt r n col hcol
  have hda : (BqVerif.Graph.digits r n col).getD a 0 < r := by
    rw [List.getD_eq_getElem?_getD, List.getElem?_eq_getElem (by omega), Option.getD_some]
    exact hdl _ (List.getElem_mem _)
  have hdb : (BqVerif.Graph.digits r n col).getD b 0 < r := by
    rw [List.getD_eq_getElem?_getD, List.getElem?_eq_getElem (by omega), Option.getD_some]
    exact hdl _ (List.getElem_mem _)
  have hsub : [a, b].map (fun q => (List.replicate n r).getD q 1) = [r, r] := by
    simp [List.getD_eq_getElem?_getD, List.getElem?_replicate, ha, hb]
  rw [hsub]
  have hsc : BqVerif.Kron.undigits [r, r]
      ([a, b].map (fun q => (BqVerif.Graph.digits r n col).getD q 0)) =
      (BqVerif.Graph.digits r n col).getD a 0 * r + (BqVerif.Graph.digits r n col).getD b 0 := by
    simp [BqVerif.Kron.undigits]
  rw [hsc, swapMono_at r _ _ hda hdb, digits_pair r _ _ hdb hda]
  have hset : setDigits (BqVerif.Graph.digits r n col) [a, b]
      [(BqVerif.Graph.digits r n col).getD b 0, (BqVerif.Graph.digits r n col).getD a 0] =
      swapDigits (BqVerif.Graph.digits r n col) a b := by
    simp [setDigits, swapDigits]
  rw [hset, undigits_replicate n r _ (by rw [BqVerif.Graph.length_swapDigits, hlen])]
/-! ### (E) the builder run on the swaps of `from_qudit_location` -/
/-- a swap `(index, pos)` as `apply_left` accepts it on `n` qudits -/
def SwapOK (n : Nat) (s : Nat × Nat) : Prop := s.1 < n ∧ s.2 < n ∧ s.1 ≠ s.2

theorem swapStep_ok (n : Nat) (p0 : List Nat) (k : Nat) (hk : k < n)
    (acc : List (Nat × Nat) × List Nat) (h : BqVerif.Graph.LoopInv n p0 k acc)
    (hs : ∀ s ∈ acc.1, SwapOK n s) : ∀ s ∈ (BqVerif.Graph.swapStep acc k).1, SwapOK n s := by
  unfold BqVerif.Graph.swapStep
  split
  · rename_i hne
    intro s hsm
    rw [List.mem_append, List.mem_singleton] at hsm
    rcases hsm with hsm | rfl
    · exact hs s hsm
    · have hkm : k ∈ acc.2 := h.mem k hk
      have hpl : acc.2.idxOf k < acc.2.length := List.idxOf_lt_length_of_mem hkm
      refine ⟨hk, by rw [← h.len]; exact hpl, ?_⟩
      intro heq
      simp only at heq
      have hpk : acc.2[acc.2.idxOf k] = k := List.getElem_idxOf hpl
      have hkl : k < acc.2.length := by rw [h.len]; exact hk
      have : acc.2.getD k 0 = k := by
        rw [List.getD_eq_getElem?_getD, List.getElem?_eq_getElem hkl, Option.getD_some]
        have h2 : acc.2[k] = acc.2[acc.2.idxOf k] := by congr 1
        rw [h2, hpk]
      rw [this] at hne
      simp at hne
  · exact hs

theorem swapLoop_range_ok (n : Nat) (p0 : List Nat) (hlen : p0.length = n) (hmem : ∀ q < n, q ∈ p0)
    (k : Nat) (hk : k ≤ n) :
    ∀ s ∈ ((List.range k).foldl BqVerif.Graph.swapStep ([], p0)).1, SwapOK n s := by
  induction k with
  | zero => simp
  | succ k ih =>
    rw [List.range_succ, List.foldl_append]
    exact swapStep_ok n p0 k (by omega) _
      (BqVerif.Graph.loopInv_range n p0 hlen hmem k (by omega)) (ih (by omega))

/-- every swap `(index, pos)` recorded by the loop of `from_qudit_location` has
`index ≠ pos`, both `< n`: `apply_left` does not raise -/
theorem swapLoop_swaps_ok (n : Nat) (loc : List Nat) (hnd : loc.Nodup) (hlt : ∀ q ∈ loc, q < n) :
    ∀ s ∈ (swapLoop n loc).1, SwapOK n s := by
  rw [BqVerif.Graph.swapLoop_eq, BqVerif.Graph.length_perm0 n loc hnd hlt]
  exact swapLoop_range_ok n _ (BqVerif.Graph.length_perm0 n loc hnd hlt)
    (fun q hq => (BqVerif.Graph.mem_perm0 n loc hlt q).2 hq) n (Nat.le_refl n)

/-- the builder operations of the loop: `apply_left(swap_utry, (index, pos))` per recorded swap -/
def swapOp (r : Nat) (s : Nat × Nat) : Op :=
  { side := .left, inverse := false, loc := [s.1, s.2], radixes := [r, r], m := swapMono r }

def swapOps (r : Nat) (swaps : List (Nat × Nat)) : List Op := swaps.map (swapOp r)

theorem swapOp_ok (n r : Nat) (s : Nat × Nat) (h : SwapOK n s) :
    (swapOp r s).ok (List.replicate n r) = true := by
  obtain ⟨h1, h2, h3⟩ := h
  have hnd : [s.1, s.2].Nodup := by simp [h3]
  have hed : [s.1, s.2].eraseDups = [s.1, s.2] := BqVerif.Graph.eraseDups_eq_self_of_nodup _ hnd
  simp [Op.ok, swapOp, validLocation, hed, h1, h2, swapMono_length, dim,
    List.getD_eq_getElem?_getD, List.getElem?_replicate]

/-- the action of one swap on a column index -/
def swapCol (n r : Nat) (s : Nat × Nat) (c : Nat) : Nat :=
  BqVerif.Graph.undigits r (swapDigits (BqVerif.Graph.digits r n c) s.1 s.2)

theorem mem_of_mem_swapDigits (l : List Nat) (a b : Nat) (ha : a < l.length) (hb : b < l.length)
    (q : Nat) (hq : q ∈ swapDigits l a b) : q ∈ l := by
  have hl := BqVerif.Graph.length_swapDigits l a b
  have := BqVerif.Graph.mem_swapDigits (swapDigits l a b) a b (by omega) (by omega) q hq
  rwa [BqVerif.Graph.swapDigits_swapDigits l a b ha hb] at this

theorem swapCol_lt (n r : Nat) (s : Nat × Nat) (h : SwapOK n s) (c : Nat) (hc : c < r ^ n) :
    swapCol n r s c < r ^ n := by
  have hlen := BqVerif.Graph.length_digits r n c
  have := BqVerif.Graph.undigits_lt r (swapDigits (BqVerif.Graph.digits r n c) s.1 s.2)
    (fun d hd => BqVerif.Graph.digits_lt_of_lt r n c hc d
      (mem_of_mem_swapDigits _ _ _ (by rw [hlen]; exact h.1) (by rw [hlen]; exact h.2.1) d hd))
  rwa [BqVerif.Graph.length_swapDigits, hlen] at this

/-- a monomial matrix is the table of its `at` function -/
theorem tab_ext (m : Mono) (d : Nat) (f : Nat → Nat × Nat) (hlen : m.length = d)
    (h : ∀ c < d, m.at c = f c) : m = (List.range d).map f := by
  apply List.ext_getElem
  · simp [hlen]
  · intro i h1 h2
    rw [← at_eq_getElem m i h1, h i (by omega)]
    simp

/-- permutation matrix (all phases 0) of the column map `f` -/
def permMono (d : Nat) (f : Nat → Nat) : Mono := (List.range d).map (fun c => (f c, 0))

theorem permMono_congr (d : Nat) (f g : Nat → Nat) (h : ∀ c < d, f c = g c) :
    permMono d f = permMono d g := by
  unfold permMono
  apply List.map_congr_left
  intro c hc
  rw [h c (List.mem_range.1 hc)]

theorem embed_swap_eq (n r : Nat) (s : Nat × Nat) (h : SwapOK n s) :
    embed (swapMono r) [s.1, s.2] (List.replicate n r) = permMono (r ^ n) (swapCol n r s) := by
  apply tab_ext
  · rw [embed_length, dim_replicate]
  · intro c hc
    exact embed_swap_at n r s.1 s.2 h.1 h.2.1 c hc

theorem mul_permMono (d : Nat) (f g : Nat → Nat) (hg : ∀ c < d, g c < d) :
    mul (permMono d f) (permMono d g) = permMono d (fun c => f (g c)) := by
  apply tab_ext
  · simp [mul_length, permMono]
  · intro c hc
    rw [mul_at _ _ _ (by simpa [permMono] using hc)]
    unfold permMono
    rw [at_map_range _ _ _ hc]
    simp only
    rw [at_map_range _ _ _ (hg c hc)]
    simp

/-- one `apply_left` of a swap: `U ← U · S`, the swap acts first on the column -/
theorem applyOp_swap (n r : Nat) (s : Nat × Nat) (h : SwapOK n s) (f : Nat → Nat) :
    applyOp (List.replicate n r) (permMono (r ^ n) f) (swapOp r s) =
      permMono (r ^ n) (fun c => f (swapCol n r s c)) := by
  simp only [applyOp, swapOp, Bool.false_eq_true, if_false]
  rw [embed_swap_eq n r s h]
  exact mul_permMono _ _ _ (swapCol_lt n r s h)

theorem applySwaps_cons (s : Nat × Nat) (swaps : List (Nat × Nat)) (ds : List Nat) :
    applySwaps (s :: swaps) ds = swapDigits (applySwaps swaps ds) s.1 s.2 := by
  simp [applySwaps]

theorem applySwaps_inv (n r : Nat) (swaps : List (Nat × Nat)) (hok : ∀ s ∈ swaps, SwapOK n s)
    (ds : List Nat) (hl : ds.length = n) (hd : ∀ d ∈ ds, d < r) :
    (applySwaps swaps ds).length = n ∧ ∀ d ∈ applySwaps swaps ds, d < r := by
  induction swaps with
  | nil => simpa [applySwaps] using ⟨hl, hd⟩
  | cons s swaps ih =>
    obtain ⟨h1, h2⟩ := ih (fun t ht => hok t (by simp [ht]))
    have hs := hok s (by simp)
    rw [applySwaps_cons]
    refine ⟨by rw [BqVerif.Graph.length_swapDigits, h1], ?_⟩
    intro d hdm
    exact h2 d (mem_of_mem_swapDigits _ _ _ (by rw [h1]; exact hs.1) (by rw [h1]; exact hs.2.1) d hdm)

/-- the loop body of `build` -/
def buildStep (radixes : List Nat) (u : Option Mono) (o : Op) : Option Mono :=
  match u with
  | none => none
  | some u => if o.ok radixes then some (applyOp radixes u o) else none

theorem build_eq (radixes : List Nat) (ops : List Op) :
    build radixes ops = ops.foldl (buildStep radixes) (some (identity (dim radixes))) := rfl

/-- the fold of `build`, from any permutation matrix `permMono f` on -/
theorem build_fold (n r : Nat) (swaps : List (Nat × Nat)) (hok : ∀ s ∈ swaps, SwapOK n s)
    (f : Nat → Nat) :
    (swapOps r swaps).foldl (buildStep (List.replicate n r)) (some (permMono (r ^ n) f)) =
    some (permMono (r ^ n)
      (fun c => f (BqVerif.Graph.undigits r (applySwaps swaps (BqVerif.Graph.digits r n c))))) := by
  induction swaps generalizing f with
  | nil =>
    simp only [swapOps, List.map_nil, List.foldl_nil]
    congr 1
    apply permMono_congr
    intro c hc
    simp only [applySwaps, List.reverse_nil, List.foldl_nil]
    rw [BqVerif.Graph.undigits_digits r n c hc]
  | cons s swaps ih =>
    have hs := hok s (by simp)
    simp only [swapOps, List.map_cons, List.foldl_cons, buildStep]
    rw [swapOp_ok n r s hs]
    simp only [if_true]
    rw [applyOp_swap n r s hs]
    have := ih (fun t ht => hok t (by simp [ht])) (fun c => f (swapCol n r s c))
    simp only [swapOps] at this
    rw [this]
    congr 1
    apply permMono_congr
    intro c hc
    congr 1
    obtain ⟨h1, h2⟩ := applySwaps_inv n r swaps (fun t ht => hok t (by simp [ht]))
      (BqVerif.Graph.digits r n c) (BqVerif.Graph.length_digits r n c)
      (BqVerif.Graph.digits_lt_of_lt r n c hc)
    unfold swapCol
    rw [applySwaps_cons]
    have := BqVerif.Graph.digits_undigits r _ h2
    rw [h1] at this
    rw [this]

theorem identity_eq_permMono (d : Nat) : identity d = permMono d (fun c => c) := rfl

/-- **The builder run of `from_qudit_location`.**  `UnitaryBuilder(n, [r]*n)`, then
`apply_left(swap_utry, (index, pos))` for every swap recorded by the loop, in order, then
`get_unitary()`: no apply raises and the result is the permutation matrix of `permFromLocation`
(phases all 0).  This discharges the assumption built into `Graph.permFromLocation`.
No hypothesis on the radix is needed (Python requires `radix ≥ 2`; the model also works for 0, 1). -/
theorem build_swapLoop (n r : Nat) (loc : List Nat) (hnd : loc.Nodup) (hlt : ∀ q ∈ loc, q < n) :
    build (List.replicate n r) (swapOps r (swapLoop n loc).1) =
      some ((List.range (r ^ n)).map (fun c => (permFromLocation n r loc c, 0))) := by
  rw [build_eq, dim_replicate, identity_eq_permMono,
    build_fold n r _ (swapLoop_swaps_ok n loc hnd hlt) (fun c => c)]
  rfl

/-- … hence the matrix of the specification `permSpec` (digit `i` of the row is digit `perm0[i]`
of the column). -/
theorem build_swapLoop_spec (n r : Nat) (loc : List Nat) (hnd : loc.Nodup) (hlt : ∀ q ∈ loc, q < n) :
    build (List.replicate n r) (swapOps r (swapLoop n loc).1) =
      some ((List.range (r ^ n)).map (fun c => (permSpec n r loc c, 0))) := by
  rw [build_swapLoop n r loc hnd hlt]
  congr 1
  apply List.map_congr_left
  intro c _
  rw [BqVerif.Graph.permFromLocation_eq_spec n r loc hnd hlt]

/-- `swapOps` is the op list requested in the task (the record spelled out) -/
example (r : Nat) (swaps : List (Nat × Nat)) : swapOps r swaps = swaps.map (fun s =>
    { side := .left, inverse := false, loc := [s.1, s.2], radixes := [r, r], m := swapMono r }) := rfl

/-! ### non-vacuity, sanity checks, exactness of the guards -/
example : (mul [(1, 1), (0, 2)] [(1, 3), (0, 0)]).at 0 = (0, 1) := by decide
example : (mul [(1, 1), (0, 2)] [(1, 3), (0, 0)]).at 0 =
    (((Mono.at [(1, 1), (0, 2)] (Mono.at [(1, 3), (0, 0)] 0).1).1),
      ((Mono.at [(1, 3), (0, 0)] 0).2 + (Mono.at [(1, 1), (0, 2)] (Mono.at [(1, 3), (0, 0)] 0).1).2) % 4) :=
  mul_at _ _ 0 (by decide)
/-- `mul_at` needs `c < |B|`: outside, `at` is the default `(0,0)` -/
example : (mul [(1, 0), (0, 0)] []).at 0 ≠
    ((Mono.at [(1, 0), (0, 0)] (Mono.at [] 0).1).1,
      ((Mono.at [] 0).2 + (Mono.at [(1, 0), (0, 0)] (Mono.at [] 0).1).2) % 4) := by decide

example : otimes [(1, 1), (0, 0)] [(0, 0), (2, 3), (1, 2)] =
    [(3, 1), (5, 0), (4, 3), (0, 0), (2, 3), (1, 2)] := by decide
example : (otimes [(1, 1), (0, 0)] [(0, 0), (2, 3), (1, 2)]).at (0 * 3 + 1) = (1 * 3 + 2, (1 + 3) % 4) :=
  otimes_at [(1, 1), (0, 0)] [(0, 0), (2, 3), (1, 2)] 0 1 (by decide) (by decide)
/-- `otimes_at` needs `c₂ < |B|`: otherwise the index aliases another block -/
example : (otimes (identity 2) (identity 2)).at (0 * 2 + 2) ≠
    (((identity 2).at 0).1 * 2 + ((identity 2).at 2).1, (((identity 2).at 0).2 + ((identity 2).at 2).2) % 4) := by
  decide

example : BqVerif.Kron.digits (List.replicate 4 3) 77 = [2, 2, 1, 2] := by decide
example : BqVerif.Kron.digits (List.replicate 2 3) 77 = BqVerif.Graph.digits 3 2 77 :=
  digits_replicate 2 3 77
example : BqVerif.Kron.undigits (List.replicate 3 2) [1, 0, 1] = BqVerif.Graph.undigits 2 [1, 0, 1] :=
  undigits_replicate 3 2 [1, 0, 1] rfl
example : dim [2, 3, 4] = 24 := by decide

example : swapMono 3 = [(0, 0), (3, 0), (6, 0), (1, 0), (4, 0), (7, 0), (2, 0), (5, 0), (8, 0)] := by decide
example : (embed (swapMono 2) [0, 2] (List.replicate 3 2)).at 1 =
    (BqVerif.Graph.undigits 2 (swapDigits (BqVerif.Graph.digits 2 3 1) 0 2), 0) :=
  embed_swap_at 3 2 0 2 (by decide) (by decide) 1 (by decide)
example : embed (swapMono 2) [0, 2] (List.replicate 3 2) =
    [(0, 0), (4, 0), (2, 0), (6, 0), (1, 0), (5, 0), (3, 0), (7, 0)] := by decide
/-- `embed_swap_at` needs `col < r^n` -/
example : (embed (swapMono 2) [0, 1] (List.replicate 2 2)).at 5 ≠
    (BqVerif.Graph.undigits 2 (swapDigits (BqVerif.Graph.digits 2 2 5) 0 1), 0) := by decide

example : ∀ s ∈ (swapLoop 3 [1, 2, 0]).1, SwapOK 3 s :=
  swapLoop_swaps_ok 3 [1, 2, 0] (by decide) (by decide)
example : swapOps 2 (swapLoop 3 [1, 2, 0]).1 = [swapOp 2 (0, 2), swapOp 2 (1, 2)] := by
  rw [show (swapLoop 3 [1, 2, 0]).1 = [(0, 2), (1, 2)] by decide]; rfl
example : build (List.replicate 3 2) (swapOps 2 (swapLoop 3 [1, 2, 0]).1) =
    some ((List.range (2 ^ 3)).map (fun c => (permFromLocation 3 2 [1, 2, 0] c, 0))) :=
  build_swapLoop 3 2 [1, 2, 0] (by decide) (by decide)
example : build (List.replicate 3 2) (swapOps 2 (swapLoop 3 [1, 2, 0]).1) =
    some ((List.range (2 ^ 3)).map (fun c => (permSpec 3 2 [1, 2, 0] c, 0))) :=
  build_swapLoop_spec 3 2 [1, 2, 0] (by decide) (by decide)
/-- the table printed by the Python code for `from_qudit_location(3, 2, (1, 2, 0))` -/
example : build (List.replicate 3 2) (swapOps 2 (swapLoop 3 [1, 2, 0]).1) =
    some [(0, 0), (2, 0), (4, 0), (6, 0), (1, 0), (3, 0), (5, 0), (7, 0)] := by decide
/-- the hypotheses of `build_swapLoop` are needed: with a repeated or out-of-range qudit the
builder model raises (`none`) -/
example : build (List.replicate 2 2) (swapOps 2 (swapLoop 2 [1, 1]).1) = none := by decide
example : build (List.replicate 2 2) (swapOps 2 (swapLoop 2 [2]).1) = none := by decide
/-- degenerate radixes are fine in the model -/
example : build (List.replicate 3 1) (swapOps 1 (swapLoop 3 [2, 0]).1) = some [(0, 0)] := by decide
example : build (List.replicate 3 0) (swapOps 0 (swapLoop 3 [2, 0]).1) = some [] := by decide

end BqVerif.Kron
