import BqVerif.Model.Kron
import BqVerif.Proofs.GraphPerm
/-!
Index-arithmetic facts about the Kronecker/builder model `Model/Kron.lean` and the link to
`PermutationMatrix.from_qudit_location` (`Model/Graph.lean`).

`Model/Graph.lean` abstracts the `UnitaryBuilder`: `permFromLocation` ASSUMES that
`perm_builder.apply_left(swap_utry, (index, pos))` acts on a column index as the digit swap and that
the last applied swap acts first.  Here this assumption is discharged inside Lean: running the builder
model `Kron.build` on the swap sequence of `swapLoop` gives exactly the permutation matrix
`permFromLocation` (`build_swapLoop`), hence `permSpec` (`build_swapLoop_spec`).

Core only, no Mathlib.
-/
namespace BqVerif.Kron
open BqVerif.Graph (swapDigits genSwapRow applySwaps swapLoop permFromLocation permSpec)

/-! ### `Mono.at` on a tabulated function -/
theorem at_eq_getElem (m : Mono) (c : Nat) (h : c < m.length) : m.at c = m[c] := by
  simp [Mono.at, List.getD_eq_getElem?_getD, List.getElem?_eq_getElem h]

theorem at_map_range (d : Nat) (f : Nat → Nat × Nat) (c : Nat) (h : c < d) :
    Mono.at ((List.range d).map f) c = f c := by
  rw [at_eq_getElem _ _ (by simpa using h)]
  simp

/-! ### (B) product of monomial matrices -/
theorem mul_length (a b : Mono) : (mul a b).length = b.length := by simp [mul]

/-- `(A·B)` sends the column `c` to `A(B(c))`, the phases add. -/
theorem mul_at (a b : Mono) (c : Nat) (hc : c < b.length) :
    (mul a b).at c = ((a.at (b.at c).1).1, ((b.at c).2 + (a.at (b.at c).1).2) % 4) := by
  rw [at_eq_getElem _ _ (by rw [mul_length]; exact hc), at_eq_getElem b c hc]
  simp [mul]

/-! ### (A) Kronecker product -/
theorem otimes_length (a b : Mono) : (otimes a b).length = a.length * b.length := by
  unfold otimes
  induction a with
  | nil => simp
  | cons e a ih =>
    rw [List.flatMap_cons, List.length_append, ih, List.length_map, List.length_cons]
    rw [Nat.add_mul, Nat.one_mul, Nat.add_comm]

theorem flatMap_block_getElem? {α β : Type} (a : List α) (L : Nat) (g : α → List β)
    (hg : ∀ e ∈ a, (g e).length = L) (c1 c2 : Nat) (h1 : c1 < a.length) (h2 : c2 < L) :
    (a.flatMap g)[c1 * L + c2]? = (g a[c1])[c2]? := by
  induction a generalizing c1 with
  | nil => simp at h1
  | cons e a ih =>
    rw [List.flatMap_cons]
    have hl : (g e).length = L := hg e (by simp)
    cases c1 with
    | zero =>
      rw [Nat.zero_mul, Nat.zero_add, List.getElem?_append_left (by omega)]
      simp
    | succ c1 =>
      have : (c1 + 1) * L + c2 = (c1 * L + c2) + L := by rw [Nat.add_mul]; omega
      rw [this, List.getElem?_append_right (by omega), hl, Nat.add_sub_cancel]
      rw [ih (fun e he => hg e (by simp [he])) c1 (by simpa using h1)]
      simp

/-- Kronecker product, entry form: the column `c₁·|B| + c₂` goes to the row `r₁·|B| + r₂`,
the phases add. -/
theorem otimes_at (a b : Mono) (c1 c2 : Nat) (h1 : c1 < a.length) (h2 : c2 < b.length) :
    (otimes a b).at (c1 * b.length + c2) =
      ((a.at c1).1 * b.length + (b.at c2).1, ((a.at c1).2 + (b.at c2).2) % 4) := by
  rw [at_eq_getElem a c1 h1, at_eq_getElem b c2 h2]
  unfold Mono.at otimes
  rw [List.getD_eq_getElem?_getD,
    flatMap_block_getElem? a b.length _ (fun e _ => by simp) c1 c2 h1 h2]
  simp [List.getElem?_eq_getElem h2]

/-! ### (C) uniform radix -/
theorem foldl_mul_replicate (n r a : Nat) :
    (List.replicate n r).foldl (· * ·) a = a * r ^ n := by
  induction n generalizing a with
  | zero => simp
  | succ n ih =>
    rw [List.replicate_succ, List.foldl_cons, ih, Nat.pow_succ, Nat.mul_assoc, Nat.mul_comm (r ^ n)]

theorem dim_replicate (n r : Nat) : dim (List.replicate n r) = r ^ n := by
  unfold dim; rw [foldl_mul_replicate, Nat.one_mul]

/-- cons form of the digit recursion (GraphPerm has the snoc form `digits_succ`) -/
theorem graph_digits_succ_cons (r n x : Nat) :
    BqVerif.Graph.digits r (n + 1) x = (x / r ^ n % r) :: BqVerif.Graph.digits r n x := by
  unfold BqVerif.Graph.digits
  rw [List.range_succ_eq_map, List.map_cons, List.map_map]
  congr 1
  apply List.map_congr_left
  intro i _
  simp only [Function.comp]
  have : n + 1 - 1 - (i + 1) = n - 1 - i := by omega
  rw [this]

theorem digits_foldr_replicate (n r x : Nat) :
    (List.replicate n r).foldr
      (fun r (acc : List Nat × Nat) => ((acc.2 % r) :: acc.1, acc.2 / r)) ([], x) =
      (BqVerif.Graph.digits r n x, x / r ^ n) := by
  induction n with
  | zero => simp [BqVerif.Graph.digits]
  | succ n ih =>
    rw [List.replicate_succ, List.foldr_cons, ih, graph_digits_succ_cons, Nat.pow_succ,
      Nat.div_div_eq_div_mul]

/-- for a uniform radix the mixed-radix digits are the base-`r` digits (no range hypothesis needed:
both sides are the `n` low digits of `x`) -/
theorem digits_replicate (n r x : Nat) :
    BqVerif.Kron.digits (List.replicate n r) x = BqVerif.Graph.digits r n x := by
  unfold BqVerif.Kron.digits
  rw [digits_foldr_replicate]

theorem undigits_foldl_replicate (n r : Nat) (ds : List Nat) (h : ds.length = n) (a : Nat) :
    ((List.replicate n r).zip ds).foldl (fun acc rd => acc * rd.1 + rd.2) a =
      ds.foldl (fun acc d => acc * r + d) a := by
  induction ds generalizing n a with
  | nil => simp
  | cons d ds ih =>
    cases n with
    | zero => simp at h
    | succ n =>
      rw [List.replicate_succ, List.zip_cons_cons, List.foldl_cons, List.foldl_cons]
      exact ih n (by simpa using h) _

theorem undigits_replicate (n r : Nat) (ds : List Nat) (h : ds.length = n) :
    BqVerif.Kron.undigits (List.replicate n r) ds = BqVerif.Graph.undigits r ds := by
  unfold BqVerif.Kron.undigits BqVerif.Graph.undigits
  exact undigits_foldl_replicate n r ds h 0

/-- the length guard of `undigits_replicate` is exact: `zip` truncates -/
example : BqVerif.Kron.undigits (List.replicate 1 2) [1, 1] ≠ BqVerif.Graph.undigits 2 [1, 1] := by
  decide

/-! ### (D) the embedded swap gate is the digit swap -/
/-- `gen_swap_unitary(r)` as a monomial matrix -/
def swapMono (r : Nat) : Mono := (List.range (r * r)).map (fun c => (genSwapRow r c, 0))

theorem swapMono_length (r : Nat) : (swapMono r).length = r * r := by simp [swapMono]

theorem swapMono_at (r x y : Nat) (hx : x < r) (hy : y < r) :
    (swapMono r).at (x * r + y) = (y * r + x, 0) := by
  have hlt : x * r + y < r * r := by
    have : (x + 1) * r ≤ r * r := Nat.mul_le_mul_right r hx
    rw [Nat.add_mul] at this; omega
  unfold swapMono
  rw [at_map_range _ _ _ hlt]
  simp only [genSwapRow]
  rw [Nat.mul_comm x r, Nat.mul_add_mod, Nat.mod_eq_of_lt hy, Nat.mul_add_div (by omega),
    Nat.div_eq_of_lt hy, Nat.add_zero]

theorem digits_pair (r x y : Nat) (hx : x < r) (hy : y < r) :
    BqVerif.Kron.digits [r, r] (x * r + y) = [x, y] := by
  simp only [BqVerif.Kron.digits, List.foldr_cons, List.foldr_nil]
  rw [Nat.mul_comm x r, Nat.mul_add_mod, Nat.mod_eq_of_lt hy, Nat.mul_add_div (by omega),
    Nat.div_eq_of_lt hy, Nat.add_zero, Nat.mod_eq_of_lt hx]

theorem embed_length (m : Mono) (loc radixes : List Nat) :
    (embed m loc radixes).length = dim radixes := by simp [embed]

theorem embed_swap_at (n r a b : Nat) (ha : a < n) (hb : b < n) (col : Nat) (hcol : col < r ^ n) :
    (embed (swapMono r) [a, b] (List.replicate n r)).at col =
      (BqVerif.Graph.undigits r (swapDigits (BqVerif.Graph.digits r n col) a b), 0) := by
  unfold embed
  simp only
  rw [at_map_range _ _ _ (by rw [dim_replicate]; exact hcol), digits_replicate]
  have hlen := BqVerif.Graph.length_digits r n col
  have hdl := BqVerif.Graph.digits_lt_of_lt r n col hcol
  have hda : (BqVerif.Graph.digits r n col).getD a 0 < r := by
    rw [List.getD_eq_getElem?_getD, List.getElem?_eq_getElem (by omega), Option.getD_some]
    exact hdl _ (List.getElem_mem _)
  have hdb : (BqVerif.Graph.digits r n col).getD b 0 < r := by
    rw [List.getD_eq_getElem?_getD, List.getElem?_eq_getElem (by omega), Option.getD_some]
    exact hdl _ (List.getElem_mem _)
  have hsub : [a, b].map (fun q => (List.replicate n r).getD q 1) = [r, r] := by
    simp [List.getD_eq_getElem?_getD, List.getElem?_replicate, ha, hb]
  rw [hsub]
  have hsc : BqVerif.Kron.undigits [r, r]
      ([a, b].map (fun q => (BqVerif.Graph.digits r n col).getD q 0)) =
      (BqVerif.Graph.digits r n col).getD a 0 * r + (BqVerif.Graph.digits r n col).getD b 0 := by
    simp [BqVerif.Kron.undigits]
  rw [hsc, swapMono_at r _ _ hda hdb, digits_pair r _ _ hdb hda]
  have hset : setDigits (BqVerif.Graph.digits r n col) [a, b]
      [(BqVerif.Graph.digits r n col).getD b 0, (BqVerif.Graph.digits r n col).getD a 0] =
      swapDigits (BqVerif.Graph.digits r n col) a b := by
    simp [setDigits, swapDigits]
  rw [hset, undigits_replicate n r _ (by rw [BqVerif.Graph.length_swapDigits, hlen])]
end BqVerif.Kron
