import Mathlib.Algebra.BigOperators.Group.List.Basic
import Mathlib.Algebra.Group.TypeTags.Basic
import Mathlib.Algebra.Order.Group.Multiset
import BqVerif.Model.Circ
import BqVerif.Model.CircBlocks
/-!
Shared semantics theory (DESIGN.md §3.1): what a list of operations *denotes*,
without matrices.

* `Semantics M b` — the only facts about "unitaries" that are used: a monoid `M`,
  a map `sem : Op → M`, operations on disjoint qudits commute, and a block
  operation (an op whose gid is in the block table `b`) means the product of its
  expanded contents (`expandOp`: body in iteration order, parameters distributed,
  relabelled through the block's location).
* `den S l` — the ordered product (first applied op = leftmost factor; `M` is read
  as the opposite of matrix multiplication).
* S1 `trace_equiv` — all locations non-empty and `∀ q, proj q l₁ = proj q l₂`
  imply `den l₁ = den l₂`.  No `Nodup` hypothesis: repeated identical gates are fine.
* `perm_of_proj_eq` — the same hypotheses imply `l₁ ~ l₂` (S1 in the commutative
  monoid of multisets of operations).
* S3 `den_flatten` — unfolding block ops (any depth) preserves `den`.
-/
namespace BqVerif.Sem
open BqVerif.Circ

/-! ## generic trace lemma (port of design_spikes/TraceLemma.lean) -/
section Generic
variable {α : Type} {M : Type} [Monoid M]

/-- `q`'s timeline, for an arbitrary location function -/
def gproj (loc : α → List Nat) (q : Nat) (l : List α) : List α :=
  l.filter (fun o => decide (q ∈ loc o))

def GIndep (loc : α → List Nat) (a b : α) : Prop := ∀ q, q ∈ loc a → q ∉ loc b

theorem prod_comm_of_indep (loc : α → List Nat) (sem : α → M)
    (hc : ∀ a b, GIndep loc a b → sem a * sem b = sem b * sem a)
    (a : α) (pre : List α) (h : ∀ x ∈ pre, GIndep loc a x) :
    (pre.map sem).prod * sem a = sem a * (pre.map sem).prod := by
  induction pre with
  | nil => simp
  | cons x t ih =>
    have hx := hc a x (h x (by simp))
    have ht := ih (fun y hy => h y (by simp [hy]))
    simp only [List.map_cons, List.prod_cons]
    rw [mul_assoc, ht, ← mul_assoc, ← hx, mul_assoc]

theorem gtrace_equiv (loc : α → List Nat) (sem : α → M)
    (hc : ∀ a b, GIndep loc a b → sem a * sem b = sem b * sem a) :
    ∀ (l1 l2 : List α), (∀ o ∈ l1, loc o ≠ []) → (∀ o ∈ l2, loc o ≠ []) →
      (∀ q, gproj loc q l1 = gproj loc q l2) → (l1.map sem).prod = (l2.map sem).prod := by
  intro l1
  induction l1 with
  | nil =>
    intro l2 _ h2 hp
    cases l2 with
    | nil => rfl
    | cons b t =>
      exfalso
      have hb := h2 b (by simp)
      obtain ⟨q, hq⟩ := List.exists_mem_of_ne_nil _ hb
      have := hp q
      simp [gproj, hq] at this
  | cons a t ih =>
    intro l2 h1 h2 hp
    have ha := h1 a (by simp)
    obtain ⟨q0, hq0⟩ := List.exists_mem_of_ne_nil _ ha
    have hp0 := hp q0
    have hhead : gproj loc q0 (a :: t) = a :: gproj loc q0 t := by
      simp [gproj, hq0]
    rw [hhead] at hp0
    have hsplit : ∃ pre post, l2 = pre ++ a :: post ∧ ∀ x ∈ pre, q0 ∉ loc x := by
      clear ih h2 hp h1 hhead
      induction l2 with
      | nil => simp [gproj] at hp0
      | cons b r ihr =>
        by_cases hb : q0 ∈ loc b
        · have : gproj loc q0 (b :: r) = b :: gproj loc q0 r := by
            simp [gproj, hb]
          rw [this] at hp0
          injection hp0 with h1 h2
          exact ⟨[], r, by simp [h1], by simp⟩
        · have : gproj loc q0 (b :: r) = gproj loc q0 r := by
            simp [gproj, hb]
          rw [this] at hp0
          obtain ⟨pre, post, he, hpre⟩ := ihr hp0
          exact ⟨b :: pre, post, by simp [he], by
            intro x hx
            rcases List.mem_cons.mp hx with rfl | hx
            · exact hb
            · exact hpre x hx⟩
    obtain ⟨pre, post, he, hpre⟩ := hsplit
    subst he
    have hind : ∀ x ∈ pre, GIndep loc a x := by
      intro x hx q hqa hqx
      have hpq := hp q
      have h1' : gproj loc q (a :: t) = a :: gproj loc q t := by
        simp [gproj, hqa]
      rw [h1'] at hpq
      have : gproj loc q (pre ++ a :: post) = gproj loc q pre ++ gproj loc q (a :: post) := by
        simp [gproj, List.filter_append]
      rw [this] at hpq
      have hne : x ∈ gproj loc q pre := by simp [gproj, List.mem_filter, hx, hqx]
      cases hpp : gproj loc q pre with
      | nil => rw [hpp] at hne; simp at hne
      | cons y ys =>
        rw [hpp] at hpq
        simp only [List.cons_append] at hpq
        injection hpq with hy _
        have hymem : y ∈ gproj loc q pre := by rw [hpp]; simp
        have hy' : y ∈ pre := (List.mem_filter.mp hymem).1
        have := hpre y hy'
        rw [← hy] at this
        exact this hq0
    have hrest : ∀ q, gproj loc q t = gproj loc q (pre ++ post) := by
      intro q
      have hpq := hp q
      have happ : gproj loc q (pre ++ a :: post) = gproj loc q pre ++ gproj loc q (a :: post) := by
        simp [gproj, List.filter_append]
      have happ2 : gproj loc q (pre ++ post) = gproj loc q pre ++ gproj loc q post := by
        simp [gproj, List.filter_append]
      by_cases hqa : q ∈ loc a
      · have hnil : gproj loc q pre = [] := by
          simp only [gproj, List.filter_eq_nil_iff]
          intro x hx
          simp only [decide_eq_true_eq]
          exact fun hqx => hind x hx q hqa hqx
        have e1 : gproj loc q (a :: t) = a :: gproj loc q t := by
          simp [gproj, hqa]
        have e2 : gproj loc q (a :: post) = a :: gproj loc q post := by
          simp [gproj, hqa]
        rw [e1, happ, hnil, e2] at hpq
        simp only [List.nil_append] at hpq
        injection hpq with _ h2
        rw [happ2, hnil, h2]; simp
      · have e1 : gproj loc q (a :: t) = gproj loc q t := by
          simp [gproj, hqa]
        have e2 : gproj loc q (a :: post) = gproj loc q post := by
          simp [gproj, hqa]
        rw [e1, happ, e2] at hpq
        rw [happ2, hpq]
    have h2' : ∀ o ∈ pre ++ post, loc o ≠ [] := by
      intro o ho
      apply h2 o
      rcases List.mem_append.mp ho with h | h
      · exact List.mem_append.mpr (Or.inl h)
      · exact List.mem_append.mpr (Or.inr (by simp [h]))
    have := ih (pre ++ post) (fun o ho => h1 o (by simp [ho])) h2' hrest
    simp only [List.map_cons, List.prod_cons, List.map_append, List.prod_append]
    rw [this, List.map_append, List.prod_append, ← mul_assoc, ← mul_assoc,
      prod_comm_of_indep loc sem hc a pre hind]

end Generic

/-! ## the `Circ.Op` instance -/

theorem on_iff (o : Op) (q : Nat) : o.on q = true ↔ q ∈ o.loc := by
  simp [Op.on]

theorem proj_eq_gproj (q : Nat) (l : List Op) : proj q l = gproj Op.loc q l := by
  unfold proj gproj
  congr 1
  funext o
  by_cases h : q ∈ o.loc <;> simp [Op.on, h]

theorem proj_append (q : Nat) (l1 l2 : List Op) : proj q (l1 ++ l2) = proj q l1 ++ proj q l2 := by
  simp [proj]

/-- The facts about "unitaries" that the theory uses, relative to a block table. -/
structure Semantics (M : Type) [Monoid M] (b : Blocks) where
  sem : Op → M
  /-- gates on disjoint qudits commute -/
  comm : ∀ x y, Indep x y → sem x * sem y = sem y * sem x
  /-- a CircuitGate means its (parameterised, relabelled) contents in iteration order -/
  block : ∀ o body, expandOp b o = some body → sem o = (body.map sem).prod

variable {M : Type} [Monoid M] {b : Blocks}

/-- ordered product of an operation list -/
def den (S : Semantics M b) (l : List Op) : M := (l.map S.sem).prod

theorem den_nil (S : Semantics M b) : den S [] = 1 := by simp [den]
theorem den_cons (S : Semantics M b) (o : Op) (l : List Op) :
    den S (o :: l) = S.sem o * den S l := by simp [den]
theorem den_append (S : Semantics M b) (l1 l2 : List Op) :
    den S (l1 ++ l2) = den S l1 * den S l2 := by simp [den]

/-- **S1** (trace lemma): equal per-qudit timelines give equal denotations. -/
theorem trace_equiv (S : Semantics M b) (l1 l2 : List Op)
    (h1 : ∀ o ∈ l1, o.loc ≠ []) (h2 : ∀ o ∈ l2, o.loc ≠ [])
    (hp : ∀ q, proj q l1 = proj q l2) : den S l1 = den S l2 := by
  unfold den
  apply gtrace_equiv Op.loc S.sem (fun a c h => S.comm a c h) l1 l2 h1 h2
  intro q
  rw [← proj_eq_gproj, ← proj_eq_gproj]
  exact hp q

/-- S1 in the commutative monoid of multisets: equal timelines give equal multisets of
operations (every operation exactly once, parameters and locations unchanged). -/
theorem perm_of_proj_eq (l1 l2 : List Op)
    (h1 : ∀ o ∈ l1, o.loc ≠ []) (h2 : ∀ o ∈ l2, o.loc ≠ [])
    (hp : ∀ q, proj q l1 = proj q l2) : l1.Perm l2 := by
  have key := gtrace_equiv (M := Multiplicative (Multiset Op)) Op.loc
    (fun o => Multiplicative.ofAdd ({o} : Multiset Op))
    (fun a c _ => mul_comm _ _) l1 l2 h1 h2
    (by intro q; rw [← proj_eq_gproj, ← proj_eq_gproj]; exact hp q)
  have conv : ∀ l : List Op,
      (l.map (fun o => Multiplicative.ofAdd ({o} : Multiset Op))).prod
        = Multiplicative.ofAdd (l : Multiset Op) := by
    intro l
    induction l with
    | nil => rfl
    | cons a t ih =>
      rw [List.map_cons, List.prod_cons, ih, ← ofAdd_add]
      congr 1
  rw [conv, conv] at key
  have := Multiplicative.ofAdd.injective key
  exact Quotient.exact this

/-! ## S3: unfolding blocks -/

theorem den_flatMap (S : Semantics M b) (g : Op → List Op) (l : List Op)
    (hg : ∀ o ∈ l, den S (g o) = S.sem o) : den S (l.flatMap g) = den S l := by
  induction l with
  | nil => simp [den]
  | cons a t ih =>
    rw [List.flatMap_cons, den_append, den_cons, hg a (by simp),
      ih (fun o ho => hg o (by simp [ho]))]

/-- one step of `flattenOps` -/
def flatStep (b : Blocks) (fuel : Nat) (o : Op) : List Op :=
  match expandOp b o with
  | some body => flattenOps b fuel body
  | none => [o]

theorem flattenOps_succ (b : Blocks) (fuel : Nat) (l : List Op) :
    flattenOps b (fuel + 1) l = l.flatMap (flatStep b fuel) := by
  rfl

/-- **S3**: replacing block ops by their relabelled, parameter-distributed contents
(to any depth) preserves the denotation. -/
theorem den_flatten (S : Semantics M b) : ∀ (fuel : Nat) (l : List Op),
    den S (flattenOps b fuel l) = den S l := by
  intro fuel
  induction fuel with
  | zero => intro l; rfl
  | succ f ih =>
    intro l
    rw [flattenOps_succ]
    apply den_flatMap
    intro o _
    unfold flatStep
    cases h : expandOp b o with
    | none => simp [den]
    | some body =>
      simp only
      rw [ih body]
      exact (S.block o body h).symm

end BqVerif.Sem
