import BqVerif.Proofs.CircTimeline
/-! In-place `replace`, and relabelling of qudits (renumber / insert_qudit / pop_qudit). -/
namespace BqVerif.Circ

theorem map_replace_split (cy : Cycle) (old o : Op) (hp : cy.Pairwise Indep)
    (hne : old.loc ≠ []) (hmem : old ∈ cy) :
    ∃ A B, cy = A ++ old :: B ∧ cy.map (fun x => if x == old then o else x) = A ++ o :: B := by
  induction cy with
  | nil => simp at hmem
  | cons a t ih =>
    rw [List.pairwise_cons] at hp
    by_cases ha : a = old
    · subst ha
      refine ⟨[], t, rfl, ?_⟩
      simp only [List.map_cons, beq_self_eq_true, if_true, List.nil_append, List.cons.injEq, true_and]
      -- no other element of the cycle equals `a`: it would share a's qudits
      have : ∀ x ∈ t, (x == a) = false := by
        intro x hx
        have hind := hp.1 x hx
        obtain ⟨q, hq⟩ := List.exists_mem_of_ne_nil _ hne
        have : x ≠ a := by
          intro he; subst he; exact hind q hq hq
        simpa using this
      have : t.map (fun x => if x == a then o else x) = t.map id := by
        apply List.map_congr_left
        intro x hx
        simp [this x hx]
      simpa using this
    · have hmem' : old ∈ t := by
        rcases List.mem_cons.mp hmem with h | h
        · exact absurd h.symm ha
        · exact h
      obtain ⟨A, B, h1, h2⟩ := ih hp.2 hmem'
      refine ⟨a :: A, B, by simp [h1], ?_⟩
      have : (a == old) = false := by simpa using ha
      simp only [List.map_cons, this, Bool.false_eq_true, if_false, List.cons_append,
        List.cons.injEq, true_and]
      exact h2

/-- **replace**, same location set: the new operation takes exactly the place of the old one in
the operation sequence (hence in every timeline); nothing else moves. -/
theorem replace_inplace_ops (c : Circ) (k : Nat) (old o : Op) (hinv : c.Inv)
    (hlt : k < c.cycles.length) (hmem : old ∈ c.cycles[k]) :
    ∃ pre post, c.ops = pre ++ old :: post ∧
      (c.cycles.modify k (fun cy => cy.map (fun x => if x == old then o else x))).flatten =
        pre ++ o :: post := by
  have hcyk := List.getElem_mem hlt
  obtain ⟨A, B, h1, h2⟩ := map_replace_split c.cycles[k] old o (hinv.2.1 _ hcyk)
    ((hinv.2.2 _ hcyk old hmem).1) hmem
  refine ⟨(c.cycles.take k).flatten ++ A, B ++ (c.cycles.drop (k + 1)).flatten, ?_, ?_⟩
  · simp only [Circ.ops]
    rw [flatten_split c.cycles k hlt, h1]; simp [List.append_assoc]
  · rw [flatten_modify _ _ _ hlt, h2]; simp [List.append_assoc]

/-- relabelling the qudits of every operation by an injective map relabels the timelines:
the timeline of `f q` in the relabelled list is the relabelled timeline of `q`
(renumber_qudits, insert_qudit, pop_qudit on the surviving qudits). -/
def Op.relabel (f : Nat → Nat) (o : Op) : Op := { o with loc := o.loc.map f }

theorem proj_relabel (f : Nat → Nat) (hf : Function.Injective f) (q : Nat) (l : List Op) :
    proj (f q) (l.map (Op.relabel f)) = (proj q l).map (Op.relabel f) := by
  induction l with
  | nil => simp [proj]
  | cons a t ih =>
    have key : (Op.relabel f a).on (f q) = a.on q := by
      have hiff : f q ∈ a.loc.map f ↔ q ∈ a.loc := by
        constructor
        · intro h
          obtain ⟨x, hx, hfx⟩ := List.mem_map.mp h
          exact hf hfx ▸ hx
        · intro h; exact List.mem_map.mpr ⟨q, h, rfl⟩
      simp only [Op.on, Op.relabel, List.contains_eq_mem]
      exact decide_eq_decide.mpr hiff
    simp only [List.map_cons, proj, List.filter_cons, key]
    split
    · simp only [List.map_cons, List.cons.injEq, true_and]
      exact ih
    · exact ih

/-- a qudit outside the image of the relabelling is idle afterwards -/
theorem proj_relabel_off (f : Nat → Nat) (p : Nat) (hp : ∀ q, f q ≠ p) (l : List Op) :
    proj p (l.map (Op.relabel f)) = [] := by
  simp only [proj, List.filter_eq_nil_iff, List.mem_map, Op.on]
  rintro x ⟨a, _, rfl⟩
  simp only [Op.relabel, List.contains_eq_mem, decide_eq_true_eq]
  intro h
  obtain ⟨q, _, hq⟩ := List.mem_map.mp h
  exact hp q hq

end BqVerif.Circ
