import Mathlib.Analysis.SpecialFunctions.Trigonometric.Basic
import BqVerif.Proofs.Rules
/-! C10 — non-vacuity of `Valid`: the complex numbers with i, 1/√2, cos π/8, sin π/8 (and arbitrary
real half-angles for the free parameters) satisfy the defining equations. -/
namespace BqVerif.Rules
open Real

noncomputable def complexConsts (θ : Nat → ℝ) : Consts ℂ :=
  { i := Complex.I
    h := ((√2 / 2 : ℝ) : ℂ)
    c8 := ((cos (π / 8) : ℝ) : ℂ)
    s8 := ((sin (π / 8) : ℝ) : ℂ)
    vc := fun k => ((cos (θ k / 2) : ℝ) : ℂ)
    vs := fun k => ((sin (θ k / 2) : ℝ) : ℂ) }

theorem complexConsts_valid (θ : Nat → ℝ) : Valid (complexConsts θ) := by
  have h4 : π / 4 = 2 * (π / 8) := by ring
  refine ⟨Complex.I_mul_I, ?_, ?_, ?_, ?_⟩
  · simp only [complexConsts]
    norm_cast
    have : (√2 : ℝ) * √2 = 2 := Real.mul_self_sqrt (by norm_num)
    nlinarith [this]
  · simp only [complexConsts]
    norm_cast
    rw [← Real.cos_pi_div_four, h4, Real.cos_two_mul, ← Real.cos_sq_add_sin_sq (π / 8)]
    ring
  · simp only [complexConsts]
    norm_cast
    rw [← Real.sin_pi_div_four, h4, Real.sin_two_mul]
    ring
  · simp only [complexConsts]
    norm_cast
    have := Real.cos_sq_add_sin_sq (π / 8)
    nlinarith [this]

theorem complexConsts_circle (θ : Nat → ℝ) (k : Nat) :
    (complexConsts θ).vc k * (complexConsts θ).vc k + (complexConsts θ).vs k * (complexConsts θ).vs k = 1 := by
  simp only [complexConsts]
  norm_cast
  have := Real.cos_sq_add_sin_sq (θ k / 2)
  nlinarith [this]

end BqVerif.Rules
