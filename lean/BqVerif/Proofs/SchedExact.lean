import BqVerif.Proofs.TokenServer
/-!
# `schedule_tasks` forwards every task exactly once (valid assignments)

Equality version of `schedule_tok`: when every entry of the observed assignment is the index of
an employee and there is one entry per task, the SUBMIT_BATCH payloads contain each task address
exactly as often as the input.  Consequences for a `Manager`: `send_up_or_schedule_tasks` neither
loses nor duplicates a task.
-/
namespace BqVerif.Runtime

theorem sumBy_ind_nodup_eq (l : List Nat) (x : Nat) (c : Nat) (h : l.Nodup) (hx : x ∈ l) :
    sumBy (fun e => if x = e then c else 0) l = c := by
  induction l with
  | nil => cases hx
  | cons y ys ih =>
    simp only [sumBy]
    have hn := List.nodup_cons.mp h
    by_cases e : x = y
    · subst e
      have : sumBy (fun e => if x = e then c else 0) ys = 0 := by
        apply sumBy_zero
        intro z hz
        have : x ≠ z := fun e => hn.1 (e ▸ hz)
        simp [this]
      simp [this]
    · simp only [e, if_false, Nat.zero_add]
      rcases List.mem_cons.1 hx with hx | hx
      · exact absurd hx e
      · exact ih hn.2 hx

theorem sumBy_filter_eq_of_zero {α} (g : α → Nat) (p : α → Bool) (l : List α)
    (h : ∀ x ∈ l, p x = false → g x = 0) : sumBy g (l.filter p) = sumBy g l := by
  induction l with
  | nil => rfl
  | cons x xs ih =>
    have ih' := ih (fun y hy => h y (List.mem_cons_of_mem _ hy))
    simp only [List.filter_cons]
    cases hp : p x with
    | true => simp only [if_true, sumBy, ih']
    | false =>
      simp only [Bool.false_eq_true, if_false, sumBy, ih', h x List.mem_cons_self hp, Nat.zero_add]

theorem sum_batches_eq (a : Addr) (tasks : List Task) (asg : List Nat) (K : Nat) (idxs : List Nat)
    (h : idxs.Nodup) (hin : ∀ e ∈ asg, e ∈ idxs) (hlen : asg.length = tasks.length) :
    sumBy (fun e => cntA a (batchOf tasks asg K e)) idxs = cntA a tasks := by
  have e1 : sumBy (fun e => cntA a (batchOf tasks asg K e)) idxs
      = sumBy (fun e => sumBy (fun p : Task × Nat =>
          if p.2 = e then (if p.1.addr = a then 1 else 0) else 0) (tasks.zip asg)) idxs :=
    sumBy_congr _ _ _ (fun e _ => cntA_batchOf a tasks asg K e)
  rw [e1]
  have key : ∀ l : List (Task × Nat), (∀ p ∈ l, p.2 ∈ idxs) →
      sumBy (fun e => sumBy (fun p : Task × Nat =>
          if p.2 = e then (if p.1.addr = a then 1 else 0) else 0) l) idxs
        = sumBy (fun p : Task × Nat => if p.1.addr = a then 1 else 0) l := by
    intro l
    induction l with
    | nil => intro _; simp only [sumBy]; exact sumBy_zero _ _ (fun _ _ => rfl)
    | cons p ps ih =>
      intro hp
      simp only [sumBy]
      rw [sumBy_add]
      have := sumBy_ind_nodup_eq idxs p.2 (if p.1.addr = a then 1 else 0) h (hp p List.mem_cons_self)
      rw [this, ih (fun q hq => hp q (List.mem_cons_of_mem _ hq))]
  rw [key _ (by
    intro p hp
    exact hin _ (List.of_mem_zip hp).2)]
  have : ∀ (ts : List Task) (as : List Nat), as.length = ts.length →
      sumBy (fun p : Task × Nat => if p.1.addr = a then 1 else 0) (ts.zip as) = cntA a ts := by
    intro ts
    induction ts with
    | nil => intro as _; simp [sumBy, cntA]
    | cons t ts ih =>
      intro as hl
      cases as with
      | nil => simp at hl
      | cons x xs =>
        simp only [List.zip_cons_cons, sumBy, cntA]
        have := ih xs (by simpa using hl)
        simp only [cntA] at this
        omega
  exact this _ _ hlen

theorem mem_enumFromN_fst {α} (i : Nat) (l : List α) (k : Nat) (h1 : i ≤ k) (h2 : k < i + l.length) :
    k ∈ (enumFromN i l).map (·.1) := by
  induction l generalizing i with
  | nil => simp at h2; omega
  | cons x xs ih =>
    simp only [enumFromN, List.map_cons, List.mem_cons]
    by_cases e : k = i
    · exact Or.inl e
    · right
      apply ih (i + 1) (by omega)
      simp only [List.length_cons] at h2
      omega

/-- **`schedule_tasks` forwards every task exactly once** when the assignment names an employee
    for every task -/
theorem schedule_tok_eq (a : Addr) (b : Boss) (ts : List Task) (asg : List Nat)
    (hin : ∀ e ∈ asg, e < b.emps.length) (hlen : asg.length = ts.length) :
    sumBy (fun p : Nat × List Task => cntA a p.2) (b.schedule ts asg).2 = cntA a ts := by
  unfold Boss.schedule
  split
  · rename_i he
    have : ts = [] := by simpa using he
    simp [sumBy, this, cntA]
  · dsimp only
    rw [sumBy_filter_eq_of_zero _ _ _ (by
      intro x _ hx
      have : x.2 = [] := by simpa using hx
      rw [this]; rfl)]
    rw [sumBy_map, sumBy_sortDesc, sumBy_map]
    have := sum_batches_eq a ts asg (idleList b.emps).length ((enumFromN 0 b.emps).map (·.1))
      (enumFromN_fst_nodup 0 b.emps)
      (fun e he => mem_enumFromN_fst 0 b.emps e (Nat.zero_le _) (by simpa using hin e he)) hlen
    rw [sumBy_map] at this
    exact this

-- ------------------------------------------------------------------ manager
theorem validAssignment_lt (emps : List Emp) (asg : List Nat) (h : validAssignment emps asg = true) :
    ∀ e ∈ asg, e < emps.length := by
  simp only [validAssignment, Bool.and_eq_true, List.all_eq_true, decide_eq_true_eq] at h
  exact h.1.1

theorem tokOut_batches (a : Addr) (f : Nat → NodeId) (msgs : List (Nat × List Task)) :
    tokOut a (msgs.map (fun p => (f p.1, Msg.batch p.2))) = sumBy (fun p : Nat × List Task => cntA a p.2) msgs := by
  simp only [tokOut, sumBy_map]
  rfl

/-- `Manager.sched` with an accepted assignment hands every task to exactly one employee -/
theorem Manager.sched_tok_eq (a : Addr) (g : Manager) (ts : List Task) (asg : List Nat)
    (hn : (g.sched ts asg).note = "ok") : tokOut a (g.sched ts asg).queued = cntA a ts
    ∧ (g.sched ts asg).direct = [] := by
  revert hn
  unfold Manager.sched
  split
  · intro hn; simp at hn
  · rename_i hv
    intro _
    simp only [Bool.or_eq_true, Bool.not_eq_true', bne_iff_ne, ne_eq, not_or, Bool.not_eq_false,
      Decidable.not_not] at hv
    refine ⟨?_, rfl⟩
    show tokOut a (((g.boss.schedule ts asg).2).map
      (fun p => ((g.boss.emps.getD p.1 default).node, Msg.batch p.2))) = cntA a ts
    rw [tokOut_batches a (fun i => (g.boss.emps.getD i default).node)]
    exact schedule_tok_eq a g.boss ts asg (validAssignment_lt _ _ hv.1) hv.2

theorem cntA_take_drop (a : Addr) (k : Nat) (ts : List Task) :
    cntA a (ts.take k) + cntA a (ts.drop k) = cntA a ts := by
  rw [← cntA_append, List.take_append_drop]

theorem updateUp_noTok (g : Manager) : NoTok g.updateUp.2 := by
  unfold Manager.updateUp
  split
  · exact noTok_single _ _ (fun _ => rfl)
  · exact NoTok.nil

theorem Manager.schedLocal_tok_eq (a : Addr) (g : Manager) (ts : List Task) (asg : List Nat)
    (hn : (g.schedLocal ts asg).note = "ok") :
    tokOut a (g.schedLocal ts asg).queued
      = (if g.boss.numIdle != 0 then cntA a (ts.take g.boss.numIdle.toNat) else 0)
    ∧ (g.schedLocal ts asg).direct = [] := by
  revert hn
  unfold Manager.schedLocal
  dsimp only
  split
  · split
    · rename_i h1 h2
      intro hn
      exact absurd hn (by simpa using h2)
    · rename_i h1 h2
      intro _
      have hok : (g.sched (ts.take g.boss.numIdle.toNat) asg).note = "ok" := by simpa using h2
      obtain ⟨e1, _⟩ := Manager.sched_tok_eq a g _ asg hok
      refine ⟨?_, rfl⟩
      show tokOut a ([(NodeId.server, Msg.update g.boss.numIdle)] ++
        (g.sched (ts.take g.boss.numIdle.toNat) asg).queued ++
        (g.sched (ts.take g.boss.numIdle.toNat) asg).st.updateUp.2) = _
      rw [tokOut_append, tokOut_append, e1, updateUp_noTok _ a]
      simp [tokOut, sumBy, tokMsg]
  · intro _; exact ⟨rfl, rfl⟩

/-- **`send_up_or_schedule_tasks` conserves tasks**: what is scheduled below plus what is sent up
    is exactly what came in -/
theorem Manager.sendUpOrSchedule_tok_eq (a : Addr) (g : Manager) (ts : List Task) (asg : List Nat)
    (hn : (g.sendUpOrSchedule ts asg).note = "ok") :
    tokOut a (g.sendUpOrSchedule ts asg).queued = cntA a ts ∧ (g.sendUpOrSchedule ts asg).direct = [] := by
  revert hn
  unfold Manager.sendUpOrSchedule
  dsimp only
  split
  · rename_i h1
    intro hn
    exact absurd hn (by simpa using h1)
  · rename_i h1
    have hok : (g.schedLocal ts asg).note = "ok" := by simpa using h1
    obtain ⟨e1, e2⟩ := Manager.schedLocal_tok_eq a g ts asg hok
    split
    · rename_i hlen
      intro _
      refine ⟨?_, e2⟩
      show tokOut a ((g.schedLocal ts asg).queued ++ [(NodeId.server, Msg.batch (ts.drop g.boss.numIdle.toNat))]) = _
      rw [tokOut_append, e1]
      have hd : tokOut a [(NodeId.server, Msg.batch (ts.drop g.boss.numIdle.toNat))]
          = cntA a (ts.drop g.boss.numIdle.toNat) := by simp [tokOut, sumBy, tokMsg]
      rw [hd]
      split
      · exact cntA_take_drop a _ ts
      · rename_i hz
        have : g.boss.numIdle = 0 := by simpa using hz
        simp [this]
    · rename_i hlen
      intro _
      refine ⟨?_, e2⟩
      rw [e1]
      have hle : ts.length ≤ g.boss.numIdle.toNat := Nat.le_of_not_lt hlen
      split
      · rw [List.take_of_length_le hle]
      · rename_i hz
        have hz' : g.boss.numIdle = 0 := by simpa using hz
        rw [hz'] at hle
        have : ts = [] := List.eq_nil_of_length_eq_zero (Nat.le_zero.1 hle)
        rw [this]; rfl

theorem tokOut_single (a : Addr) (d : NodeId) (m : Msg) : tokOut a [(d, m)] = tokMsg a m := by
  simp [tokOut, sumBy]

theorem mgr_shutdown_noTok (g : Manager) : NoTok g.shutdown.2 := by
  unfold Manager.shutdown
  apply NoTok.append (noTok_shutdownOut _)
  apply NoTok.of_forall
  intro dm hdm a
  simp only [List.mem_cons, List.mem_singleton, List.not_mem_nil, or_false] at hdm
  rcases hdm with rfl | rfl <;> rfl

theorem Manager.fromAbove_conserves (a : Addr) (g : Manager) (m : Msg) (asg : List Nat)
    (hn : (g.fromAbove m asg).note = "ok") : hTok a (g.fromAbove m asg) = tokMsg a m := by
  cases m with
  | submit t =>
    obtain ⟨e1, e2⟩ := Manager.sched_tok_eq a { g with receipt := some t.addr } [t] asg hn
    show tokOut a (Manager.sched _ [t] asg).direct + tokOut a (Manager.sched _ [t] asg).queued = _
    rw [e1, e2]
    simp [tokOut, sumBy, cntA, tokMsg]
  | batch ts =>
    simp only [Manager.fromAbove] at hn ⊢
    split
    · rename_i hh; rw [hh] at hn; simp [Manager.systemError] at hn
    · rename_i t hh
      rw [hh] at hn
      obtain ⟨e1, e2⟩ := Manager.sched_tok_eq a { g with receipt := some t.addr } ts asg hn
      show tokOut a (Manager.sched _ ts asg).direct + tokOut a (Manager.sched _ ts asg).queued = _
      rw [e1, e2]
      simp [tokOut, sumBy, tokMsg]
  | result x v by_ =>
    simp only [Manager.fromAbove] at hn ⊢
    split
    · rename_i hh; rw [if_pos hh] at hn; simp [Manager.systemError] at hn
    · rename_i hh
      rw [if_neg hh] at hn
      split
      · rename_i h2; rw [h2] at hn; simp [Manager.systemError] at hn
      · simp [hTok, tokOut, sumBy]
  | cancel x =>
    show tokOut a [] + tokOut a (g.boss.broadcast (.cancel x)) = 0
    rw [noTok_broadcast_cancel g.boss x a]; rfl
  | shutdown =>
    show tokOut a g.shutdown.2 + tokOut a [] = 0
    rw [mgr_shutdown_noTok g a]; rfl
  | eof =>
    show tokOut a g.shutdown.2 + tokOut a [] = 0
    rw [mgr_shutdown_noTok g a]; rfl
  | _ => simp [Manager.fromAbove, Manager.systemError] at hn

theorem Manager.fromBelow_conserves (a : Addr) (g : Manager) (ei : Nat) (m : Msg) (asg : List Nat)
    (hn : (g.fromBelow ei m asg).note = "ok") : hTok a (g.fromBelow ei m asg) = tokMsg a m := by
  cases m with
  | submit t =>
    obtain ⟨e1, e2⟩ := Manager.sendUpOrSchedule_tok_eq a g [t] asg hn
    show tokOut a (g.sendUpOrSchedule [t] asg).direct + tokOut a (g.sendUpOrSchedule [t] asg).queued = _
    rw [e1, e2]
    simp [tokOut, sumBy, cntA, tokMsg]
  | batch ts =>
    obtain ⟨e1, e2⟩ := Manager.sendUpOrSchedule_tok_eq a g ts asg hn
    show tokOut a (g.sendUpOrSchedule ts asg).direct + tokOut a (g.sendUpOrSchedule ts asg).queued = _
    rw [e1, e2]
    simp [tokOut, sumBy, tokMsg]
  | result x v by_ =>
    simp only [Manager.fromBelow] at hn ⊢
    split
    · rename_i hh; rw [hh] at hn; simp [Manager.systemError] at hn
    · rename_i b' hh
      rw [hh] at hn
      dsimp only at hn ⊢
      split
      · rename_i h1
        rw [if_pos h1] at hn
        split
        · rename_i h2; rw [h2] at hn; simp [Manager.systemError] at hn
        · simp [hTok, tokOut, sumBy, tokMsg]
      · simp [hTok, tokOut, sumBy]
  | waiting n r =>
    simp only [Manager.fromBelow] at hn ⊢
    split
    · rename_i b' hh
      show tokOut a [] + tokOut a ({ g with boss := b' } : Manager).updateUp.2 = 0
      rw [updateUp_noTok _ a]; rfl
    · rename_i hh; rw [hh] at hn; simp [Manager.systemError] at hn
    · rename_i hh; rw [hh] at hn; simp [Manager.systemError] at hn
    · rename_i hh; rw [hh] at hn; simp [Manager.systemError] at hn
  | update d => simp [Manager.fromBelow, hTok, tokOut, sumBy, tokMsg]
  | eof => simp [Manager.fromBelow] at hn
  | error c cls => simp [Manager.fromBelow, hTok, tokOut, sumBy]
  | sysError cls => simp [Manager.fromBelow, hTok, tokOut, sumBy]
  | cancel x => simp [Manager.fromBelow, hTok, tokOut, sumBy]
  | shutdown => simp [Manager.fromBelow, hTok, tokOut, sumBy]
  | cSubmit _ _ => simp [Manager.fromBelow, hTok, tokOut, sumBy]
  | cRequest _ => simp [Manager.fromBelow, hTok, tokOut, sumBy]
  | cStatus _ => simp [Manager.fromBelow, hTok, tokOut, sumBy]
  | cCancel _ => simp [Manager.fromBelow, hTok, tokOut, sumBy]
  | cDisconnect => simp [Manager.fromBelow, hTok, tokOut, sumBy]
  | sResult _ => simp [Manager.fromBelow, hTok, tokOut, sumBy]
  | sStatus _ => simp [Manager.fromBelow, hTok, tokOut, sumBy]
  | sCancelAck => simp [Manager.fromBelow, hTok, tokOut, sumBy]
  | sError _ => simp [Manager.fromBelow, hTok, tokOut, sumBy]

/-- **A manager neither loses nor duplicates a task or a result**: whatever message it handles
    without reporting an error, the tasks and results in the messages it sends are exactly those of
    the message it received (per address). -/
theorem Manager.handle_conserves (a : Addr) (g : Manager) (src : NodeId) (m : Msg) (asg : List Nat)
    (hn : (g.handle src m asg).note = "ok") : hTok a (g.handle src m asg) = tokMsg a m := by
  unfold Manager.handle at hn ⊢
  split
  · rename_i hs; rw [if_pos hs] at hn; exact Manager.fromAbove_conserves a g m asg hn
  · rename_i hs
    rw [if_neg hs] at hn
    split
    · rename_i hh; rw [hh] at hn; simp at hn
    · rename_i ei hh
      rw [hh] at hn
      exact Manager.fromBelow_conserves a g ei m asg hn

theorem setAt_length {α} (l : List α) (i : Nat) (y : α) : (setAt l i y).length = l.length := by
  induction l generalizing i with
  | nil => rfl
  | cons x xs ih => cases i <;> simp [setAt, ih]

theorem setAt_getD_node (l : List Emp) (j : Nat) (e : Emp) (d : Int) (he : l[j]? = some e) (i : Nat) :
    ((setAt l j { e with numTasks := d }).getD i default).node = (l.getD i default).node := by
  induction l generalizing i j with
  | nil => simp at he
  | cons y ys ih =>
    cases j with
    | zero =>
      simp only [List.getElem?_cons_zero, Option.some.injEq] at he
      subst he
      cases i <;> simp [setAt, Emp.node]
    | succ j =>
      cases i with
      | zero => simp [setAt]
      | succ i =>
        simp only [setAt, List.getD_cons_succ]
        exact ih j (by simpa using he) i

/-- `handle_result`'s bookkeeping changes one `num_tasks` and nothing that routing looks at -/
theorem completed_shape (b b' : Boss) (by_ : Int) (h : b.completed by_ = some b') :
    b'.lb = b.lb ∧ b'.step = b.step ∧ b'.emps.length = b.emps.length
    ∧ ∀ i, (b'.emps.getD i default).node = (b.emps.getD i default).node := by
  unfold Boss.completed at h
  split at h
  · simp at h
  · split at h
    · simp at h
    · rename_i ej _ e he
      simp only [Option.some.injEq] at h
      subst h
      exact ⟨rfl, rfl, setAt_length _ _ _, fun i => setAt_getD_node _ _ _ _ he i⟩

end BqVerif.Runtime
