import BqVerif.Proofs.CrashPot
/-
C14 - every transition against the weight: `step_wle`, `recvEmp_strict`.
-/
namespace BqVerif.Crash

abbrev Quiet (s s' : State) : Prop := WLe s s' (fun _ => 0)

theorem Quiet.trans {s s' s'' : State} (h : Quiet s s') (h' : Quiet s' s'') : Quiet s s'' :=
  (WLe.trans h h').mono (fun _ => by omega)

theorem Quiet.wle {s s' : State} (h : Quiet s s') (g : Nat → Nat) : WLe s s' g :=
  h.mono (fun _ => by omega)

theorem quiet_put (s : State) (p : Nat) (l : List (Dest × Msg)) : Quiet s (s.put p l) :=
  WLe.of_eq rfl rfl rfl

theorem quiet_handleResult (s : State) (m v : Nat) : Quiet s (handleResult s m v) := by
  unfold handleResult
  split
  · exact WLe.refl s
  · split
    · exact WLe.of_eq rfl rfl rfl
    · exact WLe.of_eq rfl rfl rfl

theorem quiet_handleSubmit (s : State) (c k : Nat) (em : List (Dest × Msg)) : Quiet s (handleSubmit s c k em) :=
  WLe.of_eq rfl rfl rfl

theorem quiet_clientGone (t : Topo) {s : State} (h0 : s.gone 0 = false) (c : Nat) (em : List (Dest × Msg)) :
    Quiet s (clientGone t s c em) := by
  unfold clientGone
  split
  · exact wle_shutdownNode t h0
  · exact WLe.of_eq rfl rfl rfl

theorem quiet_handleRequest (t : Topo) {s : State} (h0 : s.gone 0 = false) (c m : Nat)
    (em : List (Dest × Msg)) : Quiet s (handleRequest t s c m em) := by
  have hbad : Quiet s (clientGone t { s with toClient := upd s.toClient c (s.toClient c ++ [.error]) } c em) :=
    (WLe.of_eq rfl rfl rfl : Quiet s { s with toClient := upd s.toClient c (s.toClient c ++ [.error]) }).trans
      (quiet_clientGone t (by simpa [State.gone] using h0) c em)
  unfold handleRequest
  simp only
  split
  · exact hbad
  · split
    · split
      · split
        · exact WLe.of_eq rfl rfl rfl
        · exact WLe.of_eq rfl rfl rfl
      · exact hbad
    · exact hbad

theorem quiet_syslog {s s' : State} (h : Quiet s s') (f : Nat → Nat) : Quiet s { s' with syslog := f } :=
  h.trans (WLe.of_eq rfl rfl rfl)

theorem gone_false_of_loopOk {t : Topo} {s : State} {p : Nat} (h : s.loopOk t p = true) :
    s.gone p = false := by
  unfold State.loopOk at h
  unfold State.gone
  simp only [Bool.and_eq_true] at h
  simp [h.1.2, h.2]

theorem parent_of_isChild {t : Topo} {p e : Nat} (h : t.isChild p e = true) : t.parent e = p := by
  unfold Topo.isChild at h
  simp only [Bool.and_eq_true, beq_iff_eq] at h
  exact h.2

/-- consuming the head of `e`'s channel -/
theorem quiet_pop (s : State) (e : Nat) (m : Msg) (rest : List Msg) (h : s.outbox e = m :: rest) :
    Quiet s { s with outbox := upd s.outbox e rest } := by
  refine ⟨fun _ x => x, fun _ x => x, fun i => ?_⟩
  simp only [State.gone, upd_apply]
  by_cases hi : i = e
  · subst hi; simp [h]
  · simp [hi]

theorem pop_strict (t : Topo) (s : State) (e : Nat) (m : Msg) (rest : List Msg) (h : s.outbox e = m :: rest) :
    weight t { s with outbox := upd s.outbox e rest } e + 1 ≤ weight t s e := by
  apply weight_pop (quiet_pop s e m rest h)
  simp [State.gone, h]

/-- `recvEmp`: nobody's weight grows, the weight of the employee read falls -/
theorem recvEmp_wle {t : Topo} {s s' : State} {p e : Nat} {em : List (Dest × Msg)} {f : Bool}
    (h : recvEmp t s p e em f = some s') :
    Quiet s s' ∧ t.parent e = p ∧ s.gone p = false ∧ weight t s' e + 1 ≤ weight t s e := by
  unfold recvEmp at h
  split at h
  · cases h
  rename_i hg
  simp only [Bool.not_eq_true', Bool.not_eq_false, Bool.and_eq_true] at hg
  obtain ⟨⟨⟨hloop, hch⟩, _hdo⟩, _hem⟩ := hg
  have hp := gone_false_of_loopOk hloop
  have hpar := parent_of_isChild hch
  -- the EOF case: `p` goes
  have eof : ∀ s1 : State, Quiet s s1 → s1.gone p = true → Quiet s s1 ∧ t.parent e = p ∧ s.gone p = false ∧
      weight t s1 e + 1 ≤ weight t s e := by
    intro s1 hq hg1
    refine ⟨hq, hpar, hp, ?_⟩
    have := weight_child_of_gone (t := t) hq (e := e) (by rw [hpar]; exact hp) (by rw [hpar]; exact hg1)
    omega
  split at h
  · -- outbox e = []
    split at h
    · cases h
    split at h
    · cases h
      exact eof _ (wle_systemError t hp) (by simp [systemError, shutdownNode, finishShutdown, baseShutdown, State.gone])
    split at h
    · cases h
      apply eof
      · apply quiet_syslog
        exact (WLe.of_eq (s := s) (s' := { s with downOpen := upd s.downOpen e false }) rfl rfl rfl).trans
          (wle_shutdownNode t (by simpa [State.gone] using hp))
      · simp [State.gone]
    split at h
    · cases h
      exact eof _ (wle_shutdownNode t hp) (by simp [State.gone])
    · cases h
      apply eof
      · exact (WLe.of_eq (s := s) (s' := { s with downOpen := upd s.downOpen e false }) rfl rfl rfl).trans
          (wle_shutdownNode t (by simpa [State.gone] using hp))
      · simp [State.gone]
  · -- outbox e = m :: rest
    rename_i m rest hout
    have hq0 := quiet_pop s e m rest hout
    have hst := pop_strict t s e m rest hout
    have hp0 : ({ s with outbox := upd s.outbox e rest } : State).gone p = false := by
      simpa [State.gone] using hp
    have pop : ∀ s1 : State, Quiet { s with outbox := upd s.outbox e rest } s1 →
        Quiet s s1 ∧ t.parent e = p ∧ s.gone p = false ∧ weight t s1 e + 1 ≤ weight t s e := by
      intro s1 hq
      refine ⟨hq0.trans hq, hpar, hp, ?_⟩
      have := hq.weight (t := t) e
      omega
    simp only at h
    split at h
    · split at h <;> cases h
      · exact pop _ (wle_shutdownNode t hp0)
      · exact pop _ (quiet_put _ _ _)
    · cases h; exact pop _ (wle_systemError t hp0)
    · split at h <;> cases h
      · exact pop _ (quiet_syslog (wle_systemError t hp0) _)
      · exact pop _ (quiet_put _ _ _)
    · split at h <;> cases h
      · exact pop _ (quiet_handleResult _ _ _)
      · exact pop _ (quiet_put _ _ _)
    · split at h <;> cases h
      · exact pop _ (wle_systemError t hp0)
      · exact pop _ (quiet_put _ _ _)
    · split at h <;> cases h
      · exact pop _ (wle_systemError t hp0)
      · exact pop _ (quiet_put _ _ _)

theorem recvUp_quiet {t : Topo} {s s' : State} {n : Nat} {em : List (Dest × Msg)} {f : Bool}
    (h : recvUp t s n em f = some s') : Quiet s s' := by
  unfold recvUp at h
  split at h
  · cases h
  rename_i hg
  simp only [Bool.not_eq_true', Bool.not_eq_false, Bool.and_eq_true] at hg
  obtain ⟨⟨⟨hloop, _⟩, _⟩, _⟩ := hg
  have hp := gone_false_of_loopOk hloop
  split at h
  · split at h
    · cases h
    split at h
    · cases h; exact wle_systemError t hp
    · cases h
      have h0 : Quiet s { s with upOpen := upd s.upOpen n false } := WLe.of_eq rfl rfl rfl
      exact h0.trans (wle_shutdownNode t (by simpa [State.gone] using hp))
  · rename_i m rest hin
    have hq0 : Quiet s { s with inbox := upd s.inbox n rest } := WLe.of_eq rfl rfl rfl
    have hp0 : ({ s with inbox := upd s.inbox n rest } : State).gone n = false := by
      simpa [State.gone] using hp
    simp only at h
    split at h
    · cases h; exact hq0.trans (wle_shutdownNode t hp0)
    · cases h; exact hq0.trans (wle_systemError t hp0)
    · split at h <;> cases h
      · exact hq0.trans (wle_systemError t hp0)
      · exact hq0.trans (quiet_put _ _ _)

theorem recvClient_quiet {t : Topo} {s s' : State} {c : Nat} {em : List (Dest × Msg)} {f : Bool}
    (h : recvClient t s c em f = some s') : Quiet s s' := by
  unfold recvClient at h
  split at h
  · cases h
  rename_i hg
  simp only [Bool.not_eq_true', Bool.not_eq_false, Bool.and_eq_true] at hg
  obtain ⟨⟨hloop, _⟩, _⟩ := hg
  have hp := gone_false_of_loopOk hloop
  split at h
  · split at h
    · cases h
    · cases h; exact quiet_clientGone t hp c em
  · rename_i m rest hin
    have hq0 : Quiet s { s with toServer := upd s.toServer c rest } := WLe.of_eq rfl rfl rfl
    have hp0 : ({ s with toServer := upd s.toServer c rest } : State).gone 0 = false := by
      simpa [State.gone] using hp
    simp only at h
    split at h
    · cases h; exact hq0.trans (quiet_clientGone t hp0 c em)
    · cases h; exact hq0.trans (quiet_handleSubmit _ c _ em)
    · cases h; exact hq0.trans (quiet_handleRequest t hp0 c _ em)
    · split at h <;> cases h
      · exact hq0.trans (wle_systemError t hp0)
      · exact hq0.trans (quiet_put _ _ _)
    · cases h; exact hq0.trans (wle_systemError t hp0)

/-- growth charged to node `i` by a step -/
def gAt (s : State) : Label → Nat → Nat
  | .flush n, i => match s.outq n with
    | (.up, _) :: _ => if i = n then 1 else 0
    | _ => 0
  | .wsend w _, i => if i = w then 1 else 0
  | _, _ => 0

/-- one message appended to `n`'s channel -/
theorem wle_append (s : State) (n : Nat) (m : Msg) :
    WLe s { s with outbox := upd s.outbox n (s.outbox n ++ [m]) } (fun i => if i = n then 1 else 0) := by
  refine ⟨fun _ x => x, fun _ x => x, fun i => ?_⟩
  simp only [State.gone, upd_apply]
  by_cases hi : i = n
  · subst hi; simp only [if_true, List.length_append, List.length_singleton]; omega
  · simp only [hi, if_false]; omega

theorem flush_wle {t : Topo} {s s' : State} {n : Nat} (h : flush t s n = some s') :
    WLe s s' (gAt s (.flush n)) := by
  unfold flush at h
  split at h
  · cases h
  split at h
  · cases h
  rename_i d m rest hq
  have hq0 : Quiet s { s with outq := upd s.outq n rest } := WLe.of_eq rfl rfl rfl
  simp only at h
  split at h
  · -- up
    have hg : gAt s (.flush n) = fun i => if i = n then 1 else 0 := by
      funext i; simp [gAt, hq]
    rw [hg]
    split at h
    · cases h
    split at h <;> cases h
    · exact (WLe.trans hq0 (wle_append _ n m)).mono (fun i => by simp)
    · exact hq0.wle _
  · split at h
    · cases h
    split at h <;> cases h
    · refine Quiet.wle ?_ _; exact WLe.of_eq rfl rfl rfl
    · exact hq0.wle _
  · split at h
    · cases h
    split at h <;> cases h
    · refine Quiet.wle ?_ _; exact WLe.of_eq rfl rfl rfl
    · exact hq0.wle _

theorem flushDrop_quiet {t : Topo} {s s' : State} {n : Nat} (h : flushDrop t s n = some s') : Quiet s s' := by
  unfold flushDrop at h
  split at h
  · cases h
  split at h
  · cases h
  split at h <;> cases h
  exact WLe.of_eq rfl rfl rfl

theorem wsend_wle {t : Topo} {s s' : State} {w : Nat} {m : Msg} (h : wsend t s w m = some s') :
    WLe s s' (gAt s (.wsend w m)) := by
  unfold wsend at h
  split at h
  · cases h
  have hg : gAt s (.wsend w m) = fun i => if i = w then 1 else 0 := rfl
  rw [hg]
  split at h
  · cases h; exact wle_append s w _
  · cases h
    refine ⟨fun _ x => x, fun _ x => x, fun i => ?_⟩
    simp only [State.gone, upd_apply]
    by_cases hi : i = w
    · subst hi; simp only [if_true, List.length_append, List.length_singleton]; omega
    · simp only [hi, if_false]; omega
  · cases h
    refine ⟨fun i x => ?_, fun _ x => x, fun i => ?_⟩
    · simp only [upd_apply] at x; split at x <;> simp_all
    · simp only [State.gone, upd_apply]
      by_cases hi : i = w
      · subst hi
        cases h1 : s.alive i <;> cases h2 : s.running i <;> simp [b2n]
      · simp [hi]
  · cases h

theorem wle_kill (s : State) (w : Nat) : Quiet s { s with alive := upd s.alive w false } := by
  refine ⟨fun i x => ?_, fun _ x => x, fun i => ?_⟩
  · simp only [upd_apply] at x; split at x <;> simp_all
  · simp only [State.gone, upd_apply]
    by_cases hi : i = w
    · subst hi
      cases h1 : s.alive i <;> cases h2 : s.running i <;> simp [b2n]
    · simp [hi]

theorem wrecv_quiet {t : Topo} {s s' : State} {w : Nat} (h : wrecv t s w = some s') : Quiet s s' := by
  unfold wrecv at h
  split at h
  · cases h
  split at h
  · split at h <;> cases h
    exact wle_kill s w
  · rename_i m rest hin
    have hq0 : Quiet s { s with inbox := upd s.inbox w rest } := WLe.of_eq rfl rfl rfl
    simp only at h
    split at h <;> cases h
    · exact hq0.trans (wle_kill _ w)
    · exact hq0.trans (wle_kill _ w)
    · exact hq0

theorem ccall_quiet {s s' : State} {c : Nat} {r : Msg} (h : ccall s c r = some s') : Quiet s s' := by
  unfold ccall at h
  split at h
  · cases h
  split at h
  · cases h; exact WLe.of_eq rfl rfl rfl
  split at h <;> cases h <;> exact WLe.of_eq rfl rfl rfl

theorem cwake_quiet {s s' : State} {c : Nat} (h : cwake s c = some s') : Quiet s s' := by
  unfold cwake at h
  split at h
  · cases h
  split at h
  · cases h
  split at h <;> cases h <;> exact WLe.of_eq rfl rfl rfl

theorem crash_quiet {t : Topo} {s s' : State} {n : Nat} {tr : Bool} (h : crash t s n tr = some s') :
    Quiet s s' := by
  unfold crash at h
  split at h
  · cases h
  rename_i hg0
  simp only [Bool.not_eq_true', Bool.not_eq_false, Bool.and_eq_true] at hg0
  have ha := hg0.2
  simp only at h
  split at h
  · rename_i hg
    simp only [Bool.and_eq_true] at hg
    cases h
    refine ⟨fun i x => ?_, fun _ x => x, fun i => ?_⟩
    · simp only [upd_apply] at x; split at x <;> simp_all
    · simp only [State.gone, upd_apply]
      by_cases hi : i = n
      · subst hi
        have hr := hg.1.2
        simp [b2n, hr, ha]
      · simp [hi]
  · cases h; exact wle_kill s n

/-- every transition against the weights -/
theorem step_wle {t : Topo} {s s' : State} {l : Label} (h : step t s l = some s') :
    WLe s s' (gAt s l) := by
  cases l with
  | crash n tr => exact (crash_quiet h).wle _
  | recvEmp p e em f => exact (recvEmp_wle h).1.wle _
  | recvUp n em f => exact (recvUp_quiet h).wle _
  | recvClient c em f => exact (recvClient_quiet h).wle _
  | flush n => exact flush_wle h
  | flushDrop n => exact (flushDrop_quiet h).wle _
  | wsend w m => exact wsend_wle h
  | wrecv w => exact (wrecv_quiet h).wle _
  | ccall c r => exact (ccall_quiet h).wle _
  | cwake c => exact (cwake_quiet h).wle _

end BqVerif.Crash
