import BqVerif.Proofs.CircUnfold
/-! # `batch_unfold`: the invariant survives, whatever the points are -/
namespace BqVerif.Circ

private theorem batchUnfold_fold_inv (b : Blocks) (hb : b.Ok) (l : List (Nat × Op))
    (acc : Circ × Except Err Unit) (r : List Nat) (hinv : acc.1.Inv) (hr : acc.1.radixes = r) :
    (l.foldl (fun (acc : Circ × Except Err Unit) (x : Nat × Op) =>
      match acc.2 with
      | .error _ => acc
      | .ok () =>
        let k' := acc.1.seekOp x.2 x.2.head x.1 (acc.1.numCycles - x.1)
        acc.1.unfold b ((k' : Int), (x.2.head : Int))) acc).1.Inv ∧
    (l.foldl (fun (acc : Circ × Except Err Unit) (x : Nat × Op) =>
      match acc.2 with
      | .error _ => acc
      | .ok () =>
        let k' := acc.1.seekOp x.2 x.2.head x.1 (acc.1.numCycles - x.1)
        acc.1.unfold b ((k' : Int), (x.2.head : Int))) acc).1.radixes = r := by
  induction l generalizing acc with
  | nil => exact ⟨hinv, hr⟩
  | cons x xs ih =>
    simp only [List.foldl_cons]
    apply ih
    · split
      · exact hinv
      · exact unfold_inv _ b hb _ hinv
    · split
      · exact hr
      · rw [unfold_radixes]; exact hr

/-- `batch_unfold(points)` keeps the invariant and the radixes for ANY list of points (valid or
not, blocks or not, duplicates or not). -/
theorem batchUnfold_inv (c : Circ) (b : Blocks) (hb : b.Ok) (pts : List (Int × Int))
    (hinv : c.Inv) :
    (c.batchUnfold b pts).1.Inv ∧ (c.batchUnfold b pts).1.radixes = c.radixes := by
  unfold Circ.batchUnfold
  split
  · exact ⟨hinv, rfl⟩
  · exact batchUnfold_fold_inv b hb _ (c, .ok ()) c.radixes hinv rfl

end BqVerif.Circ
