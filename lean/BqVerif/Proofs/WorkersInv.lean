import BqVerif.Proofs.WakeNet2
/-!
# Lifting worker invariants to the network

A property of workers that every incoming message and every loop iteration keeps (without any
assumption) holds for every worker of every reachable state of the network.
-/
namespace BqVerif.Runtime

theorem workers_inv_apply (I : Worker → Prop) (hrecv : ∀ w m, I w → I (w.recv m))
    (hstep : ∀ tbl w, I w → I (w.step tbl).w) (hflag : ∀ w : Worker, I w → I { w with alive := false })
    {n : Net} (hflat : n.mgrs = []) (h : ∀ w ∈ n.workers, I w) (t : Tr) :
    ∀ w ∈ (n.apply t).net.workers, I w := by
  intro w' hw'
  cases t with
  | client j m dies =>
    apply h
    simp only [Net.apply, Net.clientSend] at hw'
    cases m with
    | none =>
      dsimp only at hw'
      split at hw' <;> exact hw'
    | some msg =>
      dsimp only at hw'
      split at hw'
      · have e : ({ (n.post (.client j) .server msg) with deadClients := (n.post (.client j) .server msg).deadClients ++ [j] } : Net).workers
            = (n.post (.client j) .server msg).workers := rfl
        rw [e, (post_fields _ _ _ _).1] at hw'; exact hw'
      · rw [(post_fields _ _ _ _).1] at hw'; exact hw'
  | step id =>
    simp only [Net.apply] at hw'
    unfold Net.workerStep at hw'
    split at hw'
    · exact h w' hw'
    · rename_i w hf
      obtain ⟨hw, _⟩ := find_worker_mem _ _ _ hf
      split at hw'
      · exact h w' hw'
      · dsimp only at hw'
        rw [(postAll_fields _ _ _).1] at hw'
        rcases mem_setWorker _ _ _ hw' with rfl | ⟨hm, _⟩
        · split
          · exact hflag _ (hstep n.tbl w (h w hw))
          · exact hstep n.tbl w (h w hw)
        · exact h w' hm
  | deliver src dst asg ord died =>
    simp only [Net.apply] at hw'
    cases hk : chanGet n.chans (src, dst) with
    | nil => simp only [Net.deliver, hk] at hw'; exact h w' hw'
    | cons m rest =>
      cases dst with
      | wrk id =>
        simp only [Net.deliver, hk] at hw'
        split at hw'
        · exact h w' hw'
        · rename_i w hf
          obtain ⟨hw, _⟩ := find_worker_mem _ _ _ hf
          split at hw'
          · exact h w' hw'
          · rcases mem_setWorker _ _ _ hw' with rfl | ⟨hm, _⟩
            · exact hrecv w m (h w hw)
            · exact h w' hm
      | client j =>
        apply h
        simp only [Net.deliver, hk] at hw'
        split at hw'
        · exact hw'
        · split at hw'
          · rw [(post_fields _ _ _ _).1] at hw'; exact hw'
          · exact hw'
      | mgr i =>
        apply h
        have : n.mgrs[i]? = none := by rw [hflat]; rfl
        simp only [Net.deliver, hk, this] at hw'
        exact hw'
      | server =>
        apply h
        simp only [Net.deliver, hk] at hw'
        split at hw'
        · exact hw'
        · rw [(postAll_fields _ _ _).1] at hw'; exact hw'

theorem workers_inv_exec (I : Worker → Prop) (hrecv : ∀ w m, I w → I (w.recv m))
    (hstep : ∀ tbl w, I w → I (w.step tbl).w) (hflag : ∀ w : Worker, I w → I { w with alive := false })
    {n : Net} (g : GInv n) (h : ∀ w ∈ n.workers, I w) (trs : List Tr) (hwf : ∀ t ∈ trs, t.wf) :
    ∀ w ∈ (n.exec trs).workers, I w := by
  induction trs generalizing n with
  | nil => exact h
  | cons t ts ih =>
    simp only [Net.exec, List.foldl_cons]
    exact ih (g.apply t (hwf t List.mem_cons_self))
      (workers_inv_apply I hrecv hstep hflag g.flat h t) (fun t' ht' => hwf t' (List.mem_cons_of_mem _ ht'))

/-- the clean-up invariant of C12 holds for every worker of every reachable state -/
theorem cinv_exec (tbl : Table) (att : Bool) (nw nc : Nat) (trs : List Tr) (hwf : ∀ t ∈ trs, t.wf) :
    ∀ w ∈ ((Net.initFlat tbl att nw nc).exec trs).workers, CInv w := by
  apply workers_inv_exec CInv (fun w m h => recv_cinv w m h) (fun tbl w h => step_cinv tbl w h)
    (fun w h => ⟨h.nodup, h.pending, h.idle⟩) (GInv.init tbl att nw nc) _ trs hwf
  intro w hw
  simp only [Net.initFlat, mkWorkers, List.mem_map] at hw
  obtain ⟨i, _, rfl⟩ := hw
  refine ⟨by simp, ?_, fun _ _ => rfl⟩
  intro t ht
  cases ht

end BqVerif.Runtime
