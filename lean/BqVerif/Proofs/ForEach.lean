import BqVerif.Proofs.BatchReplace
import BqVerif.Model.Control
import Mathlib.Data.List.Nodup
/-!
# ForEachBlockPass write-back: the blocks collected from the iteration are distinct operations of
the circuit, so the same-location batch theorem applies.
-/
namespace BqVerif.Circ

theorem insertBy_perm (key : Op → Nat) (x : Op) (l : List Op) : (insertBy key x l).Perm (x :: l) := by
  induction l with
  | nil => simp [insertBy]
  | cons a l ih =>
    simp only [insertBy]
    by_cases h : key x ≤ key a
    · simp [h]
    · simp only [h, if_false]
      exact ((List.perm_cons a).mpr ih).trans (List.Perm.swap x a l)

theorem sortBy_perm (key : Op → Nat) (l : List Op) : (sortBy key l).Perm l := by
  induction l with
  | nil => simp [sortBy]
  | cons a l ih =>
    simp only [sortBy, List.foldr_cons]
    exact (insertBy_perm key a _).trans ((List.perm_cons a).mpr ih)

theorem disjointL_of_indep {a b : Op} (h : Indep a b) : disjointL a.loc b.loc = true := by
  simp only [disjointL, List.all_eq_true, Bool.not_eq_true', List.contains_eq_mem,
    decide_eq_false_iff_not]
  exact h

/-- operations of one cycle of a circuit satisfying `Inv` are distinct -/
theorem cycle_nodup_of_inv {c : Circ} (h : c.Inv) : ∀ cy ∈ c.cycles, cy.Nodup := by
  intro cy hcy
  have hp := h.2.1 cy hcy
  have hw := h.2.2 cy hcy
  refine List.Pairwise.imp_of_mem ?_ hp
  intro a b ha _ hab heq
  subst heq
  have hne := (hw a ha).1
  exact hab _ (head_mem_loc hne) (head_mem_loc hne)

theorem mem_iterCyc {c : Circ} {k : Nat} {o : Op} (h : (k, o) ∈ c.iterCyc) :
    ∃ cy, c.cycles[k]? = some cy ∧ o ∈ cy := by
  simp only [Circ.iterCyc, List.mem_flatMap, List.mem_map] at h
  obtain ⟨⟨cy, i⟩, hz, o', ho', heq⟩ := h
  simp only [Prod.mk.injEq] at heq
  obtain ⟨h1, h2⟩ := heq
  subst h1; subst h2
  exact ⟨cy, List.mem_zipIdx_iff_getElem?.mp hz, (sortBy_perm _ _).mem_iff.mp ho'⟩

theorem iterCyc_nodup {c : Circ} (h : c.Inv) : c.iterCyc.Nodup := by
  simp only [Circ.iterCyc]
  rw [List.nodup_flatMap]
  constructor
  · rintro ⟨cy, i⟩ hz
    have hcy : cy ∈ c.cycles := List.mem_of_getElem? (List.mem_zipIdx_iff_getElem?.mp hz)
    have : (sortBy Op.head cy).Nodup := (sortBy_perm _ _).nodup_iff.mpr (cycle_nodup_of_inv h cy hcy)
    exact this.map (fun a b hab => by simpa using hab)
  · have hnd : c.cycles.zipIdx.Nodup := by
      apply List.Nodup.of_map Prod.snd
      rw [List.zipIdx_map_snd]
      exact List.nodup_range' _
    apply hnd.pairwise_of_forall_ne
    rintro ⟨cy1, i1⟩ h1 ⟨cy2, i2⟩ h2 hne
    have hi : i1 ≠ i2 := by
      intro hi; subst hi
      have e1 := List.mem_zipIdx_iff_getElem?.mp h1
      have e2 := List.mem_zipIdx_iff_getElem?.mp h2
      simp only at e1 e2
      rw [e1] at e2
      cases e2
      exact hne rfl
    simp only [Function.onFun, List.disjoint_left, List.mem_map]
    rintro ⟨k, o⟩ ⟨o1, _, e1⟩ ⟨o2, _, e2⟩
    simp only [Prod.mk.injEq] at e1 e2
    exact hi (e1.1.trans e2.1.symm)

/-- the blocks a ForEachBlockPass may write back (any sub-selection of the circuit's iteration, each
with a replacement on the block's own location) form a same-location batch -/
theorem sameLocBatch_of_selection (c : Circ) (hinv : c.Inv) (sel : List (Nat × Op))
    (hsub : sel.Sublist c.iterCyc) (newOp : Nat × Op → Op)
    (hloc : ∀ b ∈ sel, (newOp b).loc = b.2.loc) :
    SameLocBatch c (sel.map (fun b => (b.1, b.2, newOp b))) where
  disj := fun cy hcy => (hinv.2.1 cy hcy).imp disjointL_of_indep
  wf := fun cy hcy o ho => ⟨(hinv.2.2 cy hcy o ho).1, (hinv.2.2 cy hcy o ho).2.2.1⟩
  mem := by
    intro t ht
    simp only [List.mem_map] at ht
    obtain ⟨b, hb, rfl⟩ := ht
    exact mem_iterCyc (hsub.subset hb)
  same := by
    intro t ht
    simp only [List.mem_map] at ht
    obtain ⟨b, hb, rfl⟩ := ht
    simp only [hloc b hb]
    exact sameSet_refl _
  nodup := by
    have : (sel.map (fun b => (b.1, b.2, newOp b))).map Tgt.key = sel := by
      rw [List.map_map]
      conv => rhs; rw [← List.map_id sel]
      apply List.map_congr_left
      intro b _; simp [Tgt.key]
    rw [this]
    exact hsub.nodup (iterCyc_nodup hinv)

end BqVerif.Circ
