import BqVerif.Proofs.BatchReplace
import BqVerif.Model.Control
import BqVerif.Proofs.Control
import Mathlib.Data.List.Nodup
/-!
# ForEachBlockPass write-back: the blocks collected from the iteration are distinct operations of
the circuit, so the same-location batch theorem applies.
-/
namespace BqVerif.Circ

theorem insertBy_perm (key : Op → Nat) (x : Op) (l : List Op) : (insertBy key x l).Perm (x :: l) := by
  induction l with
  | nil => simp [insertBy]
  | cons a l ih =>
    simp only [insertBy]
    by_cases h : key x ≤ key a
    · simp [h]
    · simp only [h, if_false]
      exact ((List.perm_cons a).mpr ih).trans (List.Perm.swap x a l)

theorem sortBy_perm (key : Op → Nat) (l : List Op) : (sortBy key l).Perm l := by
  induction l with
  | nil => simp [sortBy]
  | cons a l ih =>
    simp only [sortBy, List.foldr_cons]
    exact (insertBy_perm key a _).trans ((List.perm_cons a).mpr ih)

theorem disjointL_of_indep {a b : Op} (h : Indep a b) : disjointL a.loc b.loc = true := by
  simp only [disjointL, List.all_eq_true, Bool.not_eq_true', List.contains_eq_mem,
    decide_eq_false_iff_not]
  exact h

/-- operations of one cycle of a circuit satisfying `Inv` are distinct -/
theorem cycle_nodup_of_inv {c : Circ} (h : c.Inv) : ∀ cy ∈ c.cycles, cy.Nodup := by
  intro cy hcy
  have hp := h.2.1 cy hcy
  have hw := h.2.2 cy hcy
  refine List.Pairwise.imp_of_mem ?_ hp
  intro a b ha _ hab heq
  subst heq
  have hne := (hw a ha).1
  exact hab _ (head_mem_loc hne) (head_mem_loc hne)

theorem mem_iterCyc {c : Circ} {k : Nat} {o : Op} (h : (k, o) ∈ c.iterCyc) :
    ∃ cy, c.cycles[k]? = some cy ∧ o ∈ cy := by
  simp only [Circ.iterCyc, List.mem_flatMap, List.mem_map] at h
  obtain ⟨⟨cy, i⟩, hz, o', ho', heq⟩ := h
  simp only [Prod.mk.injEq] at heq
  obtain ⟨h1, h2⟩ := heq
  subst h1; subst h2
  exact ⟨cy, List.mem_zipIdx_iff_getElem?.mp hz, (sortBy_perm _ _).mem_iff.mp ho'⟩

theorem iterCyc_nodup {c : Circ} (h : c.Inv) : c.iterCyc.Nodup := by
  simp only [Circ.iterCyc]
  rw [List.nodup_flatMap]
  constructor
  · rintro ⟨cy, i⟩ hz
    have hcy : cy ∈ c.cycles := List.mem_of_getElem? (List.mem_zipIdx_iff_getElem?.mp hz)
    have : (sortBy Op.head cy).Nodup := (sortBy_perm _ _).nodup_iff.mpr (cycle_nodup_of_inv h cy hcy)
    exact this.map (fun a b hab => by simpa using hab)
  · have hnd : c.cycles.zipIdx.Nodup := by
      apply List.Nodup.of_map Prod.snd
      rw [List.zipIdx_map_snd]
      exact List.nodup_range' _
    apply hnd.pairwise_of_forall_ne
    rintro ⟨cy1, i1⟩ h1 ⟨cy2, i2⟩ h2 hne
    have hi : i1 ≠ i2 := by
      intro hi; subst hi
      have e1 := List.mem_zipIdx_iff_getElem?.mp h1
      have e2 := List.mem_zipIdx_iff_getElem?.mp h2
      simp only at e1 e2
      rw [e1] at e2
      cases e2
      exact hne rfl
    simp only [Function.onFun, List.disjoint_left, List.mem_map]
    rintro ⟨k, o⟩ ⟨o1, _, e1⟩ ⟨o2, _, e2⟩
    simp only [Prod.mk.injEq] at e1 e2
    exact hi (e1.1.trans e2.1.symm)

/-- the blocks a ForEachBlockPass may write back (any sub-selection of the circuit's iteration, each
with a replacement on the block's own location) form a same-location batch -/
theorem sameLocBatch_of_selection (c : Circ) (hinv : c.Inv) (sel : List (Nat × Op))
    (hsub : sel.Sublist c.iterCyc) (newOp : Nat × Op → Op)
    (hloc : ∀ b ∈ sel, (newOp b).loc = b.2.loc) :
    SameLocBatch c (sel.map (fun b => (b.1, b.2, newOp b))) where
  disj := fun cy hcy => (hinv.2.1 cy hcy).imp disjointL_of_indep
  wf := fun cy hcy o ho => ⟨(hinv.2.2 cy hcy o ho).1, (hinv.2.2 cy hcy o ho).2.2.1⟩
  mem := by
    intro t ht
    simp only [List.mem_map] at ht
    obtain ⟨b, hb, rfl⟩ := ht
    exact mem_iterCyc (hsub.subset hb)
  same := by
    intro t ht
    simp only [List.mem_map] at ht
    obtain ⟨b, hb, rfl⟩ := ht
    simp only [hloc b hb]
    exact sameSet_refl _
  nodup := by
    have : (sel.map (fun b => (b.1, b.2, newOp b))).map Tgt.key = sel := by
      rw [List.map_map]
      conv => rhs; rw [← List.map_id sel]
      apply List.map_congr_left
      intro b _; simp [Tgt.key]
    rw [this]
    exact hsub.nodup (iterCyc_nodup hinv)

/-- any list of targets whose (cycle, operation) keys are a sub-selection of the iteration and whose
replacements sit on the blocks' own locations is a same-location batch -/
theorem sameLocBatch_of_targets (c : Circ) (hinv : c.Inv) (tg : List Tgt)
    (hsub : (tg.map Tgt.key).Sublist c.iterCyc) (hloc : ∀ t ∈ tg, t.2.2.loc = t.2.1.loc) :
    SameLocBatch c tg where
  disj := fun cy hcy => (hinv.2.1 cy hcy).imp disjointL_of_indep
  wf := fun cy hcy o ho => ⟨(hinv.2.2 cy hcy o ho).1, (hinv.2.2 cy hcy o ho).2.2.1⟩
  mem := by
    intro t ht
    exact mem_iterCyc (hsub.subset (List.mem_map.mpr ⟨t, ht, rfl⟩))
  same := by
    intro t ht
    rw [hloc t ht]
    exact sameSet_refl _
  nodup := hsub.nodup (iterCyc_nodup hinv)

/-- a pointwise substitution that keeps every operation's qudit set leaves the timeline of every
qudit that no target touches unchanged -/
theorem timeline_of_subst (c : Circ) (tg : List Tgt) (f : Nat → Op → Op)
    (hrel : ∀ k x, RelT tg k x (f k x)) (hon : ∀ k x q, (f k x).on q = x.on q)
    (q : Nat) (hq : ∀ t ∈ tg, q ∉ t.2.1.loc) :
    (⟨c.radixes, c.cycles.mapIdx (fun k cy => cy.map (f k))⟩ : Circ).timeline q = c.timeline q := by
  simp only [Circ.timeline, Circ.ops, proj]
  have hcy : ∀ k (cy : Cycle), (cy.map (f k)).filter (·.on q) = cy.filter (·.on q) := by
    intro k cy
    induction cy with
    | nil => rfl
    | cons x xs ih =>
      simp only [List.map_cons, List.filter_cons, hon, ih]
      by_cases hx : x.on q = true
      · simp only [hx, if_true]
        congr 1
        rcases hrel k x with ⟨n, hmem, _⟩ | ⟨_, h⟩
        · exfalso
          have := hq _ hmem
          simp [Op.on] at hx
          exact this hx
        · exact h
      · simp [hx]
  have : ∀ (L : List Cycle) (g : Nat → Cycle → Cycle) (hg : ∀ k cy, (g k cy).filter (·.on q) = cy.filter (·.on q)),
      (L.mapIdx g).flatten.filter (·.on q) = L.flatten.filter (·.on q) := by
    intro L
    induction L with
    | nil => intro g _; rfl
    | cons cy L ih =>
      intro g hg
      simp only [List.mapIdx_cons, List.flatten_cons, List.filter_append, hg]
      rw [ih (fun i => g (i + 1)) (fun k cy => hg (k + 1) cy)]
  exact this c.cycles (fun k cy => cy.map (f k)) hcy

end BqVerif.Circ

namespace BqVerif.Control
open BqVerif.Circ

def keyJ (jr : BlockJob × Res) : Nat × Op := (jr.1.cycle, jr.1.op)

/-- `t` is what the post-processing writes back for the job `jr`: the replace filter accepted the
job's result, and the new operation is a circuit gate of that result on the block's location -/
def Accepted (env : Env) (cfg : FECfg) (model : MModel) (jr : BlockJob × Res) (t : Tgt) : Prop :=
  ∃ bl g, feAccept env cfg model bl jr.2.st.circ jr.1.op = some true ∧
    t = (jr.1.cycle, jr.1.op, blockOpOf g jr.2.st.circ jr.1.op.loc)

theorem fePost_items (env : Env) (cfg : FECfg) (model : MModel) :
    ∀ (jrs : List (BlockJob × Res)) (acc : FEPost),
      ∃ tg : List Tgt,
        (jrs.foldl (fePostStep env cfg model) acc).items = acc.items ++ tg.map Tgt.item ∧
        (tg.map Tgt.key).Sublist (jrs.map keyJ) ∧
        (∀ t ∈ tg, t.2.2.loc = t.2.1.loc) ∧
        (∀ t ∈ tg, ∃ jr ∈ jrs, Accepted env cfg model jr t) ∧
        (∀ jr ∈ jrs, (∃ t ∈ tg, Accepted env cfg model jr t) ∨
          ∃ bl, feAccept env cfg model bl jr.2.st.circ jr.1.op ≠ some true) := by
  intro jrs
  induction jrs with
  | nil => intro acc; exact ⟨[], by simp, by simp, by simp, by simp, by simp⟩
  | cons jr jrs ih =>
    intro acc
    simp only [List.foldl_cons]
    cases ha : feAccept env cfg model acc.w.blocks jr.2.st.circ jr.1.op with
    | none =>
      have hstep : fePostStep env cfg model acc jr = acc := by simp [fePostStep, ha]
      rw [hstep]
      obtain ⟨tg, h1, h2, h3, h4, h5⟩ := ih acc
      refine ⟨tg, h1, by simpa using h2.cons _, h3, ?_, ?_⟩
      · intro t ht; obtain ⟨jr', hj, hacc⟩ := h4 t ht; exact ⟨jr', by simp [hj], hacc⟩
      · intro jr' hj
        simp only [List.mem_cons] at hj
        rcases hj with hj | hj
        · subst hj; exact Or.inr ⟨acc.w.blocks, by simp [ha]⟩
        · exact h5 jr' hj
    | some b =>
      cases b with
      | false =>
        obtain ⟨tg, h1, h2, h3, h4, h5⟩ := ih (fePostStep env cfg model acc jr)
        have hit : (fePostStep env cfg model acc jr).items = acc.items := by simp [fePostStep, ha]
        refine ⟨tg, by rw [h1, hit], by simpa using h2.cons _, h3, ?_, ?_⟩
        · intro t ht; obtain ⟨jr', hj, hacc⟩ := h4 t ht; exact ⟨jr', by simp [hj], hacc⟩
        · intro jr' hj
          simp only [List.mem_cons] at hj
          rcases hj with hj | hj
          · subst hj; exact Or.inr ⟨acc.w.blocks, by simp [ha]⟩
          · exact h5 jr' hj
      | true =>
        obtain ⟨tg, h1, h2, h3, h4, h5⟩ := ih (fePostStep env cfg model acc jr)
        let t0 : Tgt := (jr.1.cycle, jr.1.op,
          blockOpOf (internBlock acc.w.blocks jr.2.st.circ).2 jr.2.st.circ jr.1.op.loc)
        have hit : (fePostStep env cfg model acc jr).items = acc.items ++ [Tgt.item t0] := by
          simp [fePostStep, ha, Tgt.item, t0]
        have hacc0 : Accepted env cfg model jr t0 := ⟨acc.w.blocks, _, ha, rfl⟩
        refine ⟨t0 :: tg, by rw [h1, hit]; simp, ?_, ?_, ?_, ?_⟩
        · simp only [List.map_cons]
          exact h2.cons_cons _
        · intro t ht
          simp only [List.mem_cons] at ht
          rcases ht with ht | ht
          · subst ht; simp [t0, blockOpOf]
          · exact h3 t ht
        · intro t ht
          simp only [List.mem_cons] at ht
          rcases ht with ht | ht
          · subst ht; exact ⟨jr, by simp, hacc0⟩
          · obtain ⟨jr', hj, hacc⟩ := h4 t ht; exact ⟨jr', by simp [hj], hacc⟩
        · intro jr' hj
          simp only [List.mem_cons] at hj
          rcases hj with hj | hj
          · subst hj; exact Or.inl ⟨t0, by simp, hacc0⟩
          · rcases h5 jr' hj with ⟨t, ht, hacc⟩ | h
            · exact Or.inl ⟨t, by simp [ht], hacc⟩
            · exact Or.inr h

/-- **write-back of ForEachBlockPass.**  When no body raised, the pass does not raise either, and
its circuit is the old one with, pointwise and in place, exactly the accepted blocks replaced by the
circuit gate of their result; every other operation is what and where it was. -/
theorem feFinish_writeback (env : Env) (cfg : FECfg) (s0 : St) (jobs : List BlockJob) (rs : List Res)
    (w1 : World) (hinv : s0.circ.Inv)
    (hjobs : (jobs.map (fun j => (j.cycle, j.op))).Sublist s0.circ.iterCyc)
    (hlen : rs.length = jobs.length) (hno : firstRaised rs = none) :
    ∃ (tg : List Tgt) (r : Nat → Op → Op),
      (tg.map Tgt.key).Sublist (jobs.map (fun j => (j.cycle, j.op))) ∧
      (∀ t ∈ tg, ∃ jr ∈ jobs.zip rs, Accepted env cfg s0.data.model jr t) ∧
      (∀ jr ∈ jobs.zip rs, (∃ t ∈ tg, Accepted env cfg s0.data.model jr t) ∨
          ∃ bl, feAccept env cfg s0.data.model bl jr.2.st.circ jr.1.op ≠ some true) ∧
      (∀ k x, RelT tg k x (r k x)) ∧ (∀ k x q, (r k x).on q = x.on q) ∧
      (feFinish env cfg s0 jobs rs w1).out = .ok ∧
      (feFinish env cfg s0 jobs rs w1).st.circ =
        ⟨s0.circ.radixes, s0.circ.cycles.mapIdx (fun k cy => cy.map (r k))⟩ := by
  obtain ⟨tg, h1, h2, h3, h4, h5⟩ := fePost_items env cfg s0.data.model (jobs.zip rs) ⟨w1, [], [], 0⟩
  have hkeys : (jobs.zip rs).map keyJ = jobs.map (fun j => (j.cycle, j.op)) := by
    have : (jobs.zip rs).map keyJ = ((jobs.zip rs).map Prod.fst).map (fun j => (j.cycle, j.op)) := by
      rw [List.map_map]; rfl
    rw [this, List.map_fst_zip (by omega)]
  have hbatch := sameLocBatch_of_targets s0.circ hinv tg (by rw [← hkeys] at hjobs; exact h2.trans hjobs) h3
  obtain ⟨r, hr1, hr2, hr3⟩ := batchReplace_sameLoc s0.circ tg hbatch
  refine ⟨tg, r, by rw [← hkeys]; exact h2, h4, h5, hr1, hr2, ?_, ?_⟩
  · unfold feFinish
    simp only [hno, fePost]
    simp only [List.nil_append] at h1
    rw [h1, hr3]
  · unfold feFinish
    simp only [hno, fePost]
    simp only [List.nil_append] at h1
    rw [h1, hr3]

theorem mapM_keys {α : Type} (g : α → Except Err BlockJob) (key : α → Nat × Op)
    (hg : ∀ a j, g a = .ok j → (j.cycle, j.op) = key a) :
    ∀ (l : List α) (jobs : List BlockJob), l.mapM g = .ok jobs →
      jobs.map (fun j => (j.cycle, j.op)) = l.map key := by
  intro l
  induction l with
  | nil =>
    intro jobs h
    simp only [List.mapM_nil] at h
    cases h; rfl
  | cons a l ih =>
    intro jobs h
    rw [List.mapM_cons] at h
    cases hga : g a with
    | error e => rw [hga] at h; cases h
    | ok j =>
      rw [hga] at h
      cases hl : l.mapM g with
      | error e => rw [hl] at h; cases h
      | ok js =>
        rw [hl] at h
        cases h
        simp [hg a j hga, ih js hl]

theorem feJobs_keys (bl : Blocks) (cfg : FECfg) (s0 : St) (blocks : List (Nat × Op))
    (jobs : List BlockJob) (h : feJobs bl cfg s0 blocks = .ok jobs) :
    jobs.map (fun j => (j.cycle, j.op)) = blocks := by
  unfold feJobs at h
  have := mapM_keys _ (fun (b : (Nat × Op) × Nat) => b.1) ?_ _ _ h
  · rw [this]; simp
  · intro b j hb
    simp only at hb
    cases hsm : subModel s0.data s0.circ b.1.2 with
    | none => simp [hsm] at hb
    | some sm =>
      simp only [hsm] at hb
      cases hbd : blockData s0.data b.2 b.1.1 b.1.2 (subCircuit bl b.1.2) sm cfg.calcErr with
      | error e => simp [hbd] at hb
      | ok bd =>
        simp only [hbd, Except.ok.injEq] at hb
        subst hb; rfl

theorem feFinish_ok_no_raise (env : Env) (cfg : FECfg) (s0 : St) (jobs : List BlockJob)
    (rs : List Res) (w1 : World) (h : (feFinish env cfg s0 jobs rs w1).out = .ok) :
    firstRaised rs = none := by
  unfold feFinish at h
  cases hf : firstRaised rs with
  | none => rfl
  | some e => simp [hf, Res.fail] at h

/-- **ForEachBlockPass, end to end.**  If the pass terminates without raising on a circuit satisfying
the documented invariants, its final circuit is the initial one with, pointwise and in place,
exactly the blocks accepted by the replace filter replaced by the circuit gate of the body's result
for that block; `tg` lists them.  Every other operation (and every cycle index) is unchanged. -/
theorem forEach_writeback (env : Env) (cfg : FECfg) (body : Tree) (w : World) (s : St) (r : Res)
    (hinv : s.circ.Inv) (hrun : Runs env (.forEach cfg body) w s r) (hok : r.out = .ok) :
    ∃ (tg : List Tgt) (f : Nat → Op → Op),
      (tg.map Tgt.key).Sublist (feBlocks env w.blocks cfg s.circ) ∧
      (∀ t ∈ tg, t.2.2.loc = t.2.1.loc) ∧
      (∀ k x, RelT tg k x (f k x)) ∧ (∀ k x q, (f k x).on q = x.on q) ∧
      r.st.circ = ⟨s.circ.radixes, s.circ.cycles.mapIdx (fun k cy => cy.map (f k))⟩ := by
  have hroom : (feRoom s).circ = s.circ := by unfold feRoom; split <;> rfl
  have hid : ∀ C : List Cycle, C.mapIdx (fun (_ : Nat) (cy : Cycle) => cy.map (fun x => x)) = C := by
    intro C
    apply List.ext_getElem?
    intro j
    simp [List.getElem?_mapIdx]
  have htriv : ∃ (tg : List Tgt) (f : Nat → Op → Op),
      (tg.map Tgt.key).Sublist (feBlocks env w.blocks cfg s.circ) ∧
      (∀ t ∈ tg, t.2.2.loc = t.2.1.loc) ∧
      (∀ k x, RelT tg k x (f k x)) ∧ (∀ k x q, (f k x).on q = x.on q) ∧
      s.circ = ⟨s.circ.radixes, s.circ.cycles.mapIdx (fun k cy => cy.map (f k))⟩ :=
    ⟨[], fun _ x => x, by simp, by simp, fun k x => Or.inr ⟨by simp, rfl⟩, fun _ _ _ => rfl,
      by rw [hid]⟩
  rw [runs_forEach] at hrun
  by_cases hu : feUnknown env cfg
  · simp only [hu, if_true] at hrun
    rw [hrun] at hok; simp [Res.fail] at hok
  · simp only [hu, Bool.false_eq_true, if_false] at hrun
    by_cases he : (feBlocks env w.blocks cfg (feRoom s).circ).isEmpty
    · simp only [he, if_true] at hrun
      rw [hrun]
      simpa [hroom] using htriv
    · simp only [he, Bool.false_eq_true, if_false] at hrun
      cases hj : feJobs w.blocks cfg (feRoom s) (feBlocks env w.blocks cfg (feRoom s).circ) with
      | error e =>
        rw [hj] at hrun
        simp only at hrun
        rw [hrun] at hok; simp [Res.fail] at hok
      | ok jobs =>
        rw [hj] at hrun
        simp only at hrun
        obtain ⟨rs, w1, hjr, hr⟩ := hrun
        subst hr
        have hkeys := feJobs_keys _ _ _ _ _ hj
        have hsub : (jobs.map (fun j => (j.cycle, j.op))).Sublist (feRoom s).circ.iterCyc := by
          rw [hkeys]; exact List.filter_sublist
        have hno := feFinish_ok_no_raise _ _ _ _ _ _ hok
        obtain ⟨tg, f, h0, h1, _, h3, h4, _, h6⟩ :=
          feFinish_writeback env cfg (feRoom s) jobs rs w1 (by rw [hroom]; exact hinv) hsub hjr.length hno
        refine ⟨tg, f, ?_, ?_, h3, h4, by rw [h6, hroom]⟩
        · rw [hkeys, hroom] at h0; exact h0
        · intro t ht
          obtain ⟨jr, _, bl, g, _, rfl⟩ := h1 t ht
          simp [blockOpOf]

end BqVerif.Control
