import BqVerif.Proofs.Cleanup
/-!
# The await / wake protocol of a worker (coarse: handlers are atomic)

`WInv`: the invariant behind "`assert box.ready` in `_get_desired_result` cannot fail", "the
`self._tasks[box.dest_addr]` lookup of `_handle_result` cannot fail" and "no wake-up is lost".
Environment assumptions (`Worker.okRecv`, `Worker.okStep`): arriving tasks are new to the worker
and have not run; no result is deposited into a mailbox that is already complete.
-/
namespace BqVerif.Runtime

-- ------------------------------------------------------------------ tables
theorem boxGet_boxSet_self (bs : List (Nat × Box)) (m : Nat) (b : Box) :
    boxGet (boxSet bs m b) m = some b := by
  induction bs with
  | nil => simp [boxSet, boxGet]
  | cons p t ih =>
    obtain ⟨k, x⟩ := p
    by_cases h : k = m
    · simp [boxSet, boxGet, h]
    · simp [boxSet, boxGet, h, ih]

theorem boxGet_boxSet_ne (bs : List (Nat × Box)) (m k : Nat) (b : Box) (h : k ≠ m) :
    boxGet (boxSet bs m b) k = boxGet bs k := by
  induction bs with
  | nil => simp [boxSet, boxGet, Ne.symm h]
  | cons p t ih =>
    obtain ⟨k', x⟩ := p
    by_cases h1 : k' = m
    · subst h1
      simp [boxSet, boxGet, Ne.symm h]
    · by_cases h2 : k' = k
      · subst h2
        simp [boxSet, boxGet, h1]
      · simp [boxSet, boxGet, h1, h2, ih]

theorem boxGet_filter (bs : List (Nat × Box)) (q : Nat → Bool) (k : Nat) :
    boxGet (bs.filter (fun p => q p.1)) k = if q k then boxGet bs k else none := by
  induction bs with
  | nil => simp [boxGet]
  | cons p t ih =>
    obtain ⟨k', x⟩ := p
    by_cases h1 : q k'
    · by_cases h2 : k' = k
      · subst h2; simp [List.filter_cons, h1, boxGet]
      · simp [List.filter_cons, h1, boxGet, h2, ih]
    · by_cases h2 : k' = k
      · subst h2; simp [List.filter_cons, h1, boxGet, ih]
      · simp [List.filter_cons, h1, boxGet, h2, ih]

theorem boxGet_filter_some (bs : List (Nat × Box)) (q : Nat → Bool) (k : Nat) (b : Box)
    (h : boxGet (bs.filter (fun p => q p.1)) k = some b) : boxGet bs k = some b ∧ q k = true := by
  rw [boxGet_filter] at h
  by_cases hq : q k
  · simp [hq] at h; exact ⟨h, hq⟩
  · simp [hq] at h

theorem boxGet_boxErase_some (bs : List (Nat × Box)) (m k : Nat) (b : Box)
    (h : boxGet (boxErase bs m) k = some b) : boxGet bs k = some b ∧ k ≠ m := by
  have := boxGet_filter_some bs (fun x => x != m) k b h
  exact ⟨this.1, by simpa using this.2⟩

theorem boxGet_eraseBoxes_some (bs : List (Nat × Box)) (ms : List Nat) (k : Nat) (b : Box)
    (h : boxGet (eraseBoxes bs ms) k = some b) : boxGet bs k = some b ∧ k ∉ ms := by
  have := boxGet_filter_some bs (fun x => !ms.contains x) k b h
  exact ⟨this.1, by simpa using this.2⟩

theorem boxGet_append (bs : List (Nat × Box)) (c k : Nat) (nb : Box) :
    boxGet (bs ++ [(c, nb)]) k = match boxGet bs k with
      | some b => some b
      | none => if c = k then some nb else none := by
  induction bs with
  | nil => simp [boxGet]
  | cons p t ih =>
    obtain ⟨k', x⟩ := p
    by_cases h : k' = k
    · simp [boxGet, h]
    · simp [boxGet, h, ih]

theorem mem_taskSet (l : List Task) (t x : Task) (h : x ∈ taskSet l t) :
    (x ∈ l ∧ x.addr ≠ t.addr) ∨ (x = t ∧ ∃ y ∈ l, y.addr = t.addr) := by
  simp only [taskSet, List.mem_map] at h
  obtain ⟨y, hy, rfl⟩ := h
  by_cases e : y.addr == t.addr
  · simp only [e, if_true]
    have e' : y.addr = t.addr := by simpa using e
    exact Or.inr ⟨by simp [e'], y, hy, e'⟩
  · simp only [e]
    exact Or.inl ⟨hy, by simpa using e⟩

theorem mem_taskSet_self (l : List Task) (t : Task) (h : ∃ y ∈ l, y.addr = t.addr) : t ∈ taskSet l t := by
  obtain ⟨y, hy, e⟩ := h
  simp only [taskSet, List.mem_map]
  exact ⟨y, hy, by simp [e]⟩

theorem mem_taskSet_of_ne (l : List Task) (t x : Task) (hx : x ∈ l) (h : x.addr ≠ t.addr) :
    x ∈ taskSet l t := by
  simp only [taskSet, List.mem_map]
  exact ⟨x, hx, by simp [h]⟩

theorem taskErase_taskSet (l : List Task) (t : Task) :
    taskErase (taskSet l t) t.addr = taskErase l t.addr := by
  induction l with
  | nil => rfl
  | cons x xs ih =>
    simp only [taskSet, taskErase, List.map_cons] at ih ⊢
    by_cases e : x.addr = t.addr
    · simp only [beq_iff_eq] at ih
      simp [e, ih]
    · have e2 : (x.addr != t.addr) = true := by simpa using e
      simp only [beq_iff_eq, e, if_false, List.filter_cons, e2, if_true]
      simp only [beq_iff_eq] at ih
      rw [ih]

theorem taskGet_mem (l : List Task) (a : Addr) (t : Task) (h : taskGet l a = some t) : t ∈ l :=
  List.mem_of_find?_eq_some h

theorem taskGet_of_mem (l : List Task) (hn : (l.map (·.addr)).Nodup) (t : Task) (h : t ∈ l) :
    taskGet l t.addr = some t := by
  cases hg : taskGet l t.addr with
  | none => exact absurd rfl (taskGet_none_not_mem l _ hg t h)
  | some x =>
    have := nodup_addr_eq l hn x t (taskGet_mem _ _ _ hg) h (taskGet_addr _ _ _ hg)
    rw [this]

-- --------------------------------------------------------------- invariant
def Task.fresh (t : Task) : Prop := t.desired = none ∧ t.futs = [] ∧ t.owned = []

/-- neither the task nor an ancestor is in `_cancelled_task_ids` -/
def Task.uncancelled (t : Task) (w : Worker) : Prop :=
  t.addr ∉ w.cancelled ∧ ∀ c ∈ t.crumbs, c ∉ w.cancelled

def Worker.addrs (w : Worker) : List Addr := w.tasks.map (·.addr)

structure WInv (ex : Option Addr) (w : Worker) : Prop where
  nodupT : w.addrs.Nodup
  nodupR : w.ready.Nodup
  fresh : Fresh w
  box : ∀ m b, boxGet w.boxes m = some b → b.fresh = none → b.num = 0
  futs : ∀ t ∈ w.tasks, (∀ m ∈ t.futs, m < w.counter ∧ ((boxGet w.boxes m).isSome → m ∈ t.owned))
    ∧ (∀ m, t.desired = some m → m ∈ t.futs)
  uniq : ∀ t ∈ w.tasks, ∀ t' ∈ w.tasks, ∀ m, m ∈ t.futs → m ∈ t'.futs → t.addr = t'.addr
  /-- a queued task whose awaited mailbox still exists can take its value -/
  rdy : ∀ t ∈ w.tasks, t.addr ∈ w.ready → ∀ m b, t.desired = some m → boxGet w.boxes m = some b →
    (t.wakeNext = true → b.fresh ≠ none) ∧ (t.wakeNext = false → b.ready = true)
  /-- an incomplete mailbox with a registered waiter: the waiter exists, waits for it, is not queued -/
  dest : ∀ m b d, boxGet w.boxes m = some b → b.ready = false → b.dest = some d →
    d ∉ w.ready ∧ ∃ t ∈ w.tasks, t.addr = d ∧ t.desired = some m
  /-- no lost wake-up: a waiting task is queued or registered at its (incomplete) mailbox -/
  wait : ∀ t ∈ w.tasks, some t.addr ≠ ex → t.uncancelled w → ∀ m b, t.desired = some m →
    boxGet w.boxes m = some b → t.addr ∈ w.ready ∨ (b.ready = false ∧ b.dest = some t.addr)
  dlN : (w.delayed.map (·.addr)).Nodup
  dl : ∀ t ∈ w.delayed, t.fresh ∧ t.addr ∉ w.addrs ∧ t.addr ∉ w.ready

def Worker.knows (w : Worker) (a : Addr) : Prop :=
  a ∈ w.addrs ∨ a ∈ w.ready ∨ a ∈ w.delayed.map (·.addr)

/-- assumptions on an incoming message -/
def Worker.okRecv (w : Worker) : Msg → Prop
  | .submit t => t.fresh ∧ ¬ w.knows t.addr
  | .batch ts => (ts.map (·.addr)).Nodup ∧ ∀ t ∈ ts, t.fresh ∧ ¬ w.knows t.addr
  | .result a _ _ => a.w = w.id → ∀ b, boxGet w.boxes a.m = some b → b.ready = false
  | _ => True

theorem mem_addrs {w : Worker} {t : Task} (h : t ∈ w.tasks) : t.addr ∈ w.addrs :=
  List.mem_map.2 ⟨t, h, rfl⟩

theorem WInv.eq_of_addr {ex} {w : Worker} (h : WInv ex w) {x y : Task} (hx : x ∈ w.tasks) (hy : y ∈ w.tasks)
    (e : x.addr = y.addr) : x = y := nodup_addr_eq _ h.nodupT x y hx hy e

theorem WInv.congr {ex} {w w' : Worker} (h : WInv ex w) (e1 : w'.tasks = w.tasks)
    (e2 : w'.ready = w.ready) (e3 : w'.boxes = w.boxes) (e4 : w'.counter = w.counter)
    (e5 : w'.cancelled = w.cancelled) (e6 : w'.delayed = w.delayed) : WInv ex w' := by
  cases w; cases w'
  simp only at e1 e2 e3 e4 e5 e6
  subst e1 e2 e3 e4 e5 e6
  exact ⟨h.nodupT, h.nodupR, h.fresh, h.box, h.futs, h.uniq, h.rdy, h.dest, h.wait, h.dlN, h.dl⟩

theorem WInv.weaken {ex} {w : Worker} (h : WInv none w) : WInv ex w :=
  ⟨h.nodupT, h.nodupR, h.fresh, h.box, h.futs, h.uniq, h.rdy, h.dest,
   fun t ht _ => h.wait t ht (by simp), h.dlN, h.dl⟩

theorem keys_filter (bs : List (Nat × Box)) (q : Nat → Bool) (k : Nat)
    (h : k ∈ keys (bs.filter (fun p => q p.1))) : k ∈ keys bs := by
  simp only [keys, List.mem_map, List.mem_filter] at h ⊢
  obtain ⟨p, ⟨hp, _⟩, e⟩ := h
  exact ⟨p, hp, e⟩

/-- removing tasks, mailboxes and delayed tasks, adding cancelled addresses -/
theorem WInv.shrink {ex} {w : Worker} (h : WInv ex w) (q : Task → Bool) (r : Nat → Bool) (q2 : Task → Bool)
    (c' : List Addr) (hc : ∀ a ∈ w.cancelled, a ∈ c')
    (hd : ∀ m b d, boxGet w.boxes m = some b → r m = true → b.ready = false → b.dest = some d →
      ∀ t ∈ w.tasks, t.addr = d → q t = true) :
    WInv ex { w with tasks := w.tasks.filter q, boxes := w.boxes.filter (fun p => r p.1),
                     delayed := w.delayed.filter q2, cancelled := c' } := by
  have hsub : ∀ t, t ∈ w.tasks.filter q → t ∈ w.tasks := fun t ht => (List.mem_filter.1 ht).1
  have hbox : ∀ m b, boxGet (w.boxes.filter (fun p => r p.1)) m = some b → boxGet w.boxes m = some b ∧ r m = true :=
    fun m b hb => boxGet_filter_some _ _ _ _ hb
  have haddr : ∀ a, a ∈ (w.tasks.filter q).map (·.addr) → a ∈ w.addrs := by
    intro a ha
    obtain ⟨t, ht, e⟩ := List.mem_map.1 ha
    exact List.mem_map.2 ⟨t, hsub t ht, e⟩
  refine ⟨?_, h.nodupR, ?_, ?_, ?_, ?_, ?_, ?_, ?_, ?_, ?_⟩
  · exact h.nodupT.sublist (List.Sublist.map _ List.filter_sublist)
  · intro k hk; exact h.fresh k (keys_filter _ _ _ hk)
  · intro m b hb; exact h.box m b (hbox m b hb).1
  · intro t ht
    obtain ⟨f1, f2⟩ := h.futs t (hsub t ht)
    refine ⟨fun m hm => ⟨(f1 m hm).1, fun hs => (f1 m hm).2 ?_⟩, f2⟩
    cases hg : boxGet (w.boxes.filter (fun p => r p.1)) m with
    | none => rw [hg] at hs; cases hs
    | some b => rw [(hbox m b hg).1]; rfl
  · intro t ht t' ht'; exact h.uniq t (hsub t ht) t' (hsub t' ht')
  · intro t ht hr m b hdes hb; exact h.rdy t (hsub t ht) hr m b hdes (hbox m b hb).1
  · intro m b d hb hnr hde
    obtain ⟨h1, t, ht, e1, e2⟩ := h.dest m b d (hbox m b hb).1 hnr hde
    exact ⟨h1, t, List.mem_filter.2 ⟨ht, hd m b d (hbox m b hb).1 (hbox m b hb).2 hnr hde t ht e1⟩, e1, e2⟩
  · intro t ht hex hu m b hdes hb
    exact h.wait t (hsub t ht) hex ⟨fun hx => hu.1 (hc _ hx), fun c hcc hx => hu.2 c hcc (hc _ hx)⟩
      m b hdes (hbox m b hb).1
  · exact h.dlN.sublist (List.Sublist.map _ List.filter_sublist)
  · intro t ht
    obtain ⟨f, a1, a2⟩ := h.dl t (List.mem_filter.1 ht).1
    exact ⟨f, fun hx => a1 (haddr _ hx), a2⟩

theorem handleCancel_winv {ex} (w : Worker) (a : Addr) (h : WInv ex w) : WInv ex (w.handleCancel a) := by
  have := h.shrink (fun t => !t.descOf a)
    (fun k => !((w.tasks.filter (·.descOf a)).map (·.owned)).flatten.contains k)
    (fun t => !t.descOf a) (if w.cancelled.contains a then w.cancelled else w.cancelled ++ [a])
    (by intro x hx; split
        · exact hx
        · exact List.mem_append_left _ hx)
    (by
      intro m b d hb hr hnr hde t ht e
      obtain ⟨_, t', ht', e1, e2⟩ := h.dest m b d hb hnr hde
      have : t' = t := h.eq_of_addr ht' ht (by rw [e1, e])
      subst this
      cases hdesc : t'.descOf a with
      | false => rfl
      | true =>
        exfalso
        have hm : m ∈ t'.owned := ((h.futs t' ht).1 m ((h.futs t' ht).2 m e2)).2 (by rw [hb]; rfl)
        have : m ∈ ((w.tasks.filter (·.descOf a)).map (·.owned)).flatten := by
          simp only [List.mem_flatten, List.mem_map, List.mem_filter]
          exact ⟨t'.owned, ⟨t', ⟨ht, hdesc⟩, rfl⟩, hm⟩
        simp [this] at hr)
  exact this.congr rfl rfl rfl rfl rfl rfl

theorem taskErase_of_not_mem (l : List Task) (a : Addr) (h : a ∉ l.map (·.addr)) : taskErase l a = l := by
  simp only [taskErase, List.filter_eq_self, bne_iff_ne, ne_eq]
  intro t ht e
  exact h (List.mem_map.2 ⟨t, ht, e⟩)

theorem addTask_winv {ex} (w : Worker) (t : Task) (h : WInv ex w) (hf : t.fresh) (hk : ¬ w.knows t.addr) :
    WInv ex (w.addTask t) := by
  have k1 : t.addr ∉ w.addrs := fun hx => hk (Or.inl hx)
  have k2 : t.addr ∉ w.ready := fun hx => hk (Or.inr (Or.inl hx))
  have k3 : t.addr ∉ w.delayed.map (·.addr) := fun hx => hk (Or.inr (Or.inr hx))
  have e : (w.addTask t).tasks = w.tasks ++ [t] := by
    simp only [Worker.addTask]; rw [taskErase_of_not_mem _ _ k1]
  have mem : ∀ x, x ∈ (w.addTask t).tasks → x ∈ w.tasks ∨ x = t := by
    intro x hx; rw [e] at hx; simpa using hx
  refine ⟨?_, ?_, h.fresh, h.box, ?_, ?_, ?_, ?_, ?_, h.dlN, ?_⟩
  · show ((w.addTask t).tasks.map (·.addr)).Nodup
    rw [e, List.map_append, List.nodup_append]
    refine ⟨h.nodupT, by simp, ?_⟩
    intro a ha b hb
    simp only [List.map_cons, List.map_nil, List.mem_singleton] at hb
    rw [hb]; intro e'; exact k1 (e' ▸ ha)
  · show (w.ready ++ [t.addr]).Nodup
    rw [List.nodup_append]
    refine ⟨h.nodupR, by simp, ?_⟩
    intro a ha b hb
    simp only [List.mem_singleton] at hb
    rw [hb]; intro e'; exact k2 (e' ▸ ha)
  · intro x hx
    rcases mem x hx with hx | rfl
    · exact h.futs x hx
    · refine ⟨fun m hm => ?_, fun m hm => ?_⟩
      · rw [hf.2.1] at hm; cases hm
      · rw [hf.1] at hm; cases hm
  · intro x hx y hy m hm hm'
    rcases mem x hx with hx | rfl
    · rcases mem y hy with hy | rfl
      · exact h.uniq x hx y hy m hm hm'
      · rw [hf.2.1] at hm'; cases hm'
    · rw [hf.2.1] at hm; cases hm
  · intro x hx hr m b hdes hb
    rcases mem x hx with hx | rfl
    · refine h.rdy x hx ?_ m b hdes hb
      rcases List.mem_append.1 hr with hr | hr
      · exact hr
      · simp only [List.mem_singleton] at hr
        exact absurd (hr ▸ mem_addrs hx) k1
    · rw [hf.1] at hdes; cases hdes
  · intro m b d hb hnr hde
    obtain ⟨h1, x, hx, e1, e2⟩ := h.dest m b d hb hnr hde
    refine ⟨?_, x, by rw [e]; exact List.mem_append_left _ hx, e1, e2⟩
    intro hr
    rcases List.mem_append.1 hr with hr | hr
    · exact h1 hr
    · simp only [List.mem_singleton] at hr
      exact k1 (hr ▸ e1 ▸ mem_addrs hx)
  · intro x hx hex hu m b hdes hb
    rcases mem x hx with hx | rfl
    · rcases h.wait x hx hex hu m b hdes hb with hw | hw
      · exact Or.inl (List.mem_append_left _ hw)
      · exact Or.inr hw
    · rw [hf.1] at hdes; cases hdes
  · intro x hx
    obtain ⟨f, a1, a2⟩ := h.dl x hx
    refine ⟨f, ?_, ?_⟩
    · intro hxa
      have : x.addr ∈ (w.tasks ++ [t]).map (·.addr) := by rw [← e]; exact hxa
      simp only [List.map_append, List.mem_append, List.map_cons, List.map_nil, List.mem_singleton] at this
      rcases this with hh | hh
      · exact a1 hh
      · exact k3 (hh ▸ List.mem_map.2 ⟨x, hx, rfl⟩)
    · intro hr
      rcases List.mem_append.1 hr with hr | hr
      · exact a2 hr
      · simp only [List.mem_singleton] at hr
        exact k3 (hr ▸ List.mem_map.2 ⟨x, hx, rfl⟩)

theorem boxGet_boxSet_cases (bs : List (Nat × Box)) (m k : Nat) (b' bk : Box)
    (h : boxGet (boxSet bs m b') k = some bk) : (k = m ∧ bk = b') ∨ (k ≠ m ∧ boxGet bs k = some bk) := by
  by_cases e : k = m
  · subst e; rw [boxGet_boxSet_self] at h; exact Or.inl ⟨rfl, (Option.some.inj h).symm⟩
  · rw [boxGet_boxSet_ne _ _ _ _ e] at h; exact Or.inr ⟨e, h⟩

/-- replace mailbox `m` by `b'` and queue the addresses `push` -/
theorem WInv.setBoxPush {ex} {w : Worker} (h : WInv ex w) (m : Nat) (b b' : Box) (push : List Addr)
    (hb : boxGet w.boxes m = some b)
    (c1 : b'.fresh = none → b'.num = 0)
    (c2 : b.ready = true → b'.ready = true)
    (c3 : b.fresh ≠ none → b'.fresh ≠ none)
    (c4 : (w.ready ++ push).Nodup)
    (c5 : ∀ d ∈ push, d ∈ w.addrs ∧ ∀ t ∈ w.tasks, t.addr = d → t.desired = some m ∧
      (t.wakeNext = true → b'.fresh ≠ none) ∧ (t.wakeNext = false → b'.ready = true))
    (c6 : b'.ready = false → ∀ d, b'.dest = some d → d ∉ w.ready ++ push ∧
      ∃ t ∈ w.tasks, t.addr = d ∧ t.desired = some m)
    (c8 : ∀ t ∈ w.tasks, t.desired = some m → b.ready = false → b.dest = some t.addr →
      t.addr ∈ w.ready ++ push ∨ (b'.ready = false ∧ b'.dest = some t.addr)) :
    WInv ex { w with boxes := boxSet w.boxes m b', ready := w.ready ++ push } := by
  have hk : keys (boxSet w.boxes m b') = keys w.boxes := keys_boxSet_of_some _ _ _ _ hb
  refine ⟨h.nodupT, c4, ?_, ?_, ?_, h.uniq, ?_, ?_, ?_, h.dlN, ?_⟩
  · intro k hk'
    exact h.fresh k (by rw [← hk]; exact hk')
  · intro k bk hbk
    rcases boxGet_boxSet_cases _ _ _ _ _ hbk with ⟨rfl, rfl⟩ | ⟨_, hbk⟩
    · exact c1
    · exact h.box k bk hbk
  · intro t ht
    obtain ⟨f1, f2⟩ := h.futs t ht
    refine ⟨fun k hkm => ⟨(f1 k hkm).1, fun hs => (f1 k hkm).2 ?_⟩, f2⟩
    rw [boxGet_isSome_iff] at hs ⊢
    rw [← hk]; exact hs
  · intro t ht hr k bk hdes hbk
    rcases List.mem_append.1 hr with hr1 | hr1
    · rcases boxGet_boxSet_cases _ _ _ _ _ hbk with ⟨rfl, rfl⟩ | ⟨_, hbk⟩
      · obtain ⟨r1, r2⟩ := h.rdy t ht hr1 k b hdes hb
        exact ⟨fun hw => c3 (r1 hw), fun hw => c2 (r2 hw)⟩
      · exact h.rdy t ht hr1 k bk hdes hbk
    · obtain ⟨_, hc⟩ := c5 _ hr1
      obtain ⟨e1, e2, e3⟩ := hc t ht rfl
      rw [e1] at hdes
      have : m = k := Option.some.inj hdes
      subst this
      rw [boxGet_boxSet_self] at hbk
      have : b' = bk := Option.some.inj hbk
      subst this
      exact ⟨e2, e3⟩
  · intro k bk d hbk hnr hde
    rcases boxGet_boxSet_cases _ _ _ _ _ hbk with ⟨rfl, rfl⟩ | ⟨hne, hbk⟩
    · exact c6 hnr d hde
    · obtain ⟨h1, t, ht, e1, e2⟩ := h.dest k bk d hbk hnr hde
      refine ⟨?_, t, ht, e1, e2⟩
      intro hr
      rcases List.mem_append.1 hr with hr | hr
      · exact h1 hr
      · obtain ⟨_, hc⟩ := c5 _ hr
        have := (hc t ht e1).1
        rw [e2] at this
        exact hne (Option.some.inj this)
  · intro t ht hex hu k bk hdes hbk
    rcases boxGet_boxSet_cases _ _ _ _ _ hbk with ⟨rfl, rfl⟩ | ⟨_, hbk⟩
    · rcases h.wait t ht hex hu k b hdes hb with hw | ⟨hw1, hw2⟩
      · exact Or.inl (List.mem_append_left _ hw)
      · exact c8 t ht hdes hw1 hw2
    · rcases h.wait t ht hex hu k bk hdes hbk with hw | hw
      · exact Or.inl (List.mem_append_left _ hw)
      · exact Or.inr hw
  · intro t ht
    obtain ⟨f, a1, a2⟩ := h.dl t ht
    refine ⟨f, a1, ?_⟩
    intro hr
    rcases List.mem_append.1 hr with hr | hr
    · exact a2 hr
    · exact a1 (c5 _ hr).1

theorem deposit_ready (b : Box) (s : Nat) (v : Val) (h : b.ready = true) : (b.deposit s v).ready = true := by
  simp only [Box.ready, Bool.and_eq_true, decide_eq_true_eq, bne_iff_ne, ne_eq] at h
  have e : (b.deposit s v).num = b.num + 1 := rfl
  have e2 : (b.deposit s v).expected = b.expected := rfl
  simp only [Box.ready, Bool.and_eq_true, decide_eq_true_eq, bne_iff_ne, ne_eq, e, e2]
  omega

/-- `_handle_result`, when the mailbox is not complete yet -/
theorem handleResult_winv {ex} (w : Worker) (a : Addr) (v : Val) (h : WInv ex w)
    (hok : a.w = w.id → ∀ b, boxGet w.boxes a.m = some b → b.ready = false) :
    WInv ex (w.handleResult a v) ∧ (w.handleResult a v).inDead = (w.inDead || decide (a.w ≠ w.id)) := by
  unfold Worker.handleResult
  split
  · rename_i hne
    exact ⟨h.congr rfl rfl rfl rfl rfl rfl, by simp [hne]⟩
  · rename_i hne
    have hid : decide (a.w ≠ w.id) = false := by simpa using hne
    split
    · exact ⟨h, by simp [hid]⟩
    · rename_i b hb
      have hnr := hok (by simpa using hne) b hb
      have base : ∀ (b' : Box) (push : List Addr), WInv ex { w with boxes := boxSet w.boxes a.m b', ready := w.ready ++ push } →
          WInv ex { w with boxes := boxSet w.boxes a.m b', ready := w.ready ++ push } := fun _ _ x => x
      dsimp only
      split
      · -- no waiter registered
        rename_i hd
        have := h.setBoxPush a.m b (b.deposit a.s v) [] hb (by simp [Box.deposit])
          (deposit_ready b a.s v) (by simp [Box.deposit]) (by simpa using h.nodupR)
          (by intro d hd'; cases hd')
          (by intro _ d hde; rw [hd] at hde; cases hde)
          (by intro t ht _ _ hde
              have : (b.deposit a.s v).dest = b.dest := rfl
              rw [this, hde] at hd; cases hd)
        exact ⟨this.congr rfl (by simp) rfl rfl rfl rfl, by simp [hid]⟩
      · rename_i d hd
        have hd0 : b.dest = some d := hd
        obtain ⟨hdr, t, ht, e1, e2⟩ := h.dest a.m b d hb hnr hd0
        have hg : taskGet w.tasks d = some t := e1 ▸ taskGet_of_mem _ h.nodupT t ht
        rw [hg]
        dsimp only
        split
        · rename_i hcond
          have := h.setBoxPush a.m b { (b.deposit a.s v) with dest := none } [d] hb (by simp [Box.deposit])
            (deposit_ready b a.s v) (by simp [Box.deposit])
            (by rw [List.nodup_append]; exact ⟨h.nodupR, by simp, by
                  intro x hx y hy; simp only [List.mem_singleton] at hy; rw [hy]; intro e; exact hdr (e ▸ hx)⟩)
            (by intro d' hd'
                simp only [List.mem_singleton] at hd'
                subst hd'
                refine ⟨e1 ▸ mem_addrs ht, ?_⟩
                intro t' ht' e'
                have : t' = t := h.eq_of_addr ht' ht (by rw [e', e1])
                subst this
                refine ⟨e2, fun _ => by simp [Box.deposit], fun hw => ?_⟩
                rcases Bool.or_eq_true _ _ ▸ hcond with hc | hc
                · rw [hw] at hc; cases hc
                · exact hc)
            (by intro _ d' hde; cases hde)
            (by intro t' ht' _ _ hde
                rw [hd0] at hde
                exact Or.inl (List.mem_append_right _ (by simp [Option.some.inj hde])))
          exact ⟨this, by simp [hid]⟩
        · rename_i hcond
          have hnr' : (b.deposit a.s v).ready = false := by
            cases hh : (b.deposit a.s v).ready with
            | false => rfl
            | true => exfalso; apply hcond; simp [hh]
          have := h.setBoxPush a.m b (b.deposit a.s v) [] hb (by simp [Box.deposit])
            (deposit_ready b a.s v) (by simp [Box.deposit]) (by simpa using h.nodupR)
            (by intro d hd'; cases hd')
            (by intro _ d' hde
                have : d' = d := by rw [hd] at hde; exact (Option.some.inj hde).symm
                subst this
                exact ⟨by simpa using hdr, t, ht, e1, e2⟩)
            (by intro t' ht' _ _ hde
                exact Or.inr ⟨hnr', hde⟩)
          exact ⟨this.congr rfl (by simp) rfl rfl rfl rfl, by simp [hid]⟩

theorem WInv.addDelayed {ex} {w : Worker} (h : WInv ex w) (ds : List Task)
    (hn : (ds.map (·.addr)).Nodup) (hf : ∀ t ∈ ds, t.fresh ∧ ¬ w.knows t.addr) :
    WInv ex { w with delayed := w.delayed ++ ds } := by
  refine ⟨h.nodupT, h.nodupR, h.fresh, h.box, h.futs, h.uniq, h.rdy, h.dest, h.wait, ?_, ?_⟩
  · show ((w.delayed ++ ds).map (·.addr)).Nodup
    rw [List.map_append, List.nodup_append]
    refine ⟨h.dlN, hn, ?_⟩
    intro a ha b hb e
    obtain ⟨t, ht, rfl⟩ := List.mem_map.1 hb
    exact (hf t ht).2 (Or.inr (Or.inr (e ▸ ha)))
  · intro t ht
    rcases List.mem_append.1 ht with ht | ht
    · exact h.dl t ht
    · exact ⟨(hf t ht).1, fun hx => (hf t ht).2 (Or.inl hx), fun hx => (hf t ht).2 (Or.inr (Or.inl hx))⟩

theorem dropLast_getLast {α} (l : List α) (a : α) (h : l.getLast? = some a) : l.dropLast ++ [a] = l := by
  obtain ⟨ys, rfl⟩ := List.getLast?_eq_some_iff.1 h
  simp

theorem recv_winv {ex} (w : Worker) (msg : Msg) (h : WInv ex w) (hok : w.okRecv msg) :
    WInv ex (w.recv msg) := by
  cases msg with
  | shutdown => exact h.congr rfl rfl rfl rfl rfl rfl
  | eof => exact h.congr rfl rfl rfl rfl rfl rfl
  | submit t => exact (addTask_winv w t h hok.1 hok.2).congr rfl rfl rfl rfl rfl rfl
  | batch ts =>
    simp only [Worker.recv]
    split
    · exact h.congr rfl rfl rfl rfl rfl rfl
    · rename_i last hl
      obtain ⟨hn, hf⟩ := hok
      have hts : ts.dropLast ++ [last] = ts := dropLast_getLast ts last hl
      have hlast : last ∈ ts := by rw [← hts]; simp
      have hdl : ∀ x ∈ ts.dropLast, x ∈ ts := fun x hx => by rw [← hts]; exact List.mem_append_left _ hx
      have h1 : WInv ex ({ w with receipt := ts.head?.map (fun (x : Task) => x.addr) } : Worker) :=
        h.congr rfl rfl rfl rfl rfl rfl
      have h2 := addTask_winv _ last h1 (hf last hlast).1 (hf last hlast).2
      rw [← hts, List.map_append, List.nodup_append] at hn
      have h3 := h2.addDelayed ts.dropLast hn.1 (by
        intro x hx
        refine ⟨(hf x (hdl x hx)).1, ?_⟩
        have hne : x.addr ≠ last.addr := hn.2.2 x.addr (List.mem_map.2 ⟨x, hx, rfl⟩) last.addr (by simp)
        have hk := (hf x (hdl x hx)).2
        have hk1 : last.addr ∉ w.addrs := fun hx => (hf last hlast).2 (Or.inl hx)
        intro hkn
        rcases hkn with hkn | hkn | hkn
        · have : x.addr ∈ (w.tasks ++ [last]).map (·.addr) := by
            have e : (taskErase w.tasks last.addr ++ [last]) = w.tasks ++ [last] := by
              rw [taskErase_of_not_mem _ _ hk1]
            rw [← e]; exact hkn
          simp only [List.map_append, List.mem_append, List.map_cons, List.map_nil, List.mem_singleton] at this
          rcases this with hh | hh
          · exact hk (Or.inl hh)
          · exact hne hh
        · rcases List.mem_append.1 hkn with hh | hh
          · exact hk (Or.inr (Or.inl hh))
          · simp only [List.mem_singleton] at hh; exact hne hh
        · exact hk (Or.inr (Or.inr hkn)))
      exact h3.congr rfl rfl rfl rfl rfl rfl
  | result a v by_ => exact (handleResult_winv w a v h hok).1
  | cancel a =>
    simp only [Worker.recv]
    split
    · exact (handleCancel_winv w a h).congr rfl rfl rfl rfl rfl rfl
    · exact handleCancel_winv w a h
  | error _ _ => exact h
  | sysError _ => exact h
  | waiting _ _ => exact h
  | update _ => exact h
  | cSubmit _ _ => exact h
  | cRequest _ => exact h
  | cStatus _ => exact h
  | cCancel _ => exact h
  | cDisconnect => exact h
  | sResult _ => exact h
  | sStatus _ => exact h
  | sCancelAck => exact h
  | sError _ => exact h

-- ------------------------------------------------------------- main thread
theorem WInv.pop {w : Worker} (h : WInv none w) (a : Addr) (rest : List Addr) (hr : w.ready = a :: rest) :
    WInv (some a) { w with ready := rest } ∧ a ∉ rest := by
  have hn : (a :: rest).Nodup := hr ▸ h.nodupR
  have hsub : ∀ x, x ∈ rest → x ∈ w.ready := fun x hx => by rw [hr]; exact List.mem_cons_of_mem _ hx
  refine ⟨⟨h.nodupT, (List.nodup_cons.1 hn).2, h.fresh, h.box, h.futs, h.uniq, ?_, ?_, ?_, h.dlN, ?_⟩,
    (List.nodup_cons.1 hn).1⟩
  · intro t ht hrr; exact h.rdy t ht (hsub _ hrr)
  · intro m b d hb hnr hde
    obtain ⟨h1, x⟩ := h.dest m b d hb hnr hde
    exact ⟨fun hx => h1 (hsub _ hx), x⟩
  · intro t ht hex hu m b hdes hb
    rcases h.wait t ht (by simp) hu m b hdes hb with hw | hw
    · rw [hr] at hw
      rcases List.mem_cons.1 hw with e | e
      · exact absurd (congrArg some e) hex
      · exact Or.inl e
    · exact Or.inr hw
  · intro t ht
    obtain ⟨f, a1, a2⟩ := h.dl t ht
    exact ⟨f, a1, fun hx => a2 (hsub _ hx)⟩

theorem WInv.unex {a : Addr} {w : Worker} (h : WInv (some a) w)
    (hx : ∀ t ∈ w.tasks, t.addr = a → ¬ t.uncancelled w ∨ t.desired = none) : WInv none w := by
  refine ⟨h.nodupT, h.nodupR, h.fresh, h.box, h.futs, h.uniq, h.rdy, h.dest, ?_, h.dlN, h.dl⟩
  intro t ht _ hu m b hdes hb
  by_cases e : t.addr = a
  · rcases hx t ht e with h1 | h1
    · exact absurd hu h1
    · rw [h1] at hdes; cases hdes
  · exact h.wait t ht (by simpa using e) hu m b hdes hb

theorem WInv.eraseTask {ex} {w : Worker} (h : WInv ex w) (a : Addr)
    (hd : ∀ m b, boxGet w.boxes m = some b → b.ready = false → b.dest ≠ some a) :
    WInv ex { w with tasks := taskErase w.tasks a } := by
  have := h.shrink (fun t => t.addr != a) (fun _ => true) (fun _ => true) w.cancelled (fun _ hx => hx)
    (by intro m b d hb _ hnr hde t ht e
        have : d ≠ a := fun e' => hd m b hb hnr (e' ▸ hde)
        simpa [e] using this)
  exact this.congr rfl rfl (List.filter_eq_self.2 (fun _ _ => rfl)).symm rfl rfl
    (List.filter_eq_self.2 (fun _ _ => rfl)).symm

/-- what `_get_next_ready_task` guarantees about the task it returns -/
structure PickOK (p : Picked) : Prop where
  idle : p.task = none → WInv none p.w
  run : ∀ t0, p.task = some t0 → WInv (some t0.addr) p.w ∧ t0 ∈ p.w.tasks ∧ t0.addr ∉ p.w.ready
    ∧ (∀ m b, t0.desired = some m → boxGet p.w.boxes m = some b →
        (t0.wakeNext = true → b.fresh ≠ none) ∧ (t0.wakeNext = false → b.ready = true))
    ∧ (∀ m b, boxGet p.w.boxes m = some b → b.ready = false → b.dest ≠ some t0.addr)

theorem pick_winv (fuel : Nat) (w : Worker) (h : WInv none w) : PickOK (Worker.pick fuel w) := by
  fun_induction Worker.pick fuel w with
  | case1 w => exact ⟨fun _ => h, fun t0 ht => by simp at ht⟩
  | case2 fuel w hr t' ht' ih =>
    apply ih
    have hts := dropLast_getLast _ _ ht'
    have hmem : t' ∈ w.delayed := by rw [← hts]; simp
    have hn : ((w.delayed.dropLast ++ [t']).map (·.addr)).Nodup := by rw [hts]; exact h.dlN
    rw [List.map_append, List.nodup_append] at hn
    have h0 : WInv none { w with delayed := w.delayed.dropLast } :=
      ⟨h.nodupT, h.nodupR, h.fresh, h.box, h.futs, h.uniq, h.rdy, h.dest, h.wait, hn.1,
       fun t ht => h.dl t (by rw [← hts]; exact List.mem_append_left _ ht)⟩
    obtain ⟨f, a1, a2⟩ := h.dl t' hmem
    apply addTask_winv _ t' h0 f
    intro hk
    rcases hk with hk | hk | hk
    · exact a1 hk
    · exact a2 hk
    · exact hn.2.2 _ hk t'.addr (by simp) rfl
  | case3 fuel w hr hd => exact ⟨fun _ => h.congr rfl rfl rfl rfl rfl rfl, fun t0 ht => by simp at ht⟩
  | case4 fuel w a rest hr w1 hc ih =>
    apply ih
    apply (h.pop a rest hr).1.unex
    intro t _ e
    left
    intro hu
    apply hu.1
    rw [e]
    simpa using hc
  | case5 fuel w a rest hr w1 hc hg ih =>
    apply ih
    apply (h.pop a rest hr).1.unex
    intro t ht e
    exact absurd e (taskGet_none_not_mem _ _ hg t ht)
  | case6 fuel w a rest hr w1 hc t' hg hcr ih =>
    apply ih
    have h1 := (h.pop a rest hr).1
    have h2 := h1.eraseTask a (by
      intro m b hb hnr hde
      have := (h.dest m b a hb hnr hde).1
      rw [hr] at this
      exact this List.mem_cons_self)
    apply h2.unex
    intro t ht e
    exact absurd e (mem_taskErase _ _ _ ht).2
  | case7 fuel w a rest hr w1 hc t' hg hcr =>
    refine ⟨fun ht => by simp at ht, ?_⟩
    intro t0 ht0
    simp only [Option.some.injEq] at ht0
    subst ht0
    have ha : t'.addr = a := taskGet_addr _ _ _ hg
    have hm : t' ∈ w.tasks := taskGet_mem _ _ _ hg
    obtain ⟨h1, h2⟩ := h.pop a rest hr
    refine ⟨ha ▸ h1, hm, ha ▸ h2, ?_, ?_⟩
    · intro m b hdes hb
      exact h.rdy t' hm (by rw [hr, ha]; exact List.mem_cons_self) m b hdes hb
    · intro m b hb hnr hde
      have := (h.dest m b t'.addr hb hnr hde).1
      rw [hr, ha] at this
      exact this List.mem_cons_self

theorem WInv.unex' {a : Addr} {w : Worker} (h : WInv (some a) w)
    (hx : ∀ t ∈ w.tasks, t.addr = a → ∀ m b, t.desired = some m → boxGet w.boxes m = some b →
      t.addr ∈ w.ready ∨ (b.ready = false ∧ b.dest = some t.addr)) : WInv none w := by
  refine ⟨h.nodupT, h.nodupR, h.fresh, h.box, h.futs, h.uniq, h.rdy, h.dest, ?_, h.dlN, h.dl⟩
  intro t ht _ hu m b hdes hb
  by_cases e : t.addr = a
  · exact hx t ht e m b hdes hb
  · exact h.wait t ht (by simpa using e) hu m b hdes hb

theorem WInv.eraseBox {ex} {w : Worker} (h : WInv ex w) (m : Nat) :
    WInv ex { w with boxes := boxErase w.boxes m } := by
  have := h.shrink (fun _ => true) (fun k => k != m) (fun _ => true) w.cancelled (fun _ hx => hx)
    (by intros; rfl)
  exact this.congr (List.filter_eq_self.2 (fun _ _ => rfl)).symm rfl rfl rfl rfl
    (List.filter_eq_self.2 (fun _ _ => rfl)).symm

theorem taskSet_taskSet (l : List Task) (t t' : Task) (e : t'.addr = t.addr) :
    taskSet (taskSet l t) t' = taskSet l t' := by
  simp only [taskSet, List.map_map]
  apply List.map_congr_left
  intro a _
  by_cases h : a.addr = t.addr
  · simp [h, e]
  · simp [h, e]

/-- overwrite the table entry of the running task -/
theorem WInv.setTask {ex} {w : Worker} (h : WInv ex w) (x tA : Task) (hx : x ∈ w.tasks)
    (ha : tA.addr = x.addr) (hnr : x.addr ∉ w.ready)
    (hf : ∀ m ∈ tA.futs, m < w.counter ∧ ((boxGet w.boxes m).isSome → m ∈ tA.owned))
    (hdes : ∀ m, tA.desired = some m → m ∈ tA.futs)
    (hu : ∀ t' ∈ w.tasks, t'.addr ≠ x.addr → ∀ m ∈ tA.futs, m ∉ t'.futs)
    (hnd : ∀ m b, boxGet w.boxes m = some b → b.ready = false → b.dest ≠ some x.addr)
    (hex0 : ex = none ∨ ex = some x.addr) :
    WInv (some x.addr) { w with tasks := taskSet w.tasks tA } := by
  have mem : ∀ y, y ∈ taskSet w.tasks tA → (y ∈ w.tasks ∧ y.addr ≠ x.addr) ∨ y = tA := by
    intro y hy
    rcases mem_taskSet _ _ _ hy with ⟨h1, h2⟩ | ⟨h1, _⟩
    · exact Or.inl ⟨h1, ha ▸ h2⟩
    · exact Or.inr h1
  have hin : tA ∈ taskSet w.tasks tA := mem_taskSet_self _ _ ⟨x, hx, ha.symm⟩
  refine ⟨?_, h.nodupR, h.fresh, h.box, ?_, ?_, ?_, ?_, ?_, h.dlN, ?_⟩
  · show ((taskSet w.tasks tA).map (·.addr)).Nodup
    rw [taskSet_addrs]; exact h.nodupT
  · intro y hy
    rcases mem y hy with ⟨hy, _⟩ | rfl
    · exact h.futs y hy
    · exact ⟨hf, hdes⟩
  · intro y hy z hz m hm hm'
    rcases mem y hy with ⟨hy1, hya⟩ | hy1
    · rcases mem z hz with ⟨hz1, hza⟩ | hz1
      · exact h.uniq y hy1 z hz1 m hm hm'
      · subst hz1; exact absurd hm (hu y hy1 hya m hm')
    · rcases mem z hz with ⟨hz1, hza⟩ | hz1
      · subst hy1; exact absurd hm' (hu z hz1 hza m hm)
      · rw [hy1, hz1]
  · intro y hy hr m b hd hb
    rcases mem y hy with ⟨hy1, _⟩ | hy1
    · exact h.rdy y hy1 hr m b hd hb
    · subst hy1; exact absurd (ha ▸ hr) hnr
  · intro m b d hb hnr' hde
    obtain ⟨h1, t, ht, e1, e2⟩ := h.dest m b d hb hnr' hde
    refine ⟨h1, t, ?_, e1, e2⟩
    apply mem_taskSet_of_ne _ _ _ ht
    rw [ha, e1]
    intro e; exact hnd m b hb hnr' (e ▸ hde)
  · intro y hy hex huc m b hd hb
    rcases mem y hy with ⟨hy1, hya⟩ | hy1
    · refine h.wait y hy1 ?_ huc m b hd hb
      rcases hex0 with e | e
      · rw [e]; simp
      · rw [e]; intro e'; exact hya (Option.some.inj e')
    · subst hy1; exact absurd (congrArg some ha) hex
  · intro t ht
    obtain ⟨f, a1, a2⟩ := h.dl t ht
    refine ⟨f, ?_, a2⟩
    show t.addr ∉ (taskSet w.tasks tA).map (·.addr)
    rw [taskSet_addrs]; exact a1

theorem WInv.newBox {ex} {w : Worker} (h : WInv ex w) (nb : Box) (h1 : nb.fresh = none → nb.num = 0)
    (h2 : nb.dest = none) :
    WInv ex { w with counter := w.counter + 1, boxes := w.boxes ++ [(w.counter, nb)] } := by
  have hg : ∀ k bk, boxGet (w.boxes ++ [(w.counter, nb)]) k = some bk →
      boxGet w.boxes k = some bk ∨ (boxGet w.boxes k = none ∧ k = w.counter ∧ bk = nb) := by
    intro k bk hk
    rw [boxGet_append] at hk
    cases hb : boxGet w.boxes k with
    | some b => rw [hb] at hk; exact Or.inl hk
    | none =>
      rw [hb] at hk
      by_cases e : w.counter = k
      · simp only [e, if_true, Option.some.injEq] at hk; exact Or.inr ⟨rfl, e.symm, hk.symm⟩
      · simp [e] at hk
  have hlt : ∀ t ∈ w.tasks, ∀ k, t.desired = some k → k < w.counter :=
    fun t ht k hd => ((h.futs t ht).1 k ((h.futs t ht).2 k hd)).1
  have hold : ∀ t ∈ w.tasks, ∀ k bk, t.desired = some k → boxGet (w.boxes ++ [(w.counter, nb)]) k = some bk →
      boxGet w.boxes k = some bk := by
    intro t ht k bk hd hk
    rcases hg k bk hk with hh | ⟨_, e, _⟩
    · exact hh
    · exact absurd (hlt t ht k hd) (by rw [e]; exact Nat.lt_irrefl _)
  refine ⟨h.nodupT, h.nodupR, ?_, ?_, ?_, h.uniq, ?_, ?_, ?_, h.dlN, h.dl⟩
  · exact (newBox_mono w nb).fresh h.fresh
  · intro k bk hk
    rcases hg k bk hk with hh | ⟨_, _, e⟩
    · exact h.box k bk hh
    · rw [e]; exact h1
  · intro t ht
    obtain ⟨f1, f2⟩ := h.futs t ht
    refine ⟨fun k hk => ⟨Nat.lt_succ_of_lt (f1 k hk).1, fun hs => (f1 k hk).2 ?_⟩, f2⟩
    cases hb : boxGet w.boxes k with
    | some b => rfl
    | none =>
      exfalso
      cases hb' : boxGet (w.boxes ++ [(w.counter, nb)]) k with
      | none => rw [hb'] at hs; cases hs
      | some bk =>
        rcases hg k bk hb' with hh | ⟨_, e, _⟩
        · rw [hb] at hh; cases hh
        · exact absurd (f1 k hk).1 (by rw [e]; exact Nat.lt_irrefl _)
  · intro t ht hr k bk hd hk
    exact h.rdy t ht hr k bk hd (hold t ht k bk hd hk)
  · intro k bk d hk hnr hde
    rcases hg k bk hk with hh | ⟨_, _, e⟩
    · exact h.dest k bk d hh hnr hde
    · rw [e, h2] at hde; cases hde
  · intro t ht hex hu k bk hd hk
    exact h.wait t ht hex hu k bk hd (hold t ht k bk hd hk)

/-- the worker with the running task written back into the table -/
def commit (r : Run) : Worker := { r.w with tasks := taskSet r.w.tasks r.t }

/-- invariant while a task body runs: the running task is not waiting and not queued -/
structure RInv (r : Run) : Prop where
  inv : WInv none (commit r)
  des : r.t.desired = none
  nr : r.t.addr ∉ r.w.ready
  mem : ∃ x ∈ r.w.tasks, x.addr = r.t.addr

theorem RInv.active_mem {r : Run} (hr : RInv r) : r.t ∈ (commit r).tasks :=
  mem_taskSet_self _ _ hr.mem

theorem RInv.other_mem {r : Run} (x : Task) (hx : x ∈ r.w.tasks) (hne : x.addr ≠ r.t.addr) :
    x ∈ (commit r).tasks := mem_taskSet_of_ne _ _ _ hx hne

theorem RInv.nodest {r : Run} (hr : RInv r) (bs : List (Nat × Box)) (c : Nat)
    (hW : WInv none { commit r with boxes := bs, counter := c }) :
    ∀ m b, boxGet bs m = some b → b.ready = false → b.dest ≠ some r.t.addr := by
  intro m b hb hnr hde
  obtain ⟨_, t, ht, e1, e2⟩ := hW.dest m b _ hb hnr hde
  have : t = r.t := hW.eq_of_addr ht hr.active_mem e1
  rw [this, hr.des] at e2; cases e2

/-- one instruction of the body: mailboxes / counter change, the running task is updated -/
theorem RInv.step {r : Run} (hr : RInv r) (bs' : List (Nat × Box)) (c' : Nat) (t' : Task)
    (o : List Msg) (e : List Ev)
    (hW : WInv none { commit r with boxes := bs', counter := c' })
    (ha : t'.addr = r.t.addr) (hd : t'.desired = none)
    (hf : ∀ m ∈ t'.futs, m < c' ∧ ((boxGet bs' m).isSome → m ∈ t'.owned))
    (hu : ∀ x ∈ r.w.tasks, x.addr ≠ r.t.addr → ∀ m ∈ t'.futs, m ∉ x.futs) :
    RInv { w := { r.w with boxes := bs', counter := c' }, t := t', out := o, evs := e } := by
  refine ⟨?_, hd, by rw [ha]; exact hr.nr, by rw [ha]; exact hr.mem⟩
  have h1 := hW.setTask r.t t' hr.active_mem ha hr.nr hf (by intro m hm; rw [hd] at hm; cases hm)
    (by
      intro x hx hne m hm
      rcases mem_taskSet _ _ _ hx with ⟨h1, h2⟩ | ⟨h1, _⟩
      · exact hu x h1 h2 m hm
      · exact absurd (h1 ▸ rfl) hne)
    (hr.nodest bs' c' hW) (Or.inl rfl)
  have h2 := h1.unex (by intro t ht hta; right
                         rcases mem_taskSet _ _ _ ht with ⟨_, h2⟩ | ⟨h1', _⟩
                         · exact absurd (hta.trans ha.symm) h2
                         · rw [h1']; exact hd)
  exact h2.congr (taskSet_taskSet _ _ _ ha).symm rfl rfl rfl rfl rfl

theorem boxGet_append_isSome (bs : List (Nat × Box)) (c k : Nat) (nb : Box) (hne : k ≠ c)
    (h : (boxGet (bs ++ [(c, nb)]) k).isSome) : (boxGet bs k).isSome := by
  rw [boxGet_append] at h
  cases hb : boxGet bs k with
  | some b => rfl
  | none => rw [hb] at h; simp [Ne.symm hne] at h

/-- creating a future (`submit` / `map`) -/
theorem RInv.spawn {r : Run} (hr : RInv r) (nb : Box) (h1 : nb.fresh = none → nb.num = 0)
    (h2 : nb.dest = none) (pc' : Nat) (o : List Msg) (e : List Ev) :
    RInv { w := { r.w with counter := r.w.counter + 1, boxes := r.w.boxes ++ [(r.w.counter, nb)] },
           t := { r.t with owned := r.t.owned ++ [r.w.counter], futs := r.t.futs ++ [r.w.counter], pc := pc' },
           out := o, evs := e } := by
  obtain ⟨f1, _⟩ := hr.inv.futs r.t hr.active_mem
  apply hr.step (r.w.boxes ++ [(r.w.counter, nb)]) (r.w.counter + 1)
    { r.t with owned := r.t.owned ++ [r.w.counter], futs := r.t.futs ++ [r.w.counter], pc := pc' }
    o e (hr.inv.newBox nb h1 h2) rfl hr.des
  · intro m hm
    rcases List.mem_append.1 hm with hm | hm
    · have := f1 m hm
      refine ⟨Nat.lt_succ_of_lt this.1, fun hs => List.mem_append_left _ (this.2 ?_)⟩
      exact boxGet_append_isSome _ _ _ _ (Nat.ne_of_lt this.1) hs
    · simp only [List.mem_singleton] at hm
      subst hm
      exact ⟨Nat.lt_succ_self _, fun _ => List.mem_append_right _ (by simp)⟩
  · intro x hx hne m hm hmx
    have hx' := RInv.other_mem x hx hne
    rcases List.mem_append.1 hm with hm | hm
    · exact hne (hr.inv.uniq x hx' r.t hr.active_mem m hmx hm)
    · simp only [List.mem_singleton] at hm
      subst hm
      exact Nat.lt_irrefl _ ((hr.inv.futs x hx').1 _ hmx).1

/-- `Worker.cancel(future)` by the owner -/
theorem RInv.cancelBox {r : Run} (hr : RInv r) (m : Nat) (pc' : Nat) (o : List Msg) (e : List Ev) :
    RInv { w := { r.w with boxes := boxErase r.w.boxes m },
           t := { r.t with owned := r.t.owned.erase m, pc := pc' }, out := o, evs := e } := by
  obtain ⟨f1, _⟩ := hr.inv.futs r.t hr.active_mem
  apply hr.step (boxErase r.w.boxes m) r.w.counter { r.t with owned := r.t.owned.erase m, pc := pc' }
    o e (hr.inv.eraseBox m) rfl hr.des
  · intro k hk
    have := f1 k hk
    refine ⟨this.1, fun hs => ?_⟩
    cases hb : boxGet (boxErase r.w.boxes m) k with
    | none => rw [hb] at hs; cases hs
    | some b =>
      obtain ⟨g1, g2⟩ := boxGet_boxErase_some _ _ _ _ hb
      exact (List.mem_erase_of_ne g2).2 (this.2 (by show (boxGet r.w.boxes k).isSome; rw [g1]; rfl))
  · intro x hx hne k hk hkx
    exact hne (hr.inv.uniq x (RInv.other_mem x hx hne) r.t hr.active_mem k hkx hk)

/-- updates of the running task that keep futures and ownership -/
theorem RInv.same {r : Run} (hr : RInv r) (t' : Task) (ha : t'.addr = r.t.addr) (hd : t'.desired = none)
    (hfu : t'.futs = r.t.futs) (ho : t'.owned = r.t.owned) (o : List Msg) (e : List Ev) :
    RInv { w := r.w, t := t', out := o, evs := e } := by
  obtain ⟨f1, _⟩ := hr.inv.futs r.t hr.active_mem
  apply hr.step r.w.boxes r.w.counter t' o e hr.inv ha hd
  · intro k hk; rw [hfu] at hk; rw [ho]; exact f1 k hk
  · intro x hx hne k hk hkx
    rw [hfu] at hk
    exact hne (hr.inv.uniq x (RInv.other_mem x hx hne) r.t hr.active_mem k hkx hk)

theorem runBody_winv (tbl : Table) (fuel : Nat) (r : Run) (hr : RInv r) :
    RInv (runBody tbl fuel r).1 ∧
    ∀ m nxt, (runBody tbl fuel r).2 = .awaitF m nxt → m ∈ (runBody tbl fuel r).1.t.futs := by
  induction fuel generalizing r with
  | zero => exact ⟨hr, fun m nxt h => by simp [runBody] at h⟩
  | succ n ih =>
    simp only [runBody]
    split
    · exact ih _ (hr.spawn (Box.new none) (fun _ => rfl) rfl _ _ _)
    · split
      · exact ⟨hr, fun m nxt h => by simp at h⟩
      · exact ih _ (hr.spawn (Box.new (some _)) (fun _ => rfl) rfl _ _ _)
    · split
      · exact ⟨hr, fun m nxt h => by simp at h⟩
      · rename_i m hm
        refine ⟨hr.same { r.t with atAwait := true } rfl hr.des rfl rfl _ _, ?_⟩
        intro m' nxt h
        simp only [Outcome.awaitF.injEq] at h
        rw [← h.1]
        exact List.mem_of_getElem? hm
    · split
      · exact ⟨hr, fun m nxt h => by simp at h⟩
      · split
        · exact ⟨hr, fun m nxt h => by simp at h⟩
        · rename_i m hm _ _ _
          refine ⟨hr.same { r.t with atAwait := true } rfl hr.des rfl rfl _ _, ?_⟩
          intro m' nxt h
          simp only [Outcome.awaitF.injEq] at h
          rw [← h.1]
          exact List.mem_of_getElem? hm
    · split
      · exact ⟨hr, fun m nxt h => by simp at h⟩
      · split
        · exact ⟨hr.same r.t rfl hr.des rfl rfl _ _, fun m nxt h => by simp at h⟩
        · split
          · exact ⟨hr.same r.t rfl hr.des rfl rfl _ _, fun m nxt h => by simp at h⟩
          · exact ih _ (hr.cancelBox _ _ _ _)
    · exact ⟨hr.same r.t rfl hr.des rfl rfl _ _, fun m nxt h => by simp at h⟩
    · exact ⟨hr.same r.t rfl hr.des rfl rfl _ _, fun m nxt h => by simp at h⟩

/-- the state between `_get_next_ready_task` and `task.step` -/
structure Active (w : Worker) (t : Task) : Prop where
  inv : WInv (some t.addr) w
  mem : ∃ x ∈ w.tasks, x.addr = t.addr ∧ x.futs = t.futs
  nr : t.addr ∉ w.ready
  nd : ∀ m b, boxGet w.boxes m = some b → b.ready = false → b.dest ≠ some t.addr
  fu : ∀ m ∈ t.futs, m < w.counter ∧ ((boxGet w.boxes m).isSome → m ∈ t.owned)

theorem Active.toRInv {w : Worker} {t : Task} (h : Active w t) (tR : Task) (ha : tR.addr = t.addr)
    (hd : tR.desired = none) (hf : tR.futs = t.futs) (ho : tR.owned = t.owned) (o : List Msg) (e : List Ev) :
    RInv { w := w, t := tR, out := o, evs := e } := by
  obtain ⟨x, hx, hxa, hxf⟩ := h.mem
  refine ⟨?_, hd, by rw [ha]; exact h.nr, ⟨x, hx, by rw [ha]; exact hxa⟩⟩
  have h1 := h.inv.setTask x tR hx (ha.trans hxa.symm) (hxa ▸ h.nr)
    (by intro m hm; rw [hf] at hm; rw [ho]; exact h.fu m hm)
    (by intro m hm; rw [hd] at hm; cases hm)
    (by intro t' ht' hne m hm hm'
        rw [hf, ← hxf] at hm
        exact hne (h.inv.uniq t' ht' x hx m hm' hm))
    (hxa ▸ h.nd) (Or.inr (by rw [hxa]))
  have h2 := h1.unex (by
    intro y hy hya; right
    rcases mem_taskSet _ _ _ hy with ⟨_, h2⟩ | ⟨h1', _⟩
    · exact absurd (hya.trans (hxa.trans ha.symm)) h2
    · rw [h1']; exact hd)
  exact h2

theorem resume_fields (tbl : Table) (t1 : Task) (val : Option Val) :
    (resume tbl t1 val).1.addr = t1.addr ∧ (resume tbl t1 val).1.desired = none ∧
    (resume tbl t1 val).1.futs = t1.futs ∧ (resume tbl t1 val).1.owned = t1.owned := by
  unfold resume
  dsimp only
  split <;> exact ⟨rfl, rfl, rfl, rfl⟩

theorem completionLoop_winv {ex} (ms : List Nat) (r : Run) (h : WInv ex r.w) :
    WInv ex (completionLoop ms r).1.w := by
  induction ms generalizing r with
  | nil => exact h
  | cons m ms ih =>
    simp only [completionLoop]
    split
    · split
      · exact ih _ (h.eraseBox m)
      · exact ih _ (h.eraseBox m)
    · exact h

theorem taskGet_taskErase_ne (l : List Task) (a d : Addr) (h : d ≠ a) :
    taskGet (taskErase l a) d = taskGet l d := by
  induction l with
  | nil => rfl
  | cons x xs ih =>
    simp only [taskErase, taskGet] at ih ⊢
    by_cases hx : x.addr = a
    · have h1 : (x.addr != a) = false := by simp [hx]
      have h2 : (x.addr == d) = false := by simp [hx, Ne.symm h]
      rw [List.filter_cons, h1, List.find?_cons, h2]
      simpa using ih
    · have h1 : (x.addr != a) = true := by simp [hx]
      rw [List.filter_cons, h1]
      simp only [if_true, List.find?_cons]
      cases x.addr == d with
      | true => rfl
      | false => exact ih

/-- `_handle_result` does not look at the entry of a task that is not the registered waiter -/
theorem handleResult_eraseTask (w : Worker) (a : Addr) (v : Val) (a0 : Addr)
    (h : ∀ b, boxGet w.boxes a.m = some b → b.dest ≠ some a0) :
    ({ w with tasks := taskErase w.tasks a0 } : Worker).handleResult a v =
      { (w.handleResult a v) with tasks := taskErase (w.handleResult a v).tasks a0 } := by
  unfold Worker.handleResult
  dsimp only
  split
  · rfl
  · split
    · rfl
    · rename_i b hb
      have hd : (b.deposit a.s v).dest = b.dest := rfl
      cases hde : b.dest with
      | none => simp only [hd, hde]
      | some d =>
        have hne : d ≠ a0 := fun e => h b hb (e ▸ hde)
        simp only [hd, hde, taskGet_taskErase_ne _ _ _ hne]
        split
        · rfl
        · split <;> rfl

/-- `_process_await` followed by writing the task back -/
theorem processAwait_winv (r r1 : Run) (m : Nat) (nxt : Bool) (hr : RInv r) (hm : m ∈ r.t.futs)
    (h1 : processAwait r m nxt = some r1) :
    WInv none { r1.w with tasks := taskSet r1.w.tasks r1.t } := by
  unfold processAwait at h1
  split at h1
  · simp at h1
  · rename_i b hb
    simp only [Option.some.injEq] at h1
    subst h1
    have hnd := hr.nodest r.w.boxes r.w.counter hr.inv
    obtain ⟨f1, _⟩ := hr.inv.futs r.t hr.active_mem
    have hA := hr.inv.setTask r.t { r.t with desired := some m, wakeNext := nxt } hr.active_mem rfl hr.nr
      f1 (by intro k hk; simp only [Option.some.injEq] at hk; exact hk ▸ hm)
      (by intro t' ht' hne k hk hk'
          exact hne (hr.inv.uniq t' ht' r.t hr.active_mem k hk' hk))
      hnd (Or.inl rfl)
    have ht1 : ({ r.t with desired := some m, wakeNext := nxt } : Task) ∈
        taskSet (commit r).tasks { r.t with desired := some m, wakeNext := nxt } :=
      mem_taskSet_self _ _ ⟨r.t, hr.active_mem, rfl⟩
    have hb' : boxGet r.w.boxes m = some b := hb
    have key : ∀ (push : List Addr),
        (push = [r.t.addr] ∧ b.ready = true) ∨ (push = [] ∧ b.ready = false) →
        WInv none { r.w with tasks := taskSet (taskSet r.w.tasks r.t) { r.t with desired := some m, wakeNext := nxt },
                             boxes := boxSet r.w.boxes m { b with dest := some r.t.addr },
                             ready := r.w.ready ++ push } := by
      intro push hp
      have hB := hA.setBoxPush m b { b with dest := some r.t.addr } push hb'
        (hr.inv.box m b hb') (fun x => x) (fun x => x)
        (by rcases hp with ⟨rfl, _⟩ | ⟨rfl, _⟩
            · rw [List.nodup_append]
              exact ⟨hr.inv.nodupR, by simp, by
                intro x hx y hy; simp only [List.mem_singleton] at hy; rw [hy]; intro e; exact hr.nr (e ▸ hx)⟩
            · simpa using hr.inv.nodupR)
        (by intro d hd
            rcases hp with ⟨rfl, hrd⟩ | ⟨rfl, _⟩
            · simp only [List.mem_singleton] at hd
              subst hd
              refine ⟨?_, ?_⟩
              · show r.t.addr ∈ (taskSet (commit r).tasks _).map (·.addr)
                exact List.mem_map.2 ⟨_, ht1, rfl⟩
              · intro t ht hta
                have : t = { r.t with desired := some m, wakeNext := nxt } := hA.eq_of_addr ht ht1 hta
                subst this
                refine ⟨rfl, fun _ => ?_, fun _ => hrd⟩
                intro hfn
                have hz := hr.inv.box m b hb' hfn
                simp only [Box.ready, Bool.and_eq_true, bne_iff_ne, ne_eq] at hrd
                exact hrd.2 hz
            · cases hd)
        (by intro hnr d hde
            simp only [Option.some.injEq] at hde
            subst hde
            rcases hp with ⟨_, hrd⟩ | ⟨rfl, _⟩
            · have : b.ready = false := hnr
              rw [hrd] at this; cases this
            · refine ⟨?_, _, ht1, rfl, rfl⟩
              intro hx
              rcases List.mem_append.1 hx with hx | hx
              · exact hr.nr hx
              · cases hx)
        (by intro t' ht' hdes' hnr hde
            exfalso
            have hmf : m ∈ t'.futs := (hA.futs t' ht').2 m hdes'
            have := hA.uniq t' ht' _ ht1 m hmf hm
            exact hnd m b hb' hnr (this ▸ hde))
      exact hB.unex' (by
        intro t ht hta k bk hdes hbk
        have : t = { r.t with desired := some m, wakeNext := nxt } := hA.eq_of_addr ht ht1 hta
        subst this
        simp only [Option.some.injEq] at hdes
        subst hdes
        have hbk' : boxGet (boxSet r.w.boxes m { b with dest := some r.t.addr }) m = some bk := hbk
        rw [boxGet_boxSet_self] at hbk'
        have : bk = { b with dest := some r.t.addr } := (Option.some.inj hbk').symm
        subst this
        rcases hp with ⟨rfl, _⟩ | ⟨rfl, hrd⟩
        · exact Or.inl (List.mem_append_right _ (by simp))
        · exact Or.inr ⟨hrd, rfl⟩)
    have e1 := taskSet_taskSet r.w.tasks r.t { r.t with desired := some m, wakeNext := nxt } rfl
    dsimp only
    cases hrd : b.ready with
    | true =>
      have hrd' : ({ b with dest := some r.t.addr } : Box).ready = true := hrd
      simp only [hrd', if_true]
      exact (key [r.t.addr] (Or.inl ⟨rfl, hrd⟩)).congr e1.symm rfl rfl rfl rfl rfl
    | false =>
      have hrd' : ({ b with dest := some r.t.addr } : Box).ready = false := hrd
      simp only [hrd']
      exact (key [] (Or.inr ⟨rfl, hrd⟩)).congr e1.symm (by simp) rfl rfl rfl rfl

theorem RInv.erased {r : Run} (hr : RInv r) :
    WInv none { r.w with tasks := taskErase r.w.tasks r.t.addr } := by
  have := hr.inv.eraseTask r.t.addr (hr.nodest r.w.boxes r.w.counter hr.inv)
  exact this.congr (taskErase_taskSet _ _).symm rfl rfl rfl rfl rfl

/-- `_process_task_completion` up to the clean-up loop -/
theorem completionEnter_winv (r : Run) (v : Val) (hr : RInv r)
    (hE : r.t.addr.w = r.w.id → ∀ b, boxGet r.w.boxes r.t.addr.m = some b → b.ready = false) :
    WInv none (completionEnter r v).w := by
  unfold completionEnter
  split
  · rename_i hloc
    have hnd := hr.nodest r.w.boxes r.w.counter hr.inv
    have e := handleResult_eraseTask r.w r.t.addr v r.t.addr
      (fun b hb => hnd _ b hb (hE hloc b hb))
    have := (handleResult_winv _ r.t.addr v hr.erased (fun _ => hE hloc)).1
    rw [e] at this
    exact this
  · exact hr.erased

theorem finishStep_winv (r : Run) (oc : Outcome) (hr : RInv r)
    (hoc : ∀ m nxt, oc = .awaitF m nxt → m ∈ r.t.futs)
    (hE : ∀ v, oc = .done v → r.t.addr.w = r.w.id →
      ∀ b, boxGet r.w.boxes r.t.addr.m = some b → b.ready = false) :
    WInv none (finishStep r oc).w := by
  cases oc with
  | awaitF m nxt =>
    simp only [finishStep]
    split
    · rename_i r1 h1
      exact processAwait_winv r r1 m nxt hr (hoc m nxt rfl) h1
    · split <;> exact hr.inv
  | done v =>
    have hc : WInv none (processCompletion r v).1.w := by
      unfold processCompletion
      split
      · rename_i hn
        obtain ⟨x, hx, hxa⟩ := hr.mem
        exact absurd hxa (taskGet_none_not_mem _ _ hn x hx)
      · exact completionLoop_winv _ _ (completionEnter_winv r v hr (hE v rfl))
    simp only [finishStep]
    split
    · exact hc.congr rfl rfl rfl rfl rfl rfl
    · exact hc
  | err cls isRt =>
    have := (hr.same { r.t with live := false } rfl hr.des rfl rfl r.out r.evs).inv
    simp only [finishStep, bubbleErr]
    split <;> exact this

/-- facts about the task `_get_next_ready_task` returned -/
structure Picked1 (w : Worker) (t0 : Task) : Prop where
  act : Active w t0
  mem0 : t0 ∈ w.tasks
  rc : ∀ m b, t0.desired = some m → boxGet w.boxes m = some b →
    (t0.wakeNext = true → b.fresh ≠ none) ∧ (t0.wakeNext = false → b.ready = true)

theorem PickOK.picked1 {p : Picked} (h : PickOK p) (t0 : Task) (ht : p.task = some t0) : Picked1 p.w t0 := by
  obtain ⟨h1, h2, h3, h4, h5⟩ := h.run t0 ht
  exact ⟨⟨h1, ⟨t0, h2, rfl, rfl⟩, h3, h5, (h1.futs t0 h2).1⟩, h2, h4⟩

/-- `_get_desired_result` can only fail with KeyError (the awaited mailbox was dropped): neither
    of its `assert`s nor the ValueError of `owned_mailboxes.remove` is reachable -/
theorem desiredResult_err {w : Worker} {t0 : Task} (hp : Picked1 w t0) (cls : Nat)
    (h : desiredResult w t0 = .error cls) : WInv none w ∧ cls = eKey := by
  unfold desiredResult at h
  split at h
  · simp at h
  · rename_i m hdes
    split at h
    · rename_i hb
      simp only [Except.error.injEq] at h
      refine ⟨hp.act.inv.unex' ?_, h.symm⟩
      intro t ht hta k bk hdk hbk
      have : t = t0 := hp.act.inv.eq_of_addr ht hp.mem0 hta
      subst this
      rw [hdes] at hdk
      rw [← Option.some.inj hdk, hb] at hbk
      cases hbk
    · rename_i b hb
      obtain ⟨r1, r2⟩ := hp.rc m b hdes hb
      split at h
      · rename_i hw
        split at h
        · rename_i hf; exact absurd hf (r1 hw)
        · simp at h
      · rename_i hw
        have hw' : t0.wakeNext = false := by simpa using hw
        split at h
        · rename_i hnr; rw [r2 hw'] at hnr; simp at hnr
        · split at h
          · rename_i hno
            exfalso
            have hmf := (hp.act.inv.futs t0 hp.mem0).2 m hdes
            have := ((hp.act.inv.futs t0 hp.mem0).1 m hmf).2 (by rw [hb]; rfl)
            simp [this] at hno
          · simp at h

theorem desiredResult_ok {w : Worker} {t0 : Task} (hp : Picked1 w t0) (w1 : Worker) (t1 : Task)
    (val : Option Val) (h : desiredResult w t0 = .ok (w1, t1, val)) : Active w1 t1 := by
  unfold desiredResult at h
  split at h
  · simp only [Except.ok.injEq, Prod.mk.injEq] at h
    rw [← h.1, ← h.2.1]; exact hp.act
  · rename_i m hdes
    split at h
    · simp at h
    · rename_i b hb
      split at h
      · split at h
        · simp at h
        · simp only [Except.ok.injEq, Prod.mk.injEq] at h
          rw [← h.1, ← h.2.1]
          have hi := hp.act.inv.setBoxPush m b { b with fresh := some [] } [] hb (by simp)
            (fun x => x) (by simp) (by simpa using hp.act.inv.nodupR)
            (by intro d hd; cases hd)
            (by intro hnr d hde
                obtain ⟨g1, g2⟩ := hp.act.inv.dest m b d hb hnr hde
                exact ⟨by simpa using g1, g2⟩)
            (by intro t' _ _ hnr hde; exact Or.inr ⟨hnr, hde⟩)
          have hi' : WInv (some t0.addr) { w with boxes := boxSet w.boxes m { b with fresh := some [] } } :=
            hi.congr rfl (by simp) rfl rfl rfl rfl
          refine ⟨hi', ⟨t0, hp.mem0, rfl, rfl⟩, hp.act.nr, ?_, (hi'.futs t0 hp.mem0).1⟩
          intro k bk hbk hnr hde
          rcases boxGet_boxSet_cases _ _ _ _ _ hbk with ⟨rfl, rfl⟩ | ⟨_, hbk'⟩
          · exact hp.act.nd k b hb hnr hde
          · exact hp.act.nd k bk hbk' hnr hde
      · split at h
        · simp at h
        · split at h
          · simp at h
          · simp only [Except.ok.injEq, Prod.mk.injEq] at h
            rw [← h.1, ← h.2.1]
            refine ⟨hp.act.inv.eraseBox m, ⟨t0, hp.mem0, rfl, rfl⟩, hp.act.nr, ?_, ?_⟩
            · intro k bk hbk hnr hde
              exact hp.act.nd k bk (boxGet_boxErase_some _ _ _ _ hbk).1 hnr hde
            · intro k hk
              have := hp.act.fu k hk
              refine ⟨this.1, fun hs => ?_⟩
              cases hbk : boxGet (boxErase w.boxes m) k with
              | none =>
                have hs' : (boxGet (boxErase w.boxes m) k).isSome = true := hs
                rw [hbk] at hs'; cases hs'
              | some bk =>
                obtain ⟨g1, g2⟩ := boxGet_boxErase_some _ _ _ _ hbk
                exact (List.mem_erase_of_ne g2).2 (this.2 (by rw [g1]; rfl))

/-- environment assumption for a loop iteration: a task that returns to a mailbox of its own
    worker finds that mailbox incomplete -/
def Worker.okStep (tbl : Table) (w0 : Worker) : Prop :=
  let p := Worker.pick w0.pickFuel { w0 with blocked := false }
  ∀ t0, p.task = some t0 → ∀ w1 t1 val, desiredResult p.w t0 = .ok (w1, t1, val) → t1.live = true →
    let rb := runBody tbl ((tbl.getD t1.prog []).length + 2)
      { w := w1, t := (resume tbl t1 val).1, out := p.out, evs := (resume tbl t1 val).2 }
    ∀ v, rb.2 = .done v → rb.1.t.addr.w = rb.1.w.id →
      ∀ b, boxGet rb.1.w.boxes rb.1.t.addr.m = some b → b.ready = false

theorem stepTask_winv (tbl : Table) (w : Worker) (out : List Msg) (t0 : Task) (hp : Picked1 w t0)
    (hE : ∀ w1 t1 val, desiredResult w t0 = .ok (w1, t1, val) → t1.live = true →
      ∀ v, (runBody tbl ((tbl.getD t1.prog []).length + 2)
          { w := w1, t := (resume tbl t1 val).1, out := out, evs := (resume tbl t1 val).2 }).2 = .done v →
        (runBody tbl ((tbl.getD t1.prog []).length + 2)
          { w := w1, t := (resume tbl t1 val).1, out := out, evs := (resume tbl t1 val).2 }).1.t.addr.w =
        (runBody tbl ((tbl.getD t1.prog []).length + 2)
          { w := w1, t := (resume tbl t1 val).1, out := out, evs := (resume tbl t1 val).2 }).1.w.id →
        ∀ b, boxGet (runBody tbl ((tbl.getD t1.prog []).length + 2)
          { w := w1, t := (resume tbl t1 val).1, out := out, evs := (resume tbl t1 val).2 }).1.w.boxes
          (runBody tbl ((tbl.getD t1.prog []).length + 2)
          { w := w1, t := (resume tbl t1 val).1, out := out, evs := (resume tbl t1 val).2 }).1.t.addr.m = some b →
          b.ready = false) :
    WInv none (stepTask tbl w out t0).w := by
  unfold stepTask
  split
  · rename_i cls hd
    exact (desiredResult_err hp cls hd).1
  · rename_i w1 t1 val hd
    have hA := desiredResult_ok hp w1 t1 val hd
    split
    · have := (hA.toRInv { { t1 with wakeNext := false, desired := none } with live := false }
        rfl rfl rfl rfl out []).inv
      simp only [bubbleErr]
      split <;> exact this
    · rename_i hl
      have hl' : t1.live = true := by simpa using hl
      obtain ⟨e1, e2, e3, e4⟩ := resume_fields tbl t1 val
      have hr0 := hA.toRInv (resume tbl t1 val).1 e1 e2 e3 e4 out (resume tbl t1 val).2
      have hb := runBody_winv tbl ((tbl.getD t1.prog []).length + 2) _ hr0
      exact finishStep_winv _ _ hb.1 (fun m nxt h => hb.2 m nxt h)
        (fun v hv => hE w1 t1 val hd hl' v hv)

/-- one iteration of the main loop -/
theorem step_winv (tbl : Table) (w : Worker) (h : WInv none w) (hE : w.okStep tbl) :
    WInv none (w.step tbl).w := by
  have hp := pick_winv w.pickFuel { w with blocked := false } (h.congr rfl rfl rfl rfl rfl rfl)
  unfold Worker.step
  dsimp only
  split
  · rename_i hn; exact hp.idle hn
  · rename_i t0 ht0
    exact stepTask_winv tbl _ _ t0 (hp.picked1 t0 ht0) (fun w1 t1 val hd hl v hv => hE t0 ht0 w1 t1 val hd hl v hv)

/-- executable form of `okStep` -/
def Worker.okStepB (tbl : Table) (w0 : Worker) : Bool :=
  let p := Worker.pick w0.pickFuel { w0 with blocked := false }
  match p.task with
  | none => true
  | some t0 =>
    match desiredResult p.w t0 with
    | .error _ => true
    | .ok (w1, t1, val) =>
      let rb := runBody tbl ((tbl.getD t1.prog []).length + 2)
        { w := w1, t := (resume tbl t1 val).1, out := p.out, evs := (resume tbl t1 val).2 }
      match rb.2 with
      | .done _ =>
        if rb.1.t.addr.w = rb.1.w.id then
          match boxGet rb.1.w.boxes rb.1.t.addr.m with
          | some b => !b.ready
          | none => true
        else true
      | _ => true

theorem okStepB_sound (tbl : Table) (w0 : Worker) (h : w0.okStepB tbl = true) : w0.okStep tbl := by
  intro t0 ht w1 t1 val hd _ rb v hv hloc b hb
  simp only [Worker.okStepB] at h
  rw [ht] at h
  simp only at h
  rw [hd] at h
  simp only at h
  rw [hv] at h
  rw [hb] at h
  have h' := h
  simp only [Bool.not_eq_true', ite_eq_right_iff, Bool.not_eq_eq_eq_not, Bool.not_true] at h'
  rcases Classical.em (rb.1.t.addr.w = rb.1.w.id) with e | e
  · first
      | exact h' e
      | (have := h' e; simpa using this)
  · exact absurd hloc e

def Worker.okOp (tbl : Table) (w : Worker) : WOp → Prop
  | .recv m => w.okRecv m
  | .step => w.okStep tbl

/-- a run of a worker in which every operation meets the environment assumptions -/
def Worker.okRun (tbl : Table) : Worker → List WOp → Prop
  | _, [] => True
  | w, op :: ops => w.okOp tbl op ∧ Worker.okRun tbl (w.applyOp tbl op) ops

theorem applyOp_winv (tbl : Table) (w : Worker) (op : WOp) (h : WInv none w) (hok : w.okOp tbl op) :
    WInv none (w.applyOp tbl op) := by
  cases op with
  | recv m => exact recv_winv w m h hok
  | step => exact step_winv tbl w h hok

theorem run_winv (tbl : Table) (w : Worker) (ops : List WOp) (h : WInv none w) (hok : Worker.okRun tbl w ops) :
    WInv none (ops.foldl (Worker.applyOp tbl) w) := by
  induction ops generalizing w with
  | nil => exact h
  | cons op ops ih => exact ih _ (applyOp_winv tbl w op h hok.1) hok.2

theorem winv_init (w : Worker) (h1 : w.tasks = []) (h2 : w.ready = []) (h3 : w.boxes = []) (h4 : w.delayed = []) :
    WInv none w := by
  refine ⟨by simp [Worker.addrs, h1], by simp [h2], ?_, ?_, ?_, ?_, ?_, ?_, ?_, by simp [h4], ?_⟩
  · intro k hk; simp [h3, keys] at hk
  · intro m b hb; simp [h3, boxGet] at hb
  · intro t ht; simp [h1] at ht
  · intro t ht; simp [h1] at ht
  · intro t ht; simp [h1] at ht
  · intro m b d hb; simp [h3, boxGet] at hb
  · intro t ht; simp [h1] at ht
  · intro t ht; simp [h4] at ht

-- executable forms of the assumptions (for concrete runs)
def Task.freshB (t : Task) : Bool := t.desired.isNone && t.futs.isEmpty && t.owned.isEmpty

def Worker.knowsB (w : Worker) (a : Addr) : Bool :=
  w.addrs.contains a || w.ready.contains a || (w.delayed.map (·.addr)).contains a

def Worker.okRecvB (w : Worker) : Msg → Bool
  | .submit t => t.freshB && !w.knowsB t.addr
  | .batch ts => decide ((ts.map (·.addr)).Nodup) && ts.all (fun t => t.freshB && !w.knowsB t.addr)
  | .result a _ _ => decide (a.w ≠ w.id) || match boxGet w.boxes a.m with
    | some b => !b.ready
    | none => true
  | _ => true

def Worker.okRunB (tbl : Table) : Worker → List WOp → Bool
  | _, [] => true
  | w, .recv m :: ops => w.okRecvB m && Worker.okRunB tbl (w.recv m) ops
  | w, .step :: ops => w.okStepB tbl && Worker.okRunB tbl (w.step tbl).w ops

theorem freshB_sound (t : Task) (h : t.freshB = true) : t.fresh := by
  simp only [Task.freshB, Bool.and_eq_true, Option.isNone_iff_eq_none, List.isEmpty_iff] at h
  exact ⟨h.1.1, h.1.2, h.2⟩

theorem knowsB_sound (w : Worker) (a : Addr) (h : w.knowsB a = false) : ¬ w.knows a := by
  simp only [Worker.knowsB, Bool.or_eq_false_iff, List.contains_eq_mem, decide_eq_false_iff_not] at h
  intro hk
  rcases hk with hk | hk | hk
  · exact h.1.1 hk
  · exact h.1.2 hk
  · exact h.2 hk

theorem okRecvB_sound (w : Worker) (m : Msg) (h : w.okRecvB m = true) : w.okRecv m := by
  cases m with
  | submit t =>
    simp only [Worker.okRecvB, Bool.and_eq_true, Bool.not_eq_true'] at h
    exact ⟨freshB_sound t h.1, knowsB_sound w _ h.2⟩
  | batch ts =>
    simp only [Worker.okRecvB, Bool.and_eq_true, decide_eq_true_eq, List.all_eq_true, Bool.not_eq_true'] at h
    exact ⟨h.1, fun t ht => ⟨freshB_sound t (h.2 t ht).1, knowsB_sound w _ (h.2 t ht).2⟩⟩
  | result a v by_ =>
    intro ha b hb
    simp only [Worker.okRecvB, hb, Bool.not_eq_true', Bool.or_eq_true, decide_eq_true_eq] at h
    rcases h with h | h
    · exact absurd ha h
    · exact h
  | _ => trivial

theorem okRunB_sound (tbl : Table) (w : Worker) (ops : List WOp) (h : Worker.okRunB tbl w ops = true) :
    Worker.okRun tbl w ops := by
  induction ops generalizing w with
  | nil => trivial
  | cons op ops ih =>
    cases op with
    | recv m =>
      simp only [Worker.okRunB, Bool.and_eq_true] at h
      exact ⟨okRecvB_sound w m h.1, ih _ h.2⟩
    | step =>
      simp only [Worker.okRunB, Bool.and_eq_true] at h
      exact ⟨okStepB_sound tbl w h.1, ih _ h.2⟩

-- ------------------------------------------------------------------ results
/-- `assert box.ready`, `assert box.fresh_results is not None` and the ValueError of
    `owned_mailboxes.remove` in `_get_desired_result` are unreachable: for the task the next loop
    iteration picks, `_get_desired_result` succeeds or raises KeyError (mailbox dropped) -/
theorem assert_unreachable (w : Worker) (h : WInv none w) (t0 : Task)
    (hp : (Worker.pick w.pickFuel { w with blocked := false }).task = some t0) (cls : Nat)
    (he : desiredResult (Worker.pick w.pickFuel { w with blocked := false }).w t0 = .error cls) :
    cls = eKey := by
  have h0 : WInv none ({ w with blocked := false } : Worker) := h.congr rfl rfl rfl rfl rfl rfl
  exact (desiredResult_err ((pick_winv w.pickFuel _ h0).picked1 t0 hp) cls he).2

/-- no lost wake-up: a task (not cancelled) that waits for a mailbox which is complete is queued;
    if the mailbox is incomplete and the task is not queued it is the registered waiter -/
theorem no_lost_wakeup (w : Worker) (h : WInv none w) (t : Task) (ht : t ∈ w.tasks) (hu : t.uncancelled w)
    (m : Nat) (b : Box) (hd : t.desired = some m) (hb : boxGet w.boxes m = some b) :
    (b.ready = true → t.addr ∈ w.ready) ∧ (t.addr ∉ w.ready → b.dest = some t.addr) := by
  rcases h.wait t ht (by simp) hu m b hd hb with hw | ⟨h1, h2⟩
  · exact ⟨fun _ => hw, fun hn => absurd hw hn⟩
  · refine ⟨fun hr => ?_, fun _ => h2⟩
    rw [h1] at hr; cases hr

/-- the `self._tasks[box.dest_addr]` lookup of `_handle_result` cannot fail -/
theorem result_lookup_ok (w : Worker) (h : WInv none w) (a : Addr) (v : Val) (by_ : Int)
    (hok : w.okRecv (.result a v by_)) (ha : a.w = w.id) :
    (w.recv (.result a v by_)).inDead = w.inDead := by
  have := (handleResult_winv w a v h hok).2
  simp only [Worker.recv]
  rw [this]; simp [ha]

end BqVerif.Runtime
