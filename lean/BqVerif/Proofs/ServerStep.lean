import BqVerif.Proofs.ServerDisc
/-! C13: every well-formed event succeeds on an invariant state and re-establishes the
invariant (`step_ok_inv`). -/
namespace BqVerif.Server

theorem wf_client {s : Srv} {c : Conn} (h : (get? s.clients c).isSome = true) :
    ∃ ts, get? s.clients c = some ts := by
  cases hc : get? s.clients c with
  | none => rw [hc] at h; cases h
  | some ts => exact ⟨ts, rfl⟩

theorem Inv.afterCancel {s : Srv} (h : Inv s) {c ts t m} (hc : get? s.clients c = some ts)
    (ht : t ∈ ts) (h1 : get? s.tasks t = some (m, c)) : Inv (afterCancel s c ts t m) :=
  (h.closeTask hc ht h1).congr rfl rfl rfl rfl rfl rfl rfl

theorem Inv.afterDeliver {s : Srv} (h : Inv s) {c ts t m} (v : Nat) (hc : get? s.clients c = some ts)
    (ht : t ∈ ts) (h1 : get? s.tasks t = some (m, c)) : Inv (afterDeliver s c ts t m v) :=
  (h.closeTask hc ht h1).congr rfl rfl rfl rfl rfl rfl rfl

theorem Inv.afterResult {s : Srv} (h : Inv s) {m b t c ts} (v : Nat) (hb : get? s.boxes m = some b)
    (h1 : get? s.tasks t = some (m, c)) (hc : get? s.clients c = some ts) (ht : t ∈ ts) :
    Inv (afterResult s m b v t c ts) := by
  unfold BqVerif.Server.afterResult
  by_cases hw : b.waiting
  · simp only [hw, if_true]
    refine (h.closeTask hc ht h1).ext rfl (fun _ => rfl) (fun _ => rfl) ?_ rfl rfl rfl
    intro m'
    simp only [BqVerif.Server.closeTask, Srv.emit, get?_del, get?_set]
    by_cases e : m = m' <;> simp [e]
  · simp only [hw]
    exact h.setBox _ hb

/-- C13_no_keyerror and C13_inv in one statement. -/
theorem step_ok_inv {s : Srv} (h : Inv s) (e : Ev) (hw : wf s e = true) :
    ∃ s', step s e = .ok s' ∧ Inv s' := by
  have h0 : Inv { s with out := [] } := h.clearOut
  cases e with
  | connect c =>
    simp only [wf, Bool.and_eq_true, Option.isNone_iff_eq_none, Bool.not_eq_true',
      List.contains_eq_mem, decide_eq_false_iff_not] at hw
    exact ⟨_, rfl, h0.connect hw.1 (by simpa using hw.2)⟩
  | hello c => exact ⟨_, rfl, (h0.emit _).emit _⟩
  | submit c t =>
    simp only [wf, Bool.and_eq_true, Option.isNone_iff_eq_none] at hw
    obtain ⟨ts, hc⟩ := wf_client hw.1
    exact ⟨_, handleNewCompTask_eq h0 hc hw.2, h0.afterSubmit hc hw.2⟩
  | request c t =>
    obtain ⟨ts, hc⟩ := wf_client (by simpa [wf] using hw)
    by_cases ht : t ∈ ts
    · obtain ⟨m, b, h1, h2, h3⟩ := handleRequest_mine h0 (s := { s with out := [] }) hc ht
      refine ⟨_, h3, ?_⟩
      cases hb : b.result with
      | none => exact h0.setBox _ h2
      | some v => exact h0.afterDeliver v hc ht h1
    · have e1 := handleRequest_notMine h0 (s := { s with out := [] }) hc ht
      obtain ⟨s', e2, p⟩ := handleDisconnect_post (h0.emit (.errorNow c 0)) (c := c) (ts := ts) hc
      exact ⟨s', by simp only [step]; rw [e1]; exact e2, (h0.emit _).disc p⟩
  | status c t =>
    obtain ⟨ts, hc⟩ := wf_client (by simpa [wf] using hw)
    exact ⟨_, handleStatus_eq h0 (s := { s with out := [] }) t hc, h0.emit _⟩
  | cancel c t =>
    obtain ⟨ts, hc⟩ := wf_client (by simpa [wf] using hw)
    rcases handleCancel_eq h0 (s := { s with out := [] }) t hc with ⟨_, e1⟩ | ⟨ht, m, b, h1, _, e1⟩
    · exact ⟨_, e1, h0.emit _⟩
    · exact ⟨_, e1, h0.afterCancel hc ht h1⟩
  | disconnect c =>
    obtain ⟨ts, hc⟩ := wf_client (by simpa [wf] using hw)
    obtain ⟨s', e2, p⟩ := handleDisconnect_post h0 (s := { s with out := [] }) (c := c) (ts := ts) hc
    exact ⟨s', e2, h0.disc p⟩
  | result m v =>
    rcases handleResult_eq h0 (s := { s with out := [] }) m v with ⟨_, e1⟩ | ⟨b, t, c, ts, hb, _, h1, hc, ht, e1⟩
    · exact ⟨_, e1, h0⟩
    · exact ⟨_, e1, h0.afterResult v hb h1 hc ht⟩
  | error m msg =>
    rcases handleError_eq h0 (s := { s with out := [] }) m msg with ⟨_, e1⟩ | ⟨b, t, c, ts, _, _, _, _, _, e1⟩
    · exact ⟨_, e1, h0⟩
    · exact ⟨_, e1, h0.emit _⟩
  | log m msg =>
    rcases routeUp_eq h0 (s := { s with out := [] }) m (fun c => .logTo c msg) with ⟨_, e1⟩ | ⟨t, c, _, _, e1⟩
    · exact ⟨_, e1, h0⟩
    · exact ⟨_, e1, h0.emit _⟩

end BqVerif.Server
