import BqVerif.Proofs.TokenNet
/-!
# Every task body is started at most once (flat network)

`TokU a n` counts the *unstarted* task tokens of address `a`: the task inside a SUBMIT /
SUBMIT_BATCH message, in a delayed list, or in a task table with `started = false`.
A `start` event consumes one; tokens are only created at fresh addresses.  Hence along every
run the number of `start a` events is at most one.
-/
namespace BqVerif.Runtime

/-- unstarted entries of a task table -/
def cntU (a : Addr) (ts : List Task) : Nat :=
  sumBy (fun t => if t.addr = a ∧ t.started = false then 1 else 0) ts

def tokMsgU (a : Addr) : Msg → Nat
  | .submit t => if t.addr = a then 1 else 0
  | .batch ts => cntA a ts
  | _ => 0

def tokWU (a : Addr) (w : Worker) : Nat := cntA a w.delayed + cntU a w.tasks
def tokMsgsU (a : Addr) (ms : List Msg) : Nat := sumBy (tokMsgU a) ms
def tokChansU (a : Addr) (cs : List ((NodeId × NodeId) × List Msg)) : Nat :=
  sumBy (fun c => tokMsgsU a c.2) cs
def TokU (a : Addr) (n : Net) : Nat := tokChansU a n.chans + sumBy (tokWU a) n.workers
def tokOutU (a : Addr) (o : Out) : Nat := sumBy (fun dm => tokMsgU a dm.2) o

def isStart (a : Addr) : Ev → Nat
  | .start b _ => if b = a then 1 else 0
  | _ => 0
def startsOf (a : Addr) (evs : List Ev) : Nat := sumBy (isStart a) evs

theorem tokMsgU_le (a : Addr) (m : Msg) : tokMsgU a m ≤ tokMsg a m := by
  cases m <;> simp [tokMsgU, tokMsg]

theorem tokOutU_le (a : Addr) (o : Out) : tokOutU a o ≤ tokOut a o :=
  sumBy_le _ _ _ (fun dm _ => tokMsgU_le a dm.2)

theorem cntU_le_cntA (a : Addr) (l : List Task) : cntU a l ≤ cntA a l := by
  apply sumBy_le
  intro t _
  split <;> split <;> simp_all

theorem cntU_append (a : Addr) (l1 l2 : List Task) : cntU a (l1 ++ l2) = cntU a l1 + cntU a l2 :=
  sumBy_append _ _ _

theorem cntU_filter_le (a : Addr) (p : Task → Bool) (l : List Task) : cntU a (l.filter p) ≤ cntU a l :=
  sumBy_filter_le _ _ _

theorem sumBy_filter_eq {α} (g : α → Nat) (p : α → Bool) (l : List α) :
    sumBy g (l.filter p) = sumBy (fun x => if p x then g x else 0) l := by
  induction l with
  | nil => rfl
  | cons x xs ih =>
    simp only [List.filter_cons]
    split <;> simp_all [sumBy]

/-- writing back a started task: its entries stop counting, nothing else changes -/
theorem cntU_taskSet_started (a : Addr) (l : List Task) (t : Task) (h : t.started = true) :
    cntU a (taskSet l t) = cntU a (taskErase l t.addr) := by
  unfold cntU taskSet taskErase
  rw [sumBy_map, sumBy_filter_eq]
  apply sumBy_congr
  intro x _
  by_cases hx : x.addr = t.addr
  · have e1 : (x.addr == t.addr) = true := by simpa using hx
    have e2 : (x.addr != t.addr) = false := by simpa using hx
    simp [e1, e2, h]
  · have e1 : (x.addr == t.addr) = false := by simpa using hx
    have e2 : (x.addr != t.addr) = true := by simpa using hx
    simp [e1, e2]

theorem cntU_taskSet_le (a : Addr) (l : List Task) (t : Task)
    (h : ∀ x ∈ l, x.addr = t.addr → x.started = true → t.started = true) :
    cntU a (taskSet l t) ≤ cntU a l := by
  unfold cntU taskSet
  rw [sumBy_map]
  apply sumBy_le
  intro x hx
  by_cases e : x.addr == t.addr
  · simp only [e, if_true]
    have e' : x.addr = t.addr := by simpa using e
    by_cases ha : t.addr = a
    · by_cases hs : x.started = false
      · simp only [e', ha, hs, and_self, if_true]
        split <;> omega
      · have hs' : x.started = true := by simpa using hs
        have := h x hx e' hs'
        simp [this]
    · simp [ha]
  · simp [e]

/-- an entry found by `taskGet` accounts for one unit iff it is unstarted -/
theorem cntU_erase_of_get (a : Addr) (l : List Task) (x : Addr) (t : Task) (h : taskGet l x = some t) :
    cntU a (taskErase l x) + (if t.addr = a ∧ t.started = false then 1 else 0) ≤ cntU a l := by
  unfold taskGet at h
  unfold cntU taskErase
  induction l with
  | nil => simp at h
  | cons y ys ih =>
    simp only [List.find?_cons] at h
    simp only [List.filter_cons, sumBy]
    by_cases hy : y.addr = x
    · subst hy
      simp only [beq_self_eq_true] at h
      simp only [Option.some.injEq] at h
      subst h
      simp only [bne_self_eq_false, Bool.false_eq_true, if_false]
      have := sumBy_filter_le (fun t => if t.addr = a ∧ t.started = false then 1 else 0)
        (fun t => t.addr != y.addr) ys
      omega
    · have e : (y.addr == x) = false := by simpa using hy
      have e2 : (y.addr != x) = true := by simpa using hy
      simp only [e] at h
      simp only [e2, if_true, sumBy]
      have := ih h
      omega

theorem startsOf_append (a : Addr) (l1 l2 : List Ev) :
    startsOf a (l1 ++ l2) = startsOf a l1 + startsOf a l2 := sumBy_append _ _ _

-- ------------------------------------------------------------- worker: recv
theorem tokWU_handleResult (b : Addr) (w : Worker) (a : Addr) (v : Val) :
    tokWU b (w.handleResult a v) = tokWU b w := by
  simp only [tokWU, (handleResult_tables w a v).1, (handleResult_tables w a v).2]

theorem tokWU_addTask_le (a : Addr) (w : Worker) (t : Task) :
    tokWU a (w.addTask t) ≤ tokWU a w + (if t.addr = a then 1 else 0) := by
  simp only [tokWU, Worker.addTask, cntU_append]
  have h1 := cntU_filter_le a (fun x => x.addr != t.addr) w.tasks
  simp only [taskErase]
  have h2 : cntU a [t] ≤ (if t.addr = a then 1 else 0) := by
    simp only [cntU, sumBy]
    split <;> split <;> simp_all
  omega

theorem tokWU_recv_le (a : Addr) (w : Worker) (m : Msg) :
    tokWU a (w.recv m) ≤ tokWU a w + tokMsgU a m := by
  cases m <;> simp only [Worker.recv, tokMsgU] <;> try exact Nat.le_add_right _ _
  · rename_i t
    have := tokWU_addTask_le a w t
    simpa [tokWU] using this
  · rename_i ts
    split
    · exact Nat.le_add_right _ _
    · rename_i last hl
      have h1 := cntA_dropLast_getLast a ts last hl
      have h2 := tokWU_addTask_le a { w with receipt := ts.head?.map (fun (x : Task) => x.addr) } last
      simp only [tokWU, Worker.addTask, cntA_append] at h2 ⊢
      omega
  · rw [tokWU_handleResult]; omega
  · have hc : ∀ b, tokWU a (w.handleCancel b) ≤ tokWU a w := by
      intro b
      simp only [tokWU, Worker.handleCancel]
      have h1 := cntU_filter_le a (fun t => !t.descOf b) w.tasks
      have h2 := cntA_filter_le a (fun t => !t.descOf b) w.delayed
      omega
    split
    · have := hc ‹Addr›
      simpa [tokWU] using this
    · exact Nat.le_trans (hc _) (Nat.le_add_right _ _)

-- ------------------------------------------------------------- worker: step
theorem tokMsgsU_append (a : Addr) (l1 l2 : List Msg) :
    tokMsgsU a (l1 ++ l2) = tokMsgsU a l1 + tokMsgsU a l2 := sumBy_append _ _ _

theorem pick_tokU (a : Addr) (fuel : Nat) (w : Worker) :
    tokWU a (Worker.pick fuel w).w + tokMsgsU a (Worker.pick fuel w).out ≤ tokWU a w := by
  induction fuel generalizing w with
  | zero => simp [Worker.pick, tokMsgsU, sumBy]
  | succ n ih =>
    simp only [Worker.pick]
    split
    · split
      · rename_i t ht
        refine Nat.le_trans (ih _) ?_
        have h1 := cntA_dropLast_getLast a w.delayed t ht
        have h2 := tokWU_addTask_le a { w with delayed := w.delayed.dropLast } t
        simp only [tokWU] at h2 ⊢
        omega
      · simp [tokMsgsU, sumBy, tokMsgU, tokWU]
    · split
      · exact Nat.le_trans (ih _) (by simp [tokWU])
      · split
        · exact Nat.le_trans (ih _) (by simp [tokWU])
        · split
          · exact Nat.le_trans (ih _) (by
              simp only [tokWU]
              have := cntU_filter_le a (fun t => t.addr != ‹Addr›) w.tasks
              simp only [taskErase]
              omega)
          · simp [tokMsgsU, sumBy, tokWU]

/-- the picked task is an entry of the task table of the state `pick` returns -/
theorem pick_task_mem (fuel : Nat) (w : Worker) (t : Task) (h : (Worker.pick fuel w).task = some t) :
    taskGet (Worker.pick fuel w).w.tasks t.addr = some t := by
  fun_induction Worker.pick fuel w with
  | case1 w => simp at h
  | case2 fuel w hr t' ht' ih => exact ih h
  | case3 fuel w hr hd => simp at h
  | case4 fuel w a rest hr w1 hc ih => exact ih h
  | case5 fuel w a rest hr w1 hc hg ih => exact ih h
  | case6 fuel w a rest hr w1 hc t' hg hcr ih => exact ih h
  | case7 fuel w a rest hr w1 hc t' hg hcr =>
    simp only [Option.some.injEq] at h
    subst h
    have := taskGet_addr _ _ _ hg
    rw [this]; exact hg

theorem phi_cancelBoxU (a : Addr) (r : Run) (m : Nat) (b : Box) :
    tokWU a (r.cancelBox m b).w + tokMsgsU a (r.cancelBox m b).out = tokWU a r.w + tokMsgsU a r.out := by
  have : tokMsgsU a ((List.range b.expected).map (fun i => Msg.cancel ⟨r.w.id, m, i⟩)) = 0 := by
    apply sumBy_zero
    intro x hx
    simp only [List.mem_map] at hx
    obtain ⟨i, _, rfl⟩ := hx
    rfl
  simp only [Run.cancelBox, tokWU, tokMsgsU_append, this]
  omega

/-- `runBody` never touches the task table, the active task's identity and flag, nor emits a
    start event; new tokens only at fresh addresses -/
theorem runBody_U (a : Addr) (tbl : Table) (fuel : Nat) (r : Run) (w0 : Worker) (B : Nat)
    (hm : Mono w0 r.w) (h : tokWU a r.w + tokMsgsU a r.out ≤ B + ind a w0 r.w) :
    tokWU a (runBody tbl fuel r).1.w + tokMsgsU a (runBody tbl fuel r).1.out
        ≤ B + ind a w0 (runBody tbl fuel r).1.w
    ∧ (runBody tbl fuel r).1.w.tasks = r.w.tasks
    ∧ (runBody tbl fuel r).1.t.addr = r.t.addr
    ∧ (runBody tbl fuel r).1.t.started = r.t.started
    ∧ startsOf a (runBody tbl fuel r).1.evs = startsOf a r.evs := by
  induction fuel generalizing r with
  | zero => exact ⟨h, rfl, rfl, rfl, rfl⟩
  | succ n ih =>
    simp only [runBody]
    split
    · -- submit
      have := ih { r with
          w := { r.w with counter := r.w.counter + 1, boxes := r.w.boxes ++ [(r.w.counter, Box.new none)] },
          t := { r.t with owned := r.t.owned ++ [r.w.counter], futs := r.t.futs ++ [r.w.counter], pc := r.t.pc + 1 },
          out := r.out ++ [Msg.submit (mkChild r.w r.t r.w.counter 0 ‹Nat› r.t.futs.length)],
          evs := r.evs ++ [Ev.spawn r.t.tag r.t.futs.length r.w.counter] }
        (hm.trans (newBox_mono r.w _)) (by
          have hi := ind_trans a w0 r.w
            { r.w with counter := r.w.counter + 1, boxes := r.w.boxes ++ [(r.w.counter, Box.new none)] }
            hm (newBox_mono r.w _)
          simp only [tokWU, tokMsgsU, sumBy_append, sumBy, tokMsgU, mkChild] at h ⊢
          dsimp only at hi
          have : (if (⟨r.w.id, r.w.counter, 0⟩ : Addr) = a then 1 else 0)
              ≤ ind a r.w { r.w with counter := r.w.counter + 1,
                                     boxes := r.w.boxes ++ [(r.w.counter, Box.new none)] } := by
            simp only [ind]
            split
            · rename_i e; subst e; simp
            · exact Nat.zero_le _
          dsimp only at this
          omega)
      refine ⟨this.1, this.2.1, this.2.2.1, this.2.2.2.1, ?_⟩
      rw [this.2.2.2.2, startsOf_append]; simp [startsOf, sumBy, isStart]
    · split
      · exact ⟨h, rfl, rfl, rfl, rfl⟩
      · rename_i ps _ _
        have := ih { r with
            w := { r.w with counter := r.w.counter + 1,
                            boxes := r.w.boxes ++ [(r.w.counter, Box.new (some ps.length))] },
            t := { r.t with owned := r.t.owned ++ [r.w.counter], futs := r.t.futs ++ [r.w.counter], pc := r.t.pc + 1 },
            out := r.out ++ [Msg.batch ((enumFrom 0 ps).map (fun ip => mkChild r.w r.t r.w.counter ip.1 ip.2 r.t.futs.length))],
            evs := r.evs ++ [Ev.spawn r.t.tag r.t.futs.length r.w.counter] }
          (hm.trans (newBox_mono r.w _)) (by
            have hi := ind_trans a w0 r.w
              { r.w with counter := r.w.counter + 1,
                         boxes := r.w.boxes ++ [(r.w.counter, Box.new (some ps.length))] }
              hm (newBox_mono r.w _)
            have hk := enumFrom_kids_cnt a r.w r.t r.w.counter r.t.futs.length 0 ps
            simp only [tokWU, tokMsgsU, sumBy_append, sumBy, tokMsgU] at h ⊢
            dsimp only at hi
            have : (if a.w = r.w.id ∧ a.m = r.w.counter ∧ 0 ≤ a.s ∧ a.s < 0 + ps.length then 1 else 0)
                ≤ ind a r.w { r.w with counter := r.w.counter + 1,
                                       boxes := r.w.boxes ++ [(r.w.counter, Box.new (some ps.length))] } := by
              simp only [ind]
              split
              · rename_i e; rw [if_pos (by omega)]; exact Nat.le_refl _
              · exact Nat.zero_le _
            dsimp only at this
            omega)
        refine ⟨this.1, this.2.1, this.2.2.1, this.2.2.2.1, ?_⟩
        rw [this.2.2.2.2, startsOf_append]; simp [startsOf, sumBy, isStart]
    · split
      · exact ⟨h, rfl, rfl, rfl, rfl⟩
      · exact ⟨h, rfl, rfl, rfl, rfl⟩
    · split
      · exact ⟨h, rfl, rfl, rfl, rfl⟩
      · split
        · exact ⟨h, rfl, rfl, rfl, rfl⟩
        · exact ⟨h, rfl, rfl, rfl, rfl⟩
    · split
      · exact ⟨h, rfl, rfl, rfl, rfl⟩
      · have hev : ∀ k, startsOf a (r.evs ++ [Ev.cancel r.t.tag k]) = startsOf a r.evs := by
          intro k; rw [startsOf_append]; simp [startsOf, sumBy, isStart]
        split
        · exact ⟨h, rfl, rfl, rfl, hev _⟩
        · split
          · exact ⟨h, rfl, rfl, rfl, hev _⟩
          · rename_i k _ _ m _ _ b _ _
            have := ih { ({ w := r.w, t := r.t, out := r.out, evs := r.evs ++ [Ev.cancel r.t.tag k] } : Run).cancelBox m b with
                t := { (({ w := r.w, t := r.t, out := r.out, evs := r.evs ++ [Ev.cancel r.t.tag k] } : Run).cancelBox m b).t with pc := r.t.pc + 1 } }
              (hm.trans (Mono.of_eq rfl (fun _ hk => (mem_keys_boxErase _ _ _ hk).1) (fun _ h => h) rfl))
              (by
                have e := phi_cancelBoxU a
                  { w := r.w, t := r.t, out := r.out, evs := r.evs ++ [Ev.cancel r.t.tag k] } m b
                exact Nat.le_trans (Nat.le_of_eq e) h)
            refine ⟨this.1, this.2.1, this.2.2.1, this.2.2.2.1, ?_⟩
            rw [this.2.2.2.2]; exact hev k
    · refine ⟨h, rfl, rfl, rfl, ?_⟩
      rw [startsOf_append]; simp [startsOf, sumBy, isStart]
    · refine ⟨h, rfl, rfl, rfl, ?_⟩
      rw [startsOf_append]; simp [startsOf, sumBy, isStart]


theorem completionLoop_U (a : Addr) (ms : List Nat) (r : Run) :
    (completionLoop ms r).1.w.tasks = r.w.tasks
    ∧ (completionLoop ms r).1.w.delayed = r.w.delayed
    ∧ tokMsgsU a (completionLoop ms r).1.out = tokMsgsU a r.out
    ∧ (completionLoop ms r).1.evs = r.evs := by
  induction ms generalizing r with
  | nil => exact ⟨rfl, rfl, rfl, rfl⟩
  | cons m ms ih =>
    simp only [completionLoop]
    split
    · rename_i b _
      split
      · exact ih { r with w := { r.w with boxes := boxErase r.w.boxes m } }
      · have := ih (r.cancelBox m b)
        refine ⟨this.1, this.2.1, ?_, this.2.2.2⟩
        rw [this.2.2.1]
        have hc : tokMsgsU a ((List.range b.expected).map (fun i => Msg.cancel ⟨r.w.id, m, i⟩)) = 0 := by
          apply sumBy_zero
          intro x hx
          simp only [List.mem_map] at hx
          obtain ⟨i, _, rfl⟩ := hx
          rfl
        simp [Run.cancelBox, tokMsgsU_append, hc]
    · exact ⟨rfl, rfl, rfl, rfl⟩

theorem processAwait_U (r r' : Run) (m : Nat) (nxt : Bool) (h : processAwait r m nxt = some r') :
    r'.w.tasks = r.w.tasks ∧ r'.w.delayed = r.w.delayed ∧ r'.out = r.out ∧ r'.t.addr = r.t.addr
    ∧ r'.t.started = r.t.started ∧ r'.evs = r.evs := by
  unfold processAwait at h
  split at h
  · simp at h
  · simp only [Option.some.injEq] at h
    rw [← h]
    dsimp only
    split <;> exact ⟨rfl, rfl, rfl, rfl, rfl, rfl⟩

/-- after the coroutine stopped: the (started) active task's table entry no longer counts -/
theorem finishStep_U (a : Addr) (r : Run) (oc : Outcome) (hs : r.t.started = true)
    (hg : (taskGet r.w.tasks r.t.addr).isSome) :
    tokWU a (finishStep r oc).w + tokMsgsU a (finishStep r oc).out + startsOf a (finishStep r oc).evs
      ≤ cntA a r.w.delayed + cntU a (taskErase r.w.tasks r.t.addr) + tokMsgsU a r.out + startsOf a r.evs := by
  cases oc with
  | awaitF m nxt =>
    simp only [finishStep]
    split
    · rename_i r1 hpa
      obtain ⟨h1, h2, h3, h4, h5, h6⟩ := processAwait_U _ _ _ _ hpa
      simp only [tokWU, h1, h2, h3, h6]
      rw [cntU_taskSet_started a r.w.tasks r1.t (by rw [h5]; exact hs), h4]
      exact Nat.le_refl _
    · split
      · simp only [tokWU]
        rw [cntU_taskSet_started a r.w.tasks r.t hs]
        exact Nat.le_refl _
      · simp only [tokWU, tokMsgsU_append]
        rw [cntU_taskSet_started a r.w.tasks r.t hs]
        simp [tokMsgsU, sumBy, tokMsgU]
  | done v =>
    have key : tokWU a (processCompletion r v).1.w + tokMsgsU a (processCompletion r v).1.out
          + startsOf a (processCompletion r v).1.evs
        ≤ cntA a r.w.delayed + cntU a (taskErase r.w.tasks r.t.addr) + tokMsgsU a r.out
          + startsOf a r.evs := by
      unfold processCompletion
      split
      · rename_i hn; rw [hn] at hg; simp at hg
      · obtain ⟨c1, c2, c3, c4⟩ := completionLoop_U a r.t.owned (completionEnter r v)
        simp only [tokWU, c1, c2, c3, c4]
        unfold completionEnter
        split
        · simp only [tokMsgsU_append, (handleResult_tables r.w r.t.addr v).1,
            (handleResult_tables r.w r.t.addr v).2]
          simp [tokMsgsU, sumBy, tokMsgU]
        · simp only [tokMsgsU_append]
          simp [tokMsgsU, sumBy, tokMsgU]
    simp only [finishStep]
    split
    · simp only [tokWU, tokMsgsU_append] at key ⊢
      have : tokMsgsU a [Msg.sysError eKey] = 0 := rfl
      omega
    · exact key
  | err cls isRt =>
    simp only [finishStep, bubbleErr]
    split
    · simp only [tokWU]
      rw [cntU_taskSet_started a r.w.tasks { r.t with live := false } hs]
      exact Nat.le_refl _
    · simp only [tokWU, tokMsgsU_append]
      rw [cntU_taskSet_started a r.w.tasks { r.t with live := false } hs]
      simp [tokMsgsU, sumBy, tokMsgU]

theorem desiredResult_task (w w' : Worker) (t t' : Task) (v : Option Val)
    (h : desiredResult w t = .ok (w', t', v)) :
    t'.addr = t.addr ∧ t'.started = t.started ∧ t'.prog = t.prog := by
  unfold desiredResult at h
  split at h
  · simp only [Except.ok.injEq, Prod.mk.injEq] at h; rw [← h.2.1]; exact ⟨rfl, rfl, rfl⟩
  · split at h
    · simp at h
    · split at h
      · split at h
        · simp at h
        · simp only [Except.ok.injEq, Prod.mk.injEq] at h; rw [← h.2.1]; exact ⟨rfl, rfl, rfl⟩
      · split at h
        · simp at h
        · split at h
          · simp at h
          · simp only [Except.ok.injEq, Prod.mk.injEq] at h; rw [← h.2.1]; exact ⟨rfl, rfl, rfl⟩

theorem resume_U (a : Addr) (tbl : Table) (t1 : Task) (val : Option Val) :
    (resume tbl t1 val).1.started = true ∧ (resume tbl t1 val).1.addr = t1.addr
    ∧ startsOf a (resume tbl t1 val).2 = (if t1.addr = a ∧ t1.started = false then 1 else 0) := by
  unfold resume
  dsimp only
  split
  · refine ⟨rfl, rfl, ?_⟩
    rw [startsOf_append]
    cases hs : t1.started <;> by_cases ha : t1.addr = a <;> simp [startsOf, sumBy, isStart, hs, ha]
  · refine ⟨rfl, rfl, ?_⟩
    cases hs : t1.started <;> by_cases ha : t1.addr = a <;> simp [startsOf, sumBy, isStart, hs, ha]

theorem sumBy_mul {α} (k : α → Nat) (c : Nat) (l : List α) :
    sumBy (fun x => k x * c) l = sumBy k l * c := by
  induction l with
  | nil => simp [sumBy]
  | cons x xs ih => simp only [sumBy, ih, Nat.add_mul]

/-- general write-back bound: every entry with the task's address is replaced -/
theorem cntU_taskSet_mul (a : Addr) (l : List Task) (t : Task) :
    cntU a (taskSet l t) = cntU a (taskErase l t.addr)
      + cntA t.addr l * (if t.addr = a ∧ t.started = false then 1 else 0) := by
  unfold cntU taskSet taskErase cntA
  rw [sumBy_map, sumBy_filter_eq, ← sumBy_mul, ← sumBy_add]
  apply sumBy_congr
  intro x _
  by_cases hx : x.addr = t.addr
  · have e1 : (x.addr == t.addr) = true := by simpa using hx
    have e2 : (x.addr != t.addr) = false := by simpa using hx
    simp [e1, e2, hx]
  · have e1 : (x.addr == t.addr) = false := by simpa using hx
    have e2 : (x.addr != t.addr) = true := by simpa using hx
    simp [e1, e2, hx]

/-- run the body and finish the step, for an arbitrary run state whose active task is a started
    entry of the table -/
theorem runFinish_U (a : Addr) (tbl : Table) (fuel : Nat) (r0 : Run) (w : Worker)
    (hm : Mono w r0.w) (hs : r0.t.started = true) (hg : (taskGet r0.w.tasks r0.t.addr).isSome) :
    tokWU a (finishStep (runBody tbl fuel r0).1 (runBody tbl fuel r0).2).w
      + tokMsgsU a (finishStep (runBody tbl fuel r0).1 (runBody tbl fuel r0).2).out
      + startsOf a (finishStep (runBody tbl fuel r0).1 (runBody tbl fuel r0).2).evs
    ≤ cntA a r0.w.delayed + cntU a (taskErase r0.w.tasks r0.t.addr) + tokMsgsU a r0.out
      + startsOf a r0.evs + ind a w (finishStep (runBody tbl fuel r0).1 (runBody tbl fuel r0).2).w := by
  obtain ⟨hb1, hb2, hb3, hb4, hb5⟩ := runBody_U a tbl fuel r0 w (tokWU a r0.w + tokMsgsU a r0.out) hm
    (Nat.le_add_right _ _)
  have hfin := finishStep_U a (runBody tbl fuel r0).1 (runBody tbl fuel r0).2
    (by rw [hb4]; exact hs) (by rw [hb2, hb3]; exact hg)
  have hC := ind_le_of_mono a w _ _ (finishStep_mono (runBody tbl fuel r0).1 (runBody tbl fuel r0).2)
  rw [hb2, hb3, hb5] at hfin
  simp only [tokWU, hb2] at hb1
  omega

/-- one step of the picked task `t0` (an entry of the table, its address not duplicated) -/
theorem stepTask_U (a : Addr) (tbl : Table) (w : Worker) (out : List Msg) (t0 : Task)
    (hget : taskGet w.tasks t0.addr = some t0) (hu : cntA t0.addr w.tasks ≤ 1) :
    tokWU a (stepTask tbl w out t0).w + tokMsgsU a (stepTask tbl w out t0).out
        + startsOf a (stepTask tbl w out t0).evs
      ≤ tokWU a w + tokMsgsU a out + ind a w (stepTask tbl w out t0).w := by
  have herase := cntU_erase_of_get a w.tasks t0.addr t0 hget
  unfold stepTask
  split
  · simp [tokMsgsU, sumBy_append, sumBy, tokMsgU, startsOf]
  · rename_i w1 t1 val hd
    obtain ⟨e1, e2⟩ := desiredResult_tables _ _ _ _ _ hd
    obtain ⟨ta, ts, _⟩ := desiredResult_task _ _ _ _ _ hd
    have hm1 := desiredResult_mono _ _ _ _ _ hd
    split
    · -- dead coroutine: written back unchanged
      simp only [bubbleErr]
      have hset := cntU_taskSet_mul a w1.tasks
        { ({ t1 with wakeNext := false, desired := none } : Task) with live := false }
      have hset' : cntU a (taskSet w1.tasks
            { ({ t1 with wakeNext := false, desired := none } : Task) with live := false }) ≤ cntU a w.tasks := by
        rw [hset]
        simp only [e1, ta, ts]
        have : cntA t0.addr w.tasks * (if t0.addr = a ∧ t0.started = false then 1 else 0)
            ≤ (if t0.addr = a ∧ t0.started = false then 1 else 0) := by
          split
          · omega
          · simp
        omega
      split
      · simp only [tokWU, e2, startsOf, sumBy] at hset' ⊢; omega
      · simp only [tokWU, e2, tokMsgsU_append, startsOf, sumBy] at hset' ⊢
        have : tokMsgsU a [Msg.error t1.comp eRuntime] = 0 := rfl
        omega
    · dsimp only
      obtain ⟨rs, ra, rst⟩ := resume_U a tbl t1 val
      have hrf := runFinish_U a tbl ((tbl.getD t1.prog []).length + 2)
        { w := w1, t := (resume tbl t1 val).1, out := out, evs := (resume tbl t1 val).2 } w hm1 rs
        (by simp only [ra, ta, e1, hget]; rfl)
      simp only [ra, ta, ts, rst, e1, e2] at hrf
      simp only [tokWU] at hrf ⊢
      omega

theorem tokW_le_one_of (a : Addr) (w : Worker) : cntA a w.tasks ≤ tokW a w := by
  simp only [tokW]; omega

/-- one loop iteration: unstarted tokens + start events never exceed what was there, except at
    fresh addresses -/
theorem step_U (a : Addr) (tbl : Table) (w : Worker) (hu : ∀ b, cntA b w.tasks + cntA b w.delayed ≤ 1) :
    tokWU a (w.step tbl).w + tokMsgsU a (w.step tbl).out + startsOf a (w.step tbl).evs
      ≤ tokWU a w + ind a w (w.step tbl).w := by
  unfold Worker.step
  dsimp only
  have hp := pick_tokU a w.pickFuel { w with blocked := false }
  have h00 : Mono w { w with blocked := false } := Mono.of_eq rfl (fun _ h => h) (fun _ h => h) rfl
  have hpm : Mono w (Worker.pick w.pickFuel { w with blocked := false }).w :=
    h00.trans (pick_mono w.pickFuel _)
  have h0 : tokWU a { w with blocked := false } = tokWU a w := rfl
  split
  · simp only [startsOf, sumBy]
    omega
  · rename_i t0 ht0
    have hmem := pick_task_mem _ _ _ ht0
    -- the picked state's table has no duplicated address either
    have hu' : cntA t0.addr (Worker.pick w.pickFuel { w with blocked := false }).w.tasks ≤ 1 := by
      have := pick_tok t0.addr w.pickFuel { w with blocked := false }
      simp only [phi, tokW] at this
      have := hu t0.addr
      omega
    have hs := stepTask_U a tbl (Worker.pick w.pickFuel { w with blocked := false }).w
      (Worker.pick w.pickFuel { w with blocked := false }).out t0 hmem hu'
    have hsm := stepTask_mono tbl (Worker.pick w.pickFuel { w with blocked := false }).w
      (Worker.pick w.pickFuel { w with blocked := false }).out t0
    have hi := ind_trans a w _ _ hpm hsm
    omega

end BqVerif.Runtime
